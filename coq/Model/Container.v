(** Model/Container.v — executable model of the registry and fee logic of
    contracts/container/contract.go (put / putNamed / putMeta, delete, setEACL,
    get, owner, alias, eACL, count, list, containersOf), together with the
    contracts it calls: Balance (Model/Balance.v, reused), the Netmap
    configuration store, NeoFSID.addKey and the slice of NNS that Container
    uses (isAvailable, ownerOf, getRecords, register, addRecord,
    deleteRecords).  Follows the Go source function by function (same guards,
    same order).  No proofs here.

    Left out (other families): placement rosters (C14), size estimations (C20).

    Storage layout: one typed finite map per key prefix of the contract
    ('x' cid, 'o' owner cid, 'd' cid, "eACL" cid, "nnsHasAlias" cid, 'm' cid).
    The prefixes are pairwise non-overlapping byte strings, so the maps are
    independent; the correspondence check compares the number of raw storage
    keys under every prefix and the total number of keys with the model.
    Values written with std.Serialize are kept as records (Serialize and
    Deserialize are mutually inverse: trusted).  Storage size limits (key 64,
    value 65535 bytes) and gas are not modelled.

    Cryptography: [cid_of] stands for SHA-256 and [b58] for Base58 encoding;
    they are parameters of the model.  Theorems take their injectivity as an
    explicit premise; the correspondence check instantiates them with the
    table of the real values on the blobs of the run. *)
From Verif Require Import Base.Prelude Base.IntCodec Model.Balance.
Local Open Scope Z_scope.

(** * Byte-string helpers *)

Definition nonempty {A} (b : list A) : bool := match b with [] => false | _ => true end.

(** Go slicing [b[off:off+n]] and indexing [b[i]] fault when out of range. *)
Definition cslice (off n : nat) (b : bytes) : outcome bytes :=
  if (off + n <=? length b)%nat then Halt (take n (drop off b)) else Fault.
Definition cnth (i : nat) (b : bytes) : outcome N :=
  match b !! i with Some x => Halt x | None => Fault end.

Definition vm_mul (a b : Z) : outcome Z :=
  if int_ok (a * b) then Halt (a * b)%Z else Fault.

Definition is_suffix (s b : bytes) : bool := is_prefix (rev s) (rev b).

(** Entries of a map in ascending byte order of keys ([storage.Find]). *)
Definition sentries {V} (m : gmap bytes V) : list (bytes * V) :=
  omap (fun k => (fun v => (k, v)) <$> (m !! k)) (skeys m).

(** [storage.Find(prefix ++ p, ValuesOnly)] on one typed map. *)
Definition find_vals {V} (p : bytes) (m : gmap bytes V) : list V :=
  map snd (List.filter (fun kv => is_prefix p (fst kv)) (sentries m)).
Definition find_keys {V} (p : bytes) (m : gmap bytes V) : list bytes :=
  List.filter (is_prefix p) (skeys m).

Definition skeys_set (s : gset bytes) : list bytes := merge_sort bytes_le (elements s).

(** * NNS: the slice Container calls *)

(** [n_owner = []] is the nil owner of committee-owned TLDs.  The [Admin]
    field is always nil in this slice ([setAdmin] is not part of it). *)
Record nname := mkName { n_owner : bytes; n_exp : Z }.

(** Records: only TXT records are in the slice; the ids of the records of one
    (token, name) are always [0..n-1] (addRecord appends, deleteRecords
    removes all), so a list in id order is the stored set. *)
Record nstate := mkN {
  roots : gset bytes;                          (* prefixRoot ++ tld *)
  names : gmap bytes nname;                    (* prefixName ++ hash160 name *)
  txts : gmap (bytes * bytes) (list bytes)     (* prefixRecord ++ h(token) ++ h(name) ++ TXT ++ id *)
}.

(** Result of an NNS call as seen by a caller with try/recover: a panic
    whose message contains "has expired" or "not found" ([NTol]), any other
    exception ([NBad]). *)
Inductive nres (A : Type) : Type := NOk (a : A) | NTol | NBad.
Arguments NOk {A} a.
Arguments NTol {A}.
Arguments NBad {A}.

Definition nbind {A B} (o : nres A) (f : A -> nres B) : nres B :=
  match o with NOk a => f a | NTol => NTol | NBad => NBad end.
Notation "x <-? o ; k" := (nbind o (fun x => k))
  (at level 100, o at next level, k at level 200, right associativity).
Definition nassert (b : bool) (e : nres unit) : nres unit := if b then NOk tt else e.

Definition dot : N := 46%N.

(** [std.StringSplit(s, ".")] = Go [strings.Split]. *)
Fixpoint split_dot (b : bytes) : list bytes :=
  match b with
  | [] => [[]]
  | x :: r =>
      if (x =? dot)%N then [] :: split_dot r
      else match split_dot r with
           | f :: fs => (x :: f) :: fs
           | [] => [[x]]
           end
  end.

Fixpoint join_dot (fs : list bytes) : bytes :=
  match fs with
  | [] => []
  | [f] => f
  | f :: fs' => f ++ dot :: join_dot fs'
  end.

Definition is_alnum (c : N) : bool :=
  ((97 <=? c) && (c <=? 122) || (48 <=? c) && (c <=? 57))%N.
Definition is_lower (c : N) : bool := ((97 <=? c) && (c <=? 122))%N.

(** [checkFragment] (maxRootLength = 16, maxDomainNameFragmentLength = 63). *)
Definition check_fragment (v : bytes) (is_root : bool) : bool :=
  let maxlen := if is_root then 16%nat else 63%nat in
  match v with
  | [] => false
  | c :: _ =>
      (length v <=? maxlen)%nat &&
      (if is_root then is_lower c else is_alnum c) &&
      forallb (fun x => (x =? 45)%N || is_alnum x) (take (length v - 2) (drop 1 v)) &&
      is_alnum (List.last v 0%N)
  end.

Fixpoint check_fragments (fs : list bytes) : bool :=
  match fs with
  | [] => true
  | [f] => check_fragment f true
  | f :: fs' => check_fragment f false && check_fragments fs'
  end.

(** [splitAndCheck]: panics (neither "expired" nor "not found") on a bad name. *)
Definition split_and_check (name : bytes) : nres (list bytes) :=
  if ((length name <? 3) || (255 <? length name))%nat then NBad
  else let fs := split_dot name in
       if check_fragments fs then NOk fs else NBad.

Definition live (now : Z) (ns : nstate) (name : bytes) : bool :=
  match names ns !! name with
  | Some n => now <? n_exp n
  | None => false
  end.

(** The names [fragments[i..]] joined, for i = 0, 1, ..., last. *)
Fixpoint suffix_names (fs : list bytes) : list bytes :=
  match fs with
  | [] => []
  | _ :: fs' => join_dot fs :: suffix_names fs'
  end.

(** [parentExpired(ctx, first, fragments)]. *)
Definition parent_expired (now : Z) (ns : nstate) (first : nat) (fs : list bytes) : bool :=
  existsb (fun nm => negb (live now ns nm)) (drop first (suffix_names fs)).

(** [tokenIDFromName] on already checked fragments: the longest suffix of
    the name (excluding the TLD alone) that is registered and not expired,
    else the name itself. *)
Fixpoint token_id_go (now : Z) (ns : nstate) (fs : list bytes) (full : bytes) : bytes :=
  match fs with
  | [] => full
  | [_] => full
  | _ :: fs' =>
      if live now ns (join_dot fs) then join_dot fs else token_id_go now ns fs' full
  end.

Definition token_id (now : Z) (ns : nstate) (name : bytes) : nres bytes :=
  fs <-? split_and_check name;
  NOk (token_id_go now ns fs name).

(** [getParentConflictingRecord]: a record stored under the parent token whose
    name ends with [name] and is longer. *)
Definition has_conflict (ns : nstate) (parent name : bytes) : bool :=
  existsb (fun kv => let '((tok, rn), recs) := kv in
             bytes_eqb tok parent && nonempty recs &&
             is_suffix name rn && (length name <? length rn)%nat)
          (map_to_list (txts ns)).

Definition parent_of (fs : list bytes) : bytes := join_dot (drop 1 fs).

(** [IsAvailable]. *)
Definition nns_is_available (now : Z) (ns : nstate) (name : bytes) : nres bool :=
  fs <-? split_and_check name;
  let l := length fs in
  if negb (bool_decide (List.last fs [] ∈ roots ns)) then
    if negb (l =? 1)%nat then NTol (* "TLD not found" *) else NOk true
  else if negb (parent_expired now ns 0 fs) then NOk false
  else if (l =? 1)%nat then NBad (* name[len+1:] out of range *)
  else NOk (negb (has_conflict ns (parent_of fs) name)).

(** [getNameStateWithKey] + the [parentExpired(ctx, 1, fragments)] check of
    [getFragmentedNameState]. *)
Definition name_state (now : Z) (ns : nstate) (tok : bytes) (fs : list bytes) : nres nname :=
  match names ns !! tok with
  | None => NTol (* "token not found" *)
  | Some n =>
      if negb (now <? n_exp n) then NTol (* "name has expired" *)
      else if parent_expired now ns 1 fs then NTol (* "parent domain has expired" *)
      else NOk n
  end.

(** [OwnerOf]. *)
Definition nns_owner_of (now : Z) (ns : nstate) (name : bytes) : nres bytes :=
  let fs := split_dot name in
  if (length fs =? 1)%nat then NTol else
  n <-? name_state now ns name fs;
  NOk (n_owner n).

Definition txt_of (ns : nstate) (tok name : bytes) : list bytes :=
  default [] (txts ns !! (tok, name)).

(** [GetRecords(name, TXT)]: the expiration walk follows the token's own name
    ([getFragmentedNameState(ctx, tokenID, nil)]). *)
Definition nns_get_records (now : Z) (ns : nstate) (name : bytes) : nres (list bytes) :=
  let fs := split_dot name in
  if (length fs =? 1)%nat then NTol else
  tok <-? token_id now ns name;
  _ <-? name_state now ns tok (split_dot tok);
  NOk (txt_of ns tok name).

(** [NameState.checkAdmin]: committee-owned names need the committee majority
    witness, others the owner's (the admin is nil). *)
Definition check_admin (wit : list bytes) (caddr : bytes) (n : nname) : nres unit :=
  if nonempty (n_owner n) then nassert (existsb (bytes_eqb (n_owner n)) wit) NBad
  else nassert (existsb (bytes_eqb caddr) wit) NBad.

(** [checkRecord(name, TXT, data)]: returns the token id. *)
Definition check_record (now : Z) (wit : list bytes) (caddr : bytes) (ns : nstate)
    (name data : bytes) : nres bytes :=
  tok <-? token_id now ns name;
  _ <-? nassert (length data <=? 255)%nat NBad;
  let fs := split_dot tok in
  if (length fs =? 1)%nat then NTol else
  n <-? name_state now ns tok fs;
  _ <-? check_admin wit caddr n;
  NOk tok.

(** [AddRecord(name, TXT, data)] (maxRecordID = 15). *)
Definition nns_add_record (now : Z) (wit : list bytes) (caddr : bytes) (ns : nstate)
    (name data : bytes) : nres nstate :=
  tok <-? check_record now wit caddr ns name data;
  let recs := txt_of ns tok name in
  _ <-? nassert (negb (existsb (bytes_eqb data) recs)) NBad;
  _ <-? nassert (length recs <=? 15)%nat NBad;
  NOk (mkN (roots ns) (names ns) (<[(tok, name) := recs ++ [data]]> (txts ns))).

(** [DeleteRecords(name, TXT)]. *)
Definition nns_delete_records (now : Z) (wit : list bytes) (caddr : bytes) (ns : nstate)
    (name : bytes) : nres nstate :=
  tok <-? token_id now ns name;
  let fs := split_dot tok in
  if (length fs =? 1)%nat then NTol else
  n <-? name_state now ns tok fs;
  _ <-? check_admin wit caddr n;
  NOk (mkN (roots ns) (names ns) (delete (tok, name) (txts ns))).

(** [Register(name, owner, email, refresh, retry, expire, ttl)]; the NEP-11
    bookkeeping (supply, balances, account tokens) and the SOA record are not
    part of the slice. *)
Definition nns_register (now : Z) (wit : list bytes) (caddr : bytes) (ns : nstate)
    (name owner : bytes) (expire : Z) : nres (nstate * bool) :=
  fs <-? split_and_check name;
  let l := length fs in
  if (l =? 1)%nat then NBad (* "TLD denied" *) else
  if negb (bool_decide (List.last fs [] ∈ roots ns)) then NTol (* "TLD not found" *) else
  if parent_expired now ns 1 fs then NBad else
  _ <-? (if (2 <? l)%nat then
           match names ns !! parent_of fs with
           | Some pn => check_admin wit caddr pn
           | None => NBad
           end
         else NOk tt);
  _ <-? nassert (negb (has_conflict ns (parent_of fs) name)) NBad;
  _ <-? nassert (length owner =? 20)%nat NBad;
  _ <-? nassert (existsb (bytes_eqb owner) wit) NBad;
  if live now ns name then NOk (ns, false) else
  NOk (mkN (roots ns) (<[name := mkName owner (now + expire * 1000)]> (names ns)) (txts ns), true).

(** * Container *)

(** [Container] / [ExtendedACL] structures (value, signature, public key, token). *)
Record cnr := mkCnr { c_val : bytes; c_sig : bytes; c_pub : bytes; c_tok : bytes }.

Record cstate := mkC {
  cnrs : gmap bytes cnr;        (* 'x' ++ cid *)
  oidx : gmap bytes bytes;      (* 'o' ++ owner ++ cid  |->  cid   (key here: owner ++ cid) *)
  tomb : gset bytes;            (* 'd' ++ cid *)
  eacls : gmap bytes cnr;       (* "eACL" ++ cid *)
  aliases : gmap bytes bytes;   (* "nnsHasAlias" ++ cid |-> domain *)
  metas : gset bytes;           (* 'm' ++ cid *)
  nroot : bytes                 (* "nnsRoot" *)
}.

Record world := mkW {
  w_c : cstate;
  w_b : bstate;                 (* Balance *)
  w_cfg : gmap bytes Z;         (* Netmap: "config" ++ key, integer values *)
  w_n : nstate;                 (* NNS *)
  w_id : gset bytes             (* NeoFSID: 'o' ++ owner ++ key *)
}.

(** Invocation context.  [x_alpha]: the transaction carries the witness of
    [common.AlphabetAddress()] (2/3+1 multisignature of the committee);
    [x_alphabet]: [contract.CreateStandardAccount(k)] for the keys [k] of
    [neo.GetCommittee()], in that order; [x_now]: block time (ms);
    [x_wit]: script hashes of the signers; [x_caddr]:
    [common.CommitteeAddress()]; [x_self]: hash of the Container contract. *)
Record cctx := mkCC {
  x_alpha : bool; x_alphabet : list bytes; x_now : Z;
  x_wit : list bytes; x_caddr : bytes; x_self : bytes }.

Inductive wnotif :=
| NPut (cid pub : bytes)
| NDel (cid : bytes)
| NEacl (cid pub : bytes)
| NBal (n : notif).

Inductive wop :=
| Put (blob sig pub tok : bytes)
| PutNamed (blob sig pub tok name zone : bytes)
| PutMeta (blob sig pub tok : bytes) (meta : bool)
| Delete (cid sig tok : bytes)
| SetEACL (eacl sig pub tok : bytes)
| Bal (o : bop)                                    (* any Balance invocation *)
| SetConfig (key : bytes) (v : Z)                  (* netmap.setConfig *)
| NnsRegister (name owner : bytes) (expire : Z)    (* direct NNS invocations *)
| NnsAddTxt (name data : bytes)
| NnsDelTxt (name : bytes).

Definition key_fee : bytes := [67;111;110;116;97;105;110;101;114;70;101;101]%N.
Definition key_alias_fee : bytes := [67;111;110;116;97;105;110;101;114;65;108;105;97;115;70;101;101]%N.
Definition default_root : bytes := [99;111;110;116;97;105;110;101;114]%N.
Definition default_expire : Z := 3600 * 24 * 365 * 10.

(** [ownerFromBinaryContainer] (V2 format): faults on blobs shorter than
    [2 + blob[1] + 4 + 25]. *)
Definition owner_of_blob (b : bytes) : outcome bytes :=
  v <-! cnth 1 b;
  cslice (2 + N.to_nat v + 4) 25 b.

(** [common.WalletToScriptHash]: [wallet[1 : len-4]]. *)
Definition wallet_to_sh (o : bytes) : bytes := take (length o - 5) (drop 1 o).

(** [getOwnerByID]. *)
Definition get_owner_by_id (cs : cstate) (cid : bytes) : outcome (option bytes) :=
  match cnrs cs !! cid with
  | None => Halt None
  | Some c =>
      if nonempty (c_val c) then o <-! owner_of_blob (c_val c); Halt (Some o)
      else Halt None
  end.

(** [addContainer] / [removeContainer]. *)
Definition add_container (cs : cstate) (cid owner : bytes) (c : cnr) : cstate :=
  mkC (<[cid := c]> (cnrs cs)) (<[owner ++ cid := cid]> (oidx cs)) (tomb cs)
      (eacls cs) (aliases cs) (metas cs) (nroot cs).

Definition remove_container (cs : cstate) (cid owner : bytes) : cstate :=
  mkC (delete cid (cnrs cs)) (delete (owner ++ cid) (oidx cs)) ({[cid]} ∪ tomb cs)
      (delete cid (eacls cs)) (aliases cs) (metas cs ∖ {[cid]}) (nroot cs).

Definition set_alias (cs : cstate) (cid : bytes) (d : option bytes) : cstate :=
  mkC (cnrs cs) (oidx cs) (tomb cs) (eacls cs)
      (match d with Some x => <[cid := x]> (aliases cs) | None => delete cid (aliases cs) end)
      (metas cs) (nroot cs).

Definition set_meta (cs : cstate) (cid : bytes) : cstate :=
  mkC (cnrs cs) (oidx cs) (tomb cs) (eacls cs) (aliases cs) ({[cid]} ∪ metas cs) (nroot cs).

Definition set_eacl_rec (cs : cstate) (cid : bytes) (e : cnr) : cstate :=
  mkC (cnrs cs) (oidx cs) (tomb cs) (<[cid := e]> (eacls cs)) (aliases cs) (metas cs) (nroot cs).

(** Netmap [config(key).(int)]: an absent key is Null, on which the
    arithmetic that follows faults. *)
Definition cfg_int (cfg : gmap bytes Z) (k : bytes) : outcome Z :=
  match cfg !! k with Some z => Halt z | None => Fault end.

Definition of_nres {A} (r : nres A) : outcome A :=
  match r with NOk a => Halt a | _ => Fault end.

Section Model.
  (** SHA-256 and Base58. *)
  Variable cid_of : bytes -> bytes.
  Variable b58 : bytes -> bytes.

  (** The witnesses NNS sees when Container calls it: the signers and the
      calling contract. *)
  Definition nns_wit (c : cctx) : list bytes := x_self c :: x_wit c.

  (** [checkNiceNameAvailable]. *)
  Definition check_nice_name (c : cctx) (ns : nstate) (domain : bytes) : outcome bool :=
    avail <-! of_nres (nns_is_available (x_now c) ns domain);
    if (avail : bool) then Halt true else
    owner <-! of_nres (nns_owner_of (x_now c) ns domain);
    _ <-! oassert (bytes_eqb owner (x_caddr c) || bytes_eqb owner (x_self c));
    recs <-! of_nres (nns_get_records (x_now c) ns domain);
    _ <-! oassert (negb (nonempty recs));
    Halt false.

  (** The fee loop: one [balance.transferX] per Alphabet node. *)
  Fixpoint pay_all (c : cctx) (b : bstate) (from : bytes) (tos : list bytes) (fee : Z)
      (details : bytes) : outcome (bstate * list notif) :=
    match tos with
    | [] => Halt (b, [])
    | t :: tos' =>
        '(b1, _, ns1) <-! bexec (mkCtx (x_wit c) (x_alpha c)) b (TransferX from t fee details);
        '(b2, ns2) <-! pay_all c b1 from tos' fee details;
        Halt (b2, ns1 ++ ns2)
    end.

  (** [neofsid.AddKey(owner, [key])]. *)
  Definition add_key (c : cctx) (ids : gset bytes) (owner key : bytes) : outcome (gset bytes) :=
    _ <-! oassert (length owner =? 25)%nat;
    _ <-! oassert (length key =? 33)%nat;
    _ <-! oassert (x_alpha c);
    Halt ({[owner ++ key]} ∪ ids).

  (** [PutNamed]. *)
  Definition put_named (c : cctx) (w : world) (blob sig pub tok name zone : bytes)
    : outcome (world * list wnotif) :=
    let cs := w_c w in
    owner <-! owner_of_blob blob;
    let cid := cid_of blob in
    _ <-! oassert (negb (bool_decide (cid ∈ tomb cs)));
    '(need, domain) <-!
       (if nonempty name then
          let zone' := if nonempty zone then zone else nroot cs in
          let domain := name ++ dot :: zone' in
          need <-! check_nice_name c (w_n w) domain;
          Halt (need, domain)
        else Halt (false, []));
    let from := wallet_to_sh owner in
    fee0 <-! cfg_int (w_cfg w) key_fee;
    let balance := balance_of (w_b w) from in
    fee <-! (if nonempty name then
               af <-! cfg_int (w_cfg w) key_alias_fee; vm_add fee0 af
             else Halt fee0);
    total <-! vm_mul fee (Z.of_nat (length (x_alphabet c)));
    _ <-! oassert (negb (balance <? total));
    _ <-! oassert (x_alpha c);
    '(b', bns) <-! pay_all c (w_b w) from (x_alphabet c) fee (16%N :: cid);
    let cs1 := add_container cs cid owner (mkCnr blob sig pub tok) in
    '(n', cs2) <-!
       (if nonempty name then
          n1 <-! (if (need : bool) then
                    '(n1, r) <-! of_nres (nns_register (x_now c) (nns_wit c) (x_caddr c) (w_n w)
                                            domain (x_self c) default_expire);
                    _ <-! oassert r;
                    Halt n1
                  else Halt (w_n w));
          n2 <-! of_nres (nns_add_record (x_now c) (nns_wit c) (x_caddr c) n1 domain (b58 cid));
          Halt (n2, set_alias cs1 cid (Some domain))
        else Halt (w_n w, cs1));
    id' <-! (if nonempty tok then Halt (w_id w) else add_key c (w_id w) owner pub);
    (* runtime.Notify("PutSuccess", Hash256, PublicKey) checks the manifest types *)
    _ <-! oassert ((length cid =? 32)%nat && (length pub =? 33)%nat);
    Halt (mkW cs2 b' (w_cfg w) n' id', map NBal bns ++ [NPut cid pub]).

  (** [Put]. *)
  Definition put (c : cctx) (w : world) (blob sig pub tok : bytes) :=
    put_named c w blob sig pub tok [] [].

  (** [PutMeta] (exposed as the five-argument overload of "put"). *)
  Definition put_meta (c : cctx) (w : world) (blob sig pub tok : bytes) (meta : bool) :=
    let w1 := if meta then mkW (set_meta (w_c w) (cid_of blob)) (w_b w) (w_cfg w) (w_n w) (w_id w)
              else w in
    put c w1 blob sig pub tok.

  (** [deleteNNSRecords]: the recover handler lets "has expired"/"not found"
      exceptions of the callee pass (callee rolled back), re-panics on others. *)
  Definition delete_nns_records (c : cctx) (ns : nstate) (domain : bytes) : outcome nstate :=
    match nns_delete_records (x_now c) (nns_wit c) (x_caddr c) ns domain with
    | NOk ns' => Halt ns'
    | NTol => Halt ns
    | NBad => Fault
    end.

  (** [Delete]. *)
  Definition delete_cnr (c : cctx) (w : world) (cid sig tok : bytes)
    : outcome (world * list wnotif) :=
    let cs := w_c w in
    oo <-! get_owner_by_id cs cid;
    match oo with
    | None => Halt (w, [])
    | Some owner =>
        _ <-! oassert (x_alpha c);
        '(n', cs1) <-!
           (match aliases cs !! cid with
            | Some domain =>
                if nonempty domain then
                  n' <-! delete_nns_records c (w_n w) domain;
                  Halt (n', set_alias cs cid None)
                else Halt (w_n w, cs)
            | None => Halt (w_n w, cs)
            end);
        let cs2 := remove_container cs1 cid owner in
        Halt (mkW cs2 (w_b w) (w_cfg w) n' (w_id w), [NDel cid])
    end.

  (** [SetEACL] (V2 format: the container id sits at [2 + eACL[1] + 4]). *)
  Definition set_eacl (c : cctx) (w : world) (eacl sig pub tok : bytes)
    : outcome (world * list wnotif) :=
    let cs := w_c w in
    v <-! cnth 1 eacl;
    cid <-! cslice (2 + N.to_nat v + 4) 32 eacl;
    oo <-! get_owner_by_id cs cid;
    match oo with
    | None => Fault
    | Some _ =>
        _ <-! oassert (x_alpha c);
        let cs1 := set_eacl_rec cs cid (mkCnr eacl sig pub tok) in
        _ <-! oassert (length pub =? 33)%nat;
        Halt (mkW cs1 (w_b w) (w_cfg w) (w_n w) (w_id w), [NEacl cid pub])
    end.

  (** ** Read API *)

  Definition get (cs : cstate) (cid : bytes) : outcome cnr :=
    match cnrs cs !! cid with
    | Some c => if nonempty (c_val c) then Halt c else Fault
    | None => Fault
    end.

  Definition owner (cs : cstate) (cid : bytes) : outcome bytes :=
    oo <-! get_owner_by_id cs cid;
    match oo with Some o => Halt o | None => Fault end.

  Definition alias (cs : cstate) (cid : bytes) : outcome (option bytes) :=
    oo <-! get_owner_by_id cs cid;
    match oo with Some _ => Halt (aliases cs !! cid) | None => Fault end.

  Definition empty_cnr : cnr := mkCnr [] [] [] [].

  Definition eacl (cs : cstate) (cid : bytes) : outcome cnr :=
    oo <-! get_owner_by_id cs cid;
    match oo with Some _ => Halt (default empty_cnr (eacls cs !! cid)) | None => Fault end.

  Definition count (cs : cstate) : Z := Z.of_nat (length (skeys (cnrs cs))).

  Definition containers_of (cs : cstate) (o : bytes) : list bytes := find_vals o (oidx cs).

  Definition list_cnrs (cs : cstate) (o : bytes) : list bytes :=
    if nonempty o then find_vals o (oidx cs) else skeys (cnrs cs).

  (** ** One invocation *)

  Definition wexec (c : cctx) (w : world) (o : wop) : outcome (world * val * list wnotif) :=
    match o with
    | Put blob sig pub tok =>
        '(w', ns) <-! put c w blob sig pub tok; Halt (w', VNull, ns)
    | PutNamed blob sig pub tok name zone =>
        '(w', ns) <-! put_named c w blob sig pub tok name zone; Halt (w', VNull, ns)
    | PutMeta blob sig pub tok meta =>
        '(w', ns) <-! put_meta c w blob sig pub tok meta; Halt (w', VNull, ns)
    | Delete cid sig tok =>
        '(w', ns) <-! delete_cnr c w cid sig tok; Halt (w', VNull, ns)
    | SetEACL e sig pub tok =>
        '(w', ns) <-! set_eacl c w e sig pub tok; Halt (w', VNull, ns)
    | Bal bo =>
        '(b', r, ns) <-! bexec (mkCtx (x_wit c) (x_alpha c)) (w_b w) bo;
        Halt (mkW (w_c w) b' (w_cfg w) (w_n w) (w_id w), r, map NBal ns)
    | SetConfig k v =>
        _ <-! oassert (x_alpha c);
        Halt (mkW (w_c w) (w_b w) (<[k := v]> (w_cfg w)) (w_n w) (w_id w), VNull, [])
    | NnsRegister name o e =>
        '(n', r) <-! of_nres (nns_register (x_now c) (x_wit c) (x_caddr c) (w_n w) name o e);
        Halt (mkW (w_c w) (w_b w) (w_cfg w) n' (w_id w), VBool r, [])
    | NnsAddTxt name data =>
        n' <-! of_nres (nns_add_record (x_now c) (x_wit c) (x_caddr c) (w_n w) name data);
        Halt (mkW (w_c w) (w_b w) (w_cfg w) n' (w_id w), VNull, [])
    | NnsDelTxt name =>
        n' <-! of_nres (nns_delete_records (x_now c) (x_wit c) (x_caddr c) (w_n w) name);
        Halt (mkW (w_c w) (w_b w) (w_cfg w) n' (w_id w), VNull, [])
    end.

  (** Transaction wrapper: a fault changes no contract's state and emits nothing. *)
  Definition wstep (w : world) (co : cctx * wop) : world * val * list wnotif :=
    match wexec (fst co) w (snd co) with
    | Halt (w', r, ns) => (w', r, ns)
    | Fault => (w, VFault, [])
    end.

  Definition wrun_from (w : world) (ops : list (cctx * wop)) : world :=
    fold_left (fun w co => fst (fst (wstep w co))) ops w.

  (** ** Observables for the correspondence check *)

  Definition cnr_val (c : cnr) : val :=
    VList [VBytes (c_val c); VBytes (c_sig c); VBytes (c_pub c); VBytes (c_tok c)].
  Definition out_val {A} (f : A -> val) (o : outcome A) : val :=
    match o with Halt a => f a | Fault => VFault end.
  Definition bl_val (l : list bytes) : val := VList (map VBytes l).
  Definition opt_val (o : option bytes) : val :=
    match o with Some b => VBytes b | None => VNull end.

  Definition wnotif_val (n : wnotif) : val :=
    match n with
    | NPut cid pub => VList [VInt 10; VBytes cid; VBytes pub]
    | NDel cid => VList [VInt 11; VBytes cid]
    | NEacl cid pub => VList [VInt 12; VBytes cid; VBytes pub]
    | NBal b => notif_val b
    end.

  (** What is looked at after every operation. *)
  Record probe := mkProbe {
    p_cids : list bytes;      (* get / owner / alias / eACL of each *)
    p_owners : list bytes;    (* list / containersOf of each *)
    p_domains : list bytes;   (* nns.getRecords(d, TXT) of each *)
    p_accts : list bytes;     (* balance.balanceOf of each *)
    p_idowners : list bytes   (* neofsid.key of each *)
  }.

  Definition nres_val {A} (f : A -> val) (r : nres A) : val :=
    match r with NOk a => f a | _ => VFault end.

  Definition wobserve (p : probe) (now : Z) (w : world) (r : val) (ns : list wnotif) : val :=
    let cs := w_c w in
    VList [ r;
            VList (map wnotif_val ns);
            VList (map (fun cid => VList [ out_val cnr_val (get cs cid);
                                           out_val VBytes (owner cs cid);
                                           out_val opt_val (alias cs cid);
                                           out_val cnr_val (eacl cs cid) ]) (p_cids p));
            VList (map (fun o => VList [ bl_val (list_cnrs cs o); bl_val (containers_of cs o) ])
                       (p_owners p));
            VInt (count cs);
            VList (map (fun d => nres_val bl_val (nns_get_records now (w_n w) d)) (p_domains p));
            VList (map (fun a => VInt (balance_of (w_b w) a)) (p_accts p));
            (* raw storage scan of the Container contract, grouped by prefix *)
            VList [ VInt (Z.of_nat (size (cnrs cs))); VInt (Z.of_nat (size (oidx cs)));
                    VInt (Z.of_nat (size (tomb cs))); VInt (Z.of_nat (size (eacls cs)));
                    VInt (Z.of_nat (size (aliases cs))); VInt (Z.of_nat (size (metas cs))) ];
            VList (map (fun o => bl_val (map (drop (length o)) (List.filter (is_prefix o)
                                   (skeys_set (w_id w))))) (p_idowners p)) ].

  Definition wstep_obs (p : probe) (w : world) (co : cctx * wop) : world * val :=
    (* the read-only test invocations run in a block one millisecond later *)
    let '(w', r, ns) := wstep w co in (w', wobserve p (x_now (fst co) + 1) w' r ns).
End Model.

(** Initial state right after deployment (the NNS part is what the
    deployment scripts registered). *)
Definition cinit (root : bytes) : cstate := mkC ∅ ∅ ∅ ∅ ∅ ∅ root.
Definition winit (root : bytes) (ns : nstate) : world := mkW (cinit root) binit ∅ ns ∅.

(** Table instance of a hash function, for the correspondence check. *)
Definition table_fun (tab : list (bytes * bytes)) (b : bytes) : bytes :=
  match List.find (fun kv => bytes_eqb (fst kv) b) tab with
  | Some kv => snd kv
  | None => []
  end.
