(** Model/Audit.v — storage-level model of contracts/audit/contract.go.
    Result key (AuditHeader.ID): int_to_bytes epoch ++ cid ++ sha256(from)[:24];
    the V2 header parser is modelled with its offsets.  SHA-256 is abstract:
    the op carries [hk], the 24 leading bytes of sha256(from) computed by the
    harness (theorems assume [hk] is a function of [from]).  No proofs here. *)
From Verif Require Import Base.Prelude Base.IntCodec Model.StoreLib.
Local Open Scope Z_scope.

Record ahdr := mkHdr { h_epoch : Z; h_cid : bytes; h_from : bytes }.

(** [readNext]: length from the first byte, then the data. *)
Definition read_next (input : bytes) : outcome (bytes * nat) :=
  ln <-! bnth 0 input;
  d <-! bslice 1 (N.to_nat ln) input;
  Halt (d, S (N.to_nat ln)).

(** [newAuditHeader] *)
Definition parse_hdr (input : bytes) : outcome ahdr :=
  vl <-! bnth 1 input;
  let offset := (2 + N.to_nat vl + 1)%nat in
  eb <-! bslice offset 8 input;
  let epoch := bytes_to_int eb in
  let offset := (offset + 8)%nat in
  r1 <-! bfrom (offset + 2 + 1) input;
  '(cid, cid_off) <-! read_next r1;
  r2 <-! bfrom (offset + 2 + 1 + cid_off + 1) input;
  '(key, _) <-! read_next r2;
  Halt (mkHdr epoch cid key).

(** [AuditHeader.ID] with the hash supplied. *)
Definition aid (e : Z) (cid hk : bytes) : bytes := int_to_bytes e ++ cid ++ hk.

(** [Put]: [ir] = the designated NeoFSAlphabet role keys at the next block
    ([common.InnerRingNodes]); [wit] = the public keys that witness the
    transaction. *)
Inductive aop := APut (ir wit : list bytes) (raw hk : bytes).

Definition aput (s : store) (ir wit : list bytes) (raw hk : bytes) : outcome store :=
  hdr <-! parse_hdr raw;
  let presented := existsb (bytes_eqb (h_from hdr)) ir in
  _ <-! oassert (existsb (bytes_eqb (h_from hdr)) wit && presented);
  sput (aid (h_epoch hdr) (h_cid hdr) hk) raw s.

(** [Get] (Null when absent), [List], [ListByEpoch], [ListByCID], [ListByNode]
    (the node is given by the 24 hash bytes of its key). *)
Definition aget (s : store) (id : bytes) : option bytes := s !! id.
Definition alist (s : store) : list bytes := map fst (sfind [] s).
Definition alist_epoch (s : store) (e : Z) : list bytes := map fst (sfind (int_to_bytes e) s).
Definition alist_cid (s : store) (e : Z) (cid : bytes) : list bytes :=
  map fst (sfind (int_to_bytes e ++ cid) s).
Definition alist_node (s : store) (e : Z) (cid hk : bytes) : list bytes :=
  map fst (sfind (aid e cid hk) s).

(** The calls: a key / scan prefix longer than 64 bytes faults (StoreLib). *)
Definition aget_call (s : store) (id : bytes) : outcome (option bytes) := with_key id (aget s id).
Definition alist_cid_call (s : store) (e : Z) (cid : bytes) : outcome (list bytes) :=
  with_key (int_to_bytes e ++ cid) (alist_cid s e cid).
Definition alist_node_call (s : store) (e : Z) (cid hk : bytes) : outcome (list bytes) :=
  with_key (aid e cid hk) (alist_node s e cid hk).

Definition aexec (s : store) (o : aop) : outcome store :=
  match o with APut ir wit raw hk => aput s ir wit raw hk end.

Definition astep (s : store) (o : aop) : store * val :=
  match aexec s o with Halt s' => (s', VNull) | Fault => (s, VFault) end.

Definition arun (ops : list aop) : store := fold_left (fun s o => fst (astep s o)) ops ∅.

(** Accepted results of a history in order: (epoch, cid, from, hk, raw). *)
Record aentry := mkAE { ae_epoch : Z; ae_cid : bytes; ae_from : bytes; ae_hk : bytes; ae_raw : bytes }.
Definition ae_id (x : aentry) : bytes := aid (ae_epoch x) (ae_cid x) (ae_hk x).

Fixpoint alog_from (s : store) (ops : list aop) : list aentry :=
  match ops with
  | [] => []
  | APut ir wit raw hk as o :: ops' =>
      match aexec s o, parse_hdr raw with
      | Halt s', Halt h => mkAE (h_epoch h) (h_cid h) (h_from h) hk raw :: alog_from s' ops'
      | Halt s', Fault => alog_from s' ops'   (* impossible: aput parses first *)
      | Fault, _ => alog_from s ops'
      end
  end.
Definition alog (ops : list aop) := alog_from ∅ ops.

(** Observables: [q] = (epochs, cids, node hashes, one extra id for Get). *)
Definition opt_val (o : option bytes) : val :=
  match o with Some b => VBytes b | None => VNull end.

Definition out_list (o : outcome (list bytes)) : val :=
  match o with Halt l => VBytesList l | Fault => VFault end.
Definition aobserve (q : list Z * list bytes * list bytes * bytes) (s : store) (r : val) : val :=
  let '(es, cs, hs, x) := q in
  VList [ r;
          VBytesList (alist s);
          VList (map (fun e => VBytesList (alist_epoch s e)) es);
          VList (map (fun e => VList (map (fun c => out_list (alist_cid_call s e c)) cs)) es);
          VList (map (fun e => VList (map (fun c =>
                   VList (map (fun h => out_list (alist_node_call s e c h)) hs)) cs)) es);
          VList (map (fun id => match aget_call s id with Halt o => opt_val o | Fault => VFault end)
                     (alist s ++ [x])) ].

Definition astep_obs q (s : store) (o : aop) : store * val :=
  let '(s', r) := astep s o in (s', aobserve q s' r).

Definition acheck_case (c : (list Z * list bytes * list bytes * bytes) * list (aop * val)) :=
  run_case (astep_obs (fst c)) ∅ 0 (snd c).
