(** Model/VoteReentry.v — the vote-gated methods of contracts/neofs/contract.go
    (notary disabled) when the payee of a cheque may be a CONTRACT.

    Native GAS [transfer] calls [onNEP17Payment] of a payee that is a deployed
    contract, in the middle of [Cheque], after [common.RemoveVotes] and before
    [runtime.Notify].  That foreign code may call the NeoFS contract again; the
    witness of the Alphabet key that signed the carrier transaction holds in
    the nested call (Global scope), and [ledger.CurrentIndex()] is the same.

    A contract payee is described by a finite PROGRAM: the list of vote-gated
    invocations of the NeoFS contract its [onNEP17Payment] makes (in order),
    optionally followed by a panic.  This is the behaviour of the harness
    contract harness/testdata/votepayee: when paid while armed it first
    disarms itself, then runs the program; unarmed it only counts the payment.
    Nested invocations run with explicit fuel (depth of nesting); the whole
    transaction is atomic: any nested fault faults everything.

    Same guards, same order as Model/NeoFSVote.v ([gexec]) for [Cheque] and
    [SetConfig]; [Proofs/VoteReentry.v] proves that with no contract payee
    involved the two models coincide.  No proofs here. *)
From Verif Require Import Base.Prelude Base.IntCodec Model.Vote Model.NeoFSVote.
Local Open Scope Z_scope.

(** A vote-gated invocation that a payee program (or a transaction) makes. *)
Inductive rcall :=
| RCheque (id user : bytes) (amount : Z) (lockAcc : bytes)
| RSetConfig (id key val : bytes).

Record program := mkProg { pcalls : list rcall; pfault : bool }.

(** A deployed payee contract: its armed program (if any) and the number of
    payments ([onNEP17Payment] calls) it has completed. *)
Record payee := mkPayee { parmed : option program; pcount : Z }.

Record rstate := mkR {
  base : nstate;                 (* the NeoFS contract, as in Model/NeoFSVote.v *)
  contracts : gmap bytes payee   (* the payee contracts, by script hash *)
}.

Definition rcall_nop (o : rcall) : nop :=
  match o with
  | RCheque id user amount lockAcc => Cheque id user amount lockAcc
  | RSetConfig id key val => SetConfig id key val
  end.
Definition rcall_id (o : rcall) : bytes :=
  match o with RCheque id _ _ _ => id | RSetConfig id _ _ => id end.

Section Exec.
  Variable valid_pub : bytes -> bool.

  (** The sequence of invocations of a payee program, given the function
      [rec] that executes one nested invocation. *)
  Fixpoint run_with (rec : nctx -> rstate -> rcall -> outcome (rstate * list nnotif))
           (c : nctx) (s : rstate) (cs : list rcall) : outcome (rstate * list nnotif) :=
    match cs with
    | [] => Halt (s, [])
    | x :: rest =>
        '(sa, na) <-! rec c s x;
        '(sb, nb) <-! run_with rec c sa rest;
        Halt (sb, na ++ nb)
    end.

  (** One invocation of [cheque] / [setConfig]; nested invocations made by
      the payee are executed by [rec]. *)
  Definition rexec_body (rec : nctx -> rstate -> rcall -> outcome (rstate * list nnotif))
             (c : nctx) (s : rstate) (o : rcall) : outcome (rstate * list nnotif) :=
    let st := base s in
    nodeKey <-! alphabet_invoker valid_pub c st;
    '(b1, go) <-! collect (alphabet st) (box st) (rcall_id o) nodeKey (height c);
    if negb go then Halt (mkR (set_box st b1) (contracts s), []) else
    (* threshold reached, ballot removed: the action *)
    match o with
    | RCheque id user amount lockAcc =>
        '(g1, ok) <-! gas_transfer (gas st) true (self c) user amount;
        _ <-! oassert ok;
        let st1 := mkG (alphabet st) b1 (config st) (cands st) g1 in
        match contracts s !! user with
        | None => Halt (mkR st1 (contracts s), [NCheque id user amount lockAcc])
        | Some p =>
            (* onNEP17Payment of the payee: count, disarm, run the program *)
            let s1 := mkR st1 (<[user := mkPayee None (pcount p + 1)]> (contracts s)) in
            match parmed p with
            | None => Halt (s1, [NCheque id user amount lockAcc])
            | Some prog =>
                '(s2, ns) <-! run_with rec c s1 (pcalls prog);
                if pfault prog then Fault
                else Halt (s2, ns ++ [NCheque id user amount lockAcc])
            end
        end
    | RSetConfig id key val =>
        _ <-! oassert (length key <=? 58)%nat;
        Halt (mkR (mkG (alphabet st) b1 (<[key := val]> (config st)) (cands st) (gas st)) (contracts s),
              [NSetConfig id key val])
    end.

  (** [fuel] bounds the nesting depth (0 = out of fuel: fault). *)
  Fixpoint rexec (fuel : nat) : nctx -> rstate -> rcall -> outcome (rstate * list nnotif) :=
    match fuel with
    | O => fun _ _ _ => Fault
    | S f => rexec_body (rexec f)
    end.

  Definition rrun (f : nat) := run_with (rexec f).

  (** Transactions of the histories: a vote-gated invocation, or the
      (un)arming of a payee contract by its owner. *)
  Inductive rop :=
  | RInvoke (o : rcall)
  | RArm (addr : bytes) (p : program)
  | RDisarm (addr : bytes).

  Definition rstep (fuel : nat) (s : rstate) (co : nctx * rop) : rstate * option bool * list nnotif :=
    match snd co with
    | RInvoke o =>
        match rexec fuel (fst co) s o with
        | Halt (s', ns) => (s', Some true, ns)
        | Fault => (s, None, [])
        end
    | RArm addr p =>
        (mkR (base s) (<[addr := mkPayee (Some p) (match contracts s !! addr with Some q => pcount q | None => 0 end)]> (contracts s)),
         Some true, [])
    | RDisarm addr =>
        (mkR (base s) (<[addr := mkPayee None (match contracts s !! addr with Some q => pcount q | None => 0 end)]> (contracts s)),
         Some true, [])
    end.

  (** Observables of the correspondence check: outcome, notifications,
      config values, GAS of the listed accounts, payments seen by the listed
      payee contracts, stored ballots. *)
  Definition rstep_obs (fuel : nat) (cfgkeys accts payees : list bytes) (s : rstate) (co : nctx * rop)
    : rstate * val :=
    let '(s', r, ns) := rstep fuel s co in
    (s', match snd co with
         | RInvoke _ =>
             VList [ match r with Some _ => VNull | None => VFault end;
                     VList (map nnotif_val ns);
                     VList (map (fun k => match config (base s') !! k with Some v => VBytes v | None => VNull end) cfgkeys);
                     VList (map (fun a => VInt (gas_bal (gas (base s')) a)) accts);
                     VList (map (fun a => VInt (match contracts s' !! a with Some q => pcount q | None => -1 end)) payees);
                     ballots_val (box (base s')) ]
         | _ => VNull
         end).

  Definition rinit (keys : list bytes) (cfg : gmap bytes bytes) (g : gmap bytes Z) (payees : list bytes) : rstate :=
    mkR (ninit keys cfg g) (list_to_map (map (fun a => (a, mkPayee None 0)) payees)).
End Exec.
