(** Model/GasWorld.v — the governance contracts of C19 together on one chain:
    the dispatch of [onNEP17Payment] to whatever is deployed at the receiver,
    the operations of a history, the transaction wrapper and the observables
    of the correspondence check.  No proofs here. *)
From Verif Require Import Base.Prelude Base.IntCodec Model.Gas Model.ProxyProc Model.Alphabet
  Model.NeoFSGas.
Local Open Scope Z_scope.

(** [onNEP17Payment] of the contract deployed at [to] ([tok] is the calling
    script hash it sees). *)
Definition world_cb (e : env) (c : ctx) : callback := fun tok to from a d =>
  match kind_of e to with
  | KNone => Halt []
  | KNeoFS => neofs_on_payment (gasH e) (txhash c) tok from a d
  | KProcessing => processing_on_payment (gasH e) tok
  | KProxy => proxy_on_payment (gasH e) tok
  | KAlphabet _ _ => alphabet_on_payment (gasH e) (neoH e) tok
  | KAccept => Halt []
  | KNoMethod => Fault
  end.

Inductive op :=
| OGasTransfer (f t : bytes) (a : Z) (d : data)
    (* the entry script calls GAS.transfer(f, t, a, d) *)
| OTokenPay (tok t f : bytes) (a : Z) (d : data)
    (* somebody who is not native GAS (another token contract, an entry
       script) calls t.onNEP17Payment(f, a, d); [tok] is what the callee sees
       as calling script hash *)
| ONeoTransfer (f t : bytes) (a : Z) (d : data) (minted : Z)
    (* an otherwise successful NEO.transfer(f, t, a, d): NEO's callback on [t],
       then the GAS generated for [t] ([minted], read back from the chain) *)
| OWithdraw (u : bytes) (x : Z)
| OCheque (id u : bytes) (a : Z) (lock : bytes)
| OCandAdd (k : bytes)
| OCandRemove (k : bytes)
| OBind (u : bytes) (ks : list bytes)
| OUnbind (u : bytes) (ks : list bytes)
| OSetConfig (id k v : bytes)
| OAlphabetUpdate (id : bytes) (ks : list bytes)
| OEmit (a : bytes) (minted : Z)       (* a.emit() *)
| OVerify (a : bytes).                 (* a.verify() *)

Definition wexec (e : env) (c : ctx) (w : world) (o : op) : outcome (world * val * list ev) :=
  let cb := world_cb e c in
  let lift (r : outcome (world * list ev)) : outcome (world * val * list ev) :=
    '(w', ns) <-! r; Halt (w', VNull, ns) in
  match o with
  | OGasTransfer f t a d =>
      '(l, ok, ns) <-! gas_transfer cb (gasH e) (inb f (wit c)) (gas w) f t a d;
      Halt (mkW l (fs w), VBool ok, ns)
  | OTokenPay tok t f a d =>
      match kind_of e t with
      | KNone => Fault                       (* contract.Call of a missing contract *)
      | _ => ns <-! cb tok t f a d; Halt (w, VNull, ns)
      end
  | ONeoTransfer f t a d minted =>
      ns1 <-! cb (neoH e) t f a d;
      '(l, ns2) <-! gas_mint cb (gasH e) (gas w) t minted;
      Halt (mkW l (fs w), VBool true, ns1 ++ ns2)
  | OWithdraw u x => lift (neofs_withdraw cb e c w u x)
  | OCheque id u a lk => lift (neofs_cheque cb e c w id u a lk)
  | OCandAdd k => lift (neofs_cand_add cb e c w k)
  | OCandRemove k => lift (neofs_cand_remove e c w k)
  | OBind u ks => lift (neofs_bind e c w false u ks)
  | OUnbind u ks => lift (neofs_bind e c w true u ks)
  | OSetConfig id k v => lift (neofs_set_config e c w id k v)
  | OAlphabetUpdate id ks => lift (neofs_alphabet_update e c w id ks)
  | OEmit a minted =>
      match kind_of e a with
      | KAlphabet index proxy =>
          '(l, ns) <-! alphabet_emit cb e c a index proxy minted (gas w);
          Halt (mkW l (fs w), VNull, ns)
      | _ => Fault
      end
  | OVerify a =>
      match kind_of e a with
      | KProxy => Halt (w, VBool (proxy_verify c), [])
      | KAlphabet _ _ => Halt (w, VBool (alphabet_verify c), [])
      | KProcessing => r <-! processing_verify c; Halt (w, VBool r, [])
      | _ => Fault
      end
  end.

(** Transaction wrapper: a fault changes nothing and emits nothing. *)
Definition wstep (e : env) (w : world) (co : ctx * op) : world * val * list ev :=
  match wexec e (fst co) w (snd co) with
  | Halt (w', r, ns) => (w', r, ns)
  | Fault => (w, VFault, [])
  end.

(** A history, with the notification stream collected. *)
Definition wstep_full (e : env) (wn : world * list ev) (co : ctx * op) : world * list ev :=
  let '(w', _, ns) := wstep e (fst wn) co in (w', snd wn ++ ns).
Definition wrun (e : env) (w : world) (ops : list (ctx * op)) : world * list ev :=
  fold_left (wstep_full e) ops (w, []).

(** Observables for the correspondence check: result, notifications (native
    GAS Transfer events and NeoFS events, in order), GAS balance of every
    party of the pool, the candidate list, the two fee settings and the
    stored alphabet list. *)
Definition cfg_val (s : fstate) (k : bytes) : val :=
  match config s !! k with Some v => VBytes v | None => VNull end.

(** Balances are compared as the list of (index in the pool, new balance) of
    the parties whose balance changed in this step: every party is checked at
    every step, the cases file stays small. *)
Fixpoint bal_changes (i : Z) (pool : list bytes) (l l' : ledger) : list val :=
  match pool with
  | [] => []
  | a :: rest =>
      if gbal l a =? gbal l' a then bal_changes (i + 1) rest l l'
      else VList [VInt i; VInt (gbal l' a)] :: bal_changes (i + 1) rest l l'
  end.

Definition wobserve (pool : list bytes) (w w' : world) (r : val) (ns : list ev) : val :=
  VList [r; VList (map ev_val ns);
         VList (bal_changes 0 pool (gas w) (gas w'));
         VList (map VBytes (skeys (cands (fs w'))));
         cfg_val (fs w') withdraw_fee_key; cfg_val (fs w') candidate_fee_key;
         VList (map VBytes (alphabet (fs w')))].

Definition wstep_obs (e : env) (pool : list bytes) (w : world) (co : ctx * op) : world * val :=
  let '(w', r, ns) := wstep e w co in (w', wobserve pool w w' r ns).

(** Initial world of a case: balances of the pool and the deployed NeoFS state. *)
Definition ledger_of (l : list (bytes * Z)) : ledger :=
  fold_right (fun kv m => <[fst kv := snd kv]> m) ∅ l.
Definition config_of (l : list (bytes * bytes)) : gmap bytes bytes :=
  fold_right (fun kv m => <[fst kv := snd kv]> m) ∅ l.
Definition winit (bal : list (bytes * Z)) (notaryOff : bool) (proc : bytes) (alpha : list bytes)
    (cfg : list (bytes * bytes)) : world :=
  mkW (ledger_of bal) (mkF notaryOff proc alpha ∅ (config_of cfg) []).
