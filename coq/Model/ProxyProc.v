(** Model/ProxyProc.v — executable model of contracts/proxy/contract.go and
    contracts/processing/contract.go as far as GAS is concerned:
    [OnNEP17Payment] and [Verify].  No proofs here. *)
From Verif Require Import Base.Prelude Model.Gas.
Local Open Scope Z_scope.

(** proxy.OnNEP17Payment:
<<  caller := runtime.GetCallingScriptHash()
    if !caller.Equals(gas.Hash) { common.AbortWithMessage("proxy contract accepts GAS only") } >> *)
Definition proxy_on_payment (gasH caller : bytes) : outcome (list ev) :=
  if negb (bytes_eqb caller gasH) then Fault else Halt [].

(** processing.OnNEP17Payment: the same guard. *)
Definition processing_on_payment (gasH caller : bytes) : outcome (list ev) :=
  if negb (bytes_eqb caller gasH) then Fault else Halt [].

(** proxy.Verify = common.ContainsAlphabetWitness(): the 2n/3+1 or the n/2+1
    multi-signature account of the committee witnesses the transaction. *)
Definition proxy_verify (c : ctx) : bool :=
  if inb (alpha_addr c) (wit c) then true else inb (cmt_addr c) (wit c).

(** processing.Verify: witness of NeoFS' [alphabetAddress()]. *)
Definition processing_verify (c : ctx) : outcome bool := fs_alpha_witness c.
