(** Model/Vote.v — executable model of common/vote.go ([Vote], [RemoveVotes])
    over the deserialised value of the storage item "ballots".
    Follows the Go source statement by statement.  No proofs here. *)
From Verif Require Import Base.Prelude.
Local Open Scope Z_scope.

(** [type Ballot struct { ID []byte; Voters []interop.PublicKey; Height int }] *)
Record ballot := mkBallot { bid : bytes; voters : list bytes; bheight : Z }.

(** [const blockDiff = 20] *)
Definition block_diff : Z := 20.

(** [blockHeight-cnd.Height > blockDiff] : the ballot is skipped (expired). *)
Definition expired (h : Z) (b : ballot) : bool := h - bheight b >? block_diff.

(** The [for _, cnd := range candidates] loop of [Vote].
    [inl n]          : the early [return len(voters)] of the dedup branch was
                       taken (nothing is persisted, not even the pruning);
    [inr (nc, found)]: the loop ran to its end with [newCandidates = nc].
    [found] is threaded through the iterations exactly as the Go variable
    (a later matching ballot overwrites it). *)
Fixpoint vote_loop (id from : bytes) (h : Z) (cands : list ballot) (found : Z)
  : Z + (list ballot * Z) :=
  match cands with
  | [] => inr ([], found)
  | cnd :: rest =>
      if expired h cnd then vote_loop id from h rest found          (* continue *)
      else if bytes_eqb (bid cnd) id then
        if existsb (bytes_eqb from) (voters cnd)
        then inl (Z.of_nat (length (voters cnd)))                   (* return len(voters) *)
        else
          let vs := voters cnd ++ [from] in
          match vote_loop id from h rest (Z.of_nat (length vs)) with
          | inl n => inl n
          | inr (nc, f) => inr (mkBallot id vs h :: nc, f)
          end
      else
        match vote_loop id from h rest found with
        | inl n => inl n
        | inr (nc, f) => inr (cnd :: nc, f)
        end
  end.

(** [Vote(ctx, id, from)]: returns the new stored list and the count. *)
Definition vote (bs : list ballot) (id from : bytes) (h : Z) : list ballot * Z :=
  match vote_loop id from h bs (-1) with
  | inl n => (bs, n)
  | inr (nc, found) =>
      if found <? 0 then (nc ++ [mkBallot id [from] h], 1)
      else (nc, found)
  end.

(** Index chosen by [RemoveVotes]: the first ballot with that id, and 0
    when there is none ([var index int] is never changed). *)
Fixpoint find_idx (id : bytes) (bs : list ballot) (i : nat) : option nat :=
  match bs with
  | [] => None
  | b :: rest => if bytes_eqb (bid b) id then Some i else find_idx id rest (S i)
  end.
Definition first_index (id : bytes) (bs : list ballot) : nat :=
  match find_idx id bs O with Some i => i | None => O end.

(** [RemoveVotes(ctx, id)]; [util.Remove] on an empty slice faults (REMOVE
    with an out-of-range index). *)
Definition remove_votes (bs : list ballot) (id : bytes) : outcome (list ballot) :=
  let i := first_index id bs in
  if (i <? length bs)%nat then Halt (delete i bs) else Fault.

(** The vote-collection block repeated in every gated method:
<<
    threshold := len(alphabet)*2/3 + 1
    n := common.Vote(ctx, id, nodeKey)
    if n < threshold { return }
    common.RemoveVotes(ctx, id)
>>
    [true] = fall through to the action. *)
Definition threshold (alphabet : list bytes) : Z :=
  Z.of_nat (length alphabet) * 2 / 3 + 1.

Definition collect (alphabet : list bytes) (bs : list ballot) (id from : bytes) (h : Z)
  : outcome (list ballot * bool) :=
  let '(bs1, n) := vote bs id from h in
  if n <? threshold alphabet then Halt (bs1, false)
  else bs2 <-! remove_votes bs1 id; Halt (bs2, true).
