(** Model/NNSSyntaxF12.v — HISTORICAL: checkIPv6 as it was before commit
    7bd3a2c (finding F12), i.e. without

      -	if l < 3 || 8 < l {
      +	if l < 3 || 9 < l {
       		return false
       	}
      +	if l == 9 && (len(fragments[0]) != 0 || len(fragments[1]) != 0) &&
      +		(len(fragments[7]) != 0 || len(fragments[8]) != 0) {
      +		return false
      +	}

    It rejected seven groups followed by "::" (nine ':'-fragments).  The code
    of /repo's working tree is [checkIPv6] of Model/NNSSyntax.v; this old
    function is kept because the proof about the current one goes through
    it (Proofs/NNSSyntaxIP6.v, then Proofs/NNSSyntaxF12.v). *)
From Verif Require Import Base.Prelude Model.NNSSyntax.
Local Open Scope Z_scope.

Definition checkIPv6_old (data : bytes) : outcome bool :=
  let l := len data in
  if (l <? 2) || (39 <? l) then Halt false
  else
    fragments <-! std_string_split data 58;
    let l := len fragments in
    if (l <? 3) || (8 <? l) then Halt false
    else
      r <-! ipv6_loop fragments l fragments 0 false (repeat 0 8);
      match r with
      | None => Halt false
      | Some (hasEmpty, nums) =>
          if (l <? 8) && negb hasEmpty then Halt false
          else
            let f0 := nth 0 nums 0 in
            if (f0 <? 0x2000) || (f0 =? 0x2002) || (f0 =? 0x3ffe) || (0x3fff <? f0) then Halt false
            else if f0 =? 0x2001 then
              let f1 := nth 1 nums 0 in
              if (f1 <? 0x200) || (f1 =? 0xdb8) then Halt false else Halt true
            else Halt true
      end.
