(** Model/NNSSyntaxF12.v — checkIPv6 with the repair proposed for finding F12
    (NOT the code of /repo's working tree; Model/NNSSyntax.v is):

      -	if l < 3 || 8 < l {
      +	if l < 3 || 9 < l {
       		return false
       	}
      +	if l == 9 && (len(fragments[0]) != 0 || len(fragments[1]) != 0) &&
      +		(len(fragments[7]) != 0 || len(fragments[8]) != 0) {
      +		return false
      +	}

    Nine fragments are admitted when the first two or the last two are empty
    (seven groups and a "::" for a single zero group); the loop needs no
    change.  Proofs/NNSSyntaxF12.v shows that this variant accepts exactly
    [valid_AAAA].  With [l = 9] the four index operations cannot fault, so
    evaluating all of them (Go short-circuits) is the same. *)
From Verif Require Import Base.Prelude Model.NNSSyntax.
Local Open Scope Z_scope.

Definition nine_ok (fragments : list bytes) : outcome bool :=
  f0 <-! index fragments 0;
  f1 <-! index fragments 1;
  f7 <-! index fragments 7;
  f8 <-! index fragments 8;
  Halt (negb ((negb (len f0 =? 0) || negb (len f1 =? 0)) &&
              (negb (len f7 =? 0) || negb (len f8 =? 0)))).

Definition checkIPv6_fixed (data : bytes) : outcome bool :=
  let l := len data in
  if (l <? 2) || (39 <? l) then Halt false
  else
    fragments <-! std_string_split data 58;
    let l := len fragments in
    if (l <? 3) || (9 <? l) then Halt false
    else
      ok9 <-! (if l =? 9 then nine_ok fragments else Halt true);
      if negb ok9 then Halt false
      else
      r <-! ipv6_loop fragments l fragments 0 false (repeat 0 8);
      match r with
      | None => Halt false
      | Some (hasEmpty, nums) =>
          if (l <? 8) && negb hasEmpty then Halt false
          else
            let f0 := nth 0 nums 0 in
            if (f0 <? 0x2000) || (f0 =? 0x2002) || (f0 =? 0x3ffe) || (0x3fff <? f0) then Halt false
            else if f0 =? 0x2001 then
              let f1 := nth 1 nums 0 in
              if (f1 <? 0x200) || (f1 =? 0xdb8) then Halt false else Halt true
            else Halt true
      end.
