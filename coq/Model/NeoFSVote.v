(** Model/NeoFSVote.v — executable model of the vote-gated methods of
    contracts/neofs/contract.go in notary-DISABLED mode
    ([storage.Get(ctx, notaryDisabledKey) = true]):
    Cheque, AlphabetUpdate, SetConfig, InnerRingCandidateRemove, and
    InnerRingCandidateAdd (needed to populate the candidate set), plus the
    model of native GAS [transfer] they rely on.  Same guards, same order as
    the Go source.  No proofs here.

    The methods are written once, generically in the representation [B] of
    the ballot box and its [collect] function (the four-line block
    "threshold / Vote / return / RemoveVotes" that every gated method
    repeats).  The model of the code is the instance [B := list ballot],
    [collect := Vote.collect] ([nexec] below); Spec/Tally.v instantiates the
    same methods with the abstract tally.

    Outside the model (the harness keeps to it, see harness/vote_test.go):
    - arguments are byte strings / integers of the declared types (no Null,
      no nested arrays); serialised notifications stay below the 1024-byte
      limit of [runtime.Notify], config values below the storage limits;
    - the payee of a cheque is a plain account: no contract is deployed at
      [user] (the native GAS contract would call its [onNEP17Payment], which
      may fault or, for [user = self], emit a [Deposit] notification);
    - gas fees: the GAS ledger holds only accounts that never pay fees
      (the harness makes a separate account the sender of every transaction);
    - witness scopes (the harness signs with Global scope). *)
From Verif Require Import Base.Prelude Base.IntCodec Model.Vote.
Local Open Scope Z_scope.

(** Invocation context: the byte strings [b] (33-byte public keys and 20-byte
    script hashes) for which [runtime.CheckWitness(b)] is true, the value of
    [ledger.CurrentIndex()] during the invocation (index of the block that
    contains the transaction, minus one), and the contract's own hash. *)
Record nctx := mkNCtx { witnessed : list bytes; height : Z; self : bytes }.

Inductive nop :=
| Cheque (id user : bytes) (amount : Z) (lockAcc : bytes)
| AlphabetUpdate (id : bytes) (keys : list bytes)
| SetConfig (id key val : bytes)
| CandidateRemove (key : bytes)
| CandidateAdd (key : bytes)
| Fund (amount : Z).   (* not a contract method: somebody's GAS transfer to the
                          contract with the "ignore" marker as data *)

Inductive nnotif :=
| NCheque (id user : bytes) (amount : Z) (lockAcc : bytes)
| NAlphabetUpdate (id : bytes) (keys : list bytes)
| NSetConfig (id key val : bytes).

Definition gas_bal (g : gmap bytes Z) (a : bytes) : Z := default 0 (g !! a).

(** Native GAS [transfer(from, to, amount, data)] called by the contract
    (neo-go v0.107.0 native_nep17.go): a non-20-byte address faults
    ([toUint160]); a negative amount, a missing witness of [from] (unless
    [from] is the calling contract) or an insufficient balance make it return
    [false]; otherwise debit then credit.  [from_ok] is the witness check. *)
Definition gas_transfer (g : gmap bytes Z) (from_ok : bool) (from to : bytes) (amount : Z)
  : outcome (gmap bytes Z * bool) :=
  if negb (length from =? 20)%nat || negb (length to =? 20)%nat then Fault
  else if amount <? 0 then Halt (g, false)
  else if negb from_ok then Halt (g, false)
  else if gas_bal g from <? amount then Halt (g, false)
  else
    let g1 := <[from := gas_bal g from - amount]> g in
    Halt (<[to := gas_bal g1 to + amount]> g1, true).

(** [CandidateFeeConfigKey = "InnerRingCandidateFee"] *)
Definition candidate_fee_key : bytes :=
  [73;110;110;101;114;82;105;110;103;67;97;110;100;105;100;97;116;101;70;101;101]%N.

Section Gen.
  (** Cryptographic primitives, abstract: theorems hold for every choice. *)
  Variable valid_pub : bytes -> bool.   (* the bytes decode to a P-256 point (33 bytes compressed) *)
  Variable std_acc : bytes -> bytes.    (* contract.CreateStandardAccount(key) *)
  Variable del_id : bytes -> bytes.     (* crypto.Sha256(append(key, "delete"...)) *)

  Context {B : Type}.
  Variable collect : list bytes -> B -> bytes -> bytes -> Z -> outcome (B * bool).

  Record gstate := mkG {
    alphabet : list bytes;        (* storage "alphabet" (deserialised) *)
    box : B;                      (* storage "ballots" *)
    config : gmap bytes bytes;    (* storage "config" ++ key *)
    cands : gmap bytes unit;      (* storage "candidates" ++ key *)
    gas : gmap bytes Z            (* native GAS balances of the observed accounts *)
  }.

  (** [runtime.CheckWitness(b)]: a 20-byte argument is a script hash, anything
      else must decode as a public key or the call faults. *)
  Definition check_witness (c : nctx) (b : bytes) : outcome bool :=
    if (length b =? 20)%nat || valid_pub b
    then Halt (existsb (bytes_eqb b) (witnessed c))
    else Fault.

  (** [common.InnerRingInvoker(ir)]: the first stored key the transaction
      witnesses; [None] = nil. *)
  Fixpoint inner_ring_invoker (c : nctx) (ir : list bytes) : outcome (option bytes) :=
    match ir with
    | [] => Halt None
    | node :: rest =>
        w <-! check_witness c node;
        if w then Halt (Some node) else inner_ring_invoker c rest
    end.

  (** The block
<<
      alphabet = getAlphabetNodes(ctx)
      nodeKey = common.InnerRingInvoker(alphabet)
      if len(nodeKey) == 0 { panic(...) }
>>  *)
  Definition alphabet_invoker (c : nctx) (s : gstate) : outcome bytes :=
    r <-! inner_ring_invoker c (alphabet s);
    match r with
    | None => Fault
    | Some k => if (length k =? 0)%nat then Fault else Halt k
    end.

  Definition set_box (s : gstate) (b : B) : gstate :=
    mkG (alphabet s) b (config s) (cands s) (gas s).

  (** Result: new state, "the gated action was executed", notifications. *)
  Definition gexec (c : nctx) (s : gstate) (o : nop) : outcome (gstate * bool * list nnotif) :=
    match o with
    | Cheque id user amount lockAcc =>
        nodeKey <-! alphabet_invoker c s;
        '(b1, go) <-! collect (alphabet s) (box s) id nodeKey (height c);
        if negb go then Halt (set_box s b1, false, []) else
        (* gas.Transfer(from = self, user, amount, nil); !transferred -> panic *)
        '(g1, ok) <-! gas_transfer (gas s) true (self c) user amount;
        _ <-! oassert ok;
        (* Notify("Cheque", id, user, amount, lockAcc): user is 20 bytes here *)
        Halt (mkG (alphabet s) b1 (config s) (cands s) g1, true, [NCheque id user amount lockAcc])
    | AlphabetUpdate id keys =>
        _ <-! oassert (negb (length keys =? 0)%nat);
        nodeKey <-! alphabet_invoker c s;
        _ <-! oassert (forallb (fun k => (length k =? 33)%nat) keys);
        '(b1, go) <-! collect (alphabet s) (box s) id nodeKey (height c);
        if negb go then Halt (set_box s b1, false, []) else
        Halt (mkG keys b1 (config s) (cands s) (gas s), true, [NAlphabetUpdate id keys])
    | SetConfig id key val =>
        nodeKey <-! alphabet_invoker c s;
        '(b1, go) <-! collect (alphabet s) (box s) id nodeKey (height c);
        if negb go then Halt (set_box s b1, false, []) else
        (* storage.Put("config" ++ key, val): storage keys are at most 64 bytes *)
        _ <-! oassert (length key <=? 58)%nat;
        Halt (mkG (alphabet s) b1 (<[key := val]> (config s)) (cands s) (gas s), true,
              [NSetConfig id key val])
    | CandidateRemove key =>
        keyOwner <-! check_witness c key;
        if keyOwner then
          (* the candidate itself: no votes *)
          Halt (mkG (alphabet s) (box s) (config s) (delete key (cands s)) (gas s), true, [])
        else
          nodeKey <-! alphabet_invoker c s;
          '(b1, go) <-! collect (alphabet s) (box s) (del_id key) nodeKey (height c);
          if negb go then Halt (set_box s b1, false, []) else
          Halt (mkG (alphabet s) b1 (config s) (delete key (cands s)) (gas s), true, [])
    | CandidateAdd key =>
        w <-! check_witness c key;
        _ <-! oassert w;
        _ <-! oassert (negb (bool_decide (is_Some (cands s !! key))));
        (* contract.CreateStandardAccount(key) needs a real key *)
        _ <-! oassert (valid_pub key);
        let from := std_acc key in
        (* fee := getConfig(ctx, CandidateFeeConfigKey).(int): Null or a byte
           string longer than 32 bytes is not an integer for the native call *)
        fee <-! match config s !! candidate_fee_key with
                | None => Fault
                | Some b => if (length b <=? 32)%nat then Halt (bytes_to_int b) else Fault
                end;
        '(g1, ok) <-! gas_transfer (gas s) (existsb (bytes_eqb from) (witnessed c)) from (self c) fee;
        _ <-! oassert ok;
        (* "candidates" ++ key must fit a storage key *)
        _ <-! oassert (length key <=? 54)%nat;
        Halt (mkG (alphabet s) (box s) (config s) (<[key := tt]> (cands s)) g1, false, [])
    | Fund amount =>
        _ <-! oassert (0 <=? amount);
        Halt (mkG (alphabet s) (box s) (config s) (cands s)
                  (<[self c := gas_bal (gas s) (self c) + amount]> (gas s)), false, [])
    end.

  (** Transaction wrapper: a fault changes nothing and emits nothing. *)
  Definition gstep (s : gstate) (co : nctx * nop) : gstate * option bool * list nnotif :=
    match gexec (fst co) s (snd co) with
    | Halt (s', fired, ns) => (s', Some fired, ns)
    | Fault => (s, None, [])
    end.

  (** Run a history, collecting per step (halted?/fired?, notifications). *)
  Definition gstep_log (sl : gstate * list (option bool * list nnotif)) (co : nctx * nop) :=
    let '(s', r, ns) := gstep (fst sl) co in (s', snd sl ++ [(r, ns)]).
  Definition grun_from (s : gstate) (ops : list (nctx * nop)) :=
    fold_left gstep_log ops (s, []).

  (** Observables for the correspondence check. *)
  Definition nnotif_val (n : nnotif) : val :=
    match n with
    | NCheque id user amount lockAcc => VList [VInt 0; VBytes id; VBytes user; VInt amount; VBytes lockAcc]
    | NAlphabetUpdate id keys => VList [VInt 1; VBytes id; VList (map VBytes keys)]
    | NSetConfig id key val => VList [VInt 2; VBytes id; VBytes key; VBytes val]
    end.

  Definition gobserve (cfgkeys accts : list bytes) (s : gstate) (r : option bool) (ns : list nnotif) : val :=
    VList [ match r with Some _ => VNull | None => VFault end;
            VList (map nnotif_val ns);
            VList (map (fun k => match config s !! k with Some v => VBytes v | None => VNull end) cfgkeys);
            VList (map VBytes (alphabet s));
            VList (map VBytes (skeys (cands s)));
            VList (map (fun a => VInt (gas_bal (gas s) a)) accts) ].

  (** Observation modes: [OPart] = outcome and notifications only (a
      transaction that is not the last one of its block: the read API is not
      reachable between two transactions of one block); [OFull] = all
      observables of the property; [OBox] = [OFull] plus the ballot box. *)
  Inductive omode := OPart | OFull | OBox.
  Variable obs_box : B -> val.

  Definition gstep_obs (cfgkeys accts : list bytes) (s : gstate) (mco : omode * (nctx * nop))
    : gstate * val :=
    let '(s', r, ns) := gstep s (snd mco) in
    (s', match fst mco with
         | OPart => VList [ match r with Some _ => VNull | None => VFault end;
                            VList (map nnotif_val ns) ]
         | OFull => gobserve cfgkeys accts s' r ns
         | OBox => VList [gobserve cfgkeys accts s' r ns; obs_box (box s')]
         end).
End Gen.

Arguments mkG {B}.
Arguments alphabet {B}.
Arguments box {B}.
Arguments config {B}.
Arguments cands {B}.
Arguments gas {B}.

(** The model of the contract: the ballot box is the stored list of ballots
    and the block is [Vote.collect]. *)
Definition nstate := gstate (B := list ballot).
Definition nexec valid_pub std_acc del_id := gexec valid_pub std_acc del_id (B := list ballot) collect.
Definition nstep valid_pub std_acc del_id := gstep valid_pub std_acc del_id (B := list ballot) collect.
Definition nrun_from valid_pub std_acc del_id := grun_from valid_pub std_acc del_id (B := list ballot) collect.
Definition ballots_val (bs : list ballot) : val :=
  VList (map (fun b => VList [VBytes (bid b); VList (map VBytes (voters b)); VInt (bheight b)]) bs).
Definition nstep_obs valid_pub std_acc del_id :=
  gstep_obs valid_pub std_acc del_id (B := list ballot) collect ballots_val.

(** [_deploy] with [notaryDisabled = true]: alphabet keys, empty ballot list
    ([common.InitVote]), the given configuration. *)
Definition ninit (keys : list bytes) (cfg : gmap bytes bytes) (g : gmap bytes Z) : nstate :=
  mkG keys [] cfg ∅ g.
