(** Model/Witness.v — who may call what (property C03).

    A requirement language for the witness guards of the eleven NeoFS
    contracts, an abstract invocation context, an evaluator, and the table
    [required] with one row for every non-safe method of every manifest.
    Each row is written from the method's Go source and documentation and
    cites the guard as file:line (paths relative to /repo/contracts, line
    numbers as of /repo HEAD 1c9e9e8).  No proofs here.

    Reading guide
    - [ctx]   : what [runtime.CheckWitness] can see — the transaction
                signers with a covering scope and the calling script hash.
    - [chain] : facts fixed by the chain and the deployment: the two
                multi-signature accounts derived from [neo.GetCommittee()]
                ([common.AlphabetAddress], 2n/3+1, and
                [common.CommitteeAddress], n/2+1), the accounts derived from
                the designated NeoFSAlphabet role and from the key list stored
                in the NeoFS contract, the native token hashes.
    - [args]  : the principals named by the call: for every positional
                argument the account it designates (the script hash itself
                for Hash160 arguments; the standard single-signature account
                of a public key argument, of a key embedded in a binary
                argument, or of a struct field), plus the state-dependent
                principals the guard reads from storage (NNS owner/admin).
    - [eval_req ctx args r] : does the guard [r] let the call through.  *)
From Coq Require Import String.
From Verif Require Import Base.Prelude.
Local Open Scope nat_scope.

(** * Multi-signature thresholds ([common/ir.go:68-76], [nns/contract.go:865]) *)
Module Multisig.
  (** [threshold := len(n)*2/3 + 1] *)
  Definition alpha_m (n : nat) : nat := 2 * n / 3 + 1.
  (** [threshold = len(n)/2 + 1] *)
  Definition maj_m (n : nat) : nat := n / 2 + 1.
  (** NNS [checkCommittee]: [l-(l-1)/2] *)
  Definition nns_m (n : nat) : nat := n - (n - 1) / 2.
  (** A multi-signature witness of threshold [m] can be produced by [k]
      cooperating key holders iff [m <= k]. *)
  Definition can_form (m k : nat) : bool := m <=? k.
End Multisig.

(** * Contracts and method keys *)
Inductive contract :=
| KAlphabet | KAudit | KBalance | KContainer | KNeoFS | KNeoFSID | KNetmap
| KNNS | KProcessing | KProxy | KReputation.

Definition contract_eqb (a b : contract) : bool :=
  match a, b with
  | KAlphabet, KAlphabet | KAudit, KAudit | KBalance, KBalance
  | KContainer, KContainer | KNeoFS, KNeoFS | KNeoFSID, KNeoFSID
  | KNetmap, KNetmap | KNNS, KNNS | KProcessing, KProcessing
  | KProxy, KProxy | KReputation, KReputation => true
  | _, _ => false
  end.

(** A manifest method is identified by contract, name and arity (the
    manifests overload [container.put] and [nns.renew]). *)
Definition mkey : Type := contract * string * nat.
Definition mkey_eqb (a b : mkey) : bool :=
  let '(c1, m1, n1) := a in
  let '(c2, m2, n2) := b in
  contract_eqb c1 c2 && String.eqb m1 m2 && Nat.eqb n1 n2.

(** * Requirements *)
Inductive token := TGas | TNeo.

Inductive req :=
| RNever                        (* not invocable at all: the VM refuses to call a method whose name starts with '_' *)
| ROpen                         (* no witness guard, by design (listed in [open_rows]) *)
| RAlpha                        (* common.CheckAlphabetWitness: CheckWitness(2n/3+1 multisig of neo.GetCommittee()) *)
| RCommittee                    (* common.HasUpdateAccess / nns.checkCommittee: CheckWitness(n/2+1 multisig of neo.GetCommittee()) *)
| RIRCommittee                  (* CheckWitness(n/2+1 multisig of the designated NeoFSAlphabet role) *)
| RNeoFSAlpha                   (* CheckWitness(2n/3+1 multisig of the key list stored in the NeoFS contract) *)
| RNeoFSMember                  (* common.InnerRingInvoker(stored list): some listed key is witnessed (notary-disabled mode) *)
| RAlphaKeyAt                   (* alphabet.checkPermission: CheckWitness(neo.GetCommittee()[index]) *)
| RAddr (i : nat)               (* CheckWitness(Hash160 argument i) or argument i is the calling contract *)
| RKey (i : nat)                (* CheckWitness(PublicKey argument i) *)
| RKeyOfBlob (i off : nat)      (* CheckWitness(33 bytes at offset [off] of the binary argument i) *)
| RKeyField (i j : nat)         (* CheckWitness(field j of the struct argument i) *)
| RIRMember (i : nat)           (* the key named by argument i is witnessed AND is in the designated NeoFSAlphabet list *)
| RNameOwner                    (* CheckWitness(NameState.Owner) of the domain the call addresses *)
| RNameAdmin                    (* NameState.checkAdmin: committee if Owner is empty, else Owner or (Admin set and witnessed) *)
| RArgNull (i : nat)            (* argument i is Null (a condition on the arguments, not on witnesses) *)
| RShallow                      (* nns.register of a 2nd-level name: no parent NameState consulted *)
| RArgSigs                      (* container.submitObjectPut: the signatures passed as ARGUMENT satisfy the placement policy *)
| RCallerIs (t : token)         (* runtime.GetCallingScriptHash() is the native GAS / NEO contract *)
| RNotaryOff (off on : req)     (* NeoFS contract: guard depends on the notaryDisabled flag set at deployment *)
| RAnd (a b : req)
| ROr (a b : req).

(** * Invocation context, chain facts, call facts *)
Record ctx := mkWCtx {
  wx_signers : list bytes;  (* script hashes of the signers whose scope covers the call *)
  wx_caller : bytes         (* calling script hash ([] = none/entry script) *)
}.
Definition empty_ctx : ctx := mkWCtx [] [].

Record chain := mkChain {
  ch_alpha : bytes;          (* common.AlphabetAddress() *)
  ch_committee : bytes;      (* common.CommitteeAddress() *)
  ch_ir_committee : bytes;   (* Multiaddress(InnerRingNodes(), true); [] when no key is designated *)
  ch_neofs_alpha : bytes;    (* neofs.AlphabetAddress(): 2n/3+1 multisig of the stored list *)
  ch_neofs_keys : list bytes;(* standard accounts of the keys stored in the NeoFS contract *)
  ch_ir_keys : list bytes;   (* standard accounts of the designated NeoFSAlphabet keys *)
  ch_alpha_key_at : bytes;   (* standard account of neo.GetCommittee()[index of the Alphabet contract] *)
  ch_gas : bytes;
  ch_neo : bytes;
  ch_notary_off : bool       (* the NeoFS contract instance was deployed with notaryDisabled *)
}.

Record args := mkArgs {
  a_chain : chain;
  a_princ : list bytes;      (* account designated by positional argument i ([] when it designates none) *)
  a_null : list nat;         (* positions of Null arguments *)
  a_owner : bytes;           (* NNS: Owner of the NameState the guard reads ([] = committee-owned) *)
  a_admin : bytes;           (* NNS: Admin of that NameState ([] = unset) *)
  a_shallow : bool;          (* NNS register: the name has exactly two fragments *)
  a_sigs_ok : bool           (* submitObjectPut: the argument signatures verify against the stored placement *)
}.

Definition hash_len20 (b : bytes) : bool := (length b =? 20)%nat.

(** [runtime.CheckWitness(h)] for a 20-byte [h] (a public key is first mapped
    to its standard account; any other length faults, which is a refusal). *)
Definition witnessed (c : ctx) (h : bytes) : bool :=
  hash_len20 h && existsb (bytes_eqb h) (wx_caller c :: wx_signers c).

Definition arg_princ (a : args) (i : nat) : bytes := nth i (a_princ a) [].

Definition token_hash (ch : chain) (t : token) : bytes :=
  match t with TGas => ch_gas ch | TNeo => ch_neo ch end.

Fixpoint eval_req (c : ctx) (a : args) (r : req) : bool :=
  let ch := a_chain a in
  match r with
  | RNever => false
  | ROpen => true
  | RAlpha => witnessed c (ch_alpha ch)
  | RCommittee => witnessed c (ch_committee ch)
  | RIRCommittee => witnessed c (ch_ir_committee ch)
  | RNeoFSAlpha => witnessed c (ch_neofs_alpha ch)
  | RNeoFSMember => existsb (witnessed c) (ch_neofs_keys ch)
  | RAlphaKeyAt => witnessed c (ch_alpha_key_at ch)
  | RAddr i | RKey i | RKeyOfBlob i _ | RKeyField i _ => witnessed c (arg_princ a i)
  | RIRMember i =>
      witnessed c (arg_princ a i) && existsb (bytes_eqb (arg_princ a i)) (ch_ir_keys ch)
  | RNameOwner => witnessed c (a_owner a)
  | RNameAdmin =>
      if (length (a_owner a) =? 0)%nat then witnessed c (ch_committee ch)
      else witnessed c (a_owner a) || witnessed c (a_admin a)
  | RArgNull i => existsb (Nat.eqb i) (a_null a)
  | RShallow => a_shallow a
  | RArgSigs => a_sigs_ok a
  | RCallerIs t => hash_len20 (token_hash ch t) && bytes_eqb (wx_caller c) (token_hash ch t)
  | RNotaryOff off on => if ch_notary_off ch then eval_req c a off else eval_req c a on
  | RAnd x y => eval_req c a x && eval_req c a y
  | ROr x y => eval_req c a x || eval_req c a y
  end.

(** Syntactic check used by the no-vacuous-row theorem: every way of
    satisfying [r] goes through at least one witness / caller test. *)
Fixpoint needs_witness (r : req) : bool :=
  match r with
  | ROpen | RArgNull _ | RShallow | RArgSigs => false
  | RNotaryOff x y | ROr x y => needs_witness x && needs_witness y
  | RAnd x y => needs_witness x || needs_witness y
  | _ => true
  end.

(** * The table *)
Local Open Scope string_scope.

Definition upd (k : contract) : mkey * req := ((k, "update", 3), RCommittee).
Definition dep (k : contract) : mkey * req := ((k, "_deploy", 2), RNever).
Definition ini (k : contract) : mkey * req := ((k, "_initialize", 0), RNever).

(** NeoFS methods collected by voting in notary-disabled deployments:
    one listed key's witness there, the committee's 2n/3+1 account otherwise. *)
Definition neofs_voted : req := RNotaryOff RNeoFSMember RAlpha.

Definition table : list (mkey * req) := [
  (* ---------------- alphabet ---------------- *)
  ini KAlphabet;                                   (* compiler-generated; '_' methods are not callable (neo-go interop/contract/call.go) *)
  dep KAlphabet;                                   (* contracts/alphabet/contract.go:35; only management.deploy/update invokes it *)
  ((KAlphabet, "emit", 0), RAlphaKeyAt);           (* alphabet/contract.go:259 -> checkPermission :236-246 *)
  ((KAlphabet, "onNEP17Payment", 3),
     ROr (RCallerIs TGas) (RCallerIs TNeo));       (* alphabet/contract.go:28-31 *)
  upd KAlphabet;                                   (* alphabet/contract.go:204 -> common/update.go:12 *)
  ((KAlphabet, "vote", 2), RAlpha);                (* alphabet/contract.go:314 *)
  (* ---------------- audit ---------------- *)
  dep KAudit;                                      (* audit/contract.go:40 *)
  ((KAudit, "put", 1), RIRMember 0);               (* audit/contract.go:110-118; key parsed from the blob by newAuditHeader :206 *)
  upd KAudit;                                      (* audit/contract.go:89 *)
  (* ---------------- balance ---------------- *)
  ini KBalance;
  dep KBalance;                                    (* balance/contract.go:59 *)
  ((KBalance, "burn", 3), RAlpha);                 (* balance/contract.go:310 *)
  ((KBalance, "lock", 5), RAlpha);                 (* balance/contract.go:217 *)
  ((KBalance, "mint", 3), RAlpha);                 (* balance/contract.go:281 *)
  ((KBalance, "newEpoch", 1), RAlpha);             (* balance/contract.go:247 *)
  ((KBalance, "transfer", 4), RAddr 0);            (* balance/contract.go:393 -> isUsableAddress :412-426; refusal = false *)
  ((KBalance, "transferX", 4), RAlpha);            (* balance/contract.go:196 *)
  upd KBalance;                                    (* balance/contract.go:141 *)
  (* ---------------- container ---------------- *)
  ini KContainer;
  dep KContainer;                                  (* container/contract.go:100 *)
  ((KContainer, "addNextEpochNodes", 3), RAlpha);  (* container/contract.go:586 *)
  ((KContainer, "commitContainerListUpdate", 2), RAlpha); (* container/contract.go:716 *)
  ((KContainer, "delete", 3), RAlpha);             (* container/contract.go:455 (a missing container returns silently before, :450-453) *)
  ((KContainer, "newEpoch", 1), RAlpha);           (* container/contract.go:989 *)
  ((KContainer, "onNEP11Payment", 4), ROpen);      (* container/contract.go:96-97: empty body, nothing to guard *)
  ((KContainer, "put", 4), RAlpha);                (* container/contract.go:319 -> PutNamed :372 *)
  ((KContainer, "put", 5), RAlpha);                (* container/contract.go:302 -> Put -> PutNamed :372 (the :306 write precedes the guard in the same transaction) *)
  ((KContainer, "putContainerSize", 4), RKey 3);   (* container/contract.go:867 (then the key must be in the previous netmap, :869) *)
  ((KContainer, "putNamed", 6), RAlpha);           (* container/contract.go:372 *)
  ((KContainer, "setEACL", 4), RAlpha);            (* container/contract.go:822 *)
  ((KContainer, "startContainerEstimation", 1), RAlpha); (* container/contract.go:997 *)
  ((KContainer, "stopContainerEstimation", 1), RAlpha);  (* container/contract.go:1006 *)
  ((KContainer, "submitObjectPut", 2), RArgSigs);  (* container/contract.go:284 -> VerifyPlacementSignatures :656-701; no transaction witness involved *)
  upd KContainer;                                  (* container/contract.go:235 *)
  (* ---------------- neofs ---------------- *)
  ini KNeoFS;
  dep KNeoFS;                                      (* neofs/contract.go:47 *)
  ((KNeoFS, "alphabetUpdate", 2), neofs_voted);    (* neofs/contract.go:417-425 *)
  ((KNeoFS, "bind", 2), RAddr 0);                  (* neofs/contract.go:367 *)
  ((KNeoFS, "cheque", 4), neofs_voted);            (* neofs/contract.go:329-337 *)
  ((KNeoFS, "innerRingCandidateAdd", 1), RKey 0);  (* neofs/contract.go:208 *)
  ((KNeoFS, "innerRingCandidateRemove", 1),
     ROr (RKey 0) (RNotaryOff RNeoFSMember RNeoFSAlpha)); (* neofs/contract.go:162-177 *)
  ((KNeoFS, "onNEP17Payment", 3), RCallerIs TGas); (* neofs/contract.go:244-247 (data = ignore marker returns silently before, :234) *)
  ((KNeoFS, "setConfig", 3), neofs_voted);         (* neofs/contract.go:472-480 (fix 13a1b83: len(nodeKey) == 0) *)
  ((KNeoFS, "unbind", 2), RAddr 0);                (* neofs/contract.go:386 *)
  ((KNeoFS, "update", 3), RIRCommittee);           (* neofs/contract.go:107-109 *)
  ((KNeoFS, "withdraw", 2), RAddr 0);              (* neofs/contract.go:271 *)
  (* ---------------- neofsid ---------------- *)
  ini KNeoFSID;
  dep KNeoFSID;                                    (* neofsid/contract.go:28 *)
  ((KNeoFSID, "addKey", 2), RAlpha);               (* neofsid/contract.go:116 *)
  ((KNeoFSID, "removeKey", 2), RAlpha);            (* neofsid/contract.go:146 *)
  upd KNeoFSID;                                    (* neofsid/contract.go:88 *)
  (* ---------------- netmap ---------------- *)
  ini KNetmap;
  dep KNetmap;                                     (* netmap/contract.go:101 *)
  ((KNetmap, "addNode", 1), RAnd (RKeyField 0 2) RAlpha);     (* netmap/contract.go:317-318 *)
  ((KNetmap, "addPeer", 1), RAnd (RKeyOfBlob 0 2) RAlpha);    (* netmap/contract.go:293-296 *)
  ((KNetmap, "addPeerIR", 1), RAlpha);             (* netmap/contract.go:269 *)
  ((KNetmap, "deleteNode", 1), RAlpha);            (* netmap/contract.go:334 *)
  ((KNetmap, "lastEpochBlock", 0), ROpen);         (* netmap/contract.go:454-457: read-only body, missing from safemethods *)
  ((KNetmap, "newEpoch", 1), RAlpha);              (* netmap/contract.go:410 *)
  ((KNetmap, "setConfig", 3), RAlpha);             (* netmap/contract.go:658 *)
  ((KNetmap, "subscribeForNewEpoch", 1), RAlpha);  (* netmap/contract.go:693 *)
  upd KNetmap;                                     (* netmap/contract.go:232 *)
  ((KNetmap, "updateSnapshotCount", 1), RAlpha);   (* netmap/contract.go:548 *)
  ((KNetmap, "updateState", 2), RAnd (RKey 1) RAlpha);        (* netmap/contract.go:378-379 *)
  ((KNetmap, "updateStateIR", 2), RAlpha);         (* netmap/contract.go:393 *)
  (* ---------------- nns ---------------- *)
  ini KNNS;
  dep KNNS;                                        (* nns/contract.go:108 *)
  ((KNNS, "addRecord", 3), RNameAdmin);            (* nns/contract.go:582 -> checkRecord :574 -> namestate.go:25-36 *)
  ((KNNS, "deleteRecords", 2), RNameAdmin);        (* nns/contract.go:636 *)
  ((KNNS, "register", 7),
     RAnd (RAddr 1) (ROr RShallow RNameAdmin));    (* nns/contract.go:399 (owner) and :386-390 (parent admin from the 3rd level) *)
  ((KNNS, "registerTLD", 6), RCommittee);          (* nns/contract.go:427 -> checkCommittee :859-869 *)
  ((KNNS, "renew", 2), RNameAdmin);                (* nns/contract.go:485 *)
  ((KNNS, "renew", 1), RNameAdmin);                (* nns/contract.go:468-469 -> Renew :485 *)
  ((KNNS, "setAdmin", 2),
     RAnd (ROr (RArgNull 1) (RAddr 1)) RNameOwner);(* nns/contract.go:521 (new admin) and :526 (owner) *)
  ((KNNS, "setPrice", 1), RCommittee);             (* nns/contract.go:289 *)
  ((KNNS, "setRecord", 4), RNameAdmin);            (* nns/contract.go:537 -> checkRecord :574 *)
  ((KNNS, "transfer", 3), RNameOwner);             (* nns/contract.go:262; refusal = false *)
  upd KNNS;                                        (* nns/contract.go:96 *)
  ((KNNS, "updateSOA", 6), RNameAdmin);            (* nns/contract.go:506 *)
  (* ---------------- processing ---------------- *)
  dep KProcessing;                                 (* processing/contract.go:30 *)
  ((KProcessing, "onNEP17Payment", 3), RCallerIs TGas); (* processing/contract.go:23-26 *)
  ((KProcessing, "update", 3), RIRCommittee);      (* processing/contract.go:55-61 *)
  (* ---------------- proxy ---------------- *)
  dep KProxy;                                      (* proxy/contract.go:21 *)
  ((KProxy, "onNEP17Payment", 3), RCallerIs TGas); (* proxy/contract.go:14-17 *)
  upd KProxy;                                      (* proxy/contract.go:34 *)
  (* ---------------- reputation ---------------- *)
  ini KReputation;
  dep KReputation;                                 (* reputation/contract.go:20 *)
  ((KReputation, "put", 3), RAlpha);               (* reputation/contract.go:92 *)
  upd KReputation;                                 (* reputation/contract.go:74 *)
  ((KReputation, "version", 0), ROpen)             (* reputation/contract.go:153-155: constant, missing from safemethods *)
].

Fixpoint lookup (k : mkey) (t : list (mkey * req)) : option req :=
  match t with
  | [] => None
  | (k', r) :: t' => if mkey_eqb k k' then Some r else lookup k t'
  end.

Definition required (k : mkey) : option req := lookup k table.

(** Rows whose requirement does not depend on any witness, by design.
    Everything else must be unsatisfiable with no witness at all. *)
Definition open_rows : list mkey := [
  (KContainer, "onNEP11Payment", 4);   (* no-op callback so that the contract can own NNS domains *)
  (KContainer, "submitObjectPut", 2);  (* authorised by storage-node signatures carried in the arguments *)
  (KNetmap, "lastEpochBlock", 0);      (* getter *)
  (KReputation, "version", 0)          (* getter *)
].
Definition is_open (k : mkey) : bool := existsb (mkey_eqb k) open_rows.

(** * The safe [verify] methods of Proxy / Alphabet / Processing *)
Definition verify_required (k : contract) : option req :=
  match k with
  | KProxy => Some (ROr RAlpha RCommittee)       (* proxy/contract.go:46 -> common/ir.go:79-85 *)
  | KAlphabet => Some (ROr RAlpha RCommittee)    (* alphabet/contract.go:346 *)
  | KProcessing => Some RNeoFSAlpha              (* processing/contract.go:70-75: multisig of the keys stored in NeoFS *)
  | _ => None
  end.

(** * Rows with a machine-checked inertness theorem
    (requirement unmet => the family model's step returns the same state, no
    token movement, no notification, a refusal), with the name of the theorem
    of Props/C03.v.  Plain data here; Props/C03.v [C03_models_cover] proves
    that the list is exactly the set of keys the models' operations map to. *)
Definition proved_rows : list (mkey * string) := [
  ((KBalance, "burn", 3), "C03_inert_Balance, C03_inert_Container");
  ((KBalance, "lock", 5), "C03_inert_Balance, C03_inert_Container");
  ((KBalance, "mint", 3), "C03_inert_Balance, C03_inert_Container");
  ((KBalance, "newEpoch", 1), "C03_inert_Balance, C03_inert_Container");
  ((KBalance, "transfer", 4), "C03_inert_Balance, C03_inert_Container");
  ((KBalance, "transferX", 4), "C03_inert_Balance, C03_inert_Container");
  ((KReputation, "put", 3), "C03_inert_Reputation");
  ((KNeoFSID, "addKey", 2), "C03_inert_NeoFSID");
  ((KNeoFSID, "removeKey", 2), "C03_inert_NeoFSID");
  ((KNetmap, "setConfig", 3), "C03_inert_Config, C03_inert_Container");
  ((KAudit, "put", 1), "C03_inert_Audit");
  ((KContainer, "putContainerSize", 4), "C03_inert_Estimations");
  ((KContainer, "newEpoch", 1), "C03_inert_Estimations");
  ((KContainer, "addNextEpochNodes", 3), "C03_inert_Placement");
  ((KContainer, "commitContainerListUpdate", 2), "C03_inert_Placement");
  ((KContainer, "submitObjectPut", 2), "C03_inert_Placement (open row: RArgSigs)");
  ((KContainer, "put", 4), "C03_inert_Container");
  ((KContainer, "put", 5), "C03_inert_Container");
  ((KContainer, "putNamed", 6), "C03_inert_Container");
  ((KContainer, "delete", 3), "C03_inert_Container");
  ((KContainer, "setEACL", 4), "C03_inert_Container");
  ((KNeoFS, "setConfig", 3), "C03_inert_Config (notary), C03_inert_NeoFSVote (no notary), C03_inert_GasWorld (both)");
  ((KNeoFS, "cheque", 4), "C03_inert_NeoFSVote (no notary), C03_inert_GasWorld (both)");
  ((KNeoFS, "alphabetUpdate", 2), "C03_inert_NeoFSVote (no notary), C03_inert_GasWorld (both)");
  ((KNeoFS, "innerRingCandidateRemove", 1), "C03_inert_NeoFSVote (no notary), C03_inert_GasWorld (both)");
  ((KNeoFS, "innerRingCandidateAdd", 1), "C03_inert_NeoFSVote, C03_inert_GasWorld");
  ((KNeoFS, "withdraw", 2), "C03_inert_GasWorld");
  ((KNeoFS, "bind", 2), "C03_inert_GasWorld");
  ((KNeoFS, "unbind", 2), "C03_inert_GasWorld");
  ((KNeoFS, "onNEP17Payment", 3), "C03_inert_GasWorld");
  ((KAlphabet, "emit", 0), "C03_inert_GasWorld");
  ((KAlphabet, "onNEP17Payment", 3), "C03_inert_GasWorld");
  ((KProcessing, "onNEP17Payment", 3), "C03_inert_GasWorld");
  ((KProxy, "onNEP17Payment", 3), "C03_inert_GasWorld");
  ((KNetmap, "newEpoch", 1), "C03_inert_Netmap");
  ((KNetmap, "addPeer", 1), "C03_inert_Netmap");
  ((KNetmap, "addPeerIR", 1), "C03_inert_Netmap");
  ((KNetmap, "addNode", 1), "C03_inert_Netmap");
  ((KNetmap, "deleteNode", 1), "C03_inert_Netmap");
  ((KNetmap, "updateState", 2), "C03_inert_Netmap");
  ((KNetmap, "updateStateIR", 2), "C03_inert_Netmap");
  ((KNetmap, "updateSnapshotCount", 1), "C03_inert_Netmap");
  ((KNetmap, "subscribeForNewEpoch", 1), "C03_inert_Netmap");
  ((KNNS, "register", 7), "C03_inert_NNS");
  ((KNNS, "registerTLD", 6), "C03_inert_NNS");
  ((KNNS, "transfer", 3), "C03_inert_NNS");
  ((KNNS, "renew", 2), "C03_inert_NNS");
  ((KNNS, "renew", 1), "C03_inert_NNS (RenewDefault = Renew name 1)");
  ((KNNS, "setAdmin", 2), "C03_inert_NNS");
  ((KNNS, "addRecord", 3), "C03_inert_NNS");
  ((KNNS, "setRecord", 4), "C03_inert_NNS");
  ((KNNS, "deleteRecords", 2), "C03_inert_NNS");
  ((KNNS, "updateSOA", 6), "C03_inert_NNS");
  ((KNNS, "setPrice", 1), "C03_inert_NNS");
  ((KAlphabet, "update", 3), "C03_inert_Update");
  ((KAudit, "update", 3), "C03_inert_Update");
  ((KBalance, "update", 3), "C03_inert_Update");
  ((KContainer, "update", 3), "C03_inert_Update");
  ((KNeoFS, "update", 3), "C03_inert_Update");
  ((KNeoFSID, "update", 3), "C03_inert_Update");
  ((KNetmap, "update", 3), "C03_inert_Update");
  ((KNNS, "update", 3), "C03_inert_Update");
  ((KProcessing, "update", 3), "C03_inert_Update");
  ((KProxy, "update", 3), "C03_inert_Update");
  ((KReputation, "update", 3), "C03_inert_Update");
  ((KContainer, "startContainerEstimation", 1), "C03_inert_Estimation_signals");
  ((KContainer, "stopContainerEstimation", 1), "C03_inert_Estimation_signals");
  ((KAlphabet, "vote", 2), "C03_inert_Vote");
  ((KAlphabet, "_deploy", 2), "C03_inert_Underscore (platform rule)");
  ((KAudit, "_deploy", 2), "C03_inert_Underscore (platform rule)");
  ((KBalance, "_deploy", 2), "C03_inert_Underscore (platform rule)");
  ((KContainer, "_deploy", 2), "C03_inert_Underscore (platform rule)");
  ((KNeoFS, "_deploy", 2), "C03_inert_Underscore (platform rule)");
  ((KNeoFSID, "_deploy", 2), "C03_inert_Underscore (platform rule)");
  ((KNetmap, "_deploy", 2), "C03_inert_Underscore (platform rule)");
  ((KNNS, "_deploy", 2), "C03_inert_Underscore (platform rule)");
  ((KProcessing, "_deploy", 2), "C03_inert_Underscore (platform rule)");
  ((KProxy, "_deploy", 2), "C03_inert_Underscore (platform rule)");
  ((KReputation, "_deploy", 2), "C03_inert_Underscore (platform rule)");
  ((KAlphabet, "_initialize", 0), "C03_inert_Underscore (platform rule)");
  ((KBalance, "_initialize", 0), "C03_inert_Underscore (platform rule)");
  ((KContainer, "_initialize", 0), "C03_inert_Underscore (platform rule)");
  ((KNeoFS, "_initialize", 0), "C03_inert_Underscore (platform rule)");
  ((KNeoFSID, "_initialize", 0), "C03_inert_Underscore (platform rule)");
  ((KNetmap, "_initialize", 0), "C03_inert_Underscore (platform rule)");
  ((KNNS, "_initialize", 0), "C03_inert_Underscore (platform rule)");
  ((KReputation, "_initialize", 0), "C03_inert_Underscore (platform rule)")
].

(** * Decidable equality of requirements (the harness prints its own copy
    of each row; the cases file checks that both agree) *)
Definition token_eqb (a b : token) : bool :=
  match a, b with TGas, TGas | TNeo, TNeo => true | _, _ => false end.

Fixpoint req_eqb (a b : req) : bool :=
  match a, b with
  | RNever, RNever | ROpen, ROpen | RAlpha, RAlpha | RCommittee, RCommittee
  | RIRCommittee, RIRCommittee | RNeoFSAlpha, RNeoFSAlpha
  | RNeoFSMember, RNeoFSMember | RAlphaKeyAt, RAlphaKeyAt
  | RNameOwner, RNameOwner | RNameAdmin, RNameAdmin | RShallow, RShallow
  | RArgSigs, RArgSigs => true
  | RAddr i, RAddr j | RKey i, RKey j | RIRMember i, RIRMember j
  | RArgNull i, RArgNull j => Nat.eqb i j
  | RKeyOfBlob i o, RKeyOfBlob j p | RKeyField i o, RKeyField j p => Nat.eqb i j && Nat.eqb o p
  | RCallerIs s, RCallerIs t => token_eqb s t
  | RNotaryOff x y, RNotaryOff x' y' | RAnd x y, RAnd x' y' | ROr x y, ROr x' y' =>
      req_eqb x x' && req_eqb y y'
  | _, _ => false
  end.

(** * Checking one observed invocation (cases file) *)
Inductive outcome_class :=
| OFaultGuard   (* FAULT whose message is one of the witness guards' messages *)
| OFault        (* any other FAULT *)
| OFalse        (* HALT, returned false *)
| OHaltOther.   (* HALT, any other result *)

Record case := mkCase {
  cs_key : mkey;
  cs_ctx : ctx;
  cs_args : args;
  cs_class : outcome_class;
  cs_effect : bool  (* any storage change in any contract, any notification, any token movement *)
}.

Inductive verdict :=
| VUnmetEffect        (* requirement not met, yet something changed: the property is violated *)
| VUnmetNotRefused    (* requirement not met, nothing changed, but the call neither faulted nor returned false *)
| VUnmodelledEffect   (* no row in the table and the generic call had an effect *)
| VMetRefused.        (* requirement met, yet the call was refused by a witness guard (or returned false) *)

(** Methods whose source returns silently, BEFORE any witness test, when
    there is nothing to do; for them an unmet requirement may end in a plain
    HALT (still without any effect).  Every other method must fault or return
    [false]. *)
Definition silent_noops : list mkey := [
  (KContainer, "delete", 3);       (* container/contract.go:450-453: missing (or already deleted) container *)
  (KNeoFS, "onNEP17Payment", 3)    (* neofs/contract.go:233-236: data is the ignore-deposit marker *)
].
Definition is_silent_noop (k : mkey) : bool := existsb (mkey_eqb k) silent_noops.

(** Methods for which a returned [false] can only mean a failed witness test
    ([nns.transfer]).  [balance.transfer] also answers [false] for a malformed
    receiver or insufficient funds, [nns.register] for a live name: there
    [false] under a met requirement is an ordinary answer. *)
Definition refuses_with_false : list mkey := [
  (KNNS, "transfer", 3)            (* nns/contract.go:262-264 *)
].
Definition is_refusing_false (k : mkey) : bool := existsb (mkey_eqb k) refuses_with_false.

Definition check_case (x : case) : option verdict :=
  match required (cs_key x) with
  | None => if cs_effect x then Some VUnmodelledEffect else None
  | Some r =>
      if eval_req (cs_ctx x) (cs_args x) r then
        match cs_class x with
        | OFaultGuard => Some VMetRefused
        | OFalse => if is_refusing_false (cs_key x) then Some VMetRefused else None
        | _ => None
        end
      else if cs_effect x then Some VUnmetEffect
      else match cs_class x with
           | OHaltOther => if is_silent_noop (cs_key x) then None else Some VUnmetNotRefused
           | _ => None
           end
  end.

(** [verify] cases: the returned boolean must be exactly the requirement. *)
Definition check_verify (x : contract * ctx * args * bool) : option bool :=
  let '(k, c, a, got) := x in
  match verify_required k with
  | None => Some got
  | Some r => if Bool.eqb (eval_req c a r) got then None else Some got
  end.

(** Coverage: every non-safe method of the manifests has a row. *)
Definition check_cover (k : mkey) : option mkey :=
  match required k with Some _ => None | None => Some k end.

(** Agreement of the harness's copy of a row with the table. *)
Definition check_agree (x : mkey * req) : option mkey :=
  match required (fst x) with
  | Some r => if req_eqb r (snd x) then None else Some (fst x)
  | None => Some (fst x)
  end.
