(** Model/Balance.v — executable model of contracts/balance/contract.go.
    Follows the Go source function by function (same guards, same order).
    No proofs here: the model must keep running when a proof breaks. *)
From Verif Require Import Base.Prelude Base.IntCodec.
Local Open Scope Z_scope.

Record account := mkAcc { bal : Z; until : Z; parent : bytes }.
Definition empty_acc : account := mkAcc 0 0 [].

Record bstate := mkB { accts : gmap bytes account; supply : Z }.
Definition binit : bstate := mkB ∅ 0.

(** Invocation context: the script hashes for which [runtime.CheckWitness]
    answers true (transaction signers with a covering scope and the calling
    contract), and whether the Alphabet multi-signature account is among
    them ([common.CheckAlphabetWitness]). *)
Record bctx := mkCtx { witnessed : list bytes; alpha : bool }.

Inductive bop :=
| Transfer (f t : bytes) (a : Z)
| TransferX (f t : bytes) (a : Z) (d : bytes)
| Mint (t : bytes) (a : Z) (d : bytes)
| Burn (f : bytes) (a : Z) (d : bytes)
| Lock (d f t : bytes) (a u : Z)
| NewEpoch (e : Z).

Inductive notif :=
| NTransfer (f t : bytes) (a : Z)
| NTransferX (f t : bytes) (a : Z) (d : bytes)
| NLock (d f t : bytes) (a u : Z).

Definition hash_len (b : bytes) : bool := (length b =? 20)%nat.

(** [Account.Parent] is Null (modelled as []) for ordinary accounts and the
    20-byte owner for lock accounts. *)
Definition is_lock (a : account) : bool := negb (length (parent a) =? 0)%nat.
Global Arguments is_lock : simpl never.

Definition get_acc (m : gmap bytes account) (k : bytes) : account :=
  default empty_acc (m !! k).

Definition balance_of (s : bstate) (k : bytes) : Z := bal (get_acc (accts s) k).

(** [isUsableAddress] *)
Definition usable (c : bctx) (a : bytes) : bool :=
  hash_len a && existsb (bytes_eqb a) (witnessed c).

(** [Token.canTransfer]: [None] = refused. *)
Definition can_transfer (c : bctx) (m : gmap bytes account) (f t : bytes) (a : Z)
    (ir : bool) : option account :=
  let check :=
    let af := get_acc m f in
    if bal af <? a then None else Some af in
  if negb ir then
    if negb (hash_len t) || negb (usable c f) then None else check
  else if (length f =? 0)%nat then Some empty_acc
  else check.

(** [Token.transfer] (with the guard of the F1 fix: a negative amount is an
    exception). Returns the new account map, the boolean result and the
    notifications. [fnull]/[tnull]: the address is the Null the contract
    itself passes in Mint/Burn (arguments supplied by invokers are byte
    strings; a Null argument to an Alphabet-only method is outside the
    quantifier and not representable in [bop]). *)
Definition transfer (c : bctx) (m : gmap bytes account) (f t : bytes) (a : Z)
    (ir : bool) (d : bytes) (fnull tnull : bool)
  : outcome (gmap bytes account * bool * list notif) :=
  if a <? 0 then Fault else
  match can_transfer c m f t a ir with
  | None => Halt (m, false, [])
  | Some af =>
      let m1 :=
        if hash_len f then
          if bal af =? a then delete f m
          else <[f := mkAcc (bal af - a) (until af) (parent af)]> m
        else m in
      m2 <-! (if hash_len t then
                let at_ := get_acc m1 t in
                nb <-! vm_add (bal at_) a;
                Halt (<[t := mkAcc nb (until at_) (parent at_)]> m1)
              else Halt m1);
      (* runtime.Notify checks the event against the manifest (Hash160
         parameters: Null or exactly 20 bytes), else the call faults *)
      _ <-! oassert ((fnull || hash_len f) && (tnull || hash_len t));
      Halt (m2, true, [NTransfer f t a; NTransferX f t a d])
  end.

Definition unlock_details (e : Z) : bytes := 4%N :: int_to_bytes e.

(** One iteration of the [NewEpoch] loop, on the *current* map, for a key of
    the snapshot taken by [storage.Find]. *)
Definition epoch_visit (c : bctx) (e : Z) (st : outcome (gmap bytes account * list notif))
    (addr : bytes) : outcome (gmap bytes account * list notif) :=
  '(m, ns) <-! st;
  if negb (hash_len addr) then Halt (m, ns) else
  let acc := get_acc m addr in
  (* a lock account is one that has a parent (fix commit: [acc.Parent == nil] marks an
     ordinary account; [Until] is only the expiry, so [until = 0] is an expiry in the past) *)
  if negb (is_lock acc) then Halt (m, ns) else
  if e >=? until acc then
    '(m', _, ns') <-! transfer c m addr (parent acc) (bal acc) true (unlock_details e) false false;
    Halt (m', ns ++ ns')
  else Halt (m, ns).

Definition new_epoch (c : bctx) (m : gmap bytes account) (e : Z)
  : outcome (gmap bytes account * list notif) :=
  fold_left (epoch_visit c e) (skeys m) (Halt (m, [])).

(** Result value of a call, in observable form. *)
Definition bexec (c : bctx) (s : bstate) (o : bop) : outcome (bstate * val * list notif) :=
  match o with
  | Transfer f t a =>
      '(m, r, ns) <-! transfer c (accts s) f t a false [] false false;
      Halt (mkB m (supply s), VBool r, ns)
  | TransferX f t a d =>
      _ <-! oassert (alpha c);
      '(m, r, ns) <-! transfer c (accts s) f t a true d false false;
      _ <-! oassert r;
      Halt (mkB m (supply s), VNull, ns)
  | Lock d f t a u =>
      _ <-! oassert (alpha c);
      let m0 := <[t := mkAcc 0 u f]> (accts s) in
      '(m, r, ns) <-! transfer c m0 f t a true (3%N :: d) false false;
      _ <-! oassert r;
      _ <-! oassert (hash_len f && hash_len t);
      Halt (mkB m (supply s), VNull, ns ++ [NLock d f t a u])
  | NewEpoch e =>
      _ <-! oassert (alpha c);
      '(m, ns) <-! new_epoch c (accts s) e;
      Halt (mkB m (supply s), VNull, ns)
  | Mint t a d =>
      _ <-! oassert (alpha c);
      '(m, r, ns) <-! transfer c (accts s) [] t a true (1%N :: d) true false;
      _ <-! oassert r;
      sup <-! vm_add (supply s) a;
      Halt (mkB m sup, VNull, ns)
  | Burn f a d =>
      _ <-! oassert (alpha c);
      '(m, r, ns) <-! transfer c (accts s) f [] a true (2%N :: d) false true;
      _ <-! oassert r;
      _ <-! oassert (negb (supply s <? a));
      Halt (mkB m (supply s - a), VNull, ns)
  end.

(** Transaction wrapper: a fault changes nothing and emits nothing. *)
Definition bstep (s : bstate) (co : bctx * bop) : bstate * val * list notif :=
  match bexec (fst co) s (snd co) with
  | Halt (s', r, ns) => (s', r, ns)
  | Fault => (s, VFault, [])
  end.

Definition brun (ops : list (bctx * bop)) : bstate :=
  fold_left (fun s co => fst (fst (bstep s co))) ops binit.

(** Observables for the correspondence check. *)
Definition notif_val (n : notif) : val :=
  match n with
  | NTransfer f t a => VList [VInt 0; VBytes f; VBytes t; VInt a]
  | NTransferX f t a d => VList [VInt 1; VBytes f; VBytes t; VInt a; VBytes d]
  | NLock d f t a u => VList [VInt 2; VBytes d; VBytes f; VBytes t; VInt a; VInt u]
  end.

Definition bobserve (pool : list bytes) (s : bstate) (r : val) (ns : list notif) : val :=
  VList [r; VList (map notif_val ns);
         VList (map (fun a => VInt (balance_of s a)) pool);
         VInt (supply s);
         VInt (Z.of_nat (size (accts s)))].

Definition bstep_obs (pool : list bytes) (s : bstate) (co : bctx * bop) : bstate * val :=
  let '(s', r, ns) := bstep s co in (s', bobserve pool s' r ns).

(** Run with the notification stream collected. *)
Definition bstep_full (sn : bstate * list notif) (co : bctx * bop) : bstate * list notif :=
  let '(s', _, ns) := bstep (fst sn) co in (s', snd sn ++ ns).
Definition brun_from (s : bstate) (ops : list (bctx * bop)) : bstate * list notif :=
  fold_left bstep_full ops (s, []).
