(** Model/Migration.v — executable model of the upgrade path of every NeoFS
    contract: [Update] of the running (old) code and [_deploy(data, true)] of
    the new code, over Model/MigStore.v.

    Sources followed statement by statement (same guards, same order):
      common/version.go   CheckVersion, AppendVersion
      common/update.go    HasUpdateAccess
      common/ir.go        CommitteeAddress, Multiaddress, InnerRingNodes
      common/vote.go      TryPurgeVotes, getBallots
      contracts/<c>/contract.go   Update, _deploy (isUpdate branch),
                                  switchToNotary, switchToAccPrefixes
      contracts/nns/contract.go   Update, checkCommittee, _deploy, updateBalance

    The two version constants of the NEW code ([PrevVersion], [Version]) are
    section parameters; [real_prev]/[real_version] at the end of the file are
    the values of common/version.go (kept in a separate definition so that a
    translator can regenerate it; the harness re-checks them against the Go
    package on every run).  No proofs here. *)
From Coq Require Import String Ascii.
From Verif Require Import Base.Prelude Base.IntCodec Model.MigStore.
Local Open Scope Z_scope.

(** ASCII storage keys. *)
Definition str (s : string) : bytes := map N_of_ascii (list_ascii_of_string s).

Definition k_notary : bytes := str "notary".
Definition k_ballots : bytes := str "ballots".
Definition k_netmapSH : bytes := str "netmapScriptHash".
Definition k_containerSH : bytes := str "containerScriptHash".
Definition k_balanceSH : bytes := str "balanceScriptHash".
Definition k_innerring : bytes := str "innerring".
Definition k_proxySH : bytes := str "proxyScriptHash".
Definition k_supply : bytes := str "MainnetGAS".
Definition k_snapshotCount : bytes := str "snapshotCount".
Definition k_snapshotCurrent : bytes := str "snapshotCurrent".
Definition k_snapshotEpoch : bytes := str "snapshotEpoch".
Definition p_snapshot : bytes := str "snapshot_".
Definition p_candidate : bytes := str "candidate".
Definition p_config : bytes := str "config".
Definition p_subscribers : bytes := str "e".
Definition p_eacl : bytes := str "eACL".
Definition p_estimate : bytes := str "cnr".

Inductive contract : Type :=
| CAlphabet | CAudit | CBalance | CContainer | CNeoFS | CNeoFSID
| CNetmap | CNNS | CProcessing | CProxy | CReputation.

Global Instance contract_eq_dec : EqDecision contract.
Proof. solve_decision. Defined.

Definition all_contracts : list contract :=
  [CAlphabet; CAudit; CBalance; CContainer; CNeoFS; CNeoFSID; CNetmap; CNNS; CProcessing; CProxy; CReputation].

(** One GAS transfer made by the Alphabet contract's notary switch:
    receiver, amount, and the notary-deposit data [(account, till)] if any. *)
Record transfer := mkTr { tr_to : bytes; tr_amount : Z; tr_data : option (bytes * Z) }.

(** What the invocation sees of the chain. *)
Record env := mkEnv {
  e_height : Z;                 (* ledger.CurrentIndex() *)
  e_committee : list bytes;     (* neo.GetCommittee() *)
  e_designated : Z -> list bytes;  (* index |-> roles.GetDesignatedByRole(NeoFSAlphabet, index):
                                      the list in force for the block with that index *)
  e_witnessed : list bytes;     (* script hashes h with runtime.CheckWitness(h) = true *)
  (* only the Alphabet contract's 0.16 -> 0.17 switch looks at the rest *)
  e_gas : Z;                            (* gas.BalanceOf(this contract) *)
  e_resolve_proxy : option bytes;       (* common.ResolveFSContract("proxy") *)
  e_netmap_nodes : bytes -> option (list item);  (* netmap.netmap() of the given contract *)
  e_netmap_ir : bytes -> option (list bytes);    (* netmap.innerRingList() keys *)
  e_payments_ok : list transfer -> bool;         (* every receiver accepts its payment *)
}.

Definition witnessed (e : env) (h : bytes) : bool := existsb (bytes_eqb h) (e_witnessed e).

Section Model.
  (** Platform functions that stay abstract: script hash of the m-of-n
      multisignature verification script, script hash of a single-key account
      (None: not a valid public key), RIPEMD-160. *)
  Context (msaddr : Z -> list bytes -> bytes).
  Context (stdacc : bytes -> option bytes).
  Context (h160 : bytes -> bytes).
  (** [PrevVersion] and [Version] of the new code. *)
  Context (prevN verN : Z).

  (** contract.CreateMultisigAccount(m, keys): faults unless 1 <= m <= n <= 1024. *)
  Definition create_multisig (m : Z) (keys : list bytes) : outcome bytes :=
    let n := Z.of_nat (length keys) in
    if (1 <=? m) && (m <=? n) && (n <=? 1024) then Halt (msaddr m keys) else Fault.

  (** common.Multiaddress(n, committee) *)
  Definition multiaddress (keys : list bytes) (committee : bool) : outcome bytes :=
    let n := Z.of_nat (length keys) in
    let threshold := if committee then n / 2 + 1 else n * 2 / 3 + 1 in
    create_multisig threshold keys.

  (** The address whose witness each contract's [Update] demands. *)
  Definition gate_address (c : contract) (e : env) : outcome bytes :=
    match c with
    | CNeoFS | CProcessing =>
        (* common.Multiaddress(roles.GetDesignatedByRole(NeoFSAlphabet, CurrentIndex()+1), true):
           CurrentIndex() is the last persisted block, so height+1 is the
           block the transaction executes in *)
        multiaddress (e_designated e (e_height e + 1)) true
    | CNNS =>
        (* checkCommittee: l-(l-1)/2 of neo.GetCommittee() *)
        let l := Z.of_nat (length (e_committee e)) in
        create_multisig (l - (l - 1) / 2) (e_committee e)
    | _ =>
        (* common.HasUpdateAccess: CheckWitness(CommitteeAddress()) *)
        multiaddress (e_committee e) true
    end.

  Definition gate (c : contract) (e : env) : outcome unit :=
    a <-! gate_address c e; oassert (witnessed e a).

  (** common.CheckVersion *)
  Definition check_version (from : Z) : outcome unit :=
    if from <? prevN then Fault            (* ErrVersionMismatch *)
    else if from >=? verN then Fault       (* ErrAlreadyUpdated *)
    else Halt tt.

  (** [args[len(args)-1].(int)] *)
  Definition args_version (args : list item) : outcome Z :=
    match last args with
    | None => Fault
    | Some x => item_to_int x
    end.

  (** common.getBallots followed by the [range]: the value must deserialise
      to something SIZE/PICKITEM accept as a slice. *)
  Definition get_ballots (s : store) : outcome (list item) :=
    match sget k_ballots s with
    | Some d => it <-! deserialize d; item_to_list it
    | None => Halt []
    end.

  (** [cnd.Height] *)
  Definition ballot_height (cnd : item) : outcome Z :=
    fs <-! item_to_list cnd; x <-! onth fs 2; item_to_int x.

  Definition block_diff : Z := 20.

  (** The loop of TryPurgeVotes: [true] = some ballot is still in progress
      (the loop returns at the first one). *)
  Fixpoint any_pending (h : Z) (cands : list item) : outcome bool :=
    match cands with
    | [] => Halt false
    | c :: rest =>
        ht <-! ballot_height c;
        d <-! vm_sub h ht;
        if d <=? block_diff then Halt true else any_pending h rest
    end.

  (** common.TryPurgeVotes *)
  Definition try_purge_votes (h : Z) (s : store) : outcome (bool * store) :=
    cands <-! get_ballots s;
    p <-! any_pending h cands;
    if p then Halt (false, s) else Halt (true, sdel k_ballots s).

  (** switchToNotary of balance, container, netmap, reputation, neofsid
      ([purge = true]) and audit ([purge = false]); [extra] = the other keys
      the contract deletes. *)
  Definition switch_to_notary (purge : bool) (extra : list bytes) (h : Z) (s : store) : outcome store :=
    match sget k_notary s with
    | None => Halt s                                   (* "already notarized" *)
    | Some nv =>
        b <-! bytes_to_bool nv;                        (* notaryVal.(bool) *)
        s1 <-! (if purge && b then
                  r <-! try_purge_votes h s;
                  if fst r then Halt (snd r) else Fault  (* "pending vote detected" *)
                else Halt s);
        Halt (fold_left (fun acc k => sdel k acc) (k_notary :: extra) s1)
    end.

  (** ** Balance *)

  Definition acc_prefix : N := 97.     (* 'a' *)

  (** One iteration of switchToAccPrefixes. *)
  Definition acc_step (st : outcome store) (kv : bytes * bytes) : outcome store :=
    s <-! st;
    if (length (fst kv) =? 20)%nat then
      s1 <-! sput (acc_prefix :: fst kv) (snd kv) s;
      Halt (sdel (fst kv) s1)
    else Halt s.

  Definition switch_to_acc_prefixes (s : store) : outcome store :=
    fold_left acc_step (sfind [] s) (Halt s).

  Definition deploy_balance (e : env) (args : list item) (s : store) : outcome store :=
    v <-! args_version args;
    _ <-! check_version v;
    s1 <-! (if v <? 17000 then switch_to_notary true [k_netmapSH; k_containerSH] (e_height e) s else Halt s);
    if v <? 20000 then switch_to_acc_prefixes s1 else Halt s1.

  (** ** Container *)

  Definition cnr_prefix : N := 120.    (* 'x' *)
  Definition owner_prefix : N := 111.  (* 'o' *)

  Definition cnr_step (st : outcome store) (kv : bytes * bytes) : outcome store :=
    s <-! st;
    s1 <-! (if (length (fst kv) =? 32)%nat
            then sput (cnr_prefix :: fst kv) (snd kv) (sdel (fst kv) s) else Halt s);
    if (length (fst kv) =? 57)%nat
    then sput (owner_prefix :: fst kv) (snd kv) (sdel (fst kv) s1) else Halt s1.

  Definition migrate_container_keys (s : store) : outcome store :=
    fold_left cnr_step (sfind [] s) (Halt s).

  Definition deploy_container (e : env) (args : list item) (s : store) : outcome store :=
    v <-! args_version args;
    _ <-! check_version v;
    s1 <-! migrate_container_keys s;
    if v <? 17000 then switch_to_notary true [] (e_height e) s1 else Halt s1.

  (** ** Netmap *)

  (** [nodes[j].BLOB] of an oldNode / [oldcan.f1.BLOB], [oldcan.f2] *)
  Definition field (x : item) (i : nat) : outcome item :=
    fs <-! item_to_list x; onth fs i.

  (** Old snapshot [[]oldNode] -> [[]Node] with State = Online (1).
      [newnodes := []Node{}]: an empty old list stays an empty array. *)
  Fixpoint upgrade_nodes (nodes : list item) : outcome (list item) :=
    match nodes with
    | [] => Halt []
    | n :: rest =>
        blob <-! field n 0;
        r <-! upgrade_nodes rest;
        Halt (IStruct [blob; IInt 1] :: r)
    end.

  Definition upgrade_snapshot (d : bytes) : outcome bytes :=
    it <-! deserialize d;
    nodes <-! item_to_list it;
    nn <-! upgrade_nodes nodes;
    serialize (IArray nn).

  (** [byte(i)] appended to a byte slice must fit one byte. *)
  Definition snapshot_key (i : Z) : outcome bytes :=
    if (0 <=? i) && (i <=? 255) then Halt (p_snapshot ++ [Z.to_N i]) else Fault.

  Fixpoint upgrade_snapshots (n : nat) (i : Z) (s : store) : outcome store :=
    match n with
    | O => Halt s
    | S n' =>
        key <-! snapshot_key i;
        s1 <-! match sget key s with
               | Some d => nd <-! upgrade_snapshot d; sput key nd s
               | None => Halt s
               end;
        upgrade_snapshots n' (i + 1) s1
    end.

  (** [storage.Get(ctx, snapshotCountKey).(int)]; a missing key is Null and
      [i < Null] is false: the loop body never runs. *)
  Definition snapshot_count (s : store) : outcome Z :=
    match sget k_snapshotCount s with
    | None => Halt 0
    | Some b => if (length b <=? 32)%nat then Halt (bytes_to_int b) else Fault
    end.

  Definition upgrade_candidate (d : bytes) : outcome bytes :=
    it <-! deserialize d;
    f1 <-! field it 0;
    blob <-! field f1 0;
    st <-! field it 1;
    serialize (IStruct [blob; st]).

  Definition cand_step (st : outcome store) (kv : bytes * bytes) : outcome store :=
    s <-! st;
    nd <-! upgrade_candidate (snd kv);
    sput (fst kv) nd s.

  Definition upgrade_candidates (s : store) : outcome store :=
    fold_left cand_step (sfind p_candidate s) (Halt s).

  (** v < 0.19: the two stored hashes become new-epoch subscribers 0 and 1. *)
  Definition move_subscriber (src : bytes) (idx : N) (s : store) : outcome store :=
    match sget src s with
    | None => Fault                            (* append(.., Null...) faults *)
    | Some h =>
        s1 <-! sput (p_subscribers ++ [idx] ++ h) [] s;
        Halt (sdel src s1)
    end.

  Definition deploy_netmap (e : env) (args : list item) (s : store) : outcome store :=
    v <-! args_version args;
    _ <-! check_version v;
    s1 <-! (if v <? 16000 then
              cnt <-! snapshot_count s;
              s' <-! upgrade_snapshots (Z.to_nat cnt) 0 s;
              upgrade_candidates s'
            else Halt s);
    s2 <-! (if v <? 17000 then switch_to_notary true [k_innerring] (e_height e) s1 else Halt s1);
    if v <? 19000 then
      s3 <-! move_subscriber k_balanceSH 0%N s2;
      move_subscriber k_containerSH 1%N s3
    else Halt s2.

  (** ** NNS *)

  Definition p_nns_balance : N := 1.
  Definition p_nns_acctoken : N := 2.
  Definition p_nns_name : N := 33.
  Definition p_nns_record : N := 34.
  Definition p_nns_root : N := 32.
  Definition k_nns_supply : bytes := [0%N].

  (** nns.updateBalance(ctx, tokenId, acc, -1) *)
  Definition nns_update_balance_dec (token acc : bytes) (s : store) : outcome store :=
    let bkey := p_nns_balance :: acc in
    bal <-! match sget bkey s with
            | None => Halt 0
            | Some b => if (length b <=? 32)%nat then Halt (bytes_to_int b) else Fault
            end;
    nb <-! vm_sub bal 1;
    s1 <-! (if nb =? 0 then Halt (sdel bkey s) else sput bkey (int_to_bytes nb) s);
    Halt (sdel (p_nns_acctoken :: acc ++ h160 token) s1).

  (** Bytes of a NameState field used as a string / address; Null owner is
      the empty byte string for [append]. *)
  Definition field_bytes (x : item) : outcome bytes :=
    match x with
    | INull => Fault
    | _ => item_to_bytes x
    end.

  Definition is_tld (name : bytes) : bool := negb (existsb (fun c => (c =? 46)%N) name).

  Definition nns_step (st : outcome store) (kv : bytes * bytes) : outcome store :=
    s <-! st;
    it <-! deserialize (snd kv);
    fs <-! item_to_list it;
    ow <-! onth fs 0;
    nm <-! onth fs 1;
    name <-! field_bytes nm;
    if is_tld name then
      owner <-! field_bytes ow;
      s1 <-! nns_update_balance_dec name owner s;
      nd <-! serialize (match it with
                        | IArray _ => IArray (INull :: tail fs)
                        | _ => IStruct (INull :: tail fs)
                        end);
      sput (fst kv) nd s1
    else Halt s.

  Definition deploy_nns (e : env) (args : list item) (s : store) : outcome store :=
    v <-! args_version args;
    _ <-! check_version v;
    if v >=? 18000 then Halt s
    else fold_left nns_step (sfind [p_nns_name] s) (Halt s).

  (** ** NeoFSID, Audit, Reputation *)

  Definition deploy_neofsid (e : env) (args : list item) (s : store) : outcome store :=
    v <-! args_version args;
    _ <-! check_version v;
    s1 <-! (if v <? 17000 then switch_to_notary true [k_containerSH] (e_height e) s else Halt s);
    if v <? 19000 then Halt (sdel k_netmapSH s1) else Halt s1.

  Definition deploy_audit (e : env) (args : list item) (s : store) : outcome store :=
    v <-! args_version args;
    _ <-! check_version v;
    if v <? 17000 then switch_to_notary false [k_netmapSH] (e_height e) s else Halt s.

  Definition deploy_reputation (e : env) (args : list item) (s : store) : outcome store :=
    v <-! args_version args;
    _ <-! check_version v;
    if v <? 17000 then switch_to_notary true [] (e_height e) s else Halt s.

  (** ** Alphabet: switchToNotary(ctx, args) with the GAS distribution *)

  Definition notary_deposit_limit : Z := 2000000000.
  Definition lock_interval : Z := 6 * 30 * 24 * 60 * 4.
  Definition notary_hash : bytes :=   (* interop/native/notary.Hash *)
    [59;236;53;49;17;155;186;215;109;208;68;146;11;13;230;195;25;79;225;193]%N.

  (** [x.(interop.Hash160)] followed by [len(x)]: Null faults at SIZE. *)
  Definition hash_arg (x : item) : outcome bytes := field_bytes x.

  Fixpoint pay_nodes (cur : bytes) (keys : list bytes) (simple notary till : Z) : outcome (list transfer) :=
    match keys with
    | [] => Halt []
    | k :: rest =>
        match stdacc k with
        | None => Fault
        | Some addr =>
            r <-! pay_nodes cur rest simple notary till;
            Halt (mkTr addr simple None :: mkTr notary_hash notary (Some (addr, till)) :: r)
        end
    end.

  (** [storageNodes[i].blob[2:35]] *)
  Fixpoint node_keys (nodes : list item) : outcome (list bytes) :=
    match nodes with
    | [] => Halt []
    | n :: rest =>
        b <-! field n 0;
        blob <-! field_bytes b;
        _ <-! oassert (35 <=? length blob)%nat;
        r <-! node_keys rest;
        Halt (take 33 (drop 2 blob) :: r)
    end.

  Definition k_alphabet_netmap : bytes := k_netmapSH.

  Definition alphabet_switch (e : env) (args : list item) (s : store)
    : outcome (store * list transfer) :=
    nm <-! onth args 3;                       (* contractName := args[3].(string) *)
    _ <-! match nm with IArray _ | IStruct _ => Fault | _ => Halt tt end;
    match sget k_notary s with
    | None =>
        _ <-! field_bytes nm;                 (* Log(contractName + ...) *)
        Halt (s, [])
    | Some nv =>
        b <-! bytes_to_bool nv;
        if b then
          pa <-! onth args 2;
          proxy0 <-! hash_arg pa;
          proxy <-! (if (0 <? length proxy0)%nat then
                       _ <-! oassert (length proxy0 =? 20)%nat; Halt proxy0
                     else match e_resolve_proxy e with Some p => Halt p | None => Fault end);
          r <-! try_purge_votes (e_height e) s;
          _ <-! oassert (fst r);              (* "pending vote detected" *)
          let s1 := snd r in
          na <-! onth args 1;
          nm0 <-! hash_arg na;
          netmap <-! (if (0 <? length nm0)%nat then
                        _ <-! oassert (length nm0 =? 20)%nat; Halt nm0
                      else match sget k_alphabet_netmap s1 with Some p => Halt p | None => Fault end);
          nodes <-! match e_netmap_nodes e netmap with Some l => Halt l | None => Fault end;
          ir <-! match e_netmap_ir e netmap with Some l => Halt l | None => Fault end;
          let current := e_gas e * 3 / 4 in
          _ <-! oassert (negb (current =? 0));          (* "no GAS in the contract" *)
          let to_proxy := current / 2 in
          let rest := current - to_proxy in
          let n := Z.of_nat (length nodes) + Z.of_nat (length ir) in
          _ <-! oassert (negb (n =? 0));                (* DIV by zero *)
          let per_node := rest / n in
          let per_notary0 := per_node / 2 in
          let per_notary := if per_notary0 >? notary_deposit_limit then notary_deposit_limit else per_notary0 in
          let per_simple := per_node - per_notary in
          let till := e_height e + lock_interval in
          t_ir <-! pay_nodes [] ir per_simple per_notary till;
          sk <-! node_keys nodes;
          t_sn <-! pay_nodes [] sk per_simple per_notary till;
          let trs := mkTr proxy to_proxy None :: t_ir ++ t_sn in
          _ <-! oassert (e_payments_ok e trs);
          s2 <-! sput k_proxySH proxy s1;
          _ <-! field_bytes nm;               (* final Log(contractName + ...) *)
          Halt (sdel k_notary s2, trs)
        else Halt (sdel k_notary s, [])
    end.

  Definition deploy_alphabet (e : env) (args : list item) (s : store) : outcome (store * list transfer) :=
    v <-! args_version args;
    _ <-! check_version v;
    if v <? 17000 then alphabet_switch e args s else Halt (s, []).

  (** ** The trivial ones: neofs, processing, proxy *)

  Definition deploy_trivial (e : env) (args : list item) (s : store) : outcome store :=
    v <-! args_version args;
    _ <-! check_version v;
    Halt s.

  (** [_deploy(data, true)] of the new code (storage effect). *)
  Definition deploy_update (c : contract) (e : env) (args : list item) (s : store) : outcome store :=
    match c with
    | CAlphabet => r <-! deploy_alphabet e args s; Halt (fst r)
    | CAudit => deploy_audit e args s
    | CBalance => deploy_balance e args s
    | CContainer => deploy_container e args s
    | CNeoFSID => deploy_neofsid e args s
    | CNetmap => deploy_netmap e args s
    | CNNS => deploy_nns e args s
    | CReputation => deploy_reputation e args s
    | CNeoFS | CProcessing | CProxy => deploy_trivial e args s
    end.

  (** common.AppendVersion(data) in the OLD code, whose [Version] is [vold]. *)
  Definition append_version (data : item) (vold : Z) : outcome (list item) :=
    match data with
    | INull => Halt [IInt vold]
    | IArray l | IStruct l => Halt (l ++ [IInt vold])
    | _ => Fault
    end.

  (** State of one deployed contract: its storage and the [Version] constant
      of the code it currently runs (what [version()] returns). *)
  Record cstate := mkC { c_store : store; c_version : Z }.

  (** [<contract>.Update(nef, manifest, data)].  [mgmt_ok] abstracts the
      checks Management.update makes on the NEF and the manifest (name
      unchanged, valid ABI, at least one of them given, update counter). *)
  Definition update (c : contract) (e : env) (mgmt_ok : bool) (data : item) (st : cstate) : outcome cstate :=
    _ <-! gate c e;
    args <-! append_version data (c_version st);
    _ <-! oassert mgmt_ok;
    s' <-! deploy_update c e args (c_store st);
    Halt (mkC s' verN).

  (** The injector stub's [Update]: Management.update with [data] as is. *)
  Definition stub_update (c : contract) (e : env) (mgmt_ok : bool) (data : item) (st : cstate) : outcome cstate :=
    _ <-! oassert mgmt_ok;
    args <-! item_to_list data;
    s' <-! deploy_update c e args (c_store st);
    Halt (mkC s' verN).

  (** Transaction atomicity. *)
  Definition atomic (st : cstate) (o : outcome cstate) : cstate * bool :=
    match o with Halt st' => (st', true) | Fault => (st, false) end.

  Definition update_tx c e ok data st := atomic st (update c e ok data st).
  Definition stub_update_tx c e ok data st := atomic st (stub_update c e ok data st).

  (** ** Read API (raw level: the stored bytes a getter deserialises) *)

  (** [Account.Balance] of balance.getAccount's value. *)
  Definition account_balance (d : option bytes) : outcome Z :=
    match d with
    | None => Halt 0
    | Some b => it <-! deserialize b; x <-! field it 0; item_to_int x
    end.
  Definition balance_of_old (s : store) (a : bytes) : outcome Z := account_balance (sget a s).
  Definition balance_of_new (s : store) (a : bytes) : outcome Z := account_balance (sget (acc_prefix :: a) s).
  Definition total_supply (s : store) : option bytes := sget k_supply s.

  (** container: Get/Owner read [x<cid>]; List/ContainersOf scan [o<owner>];
      Count and the owner-less List scan [x]. *)
  Definition cnr_get_old (s : store) (cid : bytes) : option bytes := sget cid s.
  Definition cnr_get_new (s : store) (cid : bytes) : option bytes := sget (cnr_prefix :: cid) s.
  Definition cnr_all_old (s : store) : list (bytes * bytes) :=
    filter (fun kv => length (fst kv) = 32%nat) (sfind [] s).
  Definition cnr_all_new (s : store) : list (bytes * bytes) :=
    map (fun kv => (tail (fst kv), snd kv)) (sfind [cnr_prefix] s).
  Definition cnr_owned_old (s : store) (owner : bytes) : list (bytes * bytes) :=
    filter (fun kv => length (fst kv) = 57%nat) (sfind owner s).
  Definition cnr_owned_new (s : store) (owner : bytes) : list (bytes * bytes) :=
    map (fun kv => (tail (fst kv), snd kv)) (sfind (owner_prefix :: owner) s).
  Definition cnr_eacl (s : store) (cid : bytes) : option bytes := sget (p_eacl ++ cid) s.
  (** IterateContainerSizes(epoch, cid) scans ["cnr" ++ epoch ++ cid]. *)
  Definition cnr_estimations (s : store) (epoch : Z) (cid : bytes) : list (bytes * bytes) :=
    sfind (p_estimate ++ int_to_bytes epoch ++ cid) s.
End Model.

(** The constants of common/version.go at the pinned commit
    (major.minor.patch = 0.20.0, prev = 0.15.4). *)
Definition real_prev : Z := 0 * 1000000 + 15 * 1000 + 4.
Definition real_version : Z := 0 * 1000000 + 20 * 1000 + 0.

(** * Observation: what the harness records and how it is compared *)

Definition kvs := list (bytes * bytes).

Fixpoint kvs_eqb (a b : kvs) : bool :=
  match a, b with
  | [], [] => true
  | (k1, v1) :: a', (k2, v2) :: b' => bytes_eqb k1 k2 && bytes_eqb v1 v2 && kvs_eqb a' b'
  | _, _ => false
  end.

(** Finite tables standing for the platform functions on the inputs that
    occurred in the run (computed by the real implementations in Go). *)
Fixpoint keys_eqb (a b : list bytes) : bool :=
  match a, b with
  | [], [] => true
  | x :: a', y :: b' => bytes_eqb x y && keys_eqb a' b'
  | _, _ => false
  end.

Definition ms_table (tbl : list (Z * list bytes * bytes)) (m : Z) (ks : list bytes) : bytes :=
  match find (fun r => (fst (fst r) =? m)%Z && keys_eqb (snd (fst r)) ks) tbl with
  | Some r => snd r
  | None => []
  end.

Definition bytes_table (tbl : list (bytes * bytes)) (x : bytes) : bytes :=
  match find (fun r => bytes_eqb (fst r) x) tbl with
  | Some r => snd r
  | None => []
  end.

Definition opt_table (tbl : list (bytes * bytes)) (x : bytes) : option bytes :=
  match find (fun r => bytes_eqb (fst r) x) tbl with
  | Some r => Some (snd r)
  | None => None
  end.

(** An environment in which the Alphabet's GAS distribution cannot run. *)
(** RoleManagement: a designation made by a transaction of block N is stored
    under index N+1; [GetDesignatedByRole(role, i)] answers with the latest
    designation stored under an index <= i (the empty list if none).  [tbl]
    lists the designations (stored index, keys) of the chain. *)
Definition designation_at (tbl : list (Z * list bytes)) (i : Z) : list bytes :=
  snd (fold_left (fun best ent => if (fst best <=? fst ent)%Z && (fst ent <=? i)%Z then ent else best)
                 tbl ((-1)%Z, [])).

Definition env_basic (h : Z) (committee : list bytes) (designations : list (Z * list bytes))
                     (wit : list bytes) : env :=
  mkEnv h committee (designation_at designations) wit 0 None (fun _ => None) (fun _ => None) (fun _ => true).

Inductive mop : Type :=
| OUpdate (c : contract) (vold : Z) (e : env) (mgmt_ok : bool) (data : item)
| OStub (c : contract) (e : env) (mgmt_ok : bool) (data : item).

(** One recorded invocation: the operation, the storage dump before, and the
    observed outcome (halted?, dump after, [version()] after; -1 where the
    running code has no such method). *)
Record mcase := mkCase {
  m_op : mop; m_before : kvs; m_halt : bool; m_after : kvs; m_version : Z }.

Section Check.
  Context (msaddr : Z -> list bytes -> bytes) (stdacc : bytes -> option bytes) (h160 : bytes -> bytes).
  Context (prevN verN : Z).

  Definition run_mop (op : mop) (before : kvs) : cstate * bool :=
    match op with
    | OUpdate c vold e ok data =>
        update_tx msaddr stdacc h160 prevN verN c e ok data (mkC (of_list before) vold)
    | OStub c e ok data =>
        stub_update_tx stdacc h160 prevN verN c e ok data (mkC (of_list before) (-1))
    end.

  Definition check_mig (c : mcase) : option (bool * kvs * Z) :=
    let '(st', halted) := run_mop (m_op c) (m_before c) in
    let d := sdump (c_store st') in
    if Bool.eqb halted (m_halt c) && kvs_eqb d (m_after c) && (c_version st' =? m_version c)%Z
    then None else Some (halted, d, c_version st').
End Check.

(** ** The Alphabet contract's GAS distribution (0.16 -> 0.17) *)

Record acase := mkACase {
  a_env : env; a_data : item; a_before : kvs;
  a_halt : bool; a_after : kvs; a_transfers : list (bytes * Z) }.

Fixpoint transfers_eqb (a b : list (bytes * Z)) : bool :=
  match a, b with
  | [], [] => true
  | (t1, x1) :: a', (t2, x2) :: b' => bytes_eqb t1 t2 && (x1 =? x2)%Z && transfers_eqb a' b'
  | _, _ => false
  end.

Definition env_alphabet (h gas : Z) (netmap : bytes) (nodes : list item) (ir : list bytes) : env :=
  mkEnv h [] (fun _ => []) [] gas None
        (fun nm => if bytes_eqb nm netmap then Some nodes else None)
        (fun nm => if bytes_eqb nm netmap then Some ir else None)
        (fun _ => true).

Definition check_alpha (stdacc : bytes -> option bytes) (prevN verN : Z) (c : acase)
  : option (bool * kvs * Z) :=
  let before := of_list (a_before c) in
  let r := (args <-! item_to_list (a_data c); deploy_alphabet stdacc prevN verN (a_env c) args before) in
  let '(halted, s', trs) :=
    match r with
    | Halt (s', trs) => (true, s', map (fun t => (tr_to t, tr_amount t)) trs)
    | Fault => (false, before, [])
    end in
  if Bool.eqb halted (a_halt c) && kvs_eqb (sdump s') (a_after c) && transfers_eqb trs (a_transfers c)
  then None else Some (halted, sdump s', fold_right (fun t acc => snd t + acc)%Z 0%Z trs).
