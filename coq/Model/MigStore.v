(** Model/MigStore.v — substrate of the C16 (upgrade) family.

    (1) Contract storage as the storage interops of neo-go present it:
        a finite map from byte strings to byte strings; [storage.Find] is the
        prefix scan in ascending byte order of the keys over a snapshot taken
        at the call (the model computes the list once and then folds over it
        while the store evolves); [storage.Put] has the platform's key/value
        length limits.
    (2) NeoVM stack items and their binary (de)serialisation
        ([std.Serialize]/[std.Deserialize], neo-go pkg/vm/stackitem/
        serialization.go), as far as the migrated layouts need it: Null,
        Boolean, Integer, ByteString, Buffer, Array, Struct.  Map (0x48),
        Pointer and Interop values never occur in a migrated layout; the
        decoder faults on them (the layout predicates exclude them).
    (3) The implicit conversions the compiled code performs on values read
        from storage ([x.(bool)], [x.(int)], [x.([]any)]).

    No proofs here (lemmas: Proofs/MigStore.v). *)
From Verif Require Import Base.Prelude Base.IntCodec.
Local Open Scope Z_scope.

(** * Storage *)

Notation store := (gmap bytes bytes).

Definition sget (k : bytes) (s : store) : option bytes := s !! k.

(** [storage.Find(ctx, p, None)]: (key, value) pairs whose key starts with
    [p], ascending in the byte order of the keys. *)
Definition sfind (p : bytes) (s : store) : list (bytes * bytes) :=
  omap (fun k => if is_prefix p k then (fun v => (k, v)) <$> (s !! k) else None) (skeys s).

(** limits.MaxStorageKeyLen = 64, limits.MaxStorageValueLen = 65535
    (pkg/core/interop/storage/basic.go, putWithContext).  Get, Find and Delete
    have no length check. *)
Definition max_key_len : Z := 64.
Definition max_val_len : Z := 65535.

Definition kv_ok (k v : bytes) : bool :=
  (Z.of_nat (length k) <=? max_key_len) && (Z.of_nat (length v) <=? max_val_len).

Definition sput (k v : bytes) (s : store) : outcome store :=
  if kv_ok k v then Halt (<[k := v]> s) else Fault.

Definition sdel (k : bytes) (s : store) : store := delete k s.

(** Every storage the platform can hold respects the [Put] limits. *)
Definition store_ok (s : store) : Prop :=
  forall k v, s !! k = Some v -> kv_ok k v = true.
Definition store_okb (s : store) : bool :=
  forallb (fun kv => kv_ok (fst kv) (snd kv)) (map_to_list s).

(** Full dump in iteration order (what the harness records). *)
Definition sdump (s : store) : list (bytes * bytes) := sfind [] s.

Definition of_list (l : list (bytes * bytes)) : store := list_to_map l.

(** ASCII literal helper: ["notary"] etc. are written as byte lists. *)

(** * Stack items *)

Inductive item : Type :=
| INull
| IBool (b : bool)
| IInt (z : Z)
| IBytes (b : bytes)
| IBuffer (b : bytes)
| IArray (l : list item)
| IStruct (l : list item).

(** Number of items including the containers themselves
    (MaxSerialized = MaxDeserialized = 2048). *)
Fixpoint item_count (x : item) : Z :=
  match x with
  | IArray l | IStruct l => 1 + fold_right (fun y acc => item_count y + acc) 0 l
  | _ => 1
  end.

Definition max_items : Z := 2048.
Definition max_item_size : Z := 1048576.      (* stackitem.MaxSize *)

(** io.PutVarUint *)
Definition varuint (n : Z) : bytes :=
  if n <? 253 then [Z.to_N n]
  else if n <=? 65535 then 253%N :: le_bytes 2 n
  else if n <=? 4294967295 then 254%N :: le_bytes 4 n
  else 255%N :: le_bytes 8 n.

Fixpoint ser (x : item) : bytes :=
  match x with
  | INull => [0%N]
  | IBool b => [32%N; if b then 1%N else 0%N]
  | IInt z => let d := int_to_bytes z in 33%N :: varuint (Z.of_nat (length d)) ++ d
  | IBytes b => 40%N :: varuint (Z.of_nat (length b)) ++ b
  | IBuffer b => 48%N :: varuint (Z.of_nat (length b)) ++ b
  | IArray l => 64%N :: varuint (Z.of_nat (length l)) ++ flat_map ser l
  | IStruct l => 65%N :: varuint (Z.of_nat (length l)) ++ flat_map ser l
  end.

(** [std.Serialize]: faults when the item has more than 2048 elements, an
    integer outside the VM range cannot exist, and the result is limited to
    MaxSize bytes. *)
Definition serialize (x : item) : outcome bytes :=
  if item_count x <=? max_items then
    let b := ser x in
    if Z.of_nat (length b) <=? max_item_size then Halt b else Fault
  else Fault.

(** io.BinReader.ReadVarUint (non-minimal encodings are accepted). *)
Definition take_exact (n : nat) (b : bytes) : option (bytes * bytes) :=
  if (n <=? length b)%nat then Some (take n b, drop n b) else None.

Definition read_varuint (b : bytes) : option (Z * bytes) :=
  match b with
  | [] => None
  | x :: r =>
      let fixed n := match take_exact n r with Some (d, r') => Some (le_to_Z d, r') | None => None end in
      if (x =? 253)%N then fixed 2%nat
      else if (x =? 254)%N then fixed 4%nat
      else if (x =? 255)%N then fixed 8%nat
      else Some (Z.of_N x, r)
  end.

Definition read_varbytes (maxn : Z) (b : bytes) : option (bytes * bytes) :=
  match read_varuint b with
  | Some (n, r) => if n >? maxn then None else take_exact (Z.to_nat n) r
  | None => None
  end.

(** The element loop of an Array/Struct: [k] items decoded by [d]. *)
Definition deser_list (d : Z -> bytes -> option (item * bytes * Z))
  : nat -> Z -> bytes -> option (list item * bytes * Z) :=
  fix go (k : nat) (lim : Z) (b : bytes) {struct k} :=
    match k with
    | O => Some ([], b, lim)
    | S k' =>
        match d lim b with
        | None => None
        | Some (x, b1, lim1) =>
            match go k' lim1 b1 with
            | None => None
            | Some (xs, b2, lim2) => Some (x :: xs, b2, lim2)
            end
        end
    end.

(** deserContext.decodeBinary with its element budget [lim]; returns the
    item, the unread rest and the remaining budget. *)
Fixpoint deser (fuel : nat) (lim : Z) (b : bytes) {struct fuel} : option (item * bytes * Z) :=
  match fuel with
  | O => None
  | S f =>
      match b with
      | [] => None
      | t :: r =>
          let lim := lim - 1 in
          if lim <? 0 then None
          else if (t =? 40)%N then
            match read_varbytes max_item_size r with Some (d, r') => Some (IBytes d, r', lim) | None => None end
          else if (t =? 48)%N then
            match read_varbytes max_item_size r with Some (d, r') => Some (IBuffer d, r', lim) | None => None end
          else if (t =? 32)%N then
            match r with [] => None | x :: r' => Some (IBool (negb (x =? 0)%N), r', lim) end
          else if (t =? 33)%N then
            match read_varbytes 32 r with Some (d, r') => Some (IInt (bytes_to_int d), r', lim) | None => None end
          else if (t =? 64)%N || (t =? 65)%N then
            match read_varuint r with
            | None => None
            | Some (n, r1) =>
                if n >? lim then None
                else
                  match deser_list (deser f) (Z.to_nat n) lim r1 with
                  | None => None
                  | Some (xs, r2, lim2) => Some (if (t =? 64)%N then IArray xs else IStruct xs, r2, lim2)
                  end
            end
          else if (t =? 0)%N then Some (INull, r, lim)
          else None
      end
  end.

(** [std.Deserialize]: one item is decoded, trailing bytes are ignored. *)
Definition deserialize (b : bytes) : outcome item :=
  match deser (S (length b)) max_items b with
  | Some (x, _, _) => Halt x
  | None => Fault
  end.

(** * Conversions emitted by the compiler *)

(** [x.(bool)] on a value read from storage is NOT;NOT, i.e. [Item.Bool()]:
    a byte string longer than 32 bytes faults, otherwise "some byte is not
    zero". *)
Definition bytes_to_bool (b : bytes) : outcome bool :=
  if (length b <=? 32)%nat then Halt (existsb (fun x => negb (x =? 0)%N) b) else Fault.

(** [x.(int)] = CONVERT Integer unless already an Integer. *)
Definition item_to_int (x : item) : outcome Z :=
  match x with
  | IInt z => Halt z
  | IBool b => Halt (if b then 1 else 0)
  | IBytes b | IBuffer b => if (length b <=? 32)%nat then Halt (bytes_to_int b) else Fault
  | _ => Fault
  end.

(** Items on which SIZE / PICKITEM-by-index / range work as on a Go slice. *)
Definition item_to_list (x : item) : outcome (list item) :=
  match x with
  | IArray l | IStruct l => Halt l
  | _ => Fault
  end.

(** Byte view of a primitive item (what [storage.Put] stores, what
    [len(x)] measures, what [x.([]byte)] yields). *)
Definition item_to_bytes (x : item) : outcome bytes :=
  match x with
  | IBytes b | IBuffer b => Halt b
  | IInt z => Halt (int_to_bytes z)
  | IBool b => Halt [if b then 1%N else 0%N]
  | _ => Fault
  end.

Definition onth {A} (l : list A) (i : nat) : outcome A :=
  match l !! i with Some x => Halt x | None => Fault end.

(** ASCII strings used as storage keys. *)
Definition ascii (l : list N) : bytes := l.
