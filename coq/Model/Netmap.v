(** Model/Netmap.v — executable model of contracts/netmap/contract.go
    (working tree of /repo, including the fixes d920fe5 "reject count <= 0",
    83b7934 "shrink clean-up loop k <= curEpoch-count" and 1c9e9e8 "reject
    count >= 255").
    Follows the Go source function by function (same guards, same order).
    No proofs here: the model must keep running when a proof breaks.

    Storage layout kept where it is what the properties are about:
    - the legacy ring [snapshot_<byte(i)>] is a map keyed by the byte value
      of the index ([ring_key]: [[]byte{byte(i)}] faults outside -128..255);
    - per-epoch structured lists [p<fourBytesBE(epoch)><key>] are keyed by the
      4-byte image [four_bytes_be] (truncating / zero-padding the minimal
      little-endian encoding, as the Go code does) and then by public key;
    - subscribers [e<idx><hash>] are the set of suffixes [idx :: hash];
    - candidates [candidate<key>], [2<key>] and configuration [config<key>]
      are typed maps keyed by the suffix (the prefixes do not overlap).
    Not modelled: gas, the 65535-byte limit of a storage value (a snapshot
    whose serialisation exceeds it makes Put fault), contract update. *)
From Verif Require Import Base.Prelude Base.IntCodec.
Local Open Scope Z_scope.

(** * Data *)

(** [Node]: legacy candidate / snapshot entry. *)
Record node := mkNode { blob : bytes; nst : Z }.

(** [Node2]: structured node. Addresses and attributes are opaque to the
    contract (a NeoVM map keeps insertion order; kept as an association
    list). *)
Record node2 := mkNode2 {
  n2addrs : list bytes; n2attrs : list (bytes * bytes); n2key : bytes; n2st : Z }.

(** nodestate.Type *)
Definition Online : Z := 1.
Definition Offline : Z := 2.
Definition Maintenance : Z := 3.

Definition DefaultSnapshotCount : Z := 10.

Record nstate := mkN {
  epoch : Z;                              (* snapshotEpoch *)
  eblock : Z;                             (* snapshotBlock *)
  count : Z;                              (* snapshotCount *)
  cur : Z;                                (* snapshotCurrent *)
  ring : gmap Z (list node);              (* snapshot_<byte> *)
  cands : gmap bytes node;                (* candidate<key> *)
  cands2 : gmap bytes node2;              (* 2<key> *)
  nodes2 : gmap bytes (gmap bytes node2); (* p<4 bytes BE epoch><key> *)
  subs : gmap bytes unit;                 (* e<idx><hash> *)
  config : gmap bytes bytes               (* config<key> *)
}.

Definition set_epoch s e b := mkN e b (count s) (cur s) (ring s) (cands s) (cands2 s) (nodes2 s) (subs s) (config s).
Definition set_count s n := mkN (epoch s) (eblock s) n (cur s) (ring s) (cands s) (cands2 s) (nodes2 s) (subs s) (config s).
Definition set_cur s i := mkN (epoch s) (eblock s) (count s) i (ring s) (cands s) (cands2 s) (nodes2 s) (subs s) (config s).
Definition set_ring s r := mkN (epoch s) (eblock s) (count s) (cur s) r (cands s) (cands2 s) (nodes2 s) (subs s) (config s).
Definition set_cands s m := mkN (epoch s) (eblock s) (count s) (cur s) (ring s) m (cands2 s) (nodes2 s) (subs s) (config s).
Definition set_cands2 s m := mkN (epoch s) (eblock s) (count s) (cur s) (ring s) (cands s) m (nodes2 s) (subs s) (config s).
Definition set_nodes2 s m := mkN (epoch s) (eblock s) (count s) (cur s) (ring s) (cands s) (cands2 s) m (subs s) (config s).
Definition set_subs s m := mkN (epoch s) (eblock s) (count s) (cur s) (ring s) (cands s) (cands2 s) (nodes2 s) m (config s).
Definition set_config s m := mkN (epoch s) (eblock s) (count s) (cur s) (ring s) (cands s) (cands2 s) (nodes2 s) (subs s) m.

(** Invocation context: the public keys / script hashes for which
    [runtime.CheckWitness] answers true, whether the Alphabet multi-signature
    account is among them ([common.CheckAlphabetWitness]), and
    [ledger.CurrentIndex()] (the block being persisted). *)
Record nctx := mkNC { wit : list bytes; alpha : bool; height : Z }.

Inductive nop :=
| NewEpoch (e : Z)
| AddPeer (info : bytes)
| AddPeerIR (info : bytes)
| AddNode (n : node2)
| DeleteNode (k : bytes)
| UpdateState (st : Z) (k : bytes)
| UpdateStateIR (st : Z) (k : bytes)
| UpdateSnapshotCount (n : Z)
| Subscribe (h : bytes)
| SetConfig (k v : bytes).

(** Notifications, plus [NCall h e]: the cross-contract call
    [contract.Call(h, "newEpoch", All, e)] made by [cleanup] (visible in the
    application log through the probe subscriber's own notification). *)
Inductive nnotif :=
| NAddPeer (k : bytes)
| NAddNode (k : bytes) (addrs : list bytes) (attrs : list (bytes * bytes))
| NUpdateState (k : bytes) (st : Z)
| NNewEpoch (e : Z)
| NSubscription (h : bytes)
| NCall (h : bytes) (e : Z).

(** * Platform pieces *)

(** [storage.Get/Put/Delete] fault when prefix+key is longer than 64 bytes
    (Put: "key is too big"; Get/Delete: the DAO's key buffer overflows —
    observed on the VM). *)
Definition key_ok (pfx : nat) (k : bytes) : bool := (pfx + length k <=? 64)%nat.

Definition pk_len (k : bytes) : bool := (length k =? 33)%nat.

(** Go slicing [b[off:off+n]] faults when out of range. *)
Definition slice (off n : nat) (b : bytes) : outcome bytes :=
  if (off + n <=? length b)%nat then Halt (take n (drop off b)) else Fault.

(** VM [MOD]: truncated remainder, faults on a zero divisor. *)
Definition vm_mod (a b : Z) : outcome Z := if b =? 0 then Fault else Halt (Z.rem a b).

(** [[]byte{byte(i)}]: SETITEM on a Buffer accepts -128..255 (negative values
    wrap), anything else is a fault ("invalid value"). *)
Definition ring_key (i : Z) : outcome Z :=
  if (-128 <=? i) && (i <=? 255) then Halt (i mod 256) else Fault.

(** [fourBytesBE]: [copy] of the minimal little-endian two's complement
    encoding into 4 zero bytes (truncating longer encodings, NOT
    sign-extending shorter ones), reversed. *)
Definition four_bytes_be (z : Z) : bytes :=
  rev (take 4 (int_to_bytes z ++ [0; 0; 0; 0]%N)).

(** Values of a byte-keyed map in ascending key order ([storage.Find]). *)
Definition mvals {V} (m : gmap bytes V) : list V := omap (fun k => m !! k) (skeys m).
Definition mitems {V} (m : gmap bytes V) : list (bytes * V) :=
  omap (fun k => (fun v => (k, v)) <$> (m !! k)) (skeys m).

(** [a, b) ascending. *)
Definition zrange (a b : Z) : list Z :=
  map (fun i => a + Z.of_nat i) (seq 0 (Z.to_nat (b - a))).

Definition check_witness (c : nctx) (k : bytes) : bool := existsb (bytes_eqb k) (wit c).

(** * Contract functions *)

(** [getNetmapNodes] *)
Definition get_netmap_nodes (s : nstate) : list node := mvals (cands s).

(** [filterNetmap] *)
Definition filter_netmap (s : nstate) : list node :=
  filter (fun n => nst n <> Offline) (get_netmap_nodes s).

(** [getSnapshot] of ring slot [k] *)
Definition get_snapshot (s : nstate) (k : Z) : list node := default [] (ring s !! k).

(** [fillNetmap]: copies every [2<key>] entry under [p<epoch><key>]
    (entries already under that prefix stay unless overwritten). Keys of
    [cands2] are 33 bytes ([AddNode] is the only writer), so the Put key
    length (1+4+33) is within the limit. *)
Definition fill_netmap (s : nstate) (e : Z) : nstate :=
  let p := four_bytes_be e in
  set_nodes2 s (<[p := cands2 s ∪ default ∅ (nodes2 s !! p)]> (nodes2 s)).

(** [dropNetmap] *)
Definition drop_netmap (m : gmap bytes (gmap bytes node2)) (e : Z) : gmap bytes (gmap bytes node2) :=
  delete (four_bytes_be e) m.

(** [moveSnapshot]: [storage.Put(keyTo, storage.Get(keyFrom))]; Put of nil
    (absent source) faults. *)
Definition move_snapshot (r : outcome (gmap Z (list node))) (from to : Z)
  : outcome (gmap Z (list node)) :=
  r <-! r;
  kf <-! ring_key from;
  kt <-! ring_key to;
  match r !! kf with
  | Some v => Halt (<[kt := v]> r)
  | None => Fault
  end.

Definition delete_slot (r : outcome (gmap Z (list node))) (k : Z) : outcome (gmap Z (list node)) :=
  r <-! r;
  kk <-! ring_key k;
  Halt (delete kk r).

(** The storage writes of [NewEpoch(e)] at height [h], in source order:
    [filterNetmap] (read), epoch and block, [fillNetmap], current id, the
    ring slot [key = byte(id)], [dropNetmap(e - count)] when [e > count].
    ([id] and [key] are computed by the caller from the unchanged
    [snapshotCount] / [snapshotCurrent].) *)
Definition tick_state (s : nstate) (e h id key : Z) : nstate :=
  let online := filter_netmap s in
  let s1 := set_epoch s e h in
  let s2 := fill_netmap s1 e in
  let snap_count := count s2 in
  let s3 := set_cur s2 id in
  let s4 := set_ring s3 (<[key := online]> (ring s3)) in
  if e >? snap_count
  then set_nodes2 s4 (drop_netmap (nodes2 s4) (e - snap_count)) else s4.

(** The ring rotation of [UpdateSnapshotCount] ([old] = stored count, [n] =
    new count, [id] = current index), as the list of [moveSnapshot(from, to)]
    calls in the order the loops make them, and the range of the delete loop:
    - enlarging: [for k := n-1; k >= diff+id+1; k-- { move(k-diff, k) }],
      delete [id+1, min(id+1+diff, old));
    - shrinking with [id < n] ("K2"): [for k := id+1; k < n; k++ { move(k+old-n, k) }];
    - shrinking with [id >= n] ("K1"): [for k := 0; k < n; k++ { move(k+id-n+1, k) }]
      and the current id becomes [n-1];
      delete [n, old) in both shrinking cases. *)
Definition resize_moves (old n id : Z) : list (Z * Z) :=
  if old <? n then
    let diff := n - old in
    map (fun k => (k - diff, k)) (rev (zrange (diff + id + 1) n))
  else
    let '(step, start) := if id <? n then (old - n, id + 1) else (id - n + 1, 0) in
    map (fun k => (k + step, k)) (zrange start n).

Definition resize_dels (old n id : Z) : list Z :=
  if old <? n then zrange (id + 1) (Z.min (id + 1 + (n - old)) old) else zrange n old.

Definition resize_cur (old n id : Z) : Z :=
  if (old <? n) || (id <? n) then id else n - 1.

Definition resize_ring (r : gmap Z (list node)) (old n id : Z) : outcome (gmap Z (list node)) :=
  let r1 := fold_left (fun r m => move_snapshot r (fst m) (snd m)) (resize_moves old n id) (Halt r) in
  fold_left delete_slot (resize_dels old n id) r1.

(** [for k := curEpoch-oldCount+1; k <= curEpoch-count; k++ { dropNetmap(k) }] *)
Definition resize_lists (m : gmap bytes (gmap bytes node2)) (e old n : Z)
  : gmap bytes (gmap bytes node2) :=
  fold_left drop_netmap (zrange (e - old + 1) (e - n + 1)) m.

Section WithSubscribers.
  (** Subscriber contracts are abstract: [sub_ok h] — a contract with hash
      [h] is deployed and has [newEpoch/1] ([management.HasMethod]; a hash
      that is not 20 bytes faults in the native call, also [false] here);
      [sub_accepts h e] — its [newEpoch(e)] returns normally (it does not
      call back into Netmap). *)
  Variable sub_ok : bytes -> bool.
  Variable sub_accepts : bytes -> Z -> bool.

  (** [cleanup]: calls every subscriber in [Find] order of [e<idx><hash>]. *)
  Definition cleanup_visit (e : Z) (acc : outcome (list nnotif)) (k : bytes) : outcome (list nnotif) :=
    ns <-! acc;
    h <-! (match k with [] => Fault | _ :: h => Halt h end);
    if sub_accepts h e then Halt (ns ++ [NCall h e]) else Fault.

  Definition cleanup (s : nstate) (e : Z) : outcome (list nnotif) :=
    fold_left (cleanup_visit e) (skeys (subs s)) (Halt []).

  (** [addToNetmap] *)
  Definition add_to_netmap (s : nstate) (k : bytes) (n : node) : outcome (nstate * list nnotif) :=
    _ <-! oassert (key_ok 9 k);
    _ <-! oassert (pk_len k);                       (* Notify: PublicKey *)
    Halt (set_cands s (<[k := n]> (cands s)), [NAddPeer k]).

  (** [removeFromNetmap] *)
  Definition remove_from_netmap (s : nstate) (k : bytes) : outcome nstate :=
    _ <-! oassert (key_ok 9 k);
    _ <-! oassert (key_ok 1 k);
    Halt (set_cands2 (set_cands s (delete k (cands s))) (delete k (cands2 s))).

  (** [updateNetmapState] *)
  Definition update_netmap_state (s : nstate) (k : bytes) (st : Z) : outcome nstate :=
    _ <-! oassert (key_ok 9 k);
    let '(s1, p1) :=
      match cands s !! k with
      | Some n => (set_cands s (<[k := mkNode (blob n) st]> (cands s)), true)
      | None => (s, false)
      end in
    _ <-! oassert (key_ok 1 k);
    let '(s2, p2) :=
      match cands2 s1 !! k with
      | Some n => (set_cands2 s1 (<[k := mkNode2 (n2addrs n) (n2attrs n) (n2key n) st]> (cands2 s1)), true)
      | None => (s1, false)
      end in
    _ <-! oassert (p1 || p2);
    Halt s2.

  (** [updateCandidateState] *)
  Definition update_candidate_state (s : nstate) (k : bytes) (st : Z) : outcome (nstate * list nnotif) :=
    s' <-! (if st =? Offline then remove_from_netmap s k
            else if (st =? Online) || (st =? Maintenance) then update_netmap_state s k st
            else Fault);
    _ <-! oassert (pk_len k);                       (* Notify: PublicKey *)
    Halt (s', [NUpdateState k st]).

  (** [UpdateSnapshotCount]: guards, then the ring rotation
      ([resize_ring]), the new current id ([resize_cur]) and the clean-up of
      the per-epoch lists ([resize_lists]). *)
  Definition update_snapshot_count (s : nstate) (n : Z) : outcome nstate :=
    _ <-! oassert (negb (n <=? 0));
    _ <-! oassert (negb (n >=? 255));               (* fix 1c9e9e8 *)
    let old := count s in
    _ <-! oassert (negb (old =? n));
    r2 <-! resize_ring (ring s) old n (cur s);
    Halt (set_nodes2 (set_ring (set_cur (set_count s n) (resize_cur old n (cur s))) r2)
                     (resize_lists (nodes2 s) (epoch s) old n)).

  (** [SubscribeForNewEpoch]: [None] = already subscribed (returns without
      a notification). *)
  Definition find_sub (h : bytes) (keys : list bytes) : outcome bool :=
    fold_left (fun acc k =>
                 found <-! acc;
                 raw <-! (match k with [] => Fault | _ :: r => Halt r end);
                 Halt (found || bytes_eqb h raw))
              keys (Halt false).

  Definition nexec (c : nctx) (s : nstate) (o : nop) : outcome (nstate * list nnotif) :=
    match o with
    | AddPeerIR info =>
        _ <-! oassert (alpha c);
        k <-! slice 2 33 info;
        add_to_netmap s k (mkNode info Online)
    | AddPeer info =>
        k <-! slice 2 33 info;
        _ <-! oassert (check_witness c k);
        _ <-! oassert (alpha c);
        add_to_netmap s k (mkNode info Online)
    | AddNode n =>
        _ <-! oassert (n2st n =? Online);
        _ <-! oassert (pk_len (n2key n));
        _ <-! oassert (check_witness c (n2key n));
        _ <-! oassert (alpha c);
        Halt (set_cands2 s (<[n2key n := n]> (cands2 s)),
              [NAddNode (n2key n) (n2addrs n) (n2attrs n)])
    | DeleteNode k =>
        _ <-! oassert (pk_len k);
        _ <-! oassert (alpha c);
        update_candidate_state s k Offline
    | UpdateState st k =>
        _ <-! oassert (pk_len k);
        _ <-! oassert (check_witness c k);
        _ <-! oassert (alpha c);
        update_candidate_state s k st
    | UpdateStateIR st k =>
        _ <-! oassert (alpha c);
        update_candidate_state s k st
    | NewEpoch e =>
        _ <-! oassert (alpha c);
        _ <-! oassert (negb (e <=? epoch s));
        (* id = (id + 1) % snapCount; key = byte(id) *)
        id <-! vm_mod (cur s + 1) (count s);
        key <-! ring_key id;
        let s5 := tick_state s e (height c) id key in
        calls <-! cleanup s5 e;
        Halt (s5, calls ++ [NNewEpoch e])
    | UpdateSnapshotCount n =>
        _ <-! oassert (alpha c);
        s' <-! update_snapshot_count s n;
        Halt (s', [])
    | Subscribe h =>
        _ <-! oassert (alpha c);
        _ <-! oassert (sub_ok h);
        let keys := skeys (subs s) in
        found <-! find_sub h keys;
        if found then Halt (s, []) else
        (* num is the number of entries seen; [append(key, num)] of a value
           above 255 faults (not reachable in the correspondence: would need
           256 deployed subscribers) *)
        let num := Z.of_nat (length keys) in
        _ <-! oassert (num <=? 255);
        _ <-! oassert (key_ok 2 h);
        Halt (set_subs s (<[Z.to_N num :: h := tt]> (subs s)), [NSubscription h])
    | SetConfig k v =>
        _ <-! oassert (alpha c);
        _ <-! oassert (key_ok 6 k);
        Halt (set_config s (<[k := v]> (config s)), [])
    end.

  (** Transaction wrapper: a fault changes nothing and emits nothing. *)
  Definition nstep (s : nstate) (co : nctx * nop) : nstate * bool * list nnotif :=
    match nexec (fst co) s (snd co) with
    | Halt (s', ns) => (s', true, ns)
    | Fault => (s, false, [])
    end.

  Definition nstep_state (s : nstate) (co : nctx * nop) : nstate := fst (fst (nstep s co)).
  Definition nrun_from (s : nstate) (ops : list (nctx * nop)) : nstate := fold_left nstep_state ops s.
End WithSubscribers.

(** [_deploy] (not an update): configuration pairs, count, epoch, block, ten
    empty snapshots, current id 0. *)
Definition ninit (cfg : list (bytes * bytes)) : nstate :=
  mkN 0 0 DefaultSnapshotCount 0
      (list_to_map (map (fun i => (i, [])) (zrange 0 DefaultSnapshotCount)))
      ∅ ∅ ∅ ∅
      (fold_left (fun m kv => <[fst kv := snd kv]> m) cfg ∅).

(** * Readers (safe methods) *)

Definition r_epoch (s : nstate) : Z := epoch s.
Definition r_last_epoch_block (s : nstate) : Z := eblock s.

Definition r_netmap (s : nstate) : outcome (list node) :=
  k <-! ring_key (cur s); Halt (get_snapshot s k).

Definition r_netmap_candidates (s : nstate) : list node := get_netmap_nodes s.

Definition r_snapshot (s : nstate) (diff : Z) : outcome (list node) :=
  let c := count s in
  if (diff <? 0) || (c <=? diff) then Fault else
  need <-! vm_mod (cur s - diff + c) c;
  k <-! ring_key need;
  Halt (get_snapshot s k).

Definition r_snapshot_by_epoch (s : nstate) (e : Z) : outcome (list node) :=
  d <-! vm_sub (epoch s) e;
  r_snapshot s d.

Definition r_list_nodes (s : nstate) (e : Z) : list node2 :=
  mvals (default ∅ (nodes2 s !! four_bytes_be e)).

Definition r_list_candidates (s : nstate) : list node2 := mvals (cands2 s).

Definition r_config (s : nstate) (k : bytes) : outcome (option bytes) :=
  if key_ok 6 k then Halt (config s !! k) else Fault.

Definition r_list_config (s : nstate) : list (bytes * bytes) := mitems (config s).

(** * Observables for the correspondence check *)

Definition node_val (n : node) : val := VList [VBytes (blob n); VInt (nst n)].
Definition node2_val (n : node2) : val :=
  VList [VList (map VBytes (n2addrs n));
         VList (map (fun kv => VList [VBytes (fst kv); VBytes (snd kv)]) (n2attrs n));
         VBytes (n2key n); VInt (n2st n)].
Definition nodes_val (o : outcome (list node)) : val :=
  match o with Halt l => VList (map node_val l) | Fault => VFault end.

Definition notif_val (n : nnotif) : val :=
  match n with
  | NAddPeer k => VList [VInt 0; VBytes k]
  | NAddNode k a t => VList [VInt 1; VBytes k; VList (map VBytes a);
                             VList (map (fun kv => VList [VBytes (fst kv); VBytes (snd kv)]) t)]
  | NUpdateState k st => VList [VInt 2; VBytes k; VInt st]
  | NNewEpoch e => VList [VInt 3; VInt e]
  | NSubscription h => VList [VInt 4; VBytes h]
  | NCall h e => VList [VInt 5; VBytes h; VInt e]
  end.

Inductive query :=
| QEpoch | QBlock | QNetmap | QCandidates | QListCandidates
| QSnapshot (d : Z) | QSnapshotByEpoch (e : Z) | QListNodes (e : Z)
| QConfig (k : bytes) | QListConfig | QSubscribers | QCount | QCur.

Definition answer (s : nstate) (q : query) : val :=
  match q with
  | QEpoch => VInt (r_epoch s)
  | QBlock => VInt (r_last_epoch_block s)
  | QNetmap => nodes_val (r_netmap s)
  | QCandidates => VList (map node_val (r_netmap_candidates s))
  | QListCandidates => VList (map node2_val (r_list_candidates s))
  | QSnapshot d => nodes_val (r_snapshot s d)
  | QSnapshotByEpoch e => nodes_val (r_snapshot_by_epoch s e)
  | QListNodes e => VList (map node2_val (r_list_nodes s e))
  | QConfig k => match r_config s k with
                 | Halt (Some v) => VBytes v | Halt None => VNull | Fault => VFault end
  | QListConfig => VList (map (fun kv => VList [VBytes (fst kv); VBytes (snd kv)]) (r_list_config s))
  | QSubscribers => VList (map VBytes (skeys (subs s)))   (* raw keys after the 'e' prefix *)
  | QCount => VInt (count s)                               (* raw storage: snapshotCount *)
  | QCur => VInt (cur s)                                   (* raw storage: snapshotCurrent *)
  end.

(** One observed step: the environment of the moment (which subscriber
    rejects which epoch), the invocation, and the reads made afterwards. *)
Definition rejects (rej : list (bytes * Z)) (h : bytes) (e : Z) : bool :=
  negb (existsb (fun p => bytes_eqb (fst p) h && (snd p =? e)) rej).
Definition deployed (oks : list bytes) (h : bytes) : bool := existsb (bytes_eqb h) oks.

Definition ostep := (list (bytes * Z) * (nctx * nop) * list query)%type.

Definition nstep_obs (oks silent : list bytes) (s : nstate) (o : ostep) : nstate * val :=
  let '(rej, co, qs) := o in
  let '(s', ok, ns) := nstep (deployed oks) (rejects rej) s co in
  (* calls into subscribers that announce nothing (the real Balance
     contract) are not visible in the application log *)
  let vis := List.filter (fun n => match n with NCall h _ => negb (deployed silent h) | _ => true end) ns in
  (s', VList [VBool ok; VList (map notif_val vis); VList (map (answer s') qs)]).

(** Abbreviations used by the generated case files. *)
Definition vE : val := VList [].
Definition vF : val := VFault.
Definition qsnap (a b : Z) : list query := map QSnapshot (zrange a (b + 1)).
Definition qbyep (a b : Z) : list query := map QSnapshotByEpoch (zrange a (b + 1)).
Definition qlist (a b : Z) : list query := map QListNodes (zrange a (b + 1)).

(** A correspondence case: deploy configuration, deployed contracts that have
    [newEpoch/1], silent subscribers, steps executed before the observed
    history (subscriptions made during deployment), observed steps. *)
Definition ncase :=
  (list (bytes * bytes) * list bytes * list bytes * list ostep * list (ostep * val))%type.

Definition check_case (c : ncase) : option (nat * val) :=
  let '(cfg, oks, silent, pre, steps) := c in
  run_case (nstep_obs oks silent)
           (fold_left (fun s o => fst (nstep_obs oks silent s o)) pre (ninit cfg)) 0 steps.
