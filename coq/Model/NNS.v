(** Model/NNS.v — executable model of contracts/nns/contract.go + namestate.go
    (ownership, authorisation and record logic; properties C10, C11, C12).
    Follows the Go source function by function (same guards, same order).
    No proofs here.

    What is abstract (Section variables; they become explicit premises or are
    instantiated by the cases files):
      [hash]        RIPEMD-160 ([getTokenKey]); the theorems assume injectivity.
      [valid_name]  [safeSplitAndCheck name] returns no error (property C18).
      [valid_data]  the [switch typ] of [checkRecord] accepts [data]
                    (checkIPv4 / safeSplitAndCheck / length / checkIPv6).
      [str_ok]      std.StringSplit accepts the string (<= 1024 bytes, UTF-8).
    Storage layout: prefixes are dropped and fixed-length key components are
    kept as tuple components (owner 20 bytes, token key 20 bytes, type byte,
    id byte), so [storage.Find] by prefix is selection by leading components.
    Not modelled: gas (but [runtime.BurnGas] faulting on a non-positive amount
    is), witness scopes, re-entrancy of a receiving contract's
    [onNEP11Payment] (it either returns or faults: [rejecting]). *)
From Verif Require Import Base.Prelude.
Local Open Scope Z_scope.

(** * Strings *)
Definition DOT : N := 46.
Definition SPACE : N := 32.

(** [strings.Split s sep] for a one-byte separator. *)
Fixpoint split_on (sep : N) (s : bytes) : list bytes :=
  match s with
  | [] => [[]]
  | c :: s' =>
      if N.eqb c sep then [] :: split_on sep s'
      else match split_on sep s' with
           | [] => [[c]]
           | f :: fs => (c :: f) :: fs
           end
  end.
Definition split_dot (s : bytes) : list bytes := split_on DOT s.
Definition nonempty (b : bytes) : bool := negb (length b =? 0)%nat.
(** [std.StringSplitNonEmpty s " "] *)
Definition split_nonempty (s : bytes) : list bytes := filter (fun f => nonempty f = true) (split_on SPACE s).

Fixpoint join_with (sep : N) (fs : list bytes) : bytes :=
  match fs with
  | [] => []
  | [f] => f
  | f :: fs' => f ++ sep :: join_with sep fs'
  end.
Definition join_dot := join_with DOT.

(** [std.Itoa z 10] = big.Int.Text(10). *)
Fixpoint digitsN (fuel : nat) (n : N) (acc : bytes) : bytes :=
  match fuel with
  | O => acc
  | S f => if (n <? 10)%N then (48 + n)%N :: acc
           else digitsN f (n / 10)%N ((48 + n mod 10)%N :: acc)
  end.
Definition itoa (z : Z) : bytes :=
  if z <? 0 then 45%N :: digitsN (S (N.size_nat (Z.to_N (- z)))) (Z.to_N (- z)) []
  else digitsN (S (N.size_nat (Z.to_N z))) (Z.to_N z) [].

(** [name] is a proper suffix of [r] ([getParentConflictingRecord]:
    last index > 0 and index + len name = len r). *)
Definition proper_suffix (name r : bytes) : bool :=
  (length name <? length r)%nat && bytes_eqb (drop (length r - length name) r) name.

Definition vm_mul (a b : Z) : outcome Z := if int_ok (a * b) then Halt (a * b) else Fault.

(** * Constants of contract.go *)
Definition maxRegisterPrice : Z := 1000000000000.
Definition defaultRegisterPrice : Z := 1000000000.
Definition maxDomainNameLength : Z := 255.
Definition maxRecordID : Z := 15.
Definition millisecondsInSecond : Z := 1000.
Definition millisecondsInYear : Z := 365 * 24 * 3600 * 1000.
Definition millisecondsInTenYears : Z := 10 * millisecondsInYear.
(** recordtype *)
Definition T_A : Z := 1.
Definition T_CNAME : Z := 5.
Definition T_SOA : Z := 6.
Definition T_TXT : Z := 16.
Definition T_AAAA : Z := 28.

(** * State *)
(** [NameState]; [None] = nil Hash160 (committee-owned / no admin). *)
Record namestate := mkNS { ns_owner : option bytes; ns_name : bytes; ns_exp : Z; ns_admin : option bytes }.
(** [RecordState] *)
Record rstate := mkR { r_name : bytes; r_type : Z; r_data : bytes; r_id : Z }.

(** record key: (token key, name key, type byte, id byte) *)
Definition rkey : Type := bytes * bytes * N * N.

Record nstate := mkS {
  names : gmap bytes namestate;        (* 0x21 ++ hash name *)
  roots : gmap bytes unit;             (* 0x20 ++ TLD (the name, not its hash) *)
  supply : Z;                          (* 0x00 *)
  balances : gmap bytes Z;             (* 0x01 ++ owner *)
  acctok : gmap (bytes * bytes) bytes; (* 0x02 ++ owner ++ hash name -> name *)
  records : gmap rkey rstate;          (* 0x22 ++ hash token ++ hash name ++ type ++ id *)
  price : Z                            (* 0x10 *)
}.
(** state after [_deploy(nil, false)] *)
Definition ninit : nstate := mkS ∅ ∅ 0 ∅ ∅ ∅ defaultRegisterPrice.

Definition set_names (s : nstate) v := mkS v (roots s) (supply s) (balances s) (acctok s) (records s) (price s).
Definition set_roots (s : nstate) v := mkS (names s) v (supply s) (balances s) (acctok s) (records s) (price s).
Definition set_supply (s : nstate) v := mkS (names s) (roots s) v (balances s) (acctok s) (records s) (price s).
Definition set_bal (s : nstate) b a := mkS (names s) (roots s) (supply s) b a (records s) (price s).
Definition set_records (s : nstate) v := mkS (names s) (roots s) (supply s) (balances s) (acctok s) v (price s).
Definition set_price (s : nstate) v := mkS (names s) (roots s) (supply s) (balances s) (acctok s) (records s) v.

(** Invocation context: block time in ms ([runtime.GetTime]); the script
    hashes for which [runtime.CheckWitness] is true; the committee's majority
    multi-signature account ([checkCommittee]: m = l - (l-1)/2 of
    [neo.GetCommittee]); deployed contracts whose [onNEP11Payment] faults. *)
Record nctx := mkNC { now : Z; wit : list bytes; committee : bytes; rejecting : list bytes }.

Inductive nop :=
| Register (name : bytes) (owner : option bytes) (email : bytes) (refresh retry expire ttl : Z)
| RegisterTLD (name email : bytes) (refresh retry expire ttl : Z)
| Transfer (to : option bytes) (tokenID : bytes)
| Renew (name : bytes) (years : Z)
| SetAdmin (name : bytes) (admin : option bytes)
| AddRecord (name : bytes) (typ : Z) (data : bytes)
| SetRecord (name : bytes) (typ : Z) (id : Z) (data : bytes)
| DeleteRecords (name : bytes) (typ : Z)
| UpdateSOA (name email : bytes) (refresh retry expire ttl : Z)
| SetPrice (p : Z)
(* safe methods *)
| IsAvailable (name : bytes)
| OwnerOf (name : bytes)
| Properties (name : bytes)
| BalanceOf (owner : option bytes)
| TokensOf (owner : option bytes)
| Tokens
| TotalSupply
| GetRecords (name : bytes) (typ : Z)
| GetAllRecords (name : bytes)
| Resolve (name : bytes) (typ : Z)
| Roots
| GetPrice.

Inductive nnotif :=
| NTransfer (from to : option bytes) (name : bytes)
| NSetAdmin (name : bytes) (old new : option bytes)
| NRenew (name : bytes) (old new : Z).

Section NNS.
Variable hash : bytes -> bytes.
Variable valid_name : bytes -> bool.
Variable valid_data : Z -> bytes -> bool.
Variable str_ok : bytes -> bool.

(** * Witnesses *)
Definition hash_len (b : bytes) : bool := (length b =? 20)%nat.
(** [isValid] *)
Definition is_valid (a : option bytes) : bool :=
  match a with Some b => hash_len b | None => false end.
(** [runtime.CheckWitness h]: faults unless [h] is 20 bytes (a 33-byte public
    key is also accepted by the VM; no path of NNS survives with one, see
    SetAdmin's Notify type check). *)
Definition witness (c : nctx) (a : bytes) : outcome bool :=
  if hash_len a then Halt (existsb (bytes_eqb a) (wit c)) else Fault.
(** [checkCommittee] *)
Definition check_committee (c : nctx) : outcome unit :=
  oassert (existsb (bytes_eqb (committee c)) (wit c)).
(** [common.CheckOwnerWitness] *)
Definition check_owner_witness (c : nctx) (a : bytes) : outcome unit :=
  w <-! witness c a; oassert w.
(** [NameState.checkAdmin] *)
Definition check_admin (c : nctx) (ns : namestate) : outcome unit :=
  match ns_owner ns with
  | None => check_committee c
  | Some o =>
      if (length o =? 0)%nat then check_committee c else
      w <-! witness c o;
      if w then Halt tt else
      match ns_admin ns with
      | None => Fault
      | Some a => w' <-! witness c a; oassert w'
      end
  end.

(** * Name states *)
Definition get_ns (s : nstate) (n : bytes) : option namestate := names s !! hash n.
(** a stored, unexpired name *)
Definition live (c : nctx) (s : nstate) (n : bytes) : bool :=
  match get_ns s n with Some ns => now c <? ns_exp ns | None => false end.

(** [parentExpired ctx first fragments]: some name [fragments[i..]] with
    [first <= i <= last] is missing or expired. *)
Definition parent_expired (c : nctx) (s : nstate) (first : nat) (frags : list bytes) : bool :=
  existsb (fun i => negb (live c s (join_dot (drop i frags))))
          (seq first (length frags - first)).

(** [getNameStateWithKey] (+ [ensureNotExpired]) *)
Definition get_ns_with_key (c : nctx) (s : nstate) (key : bytes) : outcome namestate :=
  match names s !! key with
  | None => Fault
  | Some ns => if now c >=? ns_exp ns then Fault else Halt ns
  end.
(** [getFragmentedNameState]; [frags = []] = "split on its own". *)
Definition get_frag_ns (c : nctx) (s : nstate) (tokenID : bytes) (frags : list bytes) : outcome namestate :=
  ns <-! get_ns_with_key c s (hash tokenID);
  let frags := match frags with [] => split_dot tokenID | _ => frags end in
  if parent_expired c s 1 frags then Fault else Halt ns.
Definition put_ns (s : nstate) (ns : namestate) : nstate :=
  set_names s (<[hash (ns_name ns) := ns]> (names s)).

(** [tokenIDFromName]: the longest stored unexpired suffix that is not the
    TLD, else the name itself. *)
Definition token_id_from_name (c : nctx) (s : nstate) (name : bytes) : outcome bytes :=
  if valid_name name then
    let frags := split_dot name in
    Halt (default name
            (head (filter (fun n => live c s n = true)
                          (map (fun i => join_dot (drop i frags)) (seq 0 (length frags - 1))))))
  else Fault.

(** * Records *)
(** an [append]ed byte: SETITEM on a Buffer accepts -128..255 *)
Definition to_byte (z : Z) : outcome N :=
  if (-128 <=? z) && (z <=? 255) then Halt (Z.to_N (z mod 256)) else Fault.

Definition ent : Type := N * rstate.  (* (type byte * 256 + id byte, record) *)
Definition ent_le (x y : ent) : Prop := N.leb (fst x) (fst y) = true.
Global Instance ent_le_dec x y : Decision (ent_le x y).
Proof. unfold ent_le. apply _. Defined.

(** [storage.Find (0x22 ++ tk ++ nk)]: ascending (type, id). *)
Definition rec_entries (m : gmap rkey rstate) (tk nk : bytes) : list ent :=
  merge_sort ent_le
    (omap (fun kv : rkey * rstate =>
             let '((a, b, t, i), r) := kv in
             if bytes_eqb a tk && bytes_eqb b nk then Some ((t * 256 + i)%N, r) else None)
          (map_to_list m)).
(** [storage.Find (0x22 ++ tk ++ nk ++ [tb])] *)
Definition find_by_type (m : gmap rkey rstate) (tk nk : bytes) (tb : N) : list ent :=
  filter (fun e : ent => (fst e / 256 =? tb)%N = true) (rec_entries m tk nk).
(** [storage.Find (0x22 ++ tk)] (order immaterial: used for existence only) *)
Definition token_records (m : gmap rkey rstate) (tk : bytes) : list rstate :=
  omap (fun kv : rkey * rstate =>
          let '((a, _, _, _), r) := kv in if bytes_eqb a tk then Some r else None)
       (map_to_list m).

(** [storeRecord] *)
Definition store_record (s : nstate) (tokenId name : bytes) (typ : Z) (tb ib : N) (id : Z) (data : bytes) : nstate :=
  set_records s (<[(hash tokenId, hash name, tb, ib) := mkR name typ data id]> (records s)).

(** [getParentConflictingRecord] <> "" ; [parent] = name[len(fragments[0])+1:] *)
Definition parent_conflict (s : nstate) (name parent : bytes) : bool :=
  existsb (fun r => proper_suffix name (r_name r)) (token_records (records s) (hash parent)).

Definition soa_data (c : nctx) (name email : bytes) (refresh retry expire ttl : Z) : bytes :=
  name ++ SPACE :: email ++ SPACE :: itoa (now c) ++ SPACE :: itoa refresh ++ SPACE ::
  itoa retry ++ SPACE :: itoa expire ++ SPACE :: itoa ttl.

(** [putSoaRecord] *)
Definition put_soa (c : nctx) (s : nstate) (name email : bytes) (refresh retry expire ttl : Z) : outcome nstate :=
  tokenId <-! token_id_from_name c s name;
  Halt (store_record s tokenId name T_SOA 6 0 0 (soa_data c name email refresh retry expire ttl)).

(** [updateSoaSerial] *)
Definition update_soa_serial (c : nctx) (s : nstate) (tokenId : bytes) : outcome nstate :=
  let k := (hash tokenId, hash tokenId, 6%N, 0%N) in
  match records s !! k with
  | None => Fault
  | Some rec =>
      if negb (str_ok (r_data rec)) then Fault else
      match split_nonempty (r_data rec) with
      | [f0; f1; _; f3; f4; f5; f6] =>
          let d := f0 ++ SPACE :: f1 ++ SPACE :: itoa (now c) ++ SPACE :: f3 ++ SPACE ::
                   f4 ++ SPACE :: f5 ++ SPACE :: f6 in
          Halt (set_records s (<[k := mkR (r_name rec) (r_type rec) d (r_id rec)]> (records s)))
      | _ => Fault
      end
  end.

(** [checkRecord]: returns the token ID. *)
Definition check_record (c : nctx) (s : nstate) (name : bytes) (typ : Z) (data : bytes) : outcome bytes :=
  tokenID <-! token_id_from_name c s name;
  _ <-! oassert ((typ =? T_A) || (typ =? T_CNAME) || (typ =? T_TXT) || (typ =? T_AAAA));
  _ <-! oassert (valid_data typ data);
  let frags := split_dot tokenID in
  _ <-! oassert (negb (length frags =? 1)%nat);
  ns <-! get_frag_ns c s tokenID frags;
  _ <-! check_admin c ns;
  Halt tokenID.

(** [getAllRecords ctx name fragments] (fix 8bee9c1: the expiry walk is along
    the token's own name; [fragments] is no longer used) *)
Definition get_all_records (c : nctx) (s : nstate) (name : bytes) (frags : list bytes) : outcome (list ent) :=
  tokenID <-! token_id_from_name c s name;
  _ <-! get_frag_ns c s tokenID [];
  Halt (rec_entries (records s) (hash tokenID) (hash name)).

(** [resolve]; [fuel] = redirect + 1 (redirect < 0 panics). *)
Fixpoint resolve (c : nctx) (s : nstate) (fuel : nat) (res : list bytes) (name : bytes) (typ : Z)
  : outcome (list bytes) :=
  match fuel with
  | O => Fault
  | S fuel' =>
      if (length name =? 0)%nat then Fault else
      let name := if N.eqb (List.last name 0%N) DOT then removelast name else name in
      es <-! get_all_records c s name [];
      let res := res ++ map (fun e : ent => r_data (snd e)) (filter (fun e : ent => (r_type (snd e) =? typ) = true) es) in
      let cname := List.last (map (fun e : ent => r_data (snd e))
                                  (filter (fun e : ent => (r_type (snd e) =? T_CNAME) = true) es)) [] in
      if (length cname =? 0)%nat || (typ =? T_CNAME) then Halt res
      else resolve c s fuel' res cname typ
  end.

(** * NEP-11 accounting *)
Definition akey (o : option bytes) : bytes := default [] o.
(** [updateBalance] *)
Definition update_balance (s : nstate) (tokenId : bytes) (acc : option bytes) (diff : Z) : nstate :=
  let a := akey acc in
  let b := default 0 (balances s !! a) + diff in
  let bals := if b =? 0 then delete a (balances s) else <[a := b]> (balances s) in
  let k := (a, hash tokenId) in
  let at_ := if diff <? 0 then delete k (acctok s) else <[k := tokenId]> (acctok s) in
  set_bal s bals at_.

(** [postTransfer]: the notification, then [onNEP11Payment] of a receiving
    contract (faults for [rejecting] ones). *)
Definition post_transfer (c : nctx) (from to : option bytes) (tokenID : bytes) : outcome (list nnotif) :=
  if existsb (bytes_eqb (akey to)) (rejecting c) then Fault
  else Halt [NTransfer from to tokenID].

(** [saveDomain] *)
Definition save_domain (c : nctx) (s : nstate) (name email : bytes) (refresh retry expire ttl : Z)
    (owner : option bytes) : outcome nstate :=
  ems <-! vm_mul expire millisecondsInSecond;
  exp <-! vm_add (now c) ems;
  let s1 := set_names s (<[hash name := mkNS owner name exp None]> (names s)) in
  put_soa c s1 name email refresh retry expire ttl.

(** [runtime.BurnGas]: the amount must be positive (the burn itself is gas,
    not modelled). *)
Definition burn_gas (g : Z) : outcome unit := oassert (0 <? g).

Definition oaddr (o : option bytes) : val := match o with None => VNull | Some b => VBytes b end.
Definition sorted_names (l : list bytes) : val := VList (map VBytes (merge_sort bytes_le l)).
Definition ent_val (e : ent) : val :=
  let r := snd e in VList [VBytes (r_name r); VInt (r_type r); VBytes (r_data r); VInt (r_id r)].

(** * The methods *)
Definition nexec (c : nctx) (s : nstate) (o : nop) : outcome (nstate * val * list nnotif) :=
  match o with
  | Register name owner email refresh retry expire ttl =>
      _ <-! oassert (valid_name name);                       (* splitAndCheck *)
      let frags := split_dot name in
      let l := length frags in
      _ <-! oassert (negb (l =? 1)%nat);                     (* "TLD denied" *)
      _ <-! oassert (bool_decide (is_Some (roots s !! List.last frags [])));  (* "TLD not found" *)
      _ <-! oassert (negb (parent_expired c s 1 frags));
      let parent := join_dot (drop 1 frags) in
      _ <-! (if (2 <? l)%nat then
               match get_ns s parent with
               | Some pns => check_admin c pns
               | None => Fault
               end
             else Halt tt);
      _ <-! oassert (negb (parent_conflict s name parent));
      _ <-! oassert (is_valid owner);
      _ <-! check_owner_witness c (akey owner);
      _ <-! burn_gas (price s);
      match get_ns s name with
      | Some ns =>
          if now c <? ns_exp ns then Halt (s, VBool false, [])
          else
            let s1 := update_balance s name (ns_owner ns) (-1) in
            s2 <-! save_domain c s1 name email refresh retry expire ttl owner;
            let s3 := update_balance s2 name owner 1 in
            ns' <-! post_transfer c (ns_owner ns) owner name;
            Halt (s3, VBool true, ns')
      | None =>
          sup <-! vm_add (supply s) 1;
          let s1 := set_supply s sup in
          s2 <-! save_domain c s1 name email refresh retry expire ttl owner;
          let s3 := update_balance s2 name owner 1 in
          ns' <-! post_transfer c None owner name;
          Halt (s3, VBool true, ns')
      end
  | RegisterTLD name email refresh retry expire ttl =>
      _ <-! check_committee c;
      (* saveCommitteeDomain *)
      _ <-! oassert (valid_name name);
      let frags := split_dot name in
      _ <-! oassert (length frags =? 1)%nat;
      _ <-! oassert (negb (bool_decide (is_Some (roots s !! name)) && negb (parent_expired c s 0 frags)));
      let s1 := set_roots s (<[name := tt]> (roots s)) in
      s2 <-! save_domain c s1 name email refresh retry expire ttl None;
      Halt (s2, VNull, [])
  | Transfer to tokenID =>
      _ <-! oassert (is_valid to);
      _ <-! oassert (negb (length (split_dot tokenID) =? 1)%nat);
      ns <-! get_ns_with_key c s (hash tokenID);
      let from := ns_owner ns in
      w <-! witness c (akey from);
      if negb w then Halt (s, VBool false, []) else
      let s' :=
        if bytes_eqb (akey from) (akey to) then s
        else
          let s1 := set_names s (<[hash tokenID := mkNS to (ns_name ns) (ns_exp ns) None]> (names s)) in
          let s2 := update_balance s1 tokenID from (-1) in
          update_balance s2 tokenID to 1 in
      ns' <-! post_transfer c from to tokenID;
      Halt (s', VBool true, ns')
  | Renew name years =>
      _ <-! oassert ((1 <=? years) && (years <=? 10));
      _ <-! oassert (Z.of_nat (length name) <=? maxDomainNameLength);
      g <-! vm_mul (price s) years;
      _ <-! burn_gas g;
      ns <-! get_frag_ns c s name [];
      _ <-! check_admin c ns;
      add <-! vm_mul millisecondsInYear years;
      exp' <-! vm_add (ns_exp ns) add;
      _ <-! oassert (valid_name name);
      _ <-! oassert (negb ((1 <? length (split_dot name))%nat && (exp' >? now c + millisecondsInTenYears)));
      let s' := put_ns s (mkNS (ns_owner ns) (ns_name ns) exp' (ns_admin ns)) in
      Halt (s', VInt exp', [NRenew name (ns_exp ns) exp'])
  | UpdateSOA name email refresh retry expire ttl =>
      _ <-! oassert (Z.of_nat (length name) <=? maxDomainNameLength);
      ns <-! get_frag_ns c s name [];
      _ <-! check_admin c ns;
      s' <-! put_soa c s name email refresh retry expire ttl;
      Halt (s', VNull, [])
  | SetAdmin name admin =>
      _ <-! oassert (Z.of_nat (length name) <=? maxDomainNameLength);
      let frags := split_dot name in
      _ <-! oassert (negb (length frags =? 1)%nat);
      _ <-! (match admin with
             | None => Halt tt
             | Some a => w <-! witness c a; oassert w
             end);
      ns <-! get_frag_ns c s name frags;
      _ <-! check_owner_witness c (akey (ns_owner ns));
      let s' := put_ns s (mkNS (ns_owner ns) (ns_name ns) (ns_exp ns) admin) in
      Halt (s', VNull, [NSetAdmin name (ns_admin ns) admin])
  | SetRecord name typ id data =>
      tokenID <-! check_record c s name typ data;
      tb <-! to_byte typ;
      ib <-! to_byte id;
      match records s !! (hash tokenID, hash name, tb, ib) with
      | None => Fault
      | Some _ =>
          (* fix 63f40b8: no other record of the name and type may hold [data] *)
          let es := find_by_type (records s) (hash tokenID) (hash name) tb in
          _ <-! oassert (negb (existsb (fun e : ent =>
                     negb (r_id (snd e) =? id) && bytes_eqb (r_name (snd e)) name &&
                     (r_type (snd e) =? typ) && bytes_eqb (r_data (snd e)) data) es));
          let s1 := store_record s tokenID name typ tb ib id data in
          s2 <-! update_soa_serial c s1 tokenID;
          Halt (s2, VNull, [])
      end
  | AddRecord name typ data =>
      tokenID <-! check_record c s name typ data;
      tb <-! to_byte typ;
      let es := find_by_type (records s) (hash tokenID) (hash name) tb in
      let id := Z.of_nat (length es) in
      _ <-! oassert (negb (existsb (fun e : ent =>
                 bytes_eqb (r_name (snd e)) name && (r_type (snd e) =? typ) && bytes_eqb (r_data (snd e)) data) es));
      _ <-! oassert (negb (id >? maxRecordID));
      _ <-! oassert (negb ((typ =? T_CNAME) && negb (id =? 0)));
      ib <-! to_byte id;
      let s1 := store_record s tokenID name typ tb ib id data in
      s2 <-! update_soa_serial c s1 tokenID;
      Halt (s2, VNull, [])
  | DeleteRecords name typ =>
      _ <-! oassert (negb (typ =? T_SOA));
      tokenID <-! token_id_from_name c s name;
      let frags := split_dot tokenID in
      _ <-! oassert (negb (length frags =? 1)%nat);
      ns <-! get_frag_ns c s tokenID frags;
      _ <-! check_admin c ns;
      tb <-! to_byte typ;
      let es := find_by_type (records s) (hash tokenID) (hash name) tb in
      let m := fold_left (fun m (e : ent) => delete (hash tokenID, hash name, tb, (fst e mod 256)%N) m) es (records s) in
      s2 <-! update_soa_serial c (set_records s m) tokenID;
      Halt (s2, VNull, [])
  | SetPrice p =>
      _ <-! check_committee c;
      _ <-! oassert (negb ((p <? 0) || (p >? maxRegisterPrice)));
      Halt (set_price s p, VNull, [])
  (* ---- safe methods ---- *)
  | IsAvailable name =>
      _ <-! oassert (valid_name name);
      let frags := split_dot name in
      let l := length frags in
      match roots s !! List.last frags [] with
      | None => if negb (l =? 1)%nat then Fault else Halt (s, VBool true, [])
      | Some _ =>
          if negb (parent_expired c s 0 frags) then Halt (s, VBool false, [])
          else
            (* name[len(fragments[0])+1:] is out of range for a TLD *)
            _ <-! oassert (negb (l =? 1)%nat);
            Halt (s, VBool (negb (parent_conflict s name (join_dot (drop 1 frags)))), [])
      end
  | OwnerOf name =>
      let frags := split_dot name in
      _ <-! oassert (negb (length frags =? 1)%nat);
      ns <-! get_frag_ns c s name frags;
      Halt (s, oaddr (ns_owner ns), [])
  | Properties name =>
      let frags := split_dot name in
      _ <-! oassert (negb (length frags =? 1)%nat);
      ns <-! get_frag_ns c s name frags;
      Halt (s, VList [VBytes (ns_name ns); VInt (ns_exp ns); oaddr (ns_admin ns)], [])
  | BalanceOf owner =>
      _ <-! oassert (is_valid owner);
      Halt (s, VInt (default 0 (balances s !! akey owner)), [])
  | TokensOf owner =>
      _ <-! oassert (is_valid owner);
      Halt (s, sorted_names (omap (fun kv : (bytes * bytes) * bytes =>
                                     if bytes_eqb (fst (fst kv)) (akey owner) then Some (snd kv) else None)
                                  (map_to_list (acctok s))), [])
  | Tokens =>
      Halt (s, sorted_names (map (fun kv : bytes * namestate => ns_name (snd kv)) (map_to_list (names s))), [])
  | TotalSupply => Halt (s, VInt (supply s), [])
  | GetRecords name typ =>
      let frags := split_dot name in
      _ <-! oassert (negb (length frags =? 1)%nat);
      tokenID <-! token_id_from_name c s name;
      _ <-! get_frag_ns c s tokenID [];
      tb <-! to_byte typ;
      let es := find_by_type (records s) (hash tokenID) (hash name) tb in
      Halt (s, VList (map (fun e : ent => VBytes (r_data (snd e)))
                          (filter (fun e : ent => (r_type (snd e) =? typ) = true) es)), [])
  | GetAllRecords name =>
      let frags := split_dot name in
      _ <-! oassert (negb (length frags =? 1)%nat);
      es <-! get_all_records c s name frags;
      Halt (s, VList (map ent_val es), [])
  | Resolve name typ =>
      _ <-! oassert (negb (length (split_dot name) =? 1)%nat);
      res <-! resolve c s 3 [] name typ;
      Halt (s, VList (map VBytes res), [])
  | Roots => Halt (s, sorted_names (map fst (map_to_list (roots s))), [])
  | GetPrice => Halt (s, VInt (price s), [])
  end.

(** Transaction wrapper: a fault changes nothing and emits nothing. *)
Definition nstep (s : nstate) (co : nctx * nop) : nstate * val * list nnotif :=
  match nexec (fst co) s (snd co) with
  | Halt (s', r, ns) => (s', r, ns)
  | Fault => (s, VFault, [])
  end.

Definition nrun_from (s : nstate) (ops : list (nctx * nop)) : nstate :=
  fold_left (fun s co => fst (fst (nstep s co))) ops s.
Definition nrun (ops : list (nctx * nop)) : nstate := nrun_from ninit ops.

(** * Observables for the correspondence check *)
Definition notif_val (n : nnotif) : val :=
  match n with
  | NTransfer f t nm => VList [VInt 0; oaddr f; oaddr t; VInt 1; VBytes nm]
  | NSetAdmin nm o n' => VList [VInt 1; VBytes nm; oaddr o; oaddr n']
  | NRenew nm o n' => VList [VInt 2; VBytes nm; VInt o; VInt n']
  end.

(** The observation vector: the results of a fixed list of safe-method calls
    (in the same context); only the entries that differ from the previous
    vector are written down ([i], value). *)
Definition obs_vector (readers : list nop) (c : nctx) (s : nstate) : list val :=
  map (fun o => snd (fst (nstep s (c, o)))) readers.

Fixpoint diff_vals (i : Z) (old new : list val) : list val :=
  match new with
  | [] => []
  | v :: new' =>
      match old with
      | [] => VList [VInt i; v] :: diff_vals (i + 1) [] new'
      | w :: old' =>
          if val_eqb w v then diff_vals (i + 1) old' new'
          else VList [VInt i; v] :: diff_vals (i + 1) old' new'
      end
  end.

Definition nstep_obs (readers : list nop) (sp : nstate * list val) (co : nctx * nop)
  : (nstate * list val) * val :=
  let '(s', r, ns) := nstep (fst sp) co in
  let v := obs_vector readers (fst co) s' in
  ((s', v), VList [r; VList (map notif_val ns); VList (diff_vals 0 (snd sp) v)]).

End NNS.
