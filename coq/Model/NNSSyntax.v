(** Model/NNSSyntax.v — byte-level executable model of the syntactic checks of
    the NNS contract (contracts/nns/contract.go): [isAlNum], [checkFragment],
    [safeSplitAndCheck] (l. 871-930), the data part of [checkRecord]
    (l. 547-576), [checkIPv4] (l. 932-974), [checkIPv6] (l. 976-1040), over
    models of the three StdLib natives they call (neo-go v0.107.0,
    pkg/core/native/std.go): [stringSplit], [atoi] base 10 and base 16.

    Strings are [bytes = list N]; lengths and parsed numbers are [Z]; a panic
    of the contract or of a native is [Fault].  No proofs here.

    The model describes /repo's working tree after the repairs 0620db8
    (checkIPv4: an octet must start with a digit, so [std.Atoi10] never sees
    a sign), 131c44b (checkIPv6: a group is parsed as
    [std.Atoi("0"+f, 16)], hence non-negative) and 7bd3a2c (checkIPv6: nine
    fragments are let through when the first two or the last two are empty,
    i.e. seven groups and a "::" for a single zero group). *)
From Verif Require Import Base.Prelude.
Local Open Scope Z_scope.

Definition len {A} (l : list A) : Z := Z.of_nat (length l).

Definition byte_in (lo hi c : N) : bool := ((lo <=? c) && (c <=? hi))%N.

(* ------------------------------------------------------------------ *)
(** ** StdLib natives *)

(** [unicode/utf8.Valid]: [stackitem.ToString] (used by [toLimitedString])
    refuses byte strings that are not UTF-8. *)
Definition cont (c : N) : bool := byte_in 128 191 c.
Fixpoint utf8_valid (s : bytes) : bool :=
  match s with
  | [] => true
  | c :: r =>
      if (c <? 128)%N then utf8_valid r
      else if byte_in 194 223 c then
        match r with c1 :: r' => cont c1 && utf8_valid r' | _ => false end
      else if (c =? 224)%N then
        match r with c1 :: c2 :: r' => byte_in 160 191 c1 && cont c2 && utf8_valid r' | _ => false end
      else if byte_in 225 236 c || byte_in 238 239 c then
        match r with c1 :: c2 :: r' => cont c1 && cont c2 && utf8_valid r' | _ => false end
      else if (c =? 237)%N then
        match r with c1 :: c2 :: r' => byte_in 128 159 c1 && cont c2 && utf8_valid r' | _ => false end
      else if (c =? 240)%N then
        match r with c1 :: c2 :: c3 :: r' => byte_in 144 191 c1 && cont c2 && cont c3 && utf8_valid r' | _ => false end
      else if byte_in 241 243 c then
        match r with c1 :: c2 :: c3 :: r' => cont c1 && cont c2 && cont c3 && utf8_valid r' | _ => false end
      else if (c =? 244)%N then
        match r with c1 :: c2 :: c3 :: r' => byte_in 128 143 c1 && cont c2 && cont c3 && utf8_valid r' | _ => false end
      else false
  end.

(** [Std.toLimitedString]: UTF-8 and at most [stdMaxInputLength = 1024] bytes. *)
Definition std_max_input_length : Z := 1024.
Definition to_limited_string (s : bytes) : outcome bytes :=
  if negb (utf8_valid s) then Fault
  else if std_max_input_length <? len s then Fault
  else Halt s.

(** [strings.Split(s, sep)] for a one-byte separator: empty fragments are
    kept, the result is never empty. *)
Fixpoint strings_split (sep : N) (s : bytes) : list bytes :=
  match s with
  | [] => [[]]
  | c :: r =>
      if (c =? sep)%N then [] :: strings_split sep r
      else match strings_split sep r with
           | f :: fs => (c :: f) :: fs
           | [] => [[c]]
           end
  end.

(** [std.StringSplit(s, sep)] (stringSplit2: no removal of empty entries). *)
Definition std_string_split (s : bytes) (sep : N) : outcome (list bytes) :=
  s' <-! to_limited_string s;
  Halt (strings_split sep s').

Definition is_digit (c : N) : bool := byte_in 48 57 c.
Definition dec_value (s : bytes) : Z :=
  fold_left (fun acc c => 10 * acc + (Z.of_N c - 48)) s 0.

(** [new(big.Int).SetString(num, 10)]: an optional single '+' or '-', then at
    least one digit, digits only ('_' is accepted for base 0 only). *)
Definition big_set_string10 (s : bytes) : option Z :=
  let signed := match s with c :: _ => (c =? 43)%N || (c =? 45)%N | [] => false end in
  let neg := match s with c :: _ => (c =? 45)%N | [] => false end in
  let body := if signed then tl s else s in
  if (len body =? 0) || negb (forallb is_digit body) then None
  else Some (if neg then - dec_value body else dec_value body).

(** [std.Atoi10(s)] *)
Definition std_atoi10 (s : bytes) : outcome Z :=
  s' <-! to_limited_string s;
  match big_set_string10 s' with Some z => Halt z | None => Fault end.

Definition hex_digit (c : N) : option Z :=
  if byte_in 48 57 c then Some (Z.of_N c - 48)
  else if byte_in 97 102 c then Some (Z.of_N c - 87)
  else if byte_in 65 70 c then Some (Z.of_N c - 55)
  else None.
Definition is_hex (c : N) : bool := match hex_digit c with Some _ => true | None => false end.
Definition hex_digit_val (c : N) : Z := match hex_digit c with Some d => d | None => 0 end.
Definition hex_value (s : bytes) : Z :=
  fold_left (fun acc c => 16 * acc + hex_digit_val c) s 0.

(** [std.Atoi(s, 16)].  std.go: an odd-length string is left-padded with '0',
    [hex.DecodeString] (either case; anything else faults), if it was padded
    and bit 3 of the first byte is set the first byte gets [|= 0xF0], the
    bytes are reversed and read by [bigint.FromBytes] (little-endian two's
    complement).  Arithmetically: with [k] digits, the value is the unsigned
    one when the first digit is below 8 and the unsigned one minus [16^k]
    otherwise (k even: top bit of the first byte; k odd: the sign extension).
    The empty string gives 0. *)
Definition std_atoi16 (s : bytes) : outcome Z :=
  s' <-! to_limited_string s;
  if negb (forallb is_hex s') then Fault
  else
    let top := match s' with c :: _ => hex_digit_val c | [] => 0 end in
    Halt (if 8 <=? top then hex_value s' - 16 ^ len s' else hex_value s').

(* ------------------------------------------------------------------ *)
(** ** Names *)

Definition maxRootLength : Z := 16.
Definition maxDomainNameFragmentLength : Z := 63.
Definition minDomainNameLength : Z := 3.
Definition maxDomainNameLength : Z := 255.
Definition maxTXTRecordLength : Z := 255.

(** isAlNum: [c >= 'a' && c <= 'z' || c >= '0' && c <= '9'] *)
Definition isAlNum (c : N) : bool := byte_in 97 122 c || byte_in 48 57 c.

(** checkFragment.  [v[i]] is [nth i v 0]; the loop
    [for i := 1; i < len(v)-1; i++] visits [v[1 .. len(v)-2]], i.e. the first
    [len(v)-2] bytes after the first one. *)
Definition checkFragment (v : bytes) (isRoot : bool) : bool :=
  let maxLength := if isRoot then maxRootLength else maxDomainNameFragmentLength in
  if (len v =? 0) || (maxLength <? len v) then false
  else
    let c := nth 0 v 0%N in
    if (if isRoot then negb (byte_in 97 122 c) else negb (isAlNum c)) then false
    else if negb (forallb (fun x => (x =? 45)%N || isAlNum x) (firstn (length v - 2) (skipn 1 v)))
    then false
    else isAlNum (nth (length v - 1) v 0%N).

(** The loop of safeSplitAndCheck: [checkFragment(fragments[i], i == l-1)]. *)
Fixpoint check_fragments (fs : list bytes) (i l : Z) : bool :=
  match fs with
  | [] => true
  | f :: fs' =>
      if negb (checkFragment f (i =? l - 1)) then false
      else check_fragments fs' (i + 1) l
  end.

(** safeSplitAndCheck: [Halt (Some fragments)] = empty message,
    [Halt None] = a non-empty message, [Fault] = StringSplit refused. *)
Definition safeSplitAndCheck (name : bytes) : outcome (option (list bytes)) :=
  let l := len name in
  if (l <? minDomainNameLength) || (maxDomainNameLength <? l) then Halt None
  else
    fragments <-! std_string_split name 46;
    let l := len fragments in
    if check_fragments fragments 0 l then Halt (Some fragments) else Halt None.

(** splitAndCheck panics on a message. *)
Definition splitAndCheck (name : bytes) : outcome (list bytes) :=
  r <-! safeSplitAndCheck name;
  match r with Some fs => Halt fs | None => Fault end.

(** What register / registerTLD / isAvailable / tokenIDFromName do first:
    [true] iff the name passes [splitAndCheck]. *)
Definition name_accepted (name : bytes) : bool :=
  match splitAndCheck name with Halt _ => true | Fault => false end.

(* ------------------------------------------------------------------ *)
(** ** IPv4 *)

(** The loop over the four fragments; [Halt None] is [return false]. *)
Fixpoint ipv4_loop (fs : list bytes) : outcome (option (list Z)) :=
  match fs with
  | [] => Halt (Some [])
  | f :: fs' =>
      if len f =? 0 then Halt None
      else if negb (is_digit (nth 0 f 0%N)) then Halt None   (* f[0] < '0' || '9' < f[0] *)
      else
        number <-! std_atoi10 f;
        if (number <? 0) || (255 <? number) then Fault                     (* panic("not a byte") *)
        else if (0 <? number) && (nth 0 f 0 =? 48)%N then Halt None
        else if (number =? 0) && (1 <? len f) then Halt None
        else
          r <-! ipv4_loop fs';
          Halt (option_map (cons number) r)
  end.

Definition checkIPv4 (data : bytes) : outcome bool :=
  let l := len data in
  if (l <? 7) || (15 <? l) then Halt false
  else
    fragments <-! std_string_split data 46;
    if negb (len fragments =? 4) then Halt false
    else
      r <-! ipv4_loop fragments;
      match r with
      | None => Halt false
      | Some numbers =>
          let n0 := nth 0 numbers 0 in
          let n1 := nth 1 numbers 0 in
          let n3 := nth 3 numbers 0 in
          if (n0 =? 0) || (n0 =? 10) || (n0 =? 127) || (224 <=? n0)
             || ((n0 =? 169) && (n1 =? 254))
             || ((n0 =? 172) && (16 <=? n1) && (n1 <=? 31))
             || ((n0 =? 192) && (n1 =? 168))
             || (n3 =? 0) || (n3 =? 255)
          then Halt false else Halt true
      end.

(* ------------------------------------------------------------------ *)
(** ** IPv6 *)

(** [a[i]] / [a[i] = x] on a VM array: out of range faults. *)
Definition index {A} (a : list A) (i : Z) : outcome A :=
  if (i <? 0) then Fault else match nth_error a (Z.to_nat i) with Some x => Halt x | None => Fault end.
Definition set_num (nums : list Z) (i : Z) (x : Z) : outcome (list Z) :=
  if (0 <=? i) && (i <? len nums) then Halt (<[Z.to_nat i := x]> nums) else Fault.

(** [for j := i; j < endIndex; j++ { nums[j] = 0 }], [n] = iterations left. *)
Fixpoint zero_fill (nums : list Z) (j : Z) (n : nat) : outcome (list Z) :=
  match n with
  | O => Halt nums
  | S n' => nums' <-! set_num nums j 0; zero_fill nums' (j + 1) n'
  end.

(** The group parser: [std.Atoi("0"+f, 16)]. *)
Definition parse_group (f : bytes) : outcome Z := std_atoi16 (48%N :: f).

(** The loop [for i, f := range fragments]; [rest] are the fragments from
    index [i] on; [Halt None] is [return false]. *)
Fixpoint ipv6_loop (fragments : list bytes) (l : Z) (rest : list bytes)
    (i : Z) (hasEmpty : bool) (nums : list Z) : outcome (option (bool * list Z)) :=
  match rest with
  | [] => Halt (Some (hasEmpty, nums))
  | f :: rest' =>
      if len f =? 0 then
        if i =? 0 then
          f1 <-! index fragments 1;
          if negb (len f1 =? 0) then Halt None
          else
            nums' <-! set_num nums i 0;
            ipv6_loop fragments l rest' (i + 1) hasEmpty nums'
        else if i =? l - 1 then
          fp <-! index fragments (i - 1);
          if negb (len fp =? 0) then Halt None
          else
            nums' <-! set_num nums 7 0;
            ipv6_loop fragments l rest' (i + 1) hasEmpty nums'
        else if hasEmpty then Halt None
        else
          let endIndex := 9 - l + i in
          nums' <-! zero_fill nums i (Z.to_nat (endIndex - i));
          ipv6_loop fragments l rest' (i + 1) true nums'
      else
        if 4 <? len f then Halt None
        else
          n <-! parse_group f;
          if 65535 <? n then Fault                      (* panic("fragment overflows uint16") *)
          else
            let idx := if hasEmpty then i + 8 - l else i in
            nums' <-! set_num nums idx n;
            ipv6_loop fragments l rest' (i + 1) hasEmpty nums'
  end.

(** [l == 9 && (len(fragments[0]) != 0 || len(fragments[1]) != 0) &&
    (len(fragments[7]) != 0 || len(fragments[8]) != 0)]: with nine fragments
    the four index operations cannot fault, so evaluating all of them (Go
    short-circuits) is the same.  [Halt true] = the nine fragments may go on. *)
Definition nine_ok (fragments : list bytes) : outcome bool :=
  f0 <-! index fragments 0;
  f1 <-! index fragments 1;
  f7 <-! index fragments 7;
  f8 <-! index fragments 8;
  Halt (negb ((negb (len f0 =? 0) || negb (len f1 =? 0)) &&
              (negb (len f7 =? 0) || negb (len f8 =? 0)))).

Definition checkIPv6 (data : bytes) : outcome bool :=
  let l := len data in
  if (l <? 2) || (39 <? l) then Halt false
  else
    fragments <-! std_string_split data 58;
    let l := len fragments in
    if (l <? 3) || (9 <? l) then Halt false
    else
      ok9 <-! (if l =? 9 then nine_ok fragments else Halt true);
      if negb ok9 then Halt false
      else
      r <-! ipv6_loop fragments l fragments 0 false (repeat 0 8);
      match r with
      | None => Halt false
      | Some (hasEmpty, nums) =>
          if (l <? 8) && negb hasEmpty then Halt false
          else
            let f0 := nth 0 nums 0 in
            if (f0 <? 0x2000) || (f0 =? 0x2002) || (f0 =? 0x3ffe) || (0x3fff <? f0) then Halt false
            else if f0 =? 0x2001 then
              let f1 := nth 1 nums 0 in
              if (f1 <? 0x200) || (f1 =? 0xdb8) then Halt false else Halt true
            else Halt true
      end.

(* ------------------------------------------------------------------ *)
(** ** checkRecord: the switch on the record type and [panic("invalid record
    data")].  (The name part — tokenIDFromName, ownership — belongs to
    C10-C12.)  recordtype: A = 1, CNAME = 5, SOA = 6, TXT = 16, AAAA = 28. *)
Definition record_data_ok (typ : Z) (data : bytes) : outcome bool :=
  if typ =? 1 then checkIPv4 data
  else if typ =? 5 then
    r <-! safeSplitAndCheck data;
    Halt (match r with Some _ => true | None => false end)
  else if typ =? 16 then Halt (len data <=? maxTXTRecordLength)
  else if typ =? 28 then checkIPv6 data
  else Fault.                                            (* panic("unsupported record type") *)

Definition check_record_data (typ : Z) (data : bytes) : outcome unit :=
  ok <-! record_data_ok typ data;
  if ok then Halt tt else Fault.                         (* panic("invalid record data") *)

Definition record_data_accepted (typ : Z) (data : bytes) : bool :=
  match check_record_data typ data with Halt _ => true | Fault => false end.

(* ------------------------------------------------------------------ *)
(** ** Observables of the correspondence check.  A test invocation of
    [addRecord] / [setRecord] on an owned domain shows the verdict of the data
    check: HALT = [VBool true]; FAULT "invalid record data" = [VBool false];
    any other fault raised by the check (a native refusing its input,
    "not a byte", "unsupported record type") = [VFault].  [isAvailable] shows
    the verdict on a name: HALT or the later "TLD not found" = [VBool true];
    "invalid domain name length" / "invalid domain fragment" = [VBool false];
    a fault of [std.StringSplit] = [VFault]. *)
Definition record_obs (typ : Z) (data : bytes) : val :=
  match record_data_ok typ data with Halt b => VBool b | Fault => VFault end.

Definition name_obs (name : bytes) : val :=
  match safeSplitAndCheck name with
  | Halt (Some _) => VBool true
  | Halt None => VBool false
  | Fault => VFault
  end.
