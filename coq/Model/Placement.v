(** Model/Placement.v — executable model of the placement-roster part of
    contracts/container/contract.go (property C14):

      AddNextEpochNodes, counterToBytes, counterFromBytes,
      validatePlacementIndex, CommitContainerListUpdate, ReplicasNumbers,
      Nodes, VerifyPlacementSignatures (with the [counted] list of fix
      a2c4cfa), SubmitObjectPut.

    Storage-level: the contract storage is a finite map from byte strings to
    byte strings, keys are built exactly as the Go code builds them
    ('u'/'n'/'r'/'m' ++ cid ++ vector byte ++ counter), [storage.Find] is the
    prefix scan in ascending byte order on a snapshot taken at the call.
    The rest of the container contract (put/delete/eACL/estimations, owned by
    Model/Container.v) appears here only as [OOther]: an arbitrary list of
    writes to other keys (the harness passes the real storage diff).

    Follows the Go source function by function (same guards, same order).
    No proofs here (Proofs/Placement*.v). *)
From Verif Require Import Base.Prelude Base.IntCodec.
Local Open Scope Z_scope.

(** * Storage *)

Notation store := (@gmap bytes (@list_eq_dec N N_eq_dec) (@list_countable N N_eq_dec N_countable) bytes) (only parsing).

(** [storage.Find(ctx, p, None)]: the (key, value) pairs whose key has prefix
    [p], ascending in the byte order of the keys (snapshot: it is a pure
    function of the store at the time of the call). *)
Definition sfind (p : bytes) (s : store) : list (bytes * bytes) :=
  omap (fun k => if is_prefix p k then (fun v => (k, v)) <$> (s !! k) else None) (skeys s).

(** limits.MaxStorageKeyLen = 64, limits.MaxStorageValueLen = 65535. *)
Definition sput (k v : bytes) (s : store) : outcome store :=
  if (length k <=? 64)%nat && (Z.of_nat (length v) <=? 65535)%Z then Halt (<[k := v]> s) else Fault.

(** Storage prefixes (contract.go:68-74). *)
Definition pM : N := 109.  (* 'm' containersWithMetaPrefix *)
Definition pN : N := 110.  (* 'n' nodesPrefix *)
Definition pR : N := 114.  (* 'r' replicasNumberPrefix *)
Definition pU : N := 117.  (* 'u' nextEpochNodesPrefix *)

(** [append(buf, x)] with a non-constant integer [x] compiles to
    NEWBUFFER/SETITEM: the VM accepts -128..255 and stores the low byte,
    anything else is a fault (vm.go, SETITEM on Buffer). The Go types [uint8]
    are not enforced by the VM, so the argument is an arbitrary integer. *)
Definition byte_of (z : Z) : outcome N :=
  if (-128 <=? z) && (z <=? 255) then Halt (Z.to_N (z mod 256)) else Fault.

Definition hash256_len (b : bytes) : bool := (length b =? 32)%nat.
Definition pubkey_len (b : bytes) : bool := (length b =? 33)%nat.

(** ByteString -> Integer conversion ([x.(int)]): at most 32 bytes. *)
Definition to_int (b : bytes) : outcome Z :=
  if (length b <=? 32)%nat then Halt (bytes_to_int b) else Fault.

(** * Counter codec (contract.go:609-638) *)

(** [counterToBytes]: the VM's minimal little-endian encoding of the counter,
    padded to two bytes when shorter, first two bytes swapped ("BE for
    correct sorting"); a third byte, when the encoding has one, stays where
    it is. *)
Definition ctb (counter : Z) : bytes :=
  match int_to_bytes counter with
  | [] => [0; 0]%N
  | [x] => [0%N; x]
  | a :: b :: rest => b :: a :: rest
  end.

(** [counterFromBytes]: index 0 and 1 must exist; swap; convert to integer. *)
Definition cfb (c : bytes) : outcome Z :=
  match c with
  | a :: b :: rest => to_int (b :: a :: rest)
  | _ => Fault
  end.

(** * Notifications *)
Inductive pnotif :=
| NNodesUpdate (cid : bytes)
| NObjectPut (cid oid : bytes).

(** * AddNextEpochNodes (contract.go:575-607, 640-650) *)

Definition validate_index (s : store) (cid : bytes) (vec : Z) : outcome unit :=
  if vec =? 0 then Halt tt
  else
    b <-! byte_of (vec - 1);
    match sfind (pU :: cid ++ [b]) s with
    | [] => Fault  (* "invalid placement vector: .. index not found but .. requested" *)
    | _ :: _ => Halt tt
    end.

Fixpoint add_loop (pfx : bytes) (counter : Z) (keys : list bytes) (s : store) : outcome store :=
  match keys with
  | [] => Halt s
  | k :: keys' =>
      _ <-! oassert (pubkey_len k);
      let counter := counter + 1 in
      s' <-! sput (pfx ++ ctb counter) k s;
      add_loop pfx counter keys' s'
  end.

(** The counter the loop starts from: [Find(prefix, RemovePrefix|KeysOnly|Backwards)],
    first element = greatest key under the prefix. *)
Definition last_counter (pfx : bytes) (s : store) : outcome Z :=
  match last (sfind pfx s) with
  | Some (k, _) => cfb (drop (length pfx) k)
  | None => Halt 0
  end.

Definition add_next_epoch_nodes (alpha : bool) (s : store) (cid : bytes) (vec : Z)
    (keys : list bytes) : outcome store :=
  _ <-! oassert (hash256_len cid);
  _ <-! oassert (negb (255 <=? vec));          (* placementVector >= maxNumOfREPs *)
  _ <-! validate_index s cid vec;
  _ <-! oassert alpha;                         (* common.CheckAlphabetWitness *)
  b <-! byte_of vec;
  let pfx := pU :: cid ++ [b] in
  counter <-! last_counter pfx s;
  add_loop pfx counter keys s.

(** * CommitContainerListUpdate (contract.go:709-759) *)

Definition del_all (ks : list bytes) (s : store) : store :=
  fold_left (fun s k => delete k s) ks s.

(** [for newNodes.Next() { Delete(key); Put('n' ++ key[1:], val) }] over the
    snapshot [l]. *)
Fixpoint move_loop (l : list (bytes * bytes)) (s : store) : outcome store :=
  match l with
  | [] => Halt s
  | (k, v) :: l' =>
      s' <-! sput (pN :: tail k) v (delete k s);
      move_loop l' s'
  end.

Fixpoint reps_loop (pfx : bytes) (i : Z) (reps : list Z) (s : store) : outcome store :=
  match reps with
  | [] => Halt s
  | r :: reps' =>
      _ <-! oassert (int_ok r);                (* [r] is a VM integer *)
      _ <-! oassert (negb (255 <? r));         (* replica > maxNumOfREPs *)
      b <-! byte_of i;                         (* append(replicasPrefix, uint8(i)) *)
      s' <-! sput (pfx ++ [b]) (int_to_bytes r) s;
      reps_loop pfx (i + 1) reps' s'
  end.

(** [reps = None]: the caller passed Null ([replicas != nil] is false). *)
Definition commit_list_update (alpha : bool) (s : store) (cid : bytes) (reps : option (list Z))
    : outcome (store * list pnotif) :=
  _ <-! oassert (hash256_len cid);
  _ <-! oassert alpha;
  let s1 := del_all (map fst (sfind (pN :: cid) s)) s in
  s2 <-! move_loop (sfind (pU :: cid) s1) s1;
  let s3 := del_all (map fst (sfind (pR :: cid) s2)) s2 in
  s4 <-! match reps with
         | None => Halt s3
         | Some l => reps_loop (pR :: cid) 0 l s3
         end;
  Halt (s4, [NNodesUpdate cid]).

(** * ReplicasNumbers, Nodes (contract.go:763-787): the expanded iterators *)

Definition replicas_numbers (s : store) (cid : bytes) : outcome (list bytes) :=
  _ <-! oassert (hash256_len cid);
  Halt (map snd (sfind (pR :: cid) s)).

Definition nodes (s : store) (cid : bytes) (vec : Z) : outcome (list bytes) :=
  _ <-! oassert (hash256_len cid);
  b <-! byte_of vec;
  Halt (map snd (sfind (pN :: cid ++ [b]) s)).

(** * Values of a deserialised meta map (SubmitObjectPut) *)

(** [len(x)] on a stack item: Null -> 0, compound -> number of elements,
    primitive -> length of its byte representation. *)
Definition val_len (v : val) : nat :=
  match v with
  | VBytes b => length b
  | VInt z => length (int_to_bytes z)
  | VBool _ => 1%nat
  | VList l => length l
  | VNull | VFault => 0%nat
  end.

(** [x.(interop.Hash256)] followed by the check [len(..) == 32]: a byte
    string stays, an integer becomes its encoding; a Boolean (1 byte), Null
    (length 0) or an array (conversion faults) can never pass the length
    check, so they are a fault right away. *)
Definition conv_hash256 (v : val) : outcome bytes :=
  b <-! match v with
        | VBytes b => Halt b
        | VInt z => Halt (int_to_bytes z)
        | _ => Fault
        end;
  _ <-! oassert (hash256_len b);
  Halt b.

(** [x.(int)]: [None] = the item is Null and stays Null. *)
Definition conv_int (v : val) : outcome (option Z) :=
  match v with
  | VInt z => Halt (Some z)
  | VBytes b => z <-! to_int b; Halt (Some z)
  | VBool b => Halt (Some (if b then 1 else 0))
  | VNull => Halt None
  | VList _ | VFault => Fault
  end.

(** [x.([]interop.Hash256)] + [for i, d := range x { len(d) != 32 -> panic }]
    (ranging over Null faults in SIZE). *)
Definition check_hash_list (v : val) : outcome unit :=
  match v with
  | VList l => oassert (forallb (fun d => (val_len d =? 32)%nat) l)
  | _ => Fault
  end.

Definition mget (m : list (bytes * val)) (key : bytes) : outcome val :=
  match find (fun kv => bytes_eqb (fst kv) key) m with
  | Some kv => Halt (snd kv)
  | None => Fault   (* "'key' not found" *)
  end.

Definition k_cid : bytes := [99; 105; 100]%N.
Definition k_oid : bytes := [111; 105; 100]%N.
Definition k_network : bytes := [110; 101; 116; 119; 111; 114; 107]%N.
Definition k_size : bytes := [115; 105; 122; 101]%N.
Definition k_deleted : bytes := [100; 101; 108; 101; 116; 101; 100]%N.
Definition k_locked : bytes := [108; 111; 99; 107; 101; 100]%N.
Definition k_validuntil : bytes := [118; 97; 108; 105; 100; 117; 110; 116; 105; 108]%N.

(** * Operations *)

Inductive pop :=
| OAdd (alpha : bool) (cid : bytes) (vec : Z) (keys : list bytes)
| OCommit (alpha : bool) (cid : bytes) (reps : option (list Z))
| ONodes (cid : bytes) (vec : Z)
| OReps (cid : bytes)
| OVerify (cid msg : bytes) (sigs : list (list bytes))
| OSubmit (raw : bytes) (sigs : list (list bytes)) (cur : Z)   (* cur = ledger.CurrentIndex() *)
| OOther (w : list (bytes * option bytes))   (* any other method: writes (Some) / deletes (None) *)
| OKeys (pfx : bytes).                        (* debugging observable: raw keys under a prefix *)

Definition apply_writes (w : list (bytes * option bytes)) (s : store) : store :=
  fold_left (fun s kv => match snd kv with
                         | Some v => <[fst kv := v]> s
                         | None => delete (fst kv) s
                         end) w s.

Section Placement.
  (** Cryptography and deserialisation are abstract: every theorem holds for
      every choice of these (in the correspondence check they are finite
      tables computed by the harness with neo-go's own code). *)
  Variable sigvalid : bytes -> bytes -> bytes -> bool.   (* msg, public key, signature *)
  Variable pubvalid : bytes -> bool.        (* the 33 bytes decode to a P-256 point *)
  Variable deser : bytes -> option (list (bytes * val)).  (* std.Deserialize(..).(map) *)
  Variable notify_fits : bytes -> bool.     (* serialised ObjectPut event <= 1024 bytes *)
  Variable network : Z.                     (* runtime.GetNetwork() *)

  (** * VerifyPlacementSignatures (contract.go:656-702) *)

  (** [pubsLoop]: the first member not yet counted whose key verifies [sig].
      [crypto.VerifyWithECDsa] faults when the key is not a curve point. *)
  Fixpoint scan_pubs (msg sig : bytes) (counted pubs : list bytes) : outcome (option bytes) :=
    match pubs with
    | [] => Halt None
    | pub :: pubs' =>
        if existsb (bytes_eqb pub) counted then scan_pubs msg sig counted pubs'
        else if negb (pubvalid pub) then Fault
        else if sigvalid msg pub sig then Halt (Some pub)
        else scan_pubs msg sig counted pubs'
    end.

  (** The loop over [sigs[i]]; [pubs] is [Nodes(cid, uint8(i))], evaluated
      once per signature (it may fault). [Halt true] = [continue repsLoop],
      [Halt false] = the loop ran out = [return false]. *)
  Fixpoint scan_sigs (msg : bytes) (pubs : outcome (list bytes)) (m counter : Z)
      (counted : list bytes) (sigs : list bytes) : outcome bool :=
    match sigs with
    | [] => Halt false
    | sig :: sigs' =>
        ps <-! pubs;
        r <-! scan_pubs msg sig counted ps;
        let '(counter', counted') :=
          match r with
          | Some pub => (counter + 1, counted ++ [pub])
          | None => (counter, counted)
          end in
        if counter' =? m then Halt true
        else scan_sigs msg pubs m counter' counted' sigs'
    end.

  Fixpoint verify_loop (s : store) (cid msg : bytes) (sigs : list (list bytes)) (i : nat)
      (reps : list bytes) : outcome bool :=
    match reps with
    | [] => Halt true
    | rb :: reps' =>
        if (length sigs =? i)%nat then Halt false
        else
          m <-! to_int rb;
          match sigs !! i with
          | None => Fault
          | Some si =>
              if Z.of_nat (length si) <? m then Halt false
              else
                ok <-! scan_sigs msg (nodes s cid (Z.of_nat i)) m 0 [] si;
                if ok then verify_loop s cid msg sigs (S i) reps' else Halt false
          end
    end.

  Definition verify (s : store) (cid msg : bytes) (sigs : list (list bytes)) : outcome bool :=
    reps <-! replicas_numbers s cid;
    verify_loop s cid msg sigs 0 reps.

  (** * SubmitObjectPut (contract.go:249-289) *)
  Definition submit (s : store) (raw : bytes) (sigs : list (list bytes)) (cur : Z)
      : outcome (list pnotif) :=
    match deser raw with
    | None => Fault
    | Some m =>
        v <-! mget m k_cid; cid <-! conv_hash256 v;
        _ <-! oassert (bool_decide (is_Some (s !! (pM :: cid))));
        v <-! mget m k_oid; oid <-! conv_hash256 v;
        v <-! mget m k_network; magic <-! conv_int v;
        _ <-! match magic with
              | Some z => oassert (z =? network)
              | None => Fault       (* NUMNOTEQUAL on Null *)
              end;
        v <-! mget m k_size; _ <-! conv_int v;
        v <-! mget m k_deleted; _ <-! check_hash_list v;
        v <-! mget m k_locked; _ <-! check_hash_list v;
        v <-! mget m k_validuntil; vub <-! conv_int v;
        _ <-! match vub with
              | Some z => oassert (negb (z <=? cur))
              | None => Fault       (* [if vub <= x] is compiled to JMPGT: faults on Null *)
              end;
        ok <-! verify s cid raw sigs;
        _ <-! oassert ok;
        _ <-! oassert (notify_fits raw);
        Halt [NObjectPut cid oid]
    end.

  (** * One invocation *)

  Definition VBytesList (l : list bytes) : val := VList (map VBytes l).

  Definition pexec (s : store) (o : pop) : outcome (store * val * list pnotif) :=
    match o with
    | OAdd alpha cid vec keys =>
        s' <-! add_next_epoch_nodes alpha s cid vec keys; Halt (s', VNull, [])
    | OCommit alpha cid reps =>
        '(s', ns) <-! commit_list_update alpha s cid reps; Halt (s', VNull, ns)
    | ONodes cid vec =>
        l <-! nodes s cid vec; Halt (s, VBytesList l, [])
    | OReps cid =>
        l <-! replicas_numbers s cid; Halt (s, VBytesList l, [])
    | OVerify cid msg sigs =>
        b <-! verify s cid msg sigs; Halt (s, VBool b, [])
    | OSubmit raw sigs cur =>
        ns <-! submit s raw sigs cur; Halt (s, VNull, ns)
    | OOther w => Halt (apply_writes w s, VNull, [])
    | OKeys pfx =>
        Halt (s, VBytesList (map (fun kv => drop (length pfx) (fst kv)) (sfind pfx s)), [])
    end.

  (** Transaction wrapper: a fault changes nothing and emits nothing. *)
  Definition pstep (s : store) (o : pop) : store * val * list pnotif :=
    match pexec s o with
    | Halt r => r
    | Fault => (s, VFault, [])
    end.

  Definition prun_from (s : store) (ops : list pop) : store :=
    fold_left (fun s o => fst (fst (pstep s o))) ops s.
  Definition prun (ops : list pop) : store := prun_from ∅ ops.

  Definition notif_val (n : pnotif) : val :=
    match n with
    | NNodesUpdate cid => VList [VInt 0; VBytes cid]
    | NObjectPut cid oid => VList [VInt 1; VBytes cid; VBytes oid]
    end.

  Definition pstep_obs (s : store) (o : pop) : store * val :=
    let '(s', r, ns) := pstep s o in (s', VList [r; VList (map notif_val ns)]).
End Placement.

(** * Finite tables for the correspondence check *)

Definition tbl_sigvalid (t : list (bytes * bytes * bytes)) (msg key sig : bytes) : bool :=
  existsb (fun x => bytes_eqb (fst (fst x)) msg && bytes_eqb (snd (fst x)) key && bytes_eqb (snd x) sig) t.
(** The table lists the keys that do NOT decode. *)
Definition tbl_pubvalid (bad : list bytes) (key : bytes) : bool :=
  negb (existsb (bytes_eqb key) bad).
Definition tbl_deser (t : list (bytes * option (list (bytes * val)))) (raw : bytes)
    : option (list (bytes * val)) :=
  match find (fun x => bytes_eqb (fst x) raw) t with
  | Some x => snd x
  | None => None
  end.
(** The table lists the raw metas whose event does NOT fit. *)
Definition tbl_fits (nofit : list bytes) (raw : bytes) : bool :=
  negb (existsb (bytes_eqb raw) nofit).

Record ptables := mkTables {
  t_sig : list (bytes * bytes * bytes);
  t_badkeys : list bytes;
  t_deser : list (bytes * option (list (bytes * val)));
  t_nofit : list bytes;
  t_network : Z }.

Definition check_case (c : ptables * list (pop * val)) : option (nat * val) :=
  let t := fst c in
  run_case (pstep_obs (tbl_sigvalid (t_sig t)) (tbl_pubvalid (t_badkeys t))
                      (tbl_deser (t_deser t)) (tbl_fits (t_nofit t)) (t_network t))
           (∅ : store) 0 (snd c).

(** * Reference specification of the roster (what C14 says it should be)

    Per container id and vector byte: the pending list (everything accepted
    by addNextEpochNodes since the last accepted commit), the committed list,
    the committed REP numbers. Plain lists, no storage. *)

Record astate := mkA {
  pend : bytes -> N -> list bytes;
  comm : bytes -> N -> list bytes;
  areps : bytes -> list Z }.

Definition ainit : astate := mkA (fun _ _ => []) (fun _ _ => []) (fun _ => []).

(** The vector byte an accepted [addNextEpochNodes(cid, vec, _)] addresses. *)
Definition vec_byte (vec : Z) : N := Z.to_N (vec mod 256).

(** When the specification accepts an add: Alphabet witness, 32-byte id,
    vector in range, the previous vector already has pending nodes
    (contiguity), every key 33 bytes long. *)
Definition add_ok (a : astate) (alpha : bool) (cid : bytes) (vec : Z) (keys : list bytes) : bool :=
  alpha && hash256_len cid && (-128 <? vec) && (vec <? 255)
  && ((vec =? 0) || negb (bool_decide (pend a cid (vec_byte (vec - 1)) = [])))
  && forallb pubkey_len keys.

Definition reps_ok (reps : option (list Z)) : bool :=
  match reps with
  | None => true
  | Some l => (length l <=? 256)%nat && forallb (fun r => int_ok r && (r <=? 255)) l
  end.

Definition commit_ok (alpha : bool) (cid : bytes) (reps : option (list Z)) : bool :=
  alpha && hash256_len cid && reps_ok reps.

Definition upd {B} (f : bytes -> B) (cid : bytes) (x : B) : bytes -> B :=
  fun c => if bytes_eqb c cid then x else f c.
Definition upd2 (f : bytes -> N -> list bytes) (cid : bytes) (v : N) (x : list bytes)
    : bytes -> N -> list bytes :=
  fun c w => if bytes_eqb c cid && N.eqb w v then x else f c w.

Definition astep (a : astate) (o : pop) : astate :=
  match o with
  | OAdd alpha cid vec keys =>
      if add_ok a alpha cid vec keys
      then mkA (upd2 (pend a) cid (vec_byte vec) (pend a cid (vec_byte vec) ++ keys)) (comm a) (areps a)
      else a
  | OCommit alpha cid reps =>
      if commit_ok alpha cid reps
      then mkA (upd (pend a) cid (fun _ => [])) (upd (comm a) cid (pend a cid))
               (upd (areps a) cid (default [] reps))
      else a
  | _ => a
  end.

Definition arun (ops : list pop) : astate := fold_left astep ops ainit.

(** Premises of the roster theorem for a container id [cid], as decidable
    predicates on the history.

    [frame_ok cid]: the other methods of the contract do not write under the
    three roster prefixes of [cid].

    [range_ok cid]: no pending vector of [cid] grows beyond 65535 keys —
    beyond it the 2(3)-byte counter stops being monotone in byte order
    (C14_counter_order). *)
Definition roster_pfx (cid k : bytes) : bool :=
  is_prefix (pU :: cid) k || is_prefix (pN :: cid) k || is_prefix (pR :: cid) k.

Definition frame_ok_op (cid : bytes) (o : pop) : bool :=
  match o with
  | OOther w => forallb (fun kv => negb (roster_pfx cid (fst kv))) w
  | _ => true
  end.
Definition frame_ok (cid : bytes) (ops : list pop) : bool := forallb (frame_ok_op cid) ops.

Definition counter_max : Z := 65535.

Definition range_ok_op (cid : bytes) (a : astate) (o : pop) : bool :=
  match o with
  | OAdd alpha cid' vec keys =>
      negb (bytes_eqb cid' cid) || negb (add_ok a alpha cid' vec keys)
      || (Z.of_nat (length (pend a cid' (vec_byte vec) ++ keys)) <=? counter_max)
  | _ => true
  end.

Fixpoint range_ok_from (cid : bytes) (a : astate) (ops : list pop) : bool :=
  match ops with
  | [] => true
  | o :: ops' => range_ok_op cid a o && range_ok_from cid (astep a o) ops'
  end.
Definition range_ok (cid : bytes) (ops : list pop) : bool := range_ok_from cid ainit ops.
