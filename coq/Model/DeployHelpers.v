(** Model/DeployHelpers.v — the pure helpers of /repo/deploy (property C13 (a)).

    Follows the Go source function by function:
      - [divide_funds]      deploy/funds.go:463-478   divideFundsEvenly
      - [tx_modifier]       deploy/deploy.go:665-686  neoFSRuntimeTransactionModifier
      - [shared_bytes], [shared_decode]
                            deploy/notary.go:746-782  sharedTransactionData.bytes / decodeString
      - [unshift_checksum], [shift_checksum]
                            deploy/notary.go:791-809
      - [shared_matches]    deploy/notary.go:813-817  sharedTxDataMatches
      - [sha256]            crypto/sha256 (FIPS 180-4), needed by the checksum
    Go machine integers are modelled as [Z] reduced explicitly ([u64], [u32]).
    No proofs here. *)
From Verif Require Import Base.Prelude.
Local Open Scope Z_scope.

Definition w64 : Z := 18446744073709551616.   (* 2^64 *)
Definition w32 : Z := 4294967296.             (* 2^32 *)
Definition u64 (z : Z) : Z := z mod w64.
Definition u32 (z : Z) : Z := z mod w32.

(** * divideFundsEvenly (deploy/funds.go:463-478)

    [func divideFundsEvenly(fullAmount uint64, n int, f func(ind int, amount uint64))].
    The result of the model is the list of the callback's invocations [(ind, amount)]
    in call order. [n = 0] panics in Go (integer divide by zero): [Fault].
    A negative [n] converts to a huge uint64 and the [for i := range n] loop
    does not iterate. *)

(** Loop body, lines 467-477; [fuel] = remaining iterations, [i] = loop index. *)
Fixpoint divide_loop (fuel : nat) (i quot rem : Z) : list (Z * Z) :=
  match fuel with
  | O => []
  | S fuel' =>
      if 0 <? rem then                                   (* if rem > 0 { amount++; rem-- } *)
        (i, u64 (quot + 1)) :: divide_loop fuel' (i + 1) quot (rem - 1)
      else if quot =? 0 then []                          (* else if amount == 0 { return } *)
      else (i, quot) :: divide_loop fuel' (i + 1) quot rem   (* f(i, amount) *)
  end.

Definition divide_funds (full_amount n : Z) : outcome (list (Z * Z)) :=
  if n =? 0 then Fault                                   (* fullAmount / uint64(0) panics *)
  else
    let d := u64 n in                                    (* uint64(n) *)
    let quot := full_amount / d in                       (* line 464 *)
    let rem := full_amount mod d in                      (* line 465 *)
    Halt (divide_loop (Z.to_nat n) 0 quot rem).

(** Closed form of [divide_funds] (proved equal for every uint64 amount and
    [1 <= n < 2^64] in Proofs/DeployHelpers.v, [divide_funds_closed]); it does
    not iterate [n] times, so the correspondence check can evaluate it for
    receiver counts like [2^40] where the loop returns early. *)
Definition share_of (q r j : Z) : Z := if j <? r then q + 1 else q.
Definition divide_closed (amount n : Z) : list (Z * Z) :=
  let q := amount / n in
  let r := amount mod n in
  let k := if q =? 0 then r else n in
  map (fun j : nat => (Z.of_nat j, share_of q r (Z.of_nat j))) (seq 0 (Z.to_nat k)).

(** * neoFSRuntimeTransactionModifier (deploy/deploy.go:665-686)

    [halt] is the VM state of the test invocation ([actor.DefaultCheckerModifier]
    returns an error unless it is HALT); [h] is [getBlockchainHeight()] (uint32).
    Result: [(tx.Nonce, tx.ValidUntilBlock)]. *)
Definition window_span : Z := 100.
Definition max_u32 : Z := 4294967295.

Definition tx_modifier (halt : bool) (h : Z) : option (Z * Z) :=
  if negb halt then None
  else
    let n := h / window_span in                          (* line 674 *)
    let nonce := u32 (n * window_span) in                (* line 676 *)
    let vub := if nonce <? max_u32 - window_span         (* line 678: MaxUint32-span > tx.Nonce *)
               then u32 (nonce + window_span)
               else max_u32 in
    Some (nonce, vub).

(** * sharedTransactionData (deploy/notary.go:740-782) *)
Record shared := mkShared {
  sh_sender : bytes;   (* util.Uint160, big-endian bytes: always 20 bytes in Go *)
  sh_vub : Z;          (* uint32 *)
  sh_nonce : Z         (* uint32 *)
}.

Definition uint160_size : nat := 20.
Definition shared_len : nat := 28.          (* sharedTransactionDataLen = 20 + 4 + 4 *)
Definition checksum_len : nat := 4.         (* sharedTransactionDataChecksumLen *)

(** [binary.BigEndian.PutUint32] / [Uint32]. *)
Definition be32 (z : Z) : bytes :=
  [Z.to_N (z / 16777216 mod 256); Z.to_N (z / 65536 mod 256);
   Z.to_N (z / 256 mod 256); Z.to_N (z mod 256)].
Definition be32_dec (b : bytes) : Z :=
  match b with
  | b0 :: b1 :: b2 :: b3 :: _ =>
      Z.of_N b0 * 16777216 + Z.of_N b1 * 65536 + Z.of_N b2 * 256 + Z.of_N b3
  | _ => 0
  end.

(** [bytes()], lines 747-754. *)
Definition shared_bytes (x : shared) : bytes :=
  sh_sender x ++ be32 (sh_vub x) ++ be32 (sh_nonce x).

(** [decodeString] after base64 decoding, lines 768-781 ([None] = error). *)
Definition shared_decode (b : bytes) : option shared :=
  if negb (Nat.eqb (length b) shared_len) then None
  else Some (mkShared (take uint160_size b)
                      (be32_dec (drop uint160_size b))
                      (be32_dec (drop (uint160_size + 4) b))).

(** * SHA-256 (FIPS 180-4), on bytes. *)
(* 32-bit words are kept in [0, 2^32) by masking ([Z.land _ (2^32-1)] = [_ mod 2^32]
   on non-negative numbers, and much faster under [vm_compute]). *)
Definition add32 (a b : Z) : Z := Z.land (a + b) 4294967295.
Definition rotr (n x : Z) : Z := Z.lor (Z.shiftr x n) (Z.land (Z.shiftl x (32 - n)) 4294967295).
Definition not32 (x : Z) : Z := Z.lxor x max_u32.
Definition sha_ch (x y z : Z) : Z := Z.lxor (Z.land x y) (Z.land (not32 x) z).
Definition sha_maj (x y z : Z) : Z := Z.lxor (Z.lxor (Z.land x y) (Z.land x z)) (Z.land y z).
Definition big_sigma0 x := Z.lxor (Z.lxor (rotr 2 x) (rotr 13 x)) (rotr 22 x).
Definition big_sigma1 x := Z.lxor (Z.lxor (rotr 6 x) (rotr 11 x)) (rotr 25 x).
Definition small_sigma0 x := Z.lxor (Z.lxor (rotr 7 x) (rotr 18 x)) (Z.shiftr x 3).
Definition small_sigma1 x := Z.lxor (Z.lxor (rotr 17 x) (rotr 19 x)) (Z.shiftr x 10).

Definition sha_k : list Z :=
  [1116352408; 1899447441; 3049323471; 3921009573; 961987163; 1508970993; 2453635748; 2870763221;
   3624381080; 310598401; 607225278; 1426881987; 1925078388; 2162078206; 2614888103; 3248222580;
   3835390401; 4022224774; 264347078; 604807628; 770255983; 1249150122; 1555081692; 1996064986;
   2554220882; 2821834349; 2952996808; 3210313671; 3336571891; 3584528711; 113926993; 338241895;
   666307205; 773529912; 1294757372; 1396182291; 1695183700; 1986661051; 2177026350; 2456956037;
   2730485921; 2820302411; 3259730800; 3345764771; 3516065817; 3600352804; 4094571909; 275423344;
   430227734; 506948616; 659060556; 883997877; 958139571; 1322822218; 1537002063; 1747873779;
   1955562222; 2024104815; 2227730452; 2361852424; 2428436474; 2756734187; 3204031479; 3329325298].

Definition sha_state : Type := Z * Z * Z * Z * Z * Z * Z * Z.
Definition sha_h0 : sha_state :=
  (1779033703, 3144134277, 1013904242, 2773480762, 1359893119, 2600822924, 528734635, 1541459225).

(** Message schedule: [w] holds W_0..W_{t-1}; extend to 64 words. *)
Fixpoint sha_schedule (fuel : nat) (w : list Z) : list Z :=
  match fuel with
  | O => w
  | S fuel' =>
      let t := length w in
      let g (k : nat) := nth (t - k) w 0 in
      sha_schedule fuel'
        (w ++ [add32 (add32 (small_sigma1 (g 2%nat)) (g 7%nat))
                     (add32 (small_sigma0 (g 15%nat)) (g 16%nat))])
  end.

Definition sha_round (s : sha_state) (kw : Z * Z) : sha_state :=
  let '(a, b, c, d, e, f, g, h) := s in
  let t1 := add32 (add32 (add32 h (big_sigma1 e)) (add32 (sha_ch e f g) (fst kw))) (snd kw) in
  let t2 := add32 (big_sigma0 a) (sha_maj a b c) in
  (add32 t1 t2, a, b, c, add32 d t1, e, f, g).

Fixpoint words_of (b : bytes) (fuel : nat) : list Z :=
  match fuel with
  | O => []
  | S fuel' => be32_dec b :: words_of (drop 4 b) fuel'
  end.

Definition sha_block (s : sha_state) (blk : bytes) : sha_state :=
  let w := sha_schedule 48 (words_of blk 16) in
  let '(a, b, c, d, e, f, g, h) := fold_left sha_round (combine sha_k w) s in
  let '(a0, b0, c0, d0, e0, f0, g0, h0) := s in
  (add32 a0 a, add32 b0 b, add32 c0 c, add32 d0 d, add32 e0 e, add32 f0 f, add32 g0 g, add32 h0 h).

Fixpoint sha_blocks (fuel : nat) (s : sha_state) (m : bytes) : sha_state :=
  match fuel with
  | O => s
  | S fuel' => sha_blocks fuel' (sha_block s (take 64 m)) (drop 64 m)
  end.

Definition sha_pad (m : bytes) : bytes :=
  let l := Z.of_nat (length m) in
  let zeros := Z.to_nat ((55 - l) mod 64) in
  m ++ [128%N] ++ repeat 0%N zeros ++ be32 (l * 8 / w32) ++ be32 (l * 8 mod w32).

Definition sha256 (m : bytes) : bytes :=
  let p := sha_pad m in
  let '(a, b, c, d, e, f, g, h) := sha_blocks (length p / 64)%nat sha_h0 p in
  be32 a ++ be32 b ++ be32 c ++ be32 d ++ be32 e ++ be32 f ++ be32 g ++ be32 h.

(** * Checksum shift helpers (deploy/notary.go:791-809) *)
Definition shared_checksum (x : shared) : bytes := take checksum_len (sha256 (shared_bytes x)).

(** [unshiftChecksum]: [append(h[:4], data...)]. *)
Definition unshift_checksum (x : shared) (data : bytes) : bytes := shared_checksum x ++ data.

(** [shiftChecksum]: [(false, data)] when shorter than the checksum,
    [(false, nil)] on mismatch, [(true, data[4:])] otherwise. *)
Definition shift_checksum (x : shared) (data : bytes) : bool * bytes :=
  if (length data <? checksum_len)%nat then (false, data)
  else if negb (is_prefix (shared_checksum x) data) then (false, [])
  else (true, drop checksum_len data).

(** * sharedTxDataMatches (deploy/notary.go:813-817): the transaction is
    abstracted to its nonce, ValidUntilBlock and list of signer accounts. *)
Definition shared_matches (tx_nonce tx_vub : Z) (tx_signers : list bytes) (x : shared) : bool :=
  (sh_nonce x =? tx_nonce) && (sh_vub x =? tx_vub) &&
  match tx_signers with
  | [] => false
  | s0 :: _ => bytes_eqb s0 (sh_sender x)
  end.

(** * Correspondence cases (harness/deploy_test.go writes [hcase] values:
    inputs given to the real helper through deploy/verif_export.go and what
    it returned). *)
Inductive hcase : Type :=
| HDivide (amount n : Z) (got : list (Z * Z))
| HDivideClosed (amount n : Z) (got : list (Z * Z))   (* huge n: compared with [divide_closed] *)
| HDividePanic (amount n : Z)
| HWindow (halt : bool) (h : Z) (got : option (Z * Z))
| HBytes (x : shared) (got : bytes)
| HDecode (b : bytes) (got : option shared)
| HUnshift (x : shared) (data got : bytes)
| HShift (x : shared) (data : bytes) (got_ok : bool) (got : bytes)
| HMatches (tx_nonce tx_vub : Z) (signers : list bytes) (x : shared) (got : bool)
| HSha (m got : bytes).

Definition pair_eqb (a b : Z * Z) : bool := (fst a =? fst b) && (snd a =? snd b).
Fixpoint list_eqb {A} (eqb : A -> A -> bool) (a b : list A) : bool :=
  match a, b with
  | [], [] => true
  | x :: a', y :: b' => eqb x y && list_eqb eqb a' b'
  | _, _ => false
  end.
Definition shared_eqb (a b : shared) : bool :=
  bytes_eqb (sh_sender a) (sh_sender b) && (sh_vub a =? sh_vub b) && (sh_nonce a =? sh_nonce b).
Definition opt_eqb {A} (eqb : A -> A -> bool) (a b : option A) : bool :=
  match a, b with
  | None, None => true
  | Some x, Some y => eqb x y
  | _, _ => false
  end.

Definition vpairs (l : list (Z * Z)) : val := VList (map (fun p => VList [VInt (fst p); VInt (snd p)]) l).
Definition vshared (x : shared) : val := VList [VBytes (sh_sender x); VInt (sh_vub x); VInt (sh_nonce x)].

(** [None] = the model agrees with the observation; [Some v] = what the model says. *)
Definition check_hcase (c : hcase) : option val :=
  match c with
  | HDivide a n got =>
      match divide_funds a n with
      | Halt l => if list_eqb pair_eqb l got then None else Some (vpairs l)
      | Fault => Some VFault
      end
  | HDivideClosed a n got =>
      let l := divide_closed a n in
      if list_eqb pair_eqb l got then None else Some (vpairs l)
  | HDividePanic a n =>
      match divide_funds a n with Fault => None | Halt l => Some (vpairs l) end
  | HWindow halt h got =>
      let m := tx_modifier halt h in
      if opt_eqb pair_eqb m got then None
      else Some (match m with Some p => VList [VInt (fst p); VInt (snd p)] | None => VNull end)
  | HBytes x got =>
      if bytes_eqb (shared_bytes x) got then None else Some (VBytes (shared_bytes x))
  | HDecode b got =>
      let m := shared_decode b in
      if opt_eqb shared_eqb m got then None
      else Some (match m with Some x => vshared x | None => VNull end)
  | HUnshift x d got =>
      if bytes_eqb (unshift_checksum x d) got then None else Some (VBytes (unshift_checksum x d))
  | HShift x d ok got =>
      let '(mok, mp) := shift_checksum x d in
      if Bool.eqb mok ok && bytes_eqb mp got then None else Some (VList [VBool mok; VBytes mp])
  | HMatches tn tv ss x got =>
      let m := shared_matches tn tv ss x in
      if Bool.eqb m got then None else Some (VBool m)
  | HSha m got =>
      if bytes_eqb (sha256 m) got then None else Some (VBytes (sha256 m))
  end.
