(** Model/EpochSystem.v — the epoch tick as a cross-contract protocol:
    composition of Model/Netmap.v (the ticking contract), Model/Balance.v
    (subscriber: releases expired locks) and Model/Estimations.v (the
    Container contract's size estimations; subscriber: cleans old
    estimations), as deployed by the repository (both subscribe to Netmap
    during their own deployment through common.SubscribeForNewEpoch).

    netmap.newEpoch(e) runs the Netmap tick and then, for every [e<idx><hash>]
    subscriber in index order, [contract.Call(hash, "newEpoch", All, e)]:
    - hash = Balance: balance.NewEpoch(e) — common.CheckAlphabetWitness(), i.e.
      the Alphabet must have signed the TRANSACTION (the witnesses of the
      transaction are unchanged in the callee; the calling contract, Netmap,
      is additionally "witnessed" as caller), then the lock loop;
    - hash = Container: container.NewEpoch(e) — the same check, then
      cleanupContainers(e);
    - any other subscriber: abstract ([other_accepts], as in Model/Netmap.v).
    A fault anywhere faults the whole transaction: nothing changes in any
    contract (VM atomicity).

    The other direction of the coupling is modelled too: PutContainerSize asks
    Netmap for snapshot(1) ([isStorageNode]).  Every other operation of the
    three contracts passes through to its own model.  No proofs here. *)
From Verif Require Import Base.Prelude Base.IntCodec Model.StoreLib.
From Verif Require Model.Netmap Model.Balance Model.Estimations.
Local Open Scope Z_scope.

(** Product state. *)
Record sys := mkSys {
  s_nm : Netmap.nstate;
  s_bal : Balance.bstate;
  s_est : Estimations.estate }.

(** Transaction context: the public keys and the script hashes for which
    CheckWitness answers true (signers), whether the Alphabet account is among
    them, and ledger.CurrentIndex(). *)
Record sctx := mkSC { s_keys : list bytes; s_hashes : list bytes; s_alpha : bool; s_height : Z }.

Inductive sop :=
| SNm (o : Netmap.nop)          (* any Netmap invocation; [NewEpoch] is the system tick *)
| SBal (o : Balance.bop)        (* any Balance invocation (incl. a direct balance.newEpoch) *)
| SEstTick (n : Z)              (* a direct container.newEpoch(n) *)
| SPutSize (live : list bytes) (e : Z) (cid : bytes) (size : Z) (pub h20 : bytes).
                                (* container.putContainerSize; [live] = existing container
                                   ids, [h20] = ripemd160(pub) (both read by the harness) *)

Inductive snotif :=
| SN (n : Netmap.nnotif)        (* Netmap notifications and [NCall h e] *)
| SB (n : Balance.notif).       (* Balance notifications *)

Definition nctx_of (c : sctx) : Netmap.nctx := Netmap.mkNC (s_keys c) (s_alpha c) (s_height c).
Definition bctx_of (c : sctx) : Balance.bctx := Balance.mkCtx (s_hashes c) (s_alpha c).

Section System.
  (** Estimation parameters (containerconst.CleanupDelta, TotalCleanupDelta,
      platform capacity), as in Model/Estimations.v. *)
  Variables (d1 d2 : Z) (cap : list Z -> bool).
  (** Script hashes of the Netmap, Balance and Container contracts. *)
  Variables (nmH balH cntH : bytes).
  (** Other contracts: deployed with newEpoch/1; accept newEpoch(e). *)
  Variable other_ok : bytes -> bool.
  Variable other_accepts : bytes -> Z -> bool.

  (** [management.HasMethod(h, "newEpoch", 1)] *)
  Definition sys_sub_ok (h : bytes) : bool :=
    bytes_eqb h balH || bytes_eqb h cntH || other_ok h.

  (** What the callee sees: the transaction's witnesses, plus the calling
      contract (Netmap). *)
  Definition callee_bctx (c : sctx) : Balance.bctx :=
    Balance.mkCtx (s_hashes c ++ [nmH]) (s_alpha c).

  Definition bal_tick (c : sctx) (b : Balance.bstate) (e : Z)
    : outcome (Balance.bstate * list Balance.notif) :=
    '(b', _, ns) <-! Balance.bexec (callee_bctx c) b (Balance.NewEpoch e);
    Halt (b', ns).

  Definition est_tick (c : sctx) (es : Estimations.estate) (e : Z) : outcome Estimations.estate :=
    Estimations.eexec d1 d2 cap es (Estimations.ETick (s_alpha c) e).

  (** One iteration of Netmap's [cleanup] loop in the composed system. *)
  Definition call_sub (c : sctx) (e : Z)
      (acc : outcome (Balance.bstate * Estimations.estate * list snotif)) (k : bytes)
    : outcome (Balance.bstate * Estimations.estate * list snotif) :=
    '(b, es, ns) <-! acc;
    h <-! (match k with [] => Fault | _ :: h => Halt h end);
    if bytes_eqb h balH then
      '(b', bns) <-! bal_tick c b e;
      Halt (b', es, ns ++ SN (Netmap.NCall h e) :: map SB bns)
    else if bytes_eqb h cntH then
      es' <-! est_tick c es e;
      Halt (b, es', ns ++ [SN (Netmap.NCall h e)])
    else if other_accepts h e then Halt (b, es, ns ++ [SN (Netmap.NCall h e)])
    else Fault.

  (** netmap.newEpoch(e) in the composed system: the guards and storage
      writes of Netmap.NewEpoch ([Netmap.tick_state]), then the calls. *)
  Definition sys_new_epoch (c : sctx) (S : sys) (e : Z) : outcome (sys * list snotif) :=
    let nm := s_nm S in
    _ <-! oassert (s_alpha c);
    _ <-! oassert (negb (e <=? Netmap.epoch nm));
    id <-! Netmap.vm_mod (Netmap.cur nm + 1) (Netmap.count nm);
    key <-! Netmap.ring_key id;
    let nm' := Netmap.tick_state nm e (s_height c) id key in
    '(b', es', ns) <-! fold_left (call_sub c e) (skeys (Netmap.subs nm')) (Halt (s_bal S, s_est S, []));
    Halt (mkSys nm' b' es', ns ++ [SN (Netmap.NNewEpoch e)]).

  (** [isStorageNode]: the keys of netmap.snapshot(1). *)
  Definition prev_keys (nm : Netmap.nstate) : outcome (list bytes) :=
    l <-! Netmap.r_snapshot nm 1;
    Halt (map (fun n => take 33 (drop 2 (Netmap.blob n))) l).

  Definition sys_exec (c : sctx) (S : sys) (o : sop) : outcome (sys * val * list snotif) :=
    match o with
    | SNm (Netmap.NewEpoch e) =>
        '(S', ns) <-! sys_new_epoch c S e;
        Halt (S', VNull, ns)
    | SNm o' =>
        (* no other Netmap method calls out; [sub_accepts] is irrelevant *)
        '(nm', ns) <-! Netmap.nexec sys_sub_ok other_accepts (nctx_of c) (s_nm S) o';
        Halt (mkSys nm' (s_bal S) (s_est S), VNull, map SN ns)
    | SBal o' =>
        '(b', r, ns) <-! Balance.bexec (bctx_of c) (s_bal S) o';
        Halt (mkSys (s_nm S) b' (s_est S), r, map SB ns)
    | SEstTick n =>
        es' <-! est_tick c (s_est S) n;
        Halt (mkSys (s_nm S) (s_bal S) es', VNull, [])
    | SPutSize live e cid size pub h20 =>
        (* getOwnerByID, CheckWitness(pub), then netmap.snapshot(1): the order of
           the three guards does not matter for the outcome (all fault) *)
        prev <-! (if existsb (bytes_eqb cid) live && existsb (bytes_eqb pub) (s_keys c)
                  then prev_keys (s_nm S) else Fault);
        es' <-! Estimations.eexec d1 d2 cap (s_est S)
                  (Estimations.EPut live (s_keys c) prev e cid size pub h20);
        Halt (mkSys (s_nm S) (s_bal S) es', VNull, [])
    end.

  (** Transaction wrapper: a fault changes nothing anywhere and emits nothing. *)
  Definition sys_step (S : sys) (co : sctx * sop) : sys * val * list snotif :=
    match sys_exec (fst co) S (snd co) with
    | Halt r => r
    | Fault => (S, VFault, [])
    end.

  Definition sys_run_from (S : sys) (ops : list (sctx * sop)) : sys :=
    fold_left (fun S co => fst (fst (sys_step S co))) ops S.
End System.

Definition sys_init (cfg : list (bytes * bytes)) : sys :=
  mkSys (Netmap.ninit cfg) Balance.binit Estimations.einit.

(** * Observables for the correspondence check *)

Inductive squery :=
| QN (q : Netmap.query)                 (* a Netmap read *)
| QBalance (a : bytes)                  (* balance.balanceOf *)
| QSupply                               (* balance.totalSupply *)
| QEstAll (e : Z).                      (* container.iterateAllContainerSizes(e) *)

Definition sanswer (S : sys) (q : squery) : val :=
  match q with
  | QN q' => Netmap.answer (s_nm S) q'
  | QBalance a => VInt (Balance.balance_of (s_bal S) a)
  | QSupply => VInt (Balance.supply (s_bal S))
  | QEstAll e =>
      VList (map (fun kv => VList [VBytes (fst kv); Estimations.dec_est (snd kv)])
                 (Estimations.eiter_all (Estimations.ests (s_est S)) e))
  end.

Definition snotif_val (n : snotif) : val :=
  match n with
  | SN n' => Netmap.notif_val n'
  | SB n' => VList [VInt 6; Balance.notif_val n']
  end.

(** One observed step: which probe subscriber rejects which epoch at the
    moment, the invocation, the reads made afterwards. *)
Definition sostep := (list (bytes * Z) * (sctx * sop) * list squery)%type.

(** A correspondence case: (CleanupDelta, TotalCleanupDelta), the script
    hashes of Netmap, Balance, Container, the probe contracts, steps executed
    before the observed history (subscriptions made during deployment, the
    balances left by the set-up), observed steps. *)
Definition scase :=
  ((Z * Z) * (bytes * bytes * bytes) * list bytes * list sostep * list (sostep * val))%type.

Definition sstep_obs (d : Z * Z) (hs : bytes * bytes * bytes) (oks : list bytes)
    (S : sys) (o : sostep) : sys * val :=
  let '(rej, co, qs) := o in
  let '(nmH, balH, cntH) := hs in
  let '(S', r, ns) :=
    sys_step (fst d) (snd d) Estimations.cap_real nmH balH cntH
             (Netmap.deployed oks) (Netmap.rejects rej) S co in
  (* the calls into Balance and Container announce nothing themselves *)
  let vis := List.filter (fun n => match n with
                                   | SN (Netmap.NCall h _) => negb (bytes_eqb h balH || bytes_eqb h cntH)
                                   | _ => true end) ns in
  (S', VList [r; VList (map snotif_val vis); VList (map (sanswer S') qs)]).

Definition scheck_case (c : scase) : option (nat * val) :=
  let '(d, hs, oks, pre, steps) := c in
  run_case (sstep_obs d hs oks)
           (fold_left (fun S o => fst (sstep_obs d hs oks S o)) pre (sys_init [])) 0 steps.
