(** Model/DeployProto.v — the Notary-bootstrap signature exchange of
    /repo/deploy/notary.go as a transition system (property C13 (b)).

    Members [0..n-1] are the committee in sorted key order (deploy.go:181);
    member 0 is the leader (notary.go:74).  The shared state is the part of
    the NNS contract the stage uses: the domain
    [designate-committee-notary-tx.bootstrap] (nns.go:31) with its TXT
    records (shared transaction data) and the domains
    [designate-committee-notary-<i>.bootstrap] (nns.go:49-51) with theirs
    (checksum ++ signature), plus the node's transaction pool and the
    P2PNotary designation.  Every member keeps the local variables of its tick
    closure (notary.go:204-211 leader, 566-568 signer); they are lost on
    restart, the chain is not.

    The scheduler is arbitrary: a history is any list of [label]s (a member
    ticks / restarts, a pooled transaction is executed, a block passes, a
    foreign account rewrites a signature domain).  What Go leaves
    unspecified enters through the label: the value [rand.Uint32()] returns
    (notary.go:254) and the iteration order of the Go map
    [mCommitteeIndexToSignature] (notary.go:478,486).

    Abstractions (stated, not hidden): a shared-data value is the pair
    (validUntilBlock, nonce) — the sender is always the leader's account; a
    signature is the pair (index of the committee key under which it
    verifies, shared data of the transaction it signs), so
    [PublicKey.VerifyHashable] is equality of both components; the checksum
    of a record is the shared data it was computed from (collisions of the
    4-byte prefix are not modelled); RPC calls do not fail, members have GAS,
    pooled transactions do not expire.  The index expressions of the source
    are kept literally, with file:line. *)
From Verif Require Import Base.Prelude.
Local Open Scope Z_scope.

(** * Data *)

Definition data : Type := Z * Z.      (* (validUntilBlock, nonce) *)
Definition d_vub (d : data) : Z := fst d.

Record sigval := mkSig { sv_by : nat; sv_over : data }.
Record sigrec := mkRec { sr_ck : data; sr_sig : sigval }.

Global Instance sigval_eq_dec : EqDecision sigval.
Proof. solve_decision. Defined.
Global Instance sigrec_eq_dec : EqDecision sigrec.
Proof. solve_decision. Defined.

(** smartcontract.GetMajorityHonestNodeCount: [n - (n-1)/2]. *)
Definition maj_m (n : nat) : nat := (n - (n - 1) / 2)%nat.

(** The two places where the source may be read in two ways: the pinned
    commit, and the repair suggested for findings F7/F8 (the model is generic
    so that both can be stated and compared; the correspondence check uses
    the variant that describes /repo's working tree).
      - [v_first]: first index of the leader's collection loop.
        notary.go:390 [for i := range prm.committee[1:]] yields 0..n-2
        ([v_first = 0]); the repaired loop [for i := 1; i < len(committee); i++]
        yields 1..n-1 ([v_first = 1]).
      - [v_sorted]: whether the collected signatures are appended in index
        order. notary.go:478,486 range over the Go map (any order:
        [v_sorted = false]); the repair sorts the indices. *)
Record variant := mkVariant { v_first : nat; v_sorted : bool }.
Definition as_pinned : variant := mkVariant 0 false.
Definition as_repaired : variant := mkVariant 1 true.

(** Transactions members send (state-changing calls of the NNS contract and
    the designation itself). *)
Inductive write : Type :=
| WRegTx                                   (* register  designate-committee-notary-tx.bootstrap *)
| WAddTx (d : data)                        (* addRecord on it *)
| WSetTx (d : data)                        (* setRecord id 0 on it *)
| WRegSig (i : nat)                        (* register  designate-committee-notary-<i>.bootstrap *)
| WAddSig (i : nat) (r : sigrec)
| WSetSig (i : nat) (r : sigrec)
| WDesignate (d : data) (script : list sigval).  (* RoleManagement.designateAsRole(P2PNotary, committee)
                                                    with the committee multi-signature witness [script] *)

Global Instance write_eq_dec : EqDecision write.
Proof. solve_decision. Defined.

(** * Chain *)
Record chain := mkChain {
  c_height : Z;
  c_txdom : option (list data);            (* None: domain not registered; Some recs: its TXT records *)
  c_sigdom : gmap nat (list sigrec);       (* registered signature domains and their TXT records *)
  c_designated : bool;                     (* P2PNotary designated to the committee *)
  c_pool : list (nat * write);             (* pooled transactions: (id, what) *)
  c_next : nat                             (* next transaction id *)
}.

Definition chain0 (h0 : Z) : chain := mkChain h0 None ∅ false [] 0.

Definition max_records : nat := 16.         (* nns: maxRecordID = 15 *)

(** The node's witness check of the designation transaction built from
    shared data [d] (core/blockchain.go verifyHashAgainstScript with the
    [m]-of-[n] multi-signature contract):
      - not exactly [m] pushed signatures: the VM faults or leaves extra
        items -> ErrVerificationFailed (RPC code -500);
      - [m] signatures, but CheckMultisig is false (a signature not valid
        for this transaction, or not in key order) -> ErrInvalidSignature
        (RPC code -508);
      - otherwise accepted. *)
Inductive verdict := VAccepted | VInvalidSignature | VVerificationFailed
  | VAlreadyKnown.   (* the same transaction (hash) is already pooled: ErrAlreadyInPool *)

Fixpoint strictly_increasing (l : list nat) : bool :=
  match l with
  | a :: ((b :: _) as tl) => (a <? b)%nat && strictly_increasing tl
  | _ => true
  end.

Definition valid_witness (n : nat) (d : data) (script : list sigval) : bool :=
  forallb (fun s => bool_decide (sv_over s = d) && (sv_by s <? n)%nat) script &&
  strictly_increasing (map sv_by script).

Definition node_verdict (n : nat) (d : data) (script : list sigval) : verdict :=
  if negb (length script =? maj_m n)%nat then VVerificationFailed
  else if valid_witness n d script then VAccepted
  else VInvalidSignature.

(** Would the test invocation of [w] HALT on the current state?  (actor.SendCall
    runs it first and sends nothing if it faults; the same test decides the
    effect when the transaction is executed in a block.) *)
Definition write_ok (c : chain) (w : write) : bool :=
  match w with
  | WRegTx => true                              (* register of a taken name returns false, HALT *)
  | WAddTx d =>
      match c_txdom c with
      | Some recs => negb (bool_decide (d ∈ recs)) && (length recs <? max_records)%nat
      | None => false
      end
  | WSetTx _ => match c_txdom c with Some (_ :: _) => true | _ => false end
  | WRegSig _ => true
  | WAddSig i r =>
      match c_sigdom c !! i with
      | Some recs => negb (bool_decide (r ∈ recs)) && (length recs <? max_records)%nat
      | None => false
      end
  | WSetSig i _ => match c_sigdom c !! i with Some (_ :: _) => true | _ => false end
  | WDesignate _ _ => true
  end.

(** Effect of an executed transaction (a faulting one changes nothing). *)
Definition apply_write (c : chain) (w : write) : chain :=
  if negb (write_ok c w) then c else
  match w with
  | WRegTx =>
      match c_txdom c with
      | None => mkChain (c_height c) (Some []) (c_sigdom c) (c_designated c) (c_pool c) (c_next c)
      | Some _ => c
      end
  | WAddTx d =>
      mkChain (c_height c) (Some (default [] (c_txdom c) ++ [d])) (c_sigdom c) (c_designated c) (c_pool c) (c_next c)
  | WSetTx d =>
      mkChain (c_height c) (Some (d :: tail (default [] (c_txdom c)))) (c_sigdom c) (c_designated c) (c_pool c) (c_next c)
  | WRegSig i =>
      match c_sigdom c !! i with
      | None => mkChain (c_height c) (c_txdom c) (<[i := []]> (c_sigdom c)) (c_designated c) (c_pool c) (c_next c)
      | Some _ => c
      end
  | WAddSig i r =>
      mkChain (c_height c) (c_txdom c) (<[i := default [] (c_sigdom c !! i) ++ [r]]> (c_sigdom c))
              (c_designated c) (c_pool c) (c_next c)
  | WSetSig i r =>
      mkChain (c_height c) (c_txdom c) (<[i := r :: tail (default [] (c_sigdom c !! i))]> (c_sigdom c))
              (c_designated c) (c_pool c) (c_next c)
  | WDesignate _ _ =>
      mkChain (c_height c) (c_txdom c) (c_sigdom c) true (c_pool c) (c_next c)
  end.

(** Hand a transaction to the node: it gets the next id and waits in the pool. *)
Definition pool_add (c : chain) (w : write) : chain * nat :=
  (mkChain (c_height c) (c_txdom c) (c_sigdom c) (c_designated c) (c_pool c ++ [(c_next c, w)]) (S (c_next c)),
   c_next c).

(** lookupNNSDomainRecord (nns.go:190-218): first TXT record. *)
Inductive lookup_res (A : Type) := LMissingDomain | LMissingRecord | LRecord (a : A).
Arguments LMissingDomain {A}.
Arguments LMissingRecord {A}.
Arguments LRecord {A} a.

Definition lookup_tx (c : chain) : lookup_res data :=
  match c_txdom c with
  | None => LMissingDomain
  | Some [] => LMissingRecord
  | Some (d :: _) => LRecord d
  end.

Definition lookup_sig (c : chain) (i : nat) : lookup_res sigrec :=
  match c_sigdom c !! i with
  | None => LMissingDomain
  | Some [] => LMissingRecord
  | Some (r :: _) => LRecord r
  end.

(** * Local state of the tick closures *)

(** transactionGroupMonitor.pending: the id of the tracked transaction. *)
Definition pending := option nat.

Record leader := mkLeader {
  l_tx : option data;                   (* tx (notary.go:205): the shared data it was made from *)
  l_script : list sigval;               (* remote signatures appended to tx.Scripts[1].InvocationScript *)
  l_m : list (nat * sigval);            (* mCommitteeIndexToSignature (notary.go:206) *)
  l_full : bool;                        (* txFullySigned (207) *)
  l_tried : bool;                       (* triedDesignateRoleTx (208) *)
  l_reg : pending;                      (* registerDomainTxMonitor (209) *)
  l_set : pending                       (* setDomainRecordTxMonitor (210) *)
}.
Definition leader0 : leader := mkLeader None [] [] false false None None.

Record signer := mkSigner {
  s_tx : option data;                   (* tx (notary.go:566) *)
  s_reg : pending;                      (* registerDomainTxMonitor (567) *)
  s_set : pending                       (* setDomainRecordTxMonitor (568) *)
}.
Definition signer0 : signer := mkSigner None None None.

Record pstate := mkP {
  p_chain : chain;
  p_leader : leader;
  p_signers : gmap nat signer;
  p_solo : pending                      (* n = 1: txMonitor of initDesignateNotaryRoleToLocalAccountTick (132) *)
}.
Definition pinit (h0 : Z) : pstate := mkP (chain0 h0) leader0 ∅ None.

Inductive event : Type :=
| ESent (id : nat) (w : write)                     (* accepted into the pool *)
| ERejected (w : write) (v : verdict)              (* refused by the node *)
| EAssembled (d : data) (script : list sigval).    (* notary.go:472-494: the committee witness was finalised *)

(** * Leader tick (notary.go:221-519) *)

(** Map with overwrite, insertion order kept (only its content matters:
    the iteration order comes from the scheduler). *)
Fixpoint m_insert (i : nat) (v : sigval) (m : list (nat * sigval)) : list (nat * sigval) :=
  match m with
  | [] => [(i, v)]
  | (j, w) :: m' => if (i =? j)%nat then (i, v) :: m' else (j, w) :: m_insert i v m'
  end.

Fixpoint m_extract (k : nat) (m : list (nat * sigval)) : option (sigval * list (nat * sigval)) :=
  match m with
  | [] => None
  | (j, w) :: m' =>
      if (k =? j)%nat then Some (w, m')
      else match m_extract k m' with
           | Some (v, r) => Some (v, (j, w) :: r)
           | None => None
           end
  end.

(** The order in which [for _, sig := range mCommitteeIndexToSignature]
    visits the map: the keys listed in [order] first (in that order), then
    whatever is left. Always a permutation of the map's values. *)
Fixpoint range_map (order : list nat) (m : list (nat * sigval)) : list sigval :=
  match order with
  | [] => map snd m
  | k :: order' =>
      match m_extract k m with
      | Some (v, m') => v :: range_map order' m'
      | None => range_map order' m
      end
  end.

(** Order in which the finalisation appends the collected signatures. *)
Definition assemble (v : variant) (n : nat) (order : list nat) (m : list (nat * sigval)) : list sigval :=
  range_map (if v_sorted v then seq 0 (S n) else order) m.

(** resetTx (notary.go:213-219). *)
Definition reset_tx (l : leader) : leader :=
  mkLeader None [] [] false (l_tried l) (l_reg l) None.

(** generateAndShareTxData (notary.go:228-281); [record_exists] selects
    setRecord/addRecord. [maxinc] is Protocol.MaxValidUntilBlockIncrement. *)
Definition vub_increment (maxinc : Z) : Z := if 120 <=? maxinc then 120 else maxinc.

Definition generate_and_share (maxinc nonce : Z) (record_exists : bool) (c : chain) (l : leader)
  : chain * leader * list event :=
  let l := reset_tx l in
  let d := (c_height c + vub_increment maxinc, nonce) in
  let w := if record_exists then WSetTx d else WAddTx d in
  if negb (write_ok c w) then (c, l, [])               (* test invocation faults: SendCall returns an error *)
  else let '(c', id) := pool_add c w in
       (c', mkLeader (l_tx l) (l_script l) (l_m l) (l_full l) (l_tried l) (l_reg l) (Some id), [ESent id w]).

(** The collection loop, notary.go:390-452: [for i := range prm.committee[1:]],
    i.e. i = 0 .. n-2. *)
Inductive collect_res :=
| CContinue (m : list (nat * sigval)) (invalid : nat)
| CBreak (m : list (nat * sigval))
| CRegenerate.

Definition collect_step (n : nat) (c : chain) (d : data) (need : nat)
    (m : list (nat * sigval)) (invalid : nat) (i : nat) : collect_res :=
  match lookup_sig c i with                       (* 391: domain := designateNotarySignatureDomainForMember(i) *)
  | LMissingDomain | LMissingRecord => CContinue m invalid          (* 394-406 *)
  | LRecord r =>
      if negb (bool_decide (sr_ck r = d)) then CContinue m invalid  (* 417-423 shiftChecksum *)
      else if negb (bool_decide (sv_by (sr_sig r) = i) && bool_decide (sv_over (sr_sig r) = d))
      then                                         (* 426: prm.committee[i].VerifyHashable(sig, tx) *)
        let invalid := S invalid in                (* 431 *)
        if (n <? invalid + maj_m n)%nat then CRegenerate   (* 433: invalid + M > len(committee) *)
        else CContinue m invalid
      else
        let m := m_insert i (sr_sig r) m in        (* 448: mCommitteeIndexToSignature[i] = bSignature *)
        if (length m =? need)%nat then CBreak m else CContinue m invalid   (* 449-451 *)
  end.

Fixpoint collect_loop (n : nat) (c : chain) (d : data) (need : nat)
    (m : list (nat * sigval)) (invalid : nat) (is : list nat) : collect_res :=
  match is with
  | [] => CContinue m invalid
  | i :: is' =>
      match collect_step n c d need m invalid i with
      | CContinue m' inv' => collect_loop n c d need m' inv' is'
      | r => r
      end
  end.

Definition set_m (l : leader) (m : list (nat * sigval)) : leader :=
  mkLeader (l_tx l) (l_script l) m (l_full l) (l_tried l) (l_reg l) (l_set l).

(** After the collection (notary.go:454-519); [l] already holds the updated map. *)
Definition leader_finish (v : variant) (n : nat) (maxinc nonce : Z) (order : list nat) (c : chain) (d : data) (l : leader)
  : chain * leader * list event :=
  let need := (maj_m n - 1)%nat in
  if (length (l_m l) <? need)%nat then (c, l, [])             (* 454-458 *)
  else if bool_decide (is_Some (l_reg l)) then (c, l, [])     (* 463: registerDomainTxMonitor (sic) *)
  else if l_tried l then generate_and_share maxinc nonce true c l   (* 466-469 *)
  else
    (* 472-494 *)
    let '(l, ev) :=
      if l_full l then (l, [])
      else let script := l_script l ++ assemble v n order (l_m l) in
           (mkLeader (l_tx l) script (l_m l) true (l_tried l) (l_reg l) (l_set l),
            [EAssembled d (mkSig 0 d :: script)]) in
    let full_script := mkSig 0 d :: l_script l in             (* local signature comes first (367) *)
    let w := WDesignate d full_script in
    let vd := node_verdict n d full_script in
    let vd := match vd with
              | VAccepted => if bool_decide (w ∈ map snd (c_pool c)) then VAlreadyKnown else VAccepted
              | _ => vd
              end in
    match vd with                                             (* 498: localActor.Send(tx) *)
    | VAccepted =>
        let '(c', id) := pool_add c w in
        (c', mkLeader (l_tx l) (l_script l) (l_m l) (l_full l) true (l_reg l) (l_set l),
         ev ++ [ESent id w])                                  (* 517 *)
    | VVerificationFailed =>                                  (* 506-509 *)
        let '(c', l', ev') := generate_and_share maxinc nonce true c l in
        (c', l', (ev ++ [ERejected w VVerificationFailed]) ++ ev')
    | VInvalidSignature | VAlreadyKnown =>                    (* 501-503: logged, nothing else *)
        (c, l, ev ++ [ERejected w vd])
    end.

Definition leader_tick (v : variant) (n : nat) (maxinc nonce : Z) (order : list nat) (c : chain) (l : leader)
  : chain * leader * list event :=
  match lookup_tx c with                                      (* 283 *)
  | LMissingDomain =>                                         (* 285-310 *)
      if bool_decide (is_Some (l_reg l)) then (c, l, [])
      else let '(c', id) := pool_add c WRegTx in
           (c', mkLeader (l_tx l) (l_script l) (l_m l) (l_full l) (l_tried l) (Some id) (l_set l),
            [ESent id WRegTx])
  | LMissingRecord =>                                         (* 316-324 *)
      if bool_decide (is_Some (l_set l)) then (c, l, [])
      else generate_and_share maxinc nonce false c l
  | LRecord d =>
      if d_vub d <? c_height c then                           (* 334: cur > validUntilBlock *)
        generate_and_share maxinc nonce true c l
      else
        (* 346-377: (re)make and sign the transaction *)
        let l := if bool_decide (l_tx l = Some d) then l
                 else mkLeader (Some d) [] (l_m l) (l_full l) (l_tried l) (l_reg l) (l_set l) in
        let need := (maj_m n - 1)%nat in                      (* 379 *)
        let collected :=
          if (length (l_m l) <? need)%nat                     (* 381 *)
          then collect_loop n c d need (l_m l) 0 (seq (v_first v) (n - 1))   (* 390: range committee[1:] *)
          else CBreak (l_m l) in
        match collected with
        | CRegenerate => generate_and_share maxinc nonce true c l     (* 437 *)
        | CContinue m _ => leader_finish v n maxinc nonce order c d (set_m l m)
        | CBreak m => leader_finish v n maxinc nonce order c d (set_m l m)
        end
  end.

(** * Signer tick, member [k >= 1] (notary.go:575-735) *)
Definition signer_tick (k : nat) (c : chain) (s : signer) : chain * signer * list event :=
  match lookup_tx c with                                      (* 580 *)
  | LMissingDomain | LMissingRecord => (c, s, [])             (* 581-591 *)
  | LRecord d =>
      if d_vub d <? c_height c then                           (* 602-607: resetTx *)
        (c, mkSigner None (s_reg s) None, [])
      else
        let s := mkSigner (Some d) (s_reg s) (s_set s) in     (* 614-627 *)
        let mine := mkRec d (mkSig k d) in                    (* 704-707 *)
        (* 629: domain := designateNotarySignatureDomainForMember(prm.localAccCommitteeIndex) *)
        match lookup_sig c k with                             (* 636 *)
        | LMissingDomain =>                                   (* 638-664 *)
            if bool_decide (is_Some (s_reg s)) then (c, s, [])
            else let '(c', id) := pool_add c (WRegSig k) in
                 (c', mkSigner (s_tx s) (Some id) (s_set s), [ESent id (WRegSig k)])
        | LMissingRecord =>                                   (* 670-677, 701-733 *)
            if bool_decide (is_Some (s_set s)) then (c, s, [])
            else if negb (write_ok c (WAddSig k mine)) then (c, s, [])
            else let '(c', id) := pool_add c (WAddSig k mine) in
                 (c', mkSigner (s_tx s) (s_reg s) (Some id), [ESent id (WAddSig k mine)])
        | LRecord r =>                                        (* 679-699 *)
            if bool_decide (sr_ck r = d) && bool_decide (sv_by (sr_sig r) = k)
               && bool_decide (sv_over (sr_sig r) = d)
            then (c, s, [])
            else if negb (write_ok c (WSetSig k mine)) then (c, s, [])
            else let '(c', id) := pool_add c (WSetSig k mine) in
                 (c', mkSigner (s_tx s) (s_reg s) (Some id), [ESent id (WSetSig k mine)])
        end
  end.

(** * Single-member committee (notary.go:134-158) *)
Definition solo_tick (nonce : Z) (c : chain) (p : pending) : chain * pending * list event :=
  if bool_decide (is_Some p) then (c, p, [])
  else let d := (c_height c, nonce) in
       let w := WDesignate d [mkSig 0 d] in
       let '(c', id) := pool_add c w in (c', Some id, [ESent id w]).

(** * Scheduler *)
Inductive label : Type :=
| LTick (k : nat) (nonce : Z) (order : list nat)   (* member k runs one tick *)
| LRestart (k : nat)                               (* member k's process restarts: closure state lost *)
| LLand (id : nat)                                 (* pooled transaction [id] is executed in a block *)
| LLandAll                                         (* all pooled transactions, in pool order *)
| LBlock                                           (* the chain height grows by one *)
| LGarbage (i : nat) (recs : list sigrec).         (* a foreign account owns signature domain i and sets its records *)

Definition clear (id : nat) (p : pending) : pending :=
  match p with Some j => if (j =? id)%nat then None else p | None => None end.

(** WaitAny returns for transaction [id]: the monitors tracking it reset. *)
Definition clear_flags (id : nat) (s : pstate) : pstate :=
  let l := p_leader s in
  mkP (p_chain s)
      (mkLeader (l_tx l) (l_script l) (l_m l) (l_full l) (l_tried l) (clear id (l_reg l)) (clear id (l_set l)))
      ((fun sg => mkSigner (s_tx sg) (clear id (s_reg sg)) (clear id (s_set sg))) <$> p_signers s)
      (clear id (p_solo s)).

Definition land (id : nat) (s : pstate) : pstate :=
  let c := p_chain s in
  match list_find (fun e => bool_decide (fst e = id)) (c_pool c) with
  | None => s
  | Some (pos, (_, w)) =>
      let c' := apply_write c w in
      let c'' := mkChain (c_height c') (c_txdom c') (c_sigdom c') (c_designated c')
                         (delete pos (c_pool c')) (c_next c') in
      clear_flags id (mkP c'' (p_leader s) (p_signers s) (p_solo s))
  end.

Definition get_signer (s : pstate) (k : nat) : signer := default signer0 (p_signers s !! k).

(** A member ticks only while [checkRole] says the role is not designated
    (enableNotary, notary.go:89-110). *)
Definition pstep (v : variant) (n : nat) (maxinc : Z) (s : pstate) (lb : label) : pstate * list event :=
  match lb with
  | LTick k nonce order =>
      if c_designated (p_chain s) || negb (k <? n)%nat then (s, [])
      else if (n =? 1)%nat then
        let '(c, p, ev) := solo_tick nonce (p_chain s) (p_solo s) in
        (mkP c (p_leader s) (p_signers s) p, ev)
      else if (k =? 0)%nat then
        let '(c, l, ev) := leader_tick v n maxinc nonce order (p_chain s) (p_leader s) in
        (mkP c l (p_signers s) (p_solo s), ev)
      else
        let '(c, sg, ev) := signer_tick k (p_chain s) (get_signer s k) in
        (mkP c (p_leader s) (<[k := sg]> (p_signers s)) (p_solo s), ev)
  | LRestart k =>
      if (k =? 0)%nat then (mkP (p_chain s) leader0 (p_signers s) None, [])
      else (mkP (p_chain s) (p_leader s) (delete k (p_signers s)) (p_solo s), [])
  | LLand id => (land id s, [])
  | LLandAll => (fold_left (fun s e => land (fst e) s) (c_pool (p_chain s)) s, [])
  | LBlock =>
      let c := p_chain s in
      (mkP (mkChain (c_height c + 1) (c_txdom c) (c_sigdom c) (c_designated c) (c_pool c) (c_next c))
           (p_leader s) (p_signers s) (p_solo s), [])
  | LGarbage i recs =>
      let c := p_chain s in
      (mkP (mkChain (c_height c) (c_txdom c) (<[i := recs]> (c_sigdom c)) (c_designated c) (c_pool c) (c_next c))
           (p_leader s) (p_signers s) (p_solo s), [])
  end.

(** Run a history; the trace pairs every label with the events it produced. *)
Fixpoint prun (v : variant) (n : nat) (maxinc : Z) (s : pstate) (ls : list label) : pstate * list event :=
  match ls with
  | [] => (s, [])
  | lb :: ls' =>
      let '(s', ev) := pstep v n maxinc s lb in
      let '(s'', evs) := prun v n maxinc s' ls' in
      (s'', ev ++ evs)
  end.

(** * Correspondence cases: a run of the real ticks on an in-process chain
    (harness/deploy_notary_test.go), as labels with what was observed. *)

(** Observable part of the chain after a label. *)
Record snapshot := mkSnap {
  sn_height : Z;
  sn_tx : option (list data);
  sn_sigs : list (nat * list sigrec);        (* registered signature domains 0..n-1, ascending *)
  sn_designated : bool
}.

Definition snapshot_of (n : nat) (c : chain) : snapshot :=
  mkSnap (c_height c) (c_txdom c)
         (omap (fun i => match c_sigdom c !! i with Some r => Some (i, r) | None => None end) (seq 0 n))
         (c_designated c).

Global Instance snapshot_eq_dec : EqDecision snapshot.
Proof. solve_decision. Defined.
Global Instance verdict_eq_dec : EqDecision verdict.
Proof. solve_decision. Defined.

(** What the harness sees of a tick: the transactions handed to the node and
    the node's answer ([EAssembled] is internal). *)
Definition visible (ev : list event) : list event :=
  List.filter (fun e => match e with EAssembled _ _ => false | _ => true end) ev.

Global Instance event_eq_dec : EqDecision event.
Proof. solve_decision. Defined.

Record pcase := mkPCase {
  pc_n : nat;
  pc_maxinc : Z;
  pc_h0 : Z;
  pc_steps : list (label * list event * option snapshot)
}.

Fixpoint check_steps (v : variant) (n : nat) (maxinc : Z) (s : pstate) (i : nat)
    (steps : list (label * list event * option snapshot)) : option val :=
  match steps with
  | [] => None
  | (lb, ev, snap) :: rest =>
      let '(s', ev') := pstep v n maxinc s lb in
      if negb (bool_decide (visible ev' = ev)) then Some (VList [VInt (Z.of_nat i); VInt 1])
      else match snap with
           | Some sn =>
               if bool_decide (snapshot_of n (p_chain s') = sn) then check_steps v n maxinc s' (S i) rest
               else Some (VList [VInt (Z.of_nat i); VInt 2])
           | None => check_steps v n maxinc s' (S i) rest
           end
  end.

Definition check_pcase (v : variant) (c : pcase) : option val :=
  check_steps v (pc_n c) (pc_maxinc c) (pinit (pc_h0 c)) 0 (pc_steps c).

(** * Canonical fair schedule: every live member ticks, everything pooled is
    executed, a block passes — repeated. [order] is the map iteration order
    used whenever the leader finalises. *)
Definition round (live : list nat) (nonce : Z) (order : list nat) : list label :=
  map (fun k => LTick k nonce order) live ++ [LLandAll; LBlock].

Definition fair_rounds (r : nat) (live : list nat) (nonce : Z) (order : list nat) : list label :=
  concat (repeat (round live nonce order) r).

(** Live sets as bit masks over members 0..n-1. *)
Definition live_of (mask : list bool) (i : nat) : bool := nth i mask false.
Definition members (mask : list bool) : list nat :=
  List.filter (live_of mask) (seq 0 (length mask)).

Fixpoint all_masks (n : nat) : list (list bool) :=
  match n with
  | O => [[]]
  | S n' => flat_map (fun m => [true :: m; false :: m]) (all_masks n')
  end.

(** * (c) Expected final state of deploy.Deploy run by all n members
    (deploy.go:170-645), as observed by harness/deploy_e2e_test.go.

    Names of the [neofs] zone are coded: 0 proxy, 1 audit, 2 netmap,
    3 balance, 4 reputation, 5 neofsid, 6 container, 100+i alphabet<i>. *)
Record final_obs := mkFinal {
  fo_returned_nil : nat;                 (* members whose Deploy returned nil *)
  fo_notary : bool;                      (* P2PNotary designated to exactly the committee *)
  fo_alphabet : bool;                    (* NeoFSAlphabet designated to exactly the committee *)
  fo_nns_id1 : bool;                     (* contract with ID 1 is the NNS *)
  fo_contracts : nat;                    (* deployed (non-native) contracts *)
  fo_names : list (nat * nat);           (* name code, number of on-chain contracts carrying the supplied
                                            executable that the name resolves to *)
  fo_distinct : bool;                    (* all names resolve to pairwise distinct contracts *)
  fo_rerun_returned_nil : nat;           (* second run of every member on the finished chain *)
  fo_rerun_sent : nat                    (* transactions and notary requests the second run sent *)
}.

Global Instance final_obs_eq_dec : EqDecision final_obs.
Proof. solve_decision. Defined.

Definition final_state (n : nat) : final_obs :=
  mkFinal n true true true (8 + n)
          (map (fun c => (c, 1%nat)) (seq 0 7 ++ map (fun i => (100 + i)%nat) (seq 0 n)))
          true n 0.

Definition check_final (c : nat * final_obs) : option val :=
  if bool_decide (snd c = final_state (fst c)) then None
  else Some (VList [VInt (Z.of_nat (fst c)); VInt (Z.of_nat (fo_contracts (snd c)))]).

(** * Source facts: what a go/ast walk over deploy/notary.go finds
    (harness/deploy_notary_test.go, [c13SourceFacts]) against the variant the
    model is run with.
      - [src]: first index of the leader's collection loop and whether the
        assembly loop ranges over sorted indices;
      - [count_off]: the loop visits [n - count_off] indices (the model has
        [seq (v_first v) (n - 1)]);
      - [verify_own], [key_own]: the loop verifies domain i with
        [prm.committee[i]] and stores under key i;
      - [signer_own]: the signer writes the domain of
        [prm.localAccCommitteeIndex]. *)
Global Instance variant_eq_dec : EqDecision variant.
Proof. solve_decision. Defined.

Definition check_src (v src : variant) (count_off : nat) (verify_own key_own signer_own : bool) : option val :=
  if bool_decide (src = v) && (count_off =? 1)%nat && verify_own && key_own && signer_own then None
  else Some (VList [VInt (Z.of_nat (v_first src)); VBool (v_sorted src); VInt (Z.of_nat count_off);
                    VBool verify_own; VBool key_own; VBool signer_own]).
