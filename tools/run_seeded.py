#!/usr/bin/env python3
"""Run the registered checks against the seeded breaking changes in /verif/seeded/<id>/.

Each change is applied to a scratch worktree of /repo (never to /repo itself while
helpers are at work), the property's quick check is run with VERIF_REPO pointing at the
worktree, and the verdict is recorded in /verif/seeded/RESULTS.md.

  tools/run_seeded.py [id ...] [--tier quick|thorough] [--inplace]
  --inplace: apply to /repo itself (git apply / git checkout -- .) as the task brief describes
"""
import json, os, subprocess, sys, time
V = os.path.dirname(os.path.dirname(os.path.abspath(__file__)))
SEEDED = os.path.join(V, "seeded")


def sh(cmd, **kw):
    return subprocess.run(cmd, shell=True, text=True, stdout=subprocess.PIPE, stderr=subprocess.STDOUT, **kw)


def one(sid, tier, inplace):
    rows = []
    d = os.path.join(SEEDED, sid)
    meta = json.load(open(os.path.join(d, "meta.json")))
    props = meta.get("check_with") or [meta["property"]]
    if inplace:
        tree = "/repo"
    else:
        tree = "/tmp/seedwt_%s" % sid
        sh("git -C /repo worktree remove --force %s" % tree)
        r = sh("git -C /repo worktree add -q --detach %s HEAD" % tree)
        if r.returncode:
            return [(sid, ",".join(props), "ERROR worktree", r.stdout.strip()[:200])]
    r = sh("git -C %s apply --binary %s" % (tree, os.path.join(d, "patch.diff")))
    if r.returncode:
        rows.append((sid, ",".join(props), "PATCH-DOES-NOT-APPLY", r.stdout.strip()[:200])); print(rows[-1])
    else:
        for prop in props:
            t0 = time.time()
            env = dict(os.environ, VERIF_REPO=tree)
            c = sh("./check %s %s" % (prop, tier), cwd=V, env=env)
            vio = [l for l in c.stdout.splitlines() if l.startswith("VIOLATION")]
            fi = [l.strip() for l in c.stdout.splitlines() if "failing input" in l or "no longer checks" in l]
            verdict = "CAUGHT" if (c.returncode == 1 and vio) else ("MISSED" if c.returncode == 0 else "ERROR rc=%d" % c.returncode)
            if vio and "no-failing-input-found" in vio[0]:
                verdict += " (no-failing-input-found)"
            rows.append((sid, prop, verdict, "; ".join(fi[:2])[:300] + " [%.0fs]" % (time.time() - t0)))
            print(rows[-1], flush=True)
    if inplace:
        sh("git -C /repo checkout -- .")
    else:
        sh("git -C /repo worktree remove --force %s" % tree)
        sh("rm -rf %s/.work/*-alt-tmp_seedwt_%s %s/.work/*-alt-tmp_seedwt_%s.lock" % (V, sid, V, sid))
    return rows


def main():
    args = [a for a in sys.argv[1:] if not a.startswith("--")]
    jobs = [int(a.split("=")[1]) for a in sys.argv[1:] if a.startswith("--jobs=")]
    if jobs and "--inplace" not in sys.argv:
        from concurrent.futures import ThreadPoolExecutor
        tier = "thorough" if "--thorough" in sys.argv else "quick"
        ids = args or sorted(d for d in os.listdir(SEEDED) if os.path.isdir(os.path.join(SEEDED, d)))
        with ThreadPoolExecutor(jobs[0]) as ex:
            rows = [r for rs in ex.map(lambda s: one(s, tier, False), ids) for r in rs]
        with open(os.path.join(SEEDED, "RESULTS.md"), "a") as f:
            f.write("\n## run %s tier=%s\n\n| seeded change | check | verdict | detail |\n|---|---|---|---|\n" % (time.strftime("%Y-%m-%d %H:%M"), tier))
            for r in rows:
                f.write("| %s | %s | %s | %s |\n" % tuple(x.replace("|", "/") for x in r))
        return 0
    tier = "thorough" if "--thorough" in sys.argv else "quick"
    inplace = "--inplace" in sys.argv
    ids = args or sorted(d for d in os.listdir(SEEDED) if os.path.isdir(os.path.join(SEEDED, d)))
    rows = []
    for sid in ids:
        d = os.path.join(SEEDED, sid)
        meta = json.load(open(os.path.join(d, "meta.json")))
        props = meta.get("check_with") or [meta["property"]]
        if inplace:
            tree = "/repo"
            if sh("git -C /repo status --porcelain --untracked-files=no").stdout.strip():
                print("refusing: /repo has local modifications"); return 2
        else:
            tree = "/tmp/seedwt_%s" % sid
            sh("git -C /repo worktree remove --force %s" % tree)
            r = sh("git -C /repo worktree add -q --detach %s HEAD" % tree)
            if r.returncode:
                print(r.stdout); return 2
        r = sh("git -C %s apply --binary %s" % (tree, os.path.join(d, "patch.diff")))
        if r.returncode:
            rows.append((sid, ",".join(props), "PATCH-DOES-NOT-APPLY", r.stdout.strip()[:200])); print(rows[-1])
        else:
            for prop in props:
                t0 = time.time()
                env = dict(os.environ, VERIF_REPO=tree)
                c = sh("./check %s %s" % (prop, tier), cwd=V, env=env)
                vio = [l for l in c.stdout.splitlines() if l.startswith("VIOLATION")]
                fi = [l.strip() for l in c.stdout.splitlines() if "failing input" in l or "no longer checks" in l]
                verdict = "CAUGHT" if (c.returncode == 1 and vio) else ("MISSED" if c.returncode == 0 else "ERROR rc=%d" % c.returncode)
                if vio and "no-failing-input-found" in vio[0]:
                    verdict += " (no-failing-input-found)"
                rows.append((sid, prop, verdict, "; ".join(fi[:2])[:300] + " [%.0fs]" % (time.time() - t0)))
                print(rows[-1], flush=True)
        if inplace:
            sh("git -C /repo checkout -- .")
        else:
            sh("git -C /repo worktree remove --force %s" % tree)
    with open(os.path.join(SEEDED, "RESULTS.md"), "a") as f:
        f.write("\n## run %s tier=%s\n\n| seeded change | check | verdict | detail |\n|---|---|---|---|\n" % (time.strftime("%Y-%m-%d %H:%M"), tier))
        for r in rows:
            f.write("| %s | %s | %s | %s |\n" % tuple(x.replace("|", "/") for x in r))
    return 0


if __name__ == "__main__":
    sys.exit(main())
