#!/bin/bash
# Run every quick check under several seeds; print only failures and a summary.
cd "$(dirname "$0")/.."
for s in "$@"; do
  for i in $(seq -w 1 20); do
    p=C$i
    out=$(VERIF_SEED=$s ./check $p quick 2>&1); rc=$?
    if [ $rc -ne 0 ]; then echo "SEED $s $p rc=$rc"; echo "$out" | tail -4 | cut -c1-400; fi
  done
  echo "seed $s done"
done
