#!/bin/bash
# False-alarm sweep on the unchanged tree: every given property under several seeds (quick tier).
#   tools/seed_sweep.sh "1 2 3" C01 C02 ...     (default: all properties, seeds 1..3)
cd "$(dirname "$0")/.."
seeds=${1:-"1 2 3"}; shift
props=${@:-$(seq -f "C%02g" 1 20)}
for s in $seeds; do for p in $props; do echo "$s $p"; done; done | xargs -P 4 -L 1 bash -c 'out=$(VERIF_SEED=$0 ./check $1 quick 2>&1); rc=$?; echo "seed=$0 $1 rc=$rc | $(echo "$out" | grep -v "^KNOWN-FINDING" | tail -1 | cut -c1-160)"'
