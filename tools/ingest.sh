#!/bin/bash
# tools/ingest.sh <id e.g. C03-c> <srcdir> "<needs>" <prop> [check_with...]
id=$1; src=$2; needs=$3; prop=$4; shift 4
cd "$(dirname "$0")/.."
mkdir -p seeded/$id; cp $src/patch.diff $src/*_test.go $src/notes.md seeded/$id/ 2>/dev/null
python3 tools/verify_seed.py $id $prop "$needs" ${@:-$prop}
