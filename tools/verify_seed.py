#!/usr/bin/env python3
"""Confirm a seeded change: applies alone to a clean worktree of /repo HEAD, the repository's suite
passes with it, the demonstration fails with it and passes without it.  Writes the outcome into
/verif/seeded/<id>/meta.json (creating it from arguments when absent).

  tools/verify_seed.py <id> <property> "<what it needs to manifest>" [check_with ...]
"""
import json, os, subprocess, sys, shutil
V = os.path.dirname(os.path.dirname(os.path.abspath(__file__)))
ENV = dict(os.environ, GOFLAGS="-mod=mod", GOPROXY="off", GOSUMDB="off", GOTOOLCHAIN="local")


def sh(cmd, cwd=None):
    p = subprocess.run(cmd, shell=True, cwd=cwd, env=ENV, text=True, stdout=subprocess.PIPE, stderr=subprocess.STDOUT)
    return p.returncode, p.stdout


def meta_demo_dir(d):
    """package of the demonstration test decides where it is copied"""
    for f in os.listdir(d):
        if f.endswith("_test.go"):
            for line in open(os.path.join(d, f)):
                if line.startswith("package "):
                    pk = line.split()[1]
                    if pk.endswith("_test") and os.path.isdir(os.path.join("/repo/contracts", pk[:-5])):
                        return "contracts/" + pk[:-5]   # e.g. package neofsid_test -> contracts/neofsid
                    return {"tests": "tests", "deploy": "deploy"}.get(pk, "tests")
    return "tests"


def main():
    sid, prop, needs = sys.argv[1], sys.argv[2], sys.argv[3]
    check_with = sys.argv[4:] or [prop]
    d = os.path.join(V, "seeded", sid)
    wt = "/tmp/verifyseed_%s" % sid
    sh("git -C /repo worktree remove --force %s" % wt)
    rc, out = sh("git -C /repo worktree add -q --detach %s HEAD" % wt)
    assert rc == 0, out
    res = {}
    try:
        demo = [f for f in os.listdir(d) if f.endswith("_test.go")]
        demo_dir = meta_demo_dir(d)
        rc, out = sh("git apply --binary %s" % os.path.join(d, "patch.diff"), cwd=wt)
        res["patch_applies"] = rc == 0
        rc, out = sh("go build ./... && go test -vet=off -count=1 ./... 2>&1 | grep -v 'no test files' | grep -v '^ok' | head -20", cwd=wt)
        res["suite_passes_with_change"] = (out.strip() == "")
        res["suite_output_if_not"] = out.strip()[:500]
        for f in demo:
            shutil.copy(os.path.join(d, f), os.path.join(wt, demo_dir, f))
        rc, out = sh("go test -vet=off -count=1 -run 'TestDemo' ./%s/ 2>&1 | grep -v logger.go | tail -15" % demo_dir, cwd=wt)
        res["demo_fails_with_change"] = ("FAIL" in out)
        res["demo_output_with_change"] = "\n".join(l[:200] for l in out.splitlines() if "Error" in l or "expected" in l or "actual" in l or "FAIL" in l)[:800]
        sh("git checkout -- . ", cwd=wt)
        rc, out = sh("go test -vet=off -count=1 -run 'TestDemo' ./%s/ 2>&1 | grep -v logger.go | tail -5" % demo_dir, cwd=wt)
        res["demo_passes_without_change"] = ("ok" in out and "FAIL" not in out)
    finally:
        sh("git -C /repo worktree remove --force %s" % wt)
    mp = os.path.join(d, "meta.json")
    meta = json.load(open(mp)) if os.path.exists(mp) else {}
    rc, head = sh("git -C /repo rev-parse --short HEAD")
    meta.update({"id": sid, "property": prop, "check_with": check_with, "needs_to_manifest": needs,
                 "base_commit": head.strip(), "confirmed": res,
                 "ran": ["git apply --binary patch.diff (clean worktree of /repo HEAD)", "go build ./... && go test -vet=off -count=1 ./...",
                         "cp zz_demo_test.go <pkg dir>/ && go test -run TestDemo ./<pkg dir>/ (with and without the patch)"]})
    json.dump(meta, open(mp, "w"), indent=1)
    ok = res.get("patch_applies") and res.get("suite_passes_with_change") and res.get("demo_fails_with_change") and res.get("demo_passes_without_change")
    print(sid, "CONFIRMED" if ok else "NOT CONFIRMED", json.dumps({k: v for k, v in res.items() if isinstance(v, bool)}))
    return 0 if ok else 1


if __name__ == "__main__":
    sys.exit(main())
