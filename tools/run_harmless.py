#!/usr/bin/env python3
"""False-alarm test: apply each behaviour-preserving patch of /verif/harmless/<k>/patch.diff to a scratch
worktree and run the checks of the properties it could touch; every check must stay OK.
  tools/run_harmless.py [--jobs=N] [k ...]
"""
import os, subprocess, sys, time
V = os.path.dirname(os.path.dirname(os.path.abspath(__file__)))
REL = {
    "1": ["C01", "C02", "C09", "C05", "C03", "C15"],
    "2": ["C06", "C07", "C08", "C03", "C20", "C15"],
    "3": ["C04", "C05", "C03", "C14", "C15"],
    "4": ["C14", "C03", "C15"],
    "5": ["C10", "C11", "C12", "C18", "C03", "C04", "C15"],
    "6": ["C18", "C12", "C10", "C15"],
    "7": ["C17", "C19", "C03", "C16", "C01", "C06", "C15"],
    "8": ["C20", "C03", "C15"],
    "9": ["C19", "C03", "C16", "C15"],
    "10": ["C01", "C02", "C03", "C05", "C06", "C09", "C16", "C17", "C19", "C20", "C04", "C14", "C15"],
    "11": ["C16", "C15", "C03", "C01", "C06", "C10"],
    "12": ["C13"],
    "13": ["C01", "C02", "C09", "C05", "C03", "C15"],
    "14": ["C06", "C07", "C08", "C03", "C15"],
    "15": ["C06", "C20", "C03", "C09", "C15"],
    "16": ["C04", "C05", "C20", "C03", "C15"],
    "17": ["C10", "C11", "C12", "C03", "C15"],
    "18": ["C12", "C10", "C11", "C18", "C15"],
    "19": ["C19", "C17", "C20", "C03", "C15"],
    "20": ["C19", "C20", "C03", "C16", "C15"],
    "21": ["C17", "C16", "C03", "C02", "C06", "C19", "C15"],
    "22": ["C15", "C16", "C03"],
    "23": ["C13"],
    "24": ["C13"],
    "25": ["C01", "C02", "C09", "C05", "C03", "C15"],
    "26": ["C06", "C07", "C08", "C03", "C15"],
    "27": ["C06", "C20", "C03", "C09", "C15"],
    "28": ["C04", "C05", "C20", "C14", "C03", "C15"],
    "29": ["C10", "C11", "C12", "C03", "C15"],
    "30": ["C12", "C10", "C18", "C15"],
    "31": ["C19", "C17", "C20", "C03", "C15"],
    "32": ["C19", "C20", "C03", "C16", "C15"],
    "33": ["C17", "C16", "C03", "C02", "C06", "C19", "C20", "C15"],
    "34": ["C15", "C16", "C03", "C19", "C20"],
    "35": ["C13"],
    "36": ["C13"],
}


def sh(cmd, **kw):
    return subprocess.run(cmd, shell=True, text=True, stdout=subprocess.PIPE, stderr=subprocess.STDOUT, **kw)


ONLY = [x for x in os.environ.get("ONLY", "").split(",") if x]


def one(k):
    rows = []
    if True:
        patch = os.path.join(V, "harmless", k, "patch.diff")
        inplace = False   # scratch trees get their own harness binary, linked against that tree's deploy/
        tree = "/tmp/harmlesswt_%s" % k
        sh("git -C /repo worktree remove --force %s" % tree)
        sh("git -C /repo worktree add -q --detach %s HEAD" % tree)
        r = sh("git -C %s apply --binary %s" % (tree, patch))
        if r.returncode:
            rows.append((k, "-", "PATCH-DOES-NOT-APPLY", r.stdout[:200])); print(rows[-1])
            sh("git -C /repo worktree remove --force %s" % tree)
            return rows
        for prop in (ONLY or REL[k]):
            t0 = time.time()
            c = sh("./check %s quick" % prop, cwd=V, env=dict(os.environ, VERIF_REPO=tree))
            last = [l for l in c.stdout.splitlines() if l.startswith(("OK", "VIOLATION"))]
            det = [l.strip()[:120] for l in c.stdout.splitlines() if "failing input" in l or "no longer checks" in l or l.startswith("NOTE")]
            rows.append((k, prop, "ok" if c.returncode == 0 else "ALARM", (last[-1] if last else "")[:120] + " " + "; ".join(det[:2])[:300] + " [%.0fs]" % (time.time() - t0)))
            print(rows[-1], flush=True)
        sh("git -C /repo worktree remove --force %s" % tree)
        sh("rm -rf %s/.work/*-alt-tmp_harmlesswt_%s %s/.work/*-alt-tmp_harmlesswt_%s.lock" % (V, k, V, k))
    return rows


def main():
    from concurrent.futures import ThreadPoolExecutor
    ks = [a for a in sys.argv[1:] if not a.startswith("--")] or [k for k in sorted(REL, key=int) if os.path.exists(os.path.join(V, "harmless", k, "patch.diff"))]
    jobs = [int(a.split("=")[1]) for a in sys.argv[1:] if a.startswith("--jobs=")] or [1]
    with ThreadPoolExecutor(jobs[0]) as ex:
        rows = [r for rs in ex.map(one, ks) for r in rs]
    with open(os.path.join(V, "harmless", "RESULTS.md"), "a") as f:
        f.write("\n## run %s\n\n| patch | check | verdict | detail |\n|---|---|---|---|\n" % time.strftime("%Y-%m-%d %H:%M"))
        for r in rows:
            f.write("| %s | %s | %s | %s |\n" % tuple(str(x).replace("|", "/") for x in r))


if __name__ == "__main__":
    sys.exit(main())
