#!/usr/bin/env python3
"""Regenerate the generated tables of DESIGN.md (between <!-- BEGIN GENERATED x --> / <!-- END GENERATED x -->)."""
import json, os, re, glob, sys
V = os.path.dirname(os.path.dirname(os.path.abspath(__file__)))
sys.path.insert(0, V)
from props_table import PROPS


def props_table():
    rows = ["| id | theorems (Props/Cxx.v) | `_refuted` / `_partial` statements | known findings | last evidence: evaluations / histories / distinct non-trivial | quick wall |",
            "|---|---|---|---|---|---|"]
    kf = {}
    for l in open(os.path.join(V, "KNOWN_FINDINGS.txt")):
        m = re.match(r"finding:\s+property=(C\d+)\s+id=(\S+)", l)
        if m:
            kf.setdefault(m.group(1), []).append(m.group(2))
    for pid in sorted(PROPS):
        src = open(os.path.join(V, "coq", "Props", pid + ".v")).read()
        src = re.sub(r"\(\*.*?\*\)", "", src, flags=re.S)
        thms = re.findall(r"^\s*(?:Theorem|Corollary)\s+(\w+)", src, flags=re.M)
        lem = re.findall(r"^\s*(?:Theorem|Corollary|Lemma|Example)\s+(\w+)", src, flags=re.M)
        rp = [t for t in lem if re.search(r"refuted|partial", t)]
        ev = {}
        p = os.path.join(V, "evidence", pid + ".json")
        if os.path.exists(p):
            ev = json.load(open(p))
        c = ev.get("coverage", {})
        rows.append("| %s | %d | %s | %s | %s / %s / %s (%s) | %ss |" % (
            pid, len(thms), ", ".join("`%s`" % x for x in rp) or "—", ", ".join("`%s`" % x for x in kf.get(pid, [])) or "—",
            c.get("evaluations", "?"), c.get("traces_validated_against_impl", "?"), c.get("distinct_nontrivial", "?"), ev.get("tier", "?"),
            ev.get("wall_s", "?")))
    return "\n".join(rows)


def seeded_table():
    rows = ["| seeded change | breaks | needs to manifest | checks run | verdict |", "|---|---|---|---|---|"]
    # last verdict per (id, check) from RESULTS.md
    last = {}
    rp = os.path.join(V, "seeded", "RESULTS.md")
    if os.path.exists(rp):
        for l in open(rp):
            m = re.match(r"\| (\S+) \| (\S+) \| ([^|]+) \|", l)
            if m and m.group(1) != "seeded":
                last[(m.group(1), m.group(2))] = m.group(3).strip()
    hist = {}
    if os.path.exists(rp):
        for l in open(rp):
            m = re.match(r"\| (\S+) \| (\S+) \| ([^|]+) \|", l)
            if m and m.group(1) != "seeded":
                hist.setdefault((m.group(1), m.group(2)), []).append(m.group(3).strip())
    for d in sorted(glob.glob(os.path.join(V, "seeded", "*", "meta.json"))):
        m = json.load(open(d))
        sid = m["id"]
        vs = []
        for ck in m.get("check_with", [m["property"]]):
            h = hist.get((sid, ck), [])
            v = h[-1] if h else "not run"
            if h and any(x.startswith("MISSED") for x in h[:-1]) and v.startswith("CAUGHT"):
                v += " (missed before the harness was strengthened)"
            vs.append("%s: %s" % (ck, v))
        rows.append("| %s | %s | %s | %s | %s |" % (sid, m["property"], m.get("needs_to_manifest", "").replace("|", "/"),
                                                 ", ".join(m.get("check_with", [])), "; ".join(vs)))
    return "\n".join(rows)


def theorem_index():
    out = []
    for pid in sorted(PROPS):
        src = open(os.path.join(V, "coq", "Props", pid + ".v")).read()
        src = re.sub(r"\(\*.*?\*\)", "", src, flags=re.S)
        thms = re.findall(r"^\s*(?:Theorem|Corollary)\s+(\w+)", src, flags=re.M)
        out.append("* **%s** (%d): %s" % (pid, len(thms), ", ".join("`%s`" % t for t in thms)))
    return "\n".join(out)


def main():
    p = os.path.join(V, "DESIGN.md")
    s = open(p).read()
    for name, fn in (("props", props_table), ("seeded", seeded_table), ("theorems", theorem_index)):
        b, e = "<!-- BEGIN GENERATED %s -->" % name, "<!-- END GENERATED %s -->" % name
        if b in s:
            i, j = s.index(b) + len(b), s.index(e)
            s = s[:i] + "\n" + fn() + "\n" + s[j:]
    open(p, "w").write(s)


if __name__ == "__main__":
    main()
