#!/bin/bash
# Run every registered check (default tier quick) on the unchanged tree and summarise.
tier=${1:-quick}
cd "$(dirname "$0")/.."
for i in $(seq -w 1 20); do
  p=C$i
  s=$(date +%s)
  out=$(./check $p $tier 2>&1)
  rc=$?
  echo "$p rc=$rc $(( $(date +%s) - s ))s $(echo "$out" | grep -c '^KNOWN-FINDING') known | $(echo "$out" | tail -1 | cut -c1-150)"
done
