#!/usr/bin/env python3
"""Re-base seeded patches that no longer apply to /repo HEAD (after a fix commit changed artifacts):
apply the source part only, regenerate artifacts exactly as `make` would, re-diff."""
import os, subprocess, sys, glob
V = os.path.dirname(os.path.dirname(os.path.abspath(__file__)))


def sh(cmd, cwd=None):
    return subprocess.run(cmd, shell=True, cwd=cwd, text=True, stdout=subprocess.PIPE, stderr=subprocess.STDOUT)


def main():
    dirs = sys.argv[1:] or sorted(glob.glob(os.path.join(V, "seeded", "C*-?"))) + sorted(glob.glob(os.path.join(V, "harmless", "*")))
    for d in dirs:
        patch = os.path.join(d, "patch.diff")
        if not os.path.exists(patch):
            continue
        if sh("git -C /repo apply --check --binary %s" % patch).returncode == 0:
            continue
        wt = "/tmp/rebase_wt"
        sh("git -C /repo worktree remove --force %s" % wt)
        sh("git -C /repo worktree add -q --detach %s HEAD" % wt)
        r = sh("git apply --binary --exclude='*.nef' --exclude='*manifest.json' --exclude='rpc/*/rpcbinding.go' %s" % patch, cwd=wt)
        if r.returncode:
            r = sh("git apply --3way --binary --exclude='*.nef' --exclude='*manifest.json' --exclude='rpc/*/rpcbinding.go' %s" % patch, cwd=wt)
        if r.returncode:
            print(os.path.basename(d), "SOURCE PART DOES NOT APPLY:", r.stdout[:300]); sh("git -C /repo worktree remove --force %s" % wt); continue
        names = os.environ.get("REGEN_ONLY", "")
        # C15-style seeds deliberately leave artifacts stale: keep exactly the set of artifact files the original patch touched
        touched = [l.split(" b/")[1].strip() for l in open(patch, errors="replace") if l.startswith("diff --git") and (".nef" in l or "manifest.json" in l or "rpcbinding.go" in l)]
        r = sh("/tmp/regen-artifacts -repo %s -inplace %s" % (wt, names), cwd=wt)
        if r.returncode:
            print(os.path.basename(d), "REGEN FAILED", r.stdout[-300:])
        # revert regenerated artifacts the original patch did not touch (stale-artifact seeds)
        changed = [l[3:] for l in sh("git status --porcelain", cwd=wt).stdout.splitlines()]
        for f in changed:
            if (f.endswith(".nef") or f.endswith("manifest.json") or f.endswith("rpcbinding.go")) and f not in touched:
                sh("git checkout -- %s" % f, cwd=wt)
        sh("git add -A", cwd=wt)
        out = subprocess.run("git diff --cached --binary", shell=True, cwd=wt, stdout=subprocess.PIPE).stdout
        open(patch, "wb").write(out)
        ok = sh("git -C /repo apply --check --binary %s" % patch).returncode == 0
        print(os.path.basename(d), "rebased" if ok else "REBASE FAILED")
        sh("git -C /repo worktree remove --force %s" % wt)


if __name__ == "__main__":
    main()
