package harness

import (
	"bytes"
	"fmt"
	"math/big"
	"math/rand"
	"os"
	"path/filepath"
	"strings"
	"testing"

	"github.com/nspcc-dev/neo-go/pkg/neotest"
	"github.com/nspcc-dev/neo-go/pkg/util"
	"github.com/nspcc-dev/neo-go/pkg/vm/stackitem"
	"github.com/stretchr/testify/require"
)

// ---------------------------------------------------------------------------
// C17, part 2: vote-collected actions whose effect calls out of the contract.
//
// The only vote-gated action of the NeoFS contract that transfers control to
// foreign code is `cheque`: native GAS calls onNEP17Payment of a payee that is
// a contract, in the middle of the deciding invocation, and that code may call
// the NeoFS contract again (the witness of the Alphabet key that signed the
// carrier transaction holds in the nested call: Global scope).  The Coq model
// (Model/NeoFSVote.v) has the premise "the payee is a plain account", so
// these histories are not sent to Coq; they are judged here against a Go
// reference of the SPEC (Spec/Tally.v: the tally of a decision is erased at
// the moment the decision is taken, i.e. before its action runs), extended
// with the payee's program:
//
//   - each decision is executed exactly once, by the vote that completes the
//     tally; one notification, one payment;
//   - a nested vote of the same key for the same id is an ordinary vote cast
//     after the decision: it opens a new ballot (count 1) and never executes
//     the decision a second time (unless 1 = threshold, a new complete tally);
//   - a nested vote for another id is an ordinary vote for that id;
//   - a payee (or nested call) that faults makes the whole invocation fault:
//     nothing is counted, nothing is paid, no notification.
//
// Observed after every transaction: HALT/FAULT, the sequence of NeoFS
// notifications, GAS of the contract / plain payees / contract payee, the
// number of payments the contract payee has seen, config values, and the
// stored live ballots (compared with the reference tally).

type reCall struct {
	Kind   string `json:"kind"` // cheque setConfig
	ID     []byte `json:"id"`
	User   int    `json:"user,omitempty"` // cheque: 0,1 plain payees, 2 the contract payee
	Amount int64  `json:"amount,omitempty"`
	Key    []byte `json:"key,omitempty"`
	Val    []byte `json:"val,omitempty"`
}

type reOp struct {
	Kind   string   `json:"kind"` // cheque setConfig arm disarm
	Call   reCall   `json:"call"`
	Signer int      `json:"signer"` // index into signers; -1 = nobody besides the payer
	Calls  []reCall `json:"calls,omitempty"` // arm: the payee's program
	Fault  bool     `json:"fault,omitempty"` // arm: panic at the end of the program
	Skip   int      `json:"skip,omitempty"`
}

func (c reCall) String() string {
	if c.Kind == "cheque" {
		return fmt.Sprintf("cheque(id=%q user=%s amount=%d)", c.ID, []string{"P0", "P1", "H"}[c.User], c.Amount)
	}
	return fmt.Sprintf("setConfig(id=%q key=%q val=%q)", c.ID, c.Key, c.Val)
}

func reOpsCompact(ops []reOp) []string {
	var out []string
	for _, op := range ops {
		var x string
		switch op.Kind {
		case "arm":
			var cs []string
			for _, c := range op.Calls {
				cs = append(cs, c.String())
			}
			x = fmt.Sprintf("arm H: on payment call [%s] fault=%v", strings.Join(cs, "; "), op.Fault)
		case "disarm":
			x = "disarm H"
		default:
			x = fmt.Sprintf("%s signer=%d", op.Call, op.Signer)
		}
		if op.Skip > 0 {
			x += fmt.Sprintf(" after %d empty blocks", op.Skip)
		}
		out = append(out, x)
	}
	return out
}

// reference of the spec --------------------------------------------------

type reProgram struct {
	calls []reCall
	fault bool
}

type reSpec struct {
	n        int
	tally    map[string]*voteTally
	bal      [4]*big.Int // contract, P0, P1, H
	cfg      map[string][]byte
	armed    *reProgram
	payments int
}

func (s *reSpec) clone() *reSpec {
	c := &reSpec{n: s.n, tally: map[string]*voteTally{}, cfg: map[string][]byte{}, payments: s.payments}
	for k, v := range s.tally {
		c.tally[k] = &voteTally{voters: append([]string{}, v.voters...), last: v.last}
	}
	for i := range s.bal {
		c.bal[i] = new(big.Int).Set(s.bal[i])
	}
	for k, v := range s.cfg {
		c.cfg[k] = v
	}
	if s.armed != nil {
		c.armed = &reProgram{calls: s.armed.calls, fault: s.armed.fault}
	}
	return c
}

// invoke runs one (top-level or nested) vote-gated invocation by the Alphabet
// key inv (nil: not an Alphabet key) at height h; false = fault.
func (s *reSpec) invoke(inv []byte, c reCall, h int64, notifs *[]string, class *[]string) bool {
	if inv == nil {
		*class = append(*class, "stranger")
		return false
	}
	t := s.tally[string(c.ID)]
	if t != nil && h-t.last > 20 {
		t = nil
	}
	if t == nil {
		t = &voteTally{}
	}
	isNew := true
	for _, v := range t.voters {
		if v == string(inv) {
			isNew = false
		}
	}
	if isNew {
		t.voters = append(t.voters, string(inv))
		t.last = h
	}
	s.tally[string(c.ID)] = t
	if len(t.voters) < s.n*2/3+1 {
		if isNew {
			*class = append(*class, "vote")
		} else {
			*class = append(*class, "repeat")
		}
		return true
	}
	// decided: the tally is erased, then the action runs
	delete(s.tally, string(c.ID))
	*class = append(*class, "fire")
	switch c.Kind {
	case "cheque":
		if c.Amount < 0 || s.bal[0].Cmp(big.NewInt(c.Amount)) < 0 {
			*class = append(*class, "no-funds")
			return false
		}
		s.bal[0].Sub(s.bal[0], big.NewInt(c.Amount))
		s.bal[1+c.User].Add(s.bal[1+c.User], big.NewInt(c.Amount))
		if c.User == 2 {
			s.payments++
			if p := s.armed; p != nil {
				s.armed = nil
				for _, nc := range p.calls {
					*class = append(*class, "nested")
					if !s.invoke(inv, nc, h, notifs, class) {
						return false
					}
				}
				if p.fault {
					*class = append(*class, "payee-faults")
					return false
				}
			}
		}
		*notifs = append(*notifs, fmt.Sprintf("Cheque|%x|%d|%d", c.ID, c.User, c.Amount))
	case "setConfig":
		s.cfg[string(c.Key)] = c.Val
		*notifs = append(*notifs, fmt.Sprintf("SetConfig|%x|%s|%x", c.ID, c.Key, c.Val))
	}
	return true
}

// running --------------------------------------------------------------

type reEnv struct {
	*voteEnv
	h     util.Uint160 // the contract payee
	users [3][]byte
}

func (re *reEnv) callArgs(c reCall) (string, []any) {
	if c.Kind == "cheque" {
		return "cheque", []any{c.ID, re.users[c.User], c.Amount, []byte{7}}
	}
	return "setConfig", []any{c.ID, c.Key, c.Val}
}

func runVoteReentry(t testing.TB, vc *voteCoq, st *Stats, distinct map[string]bool, name string, n int, fund int64, ops []reOp) (fired int, coqCase string) {
	alpha := make([]int, n)
	for i := range alpha {
		alpha[i] = i
	}
	ve := newVoteEnv(t, alpha, fund)
	hc := ve.CompileHelper("votepayee")
	ve.E.DeployContract(t, hc, nil)
	re := &reEnv{voteEnv: ve, h: hc.Hash}
	re.users = [3][]byte{ve.payees[0], ve.payees[1], hc.Hash.BytesBE()}
	spec := &reSpec{n: n, tally: map[string]*voteTally{}, cfg: map[string][]byte{}}
	spec.bal = [4]*big.Int{big.NewInt(fund), big.NewInt(0), big.NewInt(0), big.NewInt(0)}
	var steps []string // the Coq trace
	rcallCoq := func(c reCall) string {
		if c.Kind == "cheque" {
			return fmt.Sprintf("RCheque %s %s %s %s", vc.pool.Ref(c.ID), vc.pool.Ref(re.users[c.User]), ZI(c.Amount), vc.pool.Ref([]byte{7}))
		}
		return fmt.Sprintf("RSetConfig %s %s %s", vc.pool.Ref(c.ID), vc.pool.Ref(c.Key), vc.pool.Ref(c.Val))
	}
	hRef := vc.pool.Ref(hc.Hash.BytesBE())
	diverged := false
	violate := func(k int, what string) {
		if diverged {
			return // one report per history: what follows a divergence is a consequence
		}
		diverged = true
		st.AddViolation(fmt.Sprintf("re-entrant payee, history %q, op %d (%s): %s", name, k, reOpsCompact(ops[k : k+1])[0], what),
			map[string]any{"reentry": true, "name": name, "n": n, "fund": fund, "ops": ops})
	}
	for k, op := range ops {
		if diverged {
			break
		}
		if op.Skip > 0 {
			ve.E.GenerateNewBlocks(t, op.Skip)
		}
		st.Evaluations++
		st.OpHistogram["reentry:"+op.Kind]++
		switch op.Kind {
		case "arm":
			var calls []any
			for _, c := range op.Calls {
				m, a := re.callArgs(c)
				calls = append(calls, []any{m, a})
			}
			if calls == nil {
				calls = []any{}
			}
			r := ve.Invoke([]neotest.Signer{ve.payer}, re.h, "arm", calls, op.Fault)
			require.True(t, r.Halt, r.Fault)
			spec.armed = &reProgram{calls: op.Calls, fault: op.Fault}
			var cs []string
			for _, c := range op.Calls {
				cs = append(cs, rcallCoq(c))
			}
			steps = append(steps, fmt.Sprintf("(mkNCtx [] 0 self, %s, VNull)",
				vc.ops.ref(fmt.Sprintf("RArm %s (mkProg %s %s)", hRef, ListLit(paren(cs)), BoolLit(op.Fault)))))
			continue
		case "disarm":
			r := ve.Invoke([]neotest.Signer{ve.payer}, re.h, "disarm")
			require.True(t, r.Halt, r.Fault)
			spec.armed = nil
			steps = append(steps, fmt.Sprintf("(mkNCtx [] 0 self, %s, VNull)", vc.ops.ref("RDisarm "+hRef)))
			continue
		}
		sg := []neotest.Signer{ve.payer}
		var inv []byte
		if op.Signer >= 0 {
			sg = append(sg, ve.signers[op.Signer])
			if op.Signer < n {
				inv = ve.pubs[op.Signer]
			}
		}
		m, a := re.callArgs(op.Call)
		tx := ve.PrepareTx(sg, ve.neofs, m, a...)
		b := ve.E.AddNewBlock(t, tx)
		r := ve.ResultOf(tx, b)
		h := int64(b.Index) - 1

		// reference
		snap := spec.clone()
		var want, class []string
		ok := spec.invoke(inv, op.Call, h, &want, &class)
		if !ok {
			spec, want = snap, nil
		}
		cl := strings.Join(class, ">")
		st.OutcomeHistogram["reentry:"+op.Call.Kind+":"+cl]++
		distinct[fmt.Sprintf("reentry|n=%d|%s|%s", n, op.Call.Kind, cl)] = true
		for _, c := range class {
			if c == "fire" {
				fired++
			}
		}

		// observed
		var got, gotCoq []string
		for _, ev := range r.Events {
			if ev.ScriptHash != ve.neofs {
				continue
			}
			items := ev.Item.Value().([]stackitem.Item)
			switch ev.Name {
			case "Cheque":
				gotCoq = append(gotCoq, vc.notif.ref(VList([]string{VIntI(0), VBytesRef(vc.pool.Ref(ItemBytes(items[0]))), VBytesRef(vc.pool.Ref(ItemBytes(items[1]))), VInt(ItemInt(items[2])), VBytesRef(vc.pool.Ref(ItemBytes(items[3])))})))
				u := -1
				for i := range re.users {
					if bytes.Equal(re.users[i], ItemBytes(items[1])) {
						u = i
					}
				}
				got = append(got, fmt.Sprintf("Cheque|%x|%d|%s", ItemBytes(items[0]), u, ItemInt(items[2])))
			case "SetConfig":
				gotCoq = append(gotCoq, vc.notif.ref(VList([]string{VIntI(2), VBytesRef(vc.pool.Ref(ItemBytes(items[0]))), VBytesRef(vc.pool.Ref(ItemBytes(items[1]))), VBytesRef(vc.pool.Ref(ItemBytes(items[2])))})))
				got = append(got, fmt.Sprintf("SetConfig|%x|%s|%x", ItemBytes(items[0]), ItemBytes(items[1]), ItemBytes(items[2])))
			default:
				gotCoq = append(gotCoq, VList([]string{VIntI(99)}))
				got = append(got, ev.Name)
			}
		}
		if r.Halt != ok {
			violate(k, fmt.Sprintf("halted=%v (%s) but the property gives halted=%v [%s]", r.Halt, r.Fault, ok, cl))
		}
		if strings.Join(got, ",") != strings.Join(want, ",") {
			violate(k, fmt.Sprintf("notifications %v, the property gives %v (each decision exactly once, by the vote completing its tally) [%s]", got, want, cl))
		}
		accts := []util.Uint160{ve.neofs}
		for _, u := range re.users {
			x, _ := util.Uint160DecodeBytesBE(u)
			accts = append(accts, x)
		}
		var gasCoq, cfgCoq, boxCoq []string
		for i, acc := range accts {
			g := ve.E.Chain.GetUtilityTokenBalance(acc)
			gasCoq = append(gasCoq, VInt(g))
			if g.Cmp(spec.bal[i]) != 0 {
				violate(k, fmt.Sprintf("GAS of %s = %s, decided cheques give %s [%s]", []string{"the contract", "P0", "P1", "contract payee H"}[i], g, spec.bal[i], cl))
			}
		}
		it, err := ve.Read(re.h, "payments")
		require.NoError(t, err)
		payCoq := VInt(ItemInt(it))
		if p := ItemInt(it).Int64(); p != int64(spec.payments) {
			violate(k, fmt.Sprintf("contract payee was paid %d times, decided cheques to it: %d [%s]", p, spec.payments, cl))
		}
		for _, key := range [][]byte{[]byte("k1"), []byte("k2")} {
			it, err := ve.Read(ve.neofs, "config", key)
			require.NoError(t, err)
			_, isNull := it.(stackitem.Null)
			if isNull {
				cfgCoq = append(cfgCoq, VNull)
			} else {
				cfgCoq = append(cfgCoq, VBytesRef(vc.pool.Ref(ItemBytes(it))))
			}
			wantV, has := spec.cfg[string(key)]
			if has == isNull || has && !bytes.Equal(wantV, ItemBytes(it)) {
				violate(k, fmt.Sprintf("config(%s) = %x differs from the decided setConfig invocations [%s]", key, ItemBytes(it), cl))
			}
		}
		// stored live ballots = reference tally
		stored := map[string][]string{}
		for _, bl := range ve.readBallots() {
			boxCoq = append(boxCoq, VList([]string{VBytesRef(vc.pool.Ref(bl.id)), vc.vbytesList(bl.voters), VIntI(bl.height)}))
			if h-bl.height > 20 {
				continue
			}
			if _, dup := stored[string(bl.id)]; dup {
				violate(k, fmt.Sprintf("two live stored ballots for id %q", bl.id))
			}
			var vs []string
			for _, v := range bl.voters {
				vs = append(vs, string(v))
			}
			stored[string(bl.id)] = vs
		}
		for id, tl := range spec.tally {
			if h-tl.last > 20 {
				continue
			}
			if strings.Join(stored[id], "|") != strings.Join(tl.voters, "|") {
				violate(k, fmt.Sprintf("stored live ballot of %q has %d voters, the tally has %d [%s]", id, len(stored[id]), len(tl.voters), cl))
			}
			delete(stored, id)
		}
		for id, vs := range stored {
			violate(k, fmt.Sprintf("stored live ballot of %q (%d voters) although its tally is empty (decided or never opened) [%s]", id, len(vs), cl))
		}
		// the same observation for the Coq model (Model/VoteReentry.v)
		ws := [][]byte{ve.payer.(neotest.SingleSigner).Account().PublicKey().Bytes(), ve.payer.ScriptHash().BytesBE()}
		if op.Signer >= 0 {
			ws = append(ws, ve.pubs[op.Signer], ve.signers[op.Signer].ScriptHash().BytesBE())
		}
		status := VNull
		if !r.Halt {
			status = VFault
		}
		obs := VList([]string{status, "VList " + ListLit(gotCoq), VList(cfgCoq), VList(gasCoq), VList([]string{payCoq}), VList(boxCoq)})
		steps = append(steps, fmt.Sprintf("(mkNCtx %s %s self, %s, %s)", vc.wit.ref(vc.refs(ws)), ZI(h),
			vc.ops.ref("RInvoke ("+rcallCoq(op.Call)+")"), obs))
	}
	st.Histories++
	al := make([][]byte, n)
	for i := range al {
		al[i] = ve.pubs[i]
	}
	selfRef := vc.pool.Ref(ve.neofs.BytesBE())
	coqCase = fmt.Sprintf("(let self := %s in (%s, %s, %s, %s, %s,\n [%s]))", selfRef, selfRef, vc.refs(al), ZI(fund), hRef,
		vc.refs([][]byte{ve.neofs.BytesBE(), re.users[0], re.users[1], re.users[2]}), strings.Join(steps, ";\n  "))
	return fired, coqCase
}

// writeReentryCases writes cases_C17_re*.v: the model of Model/VoteReentry.v
// (contract payees with programs, fuel 8) against the recorded observations.
func writeReentryCases(path string, vc *voteCoq, cases []string) error {
	var valid []string
	for i := 0; i < voteNKeys+voteNCands; i++ {
		valid = append(valid, vc.pool.Ref(voteKey(i).PublicKey().Bytes()))
	}
	valid = append(valid, vc.pool.Ref(voteKey(100).PublicKey().Bytes()))
	var sb strings.Builder
	sb.WriteString("From Verif Require Import Base.Prelude Model.Vote Model.NeoFSVote Model.VoteReentry.\nLocal Open Scope Z_scope.\n")
	sb.WriteString(vc.pool.Defs())
	for _, in := range []*voteIntern{vc.wit, vc.ops, vc.notif} {
		for _, d := range in.defs {
			sb.WriteString(d)
		}
	}
	fmt.Fprintf(&sb, "Definition valid_keys : list bytes := %s.\n", ListLit(valid))
	sb.WriteString(`Definition valid_pub (b : bytes) : bool := existsb (bytes_eqb b) valid_keys.
Definition check_case (c : bytes * list bytes * Z * bytes * list bytes * list (nctx * rop * val)) :=
  let '(self, alpha, fund, hc, accts, tr) := c in
  run_case (rstep_obs valid_pub 8 [[107;49]%N; [107;50]%N] accts [hc])
           (rinit alpha ∅ (list_to_map [(self, fund)]) [hc]) 0 tr.
`)
	sb.WriteString("Definition cases := [\n" + strings.Join(cases, ";\n") + "\n].\n")
	sb.WriteString("Definition M := Eval vm_compute in failures_from 0 (map check_case cases).\nPrint M.\n")
	return os.WriteFile(path, []byte(sb.String()), 0o644)
}

// histories ---------------------------------------------------------------

type reHistory struct {
	name string
	n    int
	fund int64
	ops  []reOp
}

// reSystematic: for each committee size and each payee program, the votes on
// X (payee = the contract H) by members 0..thr-1, the program armed either at
// the start or right before the completing vote, then a second complete round
// on the same id (H is disarmed by then).  "pre" votes prepare the tally of Y
// so that a nested vote for Y is (or is not) the completing one.
func reSystematic() []reHistory {
	X, Y := []byte("re-X"), []byte("re-Y")
	chq := func(id []byte, user int, am int64) reCall { return reCall{Kind: "cheque", ID: id, User: user, Amount: am} }
	cfg := func(id []byte, k, v string) reCall { return reCall{Kind: "setConfig", ID: id, Key: []byte(k), Val: []byte(v)} }
	type prog struct {
		name  string
		calls []reCall
		fault bool
		preY  int // -1: members 0..thr-2 vote Y first, so that the nested vote for Y is the completing one
	}
	progs := []prog{
		{"(a) payee does nothing", nil, false, 0},
		{"(b) payee votes for the same cheque again", []reCall{chq(X, 2, 3)}, false, 0},
		{"(b2) payee votes for the same cheque twice", []reCall{chq(X, 2, 3), chq(X, 2, 3)}, false, 0},
		{"(b3) payee votes for the same id with another payee and amount", []reCall{chq(X, 0, 5)}, false, 0},
		{"(b4) payee votes for the same id through setConfig", []reCall{cfg(X, "k1", "nested")}, false, 0},
		{"(c) payee votes for another id (first vote)", []reCall{chq(Y, 2, 2)}, false, 0},
		{"(c2) payee casts the completing vote of another id", []reCall{chq(Y, 1, 2)}, false, -1},
		{"(c3) payee completes another id paying itself, then the same id again", []reCall{chq(Y, 2, 2), chq(X, 2, 3)}, false, -1},
		{"(c4) payee completes a setConfig decision", []reCall{cfg(Y, "k2", "deep")}, false, -1},
		{"(d) payee faults", nil, true, 0},
		{"(d2) payee votes for the same cheque, then faults", []reCall{chq(X, 2, 3)}, true, 0},
		{"(d3) nested vote faults (completing vote of a cheque without funds)", []reCall{chq(Y, 0, 1000000)}, false, -1},
	}
	var out []reHistory
	for _, n := range []int{1, 2, 4, 7} {
		thr := n*2/3 + 1
		for _, p := range progs {
			for late := 0; late < 2; late++ {
				var ops []reOp
				arm := reOp{Kind: "arm", Calls: p.calls, Fault: p.fault}
				if p.preY != 0 {
					// members 0..thr-2 vote Y; the member that completes X (index
					// thr-1) is not among them, so its nested vote completes Y
					for j := 0; j < thr-1; j++ {
						c := p.calls[0]
						c.ID = Y
						ops = append(ops, reOp{Kind: c.Kind, Call: c, Signer: j})
					}
				}
				if late == 0 {
					ops = append(ops, arm)
				}
				for v := 0; v < thr; v++ {
					if late == 1 && v == thr-1 {
						ops = append(ops, arm)
					}
					ops = append(ops, reOp{Kind: "cheque", Call: chq(X, 2, 3), Signer: v})
					if v == 0 {
						ops = append(ops, reOp{Kind: "cheque", Call: chq(X, 2, 3), Signer: 8}) // stranger
						ops = append(ops, reOp{Kind: "cheque", Call: chq(X, 2, 3), Signer: 0}) // repeat
					}
				}
				// again: if the completing vote faulted (d*) it is repeated with the payee disarmed
				ops = append(ops, reOp{Kind: "disarm"})
				for v := thr - 1; v >= 0; v-- {
					ops = append(ops, reOp{Kind: "cheque", Call: chq(X, 2, 3), Signer: v})
				}
				for v := 0; v < thr; v++ {
					ops = append(ops, reOp{Kind: "cheque", Call: chq(X, 2, 3), Signer: (v + 1) % n})
				}
				out = append(out, reHistory{fmt.Sprintf("n=%d %s, armed %s", n, p.name, []string{"at the start", "before the completing vote"}[late]), n, 60, ops})
			}
		}
	}
	return out
}

func reRandom(r *rand.Rand, n int, length int) reHistory {
	ids := [][]byte{[]byte("re-1"), []byte("re-2")}
	call := func() reCall {
		id := ids[r.Intn(2)]
		if r.Intn(3) == 0 {
			return reCall{Kind: "setConfig", ID: id, Key: []byte{'k', byte('1' + r.Intn(2))}, Val: []byte{byte('a' + r.Intn(3))}}
		}
		am := int64(r.Intn(4))
		if r.Intn(15) == 0 {
			am = 500
		}
		u := 2
		if r.Intn(4) == 0 {
			u = r.Intn(2)
		}
		return reCall{Kind: "cheque", ID: id, User: u, Amount: am}
	}
	var ops []reOp
	for len(ops) < length {
		switch w := r.Intn(10); {
		case w < 2:
			k := r.Intn(3)
			var cs []reCall
			for i := 0; i < k; i++ {
				cs = append(cs, call())
			}
			ops = append(ops, reOp{Kind: "arm", Calls: cs, Fault: r.Intn(6) == 0})
		default:
			c := call()
			sgn := r.Intn(n)
			switch r.Intn(12) {
			case 0:
				sgn = 8
			case 1:
				sgn = -1
			}
			op := reOp{Kind: c.Kind, Call: c, Signer: sgn}
			switch r.Intn(14) {
			case 0:
				op.Skip = 19
			case 1:
				op.Skip = 20
			}
			ops = append(ops, op)
		}
	}
	return reHistory{fmt.Sprintf("random n=%d", n), n, int64(30 + r.Intn(40)), ops}
}

// voteReentryAll runs the re-entrancy part of TestC17.
func voteReentryAll(t *testing.T, st *Stats, distinct map[string]bool, thorough bool) {
	fired, hist := 0, 0
	newRC := func() *voteCoq {
		vc := newVoteCoq()
		vc.ops.typ = "rop"
		return vc
	}
	vc := newRC()
	var cases []string
	nfile := 0
	flush := func() {
		if len(cases) == 0 {
			return
		}
		require.NoError(t, writeReentryCases(filepath.Join(OutDir(), fmt.Sprintf("cases_C17_re%d.v", nfile)), vc, cases))
		nfile++
		vc, cases = newRC(), nil
	}
	run := func(h reHistory) {
		f, cc := runVoteReentry(t, vc, st, distinct, h.name, h.n, h.fund, h.ops)
		cases = append(cases, cc)
		if len(cases) >= 150 {
			flush()
		}
		fired += f
		hist++
		if strings.HasPrefix(h.name, "n=4 (b) ") && strings.Contains(h.name, "before") { // one literal sample
			st.Samples = append(st.Samples, map[string]any{"name": "re-entrant payee: " + h.name, "n": h.n, "fund": h.fund, "ops": reOpsCompact(h.ops), "decisions_executed": f})
		}
	}
	for _, h := range reSystematic() {
		if !thorough && h.n == 7 {
			continue
		}
		run(h)
	}
	nh, ln := 24, 30
	if thorough {
		nh, ln = 400, 40
	}
	r := Rng(1717)
	for i := 0; i < nh; i++ {
		run(reRandom(r, 1+i%5, ln))
	}
	flush()
	st.Extra["reentry"] = fmt.Sprintf("%d histories with a contract payee whose onNEP17Payment does nothing / votes again for the same id (same or other method, same or other arguments) / votes for another id (first or completing vote) / faults, armed at the start or right before the completing vote, n = 1, 2, 4 (thorough: 7), plus %d random ones; compared in Coq with Model/VoteReentry.v (payee programs, fuel 8; cases_C17_re*.v) and, as a second opinion, judged in Go against a reference of the spec; decisions executed: %d", hist-nh, nh, fired)
}
