package harness

import (
	"bytes"
	"crypto/sha256"
	"fmt"
	"math/big"
	"math/rand"
	"os"
	"path/filepath"
	"sort"
	"strings"
	"testing"
	"time"

	"github.com/nspcc-dev/neo-go/pkg/core/native/nativenames"
	"github.com/nspcc-dev/neo-go/pkg/core/transaction"
	"github.com/nspcc-dev/neo-go/pkg/crypto/keys"
	"github.com/nspcc-dev/neo-go/pkg/neotest"
	"github.com/nspcc-dev/neo-go/pkg/util"
	"github.com/nspcc-dev/neo-go/pkg/vm/stackitem"
	"github.com/nspcc-dev/neo-go/pkg/wallet"
	"github.com/stretchr/testify/require"
)

// ---------------------------------------------------------------------------
// C17: vote-collected actions of the main-chain NeoFS contract in
// notary-disabled mode.  Model: coq/Model/Vote.v + coq/Model/NeoFSVote.v.
//
// Conventions of this harness (they are the premises of the model):
//   - every transaction is sent (fees paid) by a separate "payer" account that
//     is never an Alphabet key, a candidate or a payee, so that the GAS
//     balances the property observes move only by what the contract does;
//   - all signers sign with Global scope (neotest default);
//   - cheque payees are plain 20-byte addresses without a contract;
//   - keys are derived from fixed seeds, so a run is reproducible bit by bit.

const (
	voteNKeys  = 9 // key pool K0..K8: Alphabet members, ex-members, strangers
	voteNCands = 2 // candidate accounts C0, C1 (signer indices voteNKeys, voteNKeys+1)
	voteFee    = 3
	voteCandGAS = 2000
)

var voteIgnoreMarker = []byte{0x57, 0x0b}

type voteEnv struct {
	*Env
	neofs    util.Uint160
	gasHash  util.Uint160
	payer    neotest.Signer
	signers  []neotest.Signer // K0..K8, C0, C1
	pubs     [][]byte         // public keys of signers
	junkKey  []byte           // 33 bytes that are not a curve point
	payees   [][]byte
	cfgKeys  [][]byte
	accts    [][]byte // observed GAS accounts: contract, payees, candidate accounts
	alpha0   []int    // initial Alphabet list (indices into signers)
	fund0    int64
	checkedH bool
}

type voteOp struct {
	Kind    string `json:"kind"` // cheque alphabetUpdate setConfig candRemove candAdd fund
	ID      []byte `json:"id,omitempty"`
	User    []byte `json:"user,omitempty"`
	Amount  int64  `json:"amount,omitempty"`
	Lock    []byte `json:"lock,omitempty"`
	Keys    []int  `json:"keys,omitempty"` // alphabetUpdate: indices into signers, -1 = junk key, -2 = 32-byte key
	Key     []byte `json:"key,omitempty"`
	Val     []byte `json:"val,omitempty"`
	Cand    int    `json:"cand,omitempty"`    // candAdd/candRemove: signer index whose key is the argument
	Signers []int  `json:"signers"`           // indices into signers (besides the payer)
	Skip    int    `json:"skip,omitempty"`    // empty blocks generated before the block of this op
	Same    bool   `json:"same,omitempty"`    // same block as the previous op
	Box     bool   `json:"box,omitempty"`     // observe the stored ballots too
}

type voteNotif struct {
	kind    int // 0 Cheque 1 AlphabetUpdate 2 SetConfig 99 other
	id      []byte
	a, b    []byte
	amount  *big.Int
	keys    [][]byte
	name    string
}

type voteBallot struct {
	id     []byte
	voters [][]byte
	height int64
}

type voteObs struct {
	halt    bool
	fault   string
	height  int64 // value of ledger.CurrentIndex() during the invocation
	notifs  []voteNotif
	full    bool
	cfg     [][]byte // nil entry = Null
	cfgNull []bool
	alpha   [][]byte
	cands   [][]byte
	gas     []*big.Int
	ballots []voteBallot
	box     bool
}

func voteKey(i int) *wallet.Account {
	h := sha256.Sum256([]byte(fmt.Sprintf("verif-c17-key-%d", i)))
	pk, err := keys.NewPrivateKeyFromBytes(h[:])
	if err != nil {
		panic(err)
	}
	return wallet.NewAccountFromPrivateKey(pk)
}

func newVoteEnv(t testing.TB, alpha []int, fund int64) *voteEnv {
	v := NewEnv(t)
	e := v.E
	ve := &voteEnv{Env: v, alpha0: alpha, fund0: fund}
	var err error
	ve.gasHash, err = e.Chain.GetNativeContractScriptHash(nativenames.Gas)
	require.NoError(t, err)

	ve.payer = neotest.NewSingleSigner(voteKey(100))
	for i := 0; i < voteNKeys+voteNCands; i++ {
		acc := voteKey(i)
		ve.signers = append(ve.signers, neotest.NewSingleSigner(acc))
		ve.pubs = append(ve.pubs, acc.PublicKey().Bytes())
	}
	ve.junkKey = append([]byte{0x05}, bytes.Repeat([]byte{0x11}, 32)...)
	_, err = keys.NewPublicKeyFromBytes(ve.junkKey, nil)
	if err == nil {
		t.Fatalf("junk key decodes")
	}

	// compiled from the working tree (neotest caches the compilation per path)
	c := v.Compile("neofs")

	// funding: payer, candidates (exact amounts, they never pay fees)
	gasInv := func(to util.Uint160, amount int64, data any) *transaction.Transaction {
		tx := e.NewUnsignedTx(t, ve.gasHash, "transfer", e.Validator.ScriptHash(), to, amount, data)
		return e.SignTx(t, tx, 1_0000_0000, e.Validator)
	}
	var txs []*transaction.Transaction
	txs = append(txs, gasInv(ve.payer.ScriptHash(), 5000000_0000_0000, nil))
	for i := 0; i < voteNCands; i++ {
		txs = append(txs, gasInv(ve.signers[voteNKeys+i].ScriptHash(), voteCandGAS, nil))
	}
	e.AddNewBlock(t, txs...)
	for _, tx := range txs {
		e.CheckHalt(t, tx.Hash())
	}

	pubs := make([]any, len(alpha))
	for i, k := range alpha {
		pubs[i] = ve.pubs[k]
	}
	proc := bytes.Repeat([]byte{0x77}, 20)
	cfg := []any{[]byte("InnerRingCandidateFee"), voteFeeBytes()}
	e.DeployContract(t, c, []any{true, proc, pubs, cfg})
	ve.neofs = c.Hash
	if fund > 0 {
		tx := gasInv(ve.neofs, fund, voteIgnoreMarker)
		e.AddNewBlock(t, tx)
		e.CheckHalt(t, tx.Hash())
	}

	ve.payees = [][]byte{append(bytes.Repeat([]byte{0xA1}, 19), 1), append(bytes.Repeat([]byte{0xA2}, 19), 2)}
	ve.cfgKeys = [][]byte{[]byte("InnerRingCandidateFee"), []byte("k1"), []byte("k2")}
	ve.accts = [][]byte{ve.neofs.BytesBE(), ve.payees[0], ve.payees[1]}
	for i := 0; i < voteNCands; i++ {
		ve.accts = append(ve.accts, ve.signers[voteNKeys+i].ScriptHash().BytesBE())
	}
	return ve
}

func voteFeeBytes() []byte {
	// minimal little-endian two's complement of voteFee
	b := big.NewInt(voteFee).Bytes()
	for i, j := 0, len(b)-1; i < j; i, j = i+1, j-1 {
		b[i], b[j] = b[j], b[i]
	}
	if b[len(b)-1]&0x80 != 0 {
		b = append(b, 0)
	}
	return b
}

func (ve *voteEnv) keyArg(i int) []byte {
	switch {
	case i == -1:
		return ve.junkKey
	case i == -2:
		return ve.pubs[0][:32]
	default:
		return ve.pubs[i]
	}
}

func (ve *voteEnv) prepare(op voteOp) *transaction.Transaction {
	sg := []neotest.Signer{ve.payer}
	for _, i := range op.Signers {
		sg = append(sg, ve.signers[i])
	}
	switch op.Kind {
	case "cheque":
		return ve.PrepareTx(sg, ve.neofs, "cheque", op.ID, op.User, op.Amount, op.Lock)
	case "alphabetUpdate":
		ks := make([]any, len(op.Keys))
		for i, k := range op.Keys {
			ks[i] = ve.keyArg(k)
		}
		return ve.PrepareTx(sg, ve.neofs, "alphabetUpdate", op.ID, ks)
	case "setConfig":
		return ve.PrepareTx(sg, ve.neofs, "setConfig", op.ID, op.Key, op.Val)
	case "candRemove":
		return ve.PrepareTx(sg, ve.neofs, "innerRingCandidateRemove", ve.keyArg(op.Cand))
	case "candAdd":
		return ve.PrepareTx(sg, ve.neofs, "innerRingCandidateAdd", ve.keyArg(op.Cand))
	case "fund":
		tx := ve.E.NewUnsignedTx(ve.T, ve.gasHash, "transfer", ve.E.Validator.ScriptHash(), ve.neofs, op.Amount, voteIgnoreMarker)
		return ve.E.SignTx(ve.T, tx, 1_0000_0000, ve.E.Validator)
	}
	panic(op.Kind)
}

func structBytesList(it stackitem.Item) [][]byte {
	var out [][]byte
	arr, _ := it.Value().([]stackitem.Item)
	for _, x := range arr {
		f, _ := x.Value().([]stackitem.Item)
		if len(f) > 0 {
			out = append(out, ItemBytes(f[0]))
		}
	}
	return out
}

func (ve *voteEnv) readBallots() []voteBallot {
	raw, ok := ve.StorageDump(ve.neofs)["ballots"]
	if !ok {
		return nil
	}
	it, err := stackitem.Deserialize([]byte(raw))
	require.NoError(ve.T, err)
	var out []voteBallot
	for _, b := range it.Value().([]stackitem.Item) {
		f := b.Value().([]stackitem.Item)
		vb := voteBallot{id: ItemBytes(f[0]), height: ItemInt(f[2]).Int64()}
		for _, v := range f[1].Value().([]stackitem.Item) {
			vb.voters = append(vb.voters, ItemBytes(v))
		}
		out = append(out, vb)
	}
	return out
}

// execGroup runs the ops of one block and returns one observation per op;
// only the last one carries the state observables.
func (ve *voteEnv) execGroup(ops []voteOp) []voteObs {
	if ops[0].Skip > 0 {
		ve.E.GenerateNewBlocks(ve.T, ops[0].Skip)
	}
	txs := make([]*transaction.Transaction, len(ops))
	for i, op := range ops {
		txs[i] = ve.prepare(op)
	}
	b := ve.E.AddNewBlock(ve.T, txs...)
	out := make([]voteObs, len(ops))
	for i, tx := range txs {
		r := ve.ResultOf(tx, b)
		o := voteObs{halt: r.Halt, fault: r.Fault, height: int64(b.Index) - 1}
		for _, ev := range r.Events {
			if ev.ScriptHash != ve.neofs {
				continue // GAS Transfer events
			}
			items := ev.Item.Value().([]stackitem.Item)
			switch ev.Name {
			case "Cheque":
				o.notifs = append(o.notifs, voteNotif{kind: 0, id: ItemBytes(items[0]), a: ItemBytes(items[1]), amount: ItemInt(items[2]), b: ItemBytes(items[3])})
			case "AlphabetUpdate":
				n := voteNotif{kind: 1, id: ItemBytes(items[0])}
				for _, k := range items[1].Value().([]stackitem.Item) {
					n.keys = append(n.keys, ItemBytes(k))
				}
				o.notifs = append(o.notifs, n)
			case "SetConfig":
				o.notifs = append(o.notifs, voteNotif{kind: 2, id: ItemBytes(items[0]), a: ItemBytes(items[1]), b: ItemBytes(items[2])})
			default:
				o.notifs = append(o.notifs, voteNotif{kind: 99, name: ev.Name})
			}
		}
		out[i] = o
	}
	last := &out[len(ops)-1]
	last.full = true
	for _, k := range ve.cfgKeys {
		it, err := ve.Read(ve.neofs, "config", k)
		require.NoError(ve.T, err)
		_, isNull := it.(stackitem.Null)
		last.cfgNull = append(last.cfgNull, isNull)
		last.cfg = append(last.cfg, ItemBytes(it))
	}
	it, err := ve.Read(ve.neofs, "alphabetList")
	require.NoError(ve.T, err)
	last.alpha = structBytesList(it)
	it, err = ve.Read(ve.neofs, "innerRingCandidates")
	require.NoError(ve.T, err)
	last.cands = structBytesList(it)
	for _, a := range ve.accts {
		h, _ := util.Uint160DecodeBytesBE(a)
		last.gas = append(last.gas, ve.E.Chain.GetUtilityTokenBalance(h))
	}
	if ops[len(ops)-1].Box {
		last.box = true
		last.ballots = ve.readBallots()
	}
	return out
}

// ---------------------------------------------------------------------------
// Coq output (interned sub-terms keep the file small)

type voteIntern struct {
	pfx   string
	names map[string]string
	defs  []string
	typ   string
}

func (in *voteIntern) ref(term string) string {
	if n, ok := in.names[term]; ok {
		return n
	}
	n := fmt.Sprintf("%s%d", in.pfx, len(in.defs))
	in.names[term] = n
	in.defs = append(in.defs, fmt.Sprintf("Definition %s : %s := %s.\n", n, in.typ, term))
	return n
}

type voteCoq struct {
	pool                 *Pool
	wit, ops, sts, notif *voteIntern
	all                  *strings.Builder // definitions in dependency order
}

func newVoteCoq() *voteCoq {
	mk := func(p, t string) *voteIntern { return &voteIntern{pfx: p, typ: t, names: map[string]string{}} }
	return &voteCoq{pool: NewPool("b"), wit: mk("w", "list bytes"), ops: mk("o", "nop"), sts: mk("s", "list val"), notif: mk("n", "val")}
}

func (vc *voteCoq) refs(bs [][]byte) string {
	xs := make([]string, len(bs))
	for i, b := range bs {
		xs[i] = vc.pool.Ref(b)
	}
	return ListLit(xs)
}

func (vc *voteCoq) vbytesList(bs [][]byte) string {
	xs := make([]string, len(bs))
	for i, b := range bs {
		xs[i] = VBytesRef(vc.pool.Ref(b))
	}
	return VList(xs)
}

func (ve *voteEnv) coqStep(vc *voteCoq, op voteOp, o voteObs) string {
	// context
	var ws [][]byte
	addSigner := func(s neotest.Signer, pub []byte) {
		if pub != nil {
			ws = append(ws, pub)
		}
		ws = append(ws, s.ScriptHash().BytesBE())
	}
	if op.Kind == "fund" {
		addSigner(ve.E.Validator, nil)
	} else {
		addSigner(ve.payer, ve.payer.(neotest.SingleSigner).Account().PublicKey().Bytes())
		for _, i := range op.Signers {
			addSigner(ve.signers[i], ve.pubs[i])
		}
	}
	w := vc.wit.ref(vc.refs(ws))
	var term string
	switch op.Kind {
	case "cheque":
		term = fmt.Sprintf("Cheque %s %s %s %s", vc.pool.Ref(op.ID), vc.pool.Ref(op.User), ZI(op.Amount), vc.pool.Ref(op.Lock))
	case "alphabetUpdate":
		ks := make([][]byte, len(op.Keys))
		for i, k := range op.Keys {
			ks[i] = ve.keyArg(k)
		}
		term = fmt.Sprintf("AlphabetUpdate %s %s", vc.pool.Ref(op.ID), vc.refs(ks))
	case "setConfig":
		term = fmt.Sprintf("SetConfig %s %s %s", vc.pool.Ref(op.ID), vc.pool.Ref(op.Key), vc.pool.Ref(op.Val))
	case "candRemove":
		term = fmt.Sprintf("CandidateRemove %s", vc.pool.Ref(ve.keyArg(op.Cand)))
	case "candAdd":
		term = fmt.Sprintf("CandidateAdd %s", vc.pool.Ref(ve.keyArg(op.Cand)))
	case "fund":
		term = fmt.Sprintf("Fund %s", ZI(op.Amount))
	}
	oref := vc.ops.ref(term)
	// observation
	r := VNull
	if !o.halt {
		r = VFault
	}
	var ns []string
	for _, n := range o.notifs {
		var t string
		switch n.kind {
		case 0:
			t = VList([]string{VIntI(0), VBytesRef(vc.pool.Ref(n.id)), VBytesRef(vc.pool.Ref(n.a)), VInt(n.amount), VBytesRef(vc.pool.Ref(n.b))})
		case 1:
			t = VList([]string{VIntI(1), VBytesRef(vc.pool.Ref(n.id)), vc.vbytesList(n.keys)})
		case 2:
			t = VList([]string{VIntI(2), VBytesRef(vc.pool.Ref(n.id)), VBytesRef(vc.pool.Ref(n.a)), VBytesRef(vc.pool.Ref(n.b))})
		default:
			t = VList([]string{VIntI(99)})
		}
		ns = append(ns, vc.notif.ref(t))
	}
	nl := "VList " + ListLit(ns)
	mode := "OPart"
	obs := fmt.Sprintf("VList [%s; %s]", r, nl)
	if o.full {
		mode = "OFull"
		var cfg []string
		for i := range o.cfg {
			if o.cfgNull[i] {
				cfg = append(cfg, VNull)
			} else {
				cfg = append(cfg, VBytesRef(vc.pool.Ref(o.cfg[i])))
			}
		}
		var gs []string
		for _, g := range o.gas {
			gs = append(gs, VInt(g))
		}
		st := vc.sts.ref(ListLit(paren([]string{VList(cfg), vc.vbytesList(o.alpha), vc.vbytesList(o.cands), VList(gs)})))
		obs = fmt.Sprintf("VList (%s :: (%s) :: %s)", r, nl, st)
		if o.box {
			mode = "OBox"
			var bl []string
			for _, b := range o.ballots {
				bl = append(bl, VList([]string{VBytesRef(vc.pool.Ref(b.id)), vc.vbytesList(b.voters), VIntI(b.height)}))
			}
			obs = fmt.Sprintf("VList [%s; %s]", obs, VList(bl))
		}
	}
	return fmt.Sprintf("(%s, (mkNCtx %s %s self, %s), %s)", mode, w, ZI(o.height), oref, obs)
}

// coqCase prints one case: initial state + trace.
func (ve *voteEnv) coqCase(vc *voteCoq, steps []string) string {
	al := make([][]byte, len(ve.alpha0))
	for i, k := range ve.alpha0 {
		al[i] = ve.pubs[k]
	}
	var gs []string
	gs = append(gs, fmt.Sprintf("(%s, %s)", vc.pool.Ref(ve.neofs.BytesBE()), ZI(ve.fund0)))
	for i := 0; i < voteNCands; i++ {
		gs = append(gs, fmt.Sprintf("(%s, %s)", vc.pool.Ref(ve.signers[voteNKeys+i].ScriptHash().BytesBE()), ZI(voteCandGAS)))
	}
	return fmt.Sprintf("(%s, %s, %s, %s,\n [%s])", vc.pool.Ref(ve.neofs.BytesBE()), vc.refs(al), ListLit(gs), vc.refs(ve.accts), strings.Join(steps, ";\n  "))
}

// ---------------------------------------------------------------------------
// Monitor: the property, written against the observed trace only.
//
// tally[id] = distinct keys that voted for id, each a member of the stored
// Alphabet list when it voted, since the ballot was (re)opened, consecutive
// counted votes at most 20 blocks apart.  "The invoker" of a transaction
// witnessed by several stored keys is the first of them in stored order.

type voteTally struct {
	voters []string
	last   int64
}

type voteMon struct {
	ve     *voteEnv
	st     *Stats
	hist   []voteOp
	alpha  [][]byte // stored list as last observed
	tally  map[string]*voteTally
	prev   *voteObs // last full observation
	cands  map[string]bool
	fired  int
	// statistics about the strict reading (voters must be members NOW and the
	// firing vote must be a new one)
	carry int
	// pending ops of the current block (state observables come with the last)
	changed bool
	alphaChangedSinceOpen map[string]bool
	// value of config("InnerRingCandidateFee") as set by the fired decisions
	fee *big.Int
	// distinct non-trivial cases (see Stats.Rule), shared by all histories of a run
	distinct map[string]bool
}

// voteLEInt decodes a NeoVM integer (little-endian two's complement, empty = 0).
func voteLEInt(b []byte) *big.Int {
	if len(b) == 0 {
		return big.NewInt(0)
	}
	be := make([]byte, len(b))
	for i := range b {
		be[len(b)-1-i] = b[i]
	}
	z := new(big.Int).SetBytes(be)
	if b[len(b)-1]&0x80 != 0 {
		z.Sub(z, new(big.Int).Lsh(big.NewInt(1), uint(8*len(b))))
	}
	return z
}

func newVoteMon(ve *voteEnv, st *Stats) *voteMon {
	m := &voteMon{ve: ve, st: st, tally: map[string]*voteTally{}, cands: map[string]bool{}, alphaChangedSinceOpen: map[string]bool{},
		fee: big.NewInt(voteFee), distinct: map[string]bool{}}
	for _, k := range ve.alpha0 {
		m.alpha = append(m.alpha, ve.pubs[k])
	}
	return m
}

func (m *voteMon) violate(what string) {
	m.st.AddViolation(what, map[string]any{"alphabet": m.ve.alpha0, "fund": m.ve.fund0, "ops": m.hist})
}

func (m *voteMon) invoker(op voteOp) []byte {
	for _, a := range m.alpha {
		for _, s := range op.Signers {
			if bytes.Equal(a, m.ve.pubs[s]) {
				return a
			}
		}
	}
	return nil
}

func voteDelID(key []byte) []byte {
	h := sha256.Sum256(append(append([]byte{}, key...), []byte("delete")...))
	return h[:]
}

// expectation for one op given the monitor's tally; returns (mustFault,
// expectFire, mayFault) and updates the tally as if the op is committed;
// undo is done by the caller when the transaction faulted.
func (m *voteMon) step(op voteOp, o voteObs, gasSelf *big.Int) (fired bool) {
	m.hist = append(m.hist, op)
	ve := m.ve
	m.st.OpHistogram[op.Kind]++
	if op.Kind == "fund" {
		gasSelf.Add(gasSelf, big.NewInt(op.Amount))
		return false
	}
	if op.Kind == "candAdd" {
		if o.halt {
			m.cands[string(ve.keyArg(op.Cand))] = true
			gasSelf.Add(gasSelf, m.fee)
			signed := false
			for _, s := range op.Signers {
				signed = signed || s == op.Cand
			}
			if !signed {
				m.violate("innerRingCandidateAdd accepted without the candidate's witness")
			}
		}
		m.st.OutcomeHistogram["candAdd:"+haltStr(o.halt)]++
		return false
	}
	var id []byte
	byCandidate := false
	switch op.Kind {
	case "candRemove":
		id = voteDelID(ve.keyArg(op.Cand))
		for _, s := range op.Signers {
			if s == op.Cand {
				byCandidate = true
			}
		}
	default:
		id = op.ID
	}
	inv := m.invoker(op)
	// junk keys stored in the list make CheckWitness fault for everybody who
	// is not witnessed by an earlier key: the monitor does not judge those
	junkBefore := false
	for _, a := range m.alpha {
		if bytes.Equal(a, ve.junkKey) {
			junkBefore = true
			break
		}
		if inv != nil && bytes.Equal(a, inv) {
			break
		}
	}
	if byCandidate {
		m.st.OutcomeHistogram["candRemove-by-candidate:"+haltStr(o.halt)]++
		if !o.halt {
			m.violate("innerRingCandidateRemove by the candidate itself faulted")
		} else {
			delete(m.cands, string(ve.keyArg(op.Cand)))
		}
		return o.halt
	}
	if inv == nil || junkBefore {
		m.st.OutcomeHistogram["stranger:"+haltStr(o.halt)]++
		if o.halt {
			m.violate(fmt.Sprintf("%s by a non-Alphabet invoker did not fault", op.Kind))
		}
		if len(o.notifs) > 0 {
			m.violate("rejected invocation emitted notifications")
		}
		return false
	}
	// argument guards that precede the vote
	argsBad := false
	if op.Kind == "alphabetUpdate" {
		if len(op.Keys) == 0 {
			argsBad = true
		}
		for _, k := range op.Keys {
			if k == -2 {
				argsBad = true
			}
		}
	}
	if op.Kind == "candRemove" && op.Cand == -2 {
		argsBad = true // CheckWitness of a 32-byte string faults
	}
	if argsBad {
		m.st.OutcomeHistogram["bad-args:"+haltStr(o.halt)]++
		if o.halt {
			m.violate("invocation with malformed arguments did not fault")
		}
		return false
	}
	// tally including this vote
	h := o.height
	t := m.tally[string(id)]
	saved := voteTally{}
	had := t != nil
	if had {
		saved = voteTally{voters: append([]string{}, t.voters...), last: t.last}
	}
	savedChanged := m.alphaChangedSinceOpen[string(id)]
	if t != nil && h-t.last > 20 {
		t = nil
		m.alphaChangedSinceOpen[string(id)] = false
	}
	if t == nil {
		t = &voteTally{}
		m.alphaChangedSinceOpen[string(id)] = false
	}
	isNew := true
	for _, v := range t.voters {
		if v == string(inv) {
			isNew = false
		}
	}
	if isNew {
		t.voters = append(t.voters, string(inv))
		t.last = h
	}
	m.tally[string(id)] = t
	thr := len(m.alpha)*2/3 + 1
	expectFire := len(t.voters) >= thr
	undo := func() {
		if had {
			m.tally[string(id)] = &saved
		} else {
			delete(m.tally, string(id))
		}
		m.alphaChangedSinceOpen[string(id)] = savedChanged
	}
	// may the action itself fault?
	actionFaults := false
	if expectFire {
		switch op.Kind {
		case "cheque":
			actionFaults = op.Amount < 0 || gasSelf.Cmp(big.NewInt(op.Amount)) < 0 || len(op.User) != 20
		case "setConfig":
			actionFaults = len(op.Key) > 58
		}
	}
	tag := op.Kind + ":"
	switch {
	case !o.halt:
		tag += "fault"
	case expectFire:
		tag += "fire"
	case isNew:
		tag += "vote"
	default:
		tag += "repeat"
	}
	m.st.OutcomeHistogram[tag]++
	{
		gap := "open"
		if had {
			switch d := h - saved.last; {
			case d > 20:
				gap = "expired"
			case d == 20:
				gap = "gap20"
			case d == 0:
				gap = "same-height"
			default:
				gap = "gap<20"
			}
		}
		m.distinct[fmt.Sprintf("n=%d|%s|tally=%d|%s", len(m.alpha), tag, len(t.voters), gap)] = true
	}
	if !o.halt {
		if !(expectFire && actionFaults) {
			m.violate(fmt.Sprintf("%s by Alphabet key faulted (%s)", op.Kind, o.fault))
		}
		if len(o.notifs) > 0 {
			m.violate("faulted invocation emitted notifications")
		}
		undo()
		return false
	}
	if expectFire && actionFaults {
		m.violate(fmt.Sprintf("%s executed although its action cannot succeed", op.Kind))
	}
	// observed firing: the notification of this very invocation
	obsFire := false
	switch op.Kind {
	case "cheque":
		obsFire = len(o.notifs) == 1 && o.notifs[0].kind == 0 && bytes.Equal(o.notifs[0].id, op.ID) &&
			bytes.Equal(o.notifs[0].a, op.User) && o.notifs[0].amount.Cmp(big.NewInt(op.Amount)) == 0 && bytes.Equal(o.notifs[0].b, op.Lock)
	case "setConfig":
		obsFire = len(o.notifs) == 1 && o.notifs[0].kind == 2 && bytes.Equal(o.notifs[0].id, op.ID) &&
			bytes.Equal(o.notifs[0].a, op.Key) && bytes.Equal(o.notifs[0].b, op.Val)
	case "alphabetUpdate":
		obsFire = len(o.notifs) == 1 && o.notifs[0].kind == 1 && bytes.Equal(o.notifs[0].id, op.ID) && len(o.notifs[0].keys) == len(op.Keys)
		if obsFire {
			for i, k := range op.Keys {
				obsFire = obsFire && bytes.Equal(o.notifs[0].keys[i], ve.keyArg(k))
			}
		}
	case "candRemove":
		// no notification: judged on the candidate list by the caller
		obsFire = expectFire
		if len(o.notifs) != 0 {
			m.violate("innerRingCandidateRemove emitted a notification")
		}
	}
	if !obsFire && len(o.notifs) > 0 {
		m.violate(fmt.Sprintf("%s: notifications do not match the invocation", op.Kind))
	}
	if obsFire != expectFire {
		m.violate(fmt.Sprintf("%s id=%x: fired=%v but tally (incl. this vote) = %d of threshold %d (n=%d)",
			op.Kind, id, obsFire, len(t.voters), thr, len(m.alpha)))
	}
	if obsFire {
		// strict reading: every counted voter is a member now and this vote is new
		strict := isNew && len(t.voters) == thr
		for _, v := range t.voters {
			in := false
			for _, a := range m.alpha {
				in = in || string(a) == v
			}
			strict = strict && in
		}
		if !strict {
			m.carry++
			if !m.alphaChangedSinceOpen[string(id)] {
				m.violate(fmt.Sprintf("%s id=%x fired with a tally that is not exactly threshold distinct current members, without any Alphabet change since the ballot was opened", op.Kind, id))
			}
		}
		delete(m.tally, string(id))
		delete(m.alphaChangedSinceOpen, string(id))
		m.fired++
		switch op.Kind {
		case "cheque":
			gasSelf.Sub(gasSelf, big.NewInt(op.Amount))
		case "setConfig":
			if string(op.Key) == "InnerRingCandidateFee" {
				m.fee = voteLEInt(op.Val)
			}
		case "alphabetUpdate":
			m.alpha = nil
			for _, k := range op.Keys {
				m.alpha = append(m.alpha, ve.keyArg(k))
			}
			for k := range m.tally {
				m.alphaChangedSinceOpen[k] = true
			}
		case "candRemove":
			delete(m.cands, string(ve.keyArg(op.Cand)))
		}
	}
	return obsFire
}

// voteOpsCompact prints a history literally, one short string per op:
// kind(args) signers=[..] +skip / same-block.
func voteOpsCompact(ops []voteOp) []string {
	var out []string
	for _, op := range ops {
		var a string
		switch op.Kind {
		case "cheque":
			a = fmt.Sprintf("id=%q user=%x amount=%d lock=%x", op.ID, op.User, op.Amount, op.Lock)
		case "alphabetUpdate":
			a = fmt.Sprintf("id=%q keys=%v", op.ID, op.Keys)
		case "setConfig":
			a = fmt.Sprintf("id=%q key=%q val=%q", op.ID, op.Key, op.Val)
		case "candRemove", "candAdd":
			a = fmt.Sprintf("cand=%d", op.Cand)
		case "fund":
			a = fmt.Sprintf("amount=%d", op.Amount)
		}
		x := fmt.Sprintf("%s(%s) signers=%v", op.Kind, a, op.Signers)
		if op.Skip > 0 {
			x += fmt.Sprintf(" after %d empty blocks", op.Skip)
		}
		if op.Same {
			x += " same-block"
		}
		out = append(out, x)
	}
	return out
}

func haltStr(h bool) string {
	if h {
		return "halt"
	}
	return "fault"
}

// checkState compares the full observation with what the monitor expects
// from the firings it has seen (state moves only by fired actions).
type voteExpect struct {
	cfg   map[string][]byte
	gas   map[string]*big.Int
}

func sortedKeys(m map[string]bool) [][]byte {
	var out [][]byte
	for k := range m {
		out = append(out, []byte(k))
	}
	sort.Slice(out, func(i, j int) bool { return bytes.Compare(out[i], out[j]) < 0 })
	return out
}

// ---------------------------------------------------------------------------
// Running one history

type voteRun struct {
	steps []string
	nops  int
}

func staticGroups(ops []voteOp) func(m *voteMon) []voteOp {
	i := 0
	return func(*voteMon) []voteOp {
		if i >= len(ops) {
			return nil
		}
		j := i + 1
		for j < len(ops) && ops[j].Same {
			j++
		}
		g := ops[i:j]
		i = j
		return g
	}
}

func runVoteHistory(t testing.TB, vc *voteCoq, st *Stats, distinct map[string]bool, alpha []int, fund int64, next func(m *voteMon) []voteOp) (string, *voteMon) {
	ve := newVoteEnv(t, alpha, fund)
	m := newVoteMon(ve, st)
	m.distinct = distinct
	gasSelf := big.NewInt(fund)
	exp := voteExpect{cfg: map[string][]byte{"InnerRingCandidateFee": voteFeeBytes()}, gas: map[string]*big.Int{}}
	for _, p := range ve.payees {
		exp.gas[string(p)] = big.NewInt(0)
	}
	var steps []string
	for {
		group := next(m)
		if len(group) == 0 {
			break
		}
		obs := ve.execGroup(group)
		for k, op := range group {
			o := obs[k]
			steps = append(steps, ve.coqStep(vc, op, o))
			st.Evaluations++
			fired := m.step(op, o, gasSelf)
			if fired {
				switch op.Kind {
				case "cheque":
					if exp.gas[string(op.User)] != nil {
						exp.gas[string(op.User)].Add(exp.gas[string(op.User)], big.NewInt(op.Amount))
					}
				case "setConfig":
					exp.cfg[string(op.Key)] = op.Val
				}
			}
		}
		last := obs[len(obs)-1]
		// empirical check of the height convention on the stored ballots
		if last.box {
			for _, b := range last.ballots {
				if b.height > last.height {
					m.violate("stored ballot height above ledger.CurrentIndex()")
				}
			}
		}
		// state moves only by fired actions (property: "take effect exactly once")
		for ci, k := range ve.cfgKeys {
			want, ok := exp.cfg[string(k)]
			if ok == last.cfgNull[ci] || ok && !bytes.Equal(want, last.cfg[ci]) {
				m.violate(fmt.Sprintf("config(%s) = %x differs from the value set by the fired decisions", k, last.cfg[ci]))
			}
		}
		if len(last.alpha) != len(m.alpha) {
			m.violate("alphabetList differs from the list set by the fired decisions")
		} else {
			for x := range last.alpha {
				if !bytes.Equal(last.alpha[x], m.alpha[x]) {
					m.violate("alphabetList differs from the list set by the fired decisions")
				}
			}
		}
		wantC := sortedKeys(m.cands)
		if len(wantC) != len(last.cands) {
			m.violate(fmt.Sprintf("innerRingCandidates has %d entries, fired decisions give %d", len(last.cands), len(wantC)))
		} else {
			for x := range wantC {
				if !bytes.Equal(wantC[x], last.cands[x]) {
					m.violate("innerRingCandidates differs from the set given by the fired decisions")
				}
			}
		}
		if last.gas[0].Cmp(gasSelf) != 0 {
			m.violate(fmt.Sprintf("GAS of the contract = %s, fired decisions give %s", last.gas[0], gasSelf))
		}
		for pi, p := range ve.payees {
			if last.gas[1+pi].Cmp(exp.gas[string(p)]) != 0 {
				m.violate(fmt.Sprintf("GAS of payee %d = %s, fired cheques give %s", pi, last.gas[1+pi], exp.gas[string(p)]))
			}
		}
	}
	st.Histories++
	return ve.coqCase(vc, steps), m
}

// ---------------------------------------------------------------------------
// Corpus

func voteCorpus() []struct {
	name  string
	alpha []int
	fund  int64
	ops   []voteOp
} {
	type H = struct {
		name  string
		alpha []int
		fund  int64
		ops   []voteOp
	}
	P0 := append(bytes.Repeat([]byte{0xA1}, 19), 1)
	P1 := append(bytes.Repeat([]byte{0xA2}, 19), 2)
	X, Y, U := []byte("id-X"), []byte("id-Y"), []byte("id-U")
	ch := func(id []byte, user []byte, am int64, sg ...int) voteOp {
		return voteOp{Kind: "cheque", ID: id, User: user, Amount: am, Lock: []byte{9}, Signers: sg, Box: true}
	}
	sc := func(id []byte, k, v string, sg ...int) voteOp {
		return voteOp{Kind: "setConfig", ID: id, Key: []byte(k), Val: []byte(v), Signers: sg, Box: true}
	}
	au := func(id []byte, ks []int, sg ...int) voteOp {
		return voteOp{Kind: "alphabetUpdate", ID: id, Keys: ks, Signers: sg, Box: true}
	}
	cr := func(c int, sg ...int) voteOp { return voteOp{Kind: "candRemove", Cand: c, Signers: sg, Box: true} }
	ca := func(c int, sg ...int) voteOp { return voteOp{Kind: "candAdd", Cand: c, Signers: sg, Box: true} }
	skip := func(op voteOp, n int) voteOp { op.Skip = n; return op }
	same := func(op voteOp) voteOp { op.Same = true; return op }
	C0, C1 := voteNKeys, voteNKeys+1
	a4 := []int{0, 1, 2, 3}
	return []H{
		{"F5: stranger + 2 members must not fire setConfig (n=4)", a4, 0, []voteOp{
			sc(X, "k1", "v", 7), sc(X, "k1", "v", 0), sc(X, "k1", "v", 1), sc(X, "k1", "v"), sc(X, "k1", "v", 2), sc(X, "k1", "v", 3)}},
		{"gaps of exactly 20 blocks add up (n=4)", a4, 100, []voteOp{
			ch(X, P0, 10, 0), skip(ch(X, P0, 10, 1), 19), skip(ch(X, P0, 10, 2), 19)}},
		{"gap of 21 blocks resets (n=4)", a4, 100, []voteOp{
			ch(X, P0, 10, 0), skip(ch(X, P0, 10, 1), 19), skip(ch(X, P0, 10, 2), 20), ch(X, P0, 10, 3), ch(X, P0, 10, 0)}},
		{"gap of 19 (n=4), competing id in between", a4, 100, []voteOp{
			ch(X, P0, 10, 0), ch(Y, P1, 5, 0), skip(ch(X, P0, 10, 1), 17), ch(Y, P1, 5, 2), ch(X, P0, 10, 2), ch(Y, P1, 5, 3)}},
		{"a repeated vote does not refresh the ballot", a4, 100, []voteOp{
			ch(X, P0, 10, 0), skip(ch(X, P0, 10, 0), 14), skip(ch(X, P0, 10, 1), 5), ch(X, P0, 10, 2), ch(X, P0, 10, 3)}},
		{"repeated vote keeps expired foreign ballots in storage (no persisted pruning)", a4, 100, []voteOp{
			ch(Y, P1, 5, 1), skip(ch(X, P0, 10, 0), 20), ch(X, P0, 10, 0), ch(Y, P1, 5, 2), ch(Y, P1, 5, 3), ch(Y, P1, 5, 0)}},
		{"W1: votes of ex-members survive alphabetUpdate (n=4 -> other 4)", a4, 100, []voteOp{
			ch(X, P0, 10, 0), ch(X, P0, 10, 1),
			au(U, []int{4, 5, 6, 7}, 0), au(U, []int{4, 5, 6, 7}, 1), au(U, []int{4, 5, 6, 7}, 2),
			ch(X, P0, 10, 0), ch(X, P0, 10, 4)}},
		{"W2: shrinking the list lets a repeated vote fire (n=4 -> 1)", a4, 100, []voteOp{
			ch(X, P0, 10, 0), ch(X, P0, 10, 1),
			au(U, []int{0}, 0), au(U, []int{0}, 1), au(U, []int{0}, 2),
			ch(X, P0, 10, 0)}},
		{"one id shared by two methods and by different arguments", a4, 100, []voteOp{
			sc(X, "k1", "v1", 0), ch(X, P0, 10, 1), ch(X, P1, 7, 2),
			sc(Y, "k1", "a", 0), sc(Y, "k2", "b", 1), sc(Y, "k2", "c", 3)}},
		{"insufficient funds: the completing vote faults and is not counted", a4, 5, []voteOp{
			ch(X, P0, 10, 0), ch(X, P0, 10, 1), ch(X, P0, 10, 2), ch(X, P0, 10, 3),
			{Kind: "fund", Amount: 20, Box: true}, ch(X, P0, 10, 2), ch(X, P0, 10, 3), ch(X, P0, 10, 0)}},
		{"negative and zero amounts", []int{0}, 100, []voteOp{
			ch(X, P0, -1, 0), ch(X, P0, 0, 0), ch(Y, []byte{1, 2, 3}, 1, 0), ch(Y, P0, 100, 0), ch(Y, P0, 1, 0)}},
		{"transaction witnessed by several members counts once, first stored key", a4, 100, []voteOp{
			ch(X, P0, 10, 2, 1), ch(X, P0, 10, 1), ch(X, P0, 10, 2), ch(X, P0, 10, 3, 0, 1, 2)}},
		{"several votes in one block", a4, 100, []voteOp{
			ch(X, P0, 10, 0), same(ch(X, P0, 10, 1)), same(ch(X, P0, 10, 2)), same(ch(X, P0, 10, 3)),
			ch(X, P0, 10, 0), same(ch(X, P0, 10, 7)), same(ch(X, P0, 10, 1))}},
		{"junk key in the new list bricks everybody behind it", []int{0, 1}, 100, []voteOp{
			au(U, []int{0, -1, 1}, 0), au(U, []int{0, -1, 1}, 1),
			ch(X, P0, 1, 0), ch(X, P0, 1, 1), ch(X, P0, 1, 7), au(Y, []int{-2}, 0), au(Y, []int{}, 0)}},
		{"candidates: add, remove by votes, remove by itself, remove absent", a4, 0, []voteOp{
			ca(C0, C0), ca(C0, C0), ca(C1, 0), ca(C1, C1),
			cr(C0, 0), cr(C0, 7), cr(C0, 1), cr(C1, C1), cr(C0, 2), cr(C0, 3), cr(C0, 0), cr(C0, 1), cr(C0, 2),
			{Kind: "setConfig", ID: Y, Key: []byte("InnerRingCandidateFee"), Val: []byte{}, Signers: []int{0}, Box: true},
			{Kind: "setConfig", ID: Y, Key: []byte("InnerRingCandidateFee"), Val: []byte{}, Signers: []int{1}, Box: true},
			{Kind: "setConfig", ID: Y, Key: []byte("InnerRingCandidateFee"), Val: []byte{}, Signers: []int{2}, Box: true},
			ca(C0, C0)}},
		{"n=1: every vote fires", []int{5}, 100, []voteOp{
			ch(X, P0, 1, 5), ch(X, P0, 1, 5), sc(X, "k1", "z", 5), ch(X, P0, 1, 0), au(U, []int{5, 6}, 5), ch(X, P0, 1, 6), ch(X, P0, 1, 5)}},
		{"n=7 threshold 5", []int{0, 1, 2, 3, 4, 5, 6}, 100, []voteOp{
			ch(X, P0, 1, 0), ch(X, P0, 1, 1), ch(X, P0, 1, 2), ch(X, P0, 1, 3), ch(X, P0, 1, 3), ch(X, P0, 1, 8), ch(X, P0, 1, 4), ch(X, P0, 1, 5)}},
	}
}

// ---------------------------------------------------------------------------
// Generators

// exhaustive: for one n, all voter sequences of length 4 over
// {member 0..n-1, stranger}; each sequence has its own decision id, the
// action kind rotates; all on one chain (one case).
func voteExhaustive(n int, maxLen int) (alpha []int, fund int64, ops []voteOp) {
	for i := 0; i < n; i++ {
		alpha = append(alpha, i)
	}
	P0 := append(bytes.Repeat([]byte{0xA1}, 19), 1)
	total := 1
	for i := 0; i < maxLen; i++ {
		total *= n + 1
	}
	fund = int64(total) * 2
	for s := 0; s < total; s++ {
		id := []byte(fmt.Sprintf("e%d", s))
		kind := s % 4
		x := s
		for p := 0; p < maxLen; p++ {
			v := x % (n + 1)
			x /= n + 1
			sg := []int{v}
			if v == n {
				sg = []int{8} // K8 is never a member here
			}
			var op voteOp
			switch kind {
			case 0:
				op = voteOp{Kind: "cheque", ID: id, User: P0, Amount: 1, Lock: []byte{1}, Signers: sg}
			case 1:
				op = voteOp{Kind: "setConfig", ID: id, Key: []byte("k1"), Val: id, Signers: sg}
			case 2:
				// same key set, rotated: the stored order (and with it the
				// "first witnessed key") changes
				rot := make([]int, n)
				for i := range rot {
					rot[i] = (i + s) % n
				}
				op = voteOp{Kind: "alphabetUpdate", ID: id, Keys: rot, Signers: sg}
			case 3:
				if p == 0 {
					// (re-)add the candidate; faults when it is still listed
					ops = append(ops, voteOp{Kind: "candAdd", Cand: voteNKeys, Signers: []int{voteNKeys}})
				}
				op = voteOp{Kind: "candRemove", Cand: voteNKeys, Signers: sg}
			}
			ops = append(ops, op)
		}
	}
	return
}

// voteExhaustiveGaps: for one n, all voter sequences of length L over
// {member 0..n-1, stranger} combined with all patterns of the distance
// between consecutive votes taken from {same block, next block, 20 blocks
// (still adds up), 21 blocks (expired)}.  Each (sequence, pattern) has its own
// decision id; the action kind rotates over cheque / setConfig /
// alphabetUpdate (same key set, rotated).  One chain (one case).
func voteExhaustiveGaps(n int, L int) (alpha []int, fund int64, ops []voteOp) {
	for i := 0; i < n; i++ {
		alpha = append(alpha, i)
	}
	P0 := append(bytes.Repeat([]byte{0xA1}, 19), 1)
	nseq, npat := 1, 1
	for i := 0; i < L; i++ {
		nseq *= n + 1
	}
	for i := 0; i < L-1; i++ {
		npat *= 4
	}
	fund = int64(nseq*npat) * 2
	for s := 0; s < nseq; s++ {
		for pt := 0; pt < npat; pt++ {
			id := []byte(fmt.Sprintf("g%d-%d", s, pt))
			kind := (s + pt) % 3
			x, y := s, pt
			for p := 0; p < L; p++ {
				v := x % (n + 1)
				x /= n + 1
				sg := []int{v}
				if v == n {
					sg = []int{8}
				}
				var op voteOp
				switch kind {
				case 0:
					op = voteOp{Kind: "cheque", ID: id, User: P0, Amount: 1, Lock: []byte{2}, Signers: sg}
				case 1:
					op = voteOp{Kind: "setConfig", ID: id, Key: []byte("k2"), Val: id, Signers: sg}
				case 2:
					rot := make([]int, n)
					for i := range rot {
						rot[i] = (i + s + pt) % n
					}
					op = voteOp{Kind: "alphabetUpdate", ID: id, Keys: rot, Signers: sg}
				}
				if p > 0 {
					switch y % 4 {
					case 0:
						op.Same = true
					case 1:
					case 2:
						op.Skip = 19
					case 3:
						op.Skip = 20
					}
					y /= 4
				}
				op.Box = p == L-1
				ops = append(ops, op)
			}
		}
	}
	return
}

func voteRandom(r *rand.Rand, n int, length int) (alpha []int, fund int64, next func(m *voteMon) []voteOp) {
	perm := r.Perm(voteNKeys - 1) // K8 stays a stranger in every history
	alpha = append([]int{}, perm[:n]...)
	fund = int64(20 + r.Intn(60))
	P := [][]byte{append(bytes.Repeat([]byte{0xA1}, 19), 1), append(bytes.Repeat([]byte{0xA2}, 19), 2)}
	ids := [][]byte{[]byte("id-1"), []byte("id-2")}
	var pendingList []int
	made := 0
	one := func(m *voteMon, first bool) voteOp {
		// current members, as signer indices
		var cur []int
		for _, a := range m.alpha {
			for i, p := range m.ve.pubs {
				if bytes.Equal(a, p) {
					cur = append(cur, i)
				}
			}
		}
		var sg []int
		switch w := r.Intn(20); {
		case w < 13 && len(cur) > 0:
			sg = []int{cur[r.Intn(len(cur))]}
		case w < 15 && len(cur) > 0:
			sg = []int{cur[r.Intn(len(cur))], cur[r.Intn(len(cur))]}
		case w < 16 && len(cur) > 0:
			sg = []int{r.Intn(voteNKeys), cur[r.Intn(len(cur))]}
		case w < 18:
			sg = []int{r.Intn(voteNKeys)}
		case w < 19:
			sg = []int{8}
		default:
			sg = nil
		}
		id := ids[r.Intn(2)]
		var op voteOp
		switch w := r.Intn(100); {
		case w < 40:
			am := int64(1 + r.Intn(4))
			if r.Intn(12) == 0 {
				am = int64(r.Intn(200)) - 20
			}
			op = voteOp{Kind: "cheque", ID: id, User: P[r.Intn(2)], Amount: am, Lock: []byte{byte(r.Intn(3))}}
		case w < 62:
			op = voteOp{Kind: "setConfig", ID: id, Key: []byte{'k', byte('1' + r.Intn(2))}, Val: []byte{byte('a' + r.Intn(3))}}
		case w < 76:
			if pendingList == nil || r.Intn(5) == 0 {
				k := 1 + r.Intn(7)
				pendingList = append([]int{}, r.Perm(voteNKeys - 1)[:k]...)
				if r.Intn(25) == 0 {
					pendingList = append(pendingList, -1)
				}
			}
			op = voteOp{Kind: "alphabetUpdate", ID: append([]byte("u-"), id...), Keys: append([]int{}, pendingList...)}
			if r.Intn(30) == 0 {
				op.Keys = []int{-2}
			}
		case w < 88:
			op = voteOp{Kind: "candRemove", Cand: voteNKeys + r.Intn(voteNCands)}
			if r.Intn(5) == 0 {
				sg = []int{op.Cand}
			}
		case w < 96:
			op = voteOp{Kind: "candAdd", Cand: voteNKeys + r.Intn(voteNCands)}
			if r.Intn(6) != 0 {
				sg = []int{op.Cand}
			}
		default:
			op = voteOp{Kind: "fund", Amount: int64(r.Intn(10))}
			sg = nil
		}
		var ds []int
		for _, x := range sg {
			dup := false
			for _, y := range ds {
				dup = dup || x == y
			}
			if !dup {
				ds = append(ds, x)
			}
		}
		op.Signers = ds
		op.Box = true
		if first {
			switch w := r.Intn(40); {
			case w < 3:
				op.Skip = 18
			case w < 7:
				op.Skip = 19
			case w < 11:
				op.Skip = 20
			case w < 12:
				op.Skip = 9
			}
		} else {
			op.Same = true
		}
		return op
	}
	next = func(m *voteMon) []voteOp {
		if made >= length {
			return nil
		}
		g := []voteOp{one(m, true)}
		for r.Intn(7) == 0 && len(g) < 4 {
			op := one(m, false)
			if op.Kind == "fund" {
				break
			}
			g = append(g, op)
		}
		made += len(g)
		return g
	}
	return
}

// ---------------------------------------------------------------------------

func TestC17(t *testing.T) {
	t0 := time.Now()
	st := NewStats("C17")
	st.Rule = "an evaluation is one invocation executed on the real contract and compared with the model; distinct_nontrivial counts the distinct tuples (length n of the stored Alphabet list, method, outcome class fire/vote/repeat/fault, size of the tally including this vote, gap class open/same-height/gap<20/gap20/expired since the last counted vote for that id) observed among well-formed invocations witnessed by a stored Alphabet key; rejected strangers, malformed arguments, candidate registration and funding are evaluations but not counted here; histories with a contract payee (excluded by the Coq model's premise) are compared with a Go reference of the spec instead, and contribute the distinct tuples (n, method, chain of outcome classes of the invocation and its nested invocations)"
	thorough := Tier() == "thorough"

	type caseFile struct {
		vc    *voteCoq
		cases []string
	}
	newCF := func() *caseFile { return &caseFile{vc: newVoteCoq()} }
	files := []*caseFile{newCF()}
	cur := files[0]
	totalFired, totalCarry := 0, 0
	distinct := map[string]bool{}
	add := func(alpha []int, fund int64, next func(m *voteMon) []voteOp) *voteMon {
		c, m := runVoteHistory(t, cur.vc, st, distinct, alpha, fund, next)
		cur.cases = append(cur.cases, c)
		totalFired += m.fired
		totalCarry += m.carry
		return m
	}

	// 1. corpus
	for _, h := range voteCorpus() {
		m := add(h.alpha, h.fund, staticGroups(h.ops))
		if len(st.Samples) < 3 {
			st.Samples = append(st.Samples, map[string]any{"name": h.name, "alphabet": h.alpha, "fund": h.fund, "ops": voteOpsCompact(h.ops), "fired": m.fired})
		}
	}
	// 2. exhaustive voter sequences
	newFile := func() {
		files = append(files, newCF())
		cur = files[len(files)-1]
	}
	maxN, maxLen := 4, 4
	for n := 1; n <= maxN; n++ {
		if thorough {
			newFile()
		}
		alpha, fund, ops := voteExhaustive(n, maxLen)
		add(alpha, fund, staticGroups(ops))
	}
	st.Extra["exhaustive"] = fmt.Sprintf("all voter sequences of length %d over members+stranger for n=1..%d, one block per vote", maxLen, maxN)
	if thorough {
		// deeper: longer sequences for small n, length 4 for n = 5, 6, length 3 for n = 7
		for _, nl := range [][2]int{{1, 5}, {2, 5}, {3, 5}, {5, 4}, {6, 4}, {7, 3}} {
			newFile()
			alpha, fund, ops := voteExhaustive(nl[0], nl[1])
			add(alpha, fund, staticGroups(ops))
		}
		// sequences x timing patterns (same block / next block / 20 / 21 blocks apart)
		for _, nl := range [][2]int{{1, 3}, {2, 3}, {3, 3}, {4, 3}} {
			newFile()
			alpha, fund, ops := voteExhaustiveGaps(nl[0], nl[1])
			add(alpha, fund, staticGroups(ops))
		}
		st.Extra["exhaustive_thorough"] = "additionally: length 5 for n=1..3, length 4 for n=5,6, length 3 for n=7; and for n=1..4 all sequences of length 3 x all 16 patterns of distances {same block, 1, 20, 21 blocks} between consecutive votes"
	}
	// 3. random histories, n = 1..7
	nh, ln := 42, 30
	if thorough {
		nh, ln = 840, 40
	}
	r := Rng(17)
	for i := 0; i < nh; i++ {
		if thorough && i%105 == 0 {
			newFile()
		}
		n := 1 + i%7
		alpha, fund, next := voteRandom(r, n, ln)
		add(alpha, fund, next)
	}
	st.Extra["random"] = fmt.Sprintf("%d random histories of %d invocations, n = 1..7 round robin, two competing ids per method family, Alphabet replacement, candidates, gaps of 10/19/20/21 blocks, up to 4 transactions per block", nh, ln)

	// 4. cheques to a contract payee that calls back into the contract (vote_reentry_test.go)
	voteReentryAll(t, st, distinct, thorough)

	st.Extra["fired_decisions"] = totalFired
	st.Extra["fired_with_carried_over_or_repeated_votes_after_alphabet_change"] = totalCarry
	st.DistinctNontrivial = len(distinct)

	for k, cf := range files {
		name := "cases_C17.v"
		if len(files) > 1 {
			name = fmt.Sprintf("cases_C17_%d.v", k)
		}
		require.NoError(t, writeVoteCases(filepath.Join(OutDir(), name), cf.vc, cf.cases))
	}
	st.Extra["go_seconds"] = time.Since(t0).Seconds()
	st.Write()
	if len(st.Violations) > 0 {
		t.Logf("monitor violations: %d (first: %s)", len(st.Violations), st.Violations[0].What)
	}
}

func writeVoteCases(path string, vc *voteCoq, cases []string) error {
	// crypto tables: valid keys, standard accounts, delete-ids
	var valid, std, del []string
	for i := 0; i < voteNKeys+voteNCands; i++ {
		acc := voteKey(i)
		pub := acc.PublicKey().Bytes()
		valid = append(valid, vc.pool.Ref(pub))
		std = append(std, fmt.Sprintf("(%s, %s)", vc.pool.Ref(pub), vc.pool.Ref(acc.ScriptHash().BytesBE())))
		del = append(del, fmt.Sprintf("(%s, %s)", vc.pool.Ref(pub), vc.pool.Ref(voteDelID(pub))))
	}
	pa := voteKey(100)
	valid = append(valid, vc.pool.Ref(pa.PublicKey().Bytes()))
	var sb strings.Builder
	sb.WriteString("From Verif Require Import Base.Prelude Model.Vote Model.NeoFSVote.\nLocal Open Scope Z_scope.\n")
	sb.WriteString(vc.pool.Defs())
	for _, in := range []*voteIntern{vc.wit, vc.ops, vc.notif, vc.sts} {
		for _, d := range in.defs {
			sb.WriteString(d)
		}
	}
	fmt.Fprintf(&sb, "Definition valid_keys : list bytes := %s.\n", ListLit(valid))
	fmt.Fprintf(&sb, "Definition std_tab : list (bytes * bytes) := %s.\n", ListLit(std))
	fmt.Fprintf(&sb, "Definition del_tab : list (bytes * bytes) := %s.\n", ListLit(del))
	sb.WriteString(`Definition tab_get (t : list (bytes * bytes)) (k : bytes) : bytes :=
  match find (fun p => bytes_eqb (fst p) k) t with Some p => snd p | None => [] end.
Definition valid_pub (b : bytes) : bool := existsb (bytes_eqb b) valid_keys.
Definition fee_cfg : gmap bytes bytes := {[ candidate_fee_key := ` + BytesLit(voteFeeBytes()) + ` ]}.
Definition check_case (c : bytes * list bytes * list (bytes * Z) * list bytes * list (omode * (nctx * nop) * val)) :=
  let '(self, alpha, g0, accts, tr) := c in
  run_case (nstep_obs valid_pub (tab_get std_tab) (tab_get del_tab) [candidate_fee_key; [107;49]%N; [107;50]%N] accts)
           (ninit alpha fee_cfg (list_to_map g0)) 0 tr.
`)
	sb.WriteString("Definition cases := [\n")
	// each case binds its own [self]
	for i, c := range cases {
		if i > 0 {
			sb.WriteString(";\n")
		}
		// the case text starts with "(<self ref>, ..." : bind self
		selfRef := c[1:strings.Index(c, ",")]
		sb.WriteString("(let self := " + selfRef + " in " + c + ")")
	}
	sb.WriteString("\n].\n")
	sb.WriteString("Definition M := Eval vm_compute in failures_from 0 (map check_case cases).\nPrint M.\n")
	return os.WriteFile(path, []byte(sb.String()), 0o644)
}
