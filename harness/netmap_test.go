package harness

import (
	"fmt"
	"math/big"
	"math/rand"
	"os"
	"path/filepath"
	"sort"
	"strings"
	"testing"

	"github.com/nspcc-dev/neo-go/pkg/core/native/nativenames"
	"github.com/nspcc-dev/neo-go/pkg/core/state"
	"github.com/nspcc-dev/neo-go/pkg/core/transaction"
	"github.com/nspcc-dev/neo-go/pkg/crypto/keys"
	"github.com/nspcc-dev/neo-go/pkg/encoding/bigint"
	"github.com/nspcc-dev/neo-go/pkg/neotest"
	"github.com/nspcc-dev/neo-go/pkg/util"
	"github.com/nspcc-dev/neo-go/pkg/vm/stackitem"
	"github.com/nspcc-dev/neo-go/pkg/wallet"
	"github.com/nspcc-dev/neofs-contract/contracts/container/containerconst"
	"github.com/stretchr/testify/require"
)

// ---------------------------------------------------------------------------
// Netmap family: C06 (tick), C07 (candidate state machine), C08 (history ring).
// One executor, three generators / monitors / projections, one Coq model
// (Model/Netmap.v). Every step of a case carries the environment of the
// moment (which probe subscriber rejects which epoch), the invocation and the
// list of reads made afterwards; the model answers the same reads.

// gv is a canonical observable value (mirror of Base.Prelude.val).
type gv struct {
	k byte // 'i' int, 'b' bytes, 'o' bool, 'n' null, 'f' fault, 'l' list
	i *big.Int
	b []byte
	o bool
	l []gv
}

func gInt(i int64) gv    { return gv{k: 'i', i: big.NewInt(i)} }
func gBig(i *big.Int) gv { return gv{k: 'i', i: i} }
func gBytes(b []byte) gv { return gv{k: 'b', b: b} }
func gBool(b bool) gv    { return gv{k: 'o', o: b} }
func gList(l ...gv) gv   { return gv{k: 'l', l: l} }
func gListOf(l []gv) gv  { return gv{k: 'l', l: l} }
func gStrs(ss []string) gv {
	var l []gv
	for _, s := range ss {
		l = append(l, gBytes([]byte(s)))
	}
	return gListOf(l)
}
func gPairs(ps [][2]string) gv {
	var l []gv
	for _, p := range ps {
		l = append(l, gList(gBytes([]byte(p[0])), gBytes([]byte(p[1]))))
	}
	return gListOf(l)
}

var gNull = gv{k: 'n'}
var gFault = gv{k: 'f'}

// key is a canonical printable form (used for equality and signatures).
func (v gv) key() string {
	switch v.k {
	case 'i':
		return "i" + v.i.String()
	case 'b':
		return "b" + Hex(v.b)
	case 'o':
		return fmt.Sprintf("o%v", v.o)
	case 'n':
		return "n"
	case 'f':
		return "f"
	}
	var sb strings.Builder
	sb.WriteString("[")
	for _, x := range v.l {
		sb.WriteString(x.key())
		sb.WriteString(",")
	}
	sb.WriteString("]")
	return sb.String()
}

func (v gv) eq(w gv) bool { return v.key() == w.key() }

// nmFile accumulates a cases file with two interning tables: byte strings
// (Pool) and composite values (named [val] constants), so that a map that is
// read forty times is written once.
type nmFile struct {
	pool     *Pool
	vals     map[string]string
	vdefs    []string
	cases    []string
	caseType string // Coq type of a case (default ncase)
}

func newNmFile() *nmFile { return &nmFile{pool: NewPool("b"), vals: map[string]string{}} }

func (f *nmFile) val(v gv) string {
	switch v.k {
	case 'i':
		return "VInt " + ZLit(v.i)
	case 'b':
		return VBytesRef(f.pool.Ref(v.b))
	case 'o':
		return VBool(v.o)
	case 'n':
		return VNull
	case 'f':
		return "vF"
	}
	if len(v.l) == 0 {
		return "vE"
	}
	k := v.key()
	if n, ok := f.vals[k]; ok {
		return n
	}
	parts := make([]string, len(v.l))
	for i, x := range v.l {
		parts[i] = f.val(x)
	}
	n := fmt.Sprintf("v%d", len(f.vdefs))
	f.vdefs = append(f.vdefs, fmt.Sprintf("Definition %s : val := %s.\n", n, VList(parts)))
	f.vals[k] = n
	return n
}

func (f *nmFile) write(path, header, footer string, from, to int) error {
	var sb strings.Builder
	sb.WriteString(header)
	sb.WriteString(f.pool.Defs())
	for _, d := range f.vdefs {
		sb.WriteString(d)
	}
	ct := f.caseType
	if ct == "" {
		ct = "ncase"
	}
	sb.WriteString("Definition cases : list " + ct + " := [\n")
	sb.WriteString(strings.Join(f.cases[from:to], ";\n"))
	sb.WriteString("\n].\n")
	sb.WriteString(footer)
	return os.WriteFile(path, []byte(sb.String()), 0o644)
}

// ---------------------------------------------------------------------------
// Environment

type nmNode struct {
	signer neotest.Signer
	pub    []byte
}

type nmEnv struct {
	*Env
	netmap     util.Uint160
	balance    util.Uint160
	hasBalance bool
	probes     []util.Uint160
	caller     util.Uint160 // deployed contract without newEpoch/1
	nodes      []nmNode
	committee  neotest.Signer // the Alphabet account: 2n/3+1 of the committee keys (signer index -1)
	nc         int            // committee size of this chain (1, 3 or 4)
	majority   neotest.Signer // n/2+1 multisig, common.CommitteeAddress (signer index -2)
	member     neotest.Signer // single committee member (index -3)
	below      neotest.Signer // multisig below both thresholds (index -4)
	gateRng    *rand.Rand
	rej        map[int]int64 // probe index -> epoch it rejects
	cfg        [][2][]byte
}

func nmCloneContract(c *neotest.Contract, sender util.Uint160, name string) *neotest.Contract {
	c2 := *c
	m := *c.Manifest
	m.Name = name
	c2.Manifest = &m
	c2.Hash = state.CreateContractHash(sender, c.NEF.Checksum, name)
	return &c2
}

// newNmEnv deploys netmap (optionally NNS + the real Balance contract, which
// subscribes itself during its deployment exactly as in the repository's
// deployment), nProbes probe subscribers (not subscribed yet) and nNodes
// deterministic node accounts.
func newNmEnv(t testing.TB, r *rand.Rand, withBalance bool, nProbes, nNodes int) *nmEnv {
	return newNmEnvN(t, r, withBalance, nProbes, nNodes, 1)
}

// newNmEnvN: nc = committee size. On chains with 3 and 4 keys the Alphabet
// account (2n/3+1), the committee-majority account (n/2+1; the same account for
// n = 4), a single member and a multisig below both thresholds are different
// principals; only the first one is the Alphabet.
func newNmEnvN(t testing.TB, r *rand.Rand, withBalance bool, nProbes, nNodes, nc int) *nmEnv {
	var v *Env
	n := &nmEnv{rej: map[int]int64{}, nc: nc, gateRng: rand.New(rand.NewSource(r.Int63()))}
	if nc <= 1 {
		v = NewEnv(t)
		n.committee = v.E.Committee
		n.majority = v.E.Committee
		n.member = neotest.NewSingleSigner(wallet.NewAccountFromPrivateKey(HarnessKey(900)))
		n.below = n.member
	} else {
		vn := NewEnvN(t, nc)
		v = vn.Env
		n.committee = vn.Alphabet
		n.majority = vn.Majority
		n.member = neotest.NewSingleSigner(wallet.NewAccountFromPrivateKey(vn.Keys[0]))
		n.below = MultiSignerOf(nc/2, vn.Keys)
	}
	n.Env = v
	e := v.E
	{
		var txs []*transaction.Transaction
		seen := map[util.Uint160]bool{e.Validator.ScriptHash(): true}
		for _, sg := range []neotest.Signer{n.committee, n.majority, n.member, n.below} {
			if !seen[sg.ScriptHash()] {
				seen[sg.ScriptHash()] = true
				txs = append(txs, e.NewTx(t, []neotest.Signer{e.Validator}, e.NativeHash(t, nativenames.Gas), "transfer",
					e.Validator.ScriptHash(), sg.ScriptHash(), int64(100000_0000_0000), nil))
			}
		}
		if len(txs) > 0 {
			e.AddNewBlock(t, txs...)
		}
	}
	n.cfg = [][2][]byte{{[]byte("MaxObjectSize"), {0, 0, 16}}, {[]byte("k2"), {}}}
	var cfgArg []any
	for _, kv := range n.cfg {
		cfgArg = append(cfgArg, kv[0], kv[1])
	}
	nm := v.Compile("netmap")
	if withBalance {
		nns := v.Compile("nns")
		e.DeployContract(t, nns, []any{[]any{[]any{"neofs", "ops@nspcc.io"}}})
		reg := func(name string, h util.Uint160) {
			inv := e.CommitteeInvoker(nns.Hash)
			inv.Invoke(t, true, "register", name+".neofs", e.CommitteeHash, "ops@nspcc.ru", int64(3600), int64(600), int64(10*365*24*3600*1000), int64(3600))
			inv.Invoke(t, nil, "addRecord", name+".neofs", 16, h.StringLE())
		}
		e.DeployContract(t, nm, []any{false, util.Uint160{}, util.Uint160{}, []any{}, cfgArg})
		reg("netmap", nm.Hash)
		bal := v.Compile("balance")
		e.DeployContract(t, bal, []any{false, util.Uint160{}, util.Uint160{}})
		n.balance = bal.Hash
		n.hasBalance = true
	} else {
		e.DeployContract(t, nm, []any{false, util.Uint160{}, util.Uint160{}, []any{}, cfgArg})
	}
	n.netmap = nm.Hash
	pr := v.CompileHelper("nmprobe")
	for i := 0; i < nProbes; i++ {
		p := nmCloneContract(pr, e.Validator.ScriptHash(), fmt.Sprintf("verif netmap probe %d", i))
		e.DeployContract(t, p, nil)
		n.probes = append(n.probes, p.Hash)
	}
	cl := v.CompileHelper("caller")
	e.DeployContract(t, cl, nil)
	n.caller = cl.Hash
	// node accounts with keys derived from the run's PRNG, funded in one block
	var txs []*transaction.Transaction
	for i := 0; i < nNodes; i++ {
		kb := make([]byte, 32)
		r.Read(kb)
		kb[0] |= 1
		pk, err := keys.NewPrivateKeyFromBytes(kb)
		require.NoError(t, err)
		acc := wallet.NewAccountFromPrivateKey(pk)
		s := neotest.NewSingleSigner(acc)
		n.nodes = append(n.nodes, nmNode{signer: s, pub: pk.PublicKey().Bytes()})
		txs = append(txs, e.NewTx(t, []neotest.Signer{e.Validator}, e.NativeHash(t, nativenames.Gas), "transfer",
			e.Validator.ScriptHash(), acc.Contract.ScriptHash(), int64(100000_0000_0000), nil))
	}
	if len(txs) > 0 {
		e.AddNewBlock(t, txs...)
	}
	return n
}

type nmOp struct {
	Kind     string      `json:"kind"` // newEpoch addPeer addPeerIR addNode deleteNode updateState updateStateIR updateSnapshotCount subscribe setConfig probeSetFault probeClearFault
	Epoch    int64       `json:"epoch,omitempty"`
	Info     []byte      `json:"info,omitempty"`
	Key      []byte      `json:"key,omitempty"`
	State    int64       `json:"state,omitempty"`
	Addrs    []string    `json:"addrs,omitempty"`
	Attrs    [][2]string `json:"attrs,omitempty"`
	Count    int64       `json:"count,omitempty"`
	Hash     []byte      `json:"hash,omitempty"`
	Probe    int         `json:"probe,omitempty"`
	CfgKey   []byte      `json:"cfgkey,omitempty"`
	CfgVal   []byte      `json:"cfgval,omitempty"`
	Signers  []int       `json:"signers"`            // -1 = committee (Alphabet), i = node i
	Unscoped []int       `json:"unscoped,omitempty"` // signers present in the transaction with scope None (fee only)
	Join     bool        `json:"join,omitempty"`     // same block as the next operation
	Light    bool        `json:"light,omitempty"`    // C08 warm-up tick: only the short projection is read
}

func (o nmOp) String() string {
	if len(o.Unscoped) > 0 {
		u := o.Unscoped
		o.Unscoped = nil
		return fmt.Sprintf("%s+scopeNone%v", o.String(), u)
	}
	switch o.Kind {
	case "newEpoch":
		return fmt.Sprintf("newEpoch(%d)%v", o.Epoch, o.Signers)
	case "addPeer", "addPeerIR":
		return fmt.Sprintf("%s(%s)%v", o.Kind, Hex(o.Info), o.Signers)
	case "addNode":
		return fmt.Sprintf("addNode(%v,%v,%s,%d)%v", o.Addrs, o.Attrs, Hex(o.Key), o.State, o.Signers)
	case "deleteNode":
		return fmt.Sprintf("deleteNode(%s)%v", Hex(o.Key), o.Signers)
	case "updateState", "updateStateIR":
		return fmt.Sprintf("%s(%d,%s)%v", o.Kind, o.State, Hex(o.Key), o.Signers)
	case "updateSnapshotCount":
		return fmt.Sprintf("updateSnapshotCount(%d)%v", o.Count, o.Signers)
	case "subscribe":
		return fmt.Sprintf("subscribeForNewEpoch(%s)%v", Hex(o.Hash), o.Signers)
	case "setConfig":
		return fmt.Sprintf("setConfig(%s,%s)%v", Hex(o.CfgKey), Hex(o.CfgVal), o.Signers)
	case "probeSetFault":
		return fmt.Sprintf("probe%d.setFault(%d)", o.Probe, o.Epoch)
	case "probeClearFault":
		return fmt.Sprintf("probe%d.clearFault()", o.Probe)
	}
	return o.Kind
}

func (n *nmEnv) signerOf(i int) neotest.Signer {
	switch i {
	case -1:
		return n.committee
	case -2:
		return n.majority
	case -3:
		return n.member
	case -4:
		return n.below
	}
	return n.nodes[i].signer
}

func (n *nmEnv) signerList(idx []int) []neotest.Signer {
	var out []neotest.Signer
	seen := map[util.Uint160]bool{}
	for _, i := range idx {
		sg := n.signerOf(i)
		if seen[sg.ScriptHash()] {
			continue // equal script hashes are one principal (n = 4: majority = Alphabet)
		}
		seen[sg.ScriptHash()] = true
		out = append(out, sg)
	}
	return out
}

// alphaOf: is the Alphabet account (exactly the 2n/3+1 multisig) among the
// signers of the operation?
func (n *nmEnv) alphaOf(op nmOp) bool {
	for _, i := range op.Signers {
		if i < 0 && n.signerOf(i).ScriptHash() == n.committee.ScriptHash() {
			return true
		}
	}
	return false
}

// gateVariant replaces the Alphabet account among the signers by another
// principal: the committee-majority account, a single member, a multisig
// below both thresholds.
func (n *nmEnv) gateVariant(op nmOp) nmOp {
	alt := []int{-2, -3, -4}[n.gateRng.Intn(3)]
	m := op
	m.Signers = nil
	for _, i := range op.Signers {
		if i == -1 {
			i = alt
		}
		m.Signers = append(m.Signers, i)
	}
	m.Join = n.gateRng.Intn(2) == 0
	return m
}

func (n *nmEnv) prepare(op nmOp) *transaction.Transaction {
	switch op.Kind {
	case "newEpoch":
		return n.prepareTx(op, n.netmap, "newEpoch", op.Epoch)
	case "addPeer", "addPeerIR":
		return n.prepareTx(op, n.netmap, op.Kind, op.Info)
	case "addNode":
		var as []stackitem.Item
		for _, a := range op.Addrs {
			as = append(as, stackitem.Make(a))
		}
		var ms []stackitem.MapElement
		for _, kv := range op.Attrs {
			ms = append(ms, stackitem.MapElement{Key: stackitem.Make(kv[0]), Value: stackitem.Make(kv[1])})
		}
		st := stackitem.NewStruct([]stackitem.Item{stackitem.NewArray(as), stackitem.NewMapWithValue(ms),
			stackitem.NewByteArray(op.Key), stackitem.Make(op.State)})
		return n.prepareTx(op, n.netmap, "addNode", st)
	case "deleteNode":
		return n.prepareTx(op, n.netmap, "deleteNode", op.Key)
	case "updateState", "updateStateIR":
		return n.prepareTx(op, n.netmap, op.Kind, op.State, op.Key)
	case "updateSnapshotCount":
		return n.prepareTx(op, n.netmap, "updateSnapshotCount", op.Count)
	case "subscribe":
		return n.prepareTx(op, n.netmap, "subscribeForNewEpoch", op.Hash)
	case "setConfig":
		return n.prepareTx(op, n.netmap, "setConfig", []byte{1}, op.CfgKey, op.CfgVal)
	}
	panic(op.Kind)
}

// prepareTx builds the transaction of op: op.Signers with scope Global (they
// witness the call), op.Unscoped with scope None (fee-only signatures: they
// witness nothing).
func (n *nmEnv) prepareTx(op nmOp, h util.Uint160, method string, args ...any) *transaction.Transaction {
	if len(op.Unscoped) == 0 {
		return n.PrepareTx(n.signerList(op.Signers), h, method, args...)
	}
	tx := n.E.NewUnsignedTx(n.T, h, method, args...)
	var sgs []neotest.Signer
	seen := map[util.Uint160]bool{}
	add := func(idx []int, scope transaction.WitnessScope) {
		for _, sg := range n.signerList(idx) {
			if seen[sg.ScriptHash()] {
				continue
			}
			seen[sg.ScriptHash()] = true
			tx.Signers = append(tx.Signers, transaction.Signer{Account: sg.ScriptHash(), Scopes: scope})
			sgs = append(sgs, sg)
		}
	}
	add(op.Signers, transaction.Global)
	add(op.Unscoped, transaction.None)
	neotest.AddNetworkFee(n.T, n.BC, tx, sgs...)
	tx.SystemFee = 30_0000_0000
	for _, sg := range sgs {
		require.NoError(n.T, sg.SignTx(n.BC.GetConfig().Magic, tx))
	}
	return tx
}

type nmRes struct {
	halt   bool
	fault  string
	events []gv // canonical notification values, in application-log order
	height uint32
}

func itemGV(it stackitem.Item) gv {
	switch x := it.(type) {
	case stackitem.Null:
		return gNull
	case *stackitem.BigInteger:
		return gBig(x.Big())
	case stackitem.Bool:
		return gBool(bool(x))
	case *stackitem.ByteArray, *stackitem.Buffer:
		b, _ := it.TryBytes()
		return gBytes(b)
	case *stackitem.Array, *stackitem.Struct:
		var l []gv
		for _, y := range it.Value().([]stackitem.Item) {
			l = append(l, itemGV(y))
		}
		return gListOf(l)
	case *stackitem.Map:
		var l []gv
		for _, el := range x.Value().([]stackitem.MapElement) {
			l = append(l, gList(itemGV(el.Key), itemGV(el.Value)))
		}
		return gListOf(l)
	}
	return gBytes([]byte("?" + it.String()))
}

// resultOf converts the application log of a transaction. Events of the probe
// subscribers become [NCall probe epoch].
func (n *nmEnv) resultOf(tx *transaction.Transaction, height uint32) nmRes {
	r := n.ResultOf(tx, nil)
	out := nmRes{halt: r.Halt, fault: r.Fault, height: height}
	for _, ev := range r.Events {
		items := ev.Item.Value().([]stackitem.Item)
		var args []gv
		for _, it := range items {
			args = append(args, itemGV(it))
		}
		tag := int64(-1)
		if ev.ScriptHash == n.netmap {
			switch ev.Name {
			case "AddPeerSuccess":
				tag = 0
			case "AddNode":
				tag = 1
			case "UpdateStateSuccess":
				tag = 2
			case "NewEpoch":
				tag = 3
			case "NewEpochSubscription":
				tag = 4
			}
		} else if ev.Name == "ProbeEpoch" {
			for _, p := range n.probes {
				if p == ev.ScriptHash {
					tag = 5
					args = append([]gv{gBytes(p.BytesBE())}, args...)
				}
			}
		}
		if tag < 0 {
			continue // events of other contracts (Balance transfers) are not part of this projection
		}
		out.events = append(out.events, gListOf(append([]gv{gInt(tag)}, args...)))
	}
	return out
}

type nmQuery struct {
	kind string
	z    int64
	b    []byte
}

func (q nmQuery) coq(p *Pool) string {
	switch q.kind {
	case "QSnapshot", "QSnapshotByEpoch", "QListNodes":
		return fmt.Sprintf("%s %s", q.kind, ZI(q.z))
	case "QConfig":
		return "QConfig " + p.Ref(q.b)
	}
	return q.kind
}

func (n *nmEnv) readGV(method string, args ...any) gv {
	it, err := n.Read(n.netmap, method, args...)
	if err != nil {
		return gFault
	}
	return itemGV(it)
}

func (n *nmEnv) answer(q nmQuery) gv {
	switch q.kind {
	case "QEpoch":
		return n.readGV("epoch")
	case "QBlock":
		return n.readGV("lastEpochBlock")
	case "QNetmap":
		return n.readGV("netmap")
	case "QCandidates":
		return n.readGV("netmapCandidates")
	case "QListCandidates":
		return n.readGV("listCandidates")
	case "QSnapshot":
		return n.readGV("snapshot", q.z)
	case "QSnapshotByEpoch":
		return n.readGV("snapshotByEpoch", q.z)
	case "QListNodes":
		return n.readGV("listNodes", q.z)
	case "QConfig":
		return n.readGV("config", q.b)
	case "QListConfig":
		return n.readGV("listConfig")
	case "QSubscribers":
		var l []gv
		for _, k := range n.StorageKeys(n.netmap, []byte("e")) {
			l = append(l, gBytes(k[1:]))
		}
		return gListOf(l)
	case "QCount":
		return gBig(bigint.FromBytes([]byte(n.StorageDump(n.netmap)["snapshotCount"])))
	case "QCur":
		return gBig(bigint.FromBytes([]byte(n.StorageDump(n.netmap)["snapshotCurrent"])))
	}
	panic(q.kind)
}

// ---------------------------------------------------------------------------
// Coq rendering of one step

func (n *nmEnv) coqCtx(f *nmFile, op nmOp, height uint32) string {
	var ws []string
	alpha := n.alphaOf(op)
	for _, i := range op.Signers {
		if i >= 0 {
			ws = append(ws, f.pool.Ref(n.nodes[i].pub))
		}
	}
	return fmt.Sprintf("mkNC %s %s %d", ListLit(ws), BoolLit(alpha), height)
}

func (n *nmEnv) coqOp(f *nmFile, op nmOp) string {
	p := f.pool
	switch op.Kind {
	case "newEpoch":
		return "NewEpoch " + ZI(op.Epoch)
	case "addPeer":
		return "AddPeer " + p.Ref(op.Info)
	case "addPeerIR":
		return "AddPeerIR " + p.Ref(op.Info)
	case "addNode":
		var as, ts []string
		for _, a := range op.Addrs {
			as = append(as, p.Ref([]byte(a)))
		}
		for _, kv := range op.Attrs {
			ts = append(ts, fmt.Sprintf("(%s, %s)", p.Ref([]byte(kv[0])), p.Ref([]byte(kv[1]))))
		}
		return fmt.Sprintf("AddNode (mkNode2 %s %s %s %s)", ListLit(as), ListLit(ts), p.Ref(op.Key), ZI(op.State))
	case "deleteNode":
		return "DeleteNode " + p.Ref(op.Key)
	case "updateState":
		return fmt.Sprintf("UpdateState %s %s", ZI(op.State), p.Ref(op.Key))
	case "updateStateIR":
		return fmt.Sprintf("UpdateStateIR %s %s", ZI(op.State), p.Ref(op.Key))
	case "updateSnapshotCount":
		return "UpdateSnapshotCount " + ZI(op.Count)
	case "subscribe":
		return "Subscribe " + p.Ref(op.Hash)
	case "setConfig":
		return fmt.Sprintf("SetConfig %s %s", p.Ref(op.CfgKey), p.Ref(op.CfgVal))
	}
	panic(op.Kind)
}

func (n *nmEnv) coqRej(f *nmFile) string {
	var idx []int
	for i := range n.rej {
		idx = append(idx, i)
	}
	sort.Ints(idx)
	var rs []string
	for _, i := range idx {
		rs = append(rs, fmt.Sprintf("(%s, %s)", f.pool.Ref(n.probes[i].BytesBE()), ZI(n.rej[i])))
	}
	return ListLit(rs)
}

// nmStep is one executed netmap invocation with everything observed.
type nmStep struct {
	op      nmOp
	res     nmRes
	queries []nmQuery
	answers []gv
	rej     map[int]int64
}

func (s *nmStep) get(kind string, z int64) (gv, bool) {
	for i, q := range s.queries {
		if q.kind == kind && q.z == z {
			return s.answers[i], true
		}
	}
	return gv{}, false
}

// ---------------------------------------------------------------------------
// Runner

type nmProjection func(n *nmEnv, st *nmTrack, op nmOp) []nmQuery

// nmTrack is what the harness itself knows about the chain (from reads), used
// by generators and projections.
type nmTrack struct {
	epoch int64
	count int64
}

type nmHistory struct {
	env   *nmEnv
	steps []*nmStep
	all   []nmOp // including probe operations, for replays
}

// runHistory executes ops (a generator callback) on a fresh chain.
func nmRunHistory(t *testing.T, n *nmEnv, f *nmFile, proj nmProjection, mon nmMonitor,
	next func(step int, tr *nmTrack) (nmOp, bool), st *Stats) *nmHistory {
	h := &nmHistory{env: n}
	tr := &nmTrack{epoch: 0, count: 10}
	var coqSteps []string
	var pending []nmOp
	flush := func() {
		if len(pending) == 0 {
			return
		}
		var txs []*transaction.Transaction
		for _, op := range pending {
			txs = append(txs, n.prepare(op))
		}
		b := n.E.AddNewBlock(t, txs...)
		// ledger.CurrentIndex() during the execution of a transaction of block N
		// is N-1 (the last persisted block)
		curIndex := b.Index - 1
		for i, op := range pending {
			res := n.resultOf(txs[i], curIndex)
			s := &nmStep{op: op, res: res, rej: map[int]int64{}}
			for k, v := range n.rej {
				s.rej[k] = v
			}
			last := i == len(pending)-1
			if last {
				tr.epoch = n.ReadInt(n.netmap, "epoch").Int64()
				tr.count = n.answer(nmQuery{kind: "QCount"}).i.Int64()
				s.queries = proj(n, tr, op)
				for _, q := range s.queries {
					s.answers = append(s.answers, n.answer(q))
				}
			}
			h.steps = append(h.steps, s)
			st.Evaluations++
			st.OpHistogram[op.Kind]++
			oc := "halt"
			if !res.halt {
				oc = "fault"
			}
			st.OutcomeHistogram[op.Kind+"/"+oc]++
			var qs, as, one []string
			rangeFn := map[string]string{"QSnapshot": "qsnap", "QSnapshotByEpoch": "qbyep", "QListNodes": "qlist"}
			flushOne := func() {
				if len(one) > 0 {
					qs = append(qs, ListLit(paren(one)))
					one = nil
				}
			}
			for j := 0; j < len(s.queries); j++ {
				q := s.queries[j]
				as = append(as, f.val(s.answers[j]))
				fn := rangeFn[q.kind]
				if fn == "" {
					one = append(one, q.coq(f.pool))
					continue
				}
				// runs of consecutive range reads are written as qsnap/qbyep/qlist a b
				flushOne()
				k := j
				for k+1 < len(s.queries) && s.queries[k+1].kind == q.kind && s.queries[k+1].z == s.queries[k].z+1 {
					k++
					as = append(as, f.val(s.answers[k]))
				}
				qs = append(qs, fmt.Sprintf("%s %s %s", fn, ZI(q.z), ZI(s.queries[k].z)))
				j = k
			}
			flushOne()
			qsCoq := "[]"
			if len(qs) > 0 {
				qsCoq = "(" + strings.Join(qs, " ++ ") + ")"
			}
			var evs []string
			for _, ev := range res.events {
				evs = append(evs, f.val(ev))
			}
			obs := VList([]string{VBool(res.halt), VList(evs), VList(as)})
			coqSteps = append(coqSteps, fmt.Sprintf("((%s, (%s, %s), %s), %s)",
				n.coqRej(f), n.coqCtx(f, op, curIndex), n.coqOp(f, op), qsCoq, obs))
			if mon != nil && last {
				mon.step(h, len(h.steps)-len(pending), len(h.steps))
			}
		}
		pending = pending[:0]
	}
	var held *nmOp
	gi := 0
	for {
		var op nmOp
		if held != nil {
			op, held = *held, nil
		} else {
			var ok bool
			op, ok = next(gi, tr)
			gi++
			if !ok {
				break
			}
			if n.nc > 1 && hasSigner(op, -1) && n.gateRng.Intn(5) == 0 {
				// the same request first from a principal that is not the Alphabet (committee
				// majority, single member, below-threshold multisig), then as generated
				orig := op
				held = &orig
				op = n.gateVariant(orig)
			}
		}
		h.all = append(h.all, op)
		if op.Join && op.Kind == "newEpoch" && n.alphaOf(op) && op.Epoch > tr.epoch {
			// the generator's belief while the block is being assembled (the next
			// operation of the same block sees the new epoch); corrected by the
			// read after the block
			tr.epoch = op.Epoch
		}
		switch op.Kind {
		case "probeSetFault":
			flush()
			r := n.Invoke(nil, n.probes[op.Probe], "setFault", op.Epoch)
			require.True(t, r.Halt, r.Fault)
			n.rej[op.Probe] = op.Epoch
			st.OpHistogram[op.Kind]++
			continue
		case "probeClearFault":
			flush()
			r := n.Invoke(nil, n.probes[op.Probe], "clearFault")
			require.True(t, r.Halt, r.Fault)
			delete(n.rej, op.Probe)
			st.OpHistogram[op.Kind]++
			continue
		}
		pending = append(pending, op)
		if !op.Join {
			flush()
		}
	}
	flush()
	// case: (cfg, deployed contracts with newEpoch/1, silent subscribers, steps)
	var cfg, oks, silent []string
	for _, kv := range n.cfg {
		cfg = append(cfg, fmt.Sprintf("(%s, %s)", f.pool.Ref(kv[0]), f.pool.Ref(kv[1])))
	}
	for _, p := range n.probes {
		oks = append(oks, f.pool.Ref(p.BytesBE()))
	}
	if n.hasBalance {
		oks = append(oks, f.pool.Ref(n.balance.BytesBE()))
		silent = append(silent, f.pool.Ref(n.balance.BytesBE()))
	}
	init := "[]"
	if n.hasBalance {
		// Balance subscribed itself while it was deployed (before the history)
		init = fmt.Sprintf("[(%s, (mkNC [] true 0, Subscribe %s), [])]", "[]", f.pool.Ref(n.balance.BytesBE()))
	}
	f.cases = append(f.cases, fmt.Sprintf("(%s, %s, %s, %s, %s)", ListLit(cfg), ListLit(oks), ListLit(silent), init, ListLit(coqSteps)))
	st.Histories++
	return h
}

type nmMonitor interface {
	// step is called after every block with the range of steps it contained.
	step(h *nmHistory, from, to int)
}

const nmHeader = "From Verif Require Import Base.Prelude Model.Netmap.\nLocal Open Scope Z_scope.\n"
const nmFooter = `Definition M := Eval vm_compute in failures_from 0 (map check_case cases).
Print M.
`

// nmFiles splits the cases of one run over several files (each with its own
// interning tables and its own M).
type nmFiles struct {
	t       *testing.T
	prop    string
	perFile int
	k       int
	cur     *nmFile
}

func (fs *nmFiles) file() *nmFile {
	if fs.cur == nil {
		fs.cur = newNmFile()
	}
	return fs.cur
}

func (fs *nmFiles) flush(final bool) {
	if fs.cur == nil || len(fs.cur.cases) == 0 {
		return
	}
	if !final && (fs.perFile <= 0 || len(fs.cur.cases) < fs.perFile) {
		return
	}
	name := "cases_" + fs.prop + ".v"
	if fs.k > 0 {
		name = fmt.Sprintf("cases_%s_%d.v", fs.prop, fs.k)
	}
	require.NoError(fs.t, fs.cur.write(filepath.Join(OutDir(), name), nmHeader, nmFooter, 0, len(fs.cur.cases)))
	fs.k++
	fs.cur = nil
}

// ---------------------------------------------------------------------------
// Helpers shared by the generators

func (n *nmEnv) info(node int, tag byte, extra int) []byte {
	b := []byte{tag, byte(node)}
	b = append(b, n.nodes[node].pub...)
	for i := 0; i < extra; i++ {
		b = append(b, tag^byte(i*37+1))
	}
	return b
}

func nmGhostKey() []byte {
	k := make([]byte, 33)
	k[0] = 2
	for i := 1; i < 33; i++ {
		k[i] = 0x11
	}
	return k
}

var al = []int{-1}

// ---------------------------------------------------------------------------
// Reference interpretation of the candidate operations (C07), written against
// the property text, not the contract.

type refCand struct {
	legacy     bool
	blob       []byte
	lstate     int64
	structured bool
	addrs      []string
	attrs      [][2]string
	sstate     int64
}

type refCands map[string]*refCand

func (rc refCands) get(k []byte) *refCand {
	c := rc[string(k)]
	if c == nil {
		c = &refCand{}
		rc[string(k)] = c
	}
	return c
}

func (rc refCands) sortedKeys() []string {
	var ks []string
	for k, c := range rc {
		if c.legacy || c.structured {
			ks = append(ks, k)
		}
	}
	sort.Strings(ks)
	return ks
}

func (rc refCands) legacyList(dropOffline bool) gv {
	var l []gv
	for _, k := range rc.sortedKeys() {
		c := rc[k]
		if c.legacy && !(dropOffline && c.lstate == 2) {
			l = append(l, gList(gBytes(c.blob), gInt(c.lstate)))
		}
	}
	return gListOf(l)
}

func (rc refCands) structuredList() gv {
	var l []gv
	for _, k := range rc.sortedKeys() {
		c := rc[k]
		if c.structured {
			l = append(l, gList(gStrs(c.addrs), gPairs(c.attrs), gBytes([]byte(k)), gInt(c.sstate)))
		}
	}
	return gListOf(l)
}

func hasSigner(op nmOp, i int) bool {
	for _, s := range op.Signers {
		if s == i {
			return true
		}
	}
	return false
}

func (n *nmEnv) nodeIndex(key []byte) int {
	for i, nd := range n.nodes {
		if string(nd.pub) == string(key) {
			return i
		}
	}
	return nmNoNode
}

// nmNoNode: the key belongs to no node of the pool (must not collide with the
// negative signer indices -1..-4 of the committee principals).
const nmNoNode = -100

// expectCand says whether the property expects the candidate operation to
// succeed and applies its effect to the reference set.
func (n *nmEnv) expectCand(rc refCands, op nmOp) (ok bool, events []gv) {
	alpha := n.alphaOf(op)
	switch op.Kind {
	case "addPeer", "addPeerIR":
		if len(op.Info) < 35 {
			return false, nil
		}
		key := op.Info[2:35]
		if op.Kind == "addPeer" && !hasSigner(op, n.nodeIndex(key)) {
			return false, nil
		}
		if !alpha {
			return false, nil
		}
		c := rc.get(key)
		c.legacy, c.blob, c.lstate = true, op.Info, 1
		return true, []gv{gList(gInt(0), gBytes(key))}
	case "addNode":
		if op.State != 1 || len(op.Key) != 33 || !hasSigner(op, n.nodeIndex(op.Key)) || !alpha {
			return false, nil
		}
		c := rc.get(op.Key)
		c.structured, c.addrs, c.attrs, c.sstate = true, op.Addrs, op.Attrs, 1
		return true, []gv{gList(gInt(1), gBytes(op.Key), gStrs(op.Addrs), gPairs(op.Attrs))}
	case "deleteNode", "updateState", "updateStateIR":
		st := op.State
		if op.Kind == "deleteNode" {
			st = 2
		}
		if op.Kind != "updateStateIR" && len(op.Key) != 33 {
			return false, nil
		}
		if op.Kind == "updateState" && !hasSigner(op, n.nodeIndex(op.Key)) {
			return false, nil
		}
		if !alpha {
			return false, nil
		}
		c := rc[string(op.Key)]
		switch st {
		case 2:
			if len(op.Key) != 33 { // updateStateIR only: the notification needs a public key
				return false, nil
			}
			if c != nil {
				c.legacy, c.structured = false, false
			}
		case 1, 3:
			if c == nil || !(c.legacy || c.structured) {
				return false, nil
			}
			if c.legacy {
				c.lstate = st
			}
			if c.structured {
				c.sstate = st
			}
		default:
			return false, nil
		}
		return true, []gv{gList(gInt(2), gBytes(op.Key), gInt(st))}
	}
	return false, nil
}

// ---------------------------------------------------------------------------
// Monitors

type nmMon struct {
	prop string
	st   *Stats
	n    *nmEnv
	rc   refCands
	// C06
	subs     []int // probe indices in subscription order (-1 = balance)
	epoch    int64
	block    int64
	lastNet  gv
	probeTot []int64
	// C08 reference history
	pubL       map[int64]gv
	pub2       map[int64]gv
	count      int64
	w          int64 // ghost window of the ring
	w2         int64 // ghost window of the per-epoch lists
	cur        int64 // ring index, from the raw storage read of the previous step
	lastResize int
	leaky      bool // a jump tick happened: lists outside the window are not checked against "empty"
	putNil     int
	sig        strings.Builder
	flags      map[string]bool
	resizeKeys map[string]bool
}

func newNmMon(prop string, st *Stats, n *nmEnv) *nmMon {
	m := &nmMon{prop: prop, st: st, n: n, rc: refCands{}, pubL: map[int64]gv{}, pub2: map[int64]gv{},
		count: 10, w: 10, w2: 10, lastNet: gListOf(nil), flags: map[string]bool{}, resizeKeys: map[string]bool{}}
	if n.hasBalance {
		m.subs = append(m.subs, -1)
	}
	m.probeTot = make([]int64, len(n.probes))
	return m
}

func (m *nmMon) violate(h *nmHistory, what string) {
	var ops []string
	for _, o := range h.all {
		ops = append(ops, o.String())
	}
	m.st.AddViolation(what, map[string]any{"ops": h.all, "readable": ops})
}

func (m *nmMon) published(e int64, structured bool) gv {
	mp := m.pubL
	if structured {
		mp = m.pub2
	}
	if v, ok := mp[e]; ok {
		return v
	}
	return gListOf(nil)
}

func (m *nmMon) step(h *nmHistory, from, to int) {
	n := m.n
	for i := from; i < to; i++ {
		s := h.steps[i]
		op, res := s.op, s.res
		alpha := n.alphaOf(op)
		oc := "H"
		if !res.halt {
			oc = "F"
		}
		fmt.Fprintf(&m.sig, "%s:%s;", op.Kind, oc)
		if !res.halt && len(res.events) != 0 {
			m.violate(h, "a faulted invocation left notifications: "+op.String())
		}
		switch op.Kind {
		case "addPeer", "addPeerIR", "addNode", "deleteNode", "updateState", "updateStateIR":
			ok, evs := n.expectCand(m.rc, op)
			if ok != res.halt {
				m.violate(h, fmt.Sprintf("%s: property expects success=%v, contract halted=%v (%s)", op.String(), ok, res.halt, res.fault))
				return
			}
			if ok {
				m.flags["candAccepted"] = true
				if !gListOf(evs).eq(gListOf(res.events)) {
					m.violate(h, fmt.Sprintf("%s: notifications %s, expected %s", op.String(), gListOf(res.events).key(), gListOf(evs).key()))
				}
			} else {
				m.flags["candRefused"] = true
			}
		case "subscribe":
			pi := -2
			for j, p := range n.probes {
				if string(p.BytesBE()) == string(op.Hash) {
					pi = j
				}
			}
			if n.hasBalance && string(op.Hash) == string(n.balance.BytesBE()) {
				pi = -1
			}
			want := alpha && pi != -2
			if want != res.halt {
				m.violate(h, fmt.Sprintf("%s: expected success=%v, halted=%v (%s)", op.String(), want, res.halt, res.fault))
				return
			}
			if res.halt {
				known := false
				for _, x := range m.subs {
					if x == pi {
						known = true
					}
				}
				if known {
					m.flags["resubscribe"] = true
					if len(res.events) != 0 {
						m.violate(h, "second subscription emitted a notification: "+op.String())
					}
				} else {
					m.subs = append(m.subs, pi)
					if len(res.events) != 1 || !res.events[0].eq(gList(gInt(4), gBytes(op.Hash))) {
						m.violate(h, "first subscription without its NewEpochSubscription notification: "+op.String())
					}
				}
			}
		case "newEpoch":
			want := alpha && op.Epoch > m.epoch
			var calls []gv
			for _, x := range m.subs {
				if x >= 0 {
					if e, ok := s.rej[x]; ok && e == op.Epoch {
						want = false
					}
					calls = append(calls, gList(gInt(5), gBytes(n.probes[x].BytesBE()), gInt(op.Epoch)))
				}
			}
			if want != res.halt {
				m.violate(h, fmt.Sprintf("%s at epoch %d: property expects success=%v, contract halted=%v (%s)", op.String(), m.epoch, want, res.halt, res.fault))
				return
			}
			if res.halt {
				m.flags["tick"] = true
				if len(calls) > 0 {
					m.flags["tickWithSubs"] = true
				}
				exp := gListOf(append(calls, gList(gInt(3), gInt(op.Epoch))))
				if !exp.eq(gListOf(res.events)) {
					m.violate(h, fmt.Sprintf("%s: fan-out/notification stream %s, expected %s", op.String(), gListOf(res.events).key(), exp.key()))
				}
				if m.prop == "C08" && op.Epoch != m.epoch+1 {
					// a jump tick (outside C08's quantifier, used by the corpus to cross the byte
					// boundaries of the four-byte epoch key): the legacy ring counts TICKS, so the
					// reference maps are re-keyed to keep "d ticks ago" = "epoch - d"; the
					// per-epoch lists of the epochs before the jump are no longer cleaned up
					// (leaky: compared with the model only), the list window restarts
					shift := op.Epoch - (m.epoch + 1)
					re := map[int64]gv{}
					for k, v := range m.pubL {
						re[k+shift] = v
					}
					m.pubL = re
					m.w2 = 0
					m.leaky = true
				}
				m.epoch = op.Epoch
				m.block = int64(res.height)
				m.pubL[op.Epoch] = m.rc.legacyList(true)
				m.pub2[op.Epoch] = m.rc.structuredList()
				m.lastNet = m.pubL[op.Epoch]
				if m.w+1 <= m.count {
					m.w++
				}
				if m.w2+1 <= m.count {
					m.w2++
				}
				for _, x := range m.subs {
					if x >= 0 {
						m.probeTot[x]++
					}
				}
			} else {
				m.flags["tickRefused"] = true
			}
		case "updateSnapshotCount":
			valid := alpha && op.Count > 0 && op.Count < 255 && op.Count != m.count
			if !valid {
				if res.halt {
					m.violate(h, fmt.Sprintf("%s accepted (count was %d)", op.String(), m.count))
					return
				}
				break
			}
			// A valid request is rejected exactly where it would have to move a slot
			// left empty by an earlier enlargement (storage.Put(nil)); see the model.
			old, nw, id := m.count, op.Count, m.cur
			var nilMove bool
			switch {
			case old < nw:
				nilMove = id <= old-2 && m.w < old
			case id < nw:
				nilMove = id+1 <= nw-1 && m.w < nw
			default:
				nilMove = m.w < nw
			}
			if !res.halt {
				if !nilMove || !(strings.Contains(res.fault, "Null/ByteString") || strings.Contains(res.fault, "System.Storage.Put")) {
					m.violate(h, fmt.Sprintf("%s rejected (count %d, ring index %d, window %d): %s", op.String(), m.count, id, m.w, res.fault))
					return
				}
				m.putNil++
				m.flags["putNil"] = true
				m.resizeKeys[fmt.Sprintf("%d>%d@e%d:nil", m.count, op.Count, m.epoch%m.count)] = true
				break
			}
			if nilMove {
				m.violate(h, fmt.Sprintf("%s accepted although an empty slot had to be moved (count %d, ring index %d, window %d)", op.String(), m.count, id, m.w))
			}
			m.resizeKeys[fmt.Sprintf("%d>%d@e%d:w%d", m.count, op.Count, m.epoch%m.count, m.w)] = true
			m.flags["resize"] = true
			m.lastResize = len(h.steps)
			if op.Count < m.w {
				m.w = op.Count
			}
			if op.Count < m.w2 {
				m.w2 = op.Count
			}
			m.count = op.Count
		case "setConfig":
			want := alpha && len(op.CfgKey) <= 58
			if want != res.halt {
				m.violate(h, fmt.Sprintf("%s: expected success=%v, halted=%v", op.String(), want, res.halt))
			}
		}
	}
	// reads after the block
	s := h.steps[to-1]
	chk := func(kind string, z int64, want gv, what string) {
		got, ok := s.get(kind, z)
		if ok && !got.eq(want) {
			m.violate(h, fmt.Sprintf("after %s: %s = %s, expected %s", s.op.String(), what, got.key(), want.key()))
		}
	}
	if c, ok := s.get("QCur", 0); ok {
		m.cur = c.i.Int64()
	}
	chk("QCount", 0, gInt(m.count), "snapshotCount")
	chk("QEpoch", 0, gInt(m.epoch), "epoch()")
	chk("QBlock", 0, gInt(m.block), "lastEpochBlock()")
	chk("QCandidates", 0, m.rc.legacyList(false), "netmapCandidates()")
	chk("QListCandidates", 0, m.rc.structuredList(), "listCandidates()")
	if m.flags["jump"] && m.prop == "C08" {
		return
	}
	if m.w > 0 {
		chk("QNetmap", 0, m.published(m.epoch, false), "netmap()")
	}
	var subKeys []gv
	for j, x := range m.subs {
		hsh := n.balance.BytesBE()
		if x >= 0 {
			hsh = n.probes[x].BytesBE()
		}
		subKeys = append(subKeys, gBytes(append([]byte{byte(j)}, hsh...)))
	}
	chk("QSubscribers", 0, gListOf(subKeys), "subscriber keys")
	for j, q := range s.queries {
		got := s.answers[j]
		switch q.kind {
		case "QSnapshot", "QSnapshotByEpoch":
			if m.prop != "C08" {
				continue // histories with epoch jumps: compared with the model only
			}
			d := q.z
			name := fmt.Sprintf("snapshot(%d)", d)
			if q.kind == "QSnapshotByEpoch" {
				d = m.epoch - q.z
				name = fmt.Sprintf("snapshotByEpoch(%d)", q.z)
			}
			var want gv
			switch {
			case d < 0 || d >= m.count:
				want = gFault
			case d < m.w:
				want = m.published(m.epoch-d, false)
			default:
				want = gListOf(nil)
			}
			if !got.eq(want) {
				m.violate(h, fmt.Sprintf("after %s (epoch %d, count %d, window %d): %s = %s, expected %s", s.op.String(), m.epoch, m.count, m.w, name, got.key(), want.key()))
			}
		case "QListNodes":
			e := q.z
			want := gListOf(nil)
			if e > m.epoch-m.w2 && e <= m.epoch && e >= 1 {
				want = m.published(e, true)
			}
			if m.prop != "C08" && !(e > m.epoch-m.w2 && e <= m.epoch) {
				// with epoch jumps (C06/C07 histories) lists of skipped-over epochs are
				// not cleaned up: outside C08's quantifier, compared with the model only
				continue
			}
			if m.leaky && !(e > m.epoch-m.w2 && e <= m.epoch) {
				continue
			}
			if e < 0 && m.epoch >= 128 {
				continue // four-byte key aliasing of negative arguments (observation, see report)
			}
			if !got.eq(want) {
				m.violate(h, fmt.Sprintf("after %s (epoch %d, count %d, window %d): listNodes(%d) = %s, expected %s", s.op.String(), m.epoch, m.count, m.w2, e, got.key(), want.key()))
			}
		}
	}
	// probes: every subscribed probe saw exactly one call per successful tick
	for j := range n.probes {
		tot := n.ReadInt(n.probes[j], "total").Int64()
		if tot != m.probeTot[j] {
			m.violate(h, fmt.Sprintf("probe %d accepted %d newEpoch calls, expected %d", j, tot, m.probeTot[j]))
			m.probeTot[j] = tot
		}
		if m.probeTot[j] > 0 && s.op.Kind == "newEpoch" && s.res.halt {
			if c := n.ReadInt(n.probes[j], "calls", m.epoch).Int64(); c > 1 {
				m.violate(h, fmt.Sprintf("probe %d called %d times for epoch %d", j, c, m.epoch))
			}
		}
	}
}

// ---------------------------------------------------------------------------
// Projections

func projCommon(n *nmEnv, tr *nmTrack, op nmOp) []nmQuery {
	return []nmQuery{{kind: "QEpoch"}, {kind: "QBlock"}, {kind: "QNetmap"}, {kind: "QCandidates"}, {kind: "QListCandidates"}}
}

func projC06(n *nmEnv, tr *nmTrack, op nmOp) []nmQuery {
	qs := projCommon(n, tr, op)
	qs = append(qs, nmQuery{kind: "QSubscribers"})
	for e := tr.epoch - 2; e <= tr.epoch+1; e++ {
		qs = append(qs, nmQuery{kind: "QListNodes", z: e})
	}
	qs = append(qs, nmQuery{kind: "QSnapshot", z: 1})
	if op.Kind == "newEpoch" {
		qs = append(qs, nmQuery{kind: "QListNodes", z: op.Epoch})
	}
	if op.Kind == "setConfig" {
		qs = append(qs, nmQuery{kind: "QConfig", b: op.CfgKey}, nmQuery{kind: "QListConfig"},
			nmQuery{kind: "QConfig", b: []byte("MaxObjectSize")}, nmQuery{kind: "QConfig", b: []byte("nope")})
	}
	return qs
}

func projC07(n *nmEnv, tr *nmTrack, op nmOp) []nmQuery {
	qs := projCommon(n, tr, op)
	qs = append(qs, nmQuery{kind: "QListNodes", z: tr.epoch})
	return qs
}

func projC08(n *nmEnv, tr *nmTrack, op nmOp) []nmQuery {
	qs := []nmQuery{{kind: "QEpoch"}, {kind: "QNetmap"}, {kind: "QCount"}, {kind: "QCur"}}
	if op.Kind != "newEpoch" && op.Kind != "updateSnapshotCount" {
		return append(qs, nmQuery{kind: "QCandidates"}, nmQuery{kind: "QListCandidates"})
	}
	if op.Light {
		return append(qs, nmQuery{kind: "QSnapshot", z: 0}, nmQuery{kind: "QSnapshot", z: 1}, nmQuery{kind: "QListNodes", z: tr.epoch})
	}
	for d := int64(-1); d <= tr.count+1; d++ {
		qs = append(qs, nmQuery{kind: "QSnapshot", z: d})
	}
	for e := tr.epoch - tr.count - 1; e <= tr.epoch+1; e++ {
		qs = append(qs, nmQuery{kind: "QSnapshotByEpoch", z: e})
	}
	lo := tr.epoch - 14
	if tr.epoch <= 45 && lo > 0 {
		lo = 0 // every epoch from 0 to the current one: nothing older than the window may remain
	}
	for e := lo; e <= tr.epoch+1; e++ {
		qs = append(qs, nmQuery{kind: "QListNodes", z: e})
	}
	return qs
}

// ---------------------------------------------------------------------------
// Generators

type nmGen struct {
	r    *rand.Rand
	n    *nmEnv
	prop string
	// C08 plan
	plan []nmOp
	// last well-formed announcements per node, for re-announcements with an
	// identical descriptor (nodes re-announce themselves every epoch)
	lastInfo map[int][]byte
	lastNode map[int]nmOp
	// operations already decided (the rest of a block pattern)
	queue []nmOp
}

// blockPattern returns 2-3 operations to be packed into ONE block (several
// transactions per block): two individually valid ticks (e+1, e+2), tick +
// candidate change + tick, subscription + tick, candidate change + tick.
func (g *nmGen) blockPattern(step int, tr *nmTrack) []nmOp {
	r := g.r
	tick := func(e int64) nmOp { return nmOp{Kind: "newEpoch", Epoch: e, Signers: []int{-1}} }
	var ops []nmOp
	switch r.Intn(5) {
	case 0:
		ops = []nmOp{tick(tr.epoch + 1), tick(tr.epoch + 2)}
	case 1:
		ops = []nmOp{tick(tr.epoch + 1), g.candOp(step, byte(step)), tick(tr.epoch + 2)}
	case 2:
		if len(g.n.probes) > 0 {
			ops = []nmOp{{Kind: "subscribe", Hash: g.n.probes[r.Intn(len(g.n.probes))].BytesBE(), Signers: []int{-1}}, tick(tr.epoch + 1)}
		} else {
			ops = []nmOp{tick(tr.epoch + 1), tick(tr.epoch + 1), tick(tr.epoch + 3)}
		}
	case 3:
		ops = []nmOp{g.candOp(step, byte(step)), tick(tr.epoch + 1), g.candOp(step, byte(step+100))}
	default:
		ops = []nmOp{tick(tr.epoch + 1), tick(tr.epoch + 5), tick(tr.epoch + 2)}
	}
	for i := range ops[:len(ops)-1] {
		ops[i].Join = true
	}
	ops[len(ops)-1].Join = false
	return ops
}

// pop returns the next operation of a pattern in progress.
func (g *nmGen) pop() (nmOp, bool) {
	if len(g.queue) == 0 {
		return nmOp{}, false
	}
	op := g.queue[0]
	g.queue = g.queue[1:]
	return op, true
}

func (g *nmGen) keyOf(i int) []byte { return g.n.nodes[i].pub }

func (g *nmGen) anyKey() []byte {
	r := g.r
	switch r.Intn(14) {
	case 0:
		return nmGhostKey()
	case 1:
		return g.keyOf(r.Intn(len(g.n.nodes)))[:32]
	case 2:
		return append(append([]byte{}, g.keyOf(r.Intn(len(g.n.nodes)))...), 7)
	case 3:
		return []byte{}
	case 4:
		return make([]byte, 56+r.Intn(3)) // around the storage key length limit
	}
	return g.keyOf(r.Intn(len(g.n.nodes)))
}

func (g *nmGen) anyState() int64 {
	switch g.r.Intn(12) {
	case 0:
		return 0
	case 1:
		return 4
	case 2:
		return -1
	case 3, 4, 5:
		return 2
	case 6, 7, 8:
		return 3
	}
	return 1
}

// signers for an operation that needs node i (or -2: none) and the Alphabet
func (g *nmGen) sig(node int, needNode bool) []int {
	r := g.r
	nn := len(g.n.nodes)
	switch r.Intn(12) {
	case 0:
		if node >= 0 {
			return []int{node} // Alphabet missing
		}
		return []int{r.Intn(nn)}
	case 1:
		o := node
		if o < 0 {
			o = 0
		}
		return []int{-1, (o + 1 + r.Intn(nn-1)) % nn} // another node's witness
	case 2:
		return []int{-1} // node missing (fine for IR methods)
	}
	if needNode && node >= 0 {
		return []int{-1, node}
	}
	return []int{-1}
}

// unscope moves one of the signers of a candidate request to scope None
// (one time in eight): a None-scoped signature witnesses nothing, so the
// request must be treated as if that signer were absent.
func (g *nmGen) unscope(op nmOp) nmOp {
	if len(op.Signers) == 0 || g.r.Intn(8) != 0 {
		return op
	}
	j := g.r.Intn(len(op.Signers))
	keep := []int{}
	for i, x := range op.Signers {
		if i == j {
			op.Unscoped = append(op.Unscoped, x)
		} else {
			keep = append(keep, x)
		}
	}
	op.Signers = keep
	return op
}

// reInfo returns a legacy node info for node i: the one announced last time
// (identical re-announcement) in two cases out of five, a fresh one otherwise.
func (g *nmGen) reInfo(i int, tag byte) []byte {
	if last, ok := g.lastInfo[i]; ok && g.r.Intn(5) < 2 {
		return append([]byte{}, last...)
	}
	info := g.n.info(i, tag, 3+g.r.Intn(3))
	if g.lastInfo == nil {
		g.lastInfo = map[int][]byte{}
	}
	g.lastInfo[i] = append([]byte{}, info...)
	return info
}

func (g *nmGen) candOp(step int, tag byte) nmOp {
	r := g.r
	nn := len(g.n.nodes)
	i := r.Intn(nn)
	switch w := r.Intn(100); {
	case w < 16:
		info := g.reInfo(i, tag)
		if r.Intn(8) == 0 {
			info = info[:r.Intn(36)]
		}
		return nmOp{Kind: "addPeer", Info: info, Signers: g.sig(i, true)}
	case w < 30:
		info := g.reInfo(i, tag)
		if r.Intn(8) == 0 {
			info = info[:33+r.Intn(3)]
		}
		return nmOp{Kind: "addPeerIR", Info: info, Signers: g.sig(i, false)}
	case w < 48:
		if last, ok := g.lastNode[i]; ok && r.Intn(5) < 2 {
			// re-announcement with an identical descriptor, whatever happened to the
			// candidate since (state change, removal): must store it as Online again
			last.Signers = g.sig(i, true)
			return last
		}
		st := int64(1)
		if r.Intn(8) == 0 {
			st = g.anyState()
		}
		key := g.keyOf(i)
		if r.Intn(10) == 0 {
			key = g.anyKey()
		}
		addrs := []string{fmt.Sprintf("a%d-%d", i, tag)}
		if r.Intn(3) == 0 {
			addrs = append(addrs, "x")
		}
		attrs := [][2]string{{"e", fmt.Sprint(tag)}}
		if r.Intn(2) == 0 {
			attrs = append(attrs, [2]string{"Capacity", fmt.Sprint(100 + i)})
		}
		if r.Intn(6) == 0 {
			addrs, attrs = nil, nil
		}
		op := nmOp{Kind: "addNode", Addrs: addrs, Attrs: attrs, Key: key, State: st, Signers: g.sig(g.n.nodeIndex(key), true)}
		if st == 1 && string(key) == string(g.keyOf(i)) {
			if g.lastNode == nil {
				g.lastNode = map[int]nmOp{}
			}
			g.lastNode[i] = op
		}
		return op
	case w < 60:
		key := g.anyKey()
		return nmOp{Kind: "deleteNode", Key: key, Signers: g.sig(g.n.nodeIndex(key), false)}
	case w < 80:
		key := g.anyKey()
		return nmOp{Kind: "updateState", State: g.anyState(), Key: key, Signers: g.sig(g.n.nodeIndex(key), true)}
	default:
		key := g.anyKey()
		return nmOp{Kind: "updateStateIR", State: g.anyState(), Key: key, Signers: g.sig(g.n.nodeIndex(key), false)}
	}
}

func (g *nmGen) tickOp(tr *nmTrack) nmOp {
	r := g.r
	var e int64
	switch r.Intn(12) {
	case 0:
		e = tr.epoch - 1
	case 1:
		e = tr.epoch
	case 2:
		e = tr.epoch + 5
	case 3:
		e = 0
	case 4:
		e = -1
	default:
		e = tr.epoch + 1
	}
	sg := []int{-1}
	if r.Intn(10) == 0 {
		sg = []int{r.Intn(len(g.n.nodes))}
	}
	return nmOp{Kind: "newEpoch", Epoch: e, Signers: sg}
}

// twinPattern puts the SAME key into both candidate formats and lets the two
// records diverge (state and descriptor) before a tick: legacy and structured
// record in either order, a state change that hits whatever exists at that
// moment, one of the twins re-announced (back to Online) or both removed and
// one re-added, then the tick that publishes both maps.
func (g *nmGen) twinPattern(step int, tr *nmTrack) []nmOp {
	r := g.r
	i := r.Intn(len(g.n.nodes))
	key := g.keyOf(i)
	tag := byte(step)
	legacy := func() nmOp {
		if r.Intn(2) == 0 {
			return nmOp{Kind: "addPeerIR", Info: g.n.info(i, tag+byte(r.Intn(3)), 3), Signers: []int{-1}}
		}
		return nmOp{Kind: "addPeer", Info: g.n.info(i, tag+byte(r.Intn(3)), 3), Signers: []int{-1, i}}
	}
	structured := func() nmOp {
		return nmOp{Kind: "addNode", Addrs: []string{fmt.Sprintf("tw%d-%d", i, r.Intn(3))}, Attrs: [][2]string{{"t", fmt.Sprint(r.Intn(3))}},
			Key: key, State: 1, Signers: []int{-1, i}}
	}
	state := func(st int64) nmOp {
		if r.Intn(2) == 0 {
			return nmOp{Kind: "updateStateIR", State: st, Key: key, Signers: []int{-1}}
		}
		return nmOp{Kind: "updateState", State: st, Key: key, Signers: []int{-1, i}}
	}
	var ops []nmOp
	first, second := legacy, structured
	if r.Intn(2) == 0 {
		first, second = structured, legacy
	}
	ops = append(ops, first())
	if r.Intn(2) == 0 {
		ops = append(ops, state(3)) // only the first twin exists yet
	}
	ops = append(ops, second())
	switch r.Intn(5) {
	case 0:
		ops = append(ops, state(3), first()) // both in Maintenance, one back to Online
	case 1:
		ops = append(ops, state(3), second())
	case 2:
		ops = append(ops, state(2), first()) // both removed, one twin re-added
	case 3:
		ops = append(ops, state(3), state(1), second())
	}
	ops = append(ops, nmOp{Kind: "newEpoch", Epoch: tr.epoch + 1, Signers: []int{-1}})
	if r.Intn(3) == 0 {
		ops = append(ops, state(3), nmOp{Kind: "newEpoch", Epoch: tr.epoch + 2, Signers: []int{-1}})
	}
	return ops
}

func (g *nmGen) nextC06(step int, tr *nmTrack) nmOp {
	r := g.r
	n := g.n
	var op nmOp
	if q, ok := g.pop(); ok {
		return q
	}
	if r.Intn(9) == 0 {
		g.queue = g.twinPattern(step, tr)
		q, _ := g.pop()
		return q
	}
	if r.Intn(7) == 0 {
		g.queue = g.blockPattern(step, tr)
		q, _ := g.pop()
		return q
	}
	switch w := r.Intn(100); {
	case w < 30:
		op = g.unscope(g.candOp(step, byte(step)))
	case w < 48:
		// subscription
		var h []byte
		switch x := r.Intn(10); {
		case x < 7 && len(n.probes) > 0:
			h = n.probes[r.Intn(len(n.probes))].BytesBE()
		case x == 7:
			h = n.caller.BytesBE() // deployed, no newEpoch method
		case x == 8:
			h = []byte{1, 2, 3}
		default:
			h = make([]byte, 20)
			h[3] = 9
		}
		if n.hasBalance && r.Intn(8) == 0 {
			h = n.balance.BytesBE()
		}
		sg := []int{-1}
		if r.Intn(8) == 0 {
			sg = []int{r.Intn(len(n.nodes))}
		}
		op = nmOp{Kind: "subscribe", Hash: h, Signers: sg}
	case w < 58 && len(n.probes) > 0:
		p := r.Intn(len(n.probes))
		if _, ok := n.rej[p]; ok && r.Intn(3) != 0 {
			return nmOp{Kind: "probeClearFault", Probe: p}
		}
		return nmOp{Kind: "probeSetFault", Probe: p, Epoch: tr.epoch + 1 + int64(r.Intn(2))}
	case w < 64:
		k := []byte(fmt.Sprintf("key%d", r.Intn(3)))
		if r.Intn(5) == 0 {
			k = make([]byte, 57+r.Intn(3))
		}
		sg := []int{-1}
		if r.Intn(6) == 0 {
			sg = []int{0}
		}
		op = nmOp{Kind: "setConfig", CfgKey: k, CfgVal: []byte{byte(step)}, Signers: sg}
		if r.Intn(4) == 0 {
			op.CfgVal = []byte{}
		}
	default:
		op = g.tickOp(tr)
	}
	if r.Intn(4) == 0 {
		op.Join = true
	}
	return op
}

func (g *nmGen) nextC07(step int, tr *nmTrack) nmOp {
	if q, ok := g.pop(); ok {
		return q
	}
	if g.r.Intn(12) == 0 {
		g.queue = g.blockPattern(step, tr)
		q, _ := g.pop()
		return q
	}
	if g.r.Intn(9) == 0 {
		return g.tickOp(tr)
	}
	op := g.unscope(g.candOp(step, byte(step)))
	if g.r.Intn(5) == 0 {
		op.Join = true // several candidate requests in one block
	}
	return op
}

// planC08 builds a history of the quantifier's scope: ticks[0] consecutive
// epochs with distinct candidate sets, resize to counts[0], ticks[1] epochs,
// resize to counts[1], ticks[2] epochs, optionally a third resize and more.
func (g *nmGen) planC08(counts []int64, ticks []int, lightWarmup bool) {
	n := g.n
	epoch := int64(0)
	nn := len(n.nodes)
	light := false
	joinNext := false
	prevJoined := false
	tick := func() {
		epoch++
		inBlock := light || prevJoined // the candidate changes share the block of the tick(s)
		i := int(epoch) % nn
		tag := byte(epoch)
		if g.r.Intn(7) == 0 {
			// an epoch that publishes EMPTY maps in both formats
			for j := 0; j < nn; j++ {
				g.plan = append(g.plan, nmOp{Kind: "deleteNode", Key: n.nodes[j].pub, Signers: al, Join: inBlock})
			}
			g.plan = append(g.plan, nmOp{Kind: "newEpoch", Epoch: epoch, Signers: al, Light: light, Join: joinNext})
			prevJoined = joinNext
			return
		}
		// make this epoch's candidate sets distinguishable in both formats
		// warm-up ticks: the candidate changes share the block of the tick (several transactions per block)
		g.plan = append(g.plan, nmOp{Kind: "addPeerIR", Info: n.info(i, tag, 2), Signers: al, Join: inBlock})
		g.plan = append(g.plan, nmOp{Kind: "addNode", Addrs: []string{fmt.Sprintf("a%d", epoch)}, Attrs: [][2]string{{"e", fmt.Sprint(epoch)}},
			Key: n.nodes[i].pub, State: 1, Signers: []int{-1, i}, Join: inBlock})
		if g.r.Intn(4) == 0 {
			j := g.r.Intn(nn)
			if j != i {
				g.plan = append(g.plan, nmOp{Kind: "deleteNode", Key: n.nodes[j].pub, Signers: al, Join: inBlock})
			}
		}
		if g.r.Intn(5) == 0 {
			g.plan = append(g.plan, nmOp{Kind: "updateStateIR", State: 3, Key: n.nodes[i].pub, Signers: al, Join: inBlock})
		}
		if g.r.Intn(12) == 0 {
			g.plan = append(g.plan, nmOp{Kind: "newEpoch", Epoch: epoch, Signers: []int{i}, Join: inBlock}) // not the Alphabet: inert
		}
		// one time in six the tick shares its block with the candidate changes and the
		// tick of the next epoch: [newEpoch(e), addPeerIR, addNode, newEpoch(e+1)]
		g.plan = append(g.plan, nmOp{Kind: "newEpoch", Epoch: epoch, Signers: al, Light: light, Join: joinNext})
		prevJoined = joinNext
	}
	for k := 0; k < len(ticks); k++ {
		for j := 0; j < ticks[k]; j++ {
			// warm-up ticks long before the next resize are observed through the short projection
			light = lightWarmup && k < len(counts) && j < ticks[k]-2
			joinNext = j+1 < ticks[k] && g.r.Intn(6) == 0
			tick()
		}
		if k < len(counts) {
			g.plan = append(g.plan, nmOp{Kind: "updateSnapshotCount", Count: counts[k], Signers: al})
		}
	}
}

// ---------------------------------------------------------------------------
// Corpora (hand-written boundary histories, always run first)

func nmCorpus(prop string, n *nmEnv) [][]nmOp {
	k0, k1 := n.nodes[0].pub, n.nodes[1].pub
	var p0, p1 []byte
	if len(n.probes) > 1 {
		p0, p1 = n.probes[0].BytesBE(), n.probes[1].BytesBE()
	}
	addN := func(i int, tag string) nmOp {
		return nmOp{Kind: "addNode", Addrs: []string{"grpc://" + tag}, Attrs: [][2]string{{"k", tag}}, Key: n.nodes[i].pub, State: 1, Signers: []int{-1, i}}
	}
	tick := func(e int64) nmOp { return nmOp{Kind: "newEpoch", Epoch: e, Signers: al} }
	resize := func(c int64) nmOp { return nmOp{Kind: "updateSnapshotCount", Count: c, Signers: al} }
	var ticks = func(from, to int64) []nmOp {
		var out []nmOp
		for e := from; e <= to; e++ {
			out = append(out, nmOp{Kind: "addPeerIR", Info: n.info(int(e)%len(n.nodes), byte(e), 2), Signers: al}, addN(int(e)%len(n.nodes), fmt.Sprint(e)), tick(e))
		}
		return out
	}
	// emptyTick: every candidate (both formats) is removed, then the tick publishes empty maps
	emptyTick := func(e int64) []nmOp {
		var out []nmOp
		for i := range n.nodes {
			out = append(out, nmOp{Kind: "deleteNode", Key: n.nodes[i].pub, Signers: al})
		}
		return append(out, tick(e))
	}
	_ = emptyTick
	cat := func(xs ...[]nmOp) []nmOp {
		var out []nmOp
		for _, x := range xs {
			out = append(out, x...)
		}
		return out
	}
	// re-announcements: add of a key that already is (or was) a candidate, with an
	// identical and with a changed descriptor, from Online, from Maintenance and after
	// removal, in the legacy list (node 0: addPeer / addPeerIR), the structured list
	// (node 1) and both (node 2). Adding always stores the node as Online, replaces
	// older info and is announced.
	reannounce := func() []nmOp {
		var out []nmOp
		peer := func(i int, tag byte) nmOp {
			return nmOp{Kind: "addPeer", Info: n.info(i, tag, 4), Signers: []int{-1, i}}
		}
		peerIR := func(i int, tag byte) nmOp { return nmOp{Kind: "addPeerIR", Info: n.info(i, tag, 4), Signers: al} }
		maint := func(i int) nmOp {
			return nmOp{Kind: "updateState", State: 3, Key: n.nodes[i].pub, Signers: []int{-1, i}}
		}
		maintIR := func(i int) nmOp { return nmOp{Kind: "updateStateIR", State: 3, Key: n.nodes[i].pub, Signers: al} }
		del := func(i int) nmOp { return nmOp{Kind: "deleteNode", Key: n.nodes[i].pub, Signers: al} }
		off := func(i int) nmOp {
			return nmOp{Kind: "updateState", State: 2, Key: n.nodes[i].pub, Signers: []int{-1, i}}
		}
		// legacy only
		out = append(out, peer(0, 1), peer(0, 1), maint(0), peer(0, 1), maintIR(0), peer(0, 2), maint(0), peerIR(0, 2),
			del(0), peer(0, 2), off(0), peerIR(0, 2), peerIR(0, 2), maintIR(0), peerIR(0, 3))
		// structured only
		out = append(out, addN(1, "x"), addN(1, "x"), maint(1), addN(1, "x"), maintIR(1), addN(1, "y"), maint(1), addN(1, "y"),
			del(1), addN(1, "y"), off(1), addN(1, "x"))
		// both
		out = append(out, peer(2, 1), addN(2, "x"), maint(2), addN(2, "x"), peer(2, 1), maintIR(2), peerIR(2, 1), addN(2, "x"),
			maint(2), peer(2, 2), addN(2, "y"), del(2), addN(2, "y"), peer(2, 2), maint(2), tick(1),
			addN(2, "y"), peerIR(2, 2), tick(2))
		return out
	}
	// committee of 3 keys (run on such a chain): every Alphabet-gated request from the
	// committee-majority account (-2), a single member (-3), a multisig below both
	// thresholds (-4) is refused; only the 2n/3+1 account (-1) is the Alphabet
	by := func(op nmOp, sg ...int) nmOp { op.Signers = sg; return op }
	gates := func(op nmOp) []nmOp { return []nmOp{by(op, -2), by(op, -3), by(op, -4), by(op, -2, -3)} }
	// twins: the same key in both candidate formats with diverging states and
	// descriptors, in both orders, each followed by a tick that publishes both maps
	// (legacy map: the legacy record's own state; structured list: the structured one's)
	twins := func() []nmOp {
		var out []nmOp
		e := int64(0)
		tk := func() nmOp { e++; return tick(e) }
		pIR := func(i int, tag byte) nmOp { return nmOp{Kind: "addPeerIR", Info: n.info(i, tag, 3), Signers: al} }
		p := func(i int, tag byte) nmOp {
			return nmOp{Kind: "addPeer", Info: n.info(i, tag, 3), Signers: []int{-1, i}}
		}
		st := func(i int, v int64) nmOp {
			return nmOp{Kind: "updateState", State: v, Key: n.nodes[i].pub, Signers: []int{-1, i}}
		}
		stIR := func(i int, v int64) nmOp {
			return nmOp{Kind: "updateStateIR", State: v, Key: n.nodes[i].pub, Signers: al}
		}
		// structured Maintenance, legacy Online (the demo of the seeded change)
		out = append(out, addN(0, "a"), st(0, 3), pIR(0, 1), tk())
		// legacy Maintenance, structured Online
		out = append(out, p(1, 1), stIR(1, 3), addN(1, "b"), tk())
		// both Maintenance, then each twin alone back to Online
		out = append(out, st(0, 3), addN(0, "a2"), tk(), stIR(0, 3), p(0, 2), tk())
		// both Online -> both Maintenance -> both Online through updateState
		out = append(out, st(1, 3), tk(), st(1, 1), tk())
		// removal takes both twins; one is re-added alone (legacy, then structured)
		out = append(out, stIR(0, 2), pIR(0, 3), tk(), nmOp{Kind: "deleteNode", Key: k0, Signers: al}, addN(0, "a3"), tk())
		// a third key: structured first, Offline legacy never published, diverging descriptors
		out = append(out, addN(2, "c"), pIR(2, 1), st(2, 3), pIR(2, 2), addN(2, "c2"), tk(), stIR(2, 3), addN(2, "c2"), tk())
		return out
	}
	switch prop {
	case "C06":
		return [][]nmOp{
			{ // subscription order (p1 before p0), idempotence, rejected and accepted ticks, jump, several tx per block
				{Kind: "subscribe", Hash: p1, Signers: al},
				{Kind: "subscribe", Hash: p0, Signers: al},
				{Kind: "subscribe", Hash: p0, Signers: al},
				{Kind: "subscribe", Hash: p1, Signers: []int{0}},
				{Kind: "subscribe", Hash: n.caller.BytesBE(), Signers: al},
				{Kind: "subscribe", Hash: []byte{1, 2, 3}, Signers: al},
				{Kind: "addPeer", Info: n.info(0, 1, 4), Signers: []int{-1, 0}},
				{Kind: "addPeerIR", Info: n.info(1, 2, 4), Signers: al},
				addN(0, "n0"),
				{Kind: "updateStateIR", State: 3, Key: k1, Signers: al},
				tick(0), tick(-1),
				{Kind: "newEpoch", Epoch: 1, Signers: []int{0}},
				tick(1), tick(1),
				{Kind: "probeSetFault", Probe: 0, Epoch: 2},
				tick(2),
				tick(3),
				{Kind: "probeClearFault", Probe: 0},
				{Kind: "updateStateIR", State: 2, Key: k0, Signers: al},
				{Kind: "newEpoch", Epoch: 2, Signers: al, Join: true},
				{Kind: "newEpoch", Epoch: 2, Signers: al, Join: true},
				{Kind: "newEpoch", Epoch: 8, Signers: al},
				tick(7),
				{Kind: "setConfig", CfgKey: []byte("k"), CfgVal: []byte("v"), Signers: al},
				{Kind: "setConfig", CfgKey: []byte("k"), CfgVal: []byte{}, Signers: al},
				{Kind: "setConfig", CfgKey: make([]byte, 58), CfgVal: []byte("v"), Signers: al},
				{Kind: "setConfig", CfgKey: make([]byte, 59), CfgVal: []byte("v"), Signers: al},
				{Kind: "setConfig", CfgKey: []byte("k"), CfgVal: []byte("w"), Signers: []int{0}},
			},
			{ // four-byte epoch key aliasing (observation): listNodes(-1) reads epoch 255's list
				addN(0, "n0"),
				tick(255),
				tick(256),
			},
			reannounce(),
			twins(),
			{ // several transactions per block: [newEpoch(2), addPeerIR(n2), newEpoch(3)] - both ticks
				// are individually valid and see the same ledger.CurrentIndex(); then
				// [subscribe, tick], two ticks, tick + refused tick + tick, and a block whose
				// second tick a probe rejects
				{Kind: "addPeerIR", Info: n.info(0, 1, 2), Signers: al},
				tick(1),
				{Kind: "newEpoch", Epoch: 2, Signers: al, Join: true},
				{Kind: "addPeerIR", Info: n.info(2, 2, 2), Signers: al, Join: true},
				tick(3),
				{Kind: "subscribe", Hash: p0, Signers: al, Join: true},
				tick(4),
				{Kind: "newEpoch", Epoch: 5, Signers: al, Join: true},
				tick(6),
				{Kind: "newEpoch", Epoch: 7, Signers: al, Join: true},
				{Kind: "newEpoch", Epoch: 7, Signers: al, Join: true},
				{Kind: "updateStateIR", State: 3, Key: k0, Signers: al, Join: true},
				tick(9),
				{Kind: "probeSetFault", Probe: 0, Epoch: 11},
				{Kind: "newEpoch", Epoch: 10, Signers: al, Join: true},
				tick(11),
				tick(12),
			},
			// epochs around 2^31 and 2^32: the minimal signed little-endian encoding needs a 5th
			// byte from 2^31 on, the four-byte key still distinguishes every epoch below 2^32; at
			// 2^32 and beyond the key wraps (aliases; compared with the model)
			{addN(0, "a"), {Kind: "addPeerIR", Info: n.info(1, 1, 2), Signers: al}, tick(1<<31 - 1), addN(1, "b"), tick(1 << 31), tick(1<<31 + 1),
				{Kind: "updateStateIR", State: 3, Key: k0, Signers: al}, tick(1<<32 - 2), addN(2, "c"), tick(1<<32 - 1), tick(1 << 32), tick(1<<32 + 1)},
			// a non-empty map is published, the candidate set is emptied, then more ticks than
			// the ring has slots: the reused slot must hold the EMPTY map
			cat([]nmOp{{Kind: "addPeerIR", Info: n.info(0, 1, 2), Signers: al}, addN(0, "n0"), tick(1), {Kind: "deleteNode", Key: k0, Signers: al}},
				func() []nmOp {
					var out []nmOp
					for e := int64(2); e <= 13; e++ {
						out = append(out, tick(e))
					}
					return out
				}()),
			// LAST: run on a 3-key committee, probes only (no subscriber checks the Alphabet itself)
			cat(gates(nmOp{Kind: "subscribe", Hash: p0}), []nmOp{{Kind: "subscribe", Hash: p0, Signers: al}},
				gates(nmOp{Kind: "addPeerIR", Info: n.info(0, 1, 2)}), []nmOp{{Kind: "addPeerIR", Info: n.info(0, 1, 2), Signers: al}},
				gates(tick(1)), []nmOp{tick(1)},
				gates(nmOp{Kind: "setConfig", CfgKey: []byte("k"), CfgVal: []byte("v")}), []nmOp{{Kind: "setConfig", CfgKey: []byte("k"), CfgVal: []byte("v"), Signers: al}},
				[]nmOp{by(tick(2), -2, 0), by(tick(2), -2), tick(2), by(tick(3), -2), by(tick(3), -1, -2)}),
		}
	case "C07":
		return [][]nmOp{
			{
				{Kind: "addPeer", Info: n.info(0, 1, 4), Signers: []int{0}},     // no Alphabet
				{Kind: "addPeer", Info: n.info(0, 1, 4), Signers: []int{-1}},    // no node witness
				{Kind: "addPeer", Info: n.info(0, 1, 4), Signers: []int{-1, 1}}, // another node's witness
				{Kind: "addPeer", Info: n.info(0, 1, 4), Signers: []int{-1, 0}},
				{Kind: "addPeer", Info: n.info(0, 9, 4), Signers: []int{-1, 0}}, // replaces older info
				{Kind: "addPeer", Info: n.info(0, 1, 4)[:34], Signers: []int{-1, 0}},
				{Kind: "addPeerIR", Info: n.info(1, 2, 0), Signers: al},
				{Kind: "addPeerIR", Info: n.info(1, 2, 0), Signers: []int{1}},
				addN(1, "b"), addN(2, "c"),
				{Kind: "addNode", Addrs: []string{"x"}, Key: k0, State: 3, Signers: []int{-1, 0}},
				{Kind: "addNode", Addrs: []string{"x"}, Key: k0[:32], State: 1, Signers: []int{-1, 0}},
				{Kind: "addNode", Addrs: []string{"x"}, Key: k0, State: 1, Signers: []int{-1}},
				// signatures with scope None witness nothing
				{Kind: "updateState", State: 3, Key: k0, Signers: []int{-1}, Unscoped: []int{0}},
				{Kind: "updateState", State: 3, Key: k0, Signers: []int{0}, Unscoped: []int{-1}},
				{Kind: "updateState", State: 2, Key: k0, Signers: []int{-1}, Unscoped: []int{0}},
				{Kind: "addPeer", Info: n.info(0, 8, 4), Signers: []int{-1}, Unscoped: []int{0}},
				{Kind: "addPeer", Info: n.info(0, 8, 4), Signers: []int{0}, Unscoped: []int{-1}},
				{Kind: "addNode", Addrs: []string{"y"}, Key: k0, State: 1, Signers: []int{-1}, Unscoped: []int{0}},
				{Kind: "addPeerIR", Info: n.info(0, 8, 4), Signers: []int{0}, Unscoped: []int{-1}},
				{Kind: "deleteNode", Key: k0, Signers: []int{1}, Unscoped: []int{-1}},
				{Kind: "updateState", State: 3, Key: k0, Signers: []int{-1, 0}},             // legacy only
				{Kind: "updateState", State: 3, Key: k1, Signers: []int{-1, 1}},             // both
				{Kind: "updateState", State: 3, Key: n.nodes[2].pub, Signers: []int{-1, 2}}, // structured only
				{Kind: "updateState", State: 1, Key: n.nodes[3].pub, Signers: []int{-1, 3}}, // neither
				{Kind: "updateState", State: 0, Key: k0, Signers: []int{-1, 0}},
				{Kind: "updateState", State: 4, Key: k0, Signers: []int{-1, 0}},
				{Kind: "updateState", State: 1, Key: k0, Signers: []int{0}},
				{Kind: "updateStateIR", State: 1, Key: k1, Signers: al},
				{Kind: "updateStateIR", State: 2, Key: k1[:32], Signers: al},
				{Kind: "updateStateIR", State: 2, Key: make([]byte, 56), Signers: al},
				{Kind: "updateStateIR", State: 2, Key: nmGhostKey(), Signers: al},
				tick(1),
				{Kind: "updateState", State: 2, Key: k1, Signers: []int{-1, 1}},
				{Kind: "updateState", State: 2, Key: k1, Signers: []int{-1, 1}}, // remove already removed
				{Kind: "deleteNode", Key: k0, Signers: []int{0}},
				{Kind: "deleteNode", Key: k0, Signers: al},
				{Kind: "deleteNode", Key: k0, Signers: al},
				{Kind: "deleteNode", Key: k0[:32], Signers: al},
				{Kind: "addPeer", Info: n.info(0, 7, 4), Signers: []int{-1, 0}}, // re-adding
				tick(2),
				// several transactions per block
				{Kind: "updateStateIR", State: 3, Key: k0, Signers: al, Join: true},
				{Kind: "newEpoch", Epoch: 3, Signers: al, Join: true},
				{Kind: "deleteNode", Key: k0, Signers: al, Join: true},
				tick(4),
			},
			reannounce(),
			twins(),
			// byte boundaries of the four-byte epoch key
			{addN(0, "a"), {Kind: "addPeerIR", Info: n.info(1, 1, 2), Signers: al}, tick(255), addN(1, "b"), tick(256), tick(257),
				{Kind: "updateStateIR", State: 3, Key: k0, Signers: al}, tick(65535), tick(65536), addN(2, "c"), tick(65537), tick(1 << 24), tick(1<<24 + 1)},
			// LAST: run on a 3-key committee
			cat([]nmOp{by(nmOp{Kind: "addPeer", Info: n.info(0, 1, 4)}, -2, 0), by(nmOp{Kind: "addPeer", Info: n.info(0, 1, 4)}, -3, 0),
				by(nmOp{Kind: "addPeer", Info: n.info(0, 1, 4)}, -1, 0), by(addN(1, "b"), -2, 1), by(addN(1, "b"), -4, 1), addN(1, "b")},
				gates(nmOp{Kind: "addPeerIR", Info: n.info(2, 2, 2)}), []nmOp{{Kind: "addPeerIR", Info: n.info(2, 2, 2), Signers: al}},
				[]nmOp{by(nmOp{Kind: "updateState", State: 3, Key: k0}, -2, 0), by(nmOp{Kind: "updateState", State: 3, Key: k0}, -1, 0)},
				gates(nmOp{Kind: "updateStateIR", State: 3, Key: k1}), []nmOp{{Kind: "updateStateIR", State: 3, Key: k1, Signers: al}},
				gates(nmOp{Kind: "deleteNode", Key: k0}), []nmOp{{Kind: "deleteNode", Key: k0, Signers: al}},
				gates(tick(1)), []nmOp{tick(1)}),
		}
	case "C08":
		return [][]nmOp{
			// rejected counts: 0, negative, unchanged, 255, 300 (the latter at ring index old-1,
			// where no slot has to be moved), not the Alphabet; 254 accepted
			cat([]nmOp{resize(0), resize(-1), resize(10), {Kind: "updateSnapshotCount", Count: 5, Signers: []int{0}}}, ticks(1, 9),
				[]nmOp{resize(300), resize(255), resize(1 << 40), resize(254)}, ticks(10, 12)),
			// F3 witness: count 0 then tick
			cat([]nmOp{resize(0)}, ticks(1, 2)),
			// F4 witness: shrink 10 -> 5 after 12 epochs, boundary epoch current-5
			cat(ticks(1, 12), []nmOp{resize(5)}, ticks(13, 19)),
			// shrink with ring index >= new count (K1) and < new count (K2)
			cat(ticks(1, 7), []nmOp{resize(3)}, ticks(8, 12), []nmOp{resize(2)}, ticks(13, 15), []nmOp{resize(1)}, ticks(16, 18)),
			cat(ticks(1, 11), []nmOp{resize(4)}, ticks(12, 14)),
			// enlarge, then resizes that must move a slot emptied by the enlargement (Put(nil): rejected atomically)
			cat(ticks(1, 12), []nmOp{resize(12), resize(11), resize(13)}, ticks(13, 13), []nmOp{resize(11), resize(14)}, ticks(14, 27), []nmOp{resize(11)}, ticks(28, 30)),
			// count 1
			cat([]nmOp{resize(1)}, ticks(1, 3), []nmOp{resize(2)}, ticks(4, 6), []nmOp{resize(1)}, ticks(7, 8)),
			// several ticks per block: [newEpoch(2), addPeerIR, addNode, newEpoch(3)], [newEpoch(4), newEpoch(5)]
			cat(ticks(1, 1), []nmOp{{Kind: "newEpoch", Epoch: 2, Signers: al, Join: true},
				{Kind: "addPeerIR", Info: n.info(3, 3, 2), Signers: al, Join: true}, func() nmOp { o := addN(3, "3"); o.Join = true; return o }(), tick(3),
				{Kind: "newEpoch", Epoch: 4, Signers: al, Join: true}, tick(5), resize(3)}, ticks(6, 8)),
			// sequences of resizes of a wrapped ring enlarged above the current epoch
			cat(ticks(1, 10), []nmOp{resize(12), resize(10)}, ticks(11, 13)),
			cat(ticks(1, 10), []nmOp{resize(12)}, ticks(11, 11), []nmOp{resize(11)}, ticks(12, 14)),
			cat(ticks(1, 11), []nmOp{resize(12), resize(9)}, ticks(12, 14), []nmOp{resize(11), resize(12), resize(3)}, ticks(15, 16)),
			// the same on a ring that has not wrapped yet: up-up, up-down, down-up with 0/1 ticks between
			cat(ticks(1, 4), []nmOp{resize(11), resize(12)}, ticks(5, 5), []nmOp{resize(4), resize(6)}, ticks(6, 7), []nmOp{resize(5)}, ticks(8, 9)),
			// ring indices on both sides of 127/128 and up to the 254 limit: a wrapped ring enlarged
			// above 128, shrunk back, ticks, enlarged above 128 again; nothing stale may come back
			cat(ticks(1, 11), []nmOp{resize(200)}, ticks(12, 13), []nmOp{resize(10)}, ticks(14, 16), []nmOp{resize(200)}, ticks(17, 18),
				[]nmOp{resize(129), resize(127), resize(128), resize(254), resize(255), resize(3)}, ticks(19, 21), []nmOp{resize(130)}, ticks(22, 23)),
			// byte boundaries of the four-byte epoch key: jump to 255, +1 ticks over 256/257 with
			// structured nodes, a resize after epoch 256, jumps to 65535 (+1, +2) and 2^24 (+1)
			cat(ticks(1, 2), ticks(255, 258), []nmOp{resize(3)}, ticks(259, 261), ticks(65535, 65537), []nmOp{resize(5)},
				ticks(1<<24, 1<<24+2), ticks(1<<24+255, 1<<24+257)),
			// epochs around 2^31 and up to 2^32-1 (five-byte integers, four-byte keys), with a resize
			cat(ticks(1, 2), ticks(1<<31-2, 1<<31+2), []nmOp{resize(3)}, ticks(1<<31+3, 1<<31+4), ticks(1<<32-3, 1<<32-1)),
			// epochs that publish EMPTY maps (both formats) at every position relative to the window
			// a shrink / the ticks expire: older lists must be gone whatever lies in between
			cat(ticks(1, 3), emptyTick(4), ticks(5, 8), []nmOp{resize(3)}, ticks(9, 10)),
			cat(ticks(1, 5), emptyTick(6), emptyTick(7), ticks(8, 9), []nmOp{resize(2)}, ticks(10, 12)),
			cat(ticks(1, 6), emptyTick(7), ticks(8, 8), []nmOp{resize(1)}, emptyTick(9), ticks(10, 11), []nmOp{resize(4)}, ticks(12, 13), emptyTick(14), ticks(15, 20), []nmOp{resize(2)}),
			cat(emptyTick(1), ticks(2, 9), emptyTick(10), ticks(11, 12), emptyTick(13), ticks(14, 16), []nmOp{resize(5), resize(3)}, ticks(17, 18)),
			// empty candidate set after non-empty maps, ring of 2: the reused slots must hold the empty map
			cat(ticks(1, 2), []nmOp{resize(2), {Kind: "deleteNode", Key: n.nodes[1%len(n.nodes)].pub, Signers: al},
				{Kind: "deleteNode", Key: n.nodes[2%len(n.nodes)].pub, Signers: al}, tick(3), tick(4), tick(5)}),
			// LAST: run on a 3-key committee
			cat(gates(resize(5)), ticks(1, 3), gates(resize(5)), []nmOp{resize(5)}, gates(tick(4)), ticks(4, 9), gates(resize(7)), []nmOp{resize(7)}, ticks(10, 11)),
		}
	}
	return nil
}

// ---------------------------------------------------------------------------

func runNetmapFamily(t *testing.T, prop string) {
	st := NewStats(prop)
	thorough := Tier() == "thorough"
	fs := &nmFiles{t: t, prop: prop}
	if thorough {
		fs.perFile = 100
		if prop == "C08" {
			fs.perFile = 90
		}
	} else if prop == "C08" {
		fs.perFile = 19 // two files, evaluated in parallel by the driver
	}
	old, _ := filepath.Glob(filepath.Join(OutDir(), "cases_"+prop+"*.v"))
	for _, o := range old {
		_ = os.Remove(o)
	}
	distinct := map[string]bool{}
	resizeKeys := map[string]bool{}
	putNil := 0
	var proj nmProjection
	switch prop {
	case "C06":
		proj = projC06
		st.Rule = "non-trivial = history with at least one successful tick that fanned out to >= 1 subscribed probe and at least one refused tick; distinct = by the sequence of (operation kind, HALT/FAULT)"
	case "C07":
		proj = projC07
		st.Rule = "non-trivial = history with at least one accepted and at least one refused candidate operation; distinct = by the sequence of (operation kind, HALT/FAULT)"
	case "C08":
		proj = projC08
		st.Rule = "distinct non-trivial = distinct resize evaluations (old count, new count, epoch mod old count, ghost window or Put(nil) rejection) among valid Alphabet-signed updateSnapshotCount calls, each followed by ticks and full window reads"
	}
	sample := func(h *nmHistory) {
		if len(st.Samples) >= 3 {
			return
		}
		var ss []string
		for i, s := range h.steps {
			if i >= 10 {
				ss = append(ss, "...")
				break
			}
			oc := "HALT"
			if !s.res.halt {
				oc = "FAULT"
			}
			ss = append(ss, s.op.String()+" -> "+oc)
		}
		st.Samples = append(st.Samples, ss)
	}
	finish := func(m *nmMon, h *nmHistory) {
		nontrivial := false
		switch prop {
		case "C06":
			nontrivial = m.flags["tickWithSubs"] && m.flags["tickRefused"]
		case "C07":
			nontrivial = m.flags["candAccepted"] && m.flags["candRefused"]
		}
		if nontrivial {
			distinct[m.sig.String()] = true
		}
		for k := range m.resizeKeys {
			resizeKeys[k] = true
		}
		putNil += m.putNil
	}
	nProbes, nNodes := 3, 4
	if prop == "C08" {
		nProbes, nNodes = 1, 5
	}
	// corpus
	{
		n0 := newNmEnv(t, Rng(-1), false, nProbes, nNodes)
		nc := len(nmCorpus(prop, n0))
		for ci := 0; ci < nc; ci++ {
			csize := 1
			if ci == nc-1 {
				csize = 3 // the last corpus history of every property runs on a 3-key committee
			}
			n := newNmEnvN(t, Rng(-1), false, nProbes, nNodes, csize)
			ops := nmCorpus(prop, n)[ci]
			m := newNmMon(prop, st, n)
			h := nmRunHistory(t, n, fs.file(), proj, m, func(step int, tr *nmTrack) (nmOp, bool) {
				if step >= len(ops) {
					return nmOp{}, false
				}
				return ops[step], true
			}, st)
			finish(m, h)
			fs.flush(false)
		}
	}
	switch prop {
	case "C06", "C07":
		nh, maxOps := 50, 30
		if thorough {
			nh, maxOps = 500, 45
		}
		for hi := 0; hi < nh; hi++ {
			r := Rng(int64(hi) + 1000)
			withBal := prop == "C06" && hi%3 == 0
			// a share of the histories on committees of 3 and 4 keys (2n/3+1 = n/2+1 only for n = 1, 4)
			n := newNmEnvN(t, r, withBal, r.Intn(4), nNodes, []int{1, 3, 1, 4}[hi%4])
			g := &nmGen{r: r, n: n, prop: prop}
			m := newNmMon(prop, st, n)
			nops := 8 + r.Intn(maxOps-7)
			h := nmRunHistory(t, n, fs.file(), proj, m, func(step int, tr *nmTrack) (nmOp, bool) {
				if step >= nops {
					return nmOp{}, false
				}
				if prop == "C06" {
					return g.nextC06(step, tr), true
				}
				return g.nextC07(step, tr), true
			}, st)
			finish(m, h)
			fs.flush(false)
			if hi < 3 {
				sample(h)
			}
		}
		st.DistinctNontrivial = len(distinct)
	case "C08":
		type pt struct {
			counts []int64
			ticks  []int
			light  bool
		}
		var pts []pt
		r := Rng(77)
		// seqPoint: t0 ticks on the default ring (not wrapped / exactly wrapped /
		// wrapped), then two or three resizes whose new count is chosen relative to
		// the current epoch and the current count (epoch-1, epoch, epoch+1, epoch+2,
		// a little up, a little down) with 0, 1 or a few ticks between them
		seqPoint := func() pt {
			t0 := []int{0, 1, 3, 9, 10, 10, 11, 12, 13}[r.Intn(9)]
			p := pt{ticks: []int{t0}, light: true}
			epoch, count := int64(t0), int64(10)
			nres := 2 + r.Intn(2)
			big := r.Intn(5) == 0 // up above 128, down, (ticks,) up again
			if big {
				nres = 3
			}
			for j := 0; j < nres; j++ {
				var c int64
				switch r.Intn(6) {
				case 0:
					c = epoch - 1
				case 1:
					c = epoch
				case 2:
					c = epoch + 1
				case 3:
					c = epoch + 2
				case 4:
					c = count + 1 + int64(r.Intn(2))
				default:
					c = count - 1 - int64(r.Intn(3))
				}
				if c < 1 {
					c = 1
				}
				if c > 14 {
					c = 14
				}
				if big && j%2 == 0 {
					// ring indices on both sides of the signed-byte boundary and up to the limit
					c = []int64{127, 128, 129, 200, 254}[r.Intn(5)]
				}
				if c == count {
					if c < 14 {
						c++
					} else {
						c--
					}
				}
				between := []int{0, 0, 1, 1, 2, 3}[r.Intn(6)]
				if j == nres-1 {
					between = 2 + r.Intn(3)
				}
				p.counts = append(p.counts, c)
				p.ticks = append(p.ticks, between)
				epoch += int64(between)
				count = c
			}
			return p
		}
		if !thorough {
			for i := 0; i < 14; i++ {
				pts = append(pts, seqPoint())
			}
			for i := 0; i < 20; i++ {
				c1 := int64(1 + r.Intn(12))
				c2 := int64(1 + r.Intn(12))
				t0 := r.Intn(4)
				t1 := r.Intn(int(c1)*2 + 2)
				t2 := 1 + r.Intn(int(c2)+2)
				p := pt{counts: []int64{c1, c2}, ticks: []int{t0, t1, t2}}
				if r.Intn(3) == 0 {
					c3 := int64(r.Intn(14)) - 1 // includes 0 and -1: must be rejected
					p.counts = append(p.counts, c3)
					p.ticks = append(p.ticks, 1+r.Intn(4))
				}
				tot := 0
				for _, x := range p.ticks {
					tot += x
				}
				if tot > 24 {
					p.ticks[1] -= tot - 24
					if p.ticks[1] < 0 {
						p.ticks[1] = 0
					}
				}
				pts = append(pts, p)
			}
		} else {
			// exhaustive over (old, new, elapsed mod old) for counts <= 12, with a full
			// window (elapsed >= old) ...
			for old := int64(1); old <= 12; old++ {
				for nw := int64(1); nw <= 12; nw++ {
					if nw == old {
						continue
					}
					for pos := int64(0); pos < old; pos++ {
						pts = append(pts, pt{counts: []int64{old, nw}, ticks: []int{0, int(old + pos), int(nw) + 2}, light: true})
					}
				}
			}
			// ... a wrapped (or just not wrapped) default ring enlarged around the current
			// epoch and resized again after 0, 1 or 3 ticks, to every count ...
			for _, t0 := range []int{9, 10, 11, 13} {
				for _, a := range []int64{11, 12, 14} {
					for _, between := range []int{0, 1, 3} {
						for b := int64(1); b <= 14; b++ {
							if b != a {
								pts = append(pts, pt{counts: []int64{a, b}, ticks: []int{t0, between, 3}, light: true})
							}
						}
					}
				}
			}
			for i := 0; i < 60; i++ {
				pts = append(pts, seqPoint())
			}
			// ... and random longer ones with up to three resizes and short windows
			for i := 0; i < 150; i++ {
				p := pt{}
				k := 2 + r.Intn(2)
				p.ticks = append(p.ticks, r.Intn(12))
				tot := p.ticks[0]
				for j := 0; j < k; j++ {
					p.counts = append(p.counts, int64(r.Intn(14))-1)
					x := r.Intn(14)
					if tot+x > 40 {
						x = 0
					}
					tot += x
					p.ticks = append(p.ticks, x)
				}
				pts = append(pts, p)
			}
		}
		for hi, p := range pts {
			r := Rng(int64(hi) + 5000)
			n := newNmEnvN(t, Rng(-1), false, 0, nNodes, []int{1, 1, 3, 4}[hi%4]) // same node keys in every history: maps are shared in the case file
			g := &nmGen{r: r, n: n, prop: prop}
			g.planC08(p.counts, p.ticks, p.light)
			m := newNmMon(prop, st, n)
			h := nmRunHistory(t, n, fs.file(), proj, m, func(step int, tr *nmTrack) (nmOp, bool) {
				if step >= len(g.plan) {
					return nmOp{}, false
				}
				return g.plan[step], true
			}, st)
			finish(m, h)
			fs.flush(false)
			if hi < 3 {
				sample(h)
			}
		}
		st.DistinctNontrivial = len(resizeKeys)
		st.Extra["put_nil_rejections"] = putNil
		var ks []string
		for k := range resizeKeys {
			ks = append(ks, k)
		}
		sort.Strings(ks)
		if len(ks) > 40 {
			ks = ks[:40]
		}
		st.Extra["resize_points_sample"] = ks
	}
	fs.flush(true)
	st.Extra["case_files"] = fs.k
	if prop == "C06" {
		runEpochSystem(t, st)
		runProbeCallbacks(t, st)
	}
	st.Write()
}

func TestC06(t *testing.T) { runNetmapFamily(t, "C06") }
func TestC07(t *testing.T) { runNetmapFamily(t, "C07") }
func TestC08(t *testing.T) { runNetmapFamily(t, "C08") }

// ---------------------------------------------------------------------------
// C06, composed system: netmap + the real Balance and Container subscribers
// (deployed as the repository does: both subscribe during their deployment)
// + one probe. Histories mix balance operations (mint / lock / burn /
// transfer), container size estimations (putContainerSize by network map
// nodes), candidate changes and ticks delivered through netmap.newEpoch; the
// observables are the Netmap reads, balanceOf over a pool, totalSupply and
// container.iterateAllContainerSizes over a window of epochs. The cases are
// evaluated against Model/EpochSystem.v (cases_C06_sys.v).

type sysOp struct {
	Kind    string `json:"kind"` // newEpoch addPeerIR subscribe mint lock burn transfer balTick cntTick putSize probeSetFault probeClearFault
	Epoch   int64  `json:"epoch,omitempty"`
	Node    int    `json:"node,omitempty"`
	Info    []byte `json:"info,omitempty"`
	Hash    []byte `json:"hash,omitempty"`
	From    []byte `json:"from,omitempty"`
	To      []byte `json:"to,omitempty"`
	Amount  int64  `json:"amount,omitempty"`
	Until   int64  `json:"until,omitempty"`
	Details []byte `json:"details,omitempty"`
	Cid     int    `json:"cid,omitempty"`
	Size    int64  `json:"size,omitempty"`
	Signers []int  `json:"signers"`        // -1 committee (Alphabet), 0..2 nodes, 10+i users
	Join    bool   `json:"join,omitempty"` // same block as the next operation
}

func hasSignerIdx(l []int, i int) bool {
	for _, x := range l {
		if x == i {
			return true
		}
	}
	return false
}

func (o sysOp) String() string {
	switch o.Kind {
	case "newEpoch":
		return fmt.Sprintf("netmap.newEpoch(%d)%v", o.Epoch, o.Signers)
	case "addPeerIR":
		return fmt.Sprintf("netmap.addPeerIR(node %d)%v", o.Node, o.Signers)
	case "subscribe":
		return fmt.Sprintf("netmap.subscribeForNewEpoch(%s)%v", Hex(o.Hash), o.Signers)
	case "mint":
		return fmt.Sprintf("balance.mint(%s,%d)%v", Hex(o.To), o.Amount, o.Signers)
	case "lock":
		return fmt.Sprintf("balance.lock(%s->%s,%d,until %d)%v", Hex(o.From), Hex(o.To), o.Amount, o.Until, o.Signers)
	case "burn":
		return fmt.Sprintf("balance.burn(%s,%d)%v", Hex(o.From), o.Amount, o.Signers)
	case "transfer":
		return fmt.Sprintf("balance.transfer(%s->%s,%d)%v", Hex(o.From), Hex(o.To), o.Amount, o.Signers)
	case "balTick":
		return fmt.Sprintf("balance.newEpoch(%d)%v", o.Epoch, o.Signers)
	case "cntTick":
		return fmt.Sprintf("container.newEpoch(%d)%v", o.Epoch, o.Signers)
	case "putSize":
		return fmt.Sprintf("container.putContainerSize(%d,cid#%d,%d,node %d)%v", o.Epoch, o.Cid, o.Size, o.Node, o.Signers)
	case "probeSetFault":
		return fmt.Sprintf("probe.setFault(%d)", o.Epoch)
	}
	return o.Kind
}

type sysEnv struct {
	x      *c20EstEnv
	probe  util.Uint160
	users  []neotest.SingleSigner
	locks  [][]byte
	pool   [][]byte // balance accounts observed
	rej    *int64   // epoch the probe rejects
	epoch  int64
	d1, d2 int64
}

func newSysEnv(t *testing.T) *sysEnv {
	x := c20NewEstEnv(&c20Run{t: t}, 2)
	s := &sysEnv{x: x, d1: int64(containerconst.CleanupDelta), d2: int64(containerconst.TotalCleanupDelta)}
	pr := x.CompileHelper("nmprobe")
	p := nmCloneContract(pr, x.E.CommitteeHash, "verif netmap probe sys")
	x.E.DeployContract(t, p, nil)
	s.probe = p.Hash
	var fund []neotest.Signer
	for i := 0; i < 2; i++ {
		u := c20Signer("sysuser", i)
		s.users = append(s.users, u)
		fund = append(fund, u)
	}
	c20Fund(x.Env, fund...)
	for i := 0; i < 2; i++ {
		a := make([]byte, 20)
		a[0], a[19] = byte(0x40+i), byte(i+1)
		s.locks = append(s.locks, a)
	}
	for _, u := range s.users {
		s.pool = append(s.pool, u.ScriptHash().BytesBE())
	}
	s.pool = append(s.pool, s.locks...)
	// whatever the set-up left in Balance (container fees paid to the Alphabet)
	for _, k := range x.StorageKeys(x.balance, []byte{'a'}) {
		if len(k) == 21 {
			dup := false
			for _, q := range s.pool {
				if string(q) == string(k[1:]) {
					dup = true
				}
			}
			if !dup {
				s.pool = append(s.pool, k[1:])
			}
		}
	}
	return s
}

func (s *sysEnv) signer(i int) neotest.Signer {
	switch {
	case i < 0:
		return s.x.E.Committee
	case i >= 10:
		return s.users[i-10]
	}
	return s.x.nodes[i]
}

func (s *sysEnv) signers(idx []int) []neotest.Signer {
	var out []neotest.Signer
	for _, i := range idx {
		out = append(out, s.signer(i))
	}
	return out
}

func (s *sysEnv) prepare(op sysOp) *transaction.Transaction {
	x := s.x
	sg := s.signers(op.Signers)
	switch op.Kind {
	case "newEpoch":
		return x.PrepareTx(sg, x.netmap, "newEpoch", op.Epoch)
	case "addPeerIR":
		return x.PrepareTx(sg, x.netmap, "addPeerIR", op.Info)
	case "subscribe":
		return x.PrepareTx(sg, x.netmap, "subscribeForNewEpoch", op.Hash)
	case "mint":
		return x.PrepareTx(sg, x.balance, "mint", op.To, op.Amount, op.Details)
	case "lock":
		return x.PrepareTx(sg, x.balance, "lock", op.Details, op.From, op.To, op.Amount, op.Until)
	case "burn":
		return x.PrepareTx(sg, x.balance, "burn", op.From, op.Amount, op.Details)
	case "transfer":
		return x.PrepareTx(sg, x.balance, "transfer", op.From, op.To, op.Amount, nil)
	case "balTick":
		return x.PrepareTx(sg, x.balance, "newEpoch", op.Epoch)
	case "cntTick":
		return x.PrepareTx(sg, x.container, "newEpoch", op.Epoch)
	case "putSize":
		return x.PrepareTx(sg, x.container, "putContainerSize", op.Epoch, x.cids[op.Cid], op.Size, x.pubs[op.Node])
	}
	panic(op.Kind)
}

func (s *sysEnv) coqCtx(f *nmFile, op sysOp, cur uint32) string {
	var ks, hs []string
	alpha := false
	for _, i := range op.Signers {
		if i < 0 {
			alpha = true
		} else if i < 10 {
			ks = append(ks, f.pool.Ref(s.x.pubs[i]))
		}
		hs = append(hs, f.pool.Ref(s.signer(i).ScriptHash().BytesBE()))
	}
	return fmt.Sprintf("mkSC %s %s %s %d", ListLit(ks), ListLit(hs), BoolLit(alpha), cur)
}

func (s *sysEnv) coqOp(f *nmFile, op sysOp, live [][]byte) string {
	p := f.pool
	switch op.Kind {
	case "newEpoch":
		return "SNm (NewEpoch " + ZI(op.Epoch) + ")"
	case "addPeerIR":
		return "SNm (AddPeerIR " + p.Ref(op.Info) + ")"
	case "subscribe":
		return "SNm (Subscribe " + p.Ref(op.Hash) + ")"
	case "mint":
		return fmt.Sprintf("SBal (Balance.Mint %s %s %s)", p.Ref(op.To), ZI(op.Amount), p.Ref(op.Details))
	case "lock":
		return fmt.Sprintf("SBal (Balance.Lock %s %s %s %s %s)", p.Ref(op.Details), p.Ref(op.From), p.Ref(op.To), ZI(op.Amount), ZI(op.Until))
	case "burn":
		return fmt.Sprintf("SBal (Balance.Burn %s %s %s)", p.Ref(op.From), ZI(op.Amount), p.Ref(op.Details))
	case "transfer":
		return fmt.Sprintf("SBal (Balance.Transfer %s %s %s)", p.Ref(op.From), p.Ref(op.To), ZI(op.Amount))
	case "balTick":
		return "SBal (Balance.NewEpoch " + ZI(op.Epoch) + ")"
	case "cntTick":
		return "SEstTick " + ZI(op.Epoch)
	case "putSize":
		var ls []string
		for _, c := range live {
			ls = append(ls, p.Ref(c))
		}
		return fmt.Sprintf("SPutSize %s %s %s %s %s %s", ListLit(ls), ZI(op.Epoch), p.Ref(s.x.cids[op.Cid]), ZI(op.Size),
			p.Ref(s.x.pubs[op.Node]), p.Ref(s.x.h20s[op.Node]))
	}
	panic(op.Kind)
}

type sysQuery struct {
	kind string // N:<netmap query> | bal | supply | est
	nq   nmQuery
	a    []byte
	e    int64
}

func (s *sysEnv) queries() []sysQuery {
	qs := []sysQuery{{kind: "N", nq: nmQuery{kind: "QEpoch"}}, {kind: "N", nq: nmQuery{kind: "QBlock"}},
		{kind: "N", nq: nmQuery{kind: "QNetmap"}}, {kind: "N", nq: nmQuery{kind: "QSnapshot", z: 1}},
		{kind: "N", nq: nmQuery{kind: "QSubscribers"}}}
	for _, a := range s.pool {
		qs = append(qs, sysQuery{kind: "bal", a: a})
	}
	qs = append(qs, sysQuery{kind: "supply"})
	lo := s.epoch - 7
	if lo < 0 {
		lo = 0
	}
	for e := lo; e <= s.epoch+1; e++ {
		qs = append(qs, sysQuery{kind: "est", e: e})
	}
	return qs
}

func (s *sysEnv) answer(n *nmEnv, q sysQuery) gv {
	x := s.x
	switch q.kind {
	case "N":
		return n.answer(q.nq)
	case "bal":
		return gBig(x.ReadInt(x.balance, "balanceOf", q.a))
	case "supply":
		return gBig(x.ReadInt(x.balance, "totalSupply"))
	case "est":
		it, err := x.Read(x.container, "iterateAllContainerSizes", q.e)
		if err != nil {
			return gFault
		}
		return itemGV(it)
	}
	panic(q.kind)
}

func (q sysQuery) coq(p *Pool) string {
	switch q.kind {
	case "N":
		c := q.nq.coq(p)
		if strings.Contains(c, " ") {
			c = "(" + c + ")"
		}
		return "QN " + c
	case "bal":
		return "QBalance " + p.Ref(q.a)
	case "supply":
		return "QSupply"
	}
	return "QEstAll " + ZI(q.e)
}

const sysHeader = "From Verif Require Import Base.Prelude Model.Netmap Model.EpochSystem.\nFrom Verif Require Model.Balance Model.Estimations.\nLocal Open Scope Z_scope.\n"
const sysFooter = "Definition M := Eval vm_compute in failures_from 0 (map scheck_case cases).\nPrint M.\n"

// sysEvents converts the application log: Netmap events and probe calls as in
// the Netmap projection, Balance events as [6; <Balance.notif_val>].
func (s *sysEnv) events(n *nmEnv, r Result) []gv {
	var out []gv
	for _, ev := range r.Events {
		items := ev.Item.Value().([]stackitem.Item)
		var args []gv
		for _, it := range items {
			if _, ok := it.(stackitem.Null); ok {
				args = append(args, gBytes(nil))
			} else {
				args = append(args, itemGV(it))
			}
		}
		switch {
		case ev.ScriptHash == s.x.netmap:
			tag := map[string]int64{"AddPeerSuccess": 0, "AddNode": 1, "UpdateStateSuccess": 2, "NewEpoch": 3, "NewEpochSubscription": 4}[ev.Name]
			out = append(out, gListOf(append([]gv{gInt(tag)}, args...)))
		case ev.ScriptHash == s.probe && ev.Name == "ProbeEpoch":
			out = append(out, gListOf(append([]gv{gInt(5), gBytes(s.probe.BytesBE())}, args...)))
		case ev.ScriptHash == s.x.balance:
			tag, ok := map[string]int64{"Transfer": 0, "TransferX": 1, "Lock": 2}[ev.Name]
			if ok {
				out = append(out, gList(gInt(6), gListOf(append([]gv{gInt(tag)}, args...))))
			}
		}
	}
	return out
}

func runEpochSystem(t *testing.T, st *Stats) {
	thorough := Tier() == "thorough"
	nh, nops := 10, 34
	if thorough {
		nh, nops = 80, 50
	}
	f := newNmFile()
	f.caseType = "scase"
	nfiles := 0
	writeSys := func() {
		if len(f.cases) == 0 {
			return
		}
		name := "cases_C06_sys.v"
		if nfiles > 0 {
			name = fmt.Sprintf("cases_C06_sys_%d.v", nfiles)
		}
		require.NoError(t, f.write(filepath.Join(OutDir(), name), sysHeader, sysFooter, 0, len(f.cases)))
		nfiles++
		f = newNmFile()
		f.caseType = "scase"
	}
	evals, ticksOK, ticksRefused, released, cleaned, putsOK := 0, 0, 0, 0, 0, 0
	hist := map[string]int{}
	for hi := 0; hi < nh; hi++ {
		r := Rng(int64(hi) + 9000)
		s := newSysEnv(t)
		x := s.x
		n := &nmEnv{Env: x.Env, netmap: x.netmap, balance: x.balance, hasBalance: true, probes: []util.Uint160{s.probe}}
		// model set-up: the subscriptions made during deployment (in index order)
		// and the balances the set-up left behind
		var pre []string
		al0 := "mkSC [] [] true 0"
		for _, k := range x.StorageKeys(x.netmap, []byte("e")) {
			pre = append(pre, fmt.Sprintf("([], (%s, SNm (Subscribe %s)), [])", al0, f.pool.Ref(k[2:])))
		}
		for _, k := range x.StorageKeys(x.balance, []byte{'a'}) {
			if len(k) != 21 {
				continue
			}
			b := x.ReadInt(x.balance, "balanceOf", k[1:])
			pre = append(pre, fmt.Sprintf("([], (%s, SBal (Balance.Mint %s %s [])), [])", al0, f.pool.Ref(k[1:]), ZLit(b)))
		}
		var steps []string
		var all []sysOp
		var prev []gv
		type lockRec struct {
			parent []byte
			until  int64
		}
		locks := map[string]*lockRec{}
		violate := func(what string) {
			var rd []string
			for _, o := range all {
				rd = append(rd, o.String())
			}
			st.AddViolation("system: "+what, map[string]any{"ops": all, "readable": rd})
		}
		u0, u1 := s.users[0].ScriptHash().BytesBE(), s.users[1].ScriptHash().BytesBE()
		next := func(i int) sysOp {
			al := []int{-1}
			if i >= 4 && r.Intn(14) == 0 {
				al = []int{10} // a stranger where the Alphabet is required
			}
			switch i {
			case 0:
				return sysOp{Kind: "mint", To: u0, Amount: 5000, Details: []byte{1}, Signers: []int{-1}}
			case 1:
				return sysOp{Kind: "addPeerIR", Node: 0, Info: x.infos[0], Signers: []int{-1}}
			case 2:
				return sysOp{Kind: "addPeerIR", Node: 1, Info: x.infos[1], Signers: []int{-1}}
			case 3:
				return sysOp{Kind: "mint", To: u1, Amount: 3000, Details: []byte{2}, Signers: []int{-1}}
			}
			switch w := r.Intn(100); {
			case w < 30:
				e := s.epoch + 1
				switch r.Intn(10) {
				case 0:
					e = s.epoch
				case 1:
					e = s.epoch + 2
				}
				return sysOp{Kind: "newEpoch", Epoch: e, Signers: al}
			case w < 42:
				from := [][]byte{u0, u1}[r.Intn(2)]
				return sysOp{Kind: "lock", From: from, To: s.locks[r.Intn(2)], Amount: int64(100 * (1 + r.Intn(9))), Until: s.epoch + int64(r.Intn(4)),
					Details: []byte{byte(i)}, Signers: al}
			case w < 48:
				return sysOp{Kind: "burn", From: s.locks[r.Intn(2)], Amount: int64(50 * (1 + r.Intn(4))), Details: []byte{byte(i)}, Signers: al}
			case w < 54:
				return sysOp{Kind: "transfer", From: u0, To: u1, Amount: int64(10 * r.Intn(30)), Signers: []int{10}}
			case w < 58:
				return sysOp{Kind: "mint", To: [][]byte{u0, u1}[r.Intn(2)], Amount: int64(1000), Details: []byte{byte(i)}, Signers: al}
			case w < 80:
				node := r.Intn(3)
				sg := []int{node}
				if r.Intn(8) == 0 {
					sg = []int{(node + 1) % 3}
				}
				return sysOp{Kind: "putSize", Epoch: s.epoch - int64(r.Intn(4)) + 1, Cid: r.Intn(2), Size: int64(1 + r.Intn(1000)), Node: node, Signers: sg}
			case w < 84:
				return sysOp{Kind: "addPeerIR", Node: 2, Info: x.infos[2], Signers: al}
			case w < 88:
				return sysOp{Kind: "subscribe", Hash: s.probe.BytesBE(), Signers: al}
			case w < 92:
				if s.rej != nil {
					return sysOp{Kind: "probeClearFault"}
				}
				return sysOp{Kind: "probeSetFault", Epoch: s.epoch + 1}
			case w < 96:
				return sysOp{Kind: "balTick", Epoch: s.epoch + int64(r.Intn(2)), Signers: al}
			default:
				return sysOp{Kind: "cntTick", Epoch: s.epoch + int64(r.Intn(3)), Signers: al}
			}
		}
		probeSub := false
		trackedEpoch := int64(0)
		// runBlock executes 1-3 operations as the transactions of ONE block (every
		// transaction of the block sees ledger.CurrentIndex() = block index - 1); the
		// reads are made after the block and attached to its last transaction.
		runBlock := func(ops []sysOp) {
			rej := "[]"
			if s.rej != nil {
				rej = fmt.Sprintf("[(%s, %s)]", f.pool.Ref(s.probe.BytesBE()), ZI(*s.rej))
			}
			live := x.live()
			var txs []*transaction.Transaction
			for _, op := range ops {
				txs = append(txs, s.prepare(op))
			}
			blk := x.E.AddNewBlock(t, txs...)
			cur := blk.Index - 1
			s.epoch = x.ReadInt(x.netmap, "epoch").Int64()
			single := len(ops) == 1
			tickedOK := false
			if !single {
				hist["sys.blocks_with_several_transactions"]++
			}
			for bi, op := range ops {
				res := x.ResultOf(txs[bi], blk)
				last := bi == len(ops)-1
				ret := gNull
				if !res.Halt {
					ret = gFault
				} else if op.Kind == "transfer" {
					b, _ := res.Stack[0].TryBool()
					ret = gBool(b)
				}
				var qs []sysQuery
				if last {
					qs = s.queries()
				}
				var qc, as []string
				var ans []gv
				for _, q := range qs {
					a := s.answer(n, q)
					ans = append(ans, a)
					qc = append(qc, q.coq(f.pool))
					as = append(as, f.val(a))
				}
				var evs []string
				evg := s.events(n, res)
				for _, ev := range evg {
					evs = append(evs, f.val(ev))
				}
				steps = append(steps, fmt.Sprintf("((%s, (%s, %s), %s), %s)", rej, s.coqCtx(f, op, cur), s.coqOp(f, op, live),
					ListLit(paren(qc)), VList([]string{f.val(ret), VList(evs), VList(as)})))
				evals++
				oc := "halt"
				if !res.Halt {
					oc = "fault"
				}
				hist["sys."+op.Kind+"/"+oc]++
				// --- monitor (search engine)
				// every individually valid tick succeeds, wherever it stands in its block
				if op.Kind == "newEpoch" {
					want := hasSignerIdx(op.Signers, -1) && op.Epoch > trackedEpoch && !(probeSub && s.rej != nil && *s.rej == op.Epoch)
					if want != res.Halt {
						violate(fmt.Sprintf("%s at epoch %d (transaction %d of %d in its block): expected success=%v, halted=%v (%s)",
							op.String(), trackedEpoch, bi+1, len(ops), want, res.Halt, res.Fault))
					}
					if res.Halt {
						trackedEpoch = op.Epoch
						tickedOK = true
						ticksOK++
					} else {
						ticksRefused++
					}
				}
				if res.Halt && op.Kind == "subscribe" && string(op.Hash) == string(s.probe.BytesBE()) {
					probeSub = true
				}
				if res.Halt && op.Kind == "putSize" {
					putsOK++
				}
				if !res.Halt && len(evg) != 0 {
					violate("a faulted transaction left notifications: " + op.String())
				}
				if !last {
					if res.Halt && op.Kind == "lock" {
						locks[string(op.To)] = &lockRec{parent: op.From, until: op.Until}
					}
					continue
				}
				// atomicity, release at expiry, clean-up: on the reads after the block
				balOf := func(a []byte, from []gv) *big.Int {
					for j, q := range qs {
						if q.kind == "bal" && string(q.a) == string(a) && j < len(from) {
							return from[j].i
						}
					}
					return big.NewInt(0)
				}
				if single && !res.Halt && prev != nil && len(prev) == len(ans) {
					same := true
					for j := range ans {
						if qs[j].kind == "est" {
							continue // the window of epochs is the same only if the epoch is
						}
						if !ans[j].eq(prev[j]) {
							same = false
						}
					}
					if !same {
						violate("a faulted transaction changed an observable: " + op.String())
					}
				}
				if res.Halt && op.Kind == "lock" {
					locks[string(op.To)] = &lockRec{parent: op.From, until: op.Until}
				}
				if tickedOK {
					for la, l := range locks {
						if l.until <= trackedEpoch && !(res.Halt && op.Kind == "lock" && string(op.To) == la) {
							if single && balOf([]byte(la), ans).Sign() != 0 {
								violate(fmt.Sprintf("tick %d through netmap did not release lock %s (until %d)", trackedEpoch, Hex([]byte(la)), l.until))
							}
							if prev != nil && balOf([]byte(la), prev).Sign() > 0 {
								released++
							}
							delete(locks, la)
						}
					}
				}
				if res.Halt && op.Kind == "newEpoch" {
					for j, q := range qs {
						if q.kind != "est" || q.e == 0 {
							continue // epoch 0 encodes to the empty string: the scan lists every epoch (recorded C20 finding); compared with the model only
						}
						if op.Epoch-q.e > s.d2 {
							cleaned++
							if len(ans[j].l) != 0 {
								violate(fmt.Sprintf("tick %d through netmap left estimations of epoch %d", op.Epoch, q.e))
							}
						}
					}
				}
				prev = ans
			}
		}
		var pend []sysOp
		flushPend := func() {
			if len(pend) > 0 {
				runBlock(pend)
				pend = nil
			}
		}
		var queue []sysOp
		for i := 0; i < nops; i++ {
			var op sysOp
			if len(queue) > 0 {
				op, queue = queue[0], queue[1:]
			} else if i >= 6 && r.Intn(8) == 0 {
				// a block pattern: [newEpoch(e+1), addPeerIR(n2), newEpoch(e+2)], two ticks, lock + tick
				tk := func(e int64) sysOp { return sysOp{Kind: "newEpoch", Epoch: e, Signers: []int{-1}, Join: true} }
				switch r.Intn(3) {
				case 0:
					queue = []sysOp{tk(s.epoch + 1), {Kind: "addPeerIR", Node: 2, Info: x.infos[2], Signers: []int{-1}, Join: true}, tk(s.epoch + 2)}
				case 1:
					queue = []sysOp{tk(s.epoch + 1), tk(s.epoch + 2)}
				default:
					queue = []sysOp{{Kind: "lock", From: u0, To: s.locks[r.Intn(2)], Amount: 100, Until: s.epoch + 1, Details: []byte{byte(i)}, Signers: []int{-1}, Join: true},
						tk(s.epoch + 1), tk(s.epoch + 2)}
				}
				queue[len(queue)-1].Join = false
				op, queue = queue[0], queue[1:]
			} else {
				op = next(i)
				if r.Intn(6) == 0 {
					op.Join = true
				}
			}
			all = append(all, op)
			switch op.Kind {
			case "probeSetFault":
				flushPend()
				res := x.Invoke(nil, s.probe, "setFault", op.Epoch)
				require.True(t, res.Halt, res.Fault)
				e := op.Epoch
				s.rej = &e
				continue
			case "probeClearFault":
				flushPend()
				res := x.Invoke(nil, s.probe, "clearFault")
				require.True(t, res.Halt, res.Fault)
				s.rej = nil
				continue
			}
			pend = append(pend, op)
			if op.Kind == "newEpoch" && op.Join && hasSignerIdx(op.Signers, -1) && op.Epoch > s.epoch {
				s.epoch = op.Epoch // the generator's belief while the block is assembled
			}
			if !op.Join || len(pend) >= 3 {
				flushPend()
			}
		}
		flushPend()
		f.cases = append(f.cases, fmt.Sprintf("((%s, %s), (%s, %s, %s), %s, %s, %s)", ZI(s.d1), ZI(s.d2),
			f.pool.Ref(x.netmap.BytesBE()), f.pool.Ref(x.balance.BytesBE()), f.pool.Ref(x.container.BytesBE()),
			ListLit([]string{f.pool.Ref(s.probe.BytesBE())}), ListLit(pre), ListLit(steps)))
		if len(f.cases) >= 20 {
			writeSys() // several files, evaluated in parallel by the driver
		}
		if hi == 0 {
			var ss []string
			for i, o := range all {
				if i >= 14 {
					ss = append(ss, "...")
					break
				}
				ss = append(ss, o.String())
			}
			st.Samples = append(st.Samples, ss)
		}
	}
	writeSys()
	st.Evaluations += evals
	st.Histories += nh
	for k, v := range hist {
		st.OutcomeHistogram[k] = v
	}
	st.Extra["system"] = map[string]any{"histories": nh, "evaluations": evals, "ticks_through_netmap_ok": ticksOK, "ticks_refused": ticksRefused,
		"locks_released_by_netmap_ticks": released, "estimation_epochs_cleaned_by_netmap_ticks": cleaned, "estimations_accepted": putsOK,
		"contracts": "nns, netmap, balance (subscriber 0), container (subscriber 1), probe"}
}

// ---------------------------------------------------------------------------
// C06, subscribers that talk back to Netmap during their newEpoch callback.
// The Coq model treats subscribers abstractly (they do not call back), so
// these histories are judged by the Go monitor alone, against the property
// text "a successful tick atomically publishes ... records the tick height ...
// and calls newEpoch(e) on every subscribed contract; otherwise nothing
// changes":
//   - mode 1: the probe reads netmap.epoch(), lastEpochBlock(), netmap(),
//     snapshot(0), listNodes(e) while it is being called: it must see the NEW
//     epoch's data (publication precedes the fan-out);
//   - mode 2: the probe re-enters netmap.newEpoch(e) (or e-1): the inner call is
//     not a growing epoch, so the whole tick faults and nothing changes;
//   - mode 3: the probe adds a candidate (addPeerIR) during the callback: the map
//     published for e is the candidate set at tick time, the new candidate
//     appears only among the candidates.
func runProbeCallbacks(t *testing.T, st *Stats) {
	evals, checks := 0, 0
	var readable []string
	violate := func(what string) {
		st.AddViolation("probe callback: "+what, map[string]any{"readable": append([]string{}, readable...)})
	}
	type world struct {
		n      *nmEnv
		p0, p1 util.Uint160
		epoch  int64
	}
	mk := func(salt int64) *world {
		n := newNmEnvN(t, Rng(salt), false, 2, 4, 1)
		readable = nil
		return &world{n: n, p0: n.probes[0], p1: n.probes[1]}
	}
	al := func(w *world) []neotest.Signer { return []neotest.Signer{w.n.committee} }
	do := func(w *world, expectHalt bool, h util.Uint160, method string, args ...any) Result {
		r := w.n.Invoke(al(w), h, method, args...)
		evals++
		readable = append(readable, fmt.Sprintf("%s%v -> halt=%v", method, args, r.Halt))
		if r.Halt != expectHalt {
			violate(fmt.Sprintf("%s%v: expected success=%v, halted=%v (%s)", method, args, expectHalt, r.Halt, r.Fault))
		}
		return r
	}
	probeGV := func(w *world, method string, args ...any) gv {
		it, err := w.n.Read(w.p0, method, args...)
		if err != nil {
			return gFault
		}
		return itemGV(it)
	}
	state := func(w *world) string {
		n := w.n
		return gList(n.readGV("epoch"), n.readGV("lastEpochBlock"), n.readGV("netmap"), n.readGV("netmapCandidates"),
			n.readGV("listCandidates"), n.answer(nmQuery{kind: "QCur"}), gBig(n.ReadInt(w.p0, "total")), gBig(n.ReadInt(w.p1, "total"))).key()
	}
	// tickSeen: a tick with the probe in mode 1; what it saw must be the new epoch's data
	tickSeen := func(w *world, e int64) {
		n := w.n
		cands := n.readGV("netmapCandidates")
		cands2 := n.readGV("listCandidates")
		r := do(w, e > w.epoch, n.netmap, "newEpoch", e)
		if !r.Halt {
			return
		}
		w.epoch = e
		checks++
		var online []gv
		for _, c := range cands.l {
			if c.l[1].i.Int64() != 2 {
				online = append(online, c)
			}
		}
		cmp := func(what string, got, want gv) {
			if !got.eq(want) {
				violate(fmt.Sprintf("during newEpoch(%d) the subscriber saw %s = %s, expected %s", e, what, got.key(), want.key()))
			}
		}
		cmp("netmap.epoch()", probeGV(w, "seenInt", "epoch"), gInt(e))
		cmp("netmap.lastEpochBlock()", probeGV(w, "seenInt", "block"), n.readGV("lastEpochBlock"))
		cmp("netmap.netmap()", probeGV(w, "seen", "netmap"), gListOf(online))
		cmp("netmap.snapshot(0)", probeGV(w, "seen", "snapshot0"), gListOf(online))
		seenNodes := probeGV(w, "seen", "nodes")
		if seenNodes.k == 'n' {
			seenNodes = gListOf(nil) // the probe's empty Go slice is serialized as Null
		}
		cmp("netmap.listNodes(e)", seenNodes, cands2)
		cmp("its argument", probeGV(w, "seenInt", "arg"), gInt(e))
		cmp("netmap() after the tick", n.readGV("netmap"), gListOf(online))
	}
	node2 := func(w *world, i int, tag string) {
		n := w.n
		op := nmOp{Kind: "addNode", Addrs: []string{"cb://" + tag}, Attrs: [][2]string{{"k", tag}}, Key: n.nodes[i].pub, State: 1, Signers: []int{-1, i}}
		tx := n.prepare(op)
		b := n.E.AddNewBlock(t, tx)
		evals++
		if !n.ResultOf(tx, b).Halt {
			violate("addNode refused in the callback scenario")
		}
		readable = append(readable, op.String())
	}
	// A: read and record, corpus + random continuation
	for hi := 0; hi < 3; hi++ {
		w := mk(7000 + int64(hi))
		n := w.n
		r := Rng(7100 + int64(hi))
		do(w, true, n.netmap, "subscribeForNewEpoch", w.p1)
		do(w, true, n.netmap, "subscribeForNewEpoch", w.p0)
		do(w, true, w.p0, "setMode", 1, n.netmap, nil)
		do(w, true, n.netmap, "addPeerIR", n.info(0, 1, 3))
		node2(w, 0, "a")
		tickSeen(w, 1)
		do(w, true, n.netmap, "addPeerIR", n.info(1, 2, 3))
		do(w, true, n.netmap, "updateStateIR", 3, n.nodes[0].pub)
		tickSeen(w, 3) // jump
		tickSeen(w, 3) // refused: not a growing epoch
		node2(w, 1, "b")
		do(w, true, n.netmap, "deleteNode", n.nodes[0].pub)
		tickSeen(w, 4)
		for i := 0; i < 6+hi*3; i++ {
			k := r.Intn(4)
			switch r.Intn(4) {
			case 0:
				do(w, true, n.netmap, "addPeerIR", n.info(k, byte(10+i), 3))
			case 1:
				node2(w, k, fmt.Sprint(i))
			case 2:
				do(w, true, n.netmap, "deleteNode", n.nodes[k].pub)
			default:
				tickSeen(w, w.epoch+1+int64(r.Intn(2)))
			}
		}
		tickSeen(w, w.epoch+1)
	}
	// B: re-entering newEpoch from the callback makes the whole tick fault
	{
		w := mk(7200)
		n := w.n
		do(w, true, n.netmap, "subscribeForNewEpoch", w.p0)
		do(w, true, n.netmap, "subscribeForNewEpoch", w.p1)
		do(w, true, n.netmap, "addPeerIR", n.info(0, 1, 3))
		for _, delta := range []int{0, -1} {
			for _, e := range []int64{1, 5} {
				do(w, true, w.p0, "setMode", 2, n.netmap, delta)
				before := state(w)
				do(w, false, n.netmap, "newEpoch", e)
				checks++
				if after := state(w); after != before {
					violate(fmt.Sprintf("newEpoch(%d) re-entered by a subscriber (delta %d): state changed from %s to %s", e, delta, before, after))
				}
			}
		}
		do(w, true, w.p0, "setMode", 0, n.netmap, nil)
		do(w, true, n.netmap, "newEpoch", int64(1))
		do(w, true, w.p0, "setMode", 2, n.netmap, 0)
		before := state(w)
		do(w, false, n.netmap, "newEpoch", int64(2))
		checks++
		if after := state(w); after != before {
			violate("newEpoch(2) re-entered by a subscriber: state changed")
		}
	}
	// C: a candidate added during the callback is not part of the map published for e
	{
		w := mk(7300)
		n := w.n
		do(w, true, n.netmap, "subscribeForNewEpoch", w.p0)
		do(w, true, n.netmap, "addPeerIR", n.info(0, 1, 3))
		do(w, true, w.p0, "setMode", 3, n.netmap, n.info(2, 9, 3))
		before := n.readGV("netmapCandidates")
		do(w, true, n.netmap, "newEpoch", int64(1))
		checks++
		if got := n.readGV("netmap"); !got.eq(before) {
			violate(fmt.Sprintf("netmap() after newEpoch(1) = %s, expected the candidate set at tick time %s (a subscriber added a candidate during its callback)", got.key(), before.key()))
		}
		if got := n.readGV("netmapCandidates"); len(got.l) != 2 {
			violate("the candidate added by the subscriber during its callback is missing from netmapCandidates: " + got.key())
		}
		do(w, true, w.p0, "setMode", 0, n.netmap, nil)
		cands := n.readGV("netmapCandidates")
		do(w, true, n.netmap, "newEpoch", int64(2))
		if got := n.readGV("netmap"); !got.eq(cands) {
			violate("netmap() after newEpoch(2) is not the candidate set: " + got.key())
		}
	}
	// D: ticks that reach Netmap directly, through a SUBSCRIBED probe forwarding them,
	// through a non-subscribed forwarder, and from inside a callback (newEpoch(e+1)
	// requested during newEpoch(e): a growing epoch, so both ticks happen): every
	// subscriber's call log must list every epoch exactly once, in tick order
	{
		n := newNmEnvN(t, Rng(7400), false, 3, 4, 1)
		readable = nil
		w := &world{n: n, p0: n.probes[0], p1: n.probes[1]}
		fwd := n.probes[2] // never subscribed
		do(w, true, n.netmap, "subscribeForNewEpoch", w.p1)
		do(w, true, n.netmap, "subscribeForNewEpoch", w.p0)
		do(w, true, n.netmap, "addPeerIR", n.info(0, 1, 3))
		var ticked []int64
		once := func(what string, r Result, epochs ...int64) {
			checks++
			ticked = append(ticked, epochs...)
			// the application log: every subscriber, in subscription order, per epoch
			var want []gv
			if len(epochs) == 1 {
				want = []gv{gList(gInt(5), gBytes(w.p1.BytesBE()), gInt(epochs[0])), gList(gInt(5), gBytes(w.p0.BytesBE()), gInt(epochs[0])), gList(gInt(3), gInt(epochs[0]))}
			} else { // newEpoch(a) whose second subscriber requests newEpoch(b) from its callback
				a, b := epochs[0], epochs[1]
				want = []gv{gList(gInt(5), gBytes(w.p1.BytesBE()), gInt(a)), gList(gInt(5), gBytes(w.p0.BytesBE()), gInt(a)),
					gList(gInt(5), gBytes(w.p1.BytesBE()), gInt(b)), gList(gInt(5), gBytes(w.p0.BytesBE()), gInt(b)), gList(gInt(3), gInt(b)), gList(gInt(3), gInt(a))}
			}
			var got []gv
			for _, ev := range r.Events {
				items := ev.Item.Value().([]stackitem.Item)
				switch {
				case ev.Name == "ProbeEpoch":
					got = append(got, gList(gInt(5), gBytes(ev.ScriptHash.BytesBE()), itemGV(items[0])))
				case ev.ScriptHash == n.netmap && ev.Name == "NewEpoch":
					got = append(got, gList(gInt(3), itemGV(items[0])))
				}
			}
			if !gListOf(got).eq(gListOf(want)) {
				violate(fmt.Sprintf("%s: calls and notifications %s, expected %s", what, gListOf(got).key(), gListOf(want).key()))
			}
			for _, p := range []util.Uint160{w.p0, w.p1} {
				for _, e := range ticked {
					if c := n.ReadInt(p, "calls", e).Int64(); c != 1 {
						violate(fmt.Sprintf("%s: subscriber %s was called %d times for epoch %d, expected exactly once", what, p.StringLE(), c, e))
					}
				}
				if tot := n.ReadInt(p, "total").Int64(); tot != int64(len(ticked)) {
					violate(fmt.Sprintf("%s: subscriber %s accepted %d calls, expected %d", what, p.StringLE(), tot, len(ticked)))
				}
			}
			if got := n.ReadInt(n.netmap, "epoch").Int64(); got != ticked[len(ticked)-1] && !(len(epochs) == 2 && got == epochs[1]) {
				violate(fmt.Sprintf("%s: epoch() = %d", what, got))
			}
		}
		once("direct newEpoch(1)", do(w, true, n.netmap, "newEpoch", int64(1)), 1)
		once("newEpoch(3) forwarded by a subscribed contract", do(w, true, w.p0, "tick", n.netmap, int64(3)), 3)
		once("newEpoch(4) forwarded by a contract that is not subscribed", do(w, true, fwd, "tick", n.netmap, int64(4)), 4)
		do(w, false, w.p1, "tick", n.netmap, int64(4)) // not a growing epoch
		do(w, true, w.p0, "setMode", 2, n.netmap, 1)
		once("newEpoch(5) with newEpoch(6) requested from inside the callback", do(w, true, n.netmap, "newEpoch", int64(5)), 5, 6)
		do(w, true, w.p0, "setMode", 0, n.netmap, nil)
		once("newEpoch(8) forwarded by the first subscriber", do(w, true, w.p1, "tick", n.netmap, int64(8)), 8)
		once("direct newEpoch(9)", do(w, true, n.netmap, "newEpoch", int64(9)), 9)
	}
	st.Evaluations += evals
	st.Histories += 6
	st.Extra["probe_callbacks"] = map[string]any{"histories": 6, "invocations": evals, "callback_checks": checks,
		"note": "subscribers that read Netmap, re-enter newEpoch or add a candidate during their callback; judged by the Go monitor (the model's subscribers do not call back)"}
}
