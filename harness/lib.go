// Package harness drives the contracts compiled from /repo's working tree on
// an in-process neo-go chain (neotest) and writes down what they did as Coq
// literals, so that the Gallina models can be run on the same histories.
package harness

import (
	"crypto/sha256"
	"encoding/json"
	"fmt"
	"math/big"
	"math/rand"
	"os"
	"path/filepath"
	"slices"
	"sort"
	"strconv"
	"strings"
	"testing"

	"github.com/nspcc-dev/neo-go/pkg/config"
	"github.com/nspcc-dev/neo-go/pkg/core"
	"github.com/nspcc-dev/neo-go/pkg/core/block"
	"github.com/nspcc-dev/neo-go/pkg/core/interop/storage"
	"github.com/nspcc-dev/neo-go/pkg/core/state"
	"github.com/nspcc-dev/neo-go/pkg/core/transaction"
	"github.com/nspcc-dev/neo-go/pkg/crypto/keys"
	"github.com/nspcc-dev/neo-go/pkg/neotest"
	"github.com/nspcc-dev/neo-go/pkg/neotest/chain"
	"github.com/nspcc-dev/neo-go/pkg/smartcontract"
	"github.com/nspcc-dev/neo-go/pkg/smartcontract/callflag"
	"github.com/nspcc-dev/neo-go/pkg/smartcontract/trigger"
	"github.com/nspcc-dev/neo-go/pkg/util"
	"github.com/nspcc-dev/neo-go/pkg/vm/stackitem"
	"github.com/nspcc-dev/neo-go/pkg/vm/vmstate"
	"github.com/nspcc-dev/neo-go/pkg/wallet"
	"github.com/stretchr/testify/require"
	"go.uber.org/zap"
)

// RepoDir is the tree under test.
var RepoDir = envOr("VERIF_REPO", "/repo")

func envOr(k, d string) string {
	if v := os.Getenv(k); v != "" {
		return v
	}
	return d
}

// Seed returns the PRNG seed for this run.
func Seed() int64 {
	v, err := strconv.ParseInt(envOr("VERIF_SEED", "20260926"), 10, 64)
	if err != nil {
		return 20260926
	}
	return v
}

// Tier is "quick" or "thorough".
func Tier() string { return envOr("VERIF_TIER", "quick") }

// OutDir is where cases_*.v, stats and replays are written.
func OutDir() string {
	d := envOr("VERIF_OUT", "/verif/.work/default")
	_ = os.MkdirAll(d, 0o755)
	return d
}

// ---------------------------------------------------------------------------
// Chain

// Env is one fresh chain with contracts deployed.
type Env struct {
	T  testing.TB
	E  *neotest.Executor
	BC *core.Blockchain
}

// NewEnv creates a single-validator chain (committee of one key).
func NewEnv(t testing.TB) *Env {
	bc, acc := chain.NewSingle(t)
	e := neotest.NewExecutor(t, bc, acc, acc)
	return &Env{T: t, E: e, BC: bc}
}

// EnvN is a chain whose committee consists of n keys owned by the harness, so
// that the Alphabet account (2n/3+1 of n), the committee-majority account
// (n/2+1 of n) and single members can sign separately.
type EnvN struct {
	*Env
	Keys     []*keys.PrivateKey // sorted by public key, as neo.GetCommittee() returns them
	Alphabet neotest.Signer     // 2n/3+1 multisig: common.AlphabetAddress()
	Majority neotest.Signer     // n/2+1 multisig: common.CommitteeAddress()
	// Validators is the block-signing account of the consensus nodes (a strict subset of the
	// committee on chains made by NewEnvNV with v < n); it is no Alphabet or committee account.
	Validators neotest.Signer
}

// HarnessKey returns the i-th deterministic private key of the harness.
func HarnessKey(i int) *keys.PrivateKey {
	h := sha256.Sum256([]byte(fmt.Sprintf("verif-harness-key-%d", i)))
	k, err := keys.NewPrivateKeyFromBytes(h[:])
	if err != nil {
		panic(err)
	}
	return k
}

// MultiSignerOf builds the m-of-n multisig signer over ks (signs with the first m keys in key order).
func MultiSignerOf(m int, ks []*keys.PrivateKey) neotest.Signer {
	pubs := make(keys.PublicKeys, len(ks))
	for i, k := range ks {
		pubs[i] = k.PublicKey()
	}
	accs := make([]*wallet.Account, len(ks))
	for i, k := range ks {
		a := wallet.NewAccountFromPrivateKey(k)
		if err := a.ConvertMultisig(m, slices.Clone(pubs)); err != nil {
			panic(err)
		}
		accs[i] = a
	}
	return neotest.NewMultiSigner(accs...)
}

// NewEnvN creates a chain with a committee (= validators) of n harness keys.
func NewEnvN(t testing.TB, n int) *EnvN { return NewEnvNV(t, n, n) }

// NewEnvNV: a chain whose committee has n keys of which the first v (in key order) are the
// consensus nodes, as on public networks (committee 21, validators 7).
func NewEnvNV(t testing.TB, n, nv int) *EnvN {
	ks := make([]*keys.PrivateKey, n)
	for i := range ks {
		ks[i] = HarnessKey(i)
	}
	sort.Slice(ks, func(i, j int) bool { return ks[i].PublicKey().Cmp(ks[j].PublicKey()) < 0 })
	hexes := make([]string, n)
	for i, k := range ks {
		hexes[i] = k.PublicKey().StringCompressed()
	}
	bc, _, _ := chain.NewMultiWithOptions(t, &chain.Options{
		Logger: zap.NewNop(),
		BlockchainConfigHook: func(c *config.Blockchain) {
			c.StandbyCommittee = hexes
			c.ValidatorsCount = uint32(nv)
		}})
	validator := MultiSignerOf(smartcontract.GetDefaultHonestNodeCount(nv), ks[:nv])
	majority := MultiSignerOf(smartcontract.GetMajorityHonestNodeCount(n), ks)
	e := neotest.NewExecutor(t, bc, validator, majority)
	return &EnvN{Env: &Env{T: t, E: e, BC: bc}, Keys: ks,
		Alphabet: MultiSignerOf(n*2/3+1, ks), Majority: majority, Validators: validator}
}

// Compile compiles contract <name> from the working tree.
func (v *Env) Compile(name string) *neotest.Contract {
	p := filepath.Join(RepoDir, "contracts", name)
	return v.rehash(neotest.CompileFile(v.T, v.E.Validator.ScriptHash(), p, filepath.Join(p, "config.yml")))
}

// CompileHelper compiles a helper contract from harness/testdata/<name>.
func (v *Env) CompileHelper(name string) *neotest.Contract {
	p := filepath.Join(envOr("VERIF_HARNESS", "/verif/harness"), "testdata", name)
	return v.rehash(neotest.CompileFile(v.T, v.E.Validator.ScriptHash(), p, filepath.Join(p, "config.yml")))
}

// rehash recomputes the contract hash for this chain's deployer (neotest
// caches compiled contracts by path, together with the hash computed for the
// first chain that asked).
func (v *Env) rehash(c *neotest.Contract) *neotest.Contract {
	c2 := *c
	c2.Hash = state.CreateContractHash(v.E.Validator.ScriptHash(), c.NEF.Checksum, c.Manifest.Name)
	return &c2
}

// Result is what one persisted invocation did.
type Result struct {
	Halt   bool
	Fault  string
	Stack  []stackitem.Item
	Events []state.NotificationEvent
	TxHash util.Uint256
	Height uint32
}

// Invoke sends one transaction in one block and returns its execution result.
func (v *Env) Invoke(signers []neotest.Signer, h util.Uint160, method string, args ...any) Result {
	tx := v.PrepareTx(signers, h, method, args...)
	b := v.E.AddNewBlock(v.T, tx)
	return v.ResultOf(tx, b)
}

// PrepareTx builds and signs a transaction (the system fee is generous so a
// failing test invocation does not starve the real one).
func (v *Env) PrepareTx(signers []neotest.Signer, h util.Uint160, method string, args ...any) *transaction.Transaction {
	tx := v.E.NewUnsignedTx(v.T, h, method, args...)
	if len(signers) == 0 {
		signers = []neotest.Signer{v.E.Validator}
	}
	return v.E.SignTx(v.T, tx, 30_0000_0000, signers...)
}

// DeployWith deploys c in a transaction sent by the chain's funding account (so the contract
// hash is the usual one) and co-signed by the given accounts, e.g. the Alphabet account a _deploy
// needs for its calls into other contracts on chains where it is not the funding account.
func (v *Env) DeployWith(c *neotest.Contract, data any, cosigners ...neotest.Signer) {
	rawManifest, err := json.Marshal(c.Manifest)
	if err != nil {
		v.T.Fatalf("manifest: %v", err)
	}
	neb, err := c.NEF.Bytes()
	if err != nil {
		v.T.Fatalf("nef: %v", err)
	}
	tx := v.E.NewUnsignedTx(v.T, v.E.NativeHash(v.T, "ContractManagement"), "deploy", neb, rawManifest, data)
	sg := []neotest.Signer{v.E.Validator}
	seen := map[util.Uint160]bool{v.E.Validator.ScriptHash(): true}
	for _, c := range cosigners {
		if !seen[c.ScriptHash()] {
			seen[c.ScriptHash()] = true
			sg = append(sg, c)
		}
	}
	tx = v.E.SignTx(v.T, tx, 500_0000_0000, sg...)
	v.E.AddNewBlock(v.T, tx)
	v.E.CheckHalt(v.T, tx.Hash())
	if v.BC.GetContractState(c.Hash) == nil {
		v.T.Fatalf("deployed contract has another hash")
	}
}

// PrepareTxScoped is PrepareTx with an explicit witness scope per signer (the
// first signer is the transaction's sender). Signers with the same account are
// listed once, with the first scope given.
func (v *Env) PrepareTxScoped(signers []neotest.Signer, scopes []transaction.WitnessScope, h util.Uint160, method string, args ...any) *transaction.Transaction {
	tx := v.E.NewUnsignedTx(v.T, h, method, args...)
	var sgs []neotest.Signer
	seen := map[util.Uint160]bool{}
	for i, sg := range signers {
		if seen[sg.ScriptHash()] {
			continue
		}
		seen[sg.ScriptHash()] = true
		tx.Signers = append(tx.Signers, transaction.Signer{Account: sg.ScriptHash(), Scopes: scopes[i]})
		sgs = append(sgs, sg)
	}
	neotest.AddNetworkFee(v.T, v.BC, tx, sgs...)
	tx.SystemFee = 30_0000_0000
	for _, sg := range sgs {
		if err := sg.SignTx(v.BC.GetConfig().Magic, tx); err != nil {
			v.T.Fatalf("sign: %v", err)
		}
	}
	return tx
}

// InvokeScoped is Invoke with explicit witness scopes.
func (v *Env) InvokeScoped(signers []neotest.Signer, scopes []transaction.WitnessScope, h util.Uint160, method string, args ...any) Result {
	tx := v.PrepareTxScoped(signers, scopes, h, method, args...)
	b := v.E.AddNewBlock(v.T, tx)
	return v.ResultOf(tx, b)
}

// ResultOf reads the application log of tx.
func (v *Env) ResultOf(tx *transaction.Transaction, b *block.Block) Result {
	aer := v.E.GetTxExecResult(v.T, tx.Hash())
	r := Result{Halt: aer.VMState == vmstate.Halt, Fault: aer.FaultException,
		Stack: aer.Stack, Events: aer.Events, TxHash: tx.Hash()}
	if b != nil {
		r.Height = b.Index
	}
	if !r.Halt {
		// A faulted execution is rolled back as a whole; the events listed in
		// its application log were never committed and clients must ignore
		// them. Canonical form: none.
		r.Events = nil
	}
	return r
}

// Read performs a read-only test invocation on the current state.
func (v *Env) Read(h util.Uint160, method string, args ...any) (stackitem.Item, error) {
	items, err := v.ReadAll(nil, h, method, args...)
	if err != nil {
		return nil, err
	}
	if len(items) == 0 {
		return stackitem.Null{}, nil
	}
	return items[0], nil
}

// ReadAll runs a test invocation with the given signers (Global scope) and
// returns the whole stack; iterators are expanded into arrays.
func (v *Env) ReadAll(signers []neotest.Signer, h util.Uint160, method string, args ...any) ([]stackitem.Item, error) {
	tx := v.E.NewUnsignedTx(v.T, h, method, args...)
	for _, acc := range signers {
		tx.Signers = append(tx.Signers, transaction.Signer{Account: acc.ScriptHash(), Scopes: transaction.Global})
	}
	b := v.E.NewUnsignedBlock(v.T, tx)
	ic, err := v.BC.GetTestVM(trigger.Application, tx, b)
	if err != nil {
		return nil, err
	}
	defer ic.Finalize()
	ic.VM.LoadWithFlags(tx.Script, callflag.All)
	if err = ic.VM.Run(); err != nil {
		return nil, err
	}
	arr := ic.VM.Estack().ToArray()
	for i := range arr {
		arr[i] = expandIterators(arr[i])
	}
	return arr, nil
}

func expandIterators(it stackitem.Item) stackitem.Item {
	if ip, ok := it.(*stackitem.Interop); ok {
		if iter, ok := ip.Value().(*storage.Iterator); ok {
			var out []stackitem.Item
			for iter.Next() {
				out = append(out, iter.Value())
			}
			return stackitem.NewArray(out)
		}
	}
	return it
}

// ReadInt reads an integer-returning safe method.
func (v *Env) ReadInt(h util.Uint160, method string, args ...any) *big.Int {
	it, err := v.Read(h, method, args...)
	require.NoError(v.T, err, method)
	bi, err := it.TryInteger()
	require.NoError(v.T, err, method)
	return bi
}

// StorageKeys returns the raw storage keys of a contract under a prefix
// (prefix included), in iteration order.
func (v *Env) StorageKeys(h util.Uint160, prefix []byte) [][]byte {
	cs := v.BC.GetContractState(h)
	require.NotNil(v.T, cs)
	var keys [][]byte
	v.BC.SeekStorage(cs.ID, prefix, func(k, _ []byte) bool {
		keys = append(keys, append(append([]byte{}, prefix...), k...))
		return true
	})
	return keys
}

// StorageDump returns all key/value pairs of a contract.
func (v *Env) StorageDump(h util.Uint160) map[string]string {
	cs := v.BC.GetContractState(h)
	require.NotNil(v.T, cs)
	m := map[string]string{}
	v.BC.SeekStorage(cs.ID, nil, func(k, val []byte) bool {
		m[string(k)] = string(val)
		return true
	})
	return m
}

// ---------------------------------------------------------------------------
// Coq literals

// Pool interns opaque byte strings as named Coq constants.
type Pool struct {
	names map[string]string
	order []string
	pfx   string
}

func NewPool(pfx string) *Pool { return &Pool{names: map[string]string{}, pfx: pfx} }

// Ref returns the Coq name for b, defining it on first use.
func (p *Pool) Ref(b []byte) string {
	if len(b) == 0 {
		return "[]"
	}
	if n, ok := p.names[string(b)]; ok {
		return n
	}
	n := fmt.Sprintf("%s%d", p.pfx, len(p.order))
	p.names[string(b)] = n
	p.order = append(p.order, string(b))
	return n
}

// Defs prints the constant definitions.
func (p *Pool) Defs() string {
	var sb strings.Builder
	for i, s := range p.order {
		fmt.Fprintf(&sb, "Definition %s%d : bytes := %s.\n", p.pfx, i, BytesLit([]byte(s)))
	}
	return sb.String()
}

// BytesLit prints a byte string as a list of N.
func BytesLit(b []byte) string {
	if len(b) == 0 {
		return "[]"
	}
	parts := make([]string, len(b))
	for i, x := range b {
		parts[i] = strconv.Itoa(int(x))
	}
	return "[" + strings.Join(parts, ";") + "]%N"
}

// ZLit prints an integer.
func ZLit(z *big.Int) string {
	if z.Sign() < 0 {
		return "(" + z.String() + ")%Z"
	}
	return z.String() + "%Z"
}

func ZI(i int64) string { return ZLit(big.NewInt(i)) }

// BoolLit prints a bool.
func BoolLit(b bool) string {
	if b {
		return "true"
	}
	return "false"
}

// ListLit prints a Coq list.
func ListLit(xs []string) string {
	if len(xs) == 0 {
		return "[]"
	}
	return "[" + strings.Join(xs, "; ") + "]"
}

// Val constructors (Base.Prelude.val).
func VInt(z *big.Int) string     { return "VInt " + ZLit(z) }
func VIntI(i int64) string       { return "VInt " + ZI(i) }
func VBool(b bool) string        { return "VBool " + BoolLit(b) }
func VBytesRef(ref string) string {
	if ref == "[]" {
		return "VBytes []"
	}
	return "VBytes " + ref
}
func VList(xs []string) string { return "VList " + ListLit(paren(xs)) }

const VNull = "VNull"
const VFault = "VFault"

func paren(xs []string) []string {
	out := make([]string, len(xs))
	for i, x := range xs {
		if strings.ContainsAny(x, " ") && !strings.HasPrefix(x, "(") {
			out[i] = "(" + x + ")"
		} else {
			out[i] = x
		}
	}
	return out
}

// ItemBytes extracts bytes from a stack item (Null -> empty).
func ItemBytes(it stackitem.Item) []byte {
	if it == nil {
		return nil
	}
	if _, ok := it.(stackitem.Null); ok {
		return nil
	}
	b, err := it.TryBytes()
	if err != nil {
		return []byte("?" + it.String())
	}
	return b
}

// ItemInt extracts an integer (Null -> 0).
func ItemInt(it stackitem.Item) *big.Int {
	if _, ok := it.(stackitem.Null); ok {
		return big.NewInt(0)
	}
	bi, err := it.TryInteger()
	if err != nil {
		return big.NewInt(-424242)
	}
	return bi
}

// ---------------------------------------------------------------------------
// Cases file

// CasesFile accumulates one cases_Cxx.v.
type CasesFile struct {
	Header string   // Require lines etc.
	Pool   *Pool
	Cases  []string // each a Coq term
	Footer string   // Definition M := ... Print M.
}

func (c *CasesFile) Write(path string) error {
	var sb strings.Builder
	sb.WriteString(c.Header)
	sb.WriteString(c.Pool.Defs())
	sb.WriteString("Definition cases := [\n")
	sb.WriteString(strings.Join(c.Cases, ";\n"))
	sb.WriteString("\n].\n")
	sb.WriteString(c.Footer)
	return os.WriteFile(path, []byte(sb.String()), 0o644)
}

// ---------------------------------------------------------------------------
// Statistics / evidence pieces

// Stats is merged into the evidence file by ./check.
type Stats struct {
	Property           string         `json:"property"`
	Seed               int64          `json:"seed"`
	Tier               string         `json:"tier"`
	Histories          int            `json:"histories"`
	Evaluations        int            `json:"evaluations"`
	DistinctNontrivial int            `json:"distinct_nontrivial"`
	Rule               string         `json:"rule"`
	OpHistogram        map[string]int `json:"op_histogram"`
	OutcomeHistogram   map[string]int `json:"outcome_histogram"`
	Samples            []any          `json:"samples"`
	KnownFindings      []string       `json:"known_findings_observed"`
	Violations         []Violation    `json:"violations"`
	Extra              map[string]any `json:"extra,omitempty"`
}

// Violation is a concrete failing input found by a monitor.
type Violation struct {
	What   string `json:"what"`
	Replay string `json:"replay"`
}

func NewStats(prop string) *Stats {
	return &Stats{Property: prop, Seed: Seed(), Tier: Tier(),
		OpHistogram: map[string]int{}, OutcomeHistogram: map[string]int{}, Extra: map[string]any{}}
}

func (s *Stats) Write() {
	b, _ := json.MarshalIndent(s, "", " ")
	_ = os.WriteFile(filepath.Join(OutDir(), "stats_"+s.Property+".json"), b, 0o644)
}

// AddViolation records a monitor violation with its replay file.
func (s *Stats) AddViolation(what string, replay any) {
	name := fmt.Sprintf("%s-%d-%d.json", s.Property, s.Seed, len(s.Violations))
	dir := envOr("VERIF_REPLAYS", "/verif/replays")
	_ = os.MkdirAll(dir, 0o755)
	p := filepath.Join(dir, name)
	b, _ := json.MarshalIndent(map[string]any{"property": s.Property, "what": what, "seed": s.Seed, "history": replay}, "", " ")
	_ = os.WriteFile(p, b, 0o644)
	s.Violations = append(s.Violations, Violation{What: what, Replay: p})
}

// AddKnown records a re-observed known finding (deduplicated).
func (s *Stats) AddKnown(id string) {
	for _, k := range s.KnownFindings {
		if k == id {
			return
		}
	}
	s.KnownFindings = append(s.KnownFindings, id)
	sort.Strings(s.KnownFindings)
}

// Rng returns the run's PRNG (all random choices derive from it).
func Rng(salt int64) *rand.Rand { return rand.New(rand.NewSource(Seed()*1000003 + salt)) }

// Hex is a short printable form of bytes for replay files.
func Hex(b []byte) string { return fmt.Sprintf("%x", b) }
