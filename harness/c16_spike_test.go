//go:build verif_c16

package harness

import (
	"encoding/json"
	"fmt"
	"os"
	"os/exec"
	"path/filepath"
	"strings"
	"testing"
	"time"

	"github.com/nspcc-dev/neo-go/pkg/neotest"
	"github.com/stretchr/testify/require"
)

func copyTree(t testing.TB, dst string) {
	for _, p := range []string{"go.mod", "go.sum", "common", "contracts"} {
		out, err := exec.Command("cp", "-r", filepath.Join(RepoDir, p), filepath.Join(dst, p)).CombinedOutput()
		require.NoError(t, err, string(out))
	}
}

func patchVersion(t testing.TB, dir string, v int) {
	p := filepath.Join(dir, "common", "version.go")
	b, err := os.ReadFile(p)
	require.NoError(t, err)
	s := string(b)
	old := "Version = major*1_000_000 + minor*1_000 + patch"
	require.Contains(t, s, old)
	s = strings.Replace(s, old, fmt.Sprintf("Version = %d", v), 1)
	require.NoError(t, os.WriteFile(p, []byte(s), 0o644))
}

func TestC16Spike(t *testing.T) {
	v := NewEnv(t)
	names := []string{"alphabet", "audit", "balance", "container", "neofs", "neofsid", "netmap", "nns", "processing", "proxy", "reputation"}
	for _, n := range names {
		t0 := time.Now()
		c := v.Compile(n)
		fmt.Println("compile", n, time.Since(t0), c.Manifest.Name)
	}
	d := t.TempDir()
	t0 := time.Now()
	copyTree(t, d)
	patchVersion(t, d, 15004)
	fmt.Println("copy", time.Since(t0))
	for _, n := range names {
		t0 := time.Now()
		p := filepath.Join(d, "contracts", n)
		c := neotest.CompileFile(t, v.E.CommitteeHash, p, filepath.Join(p, "config.yml"))
		fmt.Println("compile patched", n, time.Since(t0), c.Manifest.Name)
	}
	// real balance at 15004 -> tree
	p := filepath.Join(d, "contracts", "balance")
	old := neotest.CompileFile(t, v.E.CommitteeHash, p, filepath.Join(p, "config.yml"))
	v.E.DeployContract(t, old, []any{false})
	fmt.Println("old version", v.ReadInt(old.Hash, "version"))
	nw := v.Compile("balance")
	nb, _ := nw.NEF.Bytes()
	mb, _ := json.Marshal(nw.Manifest)
	r := v.Invoke([]neotest.Signer{v.E.Committee}, old.Hash, "update", nb, mb, nil)
	fmt.Println("update", r.Halt, r.Fault, v.ReadInt(old.Hash, "version"))
	r = v.Invoke([]neotest.Signer{v.E.Committee}, old.Hash, "update", nb, mb, nil)
	fmt.Println("update again", r.Halt, r.Fault, v.ReadInt(old.Hash, "version"))
}
