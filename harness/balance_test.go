package harness

import (
	"fmt"
	"math/big"
	"math/rand"
	"path/filepath"
	"strings"
	"testing"

	"github.com/nspcc-dev/neo-go/pkg/core/native/nativenames"
	"github.com/nspcc-dev/neo-go/pkg/crypto/keys"
	"github.com/nspcc-dev/neo-go/pkg/core/transaction"
	"github.com/nspcc-dev/neo-go/pkg/neotest"
	"github.com/nspcc-dev/neo-go/pkg/util"
	"github.com/nspcc-dev/neo-go/pkg/vm/stackitem"
	"github.com/nspcc-dev/neo-go/pkg/wallet"
	"github.com/stretchr/testify/require"
)

// ---------------------------------------------------------------------------
// Balance family: C01 (conservation), C02 (authorisation), C09 (locks).
// One executor, three generators/monitors, one Coq model (Model/Balance.v).

type balEnv struct {
	*Env
	nns, netmap, balance, caller util.Uint160
	users                        []neotest.Signer
	committee                    neotest.Signer // the Alphabet account (2n/3+1 of n)
	majority                     neotest.Signer // the committee-majority account (n/2+1 of n); = Alphabet for n in {1,2,4}
	member                       neotest.Signer // one committee member alone
	validators                   neotest.Signer // the consensus nodes' block-signing account on chains where they are a strict subset of the committee (nil otherwise)
	former                       neotest.Signer // the Alphabet account before the last committee re-election (nil: none yet)
	n                            int
	extra                        int      // number of extra lock addresses in the pool
	addrs                        [][]byte // pool of addresses (observed after every op)
	epoch                        int64
}

type balOp struct {
	Kind    string   `json:"kind"` // transfer, transferX, mint, burn, lock, newEpoch, newEpochNetmap, callerTransfer
	From    []byte   `json:"from,omitempty"`
	To      []byte   `json:"to,omitempty"`
	Amount  *big.Int `json:"amount,omitempty"`
	Details []byte   `json:"details,omitempty"`
	Until   int64    `json:"until,omitempty"`
	Epoch   int64    `json:"epoch,omitempty"`
	FromNull bool    `json:"from_null,omitempty"` // pass Null (not an empty byte string) as `from`
	Data     []byte  `json:"data,omitempty"`     // the `data` argument of the public transfer (with HasData; otherwise Null)
	HasData  bool    `json:"has_data,omitempty"`
	ToNull   bool    `json:"to_null,omitempty"`   // pass Null as `to` (only in calls that lack the Alphabet witness)
	Scopes  []int    `json:"scopes,omitempty"` // per signer: 0 Global (default), 1 None (fee-only), 2 CalledByEntry; the first signer is the sender
	Signers []int    `json:"signers"` // indices into users; -1 = Alphabet account, -2 = committee-majority account, -3 = one committee member
}

type balObs struct {
	halt     bool
	ret      string // Coq val
	retBool  *bool
	notifs   []balNotif
	balances []*big.Int
	supply   *big.Int
	nkeys    int
}

type balNotif struct {
	kind     int // 0 Transfer, 1 TransferX, 2 Lock
	from, to []byte
	amount   *big.Int
	details  []byte
	until    *big.Int
}

func newBalEnv(t testing.TB, n int) *balEnv { return newBalEnvX(t, n, 0) }

// newBalEnvX additionally puts extraLocks fresh 20-byte lock addresses at the
// end of the observed pool (index balIdxExtra and up).
func newBalEnvX(t testing.TB, n int, extraLocks int) *balEnv {
	var v *Env
	b := &balEnv{n: n, extra: extraLocks}
	if n <= 1 {
		v = NewEnv(t)
		b.committee, b.majority, b.member = v.E.Committee, v.E.Committee, v.E.Committee
	} else {
		vn := NewEnvN(t, n)
		if n == 6 {
			vn = NewEnvNV(t, 6, 4) // committee strictly larger than the validator set
		}
		v = vn.Env
		b.committee, b.majority = vn.Alphabet, vn.Majority
		b.validators = vn.Validators
		b.member = neotest.NewSingleSigner(wallet.NewAccountFromPrivateKey(vn.Keys[0]))
		gas := v.E.NativeHash(t, "GasToken")
		for _, a := range []neotest.Signer{vn.Alphabet, vn.Majority, b.member} {
			if a.ScriptHash() != v.E.Validator.ScriptHash() {
				v.E.ValidatorInvoker(gas).Invoke(t, true, "transfer", v.E.Validator.ScriptHash(), a.ScriptHash(), int64(100000_0000_0000), nil)
			}
		}
	}
	b.Env = v
	e := v.E

	nns := v.Compile("nns")
	e.DeployContract(t, nns, []any{[]any{[]any{"neofs", "ops@nspcc.io"}}})
	b.nns = nns.Hash
	reg := func(name string, h util.Uint160) {
		inv := e.CommitteeInvoker(b.nns)
		inv.Invoke(t, true, "register", name+".neofs", e.CommitteeHash, "ops@nspcc.ru", int64(3600), int64(600), int64(10*365*24*3600*1000), int64(3600))
		inv.Invoke(t, nil, "addRecord", name+".neofs", 16, h.StringLE())
	}
	nm := v.Compile("netmap")
	v.DeployWith(nm, []any{false, util.Uint160{}, util.Uint160{}, []any{}, []any{}}, e.Committee, b.committee)
	b.netmap = nm.Hash
	reg("netmap", nm.Hash)
	bal := v.Compile("balance")
	v.DeployWith(bal, []any{false, util.Uint160{}, util.Uint160{}}, e.Committee, b.committee)
	b.balance = bal.Hash
	reg("balance", bal.Hash)
	cl := v.CompileHelper("caller")
	e.DeployContract(t, cl, nil)
	b.caller = cl.Hash

	for i := 0; i < 3; i++ {
		b.users = append(b.users, e.NewAccount(t, 100000_0000_0000))
	}
	for _, u := range b.users {
		b.addrs = append(b.addrs, u.ScriptHash().BytesBE())
	}
	b.addrs = append(b.addrs, b.caller.BytesBE())
	// contracts that never call Balance.transfer themselves: the Balance
	// contract's own address and Netmap's (nobody can witness them)
	b.addrs = append(b.addrs, b.balance.BytesBE(), b.netmap.BytesBE())
	// lock addresses (fresh 20-byte values) and malformed addresses
	for i := 0; i < 3; i++ {
		a := make([]byte, 20)
		a[0] = byte(0x10 * (i + 1))
		a[19] = byte(i + 1)
		b.addrs = append(b.addrs, a)
	}
	b.addrs = append(b.addrs, []byte{}, []byte{1, 2, 3, 4, 5}, append(make([]byte, 24), 7))
	for i := 0; i < extraLocks; i++ {
		a := make([]byte, 20)
		a[0] = 0xE0
		a[1] = byte(i + 1)
		a[19] = byte(0x80 + i)
		b.addrs = append(b.addrs, a)
	}
	// the all-zero script hash: an ordinary (if unowned) 20-byte account, not "no account"
	b.addrs = append(b.addrs, make([]byte, 20))
	return b
}

func (b *balEnv) zeroIdx() int { return len(b.addrs) - 1 }

const (
	balNUsers   = 3
	balIdxCall  = 3
	balIdxSelf  = 4
	balIdxLock0 = 6
	balIdxEmpty = 9
	balIdxExtra = 12 // extra lock addresses (newBalEnvX)
)

func (b *balEnv) signerList(idx []int) []neotest.Signer {
	var out []neotest.Signer
	for _, i := range idx {
		if i == -5 {
			// the consensus nodes' block-signing account (= the chain's funding account)
			if b.validators != nil {
				out = append(out, b.validators)
			} else {
				out = append(out, b.E.Validator)
			}
		} else if i == -1 {
			out = append(out, b.committee)
		} else if i == -2 {
			out = append(out, b.majority)
		} else if i == -3 {
			out = append(out, b.member)
		} else if i == -4 {
			if b.former != nil {
				out = append(out, b.former)
			} else {
				out = append(out, b.committee)
			}
		} else {
			out = append(out, b.users[i])
		}
	}
	return out
}

// rotateCommittee re-elects the (one-member) committee of a single-validator chain: a new candidate
// gets the NEO votes, so neo.GetCommittee() - and with it the Alphabet account - changes.  The former
// Alphabet account stays available as signer -4.
func (b *balEnv) rotateCommittee() {
	t, e := b.T, b.E
	neoInv := e.ValidatorInvoker(e.NativeHash(t, nativenames.Neo))
	cand := e.NewAccount(t, 2000_0000_0000)
	voter := e.NewAccount(t, 10_0000_0000)
	candPub := cand.(neotest.SingleSigner).Account().PublicKey()
	neoInv.Invoke(t, true, "transfer", e.Validator.ScriptHash(), voter.ScriptHash(), 60_000_000, nil)
	neoInv.WithSigners(cand).Invoke(t, true, "registerCandidate", candPub.Bytes())
	neoInv.WithSigners(voter).Invoke(t, true, "vote", voter.ScriptHash(), candPub.Bytes())
	e.GenerateNewBlocks(t, 2)
	newAcc := wallet.NewAccountFromPrivateKey(cand.(neotest.SingleSigner).Account().PrivateKey())
	require.NoError(t, newAcc.ConvertMultisig(1, keys.PublicKeys{candPub}))
	newAlphabet := neotest.NewMultiSigner(newAcc)
	require.NotEqual(t, b.committee.ScriptHash(), newAlphabet.ScriptHash())
	e.ValidatorInvoker(e.NativeHash(t, nativenames.Gas)).Invoke(t, true, "transfer",
		e.Validator.ScriptHash(), newAlphabet.ScriptHash(), int64(1000_0000_0000), nil)
	b.former = b.committee
	b.committee, b.majority, b.member = newAlphabet, newAlphabet, newAlphabet
}

func nilIfEmpty(x []byte) any {
	if len(x) == 0 {
		return nil
	}
	return x
}

func nullable(b []byte, null bool) any {
	if null {
		return nil
	}
	return b
}

// invoke sends one transaction with the op's signers and witness scopes.
func (b *balEnv) invoke(op balOp, h util.Uint160, method string, args ...any) Result {
	sg := b.signerList(op.Signers)
	if len(op.Scopes) == 0 || len(sg) == 0 {
		return b.Invoke(sg, h, method, args...)
	}
	sc := make([]transaction.WitnessScope, len(sg))
	for i := range sg {
		sc[i] = transaction.Global
		if i < len(op.Scopes) {
			switch op.Scopes[i] {
			case 1:
				sc[i] = transaction.None
			case 2:
				sc[i] = transaction.CalledByEntry
			}
		}
	}
	return b.InvokeScoped(sg, sc, h, method, args...)
}

func (b *balEnv) exec(op balOp) balObs {
	var r Result
	switch op.Kind {
	case "transfer":
		r = b.invoke(op, b.balance, "transfer", nullable(op.From, op.FromNull), op.To, op.Amount, nullable(op.Data, !op.HasData))
	case "callerTransfer":
		r = b.invoke(op, b.caller, "call", b.balance, "transfer", []any{nullable(op.From, op.FromNull), op.To, op.Amount, nullable(op.Data, !op.HasData)})
	case "transferX":
		r = b.invoke(op, b.balance, "transferX", nullable(op.From, op.FromNull), nullable(op.To, op.ToNull), op.Amount, op.Details)
	case "mint":
		r = b.invoke(op, b.balance, "mint", nullable(op.To, op.ToNull), op.Amount, op.Details)
	case "burn":
		r = b.invoke(op, b.balance, "burn", nullable(op.From, op.FromNull), op.Amount, op.Details)
	case "lock":
		r = b.invoke(op, b.balance, "lock", op.Details, nullable(op.From, op.FromNull), nullable(op.To, op.ToNull), op.Amount, op.Until)
	case "newEpoch":
		r = b.invoke(op, b.balance, "newEpoch", op.Epoch)
	case "newEpochNetmap":
		r = b.invoke(op, b.netmap, "newEpoch", op.Epoch)
		if r.Halt {
			b.epoch = op.Epoch
		}
	default:
		panic(op.Kind)
	}
	o := balObs{halt: r.Halt}
	if !r.Halt {
		o.ret = VFault
	} else if op.Kind == "transfer" || op.Kind == "callerTransfer" {
		require.Len(b.T, r.Stack, 1)
		bv, err := r.Stack[0].TryBool()
		require.NoError(b.T, err)
		o.ret = VBool(bv)
		o.retBool = &bv
	} else {
		o.ret = VNull
	}
	for _, ev := range r.Events {
		if ev.ScriptHash != b.balance {
			continue
		}
		items := ev.Item.Value().([]stackitem.Item)
		switch ev.Name {
		case "Transfer":
			o.notifs = append(o.notifs, balNotif{kind: 0, from: ItemBytes(items[0]), to: ItemBytes(items[1]), amount: ItemInt(items[2])})
		case "TransferX":
			o.notifs = append(o.notifs, balNotif{kind: 1, from: ItemBytes(items[0]), to: ItemBytes(items[1]), amount: ItemInt(items[2]), details: ItemBytes(items[3])})
		case "Lock":
			o.notifs = append(o.notifs, balNotif{kind: 2, details: ItemBytes(items[0]), from: ItemBytes(items[1]), to: ItemBytes(items[2]), amount: ItemInt(items[3]), until: ItemInt(items[4])})
		}
	}
	for _, a := range b.addrs {
		o.balances = append(o.balances, b.ReadInt(b.balance, "balanceOf", a))
	}
	o.supply = b.ReadInt(b.balance, "totalSupply")
	o.nkeys = len(b.StorageKeys(b.balance, []byte{'a'}))
	return o
}

// witnessed returns the script hashes for which CheckWitness is true.
func (b *balEnv) witnessed(op balOp) (hs [][]byte, alpha bool) {
	for k, i := range op.Signers {
		if k < len(op.Scopes) && (op.Scopes[k] == 1 || (op.Scopes[k] == 2 && (op.Kind == "callerTransfer" || op.Kind == "newEpochNetmap"))) {
			// scope None is no witness anywhere; CalledByEntry is none behind a forwarding contract —
			// nor inside Balance when the tick arrives through Netmap
			continue
		}
		if i == -5 {
			var f neotest.Signer = b.E.Validator
			if b.validators != nil {
				f = b.validators
			}
			alpha = alpha || f.ScriptHash() == b.committee.ScriptHash()
			hs = append(hs, f.ScriptHash().BytesBE())
		} else if i == -1 {
			alpha = true
			hs = append(hs, b.committee.ScriptHash().BytesBE())
		} else if i == -2 {
			alpha = alpha || b.majority.ScriptHash() == b.committee.ScriptHash()
			hs = append(hs, b.majority.ScriptHash().BytesBE())
		} else if i == -3 {
			alpha = alpha || b.member.ScriptHash() == b.committee.ScriptHash()
			hs = append(hs, b.member.ScriptHash().BytesBE())
		} else if i == -4 {
			f := b.former
			if f == nil {
				f = b.committee
			}
			alpha = alpha || f.ScriptHash() == b.committee.ScriptHash()
			hs = append(hs, f.ScriptHash().BytesBE())
		} else {
			hs = append(hs, b.users[i].ScriptHash().BytesBE())
		}
	}
	if len(op.Signers) == 0 {
		hs = append(hs, b.E.Validator.ScriptHash().BytesBE())
		alpha = b.E.Validator.ScriptHash() == b.committee.ScriptHash()
	}
	if op.Kind == "callerTransfer" {
		hs = append(hs, b.caller.BytesBE())
	}
	return
}

func (b *balEnv) coqOp(p *Pool, op balOp) string {
	hs, alpha := b.witnessed(op)
	refs := make([]string, len(hs))
	for i, h := range hs {
		refs[i] = p.Ref(h)
	}
	ctx := fmt.Sprintf("mkCtx %s %s", ListLit(refs), BoolLit(alpha))
	var o string
	switch op.Kind {
	case "transfer", "callerTransfer":
		o = fmt.Sprintf("Transfer %s %s %s", p.Ref(op.From), p.Ref(op.To), ZLit(op.Amount))
	case "transferX":
		o = fmt.Sprintf("TransferX %s %s %s %s", p.Ref(op.From), p.Ref(op.To), ZLit(op.Amount), p.Ref(op.Details))
	case "mint":
		o = fmt.Sprintf("Mint %s %s %s", p.Ref(op.To), ZLit(op.Amount), p.Ref(op.Details))
	case "burn":
		o = fmt.Sprintf("Burn %s %s %s", p.Ref(op.From), ZLit(op.Amount), p.Ref(op.Details))
	case "lock":
		o = fmt.Sprintf("Lock %s %s %s %s %s", p.Ref(op.Details), p.Ref(op.From), p.Ref(op.To), ZLit(op.Amount), ZI(op.Until))
	case "newEpoch", "newEpochNetmap":
		o = fmt.Sprintf("NewEpoch %s", ZI(op.Epoch))
	}
	return fmt.Sprintf("(%s, %s)", ctx, o)
}

func (b *balEnv) coqObs(p *Pool, o balObs) string {
	var ns []string
	for _, n := range o.notifs {
		switch n.kind {
		case 0:
			ns = append(ns, VList([]string{VIntI(0), VBytesRef(p.Ref(n.from)), VBytesRef(p.Ref(n.to)), VInt(n.amount)}))
		case 1:
			ns = append(ns, VList([]string{VIntI(1), VBytesRef(p.Ref(n.from)), VBytesRef(p.Ref(n.to)), VInt(n.amount), VBytesRef(p.Ref(n.details))}))
		case 2:
			ns = append(ns, VList([]string{VIntI(2), VBytesRef(p.Ref(n.details)), VBytesRef(p.Ref(n.from)), VBytesRef(p.Ref(n.to)), VInt(n.amount), VInt(n.until)}))
		}
	}
	var bs []string
	for _, x := range o.balances {
		bs = append(bs, VInt(x))
	}
	return VList([]string{o.ret, VList(ns), VList(bs), VInt(o.supply), VIntI(int64(o.nkeys))})
}

// ---------------------------------------------------------------------------
// Generators

var bigTwo255m1 = new(big.Int).Sub(new(big.Int).Lsh(big.NewInt(1), 255), big.NewInt(1))

func pickAmount(r *rand.Rand, bal *big.Int) *big.Int {
	switch r.Intn(14) {
	case 0:
		return big.NewInt(-1)
	case 1:
		return new(big.Int).Neg(new(big.Int).Lsh(big.NewInt(1), 100))
	case 2:
		return big.NewInt(0)
	case 3:
		return big.NewInt(1)
	case 4:
		return new(big.Int).Sub(bal, big.NewInt(1))
	case 5, 6:
		return new(big.Int).Set(bal)
	case 7:
		return new(big.Int).Add(bal, big.NewInt(1))
	case 8:
		return new(big.Int).Lsh(big.NewInt(1), 63)
	case 9:
		return new(big.Int).Set(bigTwo255m1)
	case 10:
		return new(big.Int).Neg(bal)
	default:
		if bal.Sign() > 0 {
			return new(big.Int).Rand(r, bal)
		}
		return big.NewInt(int64(r.Intn(1000)))
	}
}

type balGen struct {
	r       *rand.Rand
	b       *balEnv
	prop    string
	bal     []*big.Int // last observed balances (indexed like addrs)
	locksUp map[int]bool
}

func (g *balGen) addr(i int) []byte { return g.b.addrs[i] }

func (g *balGen) anyAddr() int {
	if g.r.Intn(14) == 0 {
		return g.b.zeroIdx()
	}
	if g.r.Intn(10) == 0 {
		return balIdxEmpty + g.r.Intn(3) // malformed
	}
	return g.r.Intn(balIdxEmpty)
}

func (g *balGen) funded() int {
	var c []int
	for i := 0; i < balIdxEmpty; i++ {
		if g.bal[i].Sign() > 0 {
			c = append(c, i)
		}
	}
	if z := g.b.zeroIdx(); z < len(g.bal) && g.bal[z].Sign() > 0 {
		c = append(c, z)
	}
	if len(c) == 0 || g.r.Intn(8) == 0 {
		return g.r.Intn(balIdxEmpty)
	}
	return c[g.r.Intn(len(c))]
}

func (g *balGen) alphaSigners() []int {
	if g.b.n > 1 && g.r.Intn(4) == 0 {
		// the committee-majority account or a single member where the Alphabet (2n/3+1) is required
		if g.b.validators != nil && g.r.Intn(3) == 0 {
			return []int{-5} // the consensus nodes' block-signing account
		}
		return []int{-2 - g.r.Intn(2)}
	}
	if g.r.Intn(6) == 0 {
		return []int{g.r.Intn(balNUsers)} // stranger where the Alphabet is required
	}
	if g.r.Intn(4) == 0 {
		return []int{g.r.Intn(balNUsers), -1}
	}
	return []int{-1}
}

// next: one generated op. Calls of the Alphabet-only methods that LACK the Alphabet witness (strangers, the
// holder itself, the committee majority) also come with malformed addresses — they must be refused whatever
// the arguments; with the Alphabet witness addresses stay well-formed, as the property's quantifier says.
func (g *balGen) next(step int) balOp {
	op := g.next0(step)
	switch op.Kind {
	case "transferX", "mint", "burn", "lock":
	default:
		return op
	}
	if _, alpha := g.b.witnessed(op); alpha || step < 2 {
		return op
	}
	r := g.r
	if r.Intn(2) == 0 {
		// signed by the holder (the natural mistake: "owner or Alphabet")
		for i := 0; i < balNUsers; i++ {
			if string(g.addr(i)) == string(op.From) {
				op.Signers = []int{i}
			}
		}
	}
	switch r.Intn(6) {
	case 0:
		op.To, op.ToNull = nil, true
	case 1:
		op.To = []byte{}
	case 2:
		op.To = g.addr(balIdxEmpty + 1 + r.Intn(2))
	case 3:
		op.From, op.FromNull = nil, true
	}
	return op
}

func (g *balGen) next0(step int) balOp {
	r := g.r
	det := []byte{byte(r.Intn(3) + 1), byte(step)}
	w := r.Intn(100)
	if step < 2 || (g.prop != "C09" && w < 18) || (g.prop == "C09" && w < 10) {
		to := r.Intn(balIdxLock0)
		if r.Intn(12) == 0 {
			to = g.anyAddr()
		}
		am := big.NewInt(int64(1+r.Intn(5)) * 1000)
		if r.Intn(5) == 0 {
			am = pickAmount(r, big.NewInt(1000))
		}
		sg := g.alphaSigners()
		if step < 2 {
			sg = []int{-1}
			am = big.NewInt(int64(1+r.Intn(5)) * 1000)
		}
		return balOp{Kind: "mint", To: g.addr(to), Amount: am, Details: det, Signers: sg}
	}
	switch {
	case w < 45 && g.prop != "C09" || w < 20:
		// public transfer
		f := g.funded()
		t := g.anyAddr()
		if r.Intn(8) == 0 {
			t = f // self transfer
		}
		if r.Intn(10) == 0 {
			f = g.anyAddr()
		} else if r.Intn(25) == 0 {
			f = balIdxEmpty + r.Intn(3) // empty / short / long sender
		}
		am := pickAmount(r, g.bal[f])
		var sg []int
		switch {
		case f < balNUsers && r.Intn(4) != 0:
			sg = []int{f}
		case r.Intn(3) == 0:
			sg = []int{-1 - r.Intn(3)}
		default:
			sg = []int{r.Intn(balNUsers)}
		}
		var sc []int
		if f < balNUsers && r.Intn(8) == 0 {
			// the holder is in the transaction (even as its sender) without a usable witness:
			// fee-only (scope None), or CalledByEntry behind a forwarding contract
			o := (f + 1 + r.Intn(balNUsers-1)) % balNUsers
			switch r.Intn(4) {
			case 0:
				sg, sc = []int{f, o}, []int{1, 0}
			case 1:
				sg, sc = []int{f}, []int{1}
			case 2:
				sg, sc = []int{f, o}, []int{2, 0}
				return balOp{Kind: "callerTransfer", From: g.addr(f), To: g.addr(t), Amount: am, Signers: sg, Scopes: sc}
			default:
				sg, sc = []int{f}, []int{2} // a valid witness for a direct call from the entry script
			}
		}
		op := balOp{Kind: "transfer", From: g.addr(f), To: g.addr(t), Amount: am, Signers: sg, Scopes: sc}
		if f == balIdxCall || r.Intn(10) == 0 {
			op.Kind = "callerTransfer"
		}
		if r.Intn(5) == 0 {
			// the public transfer's data argument is opaque: any value, same outcome
			op.HasData = true
			op.Data = [][]byte{{}, {1}, []byte("details"), g.addr(r.Intn(balNUsers))}[r.Intn(4)]
		}
		if f < balNUsers && r.Intn(12) == 0 {
			// a sender that merely CONTAINS a witnessed holder's hash (wallet address format, public key, padded) is no 20-byte account
			h := g.addr(f)
			op.From = [][]byte{
				append(append([]byte{0x35}, h...), 1, 2, 3, 4),
				append(append([]byte{}, h...), 0),
				append([]byte{0}, h...),
				append(append([]byte{0x35}, h...), 0, 0, 0, 0, 0),
			}[r.Intn(4)]
			op.Signers, op.Scopes = []int{f}, nil
		}
		return op
	case w < 55:
		f := g.funded()
		t := r.Intn(balIdxEmpty)
		return balOp{Kind: "transferX", From: g.addr(f), To: g.addr(t), Amount: pickAmount(r, g.bal[f]), Details: det, Signers: g.alphaSigners()}
	case w < 65:
		f := g.funded()
		return balOp{Kind: "burn", From: g.addr(f), Amount: pickAmount(r, g.bal[f]), Details: det, Signers: g.alphaSigners()}
	case w < 82:
		f := g.funded()
		l := balIdxLock0 + r.Intn(3)
		if g.b.extra > 0 && r.Intn(3) != 0 {
			l = balIdxExtra + r.Intn(g.b.extra)
		}
		until := g.b.epoch + int64(r.Intn(4)) - 1
		if g.prop == "C09" && r.Intn(3) != 0 {
			// pending locks with pairwise different expiries, reached one by one by later ticks
			until = g.b.epoch + 1 + int64(r.Intn(6))
		}
		if r.Intn(6) == 0 {
			until = int64(r.Intn(3)) - 1
		}
		am := pickAmount(r, g.bal[f])
		if r.Intn(2) == 0 && g.bal[f].Sign() > 0 {
			am = new(big.Int).Rand(r, g.bal[f])
		} else if r.Intn(3) == 0 {
			am = new(big.Int).Set(g.bal[f]) // the whole balance: the owner's record is deleted
		}
		return balOp{Kind: "lock", From: g.addr(f), To: g.addr(l), Amount: am, Until: until, Details: det, Signers: g.alphaSigners()}
	default:
		e := g.b.epoch + int64(r.Intn(3))
		if r.Intn(4) == 0 {
			e = int64(r.Intn(6)) - 1
		}
		if g.prop == "C09" && r.Intn(3) != 0 {
			// mostly consecutive ticks so that every expiry epoch is visited; sometimes a jump over several epochs
			jump := int64(1)
			if r.Intn(5) == 0 {
				jump = 2 + int64(r.Intn(4))
			}
			return balOp{Kind: "newEpochNetmap", Epoch: g.b.epoch + jump, Signers: []int{-1}}
		}
		if r.Intn(2) == 0 {
			op := balOp{Kind: "newEpochNetmap", Epoch: g.b.epoch + 1 + int64(r.Intn(2)), Signers: g.alphaSigners()}
			if r.Intn(8) == 0 {
				op.Scopes = []int{1 + r.Intn(2)} // the first signer's witness does not reach Balance (None / CalledByEntry)
			}
			return op
		}
		return balOp{Kind: "newEpoch", Epoch: e, Signers: g.alphaSigners()}
	}
}

// ---------------------------------------------------------------------------
// Corpus: hand-written boundary histories (witnesses of the defects found
// while reading), always run first.

func balCorpus(b *balEnv) [][]balOp {
	A, B, L := b.addrs[0], b.addrs[1], b.addrs[balIdxLock0]
	L2 := b.addrs[balIdxLock0+1]
	n := func(i int64) *big.Int { return big.NewInt(i) }
	al := []int{-1}
	return [][]balOp{
		{ // F1: negative amount moves somebody else's funds
			{Kind: "mint", To: A, Amount: n(1000), Details: []byte{1}, Signers: al},
			{Kind: "mint", To: B, Amount: n(1000), Details: []byte{2}, Signers: al},
			{Kind: "transfer", From: B, To: A, Amount: n(-500), Signers: []int{1}},
			{Kind: "transfer", From: B, To: A, Amount: n(-5000), Signers: []int{1}},
			{Kind: "transferX", From: B, To: A, Amount: n(-5), Details: []byte{9}, Signers: al},
			{Kind: "mint", To: A, Amount: n(-7), Details: []byte{3}, Signers: al},
			{Kind: "burn", From: A, Amount: n(-7), Details: []byte{3}, Signers: al},
			{Kind: "lock", From: A, To: L, Amount: n(-7), Until: 5, Details: []byte{3}, Signers: al},
		},
		{ // F9: lock with until = 0, -1, 1
			{Kind: "mint", To: A, Amount: n(1000), Details: []byte{1}, Signers: al},
			{Kind: "lock", From: A, To: L, Amount: n(100), Until: 0, Details: []byte{1}, Signers: al},
			{Kind: "lock", From: A, To: L2, Amount: n(100), Until: -1, Details: []byte{2}, Signers: al},
			{Kind: "newEpochNetmap", Epoch: 1, Signers: al},
			{Kind: "newEpochNetmap", Epoch: 2, Signers: al},
		},
		{ // lock lifecycle with partial and full burns, several locks at one tick
			{Kind: "mint", To: A, Amount: n(1000), Details: []byte{1}, Signers: al},
			{Kind: "mint", To: B, Amount: n(500), Details: []byte{1}, Signers: al},
			{Kind: "lock", From: A, To: L, Amount: n(300), Until: 2, Details: []byte{1}, Signers: al},
			{Kind: "lock", From: B, To: L2, Amount: n(200), Until: 2, Details: []byte{2}, Signers: al},
			{Kind: "burn", From: L, Amount: n(100), Details: []byte{1}, Signers: al},
			{Kind: "newEpochNetmap", Epoch: 1, Signers: al},
			{Kind: "newEpoch", Epoch: 1, Signers: []int{0}},
			{Kind: "newEpochNetmap", Epoch: 2, Signers: al},
			{Kind: "newEpochNetmap", Epoch: 3, Signers: al},
			{Kind: "lock", From: B, To: L2, Amount: n(0), Until: 4, Details: []byte{2}, Signers: al},
			{Kind: "lock", From: B, To: L, Amount: n(50), Until: 4, Details: []byte{2}, Signers: al},
			{Kind: "burn", From: L, Amount: n(50), Details: []byte{1}, Signers: al},
			{Kind: "newEpochNetmap", Epoch: 4, Signers: al},
		},
		{ // overflow and self transfers
			{Kind: "mint", To: A, Amount: bigTwo255m1, Details: []byte{1}, Signers: al},
			{Kind: "mint", To: B, Amount: n(1), Details: []byte{1}, Signers: al},
			{Kind: "transfer", From: A, To: A, Amount: bigTwo255m1, Signers: []int{0}},
			{Kind: "transfer", From: A, To: A, Amount: n(5), Signers: []int{0}},
			{Kind: "transfer", From: A, To: B, Amount: n(5), Signers: []int{1}},
			{Kind: "transfer", From: A, To: B, Amount: n(5), Signers: []int{0}},
			{Kind: "callerTransfer", From: A, To: b.caller.BytesBE(), Amount: n(5), Signers: []int{0}},
			{Kind: "callerTransfer", From: b.caller.BytesBE(), To: B, Amount: n(3), Signers: []int{2}},
			{Kind: "transfer", From: b.caller.BytesBE(), To: B, Amount: n(1), Signers: []int{2}},
		},
		{ // committee re-election between Alphabet operations: the FORMER Alphabet account (signer -4) is nobody afterwards
			{Kind: "mint", To: A, Amount: n(1000), Details: []byte{1}, Signers: al},
			{Kind: "transferX", From: A, To: B, Amount: n(10), Details: []byte{2}, Signers: al},
			{Kind: "rotate"},
			{Kind: "transferX", From: A, To: B, Amount: n(300), Details: []byte{3}, Signers: []int{-4}},
			{Kind: "burn", From: A, Amount: n(300), Details: []byte{3}, Signers: []int{-4}},
			{Kind: "lock", From: A, To: L, Amount: n(300), Until: 9, Details: []byte{3}, Signers: []int{-4}},
			{Kind: "mint", To: B, Amount: n(5), Details: []byte{3}, Signers: []int{-4}},
			{Kind: "newEpoch", Epoch: 3, Signers: []int{-4}},
			{Kind: "burn", From: A, Amount: n(1), Details: []byte{4}, Signers: al},
			{Kind: "newEpoch", Epoch: 3, Signers: al},
			{Kind: "transferX", From: A, To: B, Amount: n(300), Details: []byte{3}, Signers: []int{-4}},
		},
		{ // the mint path (empty sender) is for the Alphabet's mint only: a public transfer from an empty / short sender must be refused
			{Kind: "mint", To: A, Amount: n(1000), Details: []byte{1}, Signers: al},
			{Kind: "transfer", From: []byte{}, To: B, Amount: n(5000), Signers: []int{1}},
			{Kind: "transfer", FromNull: true, To: B, Amount: n(5000), Signers: []int{1}},
			{Kind: "callerTransfer", FromNull: true, To: B, Amount: n(9), Signers: []int{1}},
			{Kind: "transfer", FromNull: true, To: B, Amount: n(9), Signers: al},
			{Kind: "transfer", From: []byte{}, To: B, Amount: n(0), Signers: []int{1}},
			{Kind: "callerTransfer", From: []byte{}, To: B, Amount: n(7), Signers: []int{1}},
			{Kind: "transfer", From: []byte{1, 2, 3, 4, 5}, To: B, Amount: n(7), Signers: []int{1}},
			{Kind: "transfer", From: []byte{}, To: B, Amount: n(7), Signers: al},
			{Kind: "transfer", From: A, To: []byte{}, Amount: n(7), Signers: []int{0}},
			{Kind: "transferX", From: A, To: B, Amount: n(0), Details: []byte{2}, Signers: al},
			{Kind: "burn", From: A, Amount: n(0), Details: []byte{2}, Signers: al},
			{Kind: "lock", From: A, To: L, Amount: n(0), Until: 3, Details: []byte{2}, Signers: al},
			{Kind: "transfer", From: A, To: B, Amount: n(0), Signers: []int{0}},
		},
		{ // the holder takes part in the transaction without a usable witness: sender with scope None (fee-only), CalledByEntry behind a forwarder
			{Kind: "mint", To: A, Amount: n(1000), Details: []byte{1}, Signers: al},
			{Kind: "mint", To: B, Amount: n(1000), Details: []byte{1}, Signers: al},
			{Kind: "transfer", From: A, To: B, Amount: n(990), Signers: []int{0, 1}, Scopes: []int{1, 0}},
			{Kind: "transfer", From: A, To: B, Amount: n(10), Signers: []int{0}, Scopes: []int{1}},
			{Kind: "transfer", From: A, To: B, Amount: n(10), Signers: []int{0, 1}, Scopes: []int{1, 2}},
			{Kind: "callerTransfer", From: A, To: B, Amount: n(10), Signers: []int{0, 1}, Scopes: []int{2, 0}},
			{Kind: "callerTransfer", From: A, To: B, Amount: n(10), Signers: []int{0}, Scopes: []int{2}},
			{Kind: "callerTransfer", From: A, To: B, Amount: n(10), Signers: []int{0}, Scopes: []int{1}},
			{Kind: "transfer", From: A, To: B, Amount: n(10), Signers: []int{1, 0}, Scopes: []int{0, 1}},
			{Kind: "transfer", From: A, To: B, Amount: n(10), Signers: []int{0}, Scopes: []int{2}},
			{Kind: "transfer", From: A, To: B, Amount: n(10), Signers: []int{0, 1}, Scopes: []int{0, 1}},
			{Kind: "transferX", From: A, To: B, Amount: n(10), Details: []byte{7}, Signers: []int{-1, 1}, Scopes: []int{1, 0}},
			{Kind: "burn", From: A, Amount: n(10), Details: []byte{7}, Signers: []int{-1}, Scopes: []int{1}},
			{Kind: "lock", From: A, To: L, Amount: n(10), Until: 9, Details: []byte{7}, Signers: []int{-1, 0}, Scopes: []int{1, 0}},
			{Kind: "newEpoch", Epoch: 5, Signers: []int{-1, 1}, Scopes: []int{1, 0}},
			{Kind: "mint", To: B, Amount: n(10), Details: []byte{8}, Signers: []int{-1, 1}, Scopes: []int{1, 0}},
			{Kind: "burn", From: A, Amount: n(10), Details: []byte{7}, Signers: []int{-1}, Scopes: []int{2}},
		},
		{ // Alphabet-only methods signed by the holder or a stranger, with Null / empty / short addresses: refused whatever the arguments
			{Kind: "mint", To: A, Amount: n(1000), Details: []byte{1}, Signers: al},
			{Kind: "transferX", From: A, ToNull: true, Amount: n(400), Details: []byte{2}, Signers: []int{0}},
			{Kind: "transferX", From: A, To: []byte{}, Amount: n(400), Details: []byte{2}, Signers: []int{0}},
			{Kind: "transferX", From: A, To: []byte{1, 2, 3}, Amount: n(400), Details: []byte{2}, Signers: []int{0}},
			{Kind: "transferX", From: A, To: B, Amount: n(400), Details: []byte{2}, Signers: []int{0}},
			{Kind: "transferX", From: A, To: B, Amount: n(400), Details: []byte{2}, Signers: []int{1}},
			{Kind: "transferX", FromNull: true, To: B, Amount: n(400), Details: []byte{2}, Signers: []int{1}},
			{Kind: "burn", From: A, Amount: n(400), Details: []byte{3}, Signers: []int{0}},
			{Kind: "burn", FromNull: true, Amount: n(400), Details: []byte{3}, Signers: []int{0}},
			{Kind: "lock", From: A, ToNull: true, Amount: n(400), Until: 9, Details: []byte{4}, Signers: []int{0}},
			{Kind: "lock", From: A, To: L, Amount: n(400), Until: 9, Details: []byte{4}, Signers: []int{0}},
			{Kind: "lock", From: A, To: []byte{}, Amount: n(400), Until: 9, Details: []byte{4}, Signers: []int{0}},
			{Kind: "mint", ToNull: true, Amount: n(400), Details: []byte{5}, Signers: []int{0}},
			{Kind: "mint", To: []byte{}, Amount: n(400), Details: []byte{5}, Signers: []int{0}},
			{Kind: "mint", To: A, Amount: n(400), Details: []byte{5}, Signers: []int{0}},
			{Kind: "transferX", From: A, To: B, Amount: n(1), Details: []byte{6}, Signers: al},
		},
		{ // funds held at contract addresses nobody can witness (the Balance contract itself, Netmap)
			{Kind: "mint", To: b.balance.BytesBE(), Amount: n(700), Details: []byte{1}, Signers: al},
			{Kind: "mint", To: b.netmap.BytesBE(), Amount: n(300), Details: []byte{1}, Signers: al},
			{Kind: "transfer", From: b.balance.BytesBE(), To: B, Amount: n(100), Signers: []int{1}},
			{Kind: "callerTransfer", From: b.balance.BytesBE(), To: B, Amount: n(100), Signers: []int{1}},
			{Kind: "transfer", From: b.netmap.BytesBE(), To: B, Amount: n(100), Signers: []int{1}},
			{Kind: "transfer", From: b.balance.BytesBE(), To: B, Amount: n(100), Signers: []int{-2}},
			{Kind: "transferX", From: b.balance.BytesBE(), To: B, Amount: n(100), Details: []byte{5}, Signers: al},
		},
		{ // ticks delivered through Netmap that SKIP epoch numbers: every lock whose expiry lies in the skipped range is due
			{Kind: "mint", To: A, Amount: n(1000), Details: []byte{1}, Signers: al},
			{Kind: "lock", From: A, To: L, Amount: n(100), Until: 3, Details: []byte{1}, Signers: al},
			{Kind: "lock", From: A, To: L2, Amount: n(200), Until: 5, Details: []byte{2}, Signers: al},
			{Kind: "lock", From: A, To: b.addrs[balIdxLock0+2], Amount: n(300), Until: 9, Details: []byte{3}, Signers: al},
			{Kind: "newEpochNetmap", Epoch: 1, Signers: al},
			{Kind: "newEpochNetmap", Epoch: 2, Signers: al},
			{Kind: "newEpochNetmap", Epoch: 6, Signers: al},
			{Kind: "newEpochNetmap", Epoch: 20, Signers: al},
		},
		{ // two users lock their WHOLE balance (their records are deleted), both locks expire at one tick
			{Kind: "mint", To: A, Amount: n(100), Details: []byte{1}, Signers: al},
			{Kind: "mint", To: B, Amount: n(200), Details: []byte{1}, Signers: al},
			{Kind: "lock", From: A, To: L, Amount: n(100), Until: 2, Details: []byte{1}, Signers: al},
			{Kind: "lock", From: B, To: L2, Amount: n(200), Until: 2, Details: []byte{2}, Signers: al},
			{Kind: "newEpoch", Epoch: 1, Signers: al},
			{Kind: "newEpoch", Epoch: 2, Signers: al},
			{Kind: "newEpoch", Epoch: 3, Signers: al},
		},
		{ // nested locks (user -> L2, L2 -> L and user -> L, L -> L2 orders) expiring at one tick: conservation must hold whatever the key order
			{Kind: "mint", To: A, Amount: n(1000), Details: []byte{1}, Signers: al},
			{Kind: "lock", From: A, To: L2, Amount: n(500), Until: 2, Details: []byte{1}, Signers: al},
			{Kind: "lock", From: L2, To: L, Amount: n(300), Until: 2, Details: []byte{2}, Signers: al},
			{Kind: "newEpoch", Epoch: 2, Signers: al},
			{Kind: "lock", From: A, To: L, Amount: n(400), Until: 4, Details: []byte{3}, Signers: al},
			{Kind: "lock", From: L, To: L2, Amount: n(100), Until: 4, Details: []byte{4}, Signers: al},
			{Kind: "newEpoch", Epoch: 4, Signers: al},
			{Kind: "newEpoch", Epoch: 5, Signers: al},
		},
		balManyLocks(b, 3, []int64{2, 5, 9}, []int64{1, 2, 3, 4, 5, 6, 9, 10}), // three pending locks, pairwise different expiries, visited one by one
		balManyLocks(b, 40, nil, []int64{1, 2, 3}),                             // 40 locks expiring at one tick (+ one later)
		{ // the committee-majority account and single members are not the Alphabet (they differ for n = 3)
			{Kind: "mint", To: A, Amount: n(1000), Details: []byte{1}, Signers: al},
			{Kind: "mint", To: A, Amount: n(10), Details: []byte{1}, Signers: []int{-2}},
			{Kind: "mint", To: A, Amount: n(10), Details: []byte{1}, Signers: []int{-3}},
			{Kind: "burn", From: A, Amount: n(10), Details: []byte{2}, Signers: []int{-2}},
			{Kind: "transferX", From: A, To: B, Amount: n(10), Details: []byte{2}, Signers: []int{-2}},
			{Kind: "lock", From: A, To: L, Amount: n(10), Until: 3, Details: []byte{2}, Signers: []int{-2}},
			{Kind: "lock", From: A, To: L, Amount: n(10), Until: 3, Details: []byte{2}, Signers: []int{-3}},
			{Kind: "newEpoch", Epoch: 7, Signers: []int{-2}},
			{Kind: "newEpochNetmap", Epoch: 1, Signers: []int{-2}},
			{Kind: "lock", From: A, To: L, Amount: n(10), Until: 3, Details: []byte{2}, Signers: al},
			{Kind: "newEpoch", Epoch: 3, Signers: []int{-3}},
			{Kind: "newEpoch", Epoch: 3, Signers: al},
			// the consensus nodes' block-signing account (signer -5) is not the Alphabet where the committee is larger than the validator set
			{Kind: "burn", From: A, Amount: n(400), Details: []byte{5}, Signers: []int{-5}},
			{Kind: "transferX", From: A, To: B, Amount: n(10), Details: []byte{5}, Signers: []int{-5}},
			{Kind: "lock", From: A, To: L2, Amount: n(10), Until: 9, Details: []byte{5}, Signers: []int{-5}},
			{Kind: "mint", To: B, Amount: n(10), Details: []byte{5}, Signers: []int{-5}},
			{Kind: "newEpoch", Epoch: 9, Signers: []int{-5}},
			{Kind: "newEpochNetmap", Epoch: 9, Signers: []int{-5}},
			{Kind: "transfer", From: A, To: B, Amount: n(10), Signers: []int{-5}},
			{Kind: "burn", From: A, Amount: n(1), Details: []byte{6}, Signers: al},
		},
		{ // senders that merely contain a witnessed holder's hash, and the opaque data argument
			{Kind: "mint", To: A, Amount: n(100), Details: []byte{1}, Signers: al},
			{Kind: "transfer", From: append(append([]byte{0x35}, A...), 9, 9, 9, 9), To: B, Amount: n(30), Signers: []int{0}},
			{Kind: "transfer", From: append(append([]byte{}, A...), 0), To: B, Amount: n(30), Signers: []int{0}},
			{Kind: "transfer", From: append([]byte{0}, A...), To: B, Amount: n(30), Signers: []int{0}},
			{Kind: "callerTransfer", From: append(append([]byte{0x35}, A...), 9, 9, 9, 9), To: B, Amount: n(30), Signers: []int{0}},
			{Kind: "transfer", From: A, To: append(append([]byte{0x35}, B...), 9, 9, 9, 9), Amount: n(30), Signers: []int{0}},
			{Kind: "transfer", From: A, To: B, Amount: n(10), Signers: []int{1}, HasData: true, Data: []byte{}},
			{Kind: "transfer", From: A, To: B, Amount: n(10), Signers: []int{1}, HasData: true, Data: []byte("x")},
			{Kind: "transfer", From: A, To: B, Amount: n(10), Signers: []int{1, 2}, HasData: true, Data: A},
			{Kind: "callerTransfer", From: A, To: B, Amount: n(10), Signers: []int{1}, HasData: true, Data: []byte{7}},
			{Kind: "transfer", From: A, To: B, Amount: n(10), Signers: []int{0}, HasData: true, Data: []byte("x")},
			{Kind: "transfer", From: A, To: B, Amount: n(-3), Signers: []int{1}, HasData: true, Data: []byte("x")},
		},
		{ // the all-zero script hash is an account like any other 20-byte address
			{Kind: "mint", To: A, Amount: n(1000), Details: []byte{1}, Signers: al},
			{Kind: "transfer", From: A, To: make([]byte, 20), Amount: n(300), Signers: []int{0}},
			{Kind: "transferX", From: make([]byte, 20), To: B, Amount: n(100), Details: []byte{2}, Signers: al},
			{Kind: "transfer", From: make([]byte, 20), To: B, Amount: n(50), Signers: []int{1}},
			{Kind: "mint", To: make([]byte, 20), Amount: n(40), Details: []byte{3}, Signers: al},
			{Kind: "burn", From: make([]byte, 20), Amount: n(10), Details: []byte{4}, Signers: al},
			{Kind: "lock", From: make([]byte, 20), To: L, Amount: n(20), Until: 2, Details: []byte{5}, Signers: al},
			{Kind: "newEpochNetmap", Epoch: 2, Signers: al},
			{Kind: "transfer", From: A, To: make([]byte, 20), Amount: n(0), Signers: []int{0}},
		},
		{ // a tick sent to Netmap by the Alphabet with a witness that does not reach Balance (CalledByEntry / None): nothing may be half-done
			{Kind: "mint", To: A, Amount: n(1000), Details: []byte{1}, Signers: al},
			{Kind: "lock", From: A, To: L, Amount: n(300), Until: 2, Details: []byte{1}, Signers: al},
			{Kind: "newEpochNetmap", Epoch: 1, Signers: al},
			{Kind: "newEpochNetmap", Epoch: 2, Signers: al, Scopes: []int{2}},
			{Kind: "newEpochNetmap", Epoch: 2, Signers: al, Scopes: []int{1}},
			{Kind: "newEpochNetmap", Epoch: 2, Signers: []int{0, -1}, Scopes: []int{0, 2}},
			{Kind: "newEpoch", Epoch: 2, Signers: al, Scopes: []int{2}},
			{Kind: "lock", From: A, To: L2, Amount: n(100), Until: 2, Details: []byte{2}, Signers: al},
			{Kind: "newEpochNetmap", Epoch: 2, Signers: al},
			{Kind: "newEpochNetmap", Epoch: 3, Signers: al},
		},
	}
}

// balCorpusExtra: number of extra lock addresses corpus history ci needs.
func balCorpusExtra(ci int) int {
	switch ci {
	case 12:
		return 4
	case 13:
		return 41
	}
	// NOTE: keep in step with the position of the two balManyLocks entries in balCorpus
	return 0
}

// balManyLocks: k locks from two owners onto the extra lock addresses (untils given, or all 2 plus one at 7), then ticks.
func balManyLocks(b *balEnv, k int, untils []int64, ticks []int64) []balOp {
	n := func(i int64) *big.Int { return big.NewInt(i) }
	al := []int{-1}
	A, B := b.addrs[0], b.addrs[1]
	h := []balOp{
		{Kind: "mint", To: A, Amount: n(100000), Details: []byte{1}, Signers: al},
		{Kind: "mint", To: B, Amount: n(100000), Details: []byte{1}, Signers: al},
	}
	if b.extra < k+1 {
		return h // pool without extra lock addresses (corpus length probe)
	}
	for i := 0; i < k; i++ {
		u := int64(2)
		if untils != nil {
			u = untils[i%len(untils)]
		}
		from := A
		if i%3 == 2 {
			from = B
		}
		h = append(h, balOp{Kind: "lock", From: from, To: b.addrs[balIdxExtra+i], Amount: n(int64(10 + i)), Until: u, Details: []byte{byte(i)}, Signers: al})
	}
	h = append(h, balOp{Kind: "lock", From: A, To: b.addrs[balIdxExtra+k], Amount: n(7), Until: 7, Details: []byte{0xff}, Signers: al})
	for _, e := range ticks {
		h = append(h, balOp{Kind: "newEpoch", Epoch: e, Signers: al})
	}
	return h
}

// ---------------------------------------------------------------------------
// Monitors (search engines for a concrete failing input; the verdict on the
// property itself is the theorem plus the correspondence).

type balMon struct {
	b       *balEnv
	st      *Stats
	prop    string
	prev    balObs
	ledger  map[string]*big.Int // replay of the notification stream
	premise bool                // the quantifier's premises still hold in this history
	chain   bool                // C09 only: a lock was made out of a pending lock / self-transferred by the Alphabet (outside before_ok / nochain)
	locks   map[string]*balLock
	hist    []balOp
}

type balLock struct {
	parent []byte
	until  int64
	done   bool
}

func (m *balMon) idx(a []byte) int {
	for i, x := range m.b.addrs {
		if string(x) == string(a) {
			return i
		}
	}
	return -1
}

func (m *balMon) violate(what string) {
	m.st.AddViolation(what, m.hist)
}

func (m *balMon) step(op balOp, o balObs) {
	m.hist = append(m.hist, op)
	b := m.b
	// premises of the quantifier: Alphabet-only methods get 20-byte addresses,
	// lock targets are fresh
	if o.halt {
		switch op.Kind {
		case "mint":
			if len(op.To) != 20 {
				m.premise = false
			}
		case "burn":
			if len(op.From) != 20 {
				m.premise = false
			}
		case "transferX":
			if len(op.From) != 20 || len(op.To) != 20 {
				m.premise = false
			}
			if l := m.locks[string(op.From)]; l != nil && !l.done && string(op.From) == string(op.To) {
				// the Alphabet transfers a pending lock account onto itself: a self-transfer of the
				// whole balance deletes and re-creates the record, which drops Until/Parent (model and
				// contract agree). The C09 theorems speak about histories in which only burns and
				// ticks name the lock account (before_ok); observation recorded in DESIGN.md 10.2.
				m.chain = true
			}
		case "lock":
			ti := m.idx(op.To)
			if len(op.From) != 20 || len(op.To) != 20 || string(op.From) == string(op.To) ||
				m.prev.balances[ti].Sign() != 0 || m.locks[string(op.To)] != nil && !m.locks[string(op.To)].done {
				m.premise = false
			}
			if l := m.locks[string(op.From)]; l != nil && !l.done {
				// a lock made out of a pending lock account (never done by the Inner
				// Ring; premise [nochain] of the C09 theorems): the release order of
				// chained locks is outside the C09 statement — conservation (C01) and
				// authorisation (C02) are still judged
				m.chain = true
			}
		}
	}
	if !m.premise {
		m.prev = o
		return
	}
	_, alpha := b.witnessed(op)
	hs, _ := b.witnessed(op)
	wit := map[string]bool{}
	for _, h := range hs {
		wit[string(h)] = true
	}
	sum := new(big.Int)
	for i, x := range o.balances {
		sum.Add(sum, x)
		if x.Sign() < 0 {
			m.violate(fmt.Sprintf("negative balance %s of account #%d after %s", x, i, op.Kind))
		}
		if x.Cmp(m.prev.balances[i]) < 0 {
			if !o.halt || (o.retBool != nil && !*o.retBool) {
				m.violate(fmt.Sprintf("failed/refused %s changed balance of account #%d", op.Kind, i))
			}
			if !alpha && !wit[string(b.addrs[i])] {
				m.violate(fmt.Sprintf("%s lowered balance of account #%d without its witness or the Alphabet's", op.Kind, i))
			}
			if op.Kind == "transfer" || op.Kind == "callerTransfer" {
				if string(b.addrs[i]) != string(op.From) || !wit[string(op.From)] {
					m.violate(fmt.Sprintf("public transfer lowered balance of account #%d which is not a witnessed 'from'", i))
				}
			}
		}
		if x.Cmp(m.prev.balances[i]) != 0 && (!o.halt || (o.retBool != nil && !*o.retBool)) {
			m.violate(fmt.Sprintf("failed/refused %s changed balance of account #%d", op.Kind, i))
		}
	}
	if sum.Cmp(o.supply) != 0 {
		m.violate(fmt.Sprintf("sum of balances %s != totalSupply %s after %s", sum, o.supply, op.Kind))
	}
	if o.supply.Sign() < 0 {
		m.violate("negative totalSupply")
	}
	delta := new(big.Int).Sub(o.supply, m.prev.supply)
	want := big.NewInt(0)
	if o.halt && op.Kind == "mint" {
		want = op.Amount
	}
	if o.halt && op.Kind == "burn" {
		want = new(big.Int).Neg(op.Amount)
	}
	if delta.Cmp(want) != 0 {
		m.violate(fmt.Sprintf("totalSupply changed by %s after %s (expected %s)", delta, op.Kind, want))
	}
	if (!o.halt || (o.retBool != nil && !*o.retBool)) && len(o.notifs) != 0 {
		m.violate("failed invocation emitted notifications")
	}
	// notification replay
	for i := 0; i < len(o.notifs); i++ {
		n := o.notifs[i]
		if n.kind != 0 {
			continue
		}
		if i+1 >= len(o.notifs) || o.notifs[i+1].kind != 1 || string(o.notifs[i+1].from) != string(n.from) ||
			string(o.notifs[i+1].to) != string(n.to) || o.notifs[i+1].amount.Cmp(n.amount) != 0 {
			m.violate("Transfer notification without a matching TransferX")
		}
		if len(n.from) == 20 {
			m.led(n.from).Sub(m.led(n.from), n.amount)
		}
		if len(n.to) == 20 {
			m.led(n.to).Add(m.led(n.to), n.amount)
		}
	}
	for i, x := range o.balances {
		if m.led(b.addrs[i]).Cmp(x) != 0 {
			m.violate(fmt.Sprintf("replaying notifications gives %s for account #%d, balanceOf says %s", m.led(b.addrs[i]), i, x))
			m.ledger[string(b.addrs[i])] = new(big.Int).Set(x)
		}
	}
	// C09: lock lifecycle
	if o.halt && op.Kind == "lock" {
		m.locks[string(op.To)] = &balLock{parent: op.From, until: op.Until}
	}
	if m.prop == "C09" && !m.chain && o.halt && (op.Kind == "newEpoch" || op.Kind == "newEpochNetmap") {
		expect := map[int]*big.Int{}
		for la, l := range m.locks {
			li := m.idx([]byte(la))
			if l.done {
				continue
			}
			if m.prev.balances[li].Sign() == 0 && l.until != 0 {
				// fully burnt or zero-amount lock: account may linger with 0 until the tick
			}
			if op.Epoch >= l.until {
				// until = 0 (or negative) is an expiry in the past like any other: released by the
				// next tick (fix commit in /repo: lock accounts are recognised by their parent)
				pi := m.idx(l.parent)
				if expect[pi] == nil {
					expect[pi] = new(big.Int)
				}
				expect[pi].Add(expect[pi], m.prev.balances[li])
				if expect[li] == nil {
					expect[li] = new(big.Int)
				}
				expect[li].Sub(expect[li], m.prev.balances[li])
				l.done = true
			}
		}
		for i := range o.balances {
			d := new(big.Int).Sub(o.balances[i], m.prev.balances[i])
			w := expect[i]
			if w == nil {
				w = big.NewInt(0)
			}
			if d.Cmp(w) != 0 {
				m.violate(fmt.Sprintf("tick %d changed account #%d by %s, expected %s (locks due are released in full, nothing else moves)", op.Epoch, i, d, w))
			}
		}
		// released lock accounts disappear
	}
	if o.halt && op.Kind == "burn" {
		if l := m.locks[string(op.From)]; l != nil && !l.done {
			if o.balances[m.idx(op.From)].Sign() == 0 {
				l.done = true // fully burnt: account deleted, nothing to return
			}
		}
	}
	m.prev = o
}

func (m *balMon) led(a []byte) *big.Int {
	if m.ledger[string(a)] == nil {
		m.ledger[string(a)] = new(big.Int)
	}
	return m.ledger[string(a)]
}

// ---------------------------------------------------------------------------

func runBalanceFamily(t *testing.T, prop string) {
	st := NewStats(prop)
	st.Rule = "histories = corpus witnesses (each on committees of 1 and 3 keys) + seeded structured generation over 3 users, 1 calling contract, 2 passive contract addresses (Balance itself, Netmap), 3 lock addresses, 3 malformed addresses, on committees of 1 key and (every third history) 3 keys with majority-only and single-member signers; " +
		"non-trivial = history contains at least one accepted state change and at least one refusal/fault; distinct = by the canonical op/outcome string"
	pool := NewPool("b")
	cf := &CasesFile{Pool: pool}
	cf.Header = "From Verif Require Import Base.Prelude Model.Balance.\nLocal Open Scope Z_scope.\n"
	nh, maxOps := 60, 22
	if Tier() == "thorough" {
		nh, maxOps = 400, 40
	}
	distinct := map[string]bool{}
	var poolRefs []string
	run := func(hidx int, ncomm int, ops func(b *balEnv, step int, g *balGen) (balOp, bool)) {
		extra := 0
		if hidx < 0 {
			extra = balCorpusExtra(-1 - hidx) // corpus histories that need many lock addresses
		} else if prop == "C09" {
			extra = 4
		}
		b := newBalEnvX(t, ncomm, extra)
		g := &balGen{r: Rng(int64(hidx)), b: b, prop: prop}
		mon := &balMon{b: b, st: st, prop: prop, ledger: map[string]*big.Int{}, premise: true, locks: map[string]*balLock{}}
		zero := balObs{supply: new(big.Int)}
		for range b.addrs {
			zero.balances = append(zero.balances, new(big.Int))
		}
		mon.prev = zero
		g.bal = zero.balances
		poolRefs = poolRefs[:0]
		for _, a := range b.addrs {
			poolRefs = append(poolRefs, pool.Ref(a))
		}
		var steps []string
		var sig strings.Builder
		accepted, refused := false, false
		for i := 0; ; i++ {
			op, ok := ops(b, i, g)
			if !ok {
				break
			}
			if op.Kind == "rotate" {
				if b.n <= 1 {
					b.rotateCommittee()
				}
				continue
			}
			o := b.exec(op)
			g.bal = o.balances
			mon.step(op, o)
			steps = append(steps, fmt.Sprintf("(%s, %s)", b.coqOp(pool, op), b.coqObs(pool, o)))
			st.Evaluations++
			st.OpHistogram[op.Kind]++
			oc := "halt"
			if !o.halt {
				oc = "fault"
				refused = true
			} else if o.retBool != nil && !*o.retBool {
				oc = "false"
				refused = true
			} else if len(o.notifs) > 0 {
				accepted = true
			}
			st.OutcomeHistogram[op.Kind+"/"+oc]++
			fmt.Fprintf(&sig, "%s:%s:%v;", op.Kind, oc, op.Amount)
		}
		st.Histories++
		if accepted && refused && !distinct[sig.String()] {
			distinct[sig.String()] = true
		}
		cf.Cases = append(cf.Cases, fmt.Sprintf("(%s, %s)", ListLit(poolRefs), ListLit(steps)))
		if len(st.Samples) < 3 && hidx >= 0 {
			var ss []string
			for i, op := range mon.hist {
				if i >= 8 {
					ss = append(ss, "...")
					break
				}
				ss = append(ss, fmt.Sprintf("%s(from=%s,to=%s,amount=%v,until=%d,epoch=%d,signers=%v)", op.Kind, Hex(op.From), Hex(op.To), op.Amount, op.Until, op.Epoch, op.Signers))
			}
			st.Samples = append(st.Samples, ss)
		}
	}
	// corpus first
	{
		b0 := newBalEnv(t, 1)
		nc := len(balCorpus(b0))
		for ci := 0; ci < nc; ci++ {
			for _, ncomm := range []int{1, 3, 6} {
				if ncomm != 1 && balCorpusExtra(ci) > 0 {
					continue // the many-locks histories do not depend on the committee
				}
				if ncomm == 6 && ci != nc-4 && ci != nc-1 {
					continue // 6 committee keys with 4 consensus nodes: the gate histories only
				}
				ci := ci
				run(-1-ci, ncomm, func(b *balEnv, step int, g *balGen) (balOp, bool) {
					h := balCorpus(b)[ci]
					if step >= len(h) {
						return balOp{}, false
					}
					return h[step], true
				})
			}
		}
	}
	for h := 0; h < nh; h++ {
		n := 6 + Rng(int64(h)).Intn(maxOps-5)
		ncomm := 1
		if h%3 == 2 {
			ncomm = 3
		}
		if h%11 == 10 {
			ncomm = 6
		}
		run(h, ncomm, func(b *balEnv, step int, g *balGen) (balOp, bool) {
			if step >= n {
				return balOp{}, false
			}
			return g.next(step), true
		})
	}
	st.DistinctNontrivial = len(distinct)
	cf.Footer = "Definition check_case (c : list bytes * list ((bctx * bop) * val)) :=\n  run_case (bstep_obs (fst c)) binit 0 (snd c).\n" +
		"Definition M := Eval vm_compute in failures_from 0 (map check_case cases).\nPrint M.\n"
	require.NoError(t, cf.Write(filepath.Join(OutDir(), "cases_"+prop+".v")))
	st.Write()
}

func TestC01(t *testing.T) { runBalanceFamily(t, "C01") }
func TestC02(t *testing.T) { runBalanceFamily(t, "C02") }
func TestC09(t *testing.T) { runBalanceFamily(t, "C09") }
