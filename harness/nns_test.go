package harness

import (
	"bytes"
	"crypto/sha256"
	"fmt"
	"math/big"
	"math/rand"
	"os"
	"sort"
	"strings"
	"testing"

	"github.com/nspcc-dev/neo-go/pkg/core/interop/storage"
	"github.com/nspcc-dev/neo-go/pkg/core/native/nativenames"
	"github.com/nspcc-dev/neo-go/pkg/core/transaction"
	"github.com/nspcc-dev/neo-go/pkg/crypto/keys"
	"github.com/nspcc-dev/neo-go/pkg/neotest"
	"github.com/nspcc-dev/neo-go/pkg/smartcontract/callflag"
	"github.com/nspcc-dev/neo-go/pkg/smartcontract/trigger"
	"github.com/nspcc-dev/neo-go/pkg/util"
	"github.com/nspcc-dev/neo-go/pkg/vm/stackitem"
	"github.com/nspcc-dev/neo-go/pkg/wallet"
	"github.com/stretchr/testify/require"
)

// ---------------------------------------------------------------------------
// NNS family: C10 (ownership lifecycle / NEP-11 accounting), C11
// (authorisation), C12 (records and resolution). One executor, three
// generators / reader lists / monitors, one Coq model (Model/NNS.v).
//
// Conventions (premises of the model):
//   - every transaction is sent and paid by a "payer" account that never owns
//     or administers anything; the other signers only witness (Global scope);
//   - every operation is one transaction in its own block whose timestamp the
//     harness chooses; the safe methods are then evaluated by test invocations
//     in a block header carrying the same timestamp;
//   - principals are written to Coq under fixed symbolic 20-byte addresses
//     (injective renaming of script hashes; the model only compares them);
//   - keys are derived from fixed seeds.

const (
	pU0 = iota
	pU1
	pU2
	pC   // contract that accepts NEP-11 payments (testdata/nnsowner)
	pCmt // committee multi-signature account
	pR   // contract without onNEP11Payment (testdata/caller)
	pPayer
	// on chains with a committee of n > 1 keys (NewEnvN): multisig accounts
	// over the very committee keys that are NOT the committee account of
	// checkCommittee (unless their threshold coincides, see canon)
	pHalf   // n/2-of-n (even n), (n-1)/2-of-n (odd n)
	pAlpha  // 2n/3+1-of-n
	pMember // a single committee member
	nPrincipals
)

const (
	ownNull = -1 // Null argument
	ownBad  = -2 // 5-byte argument
)

const (
	tA     = 1
	tCNAME = 5
	tSOA   = 6
	tTXT   = 16
	tAAAA  = 28
)

const msYear = int64(365 * 24 * 3600 * 1000)

type nnsEnv struct {
	*Env
	nns     util.Uint160
	payer   neotest.Signer
	signers [nPrincipals]neotest.Signer // nil for contracts
	hashes  [nPrincipals]util.Uint160
	ncmt    int              // committee size
	canon   [nPrincipals]int // accounts with equal script hash are one principal
	now     uint64
}

func nnsKey(i int) *wallet.Account {
	h := sha256.Sum256([]byte(fmt.Sprintf("verif-nns-key-%d", i)))
	pk, err := keys.NewPrivateKeyFromBytes(h[:])
	if err != nil {
		panic(err)
	}
	return wallet.NewAccountFromPrivateKey(pk)
}

func newNNSEnv(t testing.TB) *nnsEnv { return newNNSEnvN(t, 1) }

// newNNSEnvN: committee of ncmt keys. The committee account of the property
// (and of the model's context) is the n/2+1-of-n multisig of neo.GetCommittee().
func newNNSEnvN(t testing.TB, ncmt int) *nnsEnv {
	var v *Env
	var vn *EnvN
	if ncmt <= 1 {
		ncmt = 1
		v = NewEnv(t)
	} else {
		vn = NewEnvN(t, ncmt)
		v = vn.Env
	}
	e := v.E
	n := &nnsEnv{Env: v, ncmt: ncmt}
	gas, err := e.Chain.GetNativeContractScriptHash(nativenames.Gas)
	require.NoError(t, err)
	n.payer = neotest.NewSingleSigner(nnsKey(100))
	tx := e.NewUnsignedTx(t, gas, "transfer", e.Validator.ScriptHash(), n.payer.ScriptHash(), int64(900000_0000_0000), nil)
	e.SignTx(t, tx, 1_0000_0000, e.Validator)
	e.AddNewBlock(t, tx)
	e.CheckHalt(t, tx.Hash())

	ctr := v.Compile("nns")
	e.DeployContract(t, ctr, nil) // as tests/nns_test.go newNNSInvoker without TLD set
	n.nns = ctr.Hash
	co := v.CompileHelper("nnsowner")
	e.DeployContract(t, co, nil)
	cr := v.CompileHelper("caller")
	e.DeployContract(t, cr, nil)

	for i := pU0; i <= pU2; i++ {
		n.signers[i] = neotest.NewSingleSigner(nnsKey(i))
		n.hashes[i] = n.signers[i].ScriptHash()
	}
	n.hashes[pC] = co.Hash
	n.hashes[pR] = cr.Hash
	n.signers[pCmt] = e.Committee
	n.hashes[pCmt] = e.CommitteeHash
	n.signers[pPayer] = n.payer
	n.hashes[pPayer] = n.payer.ScriptHash()
	if vn != nil {
		half := ncmt / 2
		if ncmt%2 == 1 {
			half = (ncmt - 1) / 2
		}
		require.Equal(t, vn.Majority.ScriptHash(), e.CommitteeHash)
		n.signers[pHalf] = MultiSignerOf(half, vn.Keys)
		n.signers[pAlpha] = vn.Alphabet
		n.signers[pMember] = neotest.NewSingleSigner(wallet.NewAccountFromPrivateKey(vn.Keys[0]))
		for _, i := range []int{pHalf, pAlpha, pMember} {
			n.hashes[i] = n.signers[i].ScriptHash()
		}
	}
	for i := range n.canon {
		n.canon[i] = i
		for j := 0; j < i; j++ {
			if n.signers[i] != nil && n.hashes[j] == n.hashes[i] {
				n.canon[i] = j
				break
			}
		}
	}
	n.now = e.TopBlock(t).Timestamp
	return n
}

// canonSigners replaces aliases (e.g. 2n/3+1 = n/2+1 for n = 4) by the
// principal they coincide with and drops accounts this chain does not have.
func (n *nnsEnv) canonSigners(sg []int) []int {
	var out []int
	for _, i := range sg {
		if n.signers[i] == nil {
			continue
		}
		i = n.canon[i]
		if !has(out, i) {
			out = append(out, i)
		}
	}
	sort.Ints(out)
	return out
}

// symbolic address of principal i as written to Coq
func symAddr(i int) []byte { return bytes.Repeat([]byte{byte(0x11 * (i + 1))}, 20) }

func (n *nnsEnv) principalOf(b []byte) int {
	for i := 0; i < nPrincipals; i++ {
		if (i < pHalf || n.signers[i] != nil) && bytes.Equal(b, n.hashes[i].BytesBE()) {
			return i
		}
	}
	return -100
}

type nnsOp struct {
	Kind    string `json:"kind"`
	Name    string `json:"name,omitempty"`
	Owner   int    `json:"owner,omitempty"` // principal index, ownNull, ownBad (register owner, transfer to, setAdmin admin, balanceOf owner)
	Email   string `json:"email,omitempty"`
	Refresh int64  `json:"refresh,omitempty"`
	Retry   int64  `json:"retry,omitempty"`
	Expire  int64  `json:"expire,omitempty"`
	TTL     int64  `json:"ttl,omitempty"`
	Years   int64  `json:"years,omitempty"`
	Typ     int64  `json:"typ,omitempty"`
	ID      int64  `json:"id,omitempty"`
	Data    string `json:"data,omitempty"`
	Price   int64  `json:"price,omitempty"`
	Signers []int  `json:"signers"`       // principals that sign besides the payer
	Via     int    `json:"via,omitempty"` // 0 = direct, pC / pR = through that contract
	T       uint64 `json:"t"`             // block timestamp (ms)
}

func (o nnsOp) String() string {
	var a []string
	switch o.Kind {
	case "register":
		a = []string{o.Name, fmt.Sprint("owner=", o.Owner), fmt.Sprintf("email=%q", o.Email), fmt.Sprint("expire=", o.Expire)}
	case "registerTLD", "updateSOA":
		a = []string{o.Name, fmt.Sprintf("email=%q", o.Email), fmt.Sprint("expire=", o.Expire)}
	case "transfer":
		a = []string{fmt.Sprint("to=", o.Owner), o.Name}
	case "renew":
		a = []string{o.Name, fmt.Sprint(o.Years)}
	case "setAdmin":
		a = []string{o.Name, fmt.Sprint("admin=", o.Owner)}
	case "addRecord":
		a = []string{o.Name, fmt.Sprint(o.Typ), fmt.Sprintf("%q", o.Data)}
	case "setRecord":
		a = []string{o.Name, fmt.Sprint(o.Typ), fmt.Sprint(o.ID), fmt.Sprintf("%q", o.Data)}
	case "deleteRecords", "getRecords", "resolve":
		a = []string{o.Name, fmt.Sprint(o.Typ)}
	case "setPrice":
		a = []string{fmt.Sprint(o.Price)}
	case "balanceOf", "tokensOf":
		a = []string{fmt.Sprint(o.Owner)}
	default:
		if o.Name != "" {
			a = []string{o.Name}
		}
	}
	via := ""
	if o.Via != 0 {
		via = fmt.Sprintf(" via=%d", o.Via)
	}
	return fmt.Sprintf("t=%d %s(%s) signers=%v%s", o.T, o.Kind, strings.Join(a, ","), o.Signers, via)
}

func (n *nnsEnv) addrArg(i int) any {
	switch i {
	case ownNull:
		return nil
	case ownBad:
		return []byte{1, 2, 3, 4, 5}
	}
	return n.hashes[i]
}

func (n *nnsEnv) args(o nnsOp) []any {
	switch o.Kind {
	case "register":
		return []any{o.Name, n.addrArg(o.Owner), o.Email, o.Refresh, o.Retry, o.Expire, o.TTL}
	case "registerTLD", "updateSOA":
		return []any{o.Name, o.Email, o.Refresh, o.Retry, o.Expire, o.TTL}
	case "transfer":
		return []any{n.addrArg(o.Owner), o.Name, nil}
	case "renew":
		return []any{o.Name, o.Years}
	case "setAdmin":
		return []any{o.Name, n.addrArg(o.Owner)}
	case "addRecord":
		return []any{o.Name, o.Typ, o.Data}
	case "setRecord":
		return []any{o.Name, o.Typ, o.ID, o.Data}
	case "deleteRecords", "getRecords", "resolve":
		return []any{o.Name, o.Typ}
	case "setPrice":
		return []any{o.Price}
	case "isAvailable", "ownerOf", "properties", "getAllRecords":
		return []any{o.Name}
	case "balanceOf", "tokensOf":
		return []any{n.addrArg(o.Owner)}
	case "tokens", "totalSupply", "roots", "getPrice":
		return nil
	}
	panic(o.Kind)
}

type nnsNotif struct {
	kind     int // 0 Transfer, 1 SetAdmin, 2 Renew
	from, to int // principal or ownNull
	name     string
	old, new *big.Int
}

type nnsObs struct {
	halt   bool
	ret    string // Coq val
	retOK  bool   // halted and (bool result true or non-bool)
	retInt *big.Int
	notifs []nnsNotif
	vec    []string // reader results (Coq vals)
	vals   []nnsVal // the same, parsed
	// the same readers evaluated on the state BEFORE the op, in a header with
	// the op's own timestamp: every before/after rule of the monitors compares
	// two states at ONE instant, so the passage of time between two blocks
	// (expiry of a name or of an enclosing name) is never mistaken for an
	// effect of the op
	preVec  []string
	preVals []nnsVal
	rv      nnsVal // parsed return value
	fault   string
}

func (n *nnsEnv) itemAddr(it stackitem.Item) int {
	if _, ok := it.(stackitem.Null); ok {
		return ownNull
	}
	b, err := it.TryBytes()
	if err != nil {
		return -100
	}
	return n.principalOf(b)
}

// invoke executes the op as one transaction in a block with timestamp o.T.
func (n *nnsEnv) invoke(o nnsOp) Result {
	e := n.E
	var tx *transaction.Transaction
	if o.Via != 0 {
		tx = e.NewUnsignedTx(n.T, n.hashes[o.Via], "call", n.nns, o.Kind, n.args(o))
	} else {
		tx = e.NewUnsignedTx(n.T, n.nns, o.Kind, n.args(o)...)
	}
	sg := []neotest.Signer{n.payer}
	for _, i := range o.Signers {
		sg = append(sg, n.signers[i])
	}
	e.SignTx(n.T, tx, 60_0000_0000, sg...)
	b := e.NewUnsignedBlock(n.T, tx)
	require.Greater(n.T, o.T, n.now, "timestamps must grow")
	b.Timestamp = o.T
	e.SignBlock(b)
	require.NoError(n.T, e.Chain.AddBlock(b))
	n.now = o.T
	return n.ResultOf(tx, b)
}

// readAt evaluates a safe method in a block header with timestamp ts.
func (n *nnsEnv) readAt(ts uint64, o nnsOp) (stackitem.Item, bool) {
	tx := n.E.NewUnsignedTx(n.T, n.nns, o.Kind, n.args(o)...)
	b := n.E.NewUnsignedBlock(n.T, tx)
	b.Timestamp = ts
	ic, err := n.BC.GetTestVM(trigger.Application, tx, b)
	require.NoError(n.T, err)
	defer ic.Finalize()
	ic.VM.LoadWithFlags(tx.Script, callflag.All)
	if err = ic.VM.Run(); err != nil {
		return nil, false
	}
	if ic.VM.Estack().Len() == 0 {
		return stackitem.Null{}, true
	}
	return expandIterators(ic.VM.Estack().Pop().Item()), true
}

type nnsLit struct {
	pool *Pool
	n    *nnsEnv
}

func (l nnsLit) str(s string) string { return l.pool.Ref([]byte(s)) }
func (l nnsLit) vstr(s string) string {
	return VBytesRef(l.pool.Ref([]byte(s)))
}
func (l nnsLit) addrOpt(i int) string {
	switch i {
	case ownNull:
		return "None"
	case ownBad:
		return "(Some pbad)"
	}
	return fmt.Sprintf("(Some p%d)", i)
}
func (l nnsLit) vaddr(i int) string {
	if i == ownNull {
		return VNull
	}
	if i < 0 {
		return "VBytes punknown"
	}
	return fmt.Sprintf("VBytes p%d", i)
}

// nnsVal is a parsed result of an NNS method.
type nnsVal struct {
	ok     bool // halted
	b      bool
	i      *big.Int
	addr   int
	strs   []string
	pname  string
	padmin int
	recs   [][4]string // name, type, data, id
}

func (n *nnsEnv) parse(kind string, it stackitem.Item) nnsVal {
	v := nnsVal{ok: true}
	arr := func() []stackitem.Item {
		if _, ok := it.(stackitem.Null); ok {
			return nil
		}
		a, ok := it.Value().([]stackitem.Item)
		if !ok {
			return nil
		}
		return a
	}
	switch kind {
	case "register", "transfer", "isAvailable":
		b, err := it.TryBool()
		require.NoError(n.T, err)
		v.b = b
	case "renew", "balanceOf", "totalSupply", "getPrice":
		v.i = ItemInt(it)
	case "ownerOf":
		v.addr = n.itemAddr(it)
	case "properties":
		m := it.(*stackitem.Map)
		get := func(k string) stackitem.Item {
			i := m.Index(stackitem.Make(k))
			require.GreaterOrEqual(n.T, i, 0)
			return m.Value().([]stackitem.MapElement)[i].Value
		}
		v.pname, v.i, v.padmin = string(ItemBytes(get("name"))), ItemInt(get("expiration")), n.itemAddr(get("admin"))
	case "tokensOf", "tokens", "roots":
		for _, x := range arr() {
			v.strs = append(v.strs, string(ItemBytes(x)))
		}
		sort.Strings(v.strs)
	case "getRecords", "resolve":
		for _, x := range arr() {
			v.strs = append(v.strs, string(ItemBytes(x)))
		}
	case "getAllRecords":
		for _, x := range arr() {
			f := x.Value().([]stackitem.Item)
			v.recs = append(v.recs, [4]string{string(ItemBytes(f[0])), ItemInt(f[1]).String(), string(ItemBytes(f[2])), ItemInt(f[3]).String()})
		}
	}
	return v
}

// render prints a parsed result as a Coq val.
func (l nnsLit) render(kind string, v nnsVal) string {
	if !v.ok {
		return VFault
	}
	switch kind {
	case "register", "transfer", "isAvailable":
		return VBool(v.b)
	case "renew", "balanceOf", "totalSupply", "getPrice":
		return VInt(v.i)
	case "ownerOf":
		return l.vaddr(v.addr)
	case "properties":
		return VList([]string{l.vstr(v.pname), VInt(v.i), l.vaddr(v.padmin)})
	case "tokensOf", "tokens", "roots", "getRecords", "resolve":
		var out []string
		for _, s := range v.strs {
			out = append(out, l.vstr(s))
		}
		return VList(out)
	case "getAllRecords":
		var out []string
		for _, r := range v.recs {
			ty, _ := new(big.Int).SetString(r[1], 10)
			id, _ := new(big.Int).SetString(r[3], 10)
			out = append(out, VList([]string{l.vstr(r[0]), VInt(ty), l.vstr(r[2]), VInt(id)}))
		}
		return VList(out)
	}
	return VNull
}

func (l nnsLit) opt(o nnsOp) string {
	z := ZI
	switch o.Kind {
	case "register":
		return fmt.Sprintf("Register %s %s %s %s %s %s %s", l.str(o.Name), l.addrOpt(o.Owner), l.str(o.Email), z(o.Refresh), z(o.Retry), z(o.Expire), z(o.TTL))
	case "registerTLD":
		return fmt.Sprintf("RegisterTLD %s %s %s %s %s %s", l.str(o.Name), l.str(o.Email), z(o.Refresh), z(o.Retry), z(o.Expire), z(o.TTL))
	case "updateSOA":
		return fmt.Sprintf("UpdateSOA %s %s %s %s %s %s", l.str(o.Name), l.str(o.Email), z(o.Refresh), z(o.Retry), z(o.Expire), z(o.TTL))
	case "transfer":
		return fmt.Sprintf("Transfer %s %s", l.addrOpt(o.Owner), l.str(o.Name))
	case "renew":
		return fmt.Sprintf("Renew %s %s", l.str(o.Name), z(o.Years))
	case "setAdmin":
		return fmt.Sprintf("SetAdmin %s %s", l.str(o.Name), l.addrOpt(o.Owner))
	case "addRecord":
		return fmt.Sprintf("AddRecord %s %s %s", l.str(o.Name), z(o.Typ), l.str(o.Data))
	case "setRecord":
		return fmt.Sprintf("SetRecord %s %s %s %s", l.str(o.Name), z(o.Typ), z(o.ID), l.str(o.Data))
	case "deleteRecords":
		return fmt.Sprintf("DeleteRecords %s %s", l.str(o.Name), z(o.Typ))
	case "setPrice":
		return fmt.Sprintf("SetPrice %s", z(o.Price))
	case "isAvailable":
		return "IsAvailable " + l.str(o.Name)
	case "ownerOf":
		return "OwnerOf " + l.str(o.Name)
	case "properties":
		return "Properties " + l.str(o.Name)
	case "balanceOf":
		return "BalanceOf " + l.addrOpt(o.Owner)
	case "tokensOf":
		return "TokensOf " + l.addrOpt(o.Owner)
	case "tokens":
		return "Tokens"
	case "totalSupply":
		return "TotalSupply"
	case "getRecords":
		return fmt.Sprintf("GetRecords %s %s", l.str(o.Name), z(o.Typ))
	case "getAllRecords":
		return "GetAllRecords " + l.str(o.Name)
	case "resolve":
		return fmt.Sprintf("Resolve %s %s", l.str(o.Name), z(o.Typ))
	case "roots":
		return "Roots"
	case "getPrice":
		return "GetPrice"
	}
	panic(o.Kind)
}

// witnessed principals of an op: payer, signers, the forwarding contract.
func (o nnsOp) witnessed() []int {
	w := []int{pPayer}
	w = append(w, o.Signers...)
	if o.Via != 0 {
		w = append(w, o.Via)
	}
	return w
}

func (l nnsLit) ctx(o nnsOp) string {
	var ws []string
	for _, i := range o.witnessed() {
		ws = append(ws, fmt.Sprintf("p%d", i))
	}
	return fmt.Sprintf("mkNC %s %s p%d [p%d]", ZLit(new(big.Int).SetUint64(o.T)), ListLit(ws), pCmt, pR)
}

// exec runs the op and the readers.
func (n *nnsEnv) readVec(l nnsLit, ts uint64, readers []nnsOp) (vec []string, vals []nnsVal) {
	for _, rd := range readers {
		it, ok := n.readAt(ts, rd)
		v := nnsVal{}
		if ok {
			v = n.parse(rd.Kind, it)
		}
		vals = append(vals, v)
		vec = append(vec, l.render(rd.Kind, v))
	}
	return
}

func (n *nnsEnv) exec(l nnsLit, o nnsOp, readers []nnsOp) nnsObs {
	preVec, preVals := n.readVec(l, o.T, readers) // state before the op, at the op's instant
	r := n.invoke(o)
	ob := nnsObs{halt: r.Halt, fault: r.Fault, preVec: preVec, preVals: preVals}
	if !r.Halt {
		ob.ret = VFault
	} else {
		require.Len(n.T, r.Stack, 1, o.Kind)
		it := r.Stack[0]
		switch o.Kind {
		case "tokensOf", "tokens", "roots", "getAllRecords":
			// iterators are not kept in the application log: evaluate again
			it2, ok := n.readAt(o.T, o)
			require.True(n.T, ok)
			it = it2
		}
		ob.rv = n.parse(o.Kind, it)
		ob.ret = l.render(o.Kind, ob.rv)
		ob.retOK = true
		if o.Kind == "register" || o.Kind == "transfer" {
			ob.retOK = ob.rv.b
		}
		if o.Kind == "renew" {
			ob.retInt = ob.rv.i
		}
	}
	for _, ev := range r.Events {
		if ev.ScriptHash != n.nns {
			continue
		}
		items := ev.Item.Value().([]stackitem.Item)
		switch ev.Name {
		case "Transfer":
			require.Equal(n.T, int64(1), ItemInt(items[2]).Int64())
			ob.notifs = append(ob.notifs, nnsNotif{kind: 0, from: n.itemAddr(items[0]), to: n.itemAddr(items[1]), name: string(ItemBytes(items[3]))})
		case "SetAdmin":
			ob.notifs = append(ob.notifs, nnsNotif{kind: 1, name: string(ItemBytes(items[0])), from: n.itemAddr(items[1]), to: n.itemAddr(items[2])})
		case "Renew":
			ob.notifs = append(ob.notifs, nnsNotif{kind: 2, name: string(ItemBytes(items[0])), old: ItemInt(items[1]), new: ItemInt(items[2])})
		}
	}
	ob.vec, ob.vals = n.readVec(l, o.T, readers)
	return ob
}

func (l nnsLit) notifs(ns []nnsNotif) string {
	var out []string
	for _, x := range ns {
		switch x.kind {
		case 0:
			out = append(out, VList([]string{VIntI(0), l.vaddr(x.from), l.vaddr(x.to), VIntI(1), l.vstr(x.name)}))
		case 1:
			out = append(out, VList([]string{VIntI(1), l.vstr(x.name), l.vaddr(x.from), l.vaddr(x.to)}))
		case 2:
			out = append(out, VList([]string{VIntI(2), l.vstr(x.name), VInt(x.old), VInt(x.new)}))
		}
	}
	return VList(out)
}

// obs renders the observation with the reader vector as a diff against prev.
func (l nnsLit) obs(o nnsObs, prev []string) string {
	var d []string
	for i, v := range o.vec {
		if prev == nil || prev[i] != v {
			d = append(d, VList([]string{VIntI(int64(i)), v}))
		}
	}
	return VList([]string{o.ret, l.notifs(o.notifs), VList(d)})
}

var _ = storage.FindDefault

// ---------------------------------------------------------------------------
// Pools

type nnsName struct {
	s     string
	valid bool // safeSplitAndCheck accepts
}

var nnsNames = []nnsName{
	{"com", true}, {"org", true},
	{"a.com", true}, {"b.com", true}, {"ab.com", true}, {"a.org", true},
	{"x.a.com", true}, {"y.a.com", true}, {"ax.a.com", true}, {"x.b.com", true}, {"x.a.org", true},
	{"w.x.a.com", true}, {"z.y.a.com", true}, {"w.x.b.com", true},
	// malformed (or well-formed only after stripping the dot in resolve)
	{"a.com.", false}, {"x.a.com.", false}, {"A.com", false}, {"a..com", false}, {"-a.com", false}, {"c", false}, {"", false},
	{"x.a.1om", false}, {"ab.com..", false}, {"ab.com.", false}, {"com.", false}, {"org.", false},
}

// well-formed names that are not observed
var nnsExtraValid = []string{"net", "a.net", "v.w.x.a.com"}

func nnsValidNames() []string {
	var out []string
	for _, n := range nnsNames {
		if n.valid {
			out = append(out, n.s)
		}
	}
	return out
}

type nnsData struct {
	typ   int64
	s     string
	valid bool
}

var nnsLongTXT = strings.Repeat("t", 256)
var nnsMaxTXT = strings.Repeat("u", 255)

var nnsDatas = []nnsData{
	{tA, "1.2.3.4", true}, {tA, "5.6.7.8", true}, {tA, "9.9.9.9", true}, {tA, "10.0.0.1", false}, {tA, "1.2.3", false}, {tA, "1.2.3.256", false},
	{tAAAA, "2001:db9::1", true}, {tAAAA, "2a00:1450::8a", true}, {tAAAA, "::1", false},
	{tTXT, "t1", true}, {tTXT, "t2", true}, {tTXT, "t3", true}, {tTXT, "", true}, {tTXT, nnsMaxTXT, true}, {tTXT, nnsLongTXT, false},
	{tTXT, "1.2.3.4", true}, {tTXT, "b.com", true},
	{tCNAME, "b.com", true}, {tCNAME, "a.com", true}, {tCNAME, "x.a.com", true}, {tCNAME, "y.a.com", true}, {tCNAME, "x.b.com", true},
	{tCNAME, "a.org", true}, {tCNAME, "w.x.a.com", true}, {tCNAME, "ab.com", true}, {tCNAME, "b.com.", false}, {tCNAME, "B.com", false}, {tCNAME, "t1", false},
	{tSOA, "t1", false}, {0, "t1", false}, {2, "t1", false},
}

var nnsEmails = []string{"e@x.io", "ops@nspcc.ru", "", "a b", "\xff"}

var nnsOwners = []int{pU0, pU1, pU2, pC, pCmt}

// ---------------------------------------------------------------------------
// Harness-side book-keeping of "who is who" (from the results of the calls;
// the spec's notion, used by the generators and monitors).

type nnsInfo struct {
	registered               bool
	owner, admin             int
	formerOwner, formerAdmin int
	exp                      uint64
}

type nnsBook struct {
	info map[string]*nnsInfo
	root map[string]bool
}

func newNNSBook() *nnsBook { return &nnsBook{info: map[string]*nnsInfo{}, root: map[string]bool{}} }

func (b *nnsBook) get(name string) *nnsInfo {
	if b.info[name] == nil {
		b.info[name] = &nnsInfo{owner: ownNull, admin: ownNull, formerOwner: ownNull, formerAdmin: ownNull}
	}
	return b.info[name]
}

func (b *nnsBook) live(name string, now uint64) bool {
	i := b.info[name]
	return i != nil && i.registered && now < i.exp
}

func nnsParent(name string) string {
	if i := strings.IndexByte(name, '.'); i >= 0 {
		return name[i+1:]
	}
	return ""
}

func nnsLevel(name string) int { return strings.Count(name, ".") + 1 }

// chainLive: the name and all enclosing names are live.
func (b *nnsBook) chainLive(name string, now uint64) bool {
	for n := name; n != ""; n = nnsParent(n) {
		if !b.live(n, now) {
			return false
		}
	}
	return true
}

// token: tokenIDFromName.
func (b *nnsBook) token(name string, now uint64) string {
	for n := name; nnsLevel(n) >= 2; n = nnsParent(n) {
		if b.live(n, now) {
			return n
		}
	}
	return name
}

func (b *nnsBook) update(o nnsOp, ob nnsObs) {
	if !ob.halt || !ob.retOK {
		return
	}
	switch o.Kind {
	case "register":
		i := b.get(o.Name)
		i.formerOwner, i.formerAdmin = i.owner, i.admin
		i.registered, i.owner, i.admin = true, o.Owner, ownNull
		i.exp = uint64(int64(o.T) + o.Expire*1000)
	case "registerTLD":
		i := b.get(o.Name)
		i.registered, i.owner, i.admin = true, ownNull, ownNull
		i.exp = uint64(int64(o.T) + o.Expire*1000)
		b.root[o.Name] = true
	case "transfer":
		i := b.get(o.Name)
		if i.owner != o.Owner {
			i.formerOwner, i.formerAdmin = i.owner, i.admin
			i.owner, i.admin = o.Owner, ownNull
		}
	case "setAdmin":
		i := b.get(o.Name)
		i.formerAdmin = i.admin
		i.admin = o.Owner
	case "renew":
		b.get(o.Name).exp = ob.retInt.Uint64()
	}
}

// ---------------------------------------------------------------------------
// Generator

type nnsGen struct {
	r     *rand.Rand
	prop  string
	book  *nnsBook
	mon   *nnsMon
	now   uint64
	ncmt  int
	scn   bool           // inject the "expire -> parent gains deeper records -> re-register" scenario
	queue []func() nnsOp // scripted ops, emitted before anything random
}

func (g *nnsGen) pick(ws ...int) int {
	s := 0
	for _, w := range ws {
		s += w
	}
	x := g.r.Intn(s)
	for i, w := range ws {
		if x < w {
			return i
		}
		x -= w
	}
	return len(ws) - 1
}

func (g *nnsGen) registeredNames() []string {
	var out []string
	for _, n := range nnsValidNames() {
		if i := g.book.info[n]; i != nil && i.registered {
			out = append(out, n)
		}
	}
	return out
}

// nnsSpellings: other spellings of a name that a caller might use for the
// same domain (absolute form, stray dots, case, stray blank). The contract
// takes names and token ids as raw bytes: only resolve strips one trailing dot.
func nnsSpellings(name string) []string {
	return []string{name + ".", name + "..", "." + name, strings.ToUpper(name), name + " ",
		strings.ToUpper(name[:1]) + name[1:]}
}

// respell replaces, now and then, the name of an op by another spelling of it.
func (g *nnsGen) respell(o nnsOp) nnsOp {
	if o.Name != "" && g.r.Intn(11) == 0 {
		v := nnsSpellings(o.Name)
		o.Name = v[g.r.Intn(len(v))]
	}
	return o
}

// nextTime: small steps, jumps to the expiration boundaries exp-1, exp, exp+1
// of a registered name, rarely a year.
func (g *nnsGen) nextTime() uint64 {
	wb, wy := 14, 1
	if g.prop == "C10" {
		wb, wy = 30, 2
	}
	switch g.pick(100-wb-wy, wb, wy) {
	case 1:
		var cand []uint64
		far := g.r.Intn(8) == 0 // mostly the boundaries of short-lived names
		for _, n := range g.registeredNames() {
			e := g.book.info[n].exp
			for _, t := range []uint64{e - 1, e, e + 1} {
				if t > g.now && t < g.now+uint64(12*msYear) && (t < g.now+7200_000 || far) {
					cand = append(cand, t)
				}
			}
		}
		if len(cand) > 0 {
			// prefer the nearest boundaries
			sort.Slice(cand, func(i, j int) bool { return cand[i] < cand[j] })
			k := g.r.Intn(len(cand))
			if k > 5 && g.r.Intn(3) != 0 {
				k = g.r.Intn(6)
			}
			return cand[k]
		}
	case 2:
		return g.now + uint64(msYear) + uint64(g.r.Intn(1000))
	}
	return g.now + 1 + uint64(g.r.Intn(40))
}

func (g *nnsGen) stranger(not ...int) int {
	for k := 0; k < 10; k++ {
		p := g.r.Intn(3)
		ok := true
		for _, x := range not {
			if x == p {
				ok = false
			}
		}
		if ok {
			return p
		}
	}
	return pU2
}

// signFor turns a set of principals into signers + forwarding contract.
func signFor(ps []int) (sg []int, via int) {
	seen := map[int]bool{}
	for _, p := range ps {
		if p < 0 || seen[p] {
			continue
		}
		seen[p] = true
		switch p {
		case pC, pR:
			if via == 0 {
				via = p
			}
		case pPayer:
		default:
			sg = append(sg, p)
		}
	}
	sort.Ints(sg)
	return
}

// role picks who signs an operation on name: mostly somebody entitled,
// otherwise one of the other roles of the property's list.
func (g *nnsGen) role(name string) []int {
	i := g.book.get(name)
	par := g.book.get(nnsParent(name))
	var ps []int
	switch g.pick(50, 12, 7, 6, 7, 8, 6, 4) {
	case 0:
		ps = []int{i.owner}
		if i.owner == ownNull && i.registered {
			ps = g.cmtSigners()
		}
	case 1:
		ps = []int{i.admin}
	case 2:
		ps = []int{i.formerOwner}
	case 3:
		ps = []int{i.formerAdmin}
	case 4:
		ps = []int{par.owner}
	case 5:
		ps = []int{g.stranger(i.owner, i.admin)}
	case 6:
		ps = g.cmtSigners()
	case 7:
		ps = nil
	}
	if len(ps) == 1 && ps[0] == ownNull {
		ps = []int{g.stranger(i.owner, i.admin)}
	}
	if g.r.Intn(12) == 0 {
		ps = append(ps, g.r.Intn(3))
	}
	return ps
}

// cmtSigners: who signs a committee-gated call. On multi-key committees:
// the majority account, a half-committee account over the same keys, the
// 2n/3+1 account, a single member, a stranger.
func (g *nnsGen) cmtSigners() []int {
	if g.ncmt > 1 {
		switch g.pick(50, 18, 12, 10, 10) {
		case 1:
			return []int{pHalf}
		case 2:
			return []int{pAlpha}
		case 3:
			return []int{pMember}
		case 4:
			return []int{g.r.Intn(3)}
		}
		return []int{pCmt}
	}
	if g.r.Intn(7) == 0 {
		return []int{g.r.Intn(3)}
	}
	return []int{pCmt}
}

func (g *nnsGen) expire() int64 {
	if g.prop == "C10" {
		return []int64{1, 2, 2, 3, 5, 30, 3600, 31536000, 31536000, 0, -1}[g.r.Intn(11)]
	}
	return []int64{2, 5, 3600, 3600, 31536000, 5 * 31536000, 5 * 31536000, 9 * 31536000, 9 * 31536000, 0}[g.r.Intn(10)]
}

func (g *nnsGen) anyName() string {
	if g.r.Intn(12) == 0 {
		return nnsNames[g.r.Intn(len(nnsNames))].s
	}
	v := nnsValidNames()
	return v[2+g.r.Intn(len(v)-2)]
}

func (g *nnsGen) regName() string {
	rn := g.registeredNames()
	var c []string
	for _, n := range rn {
		if nnsLevel(n) >= 2 {
			c = append(c, n)
		}
	}
	if len(c) == 0 || g.r.Intn(12) == 0 {
		return g.anyName()
	}
	var lv []string
	for _, n := range c {
		if g.book.chainLive(n, g.now+1) {
			lv = append(lv, n)
		}
	}
	if len(lv) > 0 && g.r.Intn(6) != 0 {
		return lv[g.r.Intn(len(lv))]
	}
	return c[g.r.Intn(len(c))]
}

// recName: a registered name or a (possibly unregistered) name below one.
func (g *nnsGen) recName() string {
	k := g.r.Intn(100)
	if k < 62 {
		return g.regName()
	}
	if k < 94 {
		l := g.regName()
		var c []string
		for _, n := range nnsValidNames() {
			if len(n) > len(l) && strings.HasSuffix(n, "."+l) && !g.book.live(n, g.now+1) {
				c = append(c, n)
			}
		}
		if len(c) > 0 {
			return c[g.r.Intn(len(c))]
		}
		return l
	}
	n := g.anyName()
	if g.r.Intn(25) == 0 {
		n += "."
	}
	return n
}

func (g *nnsGen) data(typ int64) string {
	var c []nnsData
	for _, d := range nnsDatas {
		if d.typ == typ {
			c = append(c, d)
		}
	}
	if len(c) == 0 {
		return "t1"
	}
	for k := 0; k < 4; k++ {
		d := c[g.r.Intn(len(c))]
		if d.valid || g.r.Intn(6) == 0 {
			return d.s
		}
	}
	return c[0].s
}

func (g *nnsGen) typ() int64 {
	switch g.pick(30, 30, 30, 6, 2, 2) {
	case 0:
		return tA
	case 1:
		return tTXT
	case 2:
		return tCNAME
	case 3:
		return tAAAA
	case 4:
		return tSOA
	}
	return []int64{0, 2, 255, -250, -255, 300, 1281}[g.r.Intn(7)]
}

// scenario: a sub-name expires, the enclosing name (now its token) gains
// records of names below it, then isAvailable / re-registration (takeover) of
// the expired name are tried — at level 3 or 4, at exp-1 / exp / exp+1, with
// and without removing the records again.
func (g *nnsGen) scenario() {
	r := g.r
	P, S, D := "b.com", "x.b.com", "w.x.b.com"
	if r.Intn(2) == 0 {
		P, S, D = "x.a.com", "w.x.a.com", "v.w.x.a.com"
	}
	oP, oS, oN := r.Intn(3), nnsOwners[r.Intn(len(nnsOwners))], nnsOwners[r.Intn(len(nnsOwners))]
	q := func(f func() nnsOp) { g.queue = append(g.queue, f) }
	mk := func(o nnsOp, t uint64, ps ...int) nnsOp {
		o.T = t
		o.Signers, o.Via = signFor(ps)
		return o
	}
	own := func(n string) int { return g.book.get(n).owner }
	soon := func() uint64 { return g.now + 1 + uint64(r.Intn(20)) }
	reg := func(name string, owner int, ex int64) {
		q(func() nnsOp {
			return mk(nnsOp{Kind: "register", Name: name, Owner: owner, Email: "e@x.io", Refresh: 1, Retry: 2, Expire: ex, TTL: 4},
				soon(), owner, own(nnsParent(name)))
		})
	}
	if nnsLevel(P) == 3 {
		reg("a.com", r.Intn(3), 9*31536000)
	}
	reg(P, oP, 9*31536000)
	reg(S, oS, int64(1+r.Intn(2)))
	if r.Intn(2) == 0 {
		q(func() nnsOp { return mk(nnsOp{Kind: "addRecord", Name: S, Typ: tTXT, Data: "t1"}, soon(), own(S)) })
	}
	// the first op at/around the expiration instant of S: a record of a deeper name
	dt := []int64{-1, 0, 0, 1}[r.Intn(4)]
	kD := r.Intn(2)
	dTyp, dData := []int64{tTXT, tA}[kD], []string{"t2", "1.2.3.4"}[kD]
	q(func() nnsOp {
		t := uint64(int64(g.book.get(S).exp) + dt)
		if !g.book.get(S).registered || t <= g.now {
			t = soon()
		}
		return mk(nnsOp{Kind: "addRecord", Name: D, Typ: dTyp, Data: dData}, t, own(g.book.token(D, t)))
	})
	q(func() nnsOp { return mk(nnsOp{Kind: "isAvailable", Name: S}, soon()) })
	reg(S, oN, 3600)
	if dt < 0 {
		reg(S, oN, 3600) // one more try after the boundary
	}
	if r.Intn(2) == 0 {
		q(func() nnsOp {
			t := soon()
			return mk(nnsOp{Kind: "deleteRecords", Name: D, Typ: dTyp}, t, own(g.book.token(D, t)))
		})
		reg(S, oN, 3600)
	}
	q(func() nnsOp { return mk(nnsOp{Kind: "isAvailable", Name: S}, soon()) })
}

func (g *nnsGen) next(step int) nnsOp {
	if step == 6 && g.scn {
		g.scenario()
	}
	if len(g.queue) > 0 {
		f := g.queue[0]
		g.queue = g.queue[1:]
		return f()
	}
	t := g.nextTime()
	mk := func(o nnsOp, ps []int) nnsOp {
		o.T = t
		o.Signers, o.Via = signFor(ps)
		return o
	}
	cmt := func() []int { return g.cmtSigners() }
	email := func() string {
		if g.r.Intn(40) == 0 {
			return nnsEmails[g.r.Intn(len(nnsEmails))]
		}
		return nnsEmails[g.r.Intn(2)]
	}
	switch step {
	case 0:
		return mk(nnsOp{Kind: "setPrice", Price: 1000}, []int{pCmt})
	case 1:
		return mk(nnsOp{Kind: "registerTLD", Name: "com", Email: "e@x.io", Refresh: 1, Retry: 2, Expire: 100 * 31536000, TTL: 4}, []int{pCmt})
	case 2:
		ex := int64(100 * 31536000)
		if g.r.Intn(4) == 0 {
			ex = []int64{3, 10, 3600}[g.r.Intn(3)]
		}
		return mk(nnsOp{Kind: "registerTLD", Name: "org", Email: "e@x.io", Refresh: 1, Retry: 2, Expire: ex, TTL: 4}, []int{pCmt})
	}
	if step == 3 || step == 4 || step == 5 && g.r.Intn(2) == 0 {
		name := []string{"a.com", "b.com", "x.a.com"}[step-3]
		owner := nnsOwners[g.r.Intn(len(nnsOwners))]
		ps := []int{owner, g.book.get(nnsParent(name)).owner}
		ex := []int64{3, 3600, 31536000, 5 * 31536000, 9 * 31536000}[g.r.Intn(5)]
		return mk(nnsOp{Kind: "register", Name: name, Owner: owner, Email: "e@x.io", Refresh: 1, Retry: 2, Expire: ex, TTL: 4}, ps)
	}
	var w []int
	//            regTLD reg xfer renew setAdm add set del soa price tick reader
	switch g.prop {
	case "C10":
		w = []int{5, 30, 18, 14, 6, 3, 1, 1, 1, 2, 12, 7}
	case "C11":
		w = []int{5, 15, 12, 10, 12, 14, 10, 8, 8, 4, 1, 1}
	default:
		w = []int{2, 14, 3, 2, 2, 38, 14, 9, 4, 1, 5, 6}
	}
	switch g.pick(w...) {
	case 0:
		name := []string{"com", "org", "org", "net", "a.com", "c"}[g.r.Intn(6)]
		ex := []int64{2, 10, 3600, 100 * 31536000}[g.r.Intn(4)]
		return mk(nnsOp{Kind: "registerTLD", Name: name, Email: email(), Refresh: 1, Retry: 2, Expire: ex, TTL: 4}, cmt())
	case 1:
		name := g.anyName()
		// prefer names whose parent chain is live
		for k := 0; k < 6 && !g.book.chainLive(nnsParent(name), t); k++ {
			name = g.anyName()
		}
		if g.r.Intn(4) == 0 {
			name = g.regName() // re-registration (live: false; expired: takeover)
		}
		owner := nnsOwners[g.r.Intn(len(nnsOwners))]
		switch g.r.Intn(45) {
		case 0:
			owner = ownNull
		case 1:
			owner = ownBad
		case 2:
			owner = pR
		}
		ps := []int{owner}
		if g.r.Intn(8) == 0 {
			ps = []int{g.stranger(owner)}
		}
		if nnsLevel(name) > 2 {
			par := g.book.get(nnsParent(name))
			switch g.pick(60, 15, 10, 15) {
			case 0:
				ps = append(ps, par.owner)
			case 1:
				ps = append(ps, par.admin)
			case 2:
				ps = append(ps, par.formerOwner)
			}
		}
		return mk(nnsOp{Kind: "register", Name: name, Owner: owner, Email: email(), Refresh: 1, Retry: 2, Expire: g.expire(), TTL: 4}, ps)
	case 2:
		name := g.regName()
		to := nnsOwners[g.r.Intn(len(nnsOwners))]
		switch g.r.Intn(30) {
		case 0:
			to = ownNull
		case 1:
			to = ownBad
		case 2, 3:
			to = pR
		case 4, 5, 6:
			to = g.book.get(name).owner // to self
		}
		return mk(nnsOp{Kind: "transfer", Name: name, Owner: to}, g.role(name))
	case 3:
		name := g.regName()
		if g.r.Intn(8) == 0 {
			name = "com"
		}
		y := int64(1 + g.r.Intn(3))
		switch g.r.Intn(10) {
		case 0:
			y = []int64{0, -1, 11, 10, 9}[g.r.Intn(5)]
		case 1:
			y = int64(1 + g.r.Intn(10))
		}
		return mk(nnsOp{Kind: "renew", Name: name, Years: y}, g.role(name))
	case 4:
		name := g.regName()
		adm := nnsOwners[g.r.Intn(len(nnsOwners))]
		switch g.r.Intn(12) {
		case 0, 1:
			adm = ownNull
		case 2:
			adm = ownBad
		}
		ps := g.role(name)
		if cur := g.book.get(name).admin; cur != ownNull && g.r.Intn(4) == 0 {
			ps = []int{cur} // the current admin tries to appoint (only the owner may)
		}
		if g.r.Intn(5) != 0 {
			ps = append(ps, adm)
		}
		return mk(nnsOp{Kind: "setAdmin", Name: name, Owner: adm}, ps)
	case 5:
		name := g.recName()
		typ := g.typ()
		return mk(nnsOp{Kind: "addRecord", Name: name, Typ: typ, Data: g.data(typ)}, g.role(g.book.token(strings.TrimSuffix(name, "."), t)))
	case 6:
		name := g.recName()
		typ := g.typ()
		id := int64(g.r.Intn(3))
		// prefer an existing (name, type, id) of the spec
		if ks := g.mon.keys(); len(ks) > 0 && g.r.Intn(5) != 0 {
			f := strings.Split(ks[g.r.Intn(len(ks))], "|")
			name = f[1]
			fmt.Sscan(f[2], &typ)
			id = int64(g.r.Intn(len(g.mon.recs[strings.Join(f, "|")])))
		}
		if g.r.Intn(8) == 0 {
			id = []int64{-1, 15, 16, 255, 256, -128, -129, 5}[g.r.Intn(8)]
		}
		return mk(nnsOp{Kind: "setRecord", Name: name, Typ: typ, ID: id, Data: g.data(typ)}, g.role(g.book.token(name, t)))
	case 7:
		name := g.recName()
		typ := g.typ()
		if ks := g.mon.keys(); len(ks) > 0 && g.r.Intn(3) != 0 {
			f := strings.Split(ks[g.r.Intn(len(ks))], "|")
			name = f[1]
			fmt.Sscan(f[2], &typ)
		}
		return mk(nnsOp{Kind: "deleteRecords", Name: name, Typ: typ}, g.role(g.book.token(name, t)))
	case 8:
		name := g.regName()
		return mk(nnsOp{Kind: "updateSOA", Name: name, Email: email(), Refresh: 5, Retry: 6, Expire: 7, TTL: 8}, g.role(name))
	case 9:
		p := []int64{0, 1, 1000, 1000, 1_0000_0000, -1, 1_0000_0000_0000 + 1}[g.r.Intn(7)]
		return mk(nnsOp{Kind: "setPrice", Price: p}, cmt())
	case 10:
		return mk(nnsOp{Kind: "totalSupply"}, nil)
	}
	name := g.recName()
	switch g.r.Intn(6) {
	case 0:
		return mk(nnsOp{Kind: "ownerOf", Name: name}, nil)
	case 1:
		return mk(nnsOp{Kind: "isAvailable", Name: name}, nil)
	case 2:
		return mk(nnsOp{Kind: "resolve", Name: name, Typ: g.typ()}, nil)
	case 3:
		return mk(nnsOp{Kind: "getRecords", Name: name, Typ: g.typ()}, nil)
	case 4:
		return mk(nnsOp{Kind: "balanceOf", Owner: []int{pU0, ownNull, ownBad}[g.r.Intn(3)]}, nil)
	}
	return mk(nnsOp{Kind: "properties", Name: name}, nil)
}

// ---------------------------------------------------------------------------
// Reader lists (the observation vector of each property)

func nnsReaders(prop string) []nnsOp {
	var rs []nnsOp
	var sub []string
	for _, n := range nnsValidNames() {
		if nnsLevel(n) >= 2 {
			sub = append(sub, n)
		}
	}
	switch prop {
	case "C10":
		rs = append(rs, nnsOp{Kind: "totalSupply"}, nnsOp{Kind: "tokens"}, nnsOp{Kind: "roots"}, nnsOp{Kind: "getPrice"})
		for _, p := range append(append([]int{}, nnsOwners...), pR) {
			rs = append(rs, nnsOp{Kind: "balanceOf", Owner: p}, nnsOp{Kind: "tokensOf", Owner: p})
		}
		rs = append(rs, nnsOp{Kind: "isAvailable", Name: "com"}, nnsOp{Kind: "isAvailable", Name: "org"})
		for _, n := range sub {
			rs = append(rs, nnsOp{Kind: "isAvailable", Name: n}, nnsOp{Kind: "ownerOf", Name: n}, nnsOp{Kind: "properties", Name: n})
		}
	case "C11":
		rs = append(rs, nnsOp{Kind: "totalSupply"}, nnsOp{Kind: "tokens"}, nnsOp{Kind: "roots"}, nnsOp{Kind: "getPrice"},
			nnsOp{Kind: "resolve", Name: "com.", Typ: tSOA}, nnsOp{Kind: "resolve", Name: "org.", Typ: tSOA})
		for _, n := range sub {
			rs = append(rs, nnsOp{Kind: "ownerOf", Name: n}, nnsOp{Kind: "properties", Name: n}, nnsOp{Kind: "getAllRecords", Name: n})
		}
	default:
		for _, n := range sub {
			rs = append(rs, nnsOp{Kind: "getRecords", Name: n, Typ: tTXT},
				nnsOp{Kind: "getRecords", Name: n, Typ: tCNAME}, nnsOp{Kind: "getAllRecords", Name: n},
				nnsOp{Kind: "resolve", Name: n, Typ: tTXT}, nnsOp{Kind: "isAvailable", Name: n})
			// the A views (same code path as TXT; the A records themselves are in
			// getAllRecords of every name) only for three names, to keep the quick tier short
			if n == "a.com" || n == "x.a.com" || n == "b.com" {
				rs = append(rs, nnsOp{Kind: "getRecords", Name: n, Typ: tA}, nnsOp{Kind: "resolve", Name: n, Typ: tA})
			}
		}
		rs = append(rs, nnsOp{Kind: "resolve", Name: "a.com.", Typ: tTXT}, nnsOp{Kind: "resolve", Name: "a.com", Typ: tCNAME},
			nnsOp{Kind: "getRecords", Name: "a.com", Typ: tSOA}, nnsOp{Kind: "getRecords", Name: "a.com", Typ: tAAAA})
	}
	return rs
}

// ---------------------------------------------------------------------------
// Corpus: hand-written boundary histories, run first. Times are offsets from
// the chain's time at the start of the history.

// nnsCorpusN: the committee-gated methods under every kind of account that
// can be built from the committee keys, on committees of 4 (n/2+1 = 3 = 2n/3+1,
// half = 2) and of 3 keys (n/2+1 = 2, 2n/3+1 = 3, half = 1).
func nnsCorpusN(prop string) []nnsHist {
	if prop == "C12" {
		return nil
	}
	const Y = int64(31536000)
	var out []nnsHist
	for _, ncmt := range []int{4, 3} {
		var h []nnsOp
		t := uint64(0)
		add := func(o nnsOp, ps ...int) {
			t++
			o.T = t
			o.Signers, o.Via = signFor(ps)
			h = append(h, o)
		}
		add(nnsOp{Kind: "setPrice", Price: 1000}, pCmt)
		add(nnsOp{Kind: "registerTLD", Name: "com", Email: "e@x.io", Refresh: 1, Retry: 2, Expire: 100 * Y, TTL: 4}, pCmt)
		add(nnsOp{Kind: "register", Name: "a.com", Owner: pCmt, Email: "e@x.io", Refresh: 1, Retry: 2, Expire: 3600, TTL: 4}, pCmt)
		for i, ps := range [][]int{{pHalf}, {pAlpha}, {pMember}, {pU0}, {pHalf, pMember, pU0}, {}, {pCmt}, {pCmt, pHalf}} {
			add(nnsOp{Kind: "setPrice", Price: int64(2000 + i)}, ps...)
			add(nnsOp{Kind: "registerTLD", Name: "org", Email: "e@x.io", Refresh: 1, Retry: 2, Expire: 0, TTL: 4}, ps...)
			add(nnsOp{Kind: "renew", Name: "com", Years: 1}, ps...)
			add(nnsOp{Kind: "updateSOA", Name: "com", Email: "ops@nspcc.ru", Refresh: 5, Retry: 6, Expire: 7, TTL: int64(8 + i)}, ps...)
			if prop == "C11" {
				// a name owned by the committee ACCOUNT (20 bytes) follows the same account
				add(nnsOp{Kind: "addRecord", Name: "a.com", Typ: tTXT, Data: fmt.Sprintf("r%d", i)}, ps...)
				add(nnsOp{Kind: "transfer", Name: "a.com", Owner: pCmt}, ps...)
			}
		}
		out = append(out, nnsHist{ncmt, h})
	}
	return out
}

// nnsHist is a corpus history with the committee size of its chain.
type nnsHist struct {
	N   int
	Ops []nnsOp
}

func nnsCorpus(prop string) []nnsHist {
	var out []nnsHist
	for _, h := range nnsCorpus1(prop) {
		out = append(out, nnsHist{1, h})
	}
	return append(out, nnsCorpusN(prop)...)
}

func nnsCorpus1(prop string) [][]nnsOp {
	const Y = int64(31536000)
	var h []nnsOp
	t := uint64(0)
	at := func(abs uint64) { t = abs - 1 }
	add := func(o nnsOp, ps ...int) {
		t++
		o.T = t
		o.Signers, o.Via = signFor(ps)
		h = append(h, o)
	}
	start := func() {
		h, t = nil, 0
		add(nnsOp{Kind: "setPrice", Price: 1000}, pCmt)
		add(nnsOp{Kind: "registerTLD", Name: "com", Email: "e@x.io", Refresh: 1, Retry: 2, Expire: 100 * Y, TTL: 4}, pCmt)
	}
	reg := func(name string, owner int, expire int64, ps ...int) {
		add(nnsOp{Kind: "register", Name: name, Owner: owner, Email: "e@x.io", Refresh: 1, Retry: 2, Expire: expire, TTL: 4}, ps...)
	}
	rec := func(kind, name string, typ, id int64, data string, ps ...int) {
		add(nnsOp{Kind: kind, Name: name, Typ: typ, ID: id, Data: data}, ps...)
	}
	tick := func() { add(nnsOp{Kind: "totalSupply"}) }
	var out [][]nnsOp
	switch prop {
	case "C10":
		// 1: lifecycle around the expiration instant, takeover, transfers, renewals
		start()
		reg("a.com", pU0, 2, pU0) // t=3, exp = 2003
		at(2002)
		reg("a.com", pU1, 3600, pU1) // exp-1: live, false
		reg("a.com", pU1, 3600, pU1) // exp: takeover
		reg("a.com", pU2, 3600, pU2) // live again: false
		add(nnsOp{Kind: "transfer", Name: "a.com", Owner: pU2}, pU1)
		add(nnsOp{Kind: "transfer", Name: "a.com", Owner: pU2}, pU2) // to self
		add(nnsOp{Kind: "transfer", Name: "a.com", Owner: pC}, pU2)
		add(nnsOp{Kind: "transfer", Name: "a.com", Owner: pR}, pC)   // receiver faults
		add(nnsOp{Kind: "transfer", Name: "a.com", Owner: pU0}, pU1) // not the owner: false
		add(nnsOp{Kind: "transfer", Name: "a.com", Owner: pU0}, pC)
		add(nnsOp{Kind: "renew", Name: "a.com", Years: 1}, pU0)
		add(nnsOp{Kind: "renew", Name: "a.com", Years: 10}, pU0)
		add(nnsOp{Kind: "renew", Name: "a.com", Years: 9}, pU0)
		add(nnsOp{Kind: "renew", Name: "a.com", Years: 1}, pU0)
		add(nnsOp{Kind: "renew", Name: "a.com", Years: 0}, pU0)
		add(nnsOp{Kind: "renew", Name: "a.com", Years: 11}, pU0)
		add(nnsOp{Kind: "renew", Name: "com", Years: 10}, pCmt)
		add(nnsOp{Kind: "setAdmin", Name: "a.com", Owner: pU1}, pU0, pU1)
		add(nnsOp{Kind: "transfer", Name: "a.com", Owner: pU2}, pU0)
		reg("x.a.com", pU1, 5, pU1, pU2)
		reg("w.x.a.com", pC, 5, pC, pU1)
		reg("w.x.a.com", pC, 5, pC)
		out = append(out, h)
		// 2: parent chain expiry and TLD re-registration
		start()
		add(nnsOp{Kind: "registerTLD", Name: "org", Email: "e@x.io", Refresh: 1, Retry: 2, Expire: 3, TTL: 4}, pCmt) // t=3, exp 3003
		reg("a.org", pU0, 3600, pU0)
		reg("x.a.org", pU1, 3600, pU0, pU1)
		add(nnsOp{Kind: "registerTLD", Name: "org", Email: "e@x.io", Refresh: 1, Retry: 2, Expire: 3, TTL: 4}, pCmt) // exists
		at(3002)
		tick()
		tick() // org expired: a.org, x.a.org unreadable; isAvailable(org) faults
		add(nnsOp{Kind: "isAvailable", Name: "org"})
		add(nnsOp{Kind: "transfer", Name: "a.org", Owner: pU2}, pU0) // transfer ignores the parent chain
		add(nnsOp{Kind: "renew", Name: "a.org", Years: 1}, pU2)
		add(nnsOp{Kind: "renew", Name: "org", Years: 1}, pCmt)
		add(nnsOp{Kind: "registerTLD", Name: "org", Email: "e@x.io", Refresh: 1, Retry: 2, Expire: 3600, TTL: 4}, pU0)
		add(nnsOp{Kind: "registerTLD", Name: "org", Email: "e@x.io", Refresh: 1, Retry: 2, Expire: 3600, TTL: 4}, pCmt)
		tick()
		out = append(out, h)
		// 4: takeover of an expired sub-name while the parent holds records below it
		start()
		reg("a.com", pU0, 9*Y, pU0)
		reg("x.a.com", pU1, 2, pU0, pU1) // t=4, exp 2004
		at(2003)
		tick()
		rec("addRecord", "w.x.a.com", tTXT, 0, "t2", pU0) // t = exp: lands under a.com
		reg("x.a.com", pU2, 3600, pU0, pU2)               // refused: accounting must not move
		rec("deleteRecords", "w.x.a.com", tTXT, 0, "", pU0)
		reg("x.a.com", pU2, 3600, pU0, pU2) // takeover U1 -> U2
		out = append(out, h)
		// 5: other spellings of a registered name in every method that takes a name
		// or a token id: none of them is the token (only resolve strips one dot);
		// the accounting is judged after each call
		start()
		reg("a.com", pU0, 3600, pU0)
		for _, v := range nnsSpellings("a.com") {
			add(nnsOp{Kind: "transfer", Name: v, Owner: pU1}, pU0)
			add(nnsOp{Kind: "ownerOf", Name: v})
			add(nnsOp{Kind: "properties", Name: v})
			add(nnsOp{Kind: "isAvailable", Name: v})
			add(nnsOp{Kind: "renew", Name: v, Years: 1}, pU0)
			add(nnsOp{Kind: "setAdmin", Name: v, Owner: pU1}, pU0, pU1)
			reg(v, pU2, 3600, pU2)
		}
		add(nnsOp{Kind: "transfer", Name: "a.com", Owner: pU1}, pU0)
		for _, v := range nnsSpellings("a.com") {
			add(nnsOp{Kind: "transfer", Name: v, Owner: pC}, pU1)
		}
		out = append(out, h)
		// 3: price, degenerate lifetimes and owners
		h, t = nil, 0
		add(nnsOp{Kind: "registerTLD", Name: "com", Email: "e@x.io", Refresh: 1, Retry: 2, Expire: 100 * Y, TTL: 4}, pCmt)
		reg("a.com", pU0, 3600, pU0) // default price
		add(nnsOp{Kind: "setPrice", Price: 0}, pCmt)
		reg("b.com", pU0, 3600, pU0)
		add(nnsOp{Kind: "renew", Name: "a.com", Years: 1}, pU0)
		add(nnsOp{Kind: "setPrice", Price: 1000}, pU0)
		add(nnsOp{Kind: "setPrice", Price: 1000}, pCmt)
		reg("b.com", pU0, 0, pU0)
		reg("b.com", pU1, -1, pU1)
		reg("x.b.com", pU1, 5, pU1)
		reg("ab.com", ownNull, 5, pU1)
		reg("ab.com", ownBad, 5, pU1)
		reg("ab.com", pR, 5, pR)
		reg("ab.com", pCmt, 5, pCmt)
		reg("com", pU0, 5, pU0)
		reg("A.com", pU0, 5, pU0)
		reg("a.net", pU0, 5, pU0)
		reg("x.a.com", pU0, 0, pU0)
		reg("w.x.a.com", pU0, 5, pU0)
		out = append(out, h)
	case "C11":
		// the role matrix on one name, before and after a transfer and a takeover
		start()
		reg("a.com", pU0, 3, pU0) // exp 3003
		add(nnsOp{Kind: "setAdmin", Name: "a.com", Owner: pU1}, pU0)
		add(nnsOp{Kind: "setAdmin", Name: "a.com", Owner: pU1}, pU1)
		add(nnsOp{Kind: "setAdmin", Name: "a.com", Owner: pU1}, pU0, pU1)
		rec("addRecord", "a.com", tTXT, 0, "t1", pU0)
		matrix := func() {
			// the signer sets that must NOT be able to transfer / appoint come first
			// (while the state still has owner, admin and records), the owner last
			for _, ps := range [][]int{{pU1}, {pU2}, {pCmt}, {}, {pU1, pU2}, {pU0}} {
				rec("addRecord", "a.com", tTXT, 0, "t2", ps...)
				rec("setRecord", "a.com", tTXT, 0, "t3", ps...)
				rec("deleteRecords", "a.com", tA, 0, "", ps...)
				add(nnsOp{Kind: "updateSOA", Name: "a.com", Email: "ops@nspcc.ru", Refresh: 5, Retry: 6, Expire: 7, TTL: 8}, ps...)
				add(nnsOp{Kind: "renew", Name: "a.com", Years: 1}, ps...)
				reg("x.a.com", pU2, 3600, append([]int{pU2}, ps...)...)
				add(nnsOp{Kind: "setAdmin", Name: "a.com", Owner: pU2}, ps...)
				add(nnsOp{Kind: "setAdmin", Name: "a.com", Owner: ownNull}, ps...)
				add(nnsOp{Kind: "transfer", Name: "a.com", Owner: pU2}, ps...)
				add(nnsOp{Kind: "setPrice", Price: 1}, ps...)
				add(nnsOp{Kind: "registerTLD", Name: "org", Email: "e@x.io", Refresh: 1, Retry: 2, Expire: 5, TTL: 4}, ps...)
			}
		}
		matrix()
		out = append(out, h)
		start()
		reg("a.com", pU0, 3, pU0) // exp 3003
		add(nnsOp{Kind: "setAdmin", Name: "a.com", Owner: pU1}, pU0, pU1)
		reg("x.a.com", pC, 3600, pC, pU1)               // admin of the parent registers for the contract
		rec("addRecord", "x.a.com", tTXT, 0, "t1", pU0) // parent owner cannot touch a registered sub-name
		rec("addRecord", "x.a.com", tTXT, 0, "t1", pC)
		rec("addRecord", "y.a.com", tTXT, 0, "t1", pU1) // unregistered sub-name: the parent's admin
		at(3003)
		reg("a.com", pU2, 3600, pU2) // takeover
		matrix()
		out = append(out, h)
		// other spellings of the name, signed by the owner: not the name
		start()
		reg("a.com", pU0, 3600, pU0)
		rec("addRecord", "a.com", tTXT, 0, "t1", pU0)
		for _, v := range nnsSpellings("a.com") {
			rec("addRecord", v, tTXT, 0, "t2", pU0)
			rec("setRecord", v, tTXT, 0, "t3", pU0)
			rec("deleteRecords", v, tTXT, 0, "", pU0)
			add(nnsOp{Kind: "updateSOA", Name: v, Email: "ops@nspcc.ru", Refresh: 5, Retry: 6, Expire: 7, TTL: 8}, pU0)
			add(nnsOp{Kind: "renew", Name: v, Years: 1}, pU0)
			add(nnsOp{Kind: "setAdmin", Name: v, Owner: pU1}, pU0, pU1)
			add(nnsOp{Kind: "transfer", Name: v, Owner: pU1}, pU0)
			reg("x."+v, pU2, 3600, pU0, pU2)
		}
		out = append(out, h)
	default:
		// 0: other spellings of the name in the record methods and readers
		start()
		reg("a.com", pU0, 3600, pU0)
		rec("addRecord", "a.com", tTXT, 0, "t1", pU0)
		rec("addRecord", "x.a.com", tTXT, 0, "t2", pU0)
		for i, v := range append(nnsSpellings("a.com"), "x.a.com.", "x.a.com ") {
			rec("addRecord", v, tTXT, 0, "t3", pU0)
			rec("deleteRecords", v, tTXT, 0, "", pU0)
			add(nnsOp{Kind: "getRecords", Name: v, Typ: tTXT})
			add(nnsOp{Kind: "resolve", Name: v, Typ: tTXT})
			if i < 2 || i >= 6 {
				rec("setRecord", v, tTXT, 0, "t3", pU0)
				add(nnsOp{Kind: "getAllRecords", Name: v})
				add(nnsOp{Kind: "isAvailable", Name: v})
			}
		}
		add(nnsOp{Kind: "updateSOA", Name: "a.com.", Email: "ops@nspcc.ru", Refresh: 5, Retry: 6, Expire: 7, TTL: 8}, pU0)
		out = append(out, h)
		// 1: F14 — setRecord creates a duplicate
		start()
		reg("a.com", pU0, 3600, pU0)
		rec("addRecord", "a.com", tTXT, 0, "t1", pU0)
		rec("addRecord", "a.com", tTXT, 0, "t2", pU0)
		rec("setRecord", "a.com", tTXT, 0, "t2", pU0)
		rec("addRecord", "a.com", tTXT, 0, "t2", pU0)
		rec("setRecord", "a.com", tTXT, 2, "t3", pU0)
		rec("deleteRecords", "a.com", tTXT, 0, "", pU0)
		out = append(out, h)
		// 2: 17th record, second CNAME
		start()
		reg("a.com", pU0, 3600, pU0)
		for i := 0; i < 17; i++ {
			rec("addRecord", "a.com", tTXT, 0, fmt.Sprintf("r%d", i), pU0)
		}
		rec("setRecord", "a.com", tTXT, 15, "t1", pU0)
		rec("setRecord", "a.com", tTXT, 16, "t1", pU0)
		rec("addRecord", "a.com", tCNAME, 0, "b.com", pU0)
		rec("addRecord", "a.com", tCNAME, 0, "ab.com", pU0)
		rec("setRecord", "a.com", tCNAME, 0, "ab.com", pU0)
		rec("deleteRecords", "a.com", tSOA, 0, "", pU0)
		out = append(out, h)
		// 3: CNAME chains of depth 0..4, a cycle, trailing dot
		start()
		chain := []string{"a.com", "b.com", "ab.com", "x.a.com", "y.a.com"}
		for _, n := range chain {
			reg(n, pU0, 3600, pU0)
			rec("addRecord", n, tTXT, 0, "t1", pU0)
		}
		rec("addRecord", "y.a.com", tA, 0, "1.2.3.4", pU0)
		for i := len(chain) - 2; i >= 0; i-- {
			rec("addRecord", chain[i], tCNAME, 0, chain[i+1], pU0)
		}
		add(nnsOp{Kind: "resolve", Name: "ab.com.", Typ: tTXT})
		add(nnsOp{Kind: "resolve", Name: "ab.com..", Typ: tTXT})
		rec("addRecord", "y.a.com", tCNAME, 0, "x.a.com", pU0) // cycle x -> y -> x
		rec("deleteRecords", "b.com", tCNAME, 0, "", pU0)
		rec("addRecord", "b.com", tCNAME, 0, "a.com", pU0) // cycle a -> b -> a
		rec("setRecord", "b.com", tCNAME, 0, "b.com", pU0) // self loop
		out = append(out, h)
		// 4: location under the longest registered name, conflicts, shadowing, deep sub-names
		start()
		reg("a.com", pU0, 3600, pU0)
		rec("addRecord", "w.x.a.com", tTXT, 0, "t1", pU0)
		rec("addRecord", "ax.a.com", tTXT, 0, "t2", pU0)
		rec("addRecord", "y.a.com", tTXT, 0, "t3", pU0)
		add(nnsOp{Kind: "resolve", Name: "w.x.a.com", Typ: tTXT})
		add(nnsOp{Kind: "getRecords", Name: "w.x.a.com", Typ: tTXT})
		reg("x.a.com", pU0, 3600, pU0) // blocked by w.x.a.com and (over-blocking) ax.a.com
		rec("deleteRecords", "w.x.a.com", tTXT, 0, "", pU0)
		reg("x.a.com", pU0, 3600, pU0) // still blocked by ax.a.com
		rec("deleteRecords", "ax.a.com", tTXT, 0, "", pU0)
		reg("x.a.com", pU0, 3600, pU0)
		reg("y.a.com", pU1, 2, pU0, pU1) // shadows the parent's record for y.a.com until it expires
		rec("addRecord", "y.a.com", tTXT, 0, "t1", pU1)
		t += 2000
		tick()
		out = append(out, h)
		// 5: type and id bytes
		start()
		reg("a.com", pU0, 3600, pU0)
		rec("addRecord", "a.com", tA, 0, "1.2.3.4", pU0)
		rec("addRecord", "a.com", tA, 0, "5.6.7.8", pU0)
		rec("addRecord", "y.a.com", tA, 0, "1.2.3.4", pU0)
		rec("addRecord", "y.a.com", tTXT, 0, "t1", pU0)
		rec("deleteRecords", "a.com", -250, 0, "", pU0)   // out of the byte range -128..255: SETITEM faults
		rec("deleteRecords", "y.a.com", -250, 0, "", pU0) // the same
		rec("deleteRecords", "a.com", -255, 0, "", pU0)   // the same (no alias of A)
		rec("deleteRecords", "a.com", -128, 0, "", pU0)   // byte 128: nothing there, halts
		rec("deleteRecords", "y.a.com", 1281, 0, "", pU0)
		rec("deleteRecords", "y.a.com", 0, 0, "", pU0)
		rec("deleteRecords", "y.a.com", 300, 0, "", pU0)
		rec("deleteRecords", "y.a.com", -129, 0, "", pU0)
		rec("setRecord", "y.a.com", tA, 256, "5.6.7.8", pU0)
		rec("setRecord", "y.a.com", tA, -128, "5.6.7.8", pU0)
		rec("setRecord", "y.a.com", tA, -129, "5.6.7.8", pU0)
		rec("setRecord", "y.a.com", tA, -256, "5.6.7.8", pU0)
		rec("addRecord", "a.com", tAAAA, 0, "2001:db9::1", pU0)
		rec("addRecord", "a.com", 2, 0, "t1", pU0)
		add(nnsOp{Kind: "getRecords", Name: "a.com", Typ: -255})
		add(nnsOp{Kind: "resolve", Name: "com.", Typ: tSOA})
		out = append(out, h)
		// 5b: the SOA record of a name registered dead on arrival lies under the
		// enclosing token; deleteRecords cannot reach it (6 refused, -250 out of range)
		start()
		reg("a.com", pU0, 3600, pU0)
		reg("x.a.com", pU0, 0, pU0)
		add(nnsOp{Kind: "getAllRecords", Name: "x.a.com"})
		rec("deleteRecords", "x.a.com", tSOA, 0, "", pU0)
		rec("deleteRecords", "x.a.com", -250, 0, "", pU0)
		add(nnsOp{Kind: "getAllRecords", Name: "x.a.com"})
		out = append(out, h)
		// 6: SOA data that updateSoaSerial cannot parse
		start()
		add(nnsOp{Kind: "register", Name: "a.com", Owner: pU0, Email: "", Refresh: 1, Retry: 2, Expire: 3600, TTL: 4}, pU0)
		rec("addRecord", "a.com", tTXT, 0, "t1", pU0)
		add(nnsOp{Kind: "updateSOA", Name: "a.com", Email: "a b", Refresh: 5, Retry: 6, Expire: 7, TTL: 8}, pU0)
		rec("addRecord", "a.com", tTXT, 0, "t1", pU0)
		add(nnsOp{Kind: "updateSOA", Name: "a.com", Email: "\xff", Refresh: 5, Retry: 6, Expire: 7, TTL: 8}, pU0)
		rec("addRecord", "a.com", tTXT, 0, "t1", pU0)
		add(nnsOp{Kind: "updateSOA", Name: "a.com", Email: "e@x.io", Refresh: -5, Retry: 6, Expire: 7, TTL: 8}, pU0)
		rec("addRecord", "a.com", tTXT, 0, "t1", pU0)
		out = append(out, h)
		// 8: a record method exactly at the expiration instant of its name: the name
		// (and its parent) drop out, the token becomes a.com, whose owner may act;
		// the SOA of w.x.a.com becomes unreachable by expiry, not by deleteRecords
		// (this history once raised a false alarm of the monitor)
		start()
		reg("a.com", pU1, 9*Y, pU1)
		reg("x.a.com", pU2, 3600, pU1, pU2)                // t=4, exp 3600004
		reg("w.x.a.com", pCmt, 3600, pU2, pCmt)            // t=5, exp 3600005
		rec("addRecord", "w.x.a.com", tTXT, 0, "t1", pCmt) // under its own token
		at(3600004)
		tick()
		rec("deleteRecords", "w.x.a.com", tTXT, 0, "", pU1) // t = exp: token is a.com now
		rec("addRecord", "w.x.a.com", tTXT, 0, "t2", pU1)
		out = append(out, h)
		// 9: level 3 — x.a.com expires, a.com (now the token of everything below)
		// gains a record of w.x.a.com: isAvailable(x.a.com) is false and the
		// re-registration (takeover) is refused until the record is gone
		start()
		reg("a.com", pU0, 9*Y, pU0)
		reg("x.a.com", pU1, 2, pU0, pU1) // t=4, exp 2004
		rec("addRecord", "x.a.com", tTXT, 0, "t1", pU1)
		at(2004)
		add(nnsOp{Kind: "isAvailable", Name: "x.a.com"})
		rec("addRecord", "w.x.a.com", tTXT, 0, "t2", pU0)
		add(nnsOp{Kind: "isAvailable", Name: "x.a.com"})
		reg("x.a.com", pU2, 3600, pU0, pU2)
		reg("x.a.com", pU1, 3600, pU0, pU1)
		rec("deleteRecords", "w.x.a.com", tTXT, 0, "", pU0)
		add(nnsOp{Kind: "isAvailable", Name: "x.a.com"})
		reg("x.a.com", pU2, 3600, pU0, pU2)
		out = append(out, h)
		// 10: level 4 — the same one level down (token x.a.com, expired w.x.a.com,
		// record of v.w.x.a.com), re-registration through the contract owner
		start()
		reg("a.com", pU0, 9*Y, pU0)
		reg("x.a.com", pU1, 9*Y, pU0, pU1)
		reg("w.x.a.com", pU2, 2, pU1, pU2) // t=5, exp 2005
		at(2004)
		rec("addRecord", "v.w.x.a.com", tA, 0, "1.2.3.4", pU2) // exp-1: under w.x.a.com itself
		rec("addRecord", "v.w.x.a.com", tA, 0, "1.2.3.4", pU1) // exp: under x.a.com
		add(nnsOp{Kind: "isAvailable", Name: "w.x.a.com"})
		reg("w.x.a.com", pC, 3600, pU1, pC)
		rec("deleteRecords", "v.w.x.a.com", tA, 0, "", pU1)
		reg("w.x.a.com", pC, 3600, pU1, pC)
		add(nnsOp{Kind: "resolve", Name: "v.w.x.a.com", Typ: tA}) // the older record, under w.x.a.com again
		out = append(out, h)
		// 7: expiry hides the records, re-registration by somebody else shows them again
		start()
		reg("a.com", pU0, 2, pU0) // exp 2003
		rec("addRecord", "a.com", tTXT, 0, "t1", pU0)
		rec("addRecord", "x.a.com", tTXT, 0, "t2", pU0)
		at(2002)
		tick()
		tick()
		rec("addRecord", "a.com", tTXT, 0, "t3", pU0)
		reg("a.com", pU1, 3600, pU1)
		rec("addRecord", "a.com", tTXT, 0, "t3", pU1)
		out = append(out, h)
	}
	return out
}

// ---------------------------------------------------------------------------
// Monitors (search engines for a concrete failing input).

type nnsMon struct {
	prop    string
	st      *Stats
	readers []nnsOp
	book    *nnsBook            // spec book-keeping (before the op: roles; after: updated)
	owner   map[string]int      // replay of the Transfer notifications
	recs    map[string][]string // token|name|type byte -> data list (spec of C12)
	dupBy   map[string]bool     // keys whose duplicate was made by setRecord (F14)
	hist    []string
	deepSub int
}

func newNNSMon(prop string, st *Stats, readers []nnsOp) *nnsMon {
	return &nnsMon{prop: prop, st: st, readers: readers, book: newNNSBook(), owner: map[string]int{},
		recs: map[string][]string{}, dupBy: map[string]bool{}}
}

func (m *nnsMon) keys() []string {
	var ks []string
	for k, v := range m.recs {
		if len(v) > 0 {
			ks = append(ks, k)
		}
	}
	sort.Strings(ks)
	return ks
}

// conflict: a record kept under the token of the directly enclosing name
// whose name has `name` as a proper suffix (getParentConflictingRecord; the
// storage location does not depend on time). Returns that record's name.
func (m *nnsMon) conflict(name string) string {
	par := nnsParent(name)
	for _, k := range m.keys() {
		f := strings.Split(k, "|")
		if f[0] == par && len(f[1]) > len(name) && strings.HasSuffix(f[1], name) {
			return f[1]
		}
	}
	return ""
}

func (m *nnsMon) violate(f string, a ...any) { m.st.AddViolation(fmt.Sprintf(f, a...), m.hist) }

func (m *nnsMon) rd(ob *nnsObs, kind, name string, x int64) (nnsVal, bool) {
	for i, r := range m.readers {
		if r.Kind != kind {
			continue
		}
		switch kind {
		case "balanceOf", "tokensOf":
			if int64(r.Owner) == x {
				return ob.vals[i], true
			}
		case "getRecords", "resolve":
			if r.Name == name && r.Typ == x {
				return ob.vals[i], true
			}
		default:
			if r.Name == name {
				return ob.vals[i], true
			}
		}
	}
	return nnsVal{}, false
}

func has(xs []int, p int) bool {
	for _, x := range xs {
		if x == p {
			return true
		}
	}
	return false
}

func typByte(t int64) int64 { return ((t % 256) + 256) % 256 }

func rkeyOf(tok, name string, typ int64) string {
	return fmt.Sprintf("%s|%s|%d", tok, name, typByte(typ))
}

func isMutating(k string) bool {
	switch k {
	case "register", "registerTLD", "transfer", "renew", "setAdmin", "addRecord", "setRecord", "deleteRecords", "updateSOA", "setPrice":
		return true
	}
	return false
}

// authorised: the property text of C11, on the spec's book-keeping.
func (m *nnsMon) authorised(o nnsOp) bool {
	w := o.witnessed()
	b := m.book
	adminOf := func(tok string) bool {
		i := b.get(tok)
		if i.owner == ownNull {
			return has(w, pCmt)
		}
		return has(w, i.owner) || (i.admin != ownNull && has(w, i.admin))
	}
	switch o.Kind {
	case "registerTLD", "setPrice":
		return has(w, pCmt)
	case "addRecord", "setRecord", "deleteRecords":
		return adminOf(b.token(o.Name, o.T))
	case "updateSOA", "renew":
		return adminOf(o.Name)
	case "transfer":
		return has(w, b.get(o.Name).owner)
	case "setAdmin":
		return has(w, b.get(o.Name).owner) && (o.Owner == ownNull || has(w, o.Owner))
	case "register":
		if !has(w, o.Owner) {
			return false
		}
		if nnsLevel(o.Name) > 2 {
			return adminOf(nnsParent(o.Name))
		}
		return true
	}
	return true
}

func sameStrs(a, b []string) bool {
	if len(a) != len(b) {
		return false
	}
	for i := range a {
		if a[i] != b[i] {
			return false
		}
	}
	return true
}

func (m *nnsMon) step(o nnsOp, ob *nnsObs) {
	m.hist = append(m.hist, o.String())
	now := o.T
	effect := ob.halt && ob.retOK && isMutating(o.Kind)
	pre := map[string]nnsInfo{}
	for k, v := range m.book.info {
		pre[k] = *v
	}
	tokPre := m.book.token(strings.TrimSuffix(o.Name, "."), now)

	// ---- C11: effect => authorised (on the pre-state roles); no effect => nothing moved
	if effect && !m.authorised(o) {
		m.violate("C11: %s took effect without the required witnesses", o.String())
	}
	if !effect && len(ob.notifs) != 0 {
		m.violate("%s: refused/failed/safe call emitted notifications", o.String())
	}
	if !effect {
		// same instant, no effect: every safe method must answer exactly as before
		// (value or fault alike)
		for i, r := range m.readers {
			if ob.preVec[i] != ob.vec[i] {
				m.violate("%s without effect changed %s(%s,%d,%d): %s -> %s", o.String(), r.Kind, r.Name, r.Typ, r.Owner, ob.preVec[i], ob.vec[i])
			}
		}
	}

	// ---- notification replay (C10)
	nTransfer := 0
	for _, nt := range ob.notifs {
		if nt.kind == 0 {
			nTransfer++
			if cur, ok := m.owner[nt.name]; ok && cur != nt.from || !ok && nt.from != ownNull {
				m.violate("Transfer(%d,%d,%s): from is not the recorded owner", nt.from, nt.to, nt.name)
			}
			m.owner[nt.name] = nt.to
		}
	}
	wantT := 0
	if effect && (o.Kind == "register" || o.Kind == "transfer") {
		wantT = 1
	}
	if nTransfer != wantT {
		m.violate("%s: %d Transfer notifications, expected %d", o.String(), nTransfer, wantT)
	}

	// ---- spec of the records (C12), before the book is updated
	if effect {
		switch o.Kind {
		case "addRecord":
			k := rkeyOf(tokPre, o.Name, o.Typ)
			m.recs[k] = append(m.recs[k], o.Data)
		case "setRecord":
			k := rkeyOf(tokPre, o.Name, o.Typ)
			if int(o.ID) < len(m.recs[k]) && o.ID >= 0 {
				for j, d := range m.recs[k] {
					if int64(j) != o.ID && d == o.Data {
						m.dupBy[k] = true
					}
				}
				m.recs[k][o.ID] = o.Data
			} else {
				m.violate("C12: setRecord succeeded on an id the spec does not have: %s", o.String())
			}
		case "deleteRecords":
			// "never SOA", judged at one instant: no name observed loses an SOA
			// record between the state before the op (read at the op's
			// timestamp) and the state after it
			for i, r := range m.readers {
				if r.Kind != "getAllRecords" {
					continue
				}
				cnt := func(v nnsVal) int {
					n := 0
					for _, rc := range v.recs {
						if rc[1] == "6" {
							n++
						}
					}
					return n
				}
				if ob.preVals[i].ok && (!ob.vals[i].ok || cnt(ob.vals[i]) < cnt(ob.preVals[i])) {
					m.violate("C12: deleteRecords removed an SOA record of %s: %s", r.Name, o.String())
				}
			}
			k := rkeyOf(tokPre, o.Name, o.Typ)
			delete(m.recs, k)
			delete(m.dupBy, k)
		case "register":
			// judged on the state the call found (the spec of the records at the
			// op's instant, before this registration adds anything): first
			// registration and re-registration of an expired name alike
			if c := m.conflict(o.Name); c != "" {
				m.violate("%s: %s registered while the parent token holds records of %s", m.prop, o.String(), c)
			}
		}
	}
	m.book.update(o, *ob)
	b := m.book
	if effect && o.Kind == "register" && o.Expire <= 0 {
		// dead on arrival: its SOA record lands under the enclosing live token
		// (tokenIDFromName after the name state is written) and stays there
		if tok := b.token(o.Name, now); tok != o.Name {
			m.recs[rkeyOf(tok, o.Name, tSOA)] = []string{"<soa>"}
		}
	}

	// ---- C10: accounting
	if m.prop == "C10" {
		ts, _ := m.rd(ob, "totalSupply", "", 0)
		tk, _ := m.rd(ob, "tokens", "", 0)
		nonTLD := 0
		for _, n := range tk.strs {
			if nnsLevel(n) >= 2 {
				nonTLD++
			}
		}
		if ts.i.Int64() != int64(nonTLD) {
			m.violate("C10: totalSupply %v != %d non-TLD names registered", ts.i, nonTLD)
		}
		sum := int64(0)
		for _, p := range append(append([]int{}, nnsOwners...), pR) {
			bo, _ := m.rd(ob, "balanceOf", "", int64(p))
			to, _ := m.rd(ob, "tokensOf", "", int64(p))
			sum += bo.i.Int64()
			var want []string
			for n, ow := range m.owner {
				if ow == p && nnsLevel(n) >= 2 {
					want = append(want, n)
				}
			}
			sort.Strings(want)
			if !sameStrs(want, to.strs) {
				m.violate("C10: tokensOf(%d) = %v, Transfer replay says %v", p, to.strs, want)
			}
			if bo.i.Int64() != int64(len(to.strs)) {
				m.violate("C10: balanceOf(%d) = %v but tokensOf lists %d", p, bo.i, len(to.strs))
			}
		}
		if sum != ts.i.Int64() {
			m.violate("C10: sum of balances %d != totalSupply %v", sum, ts.i)
		}
		for _, nm := range nnsValidNames() {
			if nnsLevel(nm) < 2 {
				continue
			}
			ow, _ := m.rd(ob, "ownerOf", nm, 0)
			pr, _ := m.rd(ob, "properties", nm, 0)
			av, _ := m.rd(ob, "isAvailable", nm, 0)
			live := b.chainLive(nm, now)
			if ow.ok != live || pr.ok != live {
				m.violate("C10: ownerOf/properties(%s) readable=%v/%v but live chain=%v", nm, ow.ok, pr.ok, live)
			}
			if ow.ok && ow.addr != m.owner[nm] {
				m.violate("C10: ownerOf(%s)=%d, Transfer replay says %d", nm, ow.addr, m.owner[nm])
			}
			if pr.ok && pr.i.Uint64() != b.get(nm).exp {
				m.violate("C10: properties(%s).expiration=%v, spec %d", nm, pr.i, b.get(nm).exp)
			}
			if pr.ok && pr.padmin != b.get(nm).admin {
				m.violate("C10: properties(%s).admin=%d, spec %d", nm, pr.padmin, b.get(nm).admin)
			}
			if b.chainLive(nnsParent(nm), now) && b.root[nm[strings.LastIndexByte(nm, '.')+1:]] {
				if live && (!av.ok || av.b) {
					m.violate("C10: %s is live but isAvailable is not false", nm)
				}
				cf := m.conflict(nm)
				if !live && cf == "" && (!av.ok || !av.b) {
					m.violate("C10: %s is unregistered/expired under a live parent but isAvailable is not true", nm)
				}
				if !live && cf != "" && (!av.ok || av.b) {
					m.violate("C10: isAvailable(%s) is not false although the parent token holds records of %s", nm, cf)
				}
			}
		}
		if effect {
			switch o.Kind {
			case "transfer":
				p0 := pre[o.Name]
				i := b.get(o.Name)
				if i.exp != p0.exp {
					m.violate("C10: transfer changed the expiration")
				}
			case "renew":
				p0 := pre[o.Name]
				want := p0.exp + uint64(o.Years*msYear)
				if o.Years < 1 || o.Years > 10 || ob.retInt.Uint64() != want {
					m.violate("C10: renew(%d) gave %v, expected %d", o.Years, ob.retInt, want)
				}
				if nnsLevel(o.Name) >= 2 && want > now+uint64(10*msYear) {
					m.violate("C10: renew beyond ten years ahead")
				}
			case "register":
				p0 := pre[o.Name]
				if p0.registered && now < p0.exp {
					m.violate("C10: register succeeded on a live name")
				}
			}
		}
	}

	// ---- C12: the read paths against the spec
	if m.prop == "C12" {
		var follow func(name string, typ int64, budget int) ([]string, bool)
		follow = func(name string, typ int64, budget int) ([]string, bool) {
			if budget < 0 {
				return nil, false
			}
			name = strings.TrimSuffix(name, ".")
			valid := false
			for _, nn := range nnsNames {
				if nn.s == name && nn.valid {
					valid = true
				}
			}
			tok := b.token(name, now)
			if !valid || nnsLevel(tok) < 2 || !b.chainLive(tok, now) {
				return nil, false
			}
			res := append([]string{}, m.recs[rkeyOf(tok, name, typ)]...)
			cn := m.recs[rkeyOf(tok, name, tCNAME)]
			if len(cn) == 0 || typ == tCNAME {
				return res, true
			}
			r2, ok := follow(cn[len(cn)-1], typ, budget-1)
			return append(res, r2...), ok
		}
		for i, r := range m.readers {
			v := ob.vals[i]
			nm := strings.TrimSuffix(r.Name, ".")
			tok := b.token(nm, now)
			live := nnsLevel(tok) >= 2 && b.chainLive(tok, now)
			switch r.Kind {
			case "getRecords":
				if !live && v.ok {
					m.violate("C12: getRecords(%s) answers although the token %s is not live", r.Name, tok)
				}
				if live && !v.ok {
					m.violate("C12: getRecords(%s,%d) faults although the token %s is live", r.Name, r.Typ, tok)
				}
				if v.ok && r.Typ != tSOA {
					k := rkeyOf(tok, nm, r.Typ)
					want := m.recs[k]
					if !sameStrs(want, v.strs) {
						m.violate("C12: getRecords(%s,%d) = %q, spec %q", r.Name, r.Typ, v.strs, want)
					}
					if len(v.strs) > 16 || r.Typ == tCNAME && len(v.strs) > 1 {
						m.violate("C12: too many records for %s type %d: %d", r.Name, r.Typ, len(v.strs))
					}
					seen := map[string]bool{}
					for _, d := range v.strs {
						if seen[d] {
							m.violate("C12: duplicate value %q for %s type %d (made by setRecord: %v)", d, r.Name, r.Typ, m.dupBy[k])
						}
						seen[d] = true
					}
				}
			case "isAvailable":
				if v.ok && v.b && (b.chainLive(nm, now) || m.conflict(nm) != "") {
					m.violate("C12: isAvailable(%s) = true although it is live or the parent token holds records of %q", nm, m.conflict(nm))
				}
				if v.ok && !v.b && !b.chainLive(nm, now) && m.conflict(nm) == "" {
					m.violate("C12: isAvailable(%s) = false although it is not live and no parent record conflicts", nm)
				}
			case "resolve":
				want, ok := follow(r.Name, r.Typ, 2)
				if ok != v.ok {
					m.violate("C12: resolve(%s,%d) halts=%v, spec %v", r.Name, r.Typ, v.ok, ok)
				} else if ok && r.Typ != tSOA && !sameStrs(want, v.strs) {
					m.violate("C12: resolve(%s,%d) = %q, spec %q", r.Name, r.Typ, v.strs, want)
				}
			case "getAllRecords":
				if !live && v.ok {
					m.violate("C12: getAllRecords(%s) answers although the token is not live", r.Name)
				}
				if live && !v.ok {
					m.violate("C12: getAllRecords(%s) faults although the token %s is live", r.Name, tok)
				}
				if nnsLevel(nm) >= nnsLevel(tok)+2 && v.ok {
					m.deepSub++ // names two or more levels below their token are readable (fix 8bee9c1)
				}
				if v.ok {
					// same content as the per-type lists, ordered by type then id
					var flat []string
					for _, ty := range []int64{tA, tCNAME, tTXT, tAAAA} {
						flat = append(flat, m.recs[rkeyOf(tok, nm, ty)]...)
					}
					var got []string
					lastT, lastID := int64(-1), int64(-1)
					for _, rc := range v.recs {
						ty, _ := new(big.Int).SetString(rc[1], 10)
						id, _ := new(big.Int).SetString(rc[3], 10)
						if ty.Int64() < lastT || ty.Int64() == lastT && id.Int64() != lastID+1 || ty.Int64() != lastT && id.Int64() != 0 {
							m.violate("C12: getAllRecords(%s) ids not contiguous/ordered: %v", r.Name, v.recs)
						}
						lastT, lastID = ty.Int64(), id.Int64()
						if rc[0] != nm {
							m.violate("C12: getAllRecords(%s) returned a record of %s", r.Name, rc[0])
						}
						if ty.Int64() != tSOA {
							got = append(got, rc[2])
						}
					}
					if !sameStrs(flat, got) {
						m.violate("C12: getAllRecords(%s) = %q, spec %q", r.Name, got, flat)
					}
					// SOA serial after a record mutation
					if effect && nm == tokPre && (o.Kind == "addRecord" || o.Kind == "setRecord" || o.Kind == "deleteRecords") {
						okSerial := false
						for _, rc := range v.recs {
							if rc[1] == "6" {
								f := strings.Fields(rc[2])
								okSerial = len(f) == 7 && f[2] == fmt.Sprint(now)
							}
						}
						if !okSerial {
							m.violate("C12: SOA serial of %s not refreshed by %s", nm, o.String())
						}
					}
				}
			}
		}
	}
}

// ---------------------------------------------------------------------------

func nnsDataValid(typ int64, s string) bool {
	for _, d := range nnsDatas {
		if d.typ == typ && d.s == s {
			return d.valid
		}
	}
	return typ == tTXT && len(s) <= 255
}

func runNNSFamily(t *testing.T, prop string) {
	st := NewStats(prop)
	st.Rule = "histories = hand-written corpus + seeded generation over 2 TLDs, 12 names at levels 2-4, 3 key owners + 1 contract owner + the committee account + a refusing contract, " +
		"signer roles {owner, admin, former owner, former admin, parent owner, stranger, committee, none}, block time stepping over exp-1/exp/exp+1; " +
		"non-trivial = history contains at least one accepted mutation and at least one refusal/fault; distinct = by the canonical op/outcome string"
	pool := NewPool("n")
	lit := nnsLit{pool: pool}
	readers := nnsReaders(prop)
	nh, maxOps := 48, 34
	switch prop {
	case "C12":
		nh, maxOps = 18, 32
	}
	if Tier() == "thorough" {
		nh, maxOps = nh*10, 60
	}
	var cases []string
	usedData := map[string]bool{}
	var dataTable []string
	distinct := map[string]bool{}
	reasons := map[string]int{}
	cmtSizes := map[int]int{}
	deep := 0
	run := func(hidx int, ncmt int, corpus []nnsOp) {
		n := newNNSEnvN(t, ncmt)
		lit.n = n
		base := n.now
		cmtSizes[n.ncmt]++
		g := &nnsGen{r: Rng(int64(hidx) + 7777), prop: prop, book: nil, now: base, ncmt: n.ncmt}
		mon := newNNSMon(prop, st, readers)
		g.book = mon.book
		g.mon = mon
		nops := len(corpus)
		if corpus == nil {
			nops = 8 + Rng(int64(hidx)).Intn(maxOps-7)
			if (prop == "C12" || prop == "C10") && hidx%3 == 0 {
				g.scn = true
				if nops < 20 {
					nops = 20
				}
			}
		}
		var steps []string
		var prevVec []string
		var sig strings.Builder
		accepted, refused := false, false
		for i := 0; i < nops; i++ {
			var o nnsOp
			if corpus != nil {
				o = corpus[i]
				o.T += base
			} else {
				g.now = n.now
				o = g.next(i)
				if i > 5 {
					o = g.respell(o)
				}
			}
			o.Signers = n.canonSigners(o.Signers)
			if o.Kind == "addRecord" || o.Kind == "setRecord" {
				k := fmt.Sprintf("%d|%s", o.Typ, o.Data)
				if !usedData[k] {
					usedData[k] = true
					if nnsDataValid(o.Typ, o.Data) {
						dataTable = append(dataTable, fmt.Sprintf("(%s, %s)", ZI(o.Typ), lit.str(o.Data)))
					}
				}
			}
			ob := n.exec(lit, o, readers)
			mon.step(o, &ob)
			if os.Getenv("VERIF_NNS_TRACE") != "" && hidx < 0 {
				ga := ""
				if v, ok := mon.rd(&ob, "getAllRecords", o.Name, 0); ok {
					ga = fmt.Sprintf(" getAllRecords=%v %q", v.ok, v.recs)
				}
				fmt.Printf("[%d] %s -> halt=%v ret=%s %s%s\n", hidx, o.String(), ob.halt, ob.ret, ob.fault, ga)
			}
			steps = append(steps, fmt.Sprintf("((%s, %s), %s)", lit.ctx(o), lit.opt(o), lit.obs(ob, prevVec)))
			prevVec = ob.vec
			st.Evaluations++
			st.OpHistogram[o.Kind]++
			oc := "halt"
			if !ob.halt {
				oc = "fault"
			} else if !ob.retOK {
				oc = "false"
			}
			if isMutating(o.Kind) {
				if oc == "halt" {
					accepted = true
				} else {
					refused = true
				}
			}
			st.OutcomeHistogram[o.Kind+"/"+oc]++
			if !ob.halt {
				msg := ob.fault
				if i := strings.LastIndex(msg, "unhandled exception: "); i >= 0 {
					msg = msg[i+21:]
				}
				if len(msg) > 48 {
					msg = msg[:48]
				}
				reasons[o.Kind+": "+msg]++
			}
			fmt.Fprintf(&sig, "%s:%s:%s:%v:%d;", o.Kind, o.Name, oc, o.Signers, o.Via)
		}
		st.Histories++
		deep += mon.deepSub
		if accepted && refused {
			distinct[sig.String()] = true
		}
		cases = append(cases, ListLit(steps))
		if len(st.Samples) < 3 && (hidx == -1 || hidx == 0 || hidx == 1) {
			hs := mon.hist
			if len(hs) > 10 {
				hs = append(append([]string{}, hs[:10]...), "...")
			}
			st.Samples = append(st.Samples, hs)
		}
	}
	for ci, h := range nnsCorpus(prop) {
		run(-1-ci, h.N, h.Ops)
	}
	for h := 0; h < nh; h++ {
		// part of the histories on chains with committees of 4 and of 3 keys:
		// n/2+1 differs from (n+1)/2 for even n, from 2n/3+1 for n = 3
		ncmt := 1
		switch {
		case prop == "C11" && h%3 == 1, prop == "C10" && h%5 == 1:
			ncmt = 4
		case prop == "C11" && h%3 == 2, prop == "C10" && h%5 == 3:
			ncmt = 3
		}
		run(h, ncmt, nil)
	}
	st.Extra["histories_by_committee_size"] = cmtSizes
	st.DistinctNontrivial = len(distinct)
	st.Extra["readers_per_step"] = len(readers)
	st.Extra["fault_reasons"] = reasons
	st.Extra["deep_subname_reads"] = deep

	var hd strings.Builder
	hd.WriteString("From Verif Require Import Base.Prelude Model.NNS.\nLocal Open Scope Z_scope.\n")
	for i := 0; i < nPrincipals; i++ {
		fmt.Fprintf(&hd, "Definition p%d : bytes := %s.\n", i, BytesLit(symAddr(i)))
	}
	hd.WriteString("Definition pbad : bytes := [1;2;3;4;5]%N.\nDefinition punknown : bytes := [255]%N.\n")
	var vn []string
	for _, s := range append(nnsValidNames(), nnsExtraValid...) {
		vn = append(vn, lit.str(s))
	}
	var rds []string
	for _, r := range readers {
		rds = append(rds, lit.opt(r))
	}
	footer := "Definition valid_names : list bytes := " + ListLit(vn) + ".\n" +
		"Definition valid_datas : list (Z * bytes) := " + ListLit(dataTable) + ".\n" +
		"Definition vname (b : bytes) : bool := existsb (bytes_eqb b) valid_names.\n" +
		"Definition vdata (t : Z) (d : bytes) : bool := existsb (fun td : Z * bytes => (fst td =? t) && bytes_eqb (snd td) d) valid_datas.\n" +
		"(* std.StringSplit accepts ASCII strings (<= 1024 bytes); the only non-ASCII byte the generator uses is 0xFF, never valid UTF-8 *)\n" +
		"Definition sok (b : bytes) : bool := forallb (fun c => N.ltb c 128) b.\n" +
		"Definition readers : list nop := " + ListLit(rds) + ".\n" +
		"Definition check_case (c : list ((nctx * nop) * val)) :=\n  run_case (nstep_obs (fun x => x) vname vdata sok readers) (ninit, []) 0 c.\n" +
		"Definition M := Eval vm_compute in failures_from 0 (map check_case cases).\nPrint M.\n"
	// several files (the driver evaluates them in parallel); each carries the whole pool
	const chunk = 8
	for k := 0; k*chunk < len(cases); k++ {
		hi := (k + 1) * chunk
		if hi > len(cases) {
			hi = len(cases)
		}
		cf := &CasesFile{Pool: pool, Header: hd.String(), Cases: cases[k*chunk : hi], Footer: footer}
		name := fmt.Sprintf("/cases_%s_%d.v", prop, k)
		if k == 0 {
			name = "/cases_" + prop + ".v"
		}
		require.NoError(t, cf.Write(OutDir()+name))
	}
	st.Extra["cases_files"] = (len(cases) + chunk - 1) / chunk
	st.Write()
}

func TestC10(t *testing.T) { runNNSFamily(t, "C10") }
func TestC11(t *testing.T) { runNNSFamily(t, "C11") }
func TestC12(t *testing.T) { runNNSFamily(t, "C12") }
