package harness

import (
	"bytes"
	"crypto/sha256"
	"fmt"
	"math/big"
	"math/rand"
	"os"
	"sort"
	"strings"
	"testing"

	"github.com/nspcc-dev/neo-go/pkg/core/block"
	"github.com/nspcc-dev/neo-go/pkg/core/interop/storage"
	"github.com/nspcc-dev/neo-go/pkg/core/native/nativenames"
	"github.com/nspcc-dev/neo-go/pkg/core/transaction"
	"github.com/nspcc-dev/neo-go/pkg/crypto/keys"
	"github.com/nspcc-dev/neo-go/pkg/neotest"
	"github.com/nspcc-dev/neo-go/pkg/smartcontract/callflag"
	"github.com/nspcc-dev/neo-go/pkg/smartcontract/trigger"
	"github.com/nspcc-dev/neo-go/pkg/util"
	"github.com/nspcc-dev/neo-go/pkg/vm/stackitem"
	"github.com/nspcc-dev/neo-go/pkg/wallet"
	"github.com/stretchr/testify/require"
)

// ---------------------------------------------------------------------------
// NNS family: C10 (ownership lifecycle / NEP-11 accounting), C11
// (authorisation), C12 (records and resolution). One executor, three
// generators / reader lists / monitors, one Coq model (Model/NNS.v).
//
// Conventions (premises of the model):
//   - every transaction is sent and paid by a "payer" account that never owns
//     or administers anything; the other signers only witness (Global scope);
//   - every operation is one transaction in its own block whose timestamp the
//     harness chooses; the safe methods are then evaluated by test invocations
//     in a block header carrying the same timestamp;
//   - principals are written to Coq under fixed symbolic 20-byte addresses
//     (injective renaming of script hashes; the model only compares them);
//   - keys are derived from fixed seeds.

const (
	pU0 = iota
	pU1
	pU2
	pC   // contract that accepts NEP-11 payments (testdata/nnsowner)
	pCmt // committee multi-signature account
	pR   // contract without onNEP11Payment (testdata/caller)
	pPayer
	// on chains with a committee of n > 1 keys (NewEnvN): multisig accounts
	// over the very committee keys that are NOT the committee account of
	// checkCommittee (unless their threshold coincides, see canon)
	pHalf   // n/2-of-n (even n), (n-1)/2-of-n (odd n)
	pAlpha  // 2n/3+1-of-n
	pMember // a single committee member
	pF      // receiver contract that calls back into NNS from onNEP11Payment (testdata/nnsfwd)
	pCmt2   // the committee account after a re-election (rotate); pCmt stays the account of the first committee
	nPrincipals
)

const (
	ownNull = -1 // Null argument
	ownBad  = -2 // 5-byte argument
)

const (
	tA     = 1
	tCNAME = 5
	tSOA   = 6
	tTXT   = 16
	tAAAA  = 28
)

const msYear = int64(365 * 24 * 3600 * 1000)

type nnsEnv struct {
	*Env
	nns     util.Uint160
	payer   neotest.Signer
	signers [nPrincipals]neotest.Signer // nil for contracts
	hashes  [nPrincipals]util.Uint160
	txCache map[string]*transaction.Transaction
	cmtNow  int              // principal that is the committee account now (pCmt, after rotate pCmt2)
	ncmt    int              // committee size
	canon   [nPrincipals]int // accounts with equal script hash are one principal
	now     uint64
}

func nnsKey(i int) *wallet.Account {
	h := sha256.Sum256([]byte(fmt.Sprintf("verif-nns-key-%d", i)))
	pk, err := keys.NewPrivateKeyFromBytes(h[:])
	if err != nil {
		panic(err)
	}
	return wallet.NewAccountFromPrivateKey(pk)
}

func newNNSEnv(t testing.TB) *nnsEnv { return newNNSEnvN(t, 1) }

// newNNSEnvN: committee of ncmt keys. The committee account of the property
// (and of the model's context) is the n/2+1-of-n multisig of neo.GetCommittee().
func newNNSEnvN(t testing.TB, ncmt int) *nnsEnv {
	var v *Env
	var vn *EnvN
	if ncmt <= 1 {
		ncmt = 1
		v = NewEnv(t)
	} else {
		vn = NewEnvN(t, ncmt)
		v = vn.Env
	}
	e := v.E
	n := &nnsEnv{Env: v, ncmt: ncmt, cmtNow: pCmt}
	gas, err := e.Chain.GetNativeContractScriptHash(nativenames.Gas)
	require.NoError(t, err)
	n.payer = neotest.NewSingleSigner(nnsKey(100))
	tx := e.NewUnsignedTx(t, gas, "transfer", e.Validator.ScriptHash(), n.payer.ScriptHash(), int64(900000_0000_0000), nil)
	e.SignTx(t, tx, 1_0000_0000, e.Validator)
	e.AddNewBlock(t, tx)
	e.CheckHalt(t, tx.Hash())

	var fund []*transaction.Transaction
	for i := pU0; i <= pU2; i++ {
		ftx := e.NewUnsignedTx(t, gas, "transfer", e.Validator.ScriptHash(), neotest.NewSingleSigner(nnsKey(i)).ScriptHash(), int64(9000_0000_0000), nil)
		fund = append(fund, e.SignTx(t, ftx, 1_0000_0000, e.Validator))
	}
	e.AddNewBlock(t, fund...)
	for _, ftx := range fund {
		e.CheckHalt(t, ftx.Hash())
	}

	ctr := v.Compile("nns")
	e.DeployContract(t, ctr, nil) // as tests/nns_test.go newNNSInvoker without TLD set
	n.nns = ctr.Hash
	co := v.CompileHelper("nnsowner")
	e.DeployContract(t, co, nil)
	cr := v.CompileHelper("caller")
	e.DeployContract(t, cr, nil)
	cf := v.CompileHelper("nnsfwd")
	e.DeployContract(t, cf, nil)

	for i := pU0; i <= pU2; i++ {
		n.signers[i] = neotest.NewSingleSigner(nnsKey(i))
		n.hashes[i] = n.signers[i].ScriptHash()
	}
	n.hashes[pC] = co.Hash
	n.hashes[pR] = cr.Hash
	n.hashes[pF] = cf.Hash
	n.signers[pCmt] = e.Committee
	n.hashes[pCmt] = e.CommitteeHash
	n.signers[pPayer] = n.payer
	n.hashes[pPayer] = n.payer.ScriptHash()
	if vn != nil {
		half := ncmt / 2
		if ncmt%2 == 1 {
			half = (ncmt - 1) / 2
		}
		require.Equal(t, vn.Majority.ScriptHash(), e.CommitteeHash)
		n.signers[pHalf] = MultiSignerOf(half, vn.Keys)
		n.signers[pAlpha] = vn.Alphabet
		n.signers[pMember] = neotest.NewSingleSigner(wallet.NewAccountFromPrivateKey(vn.Keys[0]))
		for _, i := range []int{pHalf, pAlpha, pMember} {
			n.hashes[i] = n.signers[i].ScriptHash()
		}
	}
	for i := range n.canon {
		n.canon[i] = i
		for j := 0; j < i; j++ {
			if n.signers[i] != nil && n.hashes[j] == n.hashes[i] {
				n.canon[i] = j
				break
			}
		}
	}
	n.now = e.TopBlock(t).Timestamp
	return n
}

// rotate re-elects the one-member committee of a single-validator chain (the
// recipe of balance_test.go rotateCommittee): a new candidate gets the NEO
// votes, neo.GetCommittee() changes, and so does the account checkCommittee
// asks for. The first committee's account stays principal pCmt ("former
// committee"), the new one is pCmt2. Several blocks pass.
func (n *nnsEnv) rotate() {
	t, e := n.T, n.E
	require.Equal(t, 1, n.ncmt)
	require.Equal(t, pCmt, n.cmtNow, "one rotation per history")
	neoInv := e.ValidatorInvoker(e.NativeHash(t, nativenames.Neo))
	gasInv := e.ValidatorInvoker(e.NativeHash(t, nativenames.Gas))
	candAcc, voterAcc := nnsKey(200), nnsKey(201)
	cand, voter := neotest.NewSingleSigner(candAcc), neotest.NewSingleSigner(voterAcc)
	gasInv.Invoke(t, true, "transfer", e.Validator.ScriptHash(), cand.ScriptHash(), int64(2000_0000_0000), nil)
	gasInv.Invoke(t, true, "transfer", e.Validator.ScriptHash(), voter.ScriptHash(), int64(10_0000_0000), nil)
	candPub := candAcc.PublicKey()
	neoInv.Invoke(t, true, "transfer", e.Validator.ScriptHash(), voter.ScriptHash(), 60_000_000, nil)
	neoInv.WithSigners(cand).Invoke(t, true, "registerCandidate", candPub.Bytes())
	neoInv.WithSigners(voter).Invoke(t, true, "vote", voter.ScriptHash(), candPub.Bytes())
	e.GenerateNewBlocks(t, 2)
	newAcc := wallet.NewAccountFromPrivateKey(candAcc.PrivateKey())
	require.NoError(t, newAcc.ConvertMultisig(1, keys.PublicKeys{candPub}))
	newCmt := neotest.NewMultiSigner(newAcc)
	require.NotEqual(t, n.hashes[pCmt], newCmt.ScriptHash())
	n.signers[pCmt2] = newCmt
	n.hashes[pCmt2] = newCmt.ScriptHash()
	n.cmtNow = pCmt2
	n.now = e.TopBlock(t).Timestamp
}

// canonSigners replaces aliases (e.g. 2n/3+1 = n/2+1 for n = 4) by the
// principal they coincide with and drops accounts this chain does not have.
func (n *nnsEnv) canonSigners(sg []int) []int {
	var out []int
	for _, i := range sg {
		if n.signers[i] == nil {
			continue
		}
		i = n.canon[i]
		if !has(out, i) {
			out = append(out, i)
		}
	}
	sort.Ints(out)
	return out
}

// symbolic address of principal i as written to Coq
func symAddr(i int) []byte { return bytes.Repeat([]byte{byte(0x11 * (i + 1))}, 20) }

func (n *nnsEnv) principalOf(b []byte) int {
	for i := 0; i < nPrincipals; i++ {
		if (i < pHalf || i == pF || n.signers[i] != nil) && bytes.Equal(b, n.hashes[i].BytesBE()) {
			return i
		}
	}
	return -100
}

type nnsOp struct {
	Kind    string `json:"kind"`
	Name    string `json:"name,omitempty"`
	Owner   int    `json:"owner,omitempty"` // principal index, ownNull, ownBad (register owner, transfer to, setAdmin admin, balanceOf owner)
	Email   string `json:"email,omitempty"`
	Refresh int64  `json:"refresh,omitempty"`
	Retry   int64  `json:"retry,omitempty"`
	Expire  int64  `json:"expire,omitempty"`
	TTL     int64  `json:"ttl,omitempty"`
	Years   int64  `json:"years,omitempty"`
	Typ     int64  `json:"typ,omitempty"`
	ID      int64  `json:"id,omitempty"`
	Data    string `json:"data,omitempty"`
	Price   int64  `json:"price,omitempty"`
	Signers []int  `json:"signers"`           // principals that sign besides the payer
	Via     int    `json:"via,omitempty"`     // 0 = direct, pC / pR = through that contract
	T       uint64 `json:"t"`                 // block timestamp (ms)
	Cmt     int    `json:"cmt,omitempty"`     // principal that is the committee account at the op's time
	Sponsor int    `json:"sponsor,omitempty"` // 1+principal that is the transaction's Sender with witness scope None (fee only, not a witness); 0 = the payer sends
	Entry   bool   `json:"entry,omitempty"`   // the signers (not the payer) sign with scope CalledByEntry: witnesses only when NNS is called directly
	Mode    int    `json:"mode,omitempty"`    // transfer to pF: what its onNEP11Payment does (1 forward to Dest, 2 send back, 3 read and record, 4 refuse)
	Dest    int    `json:"dest,omitempty"`    // Mode 1: the account the name is forwarded to
	OneArg  bool   `json:"onearg,omitempty"`  // renew: the one-argument overload renew(name) (= one year)
}

func (o nnsOp) String() string {
	var a []string
	switch o.Kind {
	case "register":
		a = []string{o.Name, fmt.Sprint("owner=", o.Owner), fmt.Sprintf("email=%q", o.Email), fmt.Sprint("expire=", o.Expire)}
	case "registerTLD", "updateSOA":
		a = []string{o.Name, fmt.Sprintf("email=%q", o.Email), fmt.Sprint("expire=", o.Expire)}
	case "transfer":
		a = []string{fmt.Sprint("to=", o.Owner), o.Name}
	case "renew":
		a = []string{o.Name, fmt.Sprint(o.Years)}
		if o.OneArg {
			a = []string{o.Name} // renew/1
		}
	case "setAdmin":
		a = []string{o.Name, fmt.Sprint("admin=", o.Owner)}
	case "addRecord":
		a = []string{o.Name, fmt.Sprint(o.Typ), fmt.Sprintf("%q", o.Data)}
	case "setRecord":
		a = []string{o.Name, fmt.Sprint(o.Typ), fmt.Sprint(o.ID), fmt.Sprintf("%q", o.Data)}
	case "deleteRecords", "getRecords", "resolve":
		a = []string{o.Name, fmt.Sprint(o.Typ)}
	case "setPrice":
		a = []string{fmt.Sprint(o.Price)}
	case "balanceOf", "tokensOf":
		a = []string{fmt.Sprint(o.Owner)}
	default:
		if o.Name != "" {
			a = []string{o.Name}
		}
	}
	via := ""
	if o.Via != 0 {
		via = fmt.Sprintf(" via=%d", o.Via)
	}
	if o.Mode != 0 {
		via += fmt.Sprintf(" data=[mode %d, %d]", o.Mode, o.Dest)
	}
	if o.Sponsor != 0 {
		via += fmt.Sprintf(" sender(scope None)=%d", o.Sponsor-1)
	}
	if o.Entry {
		via += " scope=CalledByEntry"
	}
	return fmt.Sprintf("t=%d %s(%s) signers=%v%s", o.T, o.Kind, strings.Join(a, ","), o.Signers, via)
}

func (n *nnsEnv) addrArg(i int) any {
	switch i {
	case ownNull:
		return nil
	case ownBad:
		return []byte{1, 2, 3, 4, 5}
	}
	return n.hashes[i]
}

func (n *nnsEnv) args(o nnsOp) []any {
	switch o.Kind {
	case "register":
		return []any{o.Name, n.addrArg(o.Owner), o.Email, o.Refresh, o.Retry, o.Expire, o.TTL}
	case "registerTLD", "updateSOA":
		return []any{o.Name, o.Email, o.Refresh, o.Retry, o.Expire, o.TTL}
	case "transfer":
		if o.Mode != 0 {
			return []any{n.addrArg(o.Owner), o.Name, []any{o.Mode, n.addrArg(o.Dest)}}
		}
		return []any{n.addrArg(o.Owner), o.Name, nil}
	case "renew":
		if o.OneArg {
			return []any{o.Name} // the overload with one argument: one year
		}
		return []any{o.Name, o.Years}
	case "setAdmin":
		return []any{o.Name, n.addrArg(o.Owner)}
	case "addRecord":
		return []any{o.Name, o.Typ, o.Data}
	case "setRecord":
		return []any{o.Name, o.Typ, o.ID, o.Data}
	case "deleteRecords", "getRecords", "resolve":
		return []any{o.Name, o.Typ}
	case "setPrice":
		return []any{o.Price}
	case "isAvailable", "ownerOf", "properties", "getAllRecords":
		return []any{o.Name}
	case "balanceOf", "tokensOf":
		return []any{n.addrArg(o.Owner)}
	case "tokens", "totalSupply", "roots", "getPrice":
		return nil
	}
	panic(o.Kind)
}

type nnsNotif struct {
	kind     int // 0 Transfer, 1 SetAdmin, 2 Renew
	from, to int // principal or ownNull
	name     string
	old, new *big.Int
}

type nnsObs struct {
	halt   bool
	ret    string // Coq val
	retOK  bool   // halted and (bool result true or non-bool)
	retInt *big.Int
	notifs []nnsNotif
	vec    []string // reader results (Coq vals)
	vals   []nnsVal // the same, parsed
	// the same readers evaluated on the state BEFORE the op, in a header with
	// the op's own timestamp: every before/after rule of the monitors compares
	// two states at ONE instant, so the passage of time between two blocks
	// (expiry of a name or of an enclosing name) is never mistaken for an
	// effect of the op
	preVec  []string
	preVals []nnsVal
	rv      nnsVal // parsed return value
	fault   string
}

func (n *nnsEnv) itemAddr(it stackitem.Item) int {
	if _, ok := it.(stackitem.Null); ok {
		return ownNull
	}
	b, err := it.TryBytes()
	if err != nil {
		return -100
	}
	return n.principalOf(b)
}

// invoke executes the op as one transaction in a block with timestamp o.T.
func (n *nnsEnv) invoke(o nnsOp) Result {
	e := n.E
	var tx *transaction.Transaction
	if o.Via != 0 {
		tx = e.NewUnsignedTx(n.T, n.hashes[o.Via], "call", n.nns, o.Kind, n.args(o))
	} else {
		tx = e.NewUnsignedTx(n.T, n.nns, o.Kind, n.args(o)...)
	}
	var sg []neotest.Signer
	add := func(x neotest.Signer, scope transaction.WitnessScope) {
		tx.Signers = append(tx.Signers, transaction.Signer{Account: x.ScriptHash(), Scopes: scope})
		sg = append(sg, x)
	}
	if o.Sponsor != 0 {
		add(n.signers[o.Sponsor-1], transaction.None) // the Sender: pays, witnesses nothing
	}
	add(n.payer, transaction.Global)
	scope := transaction.Global
	if o.Entry {
		scope = transaction.CalledByEntry
	}
	for _, i := range o.Signers {
		add(n.signers[i], scope)
	}
	neotest.AddNetworkFee(n.T, n.BC, tx, sg...)
	tx.SystemFee = 60_0000_0000
	for _, x := range sg {
		require.NoError(n.T, x.SignTx(n.BC.GetConfig().Magic, tx))
	}
	b := e.NewUnsignedBlock(n.T, tx)
	require.Greater(n.T, o.T, n.now, "timestamps must grow")
	b.Timestamp = o.T
	e.SignBlock(b)
	require.NoError(n.T, e.Chain.AddBlock(b))
	n.now = o.T
	return n.ResultOf(tx, b)
}

// readAt evaluates a safe method in a block header with timestamp ts.
func (n *nnsEnv) readAt(ts uint64, o nnsOp) (stackitem.Item, bool) {
	tx := n.E.NewUnsignedTx(n.T, n.nns, o.Kind, n.args(o)...)
	b := n.E.NewUnsignedBlock(n.T, tx)
	b.Timestamp = ts
	return n.runRead(tx, b)
}

func (n *nnsEnv) runRead(tx *transaction.Transaction, b *block.Block) (stackitem.Item, bool) {
	ic, err := n.BC.GetTestVM(trigger.Application, tx, b)
	require.NoError(n.T, err)
	defer ic.Finalize()
	ic.VM.LoadWithFlags(tx.Script, callflag.All)
	if err = ic.VM.Run(); err != nil {
		return nil, false
	}
	if ic.VM.Estack().Len() == 0 {
		return stackitem.Null{}, true
	}
	return expandIterators(ic.VM.Estack().Pop().Item()), true
}

type nnsLit struct {
	pool *Pool
	n    *nnsEnv
}

func (l nnsLit) str(s string) string { return l.pool.Ref([]byte(s)) }
func (l nnsLit) vstr(s string) string {
	return VBytesRef(l.pool.Ref([]byte(s)))
}
func (l nnsLit) addrOpt(i int) string {
	switch i {
	case ownNull:
		return "None"
	case ownBad:
		return "(Some pbad)"
	}
	return fmt.Sprintf("(Some p%d)", i)
}
func (l nnsLit) vaddr(i int) string {
	if i == ownNull {
		return VNull
	}
	if i < 0 {
		return "VBytes punknown"
	}
	return fmt.Sprintf("VBytes p%d", i)
}

// nnsVal is a parsed result of an NNS method.
type nnsVal struct {
	ok     bool // halted
	b      bool
	i      *big.Int
	addr   int
	strs   []string
	pname  string
	padmin int
	recs   [][4]string // name, type, data, id
}

func (n *nnsEnv) parse(kind string, it stackitem.Item) nnsVal {
	v := nnsVal{ok: true}
	arr := func() []stackitem.Item {
		if _, ok := it.(stackitem.Null); ok {
			return nil
		}
		a, ok := it.Value().([]stackitem.Item)
		if !ok {
			return nil
		}
		return a
	}
	switch kind {
	case "register", "transfer", "isAvailable":
		b, err := it.TryBool()
		require.NoError(n.T, err)
		v.b = b
	case "renew", "balanceOf", "totalSupply", "getPrice":
		v.i = ItemInt(it)
	case "ownerOf":
		v.addr = n.itemAddr(it)
	case "properties":
		m := it.(*stackitem.Map)
		get := func(k string) stackitem.Item {
			i := m.Index(stackitem.Make(k))
			require.GreaterOrEqual(n.T, i, 0)
			return m.Value().([]stackitem.MapElement)[i].Value
		}
		v.pname, v.i, v.padmin = string(ItemBytes(get("name"))), ItemInt(get("expiration")), n.itemAddr(get("admin"))
	case "tokensOf", "tokens", "roots":
		for _, x := range arr() {
			v.strs = append(v.strs, string(ItemBytes(x)))
		}
		sort.Strings(v.strs)
	case "getRecords", "resolve":
		for _, x := range arr() {
			v.strs = append(v.strs, string(ItemBytes(x)))
		}
	case "getAllRecords":
		for _, x := range arr() {
			f := x.Value().([]stackitem.Item)
			v.recs = append(v.recs, [4]string{string(ItemBytes(f[0])), ItemInt(f[1]).String(), string(ItemBytes(f[2])), ItemInt(f[3]).String()})
		}
	}
	return v
}

// render prints a parsed result as a Coq val.
func (l nnsLit) render(kind string, v nnsVal) string {
	if !v.ok {
		return VFault
	}
	switch kind {
	case "register", "transfer", "isAvailable":
		return VBool(v.b)
	case "renew", "balanceOf", "totalSupply", "getPrice":
		return VInt(v.i)
	case "ownerOf":
		return l.vaddr(v.addr)
	case "properties":
		return VList([]string{l.vstr(v.pname), VInt(v.i), l.vaddr(v.padmin)})
	case "tokensOf", "tokens", "roots", "getRecords", "resolve":
		var out []string
		for _, s := range v.strs {
			out = append(out, l.vstr(s))
		}
		return VList(out)
	case "getAllRecords":
		var out []string
		for _, r := range v.recs {
			ty, _ := new(big.Int).SetString(r[1], 10)
			id, _ := new(big.Int).SetString(r[3], 10)
			out = append(out, VList([]string{l.vstr(r[0]), VInt(ty), l.vstr(r[2]), VInt(id)}))
		}
		return VList(out)
	}
	return VNull
}

func (l nnsLit) opt(o nnsOp) string {
	z := ZI
	switch o.Kind {
	case "register":
		return fmt.Sprintf("Register %s %s %s %s %s %s %s", l.str(o.Name), l.addrOpt(o.Owner), l.str(o.Email), z(o.Refresh), z(o.Retry), z(o.Expire), z(o.TTL))
	case "registerTLD":
		return fmt.Sprintf("RegisterTLD %s %s %s %s %s %s", l.str(o.Name), l.str(o.Email), z(o.Refresh), z(o.Retry), z(o.Expire), z(o.TTL))
	case "updateSOA":
		return fmt.Sprintf("UpdateSOA %s %s %s %s %s %s", l.str(o.Name), l.str(o.Email), z(o.Refresh), z(o.Retry), z(o.Expire), z(o.TTL))
	case "transfer":
		return fmt.Sprintf("Transfer %s %s", l.addrOpt(o.Owner), l.str(o.Name))
	case "renew":
		return fmt.Sprintf("Renew %s %s", l.str(o.Name), z(o.Years))
	case "setAdmin":
		return fmt.Sprintf("SetAdmin %s %s", l.str(o.Name), l.addrOpt(o.Owner))
	case "addRecord":
		return fmt.Sprintf("AddRecord %s %s %s", l.str(o.Name), z(o.Typ), l.str(o.Data))
	case "setRecord":
		return fmt.Sprintf("SetRecord %s %s %s %s", l.str(o.Name), z(o.Typ), z(o.ID), l.str(o.Data))
	case "deleteRecords":
		return fmt.Sprintf("DeleteRecords %s %s", l.str(o.Name), z(o.Typ))
	case "setPrice":
		return fmt.Sprintf("SetPrice %s", z(o.Price))
	case "isAvailable":
		return "IsAvailable " + l.str(o.Name)
	case "ownerOf":
		return "OwnerOf " + l.str(o.Name)
	case "properties":
		return "Properties " + l.str(o.Name)
	case "balanceOf":
		return "BalanceOf " + l.addrOpt(o.Owner)
	case "tokensOf":
		return "TokensOf " + l.addrOpt(o.Owner)
	case "tokens":
		return "Tokens"
	case "totalSupply":
		return "TotalSupply"
	case "getRecords":
		return fmt.Sprintf("GetRecords %s %s", l.str(o.Name), z(o.Typ))
	case "getAllRecords":
		return "GetAllRecords " + l.str(o.Name)
	case "resolve":
		return fmt.Sprintf("Resolve %s %s", l.str(o.Name), z(o.Typ))
	case "roots":
		return "Roots"
	case "getPrice":
		return "GetPrice"
	}
	panic(o.Kind)
}

// witnessed principals of an op: payer, signers, the forwarding contract.
func (o nnsOp) witnessed() []int {
	w := []int{pPayer}
	if !(o.Entry && o.Via != 0) { // CalledByEntry does not reach a call made by the forwarding contract
		w = append(w, o.Signers...)
	}
	if o.Via != 0 {
		w = append(w, o.Via)
	}
	return w
}

func (l nnsLit) ctx(o nnsOp) string {
	var ws []string
	for _, i := range o.witnessed() {
		ws = append(ws, fmt.Sprintf("p%d", i))
	}
	rej := fmt.Sprintf("[p%d]", pR)
	if o.Mode == 4 {
		rej = fmt.Sprintf("[p%d; p%d]", pR, pF)
	}
	return fmt.Sprintf("mkNC %s %s p%d %s", ZLit(new(big.Int).SetUint64(o.T)), ListLit(ws), o.Cmt, rej)
}

// steps renders an invocation as the list of NNS calls it consists of: the
// call itself and — for a transfer to the calling-back receiver pF that gets
// as far as onNEP11Payment — the calls the receiver makes from the callback,
// in a context that also witnesses the receiver. (The cases file composes
// them atomically: any failing inner call fails the whole invocation.)
func (l nnsLit) steps(o nnsOp, prevOwner int) string {
	out := []string{fmt.Sprintf("(%s, %s)", l.ctx(o), l.opt(o))}
	if o.Kind == "transfer" && o.Owner == pF && o.Mode >= 1 && o.Mode <= 3 {
		in := o
		in.Mode, in.Via = 0, 0
		if !has(in.witnessed(), pF) {
			in.Signers = append(append([]int{}, in.Signers...), pF) // rendered as a witnessed principal only
		}
		inner := func(x nnsOp) {
			x.T, x.Cmt, x.Signers, x.Entry, x.Sponsor = o.T, o.Cmt, in.Signers, o.Entry, 0
			if o.Entry && o.Via != 0 {
				x.Entry, x.Signers = false, []int{pF}
			} else if o.Entry {
				// CalledByEntry signers witness the outer call only; inside the callback only pF does
				x.Entry, x.Signers = false, []int{pF}
			}
			out = append(out, fmt.Sprintf("(%s, %s)", l.ctx(x), l.opt(x)))
		}
		switch o.Mode {
		case 1:
			inner(nnsOp{Kind: "transfer", Name: o.Name, Owner: o.Dest})
		case 2:
			inner(nnsOp{Kind: "transfer", Name: o.Name, Owner: prevOwner})
		case 3:
			inner(nnsOp{Kind: "ownerOf", Name: o.Name})
			inner(nnsOp{Kind: "balanceOf", Owner: pF})
			inner(nnsOp{Kind: "tokensOf", Owner: pF})
		}
	}
	return ListLit(out)
}

// exec runs the op and the readers.
func (n *nnsEnv) readVec(l nnsLit, ts uint64, readers []nnsOp) (vec []string, vals []nnsVal) {
	// one block header for the whole vector, call scripts built once per reader
	hdr := n.E.NewUnsignedBlock(n.T)
	hdr.Timestamp = ts
	if n.txCache == nil {
		n.txCache = map[string]*transaction.Transaction{}
	}
	for _, rd := range readers {
		key := rd.Kind + fmt.Sprint(n.args(rd))
		tx := n.txCache[key]
		if tx == nil {
			tx = n.E.NewUnsignedTx(n.T, n.nns, rd.Kind, n.args(rd)...)
			n.txCache[key] = tx
		}
		it, ok := n.runRead(tx, hdr)
		v := nnsVal{}
		if ok {
			v = n.parse(rd.Kind, it)
		}
		vals = append(vals, v)
		vec = append(vec, l.render(rd.Kind, v))
	}
	return
}

func (n *nnsEnv) exec(l nnsLit, o nnsOp, readers []nnsOp) nnsObs {
	preVec, preVals := n.readVec(l, o.T, readers) // state before the op, at the op's instant
	r := n.invoke(o)
	ob := nnsObs{halt: r.Halt, fault: r.Fault, preVec: preVec, preVals: preVals}
	if !r.Halt {
		ob.ret = VFault
	} else {
		require.Len(n.T, r.Stack, 1, o.Kind)
		it := r.Stack[0]
		switch o.Kind {
		case "tokensOf", "tokens", "roots", "getAllRecords":
			// iterators are not kept in the application log: evaluate again
			it2, ok := n.readAt(o.T, o)
			require.True(n.T, ok)
			it = it2
		}
		ob.rv = n.parse(o.Kind, it)
		ob.ret = l.render(o.Kind, ob.rv)
		ob.retOK = true
		if o.Kind == "register" || o.Kind == "transfer" {
			ob.retOK = ob.rv.b
		}
		if o.Kind == "renew" {
			ob.retInt = ob.rv.i
		}
	}
	for _, ev := range r.Events {
		if ev.ScriptHash != n.nns {
			continue
		}
		items := ev.Item.Value().([]stackitem.Item)
		switch ev.Name {
		case "Transfer":
			require.Equal(n.T, int64(1), ItemInt(items[2]).Int64())
			ob.notifs = append(ob.notifs, nnsNotif{kind: 0, from: n.itemAddr(items[0]), to: n.itemAddr(items[1]), name: string(ItemBytes(items[3]))})
		case "SetAdmin":
			ob.notifs = append(ob.notifs, nnsNotif{kind: 1, name: string(ItemBytes(items[0])), from: n.itemAddr(items[1]), to: n.itemAddr(items[2])})
		case "Renew":
			ob.notifs = append(ob.notifs, nnsNotif{kind: 2, name: string(ItemBytes(items[0])), old: ItemInt(items[1]), new: ItemInt(items[2])})
		}
	}
	ob.vec, ob.vals = n.readVec(l, o.T, readers)
	return ob
}

func (l nnsLit) notifs(ns []nnsNotif) string {
	var out []string
	for _, x := range ns {
		switch x.kind {
		case 0:
			out = append(out, VList([]string{VIntI(0), l.vaddr(x.from), l.vaddr(x.to), VIntI(1), l.vstr(x.name)}))
		case 1:
			out = append(out, VList([]string{VIntI(1), l.vstr(x.name), l.vaddr(x.from), l.vaddr(x.to)}))
		case 2:
			out = append(out, VList([]string{VIntI(2), l.vstr(x.name), VInt(x.old), VInt(x.new)}))
		}
	}
	return VList(out)
}

// obs renders the observation with the reader vector as a diff against prev.
func (l nnsLit) obs(o nnsObs, prev []string) string {
	var d []string
	for i, v := range o.vec {
		if prev == nil || prev[i] != v {
			d = append(d, VList([]string{VIntI(int64(i)), v}))
		}
	}
	return VList([]string{o.ret, l.notifs(o.notifs), VList(d)})
}

var _ = storage.FindDefault

// ---------------------------------------------------------------------------
// Pools

type nnsName struct {
	s     string
	valid bool // safeSplitAndCheck accepts
}

var nnsNames = []nnsName{
	{"com", true}, {"org", true},
	{"a.com", true}, {"b.com", true}, {"ab.com", true}, {"a.org", true},
	{"x.a.com", true}, {"y.a.com", true}, {"ax.a.com", true}, {"x.b.com", true}, {"x.a.org", true},
	{"w.x.a.com", true}, {"z.y.a.com", true}, {"w.x.b.com", true},
	// malformed (or well-formed only after stripping the dot in resolve)
	{"a.com.", false}, {"x.a.com.", false}, {"A.com", false}, {"a..com", false}, {"-a.com", false}, {"c", false}, {"", false},
	{"x.a.1om", false}, {"ab.com..", false}, {"ab.com.", false}, {"com.", false}, {"org.", false},
}

// well-formed names that are not observed
var nnsExtraValid = append(append([]string{"net", "a.net", "v.w.x.a.com", "v.w.x.b.com"}, nnsRepeatNames...), nnsLong59, nnsLong255, nnsLong254)

// names of the maximum length (255) and one below, under the 2nd-level name nnsLong59
var (
	nnsL63     = strings.Repeat("l", 63)
	nnsLong59  = strings.Repeat("m", 59) + ".com"                       // 63 bytes, level 2
	nnsLong255 = nnsL63 + "." + nnsL63 + "." + nnsL63 + "." + nnsLong59 // 3*64 + 63 = 255
	nnsLong254 = nnsL63 + "." + nnsL63 + "." + nnsL63[1:] + "." + nnsLong59
)

// names with repeated label sequences, names that contain another pool name as
// prefix / infix / (improper) suffix: they exercise the suffix test of
// getParentConflictingRecord and the longest-suffix search of tokenIDFromName
var nnsRepeatNames = []string{"x.a.com.x.a.com", "x.a.com.b.com", "a.com.a.com", "b.com.a.com", "x.b.com.x.b.com",
	"y.a.com.y.a.com", "a.com.x.a.com", "x.a.x.a.com", "com.a.com", "w.x.a.com.w.x.a.com", "xx.a.com", "x.a.comx.a.com", "xx.b.com",
	"yy.a.com", "yz.y.a.com", "yw.x.b.com", "yax.a.com", "ya.com", "yb.com", "yx.a.com", "yx.b.com"}

// nnsIsValid: safeSplitAndCheck accepts the name (the table written to Coq).
func nnsIsValid(name string) bool {
	for _, nn := range nnsNames {
		if nn.s == name {
			return nn.valid
		}
	}
	for _, x := range nnsExtraValid {
		if x == name {
			return true
		}
	}
	return false
}

func nnsValidNames() []string {
	var out []string
	for _, n := range nnsNames {
		if n.valid {
			out = append(out, n.s)
		}
	}
	return out
}

type nnsData struct {
	typ   int64
	s     string
	valid bool
}

var nnsLongTXT = strings.Repeat("t", 256)
var nnsMaxTXT = strings.Repeat("u", 255)

var nnsDatas = []nnsData{
	{tA, "1.2.3.4", true}, {tA, "5.6.7.8", true}, {tA, "9.9.9.9", true}, {tA, "10.0.0.1", false}, {tA, "1.2.3", false}, {tA, "1.2.3.256", false},
	{tAAAA, "2001:db9::1", true}, {tAAAA, "2a00:1450::8a", true}, {tAAAA, "::1", false},
	{tTXT, "t1", true}, {tTXT, "t2", true}, {tTXT, "t3", true}, {tTXT, "", true}, {tTXT, nnsMaxTXT, true}, {tTXT, nnsLongTXT, false},
	{tTXT, "1.2.3.4", true}, {tTXT, "b.com", true},
	{tCNAME, "b.com", true}, {tCNAME, "a.com", true}, {tCNAME, "x.a.com", true}, {tCNAME, "y.a.com", true}, {tCNAME, "x.b.com", true},
	{tCNAME, "a.org", true}, {tCNAME, "w.x.a.com", true}, {tCNAME, "ab.com", true}, {tCNAME, "b.com.", false}, {tCNAME, "B.com", false}, {tCNAME, "t1", false},
	{tSOA, "t1", false}, {0, "t1", false}, {2, "t1", false},
}

var nnsEmails = []string{"e@x.io", "ops@nspcc.ru", "", "a b", "\xff"}

var nnsOwners = []int{pU0, pU1, pU2, pC, pCmt, pF}

// owners whose balanceOf / tokensOf are observed
var nnsObservedOwners = []int{pU0, pU1, pU2, pC, pCmt, pR, pCmt2, pF}

// ---------------------------------------------------------------------------
// Harness-side book-keeping of "who is who" (from the results of the calls;
// the spec's notion, used by the generators and monitors).

type nnsInfo struct {
	registered               bool
	owner, admin             int
	formerOwner, formerAdmin int
	exp                      uint64
}

type nnsBook struct {
	info map[string]*nnsInfo
	root map[string]bool
}

func newNNSBook() *nnsBook { return &nnsBook{info: map[string]*nnsInfo{}, root: map[string]bool{}} }

func (b *nnsBook) get(name string) *nnsInfo {
	if b.info[name] == nil {
		b.info[name] = &nnsInfo{owner: ownNull, admin: ownNull, formerOwner: ownNull, formerAdmin: ownNull}
	}
	return b.info[name]
}

func (b *nnsBook) live(name string, now uint64) bool {
	i := b.info[name]
	return i != nil && i.registered && now < i.exp
}

func nnsParent(name string) string {
	if i := strings.IndexByte(name, '.'); i >= 0 {
		return name[i+1:]
	}
	return ""
}

func nnsLevel(name string) int { return strings.Count(name, ".") + 1 }

// chainLive: the name and all enclosing names are live.
func (b *nnsBook) chainLive(name string, now uint64) bool {
	for n := name; n != ""; n = nnsParent(n) {
		if !b.live(n, now) {
			return false
		}
	}
	return true
}

// token: tokenIDFromName.
func (b *nnsBook) token(name string, now uint64) string {
	for n := name; nnsLevel(n) >= 2; n = nnsParent(n) {
		if b.live(n, now) {
			return n
		}
	}
	return name
}

func (b *nnsBook) update(o nnsOp, ob nnsObs) {
	if !ob.halt || !ob.retOK {
		return
	}
	switch o.Kind {
	case "register":
		i := b.get(o.Name)
		i.formerOwner, i.formerAdmin = i.owner, i.admin
		i.registered, i.owner, i.admin = true, o.Owner, ownNull
		i.exp = uint64(int64(o.T) + o.Expire*1000)
	case "registerTLD":
		i := b.get(o.Name)
		i.registered, i.owner, i.admin = true, ownNull, ownNull
		i.exp = uint64(int64(o.T) + o.Expire*1000)
		b.root[o.Name] = true
	case "transfer":
		i := b.get(o.Name)
		first := i.owner
		move := func(to int) {
			if i.owner != to {
				i.formerOwner, i.formerAdmin = i.owner, i.admin
				i.owner, i.admin = to, ownNull
			}
		}
		move(o.Owner)
		if o.Owner == pF && o.Mode == 1 {
			move(o.Dest) // forwarded from the callback
		}
		if o.Owner == pF && o.Mode == 2 {
			move(first) // sent back from the callback
		}
	case "setAdmin":
		i := b.get(o.Name)
		i.formerAdmin = i.admin
		i.admin = o.Owner
	case "renew":
		b.get(o.Name).exp = ob.retInt.Uint64()
	}
}

// ---------------------------------------------------------------------------
// Generator

type nnsGen struct {
	r      *rand.Rand
	prop   string
	book   *nnsBook
	mon    *nnsMon
	now    uint64
	ncmt   int
	cmtNow int            // the committee principal now
	rotAt  int            // step at which the committee is re-elected (0 = never)
	scn    bool           // inject the "expire -> parent gains deeper records -> re-register" scenario
	cn     bool           // inject the CNAME-chain scenario
	chain  bool           // inject the one-expired-link chain scenario
	lim    bool           // inject the record-limit scenario
	queue  []func() nnsOp // scripted ops, emitted before anything random
}

func (g *nnsGen) pick(ws ...int) int {
	s := 0
	for _, w := range ws {
		s += w
	}
	x := g.r.Intn(s)
	for i, w := range ws {
		if x < w {
			return i
		}
		x -= w
	}
	return len(ws) - 1
}

func (g *nnsGen) registeredNames() []string {
	var out []string
	for _, n := range nnsValidNames() {
		if i := g.book.info[n]; i != nil && i.registered {
			out = append(out, n)
		}
	}
	return out
}

// nnsSpellings: other spellings of a name that a caller might use for the
// same domain (absolute form, stray dots, case, stray blank). The contract
// takes names and token ids as raw bytes: only resolve strips one trailing dot.
func nnsSpellings(name string) []string {
	return []string{name + ".", name + "..", "." + name, strings.ToUpper(name), name + " ",
		strings.ToUpper(name[:1]) + name[1:]}
}

// respell replaces, now and then, the name of an op by another spelling of it.
func (g *nnsGen) respell(o nnsOp) nnsOp {
	if o.Name != "" && g.r.Intn(11) == 0 {
		v := nnsSpellings(o.Name)
		o.Name = v[g.r.Intn(len(v))]
	}
	return o
}

// rescope: now and then the first key signer (usually the named owner / admin)
// becomes the Sender with scope None — with or without a stranger co-signing
// with a real scope — or all signers sign with CalledByEntry.
func (g *nnsGen) rescope(o nnsOp) nnsOp {
	if !isMutating(o.Kind) || len(o.Signers) == 0 || g.ncmt != 1 {
		return o
	}
	switch x := g.r.Intn(100); {
	case x < 9 && g.prop != "C12":
		for k, p := range o.Signers {
			if p <= pU2 {
				o.Sponsor = p + 1
				o.Signers = append(append([]int{}, o.Signers[:k]...), o.Signers[k+1:]...)
				if g.r.Intn(2) == 0 {
					if st := g.stranger(p); !has(o.Signers, st) {
						o.Signers = append(o.Signers, st)
						sort.Ints(o.Signers)
					}
				}
				break
			}
		}
	case x < 15 && g.prop != "C12":
		o.Entry = true
	}
	return o
}

// nextTime: small steps, jumps to the expiration boundaries exp-1, exp, exp+1
// of a registered name, rarely a year.
func (g *nnsGen) nextTime() uint64 {
	wb, wy := 14, 1
	if g.prop == "C10" {
		wb, wy = 30, 2
	}
	switch g.pick(100-wb-wy, wb, wy) {
	case 1:
		var cand []uint64
		far := g.r.Intn(8) == 0 // mostly the boundaries of short-lived names
		for _, n := range g.registeredNames() {
			e := g.book.info[n].exp
			for _, t := range []uint64{e - 1, e, e + 1} {
				if t > g.now && t < g.now+uint64(12*msYear) && (t < g.now+7200_000 || far) {
					cand = append(cand, t)
				}
			}
		}
		if len(cand) > 0 {
			// prefer the nearest boundaries
			sort.Slice(cand, func(i, j int) bool { return cand[i] < cand[j] })
			k := g.r.Intn(len(cand))
			if k > 5 && g.r.Intn(3) != 0 {
				k = g.r.Intn(6)
			}
			return cand[k]
		}
	case 2:
		return g.now + uint64(msYear) + uint64(g.r.Intn(1000))
	}
	return g.now + 1 + uint64(g.r.Intn(40))
}

func (g *nnsGen) stranger(not ...int) int {
	for k := 0; k < 10; k++ {
		p := g.r.Intn(3)
		ok := true
		for _, x := range not {
			if x == p {
				ok = false
			}
		}
		if ok {
			return p
		}
	}
	return pU2
}

// signFor turns a set of principals into signers + forwarding contract.
func signFor(ps []int) (sg []int, via int) {
	seen := map[int]bool{}
	for _, p := range ps {
		if p < 0 || seen[p] {
			continue
		}
		seen[p] = true
		switch p {
		case pC, pR, pF:
			if via == 0 {
				via = p
			}
		case pPayer:
		default:
			sg = append(sg, p)
		}
	}
	sort.Ints(sg)
	return
}

// role picks who signs an operation on name: mostly somebody entitled,
// otherwise one of the other roles of the property's list.
func (g *nnsGen) role(name string) []int {
	i := g.book.get(name)
	par := g.book.get(nnsParent(name))
	var ps []int
	switch g.pick(50, 12, 7, 6, 7, 8, 6, 4) {
	case 0:
		ps = []int{i.owner}
		if i.owner == ownNull && i.registered {
			ps = g.cmtSigners()
		}
	case 1:
		ps = []int{i.admin}
	case 2:
		ps = []int{i.formerOwner}
	case 3:
		ps = []int{i.formerAdmin}
	case 4:
		ps = []int{par.owner}
		if g.r.Intn(2) == 0 && par.admin != ownNull {
			ps = []int{par.admin}
		}
	case 5:
		ps = []int{g.stranger(i.owner, i.admin)}
	case 6:
		ps = g.cmtSigners()
	case 7:
		ps = nil
	}
	if len(ps) == 1 && ps[0] == ownNull {
		ps = []int{g.stranger(i.owner, i.admin)}
	}
	if g.r.Intn(12) == 0 {
		ps = append(ps, g.r.Intn(3))
	}
	return ps
}

// cmtSigners: who signs a committee-gated call. On multi-key committees:
// the majority account, a half-committee account over the same keys, the
// 2n/3+1 account, a single member, a stranger.
func (g *nnsGen) cmtSigners() []int {
	if g.ncmt > 1 {
		switch g.pick(50, 18, 12, 10, 10) {
		case 1:
			return []int{pHalf}
		case 2:
			return []int{pAlpha}
		case 3:
			return []int{pMember}
		case 4:
			return []int{g.r.Intn(3)}
		}
		return []int{pCmt}
	}
	if g.cmtNow != pCmt {
		// after a re-election: the current committee, the former one, both, a stranger
		switch g.pick(50, 30, 8, 12) {
		case 1:
			return []int{pCmt}
		case 2:
			return []int{pCmt, g.cmtNow}
		case 3:
			return []int{g.r.Intn(3)}
		}
		return []int{g.cmtNow}
	}
	if g.r.Intn(7) == 0 {
		return []int{g.r.Intn(3)}
	}
	return []int{pCmt}
}

func (g *nnsGen) expire() int64 {
	if g.prop == "C10" {
		return []int64{1, 2, 2, 3, 5, 30, 3600, 31536000, 31536000, 0, -1}[g.r.Intn(11)]
	}
	return []int64{2, 5, 3600, 3600, 31536000, 5 * 31536000, 5 * 31536000, 9 * 31536000, 9 * 31536000, 0}[g.r.Intn(10)]
}

func (g *nnsGen) anyName() string {
	if g.r.Intn(12) == 0 {
		return nnsNames[g.r.Intn(len(nnsNames))].s
	}
	v := nnsValidNames()
	return v[2+g.r.Intn(len(v)-2)]
}

func (g *nnsGen) regName() string {
	rn := g.registeredNames()
	var c []string
	for _, n := range rn {
		if nnsLevel(n) >= 2 {
			c = append(c, n)
		}
	}
	if len(c) == 0 || g.r.Intn(12) == 0 {
		return g.anyName()
	}
	var lv []string
	for _, n := range c {
		if g.book.chainLive(n, g.now+1) {
			lv = append(lv, n)
		}
	}
	if len(lv) > 0 && g.r.Intn(6) != 0 {
		return lv[g.r.Intn(len(lv))]
	}
	return c[g.r.Intn(len(c))]
}

// recName: a registered name or a (possibly unregistered) name below one.
func (g *nnsGen) recName() string {
	k := g.r.Intn(100)
	if g.prop != "C11" && g.r.Intn(9) == 0 {
		return nnsRepeatNames[g.r.Intn(len(nnsRepeatNames))]
	}
	if k < 62 {
		return g.regName()
	}
	if k < 94 {
		l := g.regName()
		var c []string
		for _, n := range nnsValidNames() {
			if len(n) > len(l) && strings.HasSuffix(n, "."+l) && !g.book.live(n, g.now+1) {
				c = append(c, n)
			}
		}
		if len(c) > 0 {
			return c[g.r.Intn(len(c))]
		}
		return l
	}
	n := g.anyName()
	if g.r.Intn(25) == 0 {
		n += "."
	}
	return n
}

func (g *nnsGen) data(typ int64) string {
	var c []nnsData
	for _, d := range nnsDatas {
		if d.typ == typ {
			c = append(c, d)
		}
	}
	if len(c) == 0 {
		return "t1"
	}
	for k := 0; k < 4; k++ {
		d := c[g.r.Intn(len(c))]
		if d.valid || g.r.Intn(6) == 0 {
			return d.s
		}
	}
	return c[0].s
}

func (g *nnsGen) typ() int64 {
	switch g.pick(30, 30, 30, 6, 2, 2) {
	case 0:
		return tA
	case 1:
		return tTXT
	case 2:
		return tCNAME
	case 3:
		return tAAAA
	case 4:
		return tSOA
	}
	return []int64{0, 2, 255, -250, -255, 300, 1281}[g.r.Intn(7)]
}

// scenario: a sub-name expires, the enclosing name (now its token) gains
// records of names below it, then isAvailable / re-registration (takeover) of
// the expired name are tried — at level 3 or 4, at exp-1 / exp / exp+1, with
// and without removing the records again.
func (g *nnsGen) scenario() {
	r := g.r
	P, S, D := "b.com", "x.b.com", "w.x.b.com"
	if r.Intn(2) == 0 {
		P, S, D = "x.a.com", "w.x.a.com", "v.w.x.a.com"
	}
	oP, oS, oN := r.Intn(3), nnsOwners[r.Intn(len(nnsOwners))], nnsOwners[r.Intn(len(nnsOwners))]
	q := func(f func() nnsOp) { g.queue = append(g.queue, f) }
	mk := func(o nnsOp, t uint64, ps ...int) nnsOp {
		o.T = t
		o.Signers, o.Via = signFor(ps)
		return o
	}
	own := func(n string) int { return g.book.get(n).owner }
	soon := func() uint64 { return g.now + 1 + uint64(r.Intn(20)) }
	reg := func(name string, owner int, ex int64) {
		q(func() nnsOp {
			return mk(nnsOp{Kind: "register", Name: name, Owner: owner, Email: "e@x.io", Refresh: 1, Retry: 2, Expire: ex, TTL: 4},
				soon(), owner, own(nnsParent(name)))
		})
	}
	if nnsLevel(P) == 3 {
		reg("a.com", r.Intn(3), 9*31536000)
	}
	reg(P, oP, 9*31536000)
	reg(S, oS, int64(1+r.Intn(2)))
	if r.Intn(2) == 0 {
		q(func() nnsOp { return mk(nnsOp{Kind: "addRecord", Name: S, Typ: tTXT, Data: "t1"}, soon(), own(S)) })
	}
	if r.Intn(2) == 0 {
		adm := r.Intn(3) // an admin that the take-over must not inherit
		q(func() nnsOp { return mk(nnsOp{Kind: "setAdmin", Name: S, Owner: adm}, soon(), own(S), adm) })
	}
	// the first op at/around the expiration instant of S: a record of a deeper name
	dt := []int64{-1, 0, 0, 1}[r.Intn(4)]
	kD := r.Intn(2)
	dTyp, dData := []int64{tTXT, tA}[kD], []string{"t2", "1.2.3.4"}[kD]
	q(func() nnsOp {
		t := uint64(int64(g.book.get(S).exp) + dt)
		if !g.book.get(S).registered || t <= g.now {
			t = soon()
		}
		return mk(nnsOp{Kind: "addRecord", Name: D, Typ: dTyp, Data: dData}, t, own(g.book.token(D, t)))
	})
	q(func() nnsOp { return mk(nnsOp{Kind: "isAvailable", Name: S}, soon()) })
	reg(S, oN, 3600)
	if dt < 0 {
		reg(S, oN, 3600) // one more try after the boundary
	}
	if r.Intn(2) == 0 {
		q(func() nnsOp {
			t := soon()
			return mk(nnsOp{Kind: "deleteRecords", Name: D, Typ: dTyp}, t, own(g.book.token(D, t)))
		})
		reg(S, oN, 3600)
	}
	q(func() nnsOp { return mk(nnsOp{Kind: "isAvailable", Name: S}, soon()) })
}

// limitScenario: one (name, type) is filled up to the record limit (16) or to
// limit-1, then: one more add, setRecord at the last id and one past it,
// deleteRecords, an add again.
func (g *nnsGen) limitScenario() {
	r := g.r
	name := []string{"a.com", "b.com", "x.a.com", "x.b.com", "y.a.com", "z.y.a.com", "w.x.b.com", "ax.a.com"}[r.Intn(8)]
	// zone: the name that is registered — the name itself, or (for the last four) the
	// 2nd-level name one or two levels above a sub-name that is NOT registered
	zone := name
	if r.Intn(8) >= 4 || name == "y.a.com" || name == "z.y.a.com" || name == "w.x.b.com" || name == "ax.a.com" {
		for nnsLevel(zone) > 2 {
			zone = nnsParent(zone)
		}
	}
	typ := []int64{tTXT, tA, tAAAA}[r.Intn(3)]
	n := 15 + r.Intn(2)
	val := func(i int) string {
		switch typ {
		case tA:
			return fmt.Sprintf("1.2.3.%d", i+1)
		case tAAAA:
			return fmt.Sprintf("2001:db9::%x", i+1)
		}
		return fmt.Sprintf("r%d", i)
	}
	q := func(f func() nnsOp) { g.queue = append(g.queue, f) }
	op := func(o nnsOp) {
		q(func() nnsOp {
			o.T = g.now + 1 + uint64(r.Intn(5))
			tok := g.book.token(name, o.T)
			o.Signers, o.Via = signFor([]int{g.book.get(tok).owner})
			return o
		})
	}
	q(func() nnsOp { // make sure the token exists and lives long
		owner := r.Intn(3)
		o := nnsOp{Kind: "register", Name: zone, Owner: owner, Email: "e@x.io", Refresh: 1, Retry: 2, Expire: 9 * 31536000, TTL: 4, T: g.now + 1}
		o.Signers, o.Via = signFor([]int{owner, g.book.get(nnsParent(zone)).owner})
		return o
	})
	for i := 0; i < n; i++ {
		op(nnsOp{Kind: "addRecord", Name: name, Typ: typ, Data: val(i)})
		if i == 3 && zone != name {
			// the zone's own list and a sibling's are other lists: same values are fine there
			op(nnsOp{Kind: "addRecord", Name: zone, Typ: typ, Data: val(0)})
			op(nnsOp{Kind: "addRecord", Name: "y" + name, Typ: typ, Data: val(0)})
		}
	}
	op(nnsOp{Kind: "addRecord", Name: name, Typ: typ, Data: val(16)})
	op(nnsOp{Kind: "addRecord", Name: name, Typ: typ, Data: val(17)})
	op(nnsOp{Kind: "setRecord", Name: name, Typ: typ, ID: int64(n - 1), Data: val(18)})
	op(nnsOp{Kind: "setRecord", Name: name, Typ: typ, ID: int64(n), Data: val(19)})
	op(nnsOp{Kind: "setRecord", Name: name, Typ: typ, ID: 16, Data: val(19)})
	q(func() nnsOp { return nnsOp{Kind: "resolve", Name: name, Typ: typ, T: g.now + 1} })
	op(nnsOp{Kind: "deleteRecords", Name: name, Typ: typ})
	q(func() nnsOp { return nnsOp{Kind: "getRecords", Name: name, Typ: typ, T: g.now + 1} })
	op(nnsOp{Kind: "addRecord", Name: name, Typ: typ, Data: val(0)})
}

// chainScenario: a chain zone -> sub -> subsub with three owners in which exactly
// one link (any position) is short-lived; after its expiry every record and
// management method on the deeper names is tried by each link's owner.
func (g *nnsGen) chainScenario() {
	r := g.r
	ch := []string{"a.com", "x.a.com", "w.x.a.com"}
	if r.Intn(2) == 0 {
		ch = []string{"b.com", "x.b.com", "w.x.b.com"}
	}
	owners := r.Perm(3)
	dead := r.Intn(3)
	q := func(f func() nnsOp) { g.queue = append(g.queue, f) }
	for i, n := range ch {
		i, n := i, n
		q(func() nnsOp {
			ex := int64(9 * 31536000)
			if i == dead {
				ex = 2
			}
			o := nnsOp{Kind: "register", Name: n, Owner: owners[i], Email: "e@x.io", Refresh: 1, Retry: 2, Expire: ex, TTL: 4, T: g.now + 1}
			o.Signers, o.Via = signFor([]int{owners[i], g.book.get(nnsParent(n)).owner})
			return o
		})
	}
	q(func() nnsOp {
		o := nnsOp{Kind: "addRecord", Name: ch[2], Typ: tTXT, Data: "t1", T: g.now + 1}
		o.Signers, o.Via = signFor([]int{g.book.get(g.book.token(ch[2], o.T)).owner})
		return o
	})
	first := true
	for k := 0; k < 10; k++ {
		q(func() nnsOp {
			t := g.now + 1 + uint64(r.Intn(5))
			if first {
				first = false
				if e := g.book.get(ch[dead]).exp; g.book.get(ch[dead]).registered && e > g.now {
					t = e + uint64(r.Intn(2))
				}
			}
			name := ch[1+r.Intn(2)]
			var o nnsOp
			switch r.Intn(7) {
			case 0:
				o = nnsOp{Kind: "addRecord", Name: name, Typ: tTXT, Data: []string{"t2", "t3"}[r.Intn(2)]}
			case 1:
				o = nnsOp{Kind: "setRecord", Name: name, Typ: tTXT, ID: 0, Data: "t3"}
			case 2:
				o = nnsOp{Kind: "deleteRecords", Name: name, Typ: tTXT}
			case 3:
				o = nnsOp{Kind: "updateSOA", Name: name, Email: "ops@nspcc.ru", Refresh: 5, Retry: 6, Expire: 7, TTL: 8}
			case 4:
				o = nnsOp{Kind: "renew", Name: name, Years: 1, OneArg: r.Intn(2) == 0}
			case 5:
				o = nnsOp{Kind: "setAdmin", Name: name, Owner: ownNull}
			default:
				o = nnsOp{Kind: "addRecord", Name: "v." + ch[2], Typ: tTXT, Data: "t4"}
			}
			o.T = t
			o.Signers, o.Via = signFor([]int{owners[r.Intn(3)]})
			return o
		})
	}
}

// subScenario: records of sub-names that are NOT registered themselves, one
// and two levels below a registered zone: the rules are per NAME — single
// CNAME, duplicates, setRecord ids — whatever the zone itself and sibling
// sub-names hold; zone-CNAME-then-sub-name-CNAME and the reverse.
func (g *nnsGen) subScenario() {
	r := g.r
	zone, s1, s2, sib := "a.com", "y.a.com", "z.y.a.com", "ax.a.com"
	if r.Intn(2) == 0 {
		zone, s1, s2, sib = "b.com", "x.b.com", "w.x.b.com", "xx.b.com"
	}
	q := func(f func() nnsOp) { g.queue = append(g.queue, f) }
	op := func(o nnsOp) {
		q(func() nnsOp {
			o.T = g.now + 1 + uint64(r.Intn(5))
			tok := g.book.token(o.Name, o.T)
			o.Signers, o.Via = signFor([]int{g.book.get(tok).owner})
			return o
		})
	}
	q(func() nnsOp {
		owner := r.Intn(3)
		o := nnsOp{Kind: "register", Name: zone, Owner: owner, Email: "e@x.io", Refresh: 1, Retry: 2, Expire: 9 * 31536000, TTL: 4, T: g.now + 1}
		o.Signers, o.Via = signFor([]int{owner})
		return o
	})
	cn := func(n, d string) { op(nnsOp{Kind: "addRecord", Name: n, Typ: tCNAME, Data: d}) }
	if r.Intn(2) == 0 {
		cn(zone, "ab.com") // the zone has its CNAME first ...
		cn(s1, "ab.com")   // ... every sub-name still gets its own one
		cn(s2, "a.org")
	} else {
		cn(s1, "ab.com")
		cn(s2, "a.org")
		cn(zone, "ab.com") // ... or the other way round
	}
	cn(s1, "a.org") // a second one: refused, per name
	cn(s2, "ab.com")
	cn(zone, "a.org")
	cn(sib, "ab.com") // the sibling's first
	op(nnsOp{Kind: "setRecord", Name: s1, Typ: tCNAME, ID: 0, Data: "a.org"})
	op(nnsOp{Kind: "setRecord", Name: s1, Typ: tCNAME, ID: 1, Data: "ab.com"})
	for _, n := range []string{s1, sib, zone, s1, s2} { // the same value under different names; the 2nd s1 is a duplicate
		op(nnsOp{Kind: "addRecord", Name: n, Typ: tTXT, Data: "t1"})
	}
	op(nnsOp{Kind: "setRecord", Name: sib, Typ: tTXT, ID: 0, Data: "t2"})
	op(nnsOp{Kind: "setRecord", Name: s2, Typ: tTXT, ID: 0, Data: "t1"}) // the value it holds: the zone's serial still moves
	op(nnsOp{Kind: "setRecord", Name: s2, Typ: tTXT, ID: 1, Data: "t2"})
	op(nnsOp{Kind: "deleteRecords", Name: []string{s1, zone}[r.Intn(2)], Typ: tCNAME})
	cn(s1, "b.com")
	q(func() nnsOp { return nnsOp{Kind: "getRecords", Name: s1, Typ: tCNAME, T: g.now + 1} })
	q(func() nnsOp { return nnsOp{Kind: "resolve", Name: s2, Typ: tTXT, T: g.now + 1} })
}

// cnameScenario: 2..4 names, each with own records of every type (distinct
// values), linked by CNAMEs into a chain (sometimes closed into a cycle,
// sometimes ending in a 255/254-byte name), then resolve for every type from
// every link, with and without the trailing dot.
func (g *nnsGen) cnameScenario() {
	r := g.r
	all := []string{"a.com", "b.com", "ab.com", "x.a.com"}
	r.Shuffle(len(all), func(i, j int) { all[i], all[j] = all[j], all[i] })
	names := all[:2+r.Intn(3)]
	q := func(f func() nnsOp) { g.queue = append(g.queue, f) }
	own := func(o nnsOp) {
		q(func() nnsOp {
			o.T = g.now + 1 + uint64(r.Intn(5))
			tok := g.book.token(o.Name, o.T)
			o.Signers, o.Via = signFor([]int{g.book.get(tok).owner})
			return o
		})
	}
	reg := func(name string) {
		q(func() nnsOp {
			owner := r.Intn(3)
			o := nnsOp{Kind: "register", Name: name, Owner: owner, Email: "e@x.io", Refresh: 1, Retry: 2, Expire: 9 * 31536000, TTL: 4, T: g.now + 1}
			ps := []int{owner}
			if nnsLevel(name) > 2 {
				ps = append(ps, g.book.get(nnsParent(name)).owner)
			}
			o.Signers, o.Via = signFor(ps)
			return o
		})
	}
	if r.Intn(3) == 0 {
		names = append(names, []string{nnsLong255, nnsLong254}[r.Intn(2)])
		reg(nnsLong59)
	}
	for i, n := range names {
		if len(n) < 100 {
			if n == "x.a.com" {
				reg("a.com")
			}
			reg(n)
		}
		for j := 0; j < 1+r.Intn(2); j++ {
			own(nnsOp{Kind: "addRecord", Name: n, Typ: tTXT, Data: fmt.Sprintf("r%d", 10*i+j)})
		}
		if r.Intn(2) == 0 {
			own(nnsOp{Kind: "addRecord", Name: n, Typ: tA, Data: fmt.Sprintf("1.2.3.%d", 10*i+1)})
		}
		own(nnsOp{Kind: "addRecord", Name: n, Typ: tAAAA, Data: fmt.Sprintf("2001:db9::%x", 10*i+1)})
	}
	for i := 0; i+1 < len(names); i++ {
		own(nnsOp{Kind: "addRecord", Name: names[i], Typ: tCNAME, Data: names[i+1]})
	}
	if r.Intn(3) == 0 {
		own(nnsOp{Kind: "addRecord", Name: names[len(names)-1], Typ: tCNAME, Data: names[0]}) // cycle
	}
	for _, n := range names {
		for _, ty := range []int64{tTXT, tAAAA, tA} {
			n, ty := n, ty
			if r.Intn(3) == 0 {
				n += "."
			}
			q(func() nnsOp { return nnsOp{Kind: "resolve", Name: n, Typ: ty, T: g.now + 1} })
		}
	}
}

func (g *nnsGen) next(step int) nnsOp {
	if step == 6 && g.cn {
		g.cnameScenario()
	}
	if step == 6 && g.scn {
		g.scenario()
	}
	if step == 6 && g.lim {
		g.limitScenario()
	}
	if step == 6 && g.chain {
		g.chainScenario()
	}
	if step == 6 && g.scn && g.prop == "C12" {
		g.subScenario()
	}
	if len(g.queue) > 0 {
		f := g.queue[0]
		g.queue = g.queue[1:]
		return f()
	}
	if g.rotAt != 0 && step >= g.rotAt && g.cmtNow == pCmt {
		return nnsOp{Kind: "rotate"}
	}
	t := g.nextTime()
	if g.cmtNow != pCmt && g.r.Intn(3) == 0 {
		// every committee-gated path under the current and the former committee
		o := nnsOp{T: t}
		switch g.r.Intn(6) {
		case 0:
			o.Kind, o.Price = "setPrice", int64(1000+g.r.Intn(5))
		case 1:
			o = nnsOp{T: t, Kind: "registerTLD", Name: []string{"net", "org", "com"}[g.r.Intn(3)], Email: "e@x.io", Refresh: 1, Retry: 2, Expire: []int64{0, 5, 3600}[g.r.Intn(3)], TTL: 4}
		case 2, 3:
			o.Kind, o.Name, o.Years, o.OneArg = "renew", []string{"com", "org"}[g.r.Intn(2)], 1, g.r.Intn(2) == 0
		default:
			o = nnsOp{T: t, Kind: "updateSOA", Name: []string{"com", "org"}[g.r.Intn(2)], Email: "ops@nspcc.ru", Refresh: 5, Retry: 6, Expire: 7, TTL: int64(8 + g.r.Intn(5))}
		}
		o.Signers, o.Via = signFor(g.cmtSigners())
		return o
	}
	mk := func(o nnsOp, ps []int) nnsOp {
		o.T = t
		o.Signers, o.Via = signFor(ps)
		return o
	}
	cmt := func() []int { return g.cmtSigners() }
	email := func() string {
		if g.r.Intn(40) == 0 {
			return nnsEmails[g.r.Intn(len(nnsEmails))]
		}
		return nnsEmails[g.r.Intn(2)]
	}
	switch step {
	case 0:
		return mk(nnsOp{Kind: "setPrice", Price: 1000}, []int{pCmt})
	case 1:
		return mk(nnsOp{Kind: "registerTLD", Name: "com", Email: "e@x.io", Refresh: 1, Retry: 2, Expire: 100 * 31536000, TTL: 4}, []int{pCmt})
	case 2:
		ex := int64(100 * 31536000)
		if g.r.Intn(4) == 0 {
			ex = []int64{3, 10, 3600}[g.r.Intn(3)]
		}
		return mk(nnsOp{Kind: "registerTLD", Name: "org", Email: "e@x.io", Refresh: 1, Retry: 2, Expire: ex, TTL: 4}, []int{pCmt})
	}
	if step == 3 || step == 4 || step == 5 && g.r.Intn(2) == 0 {
		name := []string{"a.com", "b.com", "x.a.com"}[step-3]
		owner := nnsOwners[g.r.Intn(len(nnsOwners))]
		ps := []int{owner, g.book.get(nnsParent(name)).owner}
		ex := []int64{3, 3600, 31536000, 5 * 31536000, 9 * 31536000}[g.r.Intn(5)]
		return mk(nnsOp{Kind: "register", Name: name, Owner: owner, Email: "e@x.io", Refresh: 1, Retry: 2, Expire: ex, TTL: 4}, ps)
	}
	var w []int
	//            regTLD reg xfer renew setAdm add set del soa price tick reader
	switch g.prop {
	case "C10":
		w = []int{5, 30, 18, 14, 6, 3, 1, 1, 1, 2, 12, 7}
	case "C11":
		w = []int{5, 15, 12, 10, 12, 14, 10, 8, 8, 4, 1, 1}
	default:
		w = []int{2, 14, 3, 2, 2, 38, 14, 9, 4, 1, 5, 6}
	}
	switch g.pick(w...) {
	case 0:
		name := []string{"com", "org", "org", "net", "a.com", "c"}[g.r.Intn(6)]
		ex := []int64{2, 10, 3600, 100 * 31536000}[g.r.Intn(4)]
		return mk(nnsOp{Kind: "registerTLD", Name: name, Email: email(), Refresh: 1, Retry: 2, Expire: ex, TTL: 4}, cmt())
	case 1:
		name := g.anyName()
		// prefer names whose parent chain is live
		for k := 0; k < 6 && !g.book.chainLive(nnsParent(name), t); k++ {
			name = g.anyName()
		}
		if g.r.Intn(4) == 0 {
			name = g.regName() // re-registration (live: false; expired: takeover)
		}
		owner := nnsOwners[g.r.Intn(len(nnsOwners))]
		switch g.r.Intn(45) {
		case 0:
			owner = ownNull
		case 1:
			owner = ownBad
		case 2:
			owner = pR
		}
		ps := []int{owner}
		if g.r.Intn(8) == 0 {
			ps = []int{g.stranger(owner)}
		}
		if nnsLevel(name) > 2 {
			par := g.book.get(nnsParent(name))
			switch g.pick(55, 15, 10, 10, 10) {
			case 0:
				ps = append(ps, par.owner)
			case 1:
				ps = append(ps, par.admin)
			case 2:
				ps = append(ps, par.formerOwner)
			case 3:
				// an enclosing name further up (the 2nd-level owner) instead of the direct parent
				if up := nnsParent(nnsParent(name)); nnsLevel(up) >= 2 {
					ps = append(ps, g.book.get(up).owner)
				}
			}
		}
		return mk(nnsOp{Kind: "register", Name: name, Owner: owner, Email: email(), Refresh: 1, Retry: 2, Expire: g.expire(), TTL: 4}, ps)
	case 2:
		name := g.regName()
		to := nnsOwners[g.r.Intn(len(nnsOwners))]
		switch g.r.Intn(30) {
		case 0:
			to = ownNull
		case 1:
			to = ownBad
		case 2, 3:
			to = pR
		case 4, 5, 6:
			to = g.book.get(name).owner // to self
		}
		op := nnsOp{Kind: "transfer", Name: name, Owner: to}
		if g.prop != "C12" && g.r.Intn(5) == 0 {
			// a receiver that calls back into NNS from onNEP11Payment
			op.Owner, op.Mode = pF, 1+g.r.Intn(4)
			op.Dest = append(append([]int{}, nnsOwners...), pR, g.book.get(name).owner)[g.r.Intn(len(nnsOwners)+2)]
			if op.Dest < 0 {
				op.Dest = pU0
			}
		}
		return mk(op, g.role(name))
	case 3:
		name := g.regName()
		if g.r.Intn(8) == 0 {
			name = "com"
		}
		y := int64(1 + g.r.Intn(3))
		switch g.r.Intn(10) {
		case 0:
			y = []int64{0, -1, 11, 10, 9}[g.r.Intn(5)]
		case 1:
			y = int64(1 + g.r.Intn(10))
		}
		if g.r.Intn(3) == 0 {
			return mk(nnsOp{Kind: "renew", Name: name, Years: 1, OneArg: true}, g.role(name)) // renew/1
		}
		return mk(nnsOp{Kind: "renew", Name: name, Years: y}, g.role(name))
	case 4:
		name := g.regName()
		adm := nnsOwners[g.r.Intn(len(nnsOwners))]
		switch g.r.Intn(12) {
		case 0, 1:
			adm = ownNull
		case 2:
			adm = ownBad
		}
		ps := g.role(name)
		if cur := g.book.get(name).admin; cur != ownNull && g.r.Intn(4) == 0 {
			ps = []int{cur} // the current admin tries to appoint (only the owner may)
		}
		if g.r.Intn(5) != 0 {
			ps = append(ps, adm)
		}
		return mk(nnsOp{Kind: "setAdmin", Name: name, Owner: adm}, ps)
	case 5:
		name := g.recName()
		typ := g.typ()
		return mk(nnsOp{Kind: "addRecord", Name: name, Typ: typ, Data: g.data(typ)}, g.role(g.book.token(strings.TrimSuffix(name, "."), t)))
	case 6:
		name := g.recName()
		typ := g.typ()
		id := int64(g.r.Intn(3))
		// prefer an existing (name, type, id) of the spec
		if ks := g.mon.keys(); len(ks) > 0 && g.r.Intn(5) != 0 {
			f := strings.Split(ks[g.r.Intn(len(ks))], "|")
			name = f[1]
			fmt.Sscan(f[2], &typ)
			id = int64(g.r.Intn(len(g.mon.recs[strings.Join(f, "|")])))
		}
		if g.r.Intn(8) == 0 {
			id = []int64{-1, 15, 16, 255, 256, -128, -129, 5}[g.r.Intn(8)]
		}
		data := g.data(typ)
		if cur := g.mon.recs[rkeyOf(g.book.token(name, t), name, typ)]; id >= 0 && int(id) < len(cur) && g.r.Intn(4) == 0 {
			data = cur[id] // the value the record already holds: still a mutation (SOA serial)
		}
		return mk(nnsOp{Kind: "setRecord", Name: name, Typ: typ, ID: id, Data: data}, g.role(g.book.token(name, t)))
	case 7:
		name := g.recName()
		typ := g.typ()
		if ks := g.mon.keys(); len(ks) > 0 && g.r.Intn(3) != 0 {
			f := strings.Split(ks[g.r.Intn(len(ks))], "|")
			name = f[1]
			fmt.Sscan(f[2], &typ)
		}
		return mk(nnsOp{Kind: "deleteRecords", Name: name, Typ: typ}, g.role(g.book.token(name, t)))
	case 8:
		name := g.regName()
		return mk(nnsOp{Kind: "updateSOA", Name: name, Email: email(), Refresh: 5, Retry: 6, Expire: 7, TTL: 8}, g.role(name))
	case 9:
		p := []int64{0, 1, 1000, 1000, 1_0000_0000, -1, 1_0000_0000_0000 + 1}[g.r.Intn(7)]
		return mk(nnsOp{Kind: "setPrice", Price: p}, cmt())
	case 10:
		return mk(nnsOp{Kind: "totalSupply"}, nil)
	}
	name := g.recName()
	switch g.r.Intn(6) {
	case 0:
		return mk(nnsOp{Kind: "ownerOf", Name: name}, nil)
	case 1:
		return mk(nnsOp{Kind: "isAvailable", Name: name}, nil)
	case 2:
		return mk(nnsOp{Kind: "resolve", Name: name, Typ: g.typ()}, nil)
	case 3:
		return mk(nnsOp{Kind: "getRecords", Name: name, Typ: g.typ()}, nil)
	case 4:
		return mk(nnsOp{Kind: "balanceOf", Owner: []int{pU0, ownNull, ownBad}[g.r.Intn(3)]}, nil)
	}
	return mk(nnsOp{Kind: "properties", Name: name}, nil)
}

// ---------------------------------------------------------------------------
// Reader lists (the observation vector of each property)

func nnsReaders(prop string) []nnsOp {
	var rs []nnsOp
	var sub []string
	for _, n := range nnsValidNames() {
		if nnsLevel(n) >= 2 {
			sub = append(sub, n)
		}
	}
	switch prop {
	case "C10":
		rs = append(rs, nnsOp{Kind: "totalSupply"}, nnsOp{Kind: "tokens"}, nnsOp{Kind: "roots"}, nnsOp{Kind: "getPrice"})
		for _, p := range nnsObservedOwners {
			rs = append(rs, nnsOp{Kind: "balanceOf", Owner: p}, nnsOp{Kind: "tokensOf", Owner: p})
		}
		rs = append(rs, nnsOp{Kind: "isAvailable", Name: "com"}, nnsOp{Kind: "isAvailable", Name: "org"})
		for _, n := range sub {
			rs = append(rs, nnsOp{Kind: "isAvailable", Name: n}, nnsOp{Kind: "ownerOf", Name: n}, nnsOp{Kind: "properties", Name: n})
		}
	case "C11":
		rs = append(rs, nnsOp{Kind: "totalSupply"}, nnsOp{Kind: "tokens"}, nnsOp{Kind: "roots"}, nnsOp{Kind: "getPrice"},
			nnsOp{Kind: "resolve", Name: "com.", Typ: tSOA}, nnsOp{Kind: "resolve", Name: "org.", Typ: tSOA})
		for _, n := range sub {
			rs = append(rs, nnsOp{Kind: "ownerOf", Name: n}, nnsOp{Kind: "properties", Name: n}, nnsOp{Kind: "getAllRecords", Name: n})
		}
	default:
		for _, n := range sub {
			rs = append(rs, nnsOp{Kind: "getRecords", Name: n, Typ: tTXT}, nnsOp{Kind: "getAllRecords", Name: n},
				nnsOp{Kind: "resolve", Name: n, Typ: tTXT})
			if nnsLevel(n) <= 3 {
				rs = append(rs, nnsOp{Kind: "isAvailable", Name: n})
			}
			if nnsLevel(n) == 2 || n == "x.a.com" {
				rs = append(rs, nnsOp{Kind: "getRecords", Name: n, Typ: tCNAME}) // the CNAME records of every name are in getAllRecords
			}
			// the A views (same code path as TXT; the A records themselves are in
			// getAllRecords of every name) only for three names, to keep the quick tier short
			if n == "a.com" || n == "x.a.com" || n == "b.com" {
				rs = append(rs, nnsOp{Kind: "getRecords", Name: n, Typ: tA}, nnsOp{Kind: "resolve", Name: n, Typ: tA})
			}
		}
		rs = append(rs, nnsOp{Kind: "resolve", Name: "a.com.", Typ: tTXT}, nnsOp{Kind: "resolve", Name: "a.com", Typ: tCNAME},
			nnsOp{Kind: "getRecords", Name: "a.com", Typ: tSOA}, nnsOp{Kind: "getRecords", Name: "a.com", Typ: tAAAA})
	}
	return rs
}

// ---------------------------------------------------------------------------
// Corpus: hand-written boundary histories, run first. Times are offsets from
// the chain's time at the start of the history.

// nnsCorpusRotate: the committee is re-elected in the middle of the history;
// afterwards every committee-gated path is tried by the former committee
// account, the current one, both, a stranger. A name owned by the former
// committee's ACCOUNT (an ordinary 20-byte owner) stays with that account.
func nnsCorpusRotate(prop string) []nnsHist {
	if prop == "C12" {
		return nil
	}
	const Y = int64(31536000)
	var h []nnsOp
	t := uint64(0)
	add := func(o nnsOp, ps ...int) {
		t++
		o.T = t
		o.Signers, o.Via = signFor(ps)
		h = append(h, o)
	}
	tld := func(name string, ex int64, ps ...int) {
		add(nnsOp{Kind: "registerTLD", Name: name, Email: "e@x.io", Refresh: 1, Retry: 2, Expire: ex, TTL: 4}, ps...)
	}
	add(nnsOp{Kind: "setPrice", Price: 1000}, pCmt)
	tld("com", 100*Y, pCmt)
	tld("org", 3600, pCmt)
	add(nnsOp{Kind: "register", Name: "a.com", Owner: pCmt, Email: "e@x.io", Refresh: 1, Retry: 2, Expire: 3600, TTL: 4}, pCmt)
	add(nnsOp{Kind: "setPrice", Price: 1001}, pCmt2) // no such account yet: dropped signer, refused
	h = append(h, nnsOp{Kind: "rotate"})
	for i, ps := range [][]int{{pCmt}, {pU0}, {}, {pCmt, pCmt2}, {pCmt2}} {
		add(nnsOp{Kind: "setPrice", Price: int64(2000 + i)}, ps...)
		tld("net", 0, ps...)
		add(nnsOp{Kind: "renew", Name: "com", Years: 1}, ps...)
		add(nnsOp{Kind: "renew", Name: "org", Years: 1}, ps...)
		add(nnsOp{Kind: "updateSOA", Name: "org", Email: "ops@nspcc.ru", Refresh: 5, Retry: 6, Expire: 7, TTL: int64(8 + i)}, ps...)
		add(nnsOp{Kind: "register", Name: "b.com", Owner: pU0, Email: "e@x.io", Refresh: 1, Retry: 2, Expire: 0, TTL: 4}, append([]int{pU0}, ps...)...)
		if prop == "C11" {
			add(nnsOp{Kind: "addRecord", Name: "a.com", Typ: tTXT, Data: fmt.Sprintf("r%d", i)}, ps...)
			add(nnsOp{Kind: "renew", Name: "a.com", Years: 1}, ps...)
		}
	}
	add(nnsOp{Kind: "transfer", Name: "a.com", Owner: pCmt2}, pCmt)
	add(nnsOp{Kind: "transfer", Name: "a.com", Owner: pCmt}, pCmt)
	add(nnsOp{Kind: "transfer", Name: "a.com", Owner: pCmt}, pCmt2)
	return []nnsHist{{1, h}}
}

// nnsCorpusN: the committee-gated methods under every kind of account that
// can be built from the committee keys, on committees of 4 (n/2+1 = 3 = 2n/3+1,
// half = 2) and of 3 keys (n/2+1 = 2, 2n/3+1 = 3, half = 1).
func nnsCorpusN(prop string) []nnsHist {
	if prop == "C12" {
		return nil
	}
	const Y = int64(31536000)
	var out []nnsHist
	for _, ncmt := range []int{4, 3} {
		var h []nnsOp
		t := uint64(0)
		add := func(o nnsOp, ps ...int) {
			t++
			o.T = t
			o.Signers, o.Via = signFor(ps)
			h = append(h, o)
		}
		add(nnsOp{Kind: "setPrice", Price: 1000}, pCmt)
		add(nnsOp{Kind: "registerTLD", Name: "com", Email: "e@x.io", Refresh: 1, Retry: 2, Expire: 100 * Y, TTL: 4}, pCmt)
		add(nnsOp{Kind: "register", Name: "a.com", Owner: pCmt, Email: "e@x.io", Refresh: 1, Retry: 2, Expire: 3600, TTL: 4}, pCmt)
		for i, ps := range [][]int{{pHalf}, {pAlpha}, {pMember}, {pU0}, {pHalf, pMember, pU0}, {}, {pCmt}, {pCmt, pHalf}} {
			add(nnsOp{Kind: "setPrice", Price: int64(2000 + i)}, ps...)
			add(nnsOp{Kind: "registerTLD", Name: "org", Email: "e@x.io", Refresh: 1, Retry: 2, Expire: 0, TTL: 4}, ps...)
			add(nnsOp{Kind: "renew", Name: "com", Years: 1}, ps...)
			add(nnsOp{Kind: "updateSOA", Name: "com", Email: "ops@nspcc.ru", Refresh: 5, Retry: 6, Expire: 7, TTL: int64(8 + i)}, ps...)
			if prop == "C11" {
				// a name owned by the committee ACCOUNT (20 bytes) follows the same account
				add(nnsOp{Kind: "addRecord", Name: "a.com", Typ: tTXT, Data: fmt.Sprintf("r%d", i)}, ps...)
				add(nnsOp{Kind: "transfer", Name: "a.com", Owner: pCmt}, ps...)
			}
		}
		out = append(out, nnsHist{ncmt, h})
	}
	return out
}

// nnsHist is a corpus history with the committee size of its chain.
type nnsHist struct {
	N   int
	Ops []nnsOp
}

func nnsCorpus(prop string) []nnsHist {
	var out []nnsHist
	for _, h := range nnsCorpus1(prop) {
		out = append(out, nnsHist{1, h})
	}
	out = append(out, nnsCorpusN(prop)...)
	return append(out, nnsCorpusRotate(prop)...)
}

func nnsCorpus1(prop string) [][]nnsOp {
	const Y = int64(31536000)
	var h []nnsOp
	t := uint64(0)
	at := func(abs uint64) { t = abs - 1 }
	add := func(o nnsOp, ps ...int) {
		t++
		o.T = t
		o.Signers, o.Via = signFor(ps)
		h = append(h, o)
	}
	start := func() {
		h, t = nil, 0
		add(nnsOp{Kind: "setPrice", Price: 1000}, pCmt)
		add(nnsOp{Kind: "registerTLD", Name: "com", Email: "e@x.io", Refresh: 1, Retry: 2, Expire: 100 * Y, TTL: 4}, pCmt)
	}
	reg := func(name string, owner int, expire int64, ps ...int) {
		add(nnsOp{Kind: "register", Name: name, Owner: owner, Email: "e@x.io", Refresh: 1, Retry: 2, Expire: expire, TTL: 4}, ps...)
	}
	rec := func(kind, name string, typ, id int64, data string, ps ...int) {
		add(nnsOp{Kind: kind, Name: name, Typ: typ, ID: id, Data: data}, ps...)
	}
	tick := func() { add(nnsOp{Kind: "totalSupply"}) }
	var out [][]nnsOp
	switch prop {
	case "C10":
		// 1: lifecycle around the expiration instant, takeover, transfers, renewals
		start()
		reg("a.com", pU0, 2, pU0) // t=3, exp = 2003
		at(2002)
		reg("a.com", pU1, 3600, pU1) // exp-1: live, false
		reg("a.com", pU1, 3600, pU1) // exp: takeover
		reg("a.com", pU2, 3600, pU2) // live again: false
		add(nnsOp{Kind: "transfer", Name: "a.com", Owner: pU2}, pU1)
		add(nnsOp{Kind: "transfer", Name: "a.com", Owner: pU2}, pU2) // to self
		add(nnsOp{Kind: "transfer", Name: "a.com", Owner: pC}, pU2)
		add(nnsOp{Kind: "transfer", Name: "a.com", Owner: pR}, pC)   // receiver faults
		add(nnsOp{Kind: "transfer", Name: "a.com", Owner: pU0}, pU1) // not the owner: false
		add(nnsOp{Kind: "transfer", Name: "a.com", Owner: pU0}, pC)
		add(nnsOp{Kind: "renew", Name: "a.com", Years: 1}, pU0)
		add(nnsOp{Kind: "renew", Name: "a.com", Years: 10}, pU0)
		add(nnsOp{Kind: "renew", Name: "a.com", Years: 9}, pU0)
		add(nnsOp{Kind: "renew", Name: "a.com", Years: 1}, pU0)
		add(nnsOp{Kind: "renew", Name: "a.com", Years: 0}, pU0)
		add(nnsOp{Kind: "renew", Name: "a.com", Years: 11}, pU0)
		add(nnsOp{Kind: "renew", Name: "com", Years: 10}, pCmt)
		add(nnsOp{Kind: "setAdmin", Name: "a.com", Owner: pU1}, pU0, pU1)
		add(nnsOp{Kind: "transfer", Name: "a.com", Owner: pU2}, pU0)
		reg("x.a.com", pU1, 5, pU1, pU2)
		reg("w.x.a.com", pC, 5, pC, pU1)
		reg("w.x.a.com", pC, 5, pC)
		out = append(out, h)
		// 8: take-over of an expired name that had an admin: the new name state starts
		// without one; renew/1 = one year
		start()
		reg("a.com", pU0, 2, pU0) // t=3, exp 2003
		add(nnsOp{Kind: "setAdmin", Name: "a.com", Owner: pU1}, pU0, pU1)
		reg("x.a.com", pU0, 2, pU0)
		add(nnsOp{Kind: "setAdmin", Name: "x.a.com", Owner: pC}, pU0, pC)
		at(2003)
		tick()
		reg("a.com", pU2, 3600, pU2)                                          // take-over: admin gone
		add(nnsOp{Kind: "renew", Name: "a.com", Years: 1, OneArg: true}, pU1) // the former admin
		add(nnsOp{Kind: "renew", Name: "a.com", Years: 1, OneArg: true}, pU2)
		reg("x.a.com", pU1, 3600, pU2, pU1) // one level down
		reg("a.com", pU2, 3600, pU2)        // live: false, nothing changes
		out = append(out, h)
		// 7: receiver contracts that call back into NNS from onNEP11Payment: forward,
		// send back, read during the callback, refuse; nested receivers
		start()
		reg("a.com", pU0, 3600, pU0)
		reg("b.com", pU1, 3600, pU1)
		fw := func(name string, mode, dest int, ps ...int) {
			add(nnsOp{Kind: "transfer", Name: name, Owner: pF, Mode: mode, Dest: dest}, ps...)
		}
		fw("a.com", 3, pU0, pU0) // received, read during the callback
		fw("a.com", 1, pU1, pF)  // F -> F (self) and on to U1
		fw("a.com", 1, pU2, pU1) // U1 -> F -> U2: two hand-overs, two notifications
		fw("a.com", 2, pU0, pU2) // U2 -> F -> U2
		fw("a.com", 4, pU0, pU2) // refused: nothing moves
		fw("a.com", 1, pR, pU2)  // forwarded to a contract that refuses: nothing moves
		fw("a.com", 1, pC, pU2)  // forwarded to a passive contract
		fw("a.com", 1, pF, pC)   // forwarded to itself (no data: accepted)
		fw("b.com", 1, pU0, pU0) // not the owner: false, no callback
		fw("b.com", 1, ownBad, pU1)
		fw("b.com", 0, pU0, pU1) // no data: accepted silently
		add(nnsOp{Kind: "transfer", Name: "b.com", Owner: pU1}, pF)
		add(nnsOp{Kind: "setAdmin", Name: "b.com", Owner: pU2}, pU1, pU2)
		fw("b.com", 2, pU0, pU1)                                                                                                  // there and back: the admin is gone
		add(nnsOp{Kind: "register", Name: "x.a.com", Owner: pF, Email: "e@x.io", Refresh: 1, Retry: 2, Expire: 3600, TTL: 4}, pF) // minted to the receiver
		out = append(out, h)
		// 6: the direct parent expired: no registration below it until it is taken over
		start()
		reg("a.com", pU0, 2, pU0) // t=3, exp 2003
		reg("x.a.com", pU1, 9*Y, pU0, pU1)
		at(2002)
		reg("y.a.com", pU0, 5, pU0)  // exp-1: still fine
		reg("ax.a.com", pU0, 5, pU0) // exp: refused
		reg("w.x.a.com", pU1, 3600, pU1)
		reg("a.com", pU2, 3600, pU2) // takeover
		reg("ax.a.com", pU0, 5, pU0)
		reg("ax.a.com", pU0, 5, pU0, pU2)
		out = append(out, h)
		// 2: parent chain expiry and TLD re-registration
		start()
		add(nnsOp{Kind: "registerTLD", Name: "org", Email: "e@x.io", Refresh: 1, Retry: 2, Expire: 3, TTL: 4}, pCmt) // t=3, exp 3003
		reg("a.org", pU0, 3600, pU0)
		reg("x.a.org", pU1, 3600, pU0, pU1)
		add(nnsOp{Kind: "registerTLD", Name: "org", Email: "e@x.io", Refresh: 1, Retry: 2, Expire: 3, TTL: 4}, pCmt) // exists
		at(3002)
		tick()
		tick() // org expired: a.org, x.a.org unreadable; isAvailable(org) faults
		add(nnsOp{Kind: "isAvailable", Name: "org"})
		add(nnsOp{Kind: "transfer", Name: "a.org", Owner: pU2}, pU0) // transfer ignores the parent chain
		add(nnsOp{Kind: "renew", Name: "a.org", Years: 1}, pU2)
		add(nnsOp{Kind: "renew", Name: "org", Years: 1}, pCmt)
		add(nnsOp{Kind: "registerTLD", Name: "org", Email: "e@x.io", Refresh: 1, Retry: 2, Expire: 3600, TTL: 4}, pU0)
		add(nnsOp{Kind: "registerTLD", Name: "org", Email: "e@x.io", Refresh: 1, Retry: 2, Expire: 3600, TTL: 4}, pCmt)
		tick()
		out = append(out, h)
		// 4: takeover of an expired sub-name while the parent holds records below it
		start()
		reg("a.com", pU0, 9*Y, pU0)
		reg("x.a.com", pU1, 2, pU0, pU1) // t=4, exp 2004
		at(2003)
		tick()
		rec("addRecord", "w.x.a.com", tTXT, 0, "t2", pU0) // t = exp: lands under a.com
		reg("x.a.com", pU2, 3600, pU0, pU2)               // refused: accounting must not move
		rec("deleteRecords", "w.x.a.com", tTXT, 0, "", pU0)
		reg("x.a.com", pU2, 3600, pU0, pU2) // takeover U1 -> U2
		out = append(out, h)
		// 5: other spellings of a registered name in every method that takes a name
		// or a token id: none of them is the token (only resolve strips one dot);
		// the accounting is judged after each call
		start()
		reg("a.com", pU0, 3600, pU0)
		for _, v := range nnsSpellings("a.com") {
			add(nnsOp{Kind: "transfer", Name: v, Owner: pU1}, pU0)
			add(nnsOp{Kind: "ownerOf", Name: v})
			add(nnsOp{Kind: "properties", Name: v})
			add(nnsOp{Kind: "isAvailable", Name: v})
			add(nnsOp{Kind: "renew", Name: v, Years: 1}, pU0)
			add(nnsOp{Kind: "setAdmin", Name: v, Owner: pU1}, pU0, pU1)
			reg(v, pU2, 3600, pU2)
		}
		add(nnsOp{Kind: "transfer", Name: "a.com", Owner: pU1}, pU0)
		for _, v := range nnsSpellings("a.com") {
			add(nnsOp{Kind: "transfer", Name: v, Owner: pC}, pU1)
		}
		out = append(out, h)
		// 3: price, degenerate lifetimes and owners
		h, t = nil, 0
		add(nnsOp{Kind: "registerTLD", Name: "com", Email: "e@x.io", Refresh: 1, Retry: 2, Expire: 100 * Y, TTL: 4}, pCmt)
		reg("a.com", pU0, 3600, pU0) // default price
		add(nnsOp{Kind: "setPrice", Price: 0}, pCmt)
		reg("b.com", pU0, 3600, pU0)
		add(nnsOp{Kind: "renew", Name: "a.com", Years: 1}, pU0)
		add(nnsOp{Kind: "setPrice", Price: 1000}, pU0)
		add(nnsOp{Kind: "setPrice", Price: 1000}, pCmt)
		reg("b.com", pU0, 0, pU0)
		reg("b.com", pU1, -1, pU1)
		reg("x.b.com", pU1, 5, pU1)
		reg("ab.com", ownNull, 5, pU1)
		reg("ab.com", ownBad, 5, pU1)
		reg("ab.com", pR, 5, pR)
		reg("ab.com", pCmt, 5, pCmt)
		reg("com", pU0, 5, pU0)
		reg("A.com", pU0, 5, pU0)
		reg("a.net", pU0, 5, pU0)
		reg("x.a.com", pU0, 0, pU0)
		reg("w.x.a.com", pU0, 5, pU0)
		out = append(out, h)
	case "C11":
		// the role matrix on one name, before and after a transfer and a takeover
		start()
		reg("a.com", pU0, 3, pU0) // exp 3003
		add(nnsOp{Kind: "setAdmin", Name: "a.com", Owner: pU1}, pU0)
		add(nnsOp{Kind: "setAdmin", Name: "a.com", Owner: pU1}, pU1)
		add(nnsOp{Kind: "setAdmin", Name: "a.com", Owner: pU1}, pU0, pU1)
		rec("addRecord", "a.com", tTXT, 0, "t1", pU0)
		matrix := func() {
			// the signer sets that must NOT be able to transfer / appoint come first
			// (while the state still has owner, admin and records), the owner last
			for _, ps := range [][]int{{pU1}, {pU2}, {pCmt}, {}, {pU1, pU2}, {pU0}} {
				rec("addRecord", "a.com", tTXT, 0, "t2", ps...)
				rec("setRecord", "a.com", tTXT, 0, "t3", ps...)
				rec("deleteRecords", "a.com", tA, 0, "", ps...)
				add(nnsOp{Kind: "updateSOA", Name: "a.com", Email: "ops@nspcc.ru", Refresh: 5, Retry: 6, Expire: 7, TTL: 8}, ps...)
				add(nnsOp{Kind: "renew", Name: "a.com", Years: 1}, ps...)
				add(nnsOp{Kind: "renew", Name: "a.com", Years: 1, OneArg: true}, ps...) // every overload
				add(nnsOp{Kind: "renew", Name: "com", Years: 1, OneArg: true}, ps...)
				reg("x.a.com", pU2, 3600, append([]int{pU2}, ps...)...)
				add(nnsOp{Kind: "setAdmin", Name: "a.com", Owner: pU2}, ps...)
				add(nnsOp{Kind: "transfer", Name: "a.com", Owner: pU2}, ps...) // (by the owner: while an admin is appointed)
				add(nnsOp{Kind: "setAdmin", Name: "a.com", Owner: ownNull}, ps...)
				add(nnsOp{Kind: "setPrice", Price: 1}, ps...)
				add(nnsOp{Kind: "registerTLD", Name: "org", Email: "e@x.io", Refresh: 1, Retry: 2, Expire: 5, TTL: 4}, ps...)
			}
		}
		matrix()
		// a.com now belongs to U2: the former owner's admin U1 and the former owner are out
		for _, ps := range [][]int{{pU1}, {pU0}, {pU0, pU1}} {
			rec("addRecord", "a.com", tTXT, 0, "t2", ps...)
			add(nnsOp{Kind: "renew", Name: "a.com", Years: 1}, ps...)
			add(nnsOp{Kind: "updateSOA", Name: "a.com", Email: "e@x.io", Refresh: 5, Retry: 6, Expire: 7, TTL: 9}, ps...)
			reg("y.a.com", pU1, 3600, ps...)
		}
		out = append(out, h)
		start()
		reg("a.com", pU0, 3, pU0) // exp 3003
		add(nnsOp{Kind: "setAdmin", Name: "a.com", Owner: pU1}, pU0, pU1)
		reg("x.a.com", pC, 3600, pC, pU1)               // admin of the parent registers for the contract
		rec("addRecord", "x.a.com", tTXT, 0, "t1", pU0) // parent owner cannot touch a registered sub-name
		rec("addRecord", "x.a.com", tTXT, 0, "t1", pC)
		rec("addRecord", "y.a.com", tTXT, 0, "t1", pU1) // unregistered sub-name: the parent's admin
		at(3003)
		reg("a.com", pU2, 3600, pU2) // takeover
		matrix()
		out = append(out, h)
		// a 2nd-level name outliving its TLD: nothing but transfer works on it any more
		start()
		add(nnsOp{Kind: "registerTLD", Name: "org", Email: "e@x.io", Refresh: 1, Retry: 2, Expire: 3, TTL: 4}, pCmt) // t=3, exp 3003
		reg("a.org", pU0, 3600, pU0)
		rec("addRecord", "a.org", tTXT, 0, "t1", pU0)
		at(3003)
		rec("addRecord", "a.org", tTXT, 0, "t2", pU0)
		rec("setRecord", "a.org", tTXT, 0, "t3", pU0)
		rec("deleteRecords", "a.org", tTXT, 0, "", pU0)
		add(nnsOp{Kind: "updateSOA", Name: "a.org", Email: "ops@nspcc.ru", Refresh: 5, Retry: 6, Expire: 7, TTL: 8}, pU0)
		add(nnsOp{Kind: "renew", Name: "a.org", Years: 1}, pU0)
		add(nnsOp{Kind: "setAdmin", Name: "a.org", Owner: pU1}, pU0, pU1)
		reg("x.a.org", pU0, 3600, pU0)
		add(nnsOp{Kind: "transfer", Name: "a.org", Owner: pU1}, pU0)
		out = append(out, h)
		// the named owner / admin is only the Sender with scope None (a fee sponsor), or
		// signs with CalledByEntry while the call goes through a contract: not a witness
		start()
		sp := func(o nnsOp, sponsor int, entry bool, via int, ps ...int) {
			add(o, ps...)
			h[len(h)-1].Sponsor, h[len(h)-1].Entry = sponsor+1, entry
			if via != 0 {
				h[len(h)-1].Via = via
			}
		}
		regOp := func(name string, owner int) nnsOp {
			return nnsOp{Kind: "register", Name: name, Owner: owner, Email: "e@x.io", Refresh: 1, Retry: 2, Expire: 3600, TTL: 4}
		}
		sp(regOp("a.com", pU0), pU0, false, 0)      // minted to the sponsor? no
		sp(regOp("a.com", pU0), pU0, false, 0, pU2) // nor with a stranger signing
		sp(regOp("a.com", pU0), -1, true, pC, pU0)  // CalledByEntry through a contract
		sp(regOp("a.com", pU0), -1, true, 0, pU0)   // CalledByEntry, direct call: a witness
		sp(nnsOp{Kind: "setAdmin", Name: "a.com", Owner: pU1}, pU0, false, 0, pU1)
		sp(nnsOp{Kind: "setAdmin", Name: "a.com", Owner: pU1}, pU1, false, 0, pU0)
		sp(nnsOp{Kind: "setAdmin", Name: "a.com", Owner: pU1}, -1, false, 0, pU0, pU1)
		for _, c := range []struct {
			sponsor int
			entry   bool
			via     int
			ps      []int
		}{{pU0, false, 0, nil}, {pU1, false, 0, []int{pU2}}, {-1, true, pC, []int{pU0}}, {-1, true, pR, []int{pU1}}, {-1, true, 0, []int{pU1}}} {
			sp(nnsOp{Kind: "addRecord", Name: "a.com", Typ: tTXT, Data: "t1"}, c.sponsor, c.entry, c.via, c.ps...)
			sp(nnsOp{Kind: "renew", Name: "a.com", Years: 1}, c.sponsor, c.entry, c.via, c.ps...)
			sp(nnsOp{Kind: "updateSOA", Name: "a.com", Email: "ops@nspcc.ru", Refresh: 5, Retry: 6, Expire: 7, TTL: 8}, c.sponsor, c.entry, c.via, c.ps...)
			sp(regOp("x.a.com", pU2), c.sponsor, c.entry, c.via, append([]int{pU2}, c.ps...)...)
			sp(nnsOp{Kind: "transfer", Name: "a.com", Owner: pU2}, c.sponsor, c.entry, c.via, c.ps...)
		}
		out = append(out, h)
		// chains a.com -> x.a.com -> w.x.a.com (three owners) with exactly ONE link expired, each
		// position: while an ancestor is expired nobody — no ancestor's owner or admin, not its
		// own owner — can touch the deepest name ("parent domain has expired"); when it is the
		// deepest name itself that expired, its records go under the live parent
		for _, dead := range []string{"x.a.com", "a.com", "w.x.a.com"} {
			start()
			life := func(n0 string) int64 {
				if n0 == dead {
					return 3
				}
				return 9 * Y
			}
			reg("a.com", pU0, life("a.com"), pU0)              // t=3
			reg("x.a.com", pU1, life("x.a.com"), pU0, pU1)     // t=4
			reg("w.x.a.com", pU2, life("w.x.a.com"), pU1, pU2) // t=5
			add(nnsOp{Kind: "setAdmin", Name: "a.com", Owner: pC}, pU0, pC)
			rec("addRecord", "w.x.a.com", tTXT, 0, "t1", pU2)
			at(3006) // all short lives are over
			for _, ps := range [][]int{{pU0}, {pU1}, {pU2}, {pC}, {pCmt}, {pU0, pU1, pU2}} {
				rec("addRecord", "w.x.a.com", tTXT, 0, "t2", ps...)
				rec("setRecord", "w.x.a.com", tTXT, 0, "t3", ps...)
				rec("deleteRecords", "w.x.a.com", tTXT, 0, "", ps...)
				add(nnsOp{Kind: "updateSOA", Name: "w.x.a.com", Email: "ops@nspcc.ru", Refresh: 5, Retry: 6, Expire: 7, TTL: 8}, ps...)
				add(nnsOp{Kind: "renew", Name: "w.x.a.com", Years: 1, OneArg: true}, ps...)
				add(nnsOp{Kind: "setAdmin", Name: "w.x.a.com", Owner: ownNull}, ps...)
				rec("addRecord", "v.w.x.a.com", tTXT, 0, "t4", ps...)
			}
			out = append(out, h)
		}
		// renew/1 and renew/2 by the owner up to the ten-year cap; strangers and owners of
		// other names renew nothing, whatever the overload
		start()
		reg("a.com", pU0, 3600, pU0)
		reg("b.com", pU1, 3600, pU1)
		for i := 0; i < 10; i++ {
			add(nnsOp{Kind: "renew", Name: "a.com", Years: 1, OneArg: true}, pU0) // the 10th goes beyond ten years
		}
		for _, ps := range [][]int{{pU1}, {pU2}, {pCmt}, {}, {pC}} {
			add(nnsOp{Kind: "renew", Name: "a.com", Years: 1, OneArg: true}, ps...)
			add(nnsOp{Kind: "renew", Name: "b.com", Years: 1, OneArg: true}, append([]int{pU0}, ps[:0]...)...)
			add(nnsOp{Kind: "renew", Name: "com", Years: 1, OneArg: true}, ps...)
		}
		add(nnsOp{Kind: "renew", Name: "b.com", Years: 9}, pU1)
		add(nnsOp{Kind: "renew", Name: "b.com", Years: 1, OneArg: true}, pU1)
		out = append(out, h)
		// a 3rd-level name expires while its parent lives: re-registration needs the parent's
		// owner/admin again; registering a LIVE name once more (by its owner) changes nothing
		start()
		reg("a.com", pU0, 9*Y, pU0)
		add(nnsOp{Kind: "setAdmin", Name: "a.com", Owner: pU1}, pU0, pU1)
		reg("x.a.com", pU1, 2, pU1)  // by the parent's admin; t=5, exp 2005
		reg("a.com", pU0, 3600, pU0) // live: false, admin and expiration stay
		reg("x.a.com", pU1, 3600, pU1)
		at(2005)
		reg("x.a.com", pU2, 3600, pU2)       // a stranger alone
		reg("x.a.com", pC, 3600, pC)         // a contract alone
		reg("x.a.com", pU2, 3600, pU2, pCmt) // nor the committee
		reg("x.a.com", pU2, 3600, pU0, pU2)  // with the parent's owner
		reg("x.a.com", pU2, 3600, pU0, pU2)  // live again: false
		out = append(out, h)
		// the direct parent expired: its owner cannot plant sub-names any more
		start()
		reg("a.com", pU0, 2, pU0) // t=3, exp 2003
		reg("x.a.com", pU1, 9*Y, pU0, pU1)
		at(2003)
		reg("y.a.com", pU0, 3600, pU0)
		reg("w.x.a.com", pU1, 3600, pU1) // its parent x.a.com lives, a.com above it does not
		reg("a.com", pU2, 3600, pU2)     // takeover
		reg("y.a.com", pU0, 3600, pU0)   // the former owner
		reg("y.a.com", pU0, 3600, pU0, pU2)
		out = append(out, h)
		// 4th level: the directly enclosing name decides, not the 2nd-level owner
		start()
		reg("a.com", pU0, 9*Y, pU0)
		reg("x.a.com", pU1, 9*Y, pU0, pU1)
		reg("w.x.a.com", pU2, 3600, pU0, pU2) // grandparent's owner: refused
		reg("w.x.a.com", pU2, 3600, pU2)
		reg("w.x.a.com", pU2, 3600, pCmt, pU2)
		reg("w.x.a.com", pU2, 3600, pU1, pU2) // the parent's owner
		rec("addRecord", "w.x.a.com", tTXT, 0, "t1", pU0)
		rec("addRecord", "w.x.a.com", tTXT, 0, "t1", pU1)
		rec("addRecord", "w.x.a.com", tTXT, 0, "t1", pU2)
		out = append(out, h)
		// other spellings of the name, signed by the owner: not the name
		start()
		reg("a.com", pU0, 3600, pU0)
		rec("addRecord", "a.com", tTXT, 0, "t1", pU0)
		for _, v := range nnsSpellings("a.com") {
			rec("addRecord", v, tTXT, 0, "t2", pU0)
			rec("setRecord", v, tTXT, 0, "t3", pU0)
			rec("deleteRecords", v, tTXT, 0, "", pU0)
			add(nnsOp{Kind: "updateSOA", Name: v, Email: "ops@nspcc.ru", Refresh: 5, Retry: 6, Expire: 7, TTL: 8}, pU0)
			add(nnsOp{Kind: "renew", Name: v, Years: 1}, pU0)
			add(nnsOp{Kind: "setAdmin", Name: v, Owner: pU1}, pU0, pU1)
			add(nnsOp{Kind: "transfer", Name: v, Owner: pU1}, pU0)
			reg("x."+v, pU2, 3600, pU0, pU2)
		}
		out = append(out, h)
	default:
		// 0: other spellings of the name in the record methods and readers
		start()
		reg("a.com", pU0, 3600, pU0)
		rec("addRecord", "a.com", tTXT, 0, "t1", pU0)
		rec("addRecord", "x.a.com", tTXT, 0, "t2", pU0)
		for i, v := range append(nnsSpellings("a.com")[:4], "x.a.com.", "x.a.com ") {
			rec("addRecord", v, tTXT, 0, "t3", pU0)
			add(nnsOp{Kind: "resolve", Name: v, Typ: tTXT})
			if i%2 == 0 {
				rec("deleteRecords", v, tTXT, 0, "", pU0)
				add(nnsOp{Kind: "getRecords", Name: v, Typ: tTXT})
			}
			if i < 1 || i >= 5 {
				rec("setRecord", v, tTXT, 0, "t3", pU0)
				add(nnsOp{Kind: "getAllRecords", Name: v})
				add(nnsOp{Kind: "isAvailable", Name: v})
			}
		}
		add(nnsOp{Kind: "updateSOA", Name: "a.com.", Email: "ops@nspcc.ru", Refresh: 5, Retry: 6, Expire: 7, TTL: 8}, pU0)
		out = append(out, h)
		// 1: F14 — setRecord creates a duplicate
		start()
		reg("a.com", pU0, 3600, pU0)
		rec("addRecord", "a.com", tTXT, 0, "t1", pU0)
		rec("addRecord", "a.com", tTXT, 0, "t2", pU0)
		rec("setRecord", "a.com", tTXT, 0, "t2", pU0)
		rec("addRecord", "a.com", tTXT, 0, "t2", pU0)
		rec("setRecord", "a.com", tTXT, 2, "t3", pU0)
		// mutations that look like no-ops still refresh the zone's SOA serial (each op is a later block)
		rec("setRecord", "a.com", tTXT, 1, "t2", pU0)   // the value it already holds
		rec("deleteRecords", "a.com", tA, 0, "", pU0)   // a type without records
		rec("addRecord", "y.a.com", tTXT, 0, "t1", pU0) // a sub-name: the zone's serial
		rec("setRecord", "y.a.com", tTXT, 0, "t1", pU0) // same value again
		rec("deleteRecords", "y.a.com", tAAAA, 0, "", pU0)
		rec("deleteRecords", "a.com", tTXT, 0, "", pU0)
		rec("deleteRecords", "a.com", tTXT, 0, "", pU0) // already empty
		rec("addRecord", "a.com", tTXT, 0, "t1", pU0)   // re-add
		out = append(out, h)
		// 2: 17th record, second CNAME
		start()
		reg("a.com", pU0, 3600, pU0)
		for i := 0; i < 17; i++ {
			rec("addRecord", "a.com", tTXT, 0, fmt.Sprintf("r%d", i), pU0)
		}
		rec("setRecord", "a.com", tTXT, 15, "t1", pU0)
		rec("setRecord", "a.com", tTXT, 16, "t1", pU0)
		rec("addRecord", "a.com", tCNAME, 0, "b.com", pU0)
		rec("addRecord", "a.com", tCNAME, 0, "ab.com", pU0)
		rec("setRecord", "a.com", tCNAME, 0, "ab.com", pU0)
		rec("deleteRecords", "a.com", tSOA, 0, "", pU0)
		rec("deleteRecords", "a.com", tTXT, 0, "", pU0) // all 16, the one with id 15 included
		rec("addRecord", "a.com", tTXT, 0, "r0", pU0)
		out = append(out, h)
		// 3: CNAME chains of depth 0..4, a cycle, trailing dot
		start()
		chain := []string{"a.com", "b.com", "ab.com", "x.a.com", "y.a.com"}
		for _, n := range chain {
			reg(n, pU0, 3600, pU0)
			rec("addRecord", n, tTXT, 0, "t1", pU0)
		}
		rec("addRecord", "y.a.com", tA, 0, "1.2.3.4", pU0)
		for i := len(chain) - 2; i >= 0; i-- {
			rec("addRecord", chain[i], tCNAME, 0, chain[i+1], pU0)
		}
		add(nnsOp{Kind: "resolve", Name: "ab.com.", Typ: tTXT})
		add(nnsOp{Kind: "resolve", Name: "ab.com..", Typ: tTXT})
		rec("addRecord", "y.a.com", tCNAME, 0, "x.a.com", pU0) // cycle x -> y -> x
		rec("deleteRecords", "b.com", tCNAME, 0, "", pU0)
		rec("addRecord", "b.com", tCNAME, 0, "a.com", pU0) // cycle a -> b -> a
		rec("setRecord", "b.com", tCNAME, 0, "b.com", pU0) // self loop
		out = append(out, h)
		// 4: location under the longest registered name, conflicts, shadowing, deep sub-names
		start()
		reg("a.com", pU0, 3600, pU0)
		rec("addRecord", "w.x.a.com", tTXT, 0, "t1", pU0)
		rec("addRecord", "ax.a.com", tTXT, 0, "t2", pU0)
		rec("addRecord", "y.a.com", tTXT, 0, "t3", pU0)
		add(nnsOp{Kind: "resolve", Name: "w.x.a.com", Typ: tTXT})
		add(nnsOp{Kind: "getRecords", Name: "w.x.a.com", Typ: tTXT})
		reg("x.a.com", pU0, 3600, pU0) // blocked by w.x.a.com and (over-blocking) ax.a.com
		rec("deleteRecords", "w.x.a.com", tTXT, 0, "", pU0)
		reg("x.a.com", pU0, 3600, pU0) // still blocked by ax.a.com
		rec("deleteRecords", "ax.a.com", tTXT, 0, "", pU0)
		reg("x.a.com", pU0, 3600, pU0)
		reg("y.a.com", pU1, 2, pU0, pU1) // shadows the parent's record for y.a.com until it expires
		rec("addRecord", "y.a.com", tTXT, 0, "t1", pU1)
		t += 2000
		tick()
		out = append(out, h)
		// 5: type and id bytes
		start()
		reg("a.com", pU0, 3600, pU0)
		rec("addRecord", "a.com", tA, 0, "1.2.3.4", pU0)
		rec("addRecord", "a.com", tA, 0, "5.6.7.8", pU0)
		rec("addRecord", "y.a.com", tA, 0, "1.2.3.4", pU0)
		rec("addRecord", "y.a.com", tTXT, 0, "t1", pU0)
		rec("deleteRecords", "a.com", -250, 0, "", pU0)   // out of the byte range -128..255: SETITEM faults
		rec("deleteRecords", "y.a.com", -250, 0, "", pU0) // the same
		rec("deleteRecords", "a.com", -255, 0, "", pU0)   // the same (no alias of A)
		rec("deleteRecords", "a.com", -128, 0, "", pU0)   // byte 128: nothing there, halts
		rec("deleteRecords", "y.a.com", 1281, 0, "", pU0)
		rec("deleteRecords", "y.a.com", 0, 0, "", pU0)
		rec("deleteRecords", "y.a.com", 300, 0, "", pU0)
		rec("deleteRecords", "y.a.com", -129, 0, "", pU0)
		rec("setRecord", "y.a.com", tA, 256, "5.6.7.8", pU0)
		rec("setRecord", "y.a.com", tA, -128, "5.6.7.8", pU0)
		rec("setRecord", "y.a.com", tA, -129, "5.6.7.8", pU0)
		rec("setRecord", "y.a.com", tA, -256, "5.6.7.8", pU0)
		rec("addRecord", "a.com", tAAAA, 0, "2001:db9::1", pU0)
		rec("addRecord", "a.com", 2, 0, "t1", pU0)
		add(nnsOp{Kind: "getRecords", Name: "a.com", Typ: -255})
		add(nnsOp{Kind: "resolve", Name: "com.", Typ: tSOA})
		out = append(out, h)
		// 5b: the SOA record of a name registered dead on arrival lies under the
		// enclosing token; deleteRecords cannot reach it (6 refused, -250 out of range)
		start()
		reg("a.com", pU0, 3600, pU0)
		reg("x.a.com", pU0, 0, pU0)
		add(nnsOp{Kind: "getAllRecords", Name: "x.a.com"})
		rec("deleteRecords", "x.a.com", tSOA, 0, "", pU0)
		rec("deleteRecords", "x.a.com", -250, 0, "", pU0)
		add(nnsOp{Kind: "getAllRecords", Name: "x.a.com"})
		out = append(out, h)
		// 6: SOA data that updateSoaSerial cannot parse
		start()
		add(nnsOp{Kind: "register", Name: "a.com", Owner: pU0, Email: "", Refresh: 1, Retry: 2, Expire: 3600, TTL: 4}, pU0)
		rec("addRecord", "a.com", tTXT, 0, "t1", pU0)
		add(nnsOp{Kind: "updateSOA", Name: "a.com", Email: "a b", Refresh: 5, Retry: 6, Expire: 7, TTL: 8}, pU0)
		rec("addRecord", "a.com", tTXT, 0, "t1", pU0)
		add(nnsOp{Kind: "updateSOA", Name: "a.com", Email: "\xff", Refresh: 5, Retry: 6, Expire: 7, TTL: 8}, pU0)
		rec("addRecord", "a.com", tTXT, 0, "t1", pU0)
		add(nnsOp{Kind: "updateSOA", Name: "a.com", Email: "e@x.io", Refresh: -5, Retry: 6, Expire: 7, TTL: 8}, pU0)
		rec("addRecord", "a.com", tTXT, 0, "t1", pU0)
		out = append(out, h)
		// 8: a record method exactly at the expiration instant of its name: the name
		// (and its parent) drop out, the token becomes a.com, whose owner may act;
		// the SOA of w.x.a.com becomes unreachable by expiry, not by deleteRecords
		// (this history once raised a false alarm of the monitor)
		start()
		reg("a.com", pU1, 9*Y, pU1)
		reg("x.a.com", pU2, 3600, pU1, pU2)                // t=4, exp 3600004
		reg("w.x.a.com", pCmt, 3600, pU2, pCmt)            // t=5, exp 3600005
		rec("addRecord", "w.x.a.com", tTXT, 0, "t1", pCmt) // under its own token
		at(3600004)
		tick()
		rec("deleteRecords", "w.x.a.com", tTXT, 0, "", pU1) // t = exp: token is a.com now
		rec("addRecord", "w.x.a.com", tTXT, 0, "t2", pU1)
		out = append(out, h)
		// 14: sub-names that are not registered (1 and 2 levels below the zone a.com): the
		// single-CNAME rule, duplicates and ids are per NAME, independent of the zone's own
		// records and of siblings; zone-CNAME-then-sub-name-CNAME and the reverse
		start()
		reg("a.com", pU0, 3600, pU0)
		reg("b.com", pU0, 3600, pU0)
		rec("addRecord", "y.a.com", tCNAME, 0, "b.com", pU0)
		rec("addRecord", "y.a.com", tCNAME, 0, "ab.com", pU0) // a second CNAME of y.a.com: refused
		rec("addRecord", "z.y.a.com", tCNAME, 0, "b.com", pU0)
		rec("addRecord", "z.y.a.com", tCNAME, 0, "ab.com", pU0)
		rec("addRecord", "a.com", tCNAME, 0, "b.com", pU0) // the zone after its sub-names
		rec("addRecord", "a.com", tCNAME, 0, "ab.com", pU0)
		rec("addRecord", "ax.a.com", tCNAME, 0, "ab.com", pU0) // a sub-name after the zone: its first one
		rec("addRecord", "ax.a.com", tCNAME, 0, "b.com", pU0)
		rec("addRecord", "b.com", tCNAME, 0, "a.com", pU0)   // another zone: CNAME first ...
		rec("addRecord", "x.b.com", tCNAME, 0, "a.com", pU0) // ... then its sub-names
		rec("addRecord", "w.x.b.com", tCNAME, 0, "a.com", pU0)
		rec("addRecord", "x.b.com", tCNAME, 0, "ab.com", pU0)
		add(nnsOp{Kind: "getRecords", Name: "y.a.com", Typ: tCNAME})
		add(nnsOp{Kind: "resolve", Name: "y.a.com", Typ: tTXT})
		for _, n0 := range []string{"y.a.com", "ax.a.com", "a.com", "z.y.a.com", "y.a.com"} {
			rec("addRecord", n0, tTXT, 0, "t1", pU0) // same value under different names; y.a.com twice
		}
		rec("setRecord", "y.a.com", tTXT, 0, "t2", pU0)
		rec("setRecord", "ax.a.com", tTXT, 0, "t2", pU0)
		rec("setRecord", "z.y.a.com", tTXT, 1, "t2", pU0)
		rec("deleteRecords", "y.a.com", tCNAME, 0, "", pU0)
		rec("addRecord", "y.a.com", tCNAME, 0, "ab.com", pU0)
		rec("deleteRecords", "a.com", tCNAME, 0, "", pU0)
		rec("addRecord", "z.y.a.com", tCNAME, 0, "ab.com", pU0) // still its own one
		out = append(out, h)
		// 12: resolve order — a name with a CNAME and own records of every other type,
		// aliases with records of the same types (distinct values everywhere), chains
		// of 1..3: own records in id order first, then those reached through the chain
		start()
		for i, n0 := range []string{"a.com", "b.com", "ab.com", "x.a.com"} {
			reg(n0, pU0, 3600, pU0)
			rec("addRecord", n0, tTXT, 0, fmt.Sprintf("r%d", 10*i), pU0)
			rec("addRecord", n0, tTXT, 0, fmt.Sprintf("r%d", 10*i+1), pU0)
			rec("addRecord", n0, tAAAA, 0, fmt.Sprintf("2001:db9::%x", 10*i+1), pU0)
			if i < 2 {
				rec("addRecord", n0, tA, 0, fmt.Sprintf("1.2.3.%d", 10*i+1), pU0)
			}
		}
		rec("addRecord", "a.com", tCNAME, 0, "b.com", pU0)
		for _, ty := range []int64{tA, tTXT, tAAAA, tCNAME, tSOA} {
			add(nnsOp{Kind: "resolve", Name: "a.com", Typ: ty})
		}
		rec("addRecord", "b.com", tCNAME, 0, "ab.com", pU0)
		for _, ty := range []int64{tA, tTXT, tAAAA} {
			add(nnsOp{Kind: "resolve", Name: "a.com.", Typ: ty})
		}
		rec("addRecord", "ab.com", tCNAME, 0, "x.a.com", pU0)
		for _, ty := range []int64{tTXT, tAAAA} {
			add(nnsOp{Kind: "resolve", Name: "a.com", Typ: ty})
			add(nnsOp{Kind: "resolve", Name: "b.com", Typ: ty})
		}
		out = append(out, h)
		// 13: names of 255 and 254 bytes in every read path, with and without the
		// trailing dot, directly and as CNAME targets
		start()
		reg("a.com", pU0, 3600, pU0)
		reg(nnsLong59, pU0, 3600, pU0)
		for i, n0 := range []string{nnsLong255, nnsLong254} {
			rec("addRecord", n0, tTXT, 0, fmt.Sprintf("r%d", i), pU0)
			rec("addRecord", n0, tA, 0, "1.2.3.4", pU0)
			for _, v := range []string{n0, n0 + "."} {
				add(nnsOp{Kind: "getRecords", Name: v, Typ: tTXT})
				add(nnsOp{Kind: "getAllRecords", Name: v})
				add(nnsOp{Kind: "resolve", Name: v, Typ: tTXT})
			}
			add(nnsOp{Kind: "resolve", Name: n0 + "..", Typ: tTXT})
			add(nnsOp{Kind: "isAvailable", Name: n0})
			rec("setRecord", n0, tTXT, 0, "t1", pU0)
			rec("deleteRecords", "a.com", tCNAME, 0, "", pU0)
			rec("addRecord", "a.com", tCNAME, 0, n0, pU0)
			add(nnsOp{Kind: "resolve", Name: "a.com", Typ: tTXT})
			add(nnsOp{Kind: "resolve", Name: "a.com.", Typ: tA})
		}
		rec("addRecord", "a.com", tCNAME, 0, nnsLong255+"x", pU0) // 256 bytes
		reg(nnsLong255, pU1, 3600, pU0, pU1)                      // blocked by nothing but its parents
		out = append(out, h)
		// 11: conflict test on a record name that contains the registered name more than
		// once (proper suffix = LAST occurrence), and on one that merely contains it
		start()
		reg("a.com", pU0, 9*Y, pU0)
		reg("b.com", pU0, 9*Y, pU0)
		rec("addRecord", "x.a.com.b.com", tTXT, 0, "t1", pU0)   // under b.com: contains x.a.com, no suffix
		reg("x.a.com", pU1, 2, pU0, pU1)                        // fine; t=6, exp 2006
		rec("addRecord", "x.a.com.x.a.com", tTXT, 0, "t2", pU1) // under x.a.com while it lives
		at(2006)
		rec("addRecord", "x.a.com.x.a.com", tTXT, 0, "t3", pU0) // under a.com now
		add(nnsOp{Kind: "isAvailable", Name: "x.a.com"})
		reg("x.a.com", pU2, 3600, pU0, pU2) // blocked
		rec("deleteRecords", "x.a.com.x.a.com", tTXT, 0, "", pU0)
		reg("x.a.com", pU2, 3600, pU0, pU2)
		out = append(out, h)
		// 9: level 3 — x.a.com expires, a.com (now the token of everything below)
		// gains a record of w.x.a.com: isAvailable(x.a.com) is false and the
		// re-registration (takeover) is refused until the record is gone
		start()
		reg("a.com", pU0, 9*Y, pU0)
		reg("x.a.com", pU1, 2, pU0, pU1) // t=4, exp 2004
		rec("addRecord", "x.a.com", tTXT, 0, "t1", pU1)
		at(2004)
		add(nnsOp{Kind: "isAvailable", Name: "x.a.com"})
		rec("addRecord", "w.x.a.com", tTXT, 0, "t2", pU0)
		add(nnsOp{Kind: "isAvailable", Name: "x.a.com"})
		reg("x.a.com", pU2, 3600, pU0, pU2)
		reg("x.a.com", pU1, 3600, pU0, pU1)
		rec("deleteRecords", "w.x.a.com", tTXT, 0, "", pU0)
		add(nnsOp{Kind: "isAvailable", Name: "x.a.com"})
		reg("x.a.com", pU2, 3600, pU0, pU2)
		out = append(out, h)
		// 10: level 4 — the same one level down (token x.a.com, expired w.x.a.com,
		// record of v.w.x.a.com), re-registration through the contract owner
		start()
		reg("a.com", pU0, 9*Y, pU0)
		reg("x.a.com", pU1, 9*Y, pU0, pU1)
		reg("w.x.a.com", pU2, 2, pU1, pU2) // t=5, exp 2005
		at(2004)
		rec("addRecord", "v.w.x.a.com", tA, 0, "1.2.3.4", pU2) // exp-1: under w.x.a.com itself
		rec("addRecord", "v.w.x.a.com", tA, 0, "1.2.3.4", pU1) // exp: under x.a.com
		add(nnsOp{Kind: "isAvailable", Name: "w.x.a.com"})
		reg("w.x.a.com", pC, 3600, pU1, pC)
		rec("deleteRecords", "v.w.x.a.com", tA, 0, "", pU1)
		reg("w.x.a.com", pC, 3600, pU1, pC)
		add(nnsOp{Kind: "resolve", Name: "v.w.x.a.com", Typ: tA}) // the older record, under w.x.a.com again
		out = append(out, h)
		// 7: expiry hides the records, re-registration by somebody else shows them again
		start()
		reg("a.com", pU0, 2, pU0) // exp 2003
		rec("addRecord", "a.com", tTXT, 0, "t1", pU0)
		rec("addRecord", "x.a.com", tTXT, 0, "t2", pU0)
		at(2002)
		tick()
		tick()
		rec("addRecord", "a.com", tTXT, 0, "t3", pU0)
		reg("a.com", pU1, 3600, pU1)
		rec("addRecord", "a.com", tTXT, 0, "t3", pU1)
		out = append(out, h)
	}
	return out
}

// ---------------------------------------------------------------------------
// Monitors (search engines for a concrete failing input).

type nnsMon struct {
	prop    string
	st      *Stats
	readers []nnsOp
	book    *nnsBook            // spec book-keeping (before the op: roles; after: updated)
	owner   map[string]int      // replay of the Transfer notifications
	recs    map[string][]string // token|name|type byte -> data list (spec of C12)
	dupBy   map[string]bool     // keys whose duplicate was made by setRecord (F14)
	soaBad  map[string]bool     // tokens whose SOA data updateSoaSerial cannot parse (odd e-mail)
	hist    []string
	deepSub int
}

func newNNSMon(prop string, st *Stats, readers []nnsOp) *nnsMon {
	return &nnsMon{prop: prop, st: st, readers: readers, book: newNNSBook(), owner: map[string]int{},
		recs: map[string][]string{}, dupBy: map[string]bool{}, soaBad: map[string]bool{}}
}

func (m *nnsMon) keys() []string {
	var ks []string
	for k, v := range m.recs {
		if len(v) > 0 {
			ks = append(ks, k)
		}
	}
	sort.Strings(ks)
	return ks
}

// conflict: a record kept under the token of the directly enclosing name
// whose name has `name` as a proper suffix (getParentConflictingRecord; the
// storage location does not depend on time). Returns that record's name.
func (m *nnsMon) conflict(name string) string {
	par := nnsParent(name)
	for _, k := range m.keys() {
		f := strings.Split(k, "|")
		if f[0] == par && len(f[1]) > len(name) && strings.HasSuffix(f[1], name) {
			return f[1]
		}
	}
	return ""
}

// chainLivePre: the name and all enclosing names were live in the book copy
// taken before the op.
func (m *nnsMon) chainLivePre(pre map[string]nnsInfo, name string, now uint64) bool {
	for n := name; n != ""; n = nnsParent(n) {
		i, ok := pre[n]
		if !ok || !i.registered || now >= i.exp {
			return false
		}
	}
	return true
}

// checkCallbackReads: what the receiver saw from inside onNEP11Payment (mode 3)
// — it already is the owner, the name is in its token index once, its balance
// is what balanceOf says afterwards.
func (m *nnsMon) checkCallbackReads(n *nnsEnv, o nnsOp, ob *nnsObs) {
	tx := n.E.NewUnsignedTx(n.T, n.hashes[pF], "last")
	b := n.E.NewUnsignedBlock(n.T, tx)
	ic, err := n.BC.GetTestVM(trigger.Application, tx, b)
	require.NoError(n.T, err)
	defer ic.Finalize()
	ic.VM.LoadWithFlags(tx.Script, callflag.All)
	require.NoError(n.T, ic.VM.Run())
	arr := ic.VM.Estack().Pop().Item().Value().([]stackitem.Item)
	owner, bal, cnt := n.itemAddr(arr[0]), ItemInt(arr[1]).Int64(), ItemInt(arr[2]).Int64()
	if owner != pF || cnt != 1 {
		m.hist = append(m.hist, o.String())
		m.violate("C10: inside onNEP11Payment of %s the receiver saw ownerOf=%d and %d index entries of the name (expected itself, 1)", o.String(), owner, cnt)
		m.hist = m.hist[:len(m.hist)-1]
	}
	if v, ok := m.rd(ob, "balanceOf", "", int64(pF)); ok && v.ok && v.i.Int64() != bal {
		m.hist = append(m.hist, o.String())
		m.violate("C10: inside onNEP11Payment of %s the receiver saw balance %d, afterwards balanceOf says %v", o.String(), bal, v.i)
		m.hist = m.hist[:len(m.hist)-1]
	}
}

func (m *nnsMon) violate(f string, a ...any) { m.st.AddViolation(fmt.Sprintf(f, a...), m.hist) }

func (m *nnsMon) rd(ob *nnsObs, kind, name string, x int64) (nnsVal, bool) {
	for i, r := range m.readers {
		if r.Kind != kind {
			continue
		}
		switch kind {
		case "balanceOf", "tokensOf":
			if int64(r.Owner) == x {
				return ob.vals[i], true
			}
		case "getRecords", "resolve":
			if r.Name == name && r.Typ == x {
				return ob.vals[i], true
			}
		default:
			if r.Name == name {
				return ob.vals[i], true
			}
		}
	}
	return nnsVal{}, false
}

func has(xs []int, p int) bool {
	for _, x := range xs {
		if x == p {
			return true
		}
	}
	return false
}

func typByte(t int64) int64 { return ((t % 256) + 256) % 256 }

func rkeyOf(tok, name string, typ int64) string {
	return fmt.Sprintf("%s|%s|%d", tok, name, typByte(typ))
}

func isMutating(k string) bool {
	switch k {
	case "register", "registerTLD", "transfer", "renew", "setAdmin", "addRecord", "setRecord", "deleteRecords", "updateSOA", "setPrice":
		return true
	}
	return false
}

// authorised: the property text of C11, on the spec's book-keeping.
func (m *nnsMon) authorised(o nnsOp) bool {
	w := o.witnessed()
	b := m.book
	adminOf := func(tok string) bool {
		i := b.get(tok)
		if i.owner == ownNull {
			return has(w, o.Cmt)
		}
		return has(w, i.owner) || (i.admin != ownNull && has(w, i.admin))
	}
	switch o.Kind {
	case "registerTLD", "setPrice":
		return has(w, o.Cmt)
	case "addRecord", "setRecord", "deleteRecords":
		return adminOf(b.token(o.Name, o.T))
	case "updateSOA", "renew":
		return adminOf(o.Name)
	case "transfer":
		return has(w, b.get(o.Name).owner)
	case "setAdmin":
		return has(w, b.get(o.Name).owner) && (o.Owner == ownNull || has(w, o.Owner))
	case "register":
		if !has(w, o.Owner) {
			return false
		}
		if nnsLevel(o.Name) > 2 {
			return adminOf(nnsParent(o.Name))
		}
		return true
	}
	return true
}

func sameStrs(a, b []string) bool {
	if len(a) != len(b) {
		return false
	}
	for i := range a {
		if a[i] != b[i] {
			return false
		}
	}
	return true
}

func (m *nnsMon) step(o nnsOp, ob *nnsObs) {
	m.hist = append(m.hist, o.String())
	now := o.T
	effect := ob.halt && ob.retOK && isMutating(o.Kind)
	pre := map[string]nnsInfo{}
	for k, v := range m.book.info {
		pre[k] = *v
	}
	tokPre := m.book.token(strings.TrimSuffix(o.Name, "."), now)

	// ---- C11: effect => authorised (on the pre-state roles); no effect => nothing moved
	if effect && !m.authorised(o) {
		m.violate("C11: %s took effect without the required witnesses", o.String())
	}
	if !effect && len(ob.notifs) != 0 {
		m.violate("%s: refused/failed/safe call emitted notifications", o.String())
	}
	if !effect {
		// same instant, no effect: every safe method must answer exactly as before
		// (value or fault alike)
		for i, r := range m.readers {
			if ob.preVec[i] != ob.vec[i] {
				m.violate("%s without effect changed %s(%s,%d,%d): %s -> %s", o.String(), r.Kind, r.Name, r.Typ, r.Owner, ob.preVec[i], ob.vec[i])
			}
		}
	}

	// ---- notification replay (C10)
	nTransfer := 0
	for _, nt := range ob.notifs {
		if nt.kind == 0 {
			nTransfer++
			if cur, ok := m.owner[nt.name]; ok && cur != nt.from || !ok && nt.from != ownNull {
				m.violate("Transfer(%d,%d,%s): from is not the recorded owner", nt.from, nt.to, nt.name)
			}
			m.owner[nt.name] = nt.to
		}
	}
	wantT := 0
	if effect && (o.Kind == "register" || o.Kind == "transfer") {
		wantT = 1
		if o.Kind == "transfer" && o.Owner == pF && (o.Mode == 1 || o.Mode == 2) {
			wantT = 2 // the hand-over to the receiver and the one it makes from the callback
		}
	}
	if nTransfer != wantT {
		m.violate("%s: %d Transfer notifications, expected %d", o.String(), nTransfer, wantT)
	}

	// ---- addRecord is accepted exactly when the spec says so — judged per NAME: the
	// list of (token, name, type), not the zone's own records nor a sibling's
	if o.Kind == "addRecord" {
		k := rkeyOf(tokPre, o.Name, o.Typ)
		why := ""
		switch {
		case !nnsIsValid(o.Name) || nnsLevel(tokPre) < 2 || !m.chainLivePre(pre, tokPre, now):
			why = "no live token"
		case o.Typ != tA && o.Typ != tCNAME && o.Typ != tTXT && o.Typ != tAAAA || !nnsDataValid(o.Typ, o.Data):
			why = "type/data not accepted"
		case !m.authorised(o):
			why = "not authorised"
		case len(m.recs[k]) >= 16:
			why = "16 records already"
		case o.Typ == tCNAME && len(m.recs[k]) > 0:
			why = "the name has a CNAME already"
		case m.soaBad[tokPre]:
			why = "SOA data unparseable"
		}
		for _, d := range m.recs[k] {
			if d == o.Data && why == "" {
				why = "duplicate value"
			}
		}
		if effect && why != "" {
			m.violate("C12: %s accepted although: %s (records of that name and type: %q)", o.String(), why, m.recs[k])
		}
		if !effect && why == "" && o.Sponsor == 0 {
			m.violate("C12: %s refused (%s) although the spec accepts it (records of that name and type: %q)", o.String(), ob.fault, m.recs[k])
		}
	}
	if effect && (o.Kind == "register" || o.Kind == "updateSOA") {
		bad := o.Email == "" || strings.ContainsAny(o.Email, " ") || strings.IndexFunc(o.Email, func(c rune) bool { return c > 127 }) >= 0
		tk := o.Name
		if o.Kind == "register" && o.Expire <= 0 {
			tk = "" // dead on arrival: the SOA lands elsewhere
		}
		if tk != "" {
			m.soaBad[tk] = bad
		}
	}

	// ---- spec of the records (C12), before the book is updated
	if effect {
		switch o.Kind {
		case "addRecord":
			k := rkeyOf(tokPre, o.Name, o.Typ)
			m.recs[k] = append(m.recs[k], o.Data)
		case "setRecord":
			k := rkeyOf(tokPre, o.Name, o.Typ)
			if int(o.ID) < len(m.recs[k]) && o.ID >= 0 {
				for j, d := range m.recs[k] {
					if int64(j) != o.ID && d == o.Data {
						m.dupBy[k] = true
					}
				}
				m.recs[k][o.ID] = o.Data
			} else {
				m.violate("C12: setRecord succeeded on an id the spec does not have: %s", o.String())
			}
		case "deleteRecords":
			// "never SOA", judged at one instant: no name observed loses an SOA
			// record between the state before the op (read at the op's
			// timestamp) and the state after it
			for i, r := range m.readers {
				if r.Kind != "getAllRecords" {
					continue
				}
				cnt := func(v nnsVal) int {
					n := 0
					for _, rc := range v.recs {
						if rc[1] == "6" {
							n++
						}
					}
					return n
				}
				if ob.preVals[i].ok && (!ob.vals[i].ok || cnt(ob.vals[i]) < cnt(ob.preVals[i])) {
					m.violate("C12: deleteRecords removed an SOA record of %s: %s", r.Name, o.String())
				}
			}
			k := rkeyOf(tokPre, o.Name, o.Typ)
			delete(m.recs, k)
			delete(m.dupBy, k)
		case "register":
			// judged on the state the call found (the spec of the records at the
			// op's instant, before this registration adds anything): first
			// registration and re-registration of an expired name alike
			if c := m.conflict(o.Name); c != "" {
				m.violate("%s: %s registered while the parent token holds records of %s", m.prop, o.String(), c)
			}
		}
	}
	m.book.update(o, *ob)
	b := m.book
	if effect && o.Kind == "register" && o.Expire <= 0 {
		// dead on arrival: its SOA record lands under the enclosing live token
		// (tokenIDFromName after the name state is written) and stays there
		if tok := b.token(o.Name, now); tok != o.Name {
			m.recs[rkeyOf(tok, o.Name, tSOA)] = []string{"<soa>"}
		}
	}

	// ---- expired names (or names under an expired chain) are out of reach, in every family:
	// no effect of a method on them (transfer looks at the token itself only), and
	// ownerOf / properties answer exactly for live chains
	if effect {
		nm := strings.TrimSuffix(o.Name, ".")
		switch o.Kind {
		case "renew", "setAdmin", "updateSOA":
			if !m.chainLivePre(pre, o.Name, now) {
				m.violate("%s took effect on a name whose chain is not live", o.String())
			}
		case "register":
			if !m.chainLivePre(pre, nnsParent(o.Name), now) {
				m.violate("%s took effect under a parent chain that is not live", o.String())
			}
			if p0, ok := pre[o.Name]; ok && p0.registered && now < p0.exp {
				m.violate("%s succeeded on a live name (expires %d)", o.String(), p0.exp)
			}
		case "transfer":
			if p0, ok := pre[o.Name]; !ok || !p0.registered || now >= p0.exp {
				m.violate("%s took effect on an expired/unregistered name", o.String())
			}
		case "addRecord", "setRecord", "deleteRecords":
			if !m.chainLivePre(pre, tokPre, now) || nnsLevel(tokPre) < 2 {
				m.violate("%s took effect although the token %s of %s is not live", o.String(), tokPre, nm)
			}
		}
	}
	for i, r := range m.readers {
		if (r.Kind == "ownerOf" || r.Kind == "properties") && nnsLevel(r.Name) >= 2 && ob.vals[i].ok != b.chainLive(r.Name, now) {
			m.violate("%s(%s) readable=%v but live chain=%v", r.Kind, r.Name, ob.vals[i].ok, b.chainLive(r.Name, now))
		}
		// who is who, as the spec's book-keeping has it (every family that reads them)
		if v := ob.vals[i]; v.ok && r.Kind == "properties" {
			if v.padmin != b.get(r.Name).admin {
				m.violate("properties(%s).admin=%d, spec %d", r.Name, v.padmin, b.get(r.Name).admin)
			}
			if v.i.Uint64() != b.get(r.Name).exp {
				m.violate("properties(%s).expiration=%v, spec %d", r.Name, v.i, b.get(r.Name).exp)
			}
		}
		if v := ob.vals[i]; v.ok && r.Kind == "ownerOf" && v.addr != b.get(r.Name).owner {
			m.violate("ownerOf(%s)=%d, spec %d", r.Name, v.addr, b.get(r.Name).owner)
		}
	}

	// ---- C10: accounting
	if m.prop == "C10" {
		ts, _ := m.rd(ob, "totalSupply", "", 0)
		tk, _ := m.rd(ob, "tokens", "", 0)
		nonTLD := 0
		for _, n := range tk.strs {
			if nnsLevel(n) >= 2 {
				nonTLD++
			}
		}
		if ts.i.Int64() != int64(nonTLD) {
			m.violate("C10: totalSupply %v != %d non-TLD names registered", ts.i, nonTLD)
		}
		sum := int64(0)
		for _, p := range nnsObservedOwners {
			bo, _ := m.rd(ob, "balanceOf", "", int64(p))
			to, _ := m.rd(ob, "tokensOf", "", int64(p))
			sum += bo.i.Int64()
			var want []string
			for n, ow := range m.owner {
				if ow == p && nnsLevel(n) >= 2 {
					want = append(want, n)
				}
			}
			sort.Strings(want)
			if !sameStrs(want, to.strs) {
				m.violate("C10: tokensOf(%d) = %v, Transfer replay says %v", p, to.strs, want)
			}
			if bo.i.Int64() != int64(len(to.strs)) {
				m.violate("C10: balanceOf(%d) = %v but tokensOf lists %d", p, bo.i, len(to.strs))
			}
		}
		if sum != ts.i.Int64() {
			m.violate("C10: sum of balances %d != totalSupply %v", sum, ts.i)
		}
		for _, nm := range nnsValidNames() {
			if nnsLevel(nm) < 2 {
				continue
			}
			ow, _ := m.rd(ob, "ownerOf", nm, 0)
			av, _ := m.rd(ob, "isAvailable", nm, 0)
			live := b.chainLive(nm, now)
			if ow.ok && ow.addr != m.owner[nm] {
				m.violate("C10: ownerOf(%s)=%d, Transfer replay says %d", nm, ow.addr, m.owner[nm])
			}
			if b.chainLive(nnsParent(nm), now) && b.root[nm[strings.LastIndexByte(nm, '.')+1:]] {
				if live && (!av.ok || av.b) {
					m.violate("C10: %s is live but isAvailable is not false", nm)
				}
				cf := m.conflict(nm)
				if !live && cf == "" && (!av.ok || !av.b) {
					m.violate("C10: %s is unregistered/expired under a live parent but isAvailable is not true", nm)
				}
				if !live && cf != "" && (!av.ok || av.b) {
					m.violate("C10: isAvailable(%s) is not false although the parent token holds records of %s", nm, cf)
				}
			}
		}
		if effect {
			switch o.Kind {
			case "transfer":
				p0 := pre[o.Name]
				i := b.get(o.Name)
				if i.exp != p0.exp {
					m.violate("C10: transfer changed the expiration")
				}
			case "renew":
				p0 := pre[o.Name]
				want := p0.exp + uint64(o.Years*msYear)
				if o.Years < 1 || o.Years > 10 || ob.retInt.Uint64() != want {
					m.violate("C10: renew(%d) gave %v, expected %d", o.Years, ob.retInt, want)
				}
				if nnsLevel(o.Name) >= 2 && want > now+uint64(10*msYear) {
					m.violate("C10: renew beyond ten years ahead")
				}
			case "register":
				p0 := pre[o.Name]
				if p0.registered && now < p0.exp {
					m.violate("C10: register succeeded on a live name")
				}
			}
		}
	}

	// ---- C12: the read paths against the spec
	if m.prop == "C12" {
		var follow func(name string, typ int64, budget int) ([]string, bool)
		follow = func(name string, typ int64, budget int) ([]string, bool) {
			if budget < 0 {
				return nil, false
			}
			name = strings.TrimSuffix(name, ".")
			valid := nnsIsValid(name)
			tok := b.token(name, now)
			if !valid || !b.chainLive(tok, now) {
				return nil, false
			}
			res := append([]string{}, m.recs[rkeyOf(tok, name, typ)]...)
			cn := m.recs[rkeyOf(tok, name, tCNAME)]
			if len(cn) == 0 || typ == tCNAME {
				return res, true
			}
			r2, ok := follow(cn[len(cn)-1], typ, budget-1)
			return append(res, r2...), ok
		}
		judge := func(r nnsOp, v nnsVal) {
			nm := r.Name
			tok := b.token(nm, now)
			live := nnsLevel(tok) >= 2 && b.chainLive(tok, now)
			switch r.Kind {
			case "getRecords", "getAllRecords":
				// only resolve strips a trailing dot; type and id are bytes (-128..255)
				if !nnsIsValid(nm) || nnsLevel(nm) < 2 || r.Kind == "getRecords" && (r.Typ < -128 || r.Typ > 255) {
					if v.ok {
						m.violate("C12: %s(%q,%d) answers for a malformed name / type", r.Kind, r.Name, r.Typ)
					}
					return
				}
			}
			switch r.Kind {
			case "getRecords":
				if !live && v.ok {
					m.violate("C12: getRecords(%s) answers although the token %s is not live", r.Name, tok)
				}
				if live && !v.ok {
					m.violate("C12: getRecords(%s,%d) faults although the token %s is live", r.Name, r.Typ, tok)
				}
				if v.ok && r.Typ != tSOA {
					k := rkeyOf(tok, nm, r.Typ)
					want := m.recs[k]
					if !sameStrs(want, v.strs) {
						m.violate("C12: getRecords(%s,%d) = %q, spec %q", r.Name, r.Typ, v.strs, want)
					}
					if len(v.strs) > 16 || r.Typ == tCNAME && len(v.strs) > 1 {
						m.violate("C12: too many records for %s type %d: %d", r.Name, r.Typ, len(v.strs))
					}
					seen := map[string]bool{}
					for _, d := range v.strs {
						if seen[d] {
							m.violate("C12: duplicate value %q for %s type %d (made by setRecord: %v)", d, r.Name, r.Typ, m.dupBy[k])
						}
						seen[d] = true
					}
				}
			case "isAvailable":
				if v.ok && v.b && (b.chainLive(nm, now) || m.conflict(nm) != "") {
					m.violate("C12: isAvailable(%s) = true although it is live or the parent token holds records of %q", nm, m.conflict(nm))
				}
				if v.ok && !v.b && !b.chainLive(nm, now) && m.conflict(nm) == "" {
					m.violate("C12: isAvailable(%s) = false although it is not live and no parent record conflicts", nm)
				}
			case "resolve":
				want, ok := follow(r.Name, r.Typ, 2)
				if !strings.Contains(r.Name, ".") {
					want, ok = nil, false // one fragment: "token not found" ("com." has two and resolves the TLD)
				}
				if ok != v.ok {
					m.violate("C12: resolve(%s,%d) halts=%v, spec %v", r.Name, r.Typ, v.ok, ok)
				} else if ok && r.Typ != tSOA && !sameStrs(want, v.strs) {
					m.violate("C12: resolve(%s,%d) = %q, spec %q", r.Name, r.Typ, v.strs, want)
				}
			case "getAllRecords":
				if !live && v.ok {
					m.violate("C12: getAllRecords(%s) answers although the token is not live", r.Name)
				}
				if live && !v.ok {
					m.violate("C12: getAllRecords(%s) faults although the token %s is live", r.Name, tok)
				}
				if nnsLevel(nm) >= nnsLevel(tok)+2 && v.ok {
					m.deepSub++ // names two or more levels below their token are readable (fix 8bee9c1)
				}
				if v.ok {
					// same content as the per-type lists, ordered by type then id
					var flat []string
					for _, ty := range []int64{tA, tCNAME, tTXT, tAAAA} {
						flat = append(flat, m.recs[rkeyOf(tok, nm, ty)]...)
					}
					var got []string
					lastT, lastID := int64(-1), int64(-1)
					for _, rc := range v.recs {
						ty, _ := new(big.Int).SetString(rc[1], 10)
						id, _ := new(big.Int).SetString(rc[3], 10)
						if ty.Int64() < lastT || ty.Int64() == lastT && id.Int64() != lastID+1 || ty.Int64() != lastT && id.Int64() != 0 {
							m.violate("C12: getAllRecords(%s) ids not contiguous/ordered: %v", r.Name, v.recs)
						}
						lastT, lastID = ty.Int64(), id.Int64()
						if rc[0] != nm {
							m.violate("C12: getAllRecords(%s) returned a record of %s", r.Name, rc[0])
						}
						if ty.Int64() != tSOA {
							got = append(got, rc[2])
						}
					}
					if !sameStrs(flat, got) {
						m.violate("C12: getAllRecords(%s) = %q, spec %q", r.Name, got, flat)
					}
					// the per-name, per-type rules on what the contract itself lists
					cnt, seen := map[string]int{}, map[string]bool{}
					for _, rc := range v.recs {
						cnt[rc[1]]++
						if seen[rc[1]+"|"+rc[2]] {
							m.violate("C12: getAllRecords(%s): value %q twice for type %s", r.Name, rc[2], rc[1])
						}
						seen[rc[1]+"|"+rc[2]] = true
					}
					for ty, c := range cnt {
						if c > 16 || (ty == "5" || ty == "6") && c > 1 {
							m.violate("C12: getAllRecords(%s): %d records of type %s", r.Name, c, ty)
						}
					}
					// SOA serial of the zone (the token, also for records of its sub-names) after every
					// accepted record mutation, no-op-looking ones included: the op's block time
					if effect && nm == tokPre && (o.Kind == "addRecord" || o.Kind == "setRecord" || o.Kind == "deleteRecords") {
						okSerial := false
						for _, rc := range v.recs {
							if rc[1] == "6" {
								f := strings.Fields(rc[2])
								okSerial = len(f) == 7 && f[2] == fmt.Sprint(now)
							}
						}
						if !okSerial {
							m.violate("C12: SOA serial of %s not refreshed by %s", nm, o.String())
						}
					}
				}
			}
		}
		for i, r := range m.readers {
			judge(r, ob.vals[i])
		}
		// the op itself, when it is one of the read paths (any spelling, any type)
		switch o.Kind {
		case "getRecords", "getAllRecords", "resolve":
			v := ob.rv
			v.ok = ob.halt
			judge(o, v)
		}
	}
}

// ---------------------------------------------------------------------------

func nnsDataValid(typ int64, s string) bool {
	for _, d := range nnsDatas {
		if d.typ == typ && d.s == s {
			return d.valid
		}
	}
	if typ == tCNAME {
		return nnsIsValid(s)
	}
	var k int
	if typ == tA && len(s) >= 7 {
		if _, err := fmt.Sscanf(s, "1.2.3.%d", &k); err == nil && s == fmt.Sprintf("1.2.3.%d", k) && 1 <= k && k <= 254 {
			return true // generated global-unicast addresses 1.2.3.k
		}
	}
	if typ == tAAAA {
		if _, err := fmt.Sscanf(s, "2001:db9::%x", &k); err == nil && s == fmt.Sprintf("2001:db9::%x", k) && 1 <= k && k <= 0xffff {
			return true
		}
	}
	return typ == tTXT && len(s) <= 255
}

func runNNSFamily(t *testing.T, prop string) {
	st := NewStats(prop)
	st.Rule = "histories = hand-written corpus + seeded generation over 2 TLDs, 12 names at levels 2-4, 3 key owners + 1 contract owner + the committee account + a refusing contract, " +
		"signer roles {owner, admin, former owner, former admin, parent owner, stranger, committee, none}, block time stepping over exp-1/exp/exp+1; " +
		"non-trivial = history contains at least one accepted mutation and at least one refusal/fault; distinct = by the canonical op/outcome string"
	pool := NewPool("n")
	lit := nnsLit{pool: pool}
	readers := nnsReaders(prop)
	nh, maxOps := 48, 34
	switch prop {
	case "C12":
		nh, maxOps = 6, 32
	}
	if Tier() == "thorough" {
		nh, maxOps = nh*10, 60
	}
	var cases []string
	usedData := map[string]bool{}
	var dataTable []string
	distinct := map[string]bool{}
	reasons := map[string]int{}
	cmtSizes := map[int]int{}
	rotated := 0
	deep := 0
	run := func(hidx int, ncmt int, corpus []nnsOp) {
		n := newNNSEnvN(t, ncmt)
		lit.n = n
		base := n.now
		cmtSizes[n.ncmt]++
		g := &nnsGen{r: Rng(int64(hidx) + 7777), prop: prop, book: nil, now: base, ncmt: n.ncmt, cmtNow: pCmt}
		if corpus == nil && n.ncmt == 1 && (prop == "C11" && hidx%6 == 0 || prop == "C10" && hidx%10 == 0) {
			g.rotAt = 6 + g.r.Intn(8)
		}
		mon := newNNSMon(prop, st, readers)
		g.book = mon.book
		g.mon = mon
		nops := len(corpus)
		if corpus == nil {
			nops = 8 + Rng(int64(hidx)).Intn(maxOps-7)
			if (prop == "C12" || prop == "C10") && hidx%3 == 0 {
				g.scn = true
				if nops < 20 {
					nops = 20
				}
				if prop == "C12" && nops < 42 {
					nops = 42 // + the sub-name scenario
				}
			}
			if prop == "C11" && hidx%6 == 3 {
				g.chain = true
				if nops < 26 {
					nops = 26
				}
			}
			if prop == "C12" && hidx%3 == 2 {
				g.cn = true
				if nops < 40 {
					nops = 40
				}
			}
			if prop == "C12" && hidx%3 == 1 {
				g.lim = true
				if nops < 34 {
					nops = 34
				}
			}
		}
		var steps []string
		var prevVec []string
		var sig strings.Builder
		accepted, refused := false, false
		for i := 0; i < nops; i++ {
			var o nnsOp
			if corpus != nil {
				o = corpus[i]
				o.T += base
			} else {
				g.now = n.now
				o = g.next(i)
				if i > 5 {
					o = g.respell(o)
					o = g.rescope(o)
				}
			}
			if o.Kind == "rotate" {
				before := n.now
				n.rotate()
				base += n.now - before
				g.cmtNow = n.cmtNow
				mon.hist = append(mon.hist, "rotate (committee re-election)")
				st.OpHistogram["rotate"]++
				rotated++
				continue
			}
			o.Signers = n.canonSigners(o.Signers)
			o.Cmt = n.cmtNow
			if o.Sponsor != 0 && (o.Sponsor-1 > pU2 || has(o.Signers, o.Sponsor-1)) {
				o.Sponsor = 0 // only funded key accounts that do not sign otherwise
			}
			if o.Kind == "addRecord" || o.Kind == "setRecord" {
				k := fmt.Sprintf("%d|%s", o.Typ, o.Data)
				if !usedData[k] {
					usedData[k] = true
					if nnsDataValid(o.Typ, o.Data) {
						dataTable = append(dataTable, fmt.Sprintf("(%s, %s)", ZI(o.Typ), lit.str(o.Data)))
					}
				}
			}
			prevOwner := mon.book.get(o.Name).owner
			ob := n.exec(lit, o, readers)
			if o.Kind == "transfer" && o.Mode == 3 && ob.halt && ob.retOK {
				mon.checkCallbackReads(n, o, &ob)
			}
			mon.step(o, &ob)
			if os.Getenv("VERIF_NNS_TRACE") != "" && hidx < 0 {
				ga := ""
				if v, ok := mon.rd(&ob, "getAllRecords", o.Name, 0); ok {
					ga = fmt.Sprintf(" getAllRecords=%v %q", v.ok, v.recs)
				}
				fmt.Printf("[%d] %s -> halt=%v ret=%s %s%s\n", hidx, o.String(), ob.halt, ob.ret, ob.fault, ga)
			}
			steps = append(steps, fmt.Sprintf("(%s, %s)", lit.steps(o, prevOwner), lit.obs(ob, prevVec)))
			prevVec = ob.vec
			st.Evaluations++
			st.OpHistogram[o.Kind]++
			oc := "halt"
			if !ob.halt {
				oc = "fault"
			} else if !ob.retOK {
				oc = "false"
			}
			if isMutating(o.Kind) {
				if oc == "halt" {
					accepted = true
				} else {
					refused = true
				}
			}
			st.OutcomeHistogram[o.Kind+"/"+oc]++
			if !ob.halt {
				msg := ob.fault
				if i := strings.LastIndex(msg, "unhandled exception: "); i >= 0 {
					msg = msg[i+21:]
				}
				if len(msg) > 48 {
					msg = msg[:48]
				}
				reasons[o.Kind+": "+msg]++
			}
			fmt.Fprintf(&sig, "%s:%s:%s:%v:%d;", o.Kind, o.Name, oc, o.Signers, o.Via)
		}
		st.Histories++
		deep += mon.deepSub
		if accepted && refused {
			distinct[sig.String()] = true
		}
		cases = append(cases, ListLit(steps))
		if len(st.Samples) < 3 && (hidx == -1 || hidx == 0 || hidx == 1) {
			hs := mon.hist
			if len(hs) > 10 {
				hs = append(append([]string{}, hs[:10]...), "...")
			}
			st.Samples = append(st.Samples, hs)
		}
	}
	for ci, h := range nnsCorpus(prop) {
		run(-1-ci, h.N, h.Ops)
	}
	for h := 0; h < nh; h++ {
		// part of the histories on chains with committees of 4 and of 3 keys:
		// n/2+1 differs from (n+1)/2 for even n, from 2n/3+1 for n = 3
		ncmt := 1
		switch {
		case prop == "C11" && h%3 == 1, prop == "C10" && h%5 == 1:
			ncmt = 4
		case prop == "C11" && h%3 == 2, prop == "C10" && h%5 == 3:
			ncmt = 3
		}
		run(h, ncmt, nil)
	}
	st.Extra["histories_by_committee_size"] = cmtSizes
	st.Extra["histories_with_committee_reelection"] = rotated
	st.DistinctNontrivial = len(distinct)
	st.Extra["readers_per_step"] = len(readers)
	st.Extra["fault_reasons"] = reasons
	st.Extra["deep_subname_reads"] = deep

	var hd strings.Builder
	hd.WriteString("From Verif Require Import Base.Prelude Model.NNS.\nLocal Open Scope Z_scope.\n")
	for i := 0; i < nPrincipals; i++ {
		fmt.Fprintf(&hd, "Definition p%d : bytes := %s.\n", i, BytesLit(symAddr(i)))
	}
	hd.WriteString("Definition pbad : bytes := [1;2;3;4;5]%N.\nDefinition punknown : bytes := [255]%N.\n")
	var vn []string
	for _, s := range append(nnsValidNames(), nnsExtraValid...) {
		vn = append(vn, lit.str(s))
	}
	var rds []string
	for _, r := range readers {
		rds = append(rds, lit.opt(r))
	}
	var poolRefs []string
	for i := range pool.order {
		poolRefs = append(poolRefs, fmt.Sprintf("n%d", i))
	}
	footer := "Definition valid_names : list bytes := " + ListLit(vn) + ".\n" +
		"Definition valid_datas : list (Z * bytes) := " + ListLit(dataTable) + ".\n" +
		"Definition vname (b : bytes) : bool := existsb (bytes_eqb b) valid_names.\n" +
		"Definition vdata (t : Z) (d : bytes) : bool := existsb (fun td : Z * bytes => (fst td =? t) && bytes_eqb (snd td) d) valid_datas.\n" +
		"(* std.StringSplit accepts ASCII strings (<= 1024 bytes); the only non-ASCII byte the generator uses is 0xFF, never valid UTF-8 *)\n" +
		"Definition sok (b : bytes) : bool := forallb (fun c => N.ltb c 128) b.\n" +
		"Definition readers : list nop := " + ListLit(rds) + ".\n" +
		"(* RIPEMD-160 is instantiated by an injective function with short values (long pool strings -> [1; index],\n   anything else -> 0 :: itself): the model only needs injectivity, short keys keep the maps fast *)\n" +
		"Definition pool_strings : list bytes := " + ListLit(poolRefs) + ".\n" +
		"Fixpoint index_of (b : bytes) (l : list bytes) (i : N) : option N :=\n  match l with [] => None | x :: l' => if bytes_eqb x b then Some i else index_of b l' (N.succ i) end.\n" +
		"Definition chash (b : bytes) : bytes :=\n  if (length b <=? 24)%nat then 0%N :: b else match index_of b pool_strings 0%N with Some i => [1%N; i] | None => 0%N :: b end.\n" +
		"(* One invocation = the NNS call and the calls a receiving contract makes from its onNEP11Payment callback\n   (only after a transfer that answered true); every inner call must halt, an inner transfer must answer true\n   (the receiver panics otherwise); a fault anywhere rolls the whole invocation back. *)\n" +
		"Definition is_transfer (o : nop) : bool := match o with Transfer _ _ => true | _ => false end.\n" +
		"Fixpoint cinner (s : nstate) (ns : list nnotif) (l : list (nctx * nop)) : outcome (nstate * list nnotif) :=\n" +
		"  match l with\n  | [] => Halt (s, ns)\n  | (c, o) :: l' =>\n      match nexec chash vname vdata sok c s o with\n      | Fault => Fault\n" +
		"      | Halt (s1, r, ns1) => if is_transfer o && negb (val_eqb r (VBool true)) then Fault else cinner s1 (ns ++ ns1) l'\n      end\n  end.\n" +
		"Definition cexec (s : nstate) (l : list (nctx * nop)) : outcome (nstate * val * list nnotif) :=\n" +
		"  match l with\n  | [] => Fault\n  | (c, o) :: l' =>\n      match nexec chash vname vdata sok c s o with\n      | Fault => Fault\n" +
		"      | Halt (s1, r, ns1) =>\n          if val_eqb r (VBool true) then match cinner s1 ns1 l' with Halt (s2, ns2) => Halt (s2, r, ns2) | Fault => Fault end\n          else Halt (s1, r, ns1)\n      end\n  end.\n" +
		"Definition cstep_obs (sp : nstate * list val) (l : list (nctx * nop)) : (nstate * list val) * val :=\n" +
		"  let c0 := match l with (c, _) :: _ => c | [] => mkNC 0 [] [] [] end in\n" +
		"  let '(s', r, ns) := match cexec (fst sp) l with Halt x => x | Fault => (fst sp, VFault, []) end in\n" +
		"  let v := obs_vector chash vname vdata sok readers c0 s' in\n" +
		"  ((s', v), VList [r; VList (map notif_val ns); VList (diff_vals 0 (snd sp) v)]).\n" +
		"Definition check_case (c : list (list (nctx * nop) * val)) :=\n  run_case cstep_obs (ninit, []) 0 c.\n" +
		"Definition M := Eval vm_compute in failures_from 0 (map check_case cases).\nPrint M.\n"
	// several files (the driver evaluates them in parallel); each carries the whole pool
	// (long generated histories and short corpus ones are dealt out round-robin so
	// that the files take about equally long)
	chunk := 4
	if Tier() == "thorough" {
		chunk = 16 // fewer, longer coqc runs: the start-up cost per file matters at this volume
	}
	nf := (len(cases) + chunk - 1) / chunk
	for k := 0; k < nf; k++ {
		var part []string
		for i := k; i < len(cases); i += nf {
			part = append(part, fmt.Sprintf("(* history %d *) %s", i, cases[i]))
		}
		cf := &CasesFile{Pool: pool, Header: hd.String(), Cases: part, Footer: footer}
		name := fmt.Sprintf("/cases_%s_%d.v", prop, k)
		if k == 0 {
			name = "/cases_" + prop + ".v"
		}
		require.NoError(t, cf.Write(OutDir()+name))
	}
	st.Extra["cases_files"] = (len(cases) + chunk - 1) / chunk
	st.Write()
}

func TestC10(t *testing.T) { runNNSFamily(t, "C10") }
func TestC11(t *testing.T) { runNNSFamily(t, "C11") }
func TestC12(t *testing.T) { runNNSFamily(t, "C12") }
