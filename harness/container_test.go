package harness

import (
	"bytes"
	"crypto/sha256"
	"encoding/json"
	"fmt"
	"math/big"
	"math/rand"
	"os"
	"path/filepath"
	"sort"
	"strings"
	"testing"

	"github.com/nspcc-dev/neo-go/pkg/config"
	"github.com/nspcc-dev/neo-go/pkg/core/native/nativenames"
	"github.com/nspcc-dev/neo-go/pkg/core/native/noderoles"
	"github.com/nspcc-dev/neo-go/pkg/core/state"
	"github.com/nspcc-dev/neo-go/pkg/core/transaction"
	"github.com/nspcc-dev/neo-go/pkg/crypto/hash"
	"github.com/nspcc-dev/neo-go/pkg/crypto/keys"
	"github.com/nspcc-dev/neo-go/pkg/encoding/address"
	"github.com/nspcc-dev/neo-go/pkg/neotest"
	"github.com/nspcc-dev/neo-go/pkg/neotest/chain"
	"github.com/nspcc-dev/neo-go/pkg/util"
	"github.com/nspcc-dev/neo-go/pkg/vm/stackitem"
	"github.com/nspcc-dev/neo-go/pkg/wallet"
	"github.com/stretchr/testify/require"
)

// ---------------------------------------------------------------------------
// Container family: C04 (registry = live set, deletion complete and final) and
// C05 (exact, atomic creation fee).  One executor, two generators/monitors, one
// Coq model (Model/Container.v).
//
// Conventions (premises of the model):
//   - container + balance + netmap + nns + neofsid are compiled from /repo's
//     working tree and deployed as /repo/tests/container_test.go does;
//   - every transaction is sent (fees paid) by a separate payer account that is
//     never a party; all signers sign with Global scope;
//   - keys are derived from fixed seeds: a run is reproducible bit by bit;
//   - the chain's committee has 1 (quick), 4 or 7 (thorough) members.

func cnrKey(tag string, i int) *wallet.Account {
	h := sha256.Sum256([]byte(fmt.Sprintf("verif-container-%s-%d", tag, i)))
	pk, err := keys.NewPrivateKeyFromBytes(h[:])
	if err != nil {
		panic(err)
	}
	return wallet.NewAccountFromPrivateKey(pk)
}

const cnrB58Alphabet = "123456789ABCDEFGHJKLMNPQRSTUVWXYZabcdefghijkmnopqrstuvwxyz"

// cnrB58Encode is Base58 (Bitcoin alphabet), what std.Base58Encode computes.
func cnrB58Encode(b []byte) string {
	x := new(big.Int).SetBytes(b)
	var out []byte
	m, r := big.NewInt(58), new(big.Int)
	for x.Sign() > 0 {
		x.DivMod(x, m, r)
		out = append(out, cnrB58Alphabet[r.Int64()])
	}
	for _, c := range b {
		if c != 0 {
			break
		}
		out = append(out, '1')
	}
	for i, j := 0, len(out)-1; i < j; i, j = i+1, j-1 {
		out[i], out[j] = out[j], out[i]
	}
	return string(out)
}

func cnrB58Decode(s string) []byte {
	x := new(big.Int)
	for _, c := range []byte(s) {
		x.Mul(x, big.NewInt(58))
		x.Add(x, big.NewInt(int64(strings.IndexByte(cnrB58Alphabet, c))))
	}
	out := x.Bytes()
	for _, c := range []byte(s) {
		if c != '1' {
			break
		}
		out = append([]byte{0}, out...)
	}
	return out
}

func cnrMultisig(m int, ks []*wallet.Account) neotest.Signer {
	pubs := make(keys.PublicKeys, len(ks))
	for i := range ks {
		pubs[i] = ks[i].PublicKey()
	}
	sort.Sort(pubs)
	accs := make([]*wallet.Account, len(ks))
	for i := range ks {
		accs[i] = wallet.NewAccountFromPrivateKey(ks[i].PrivateKey())
		if err := accs[i].ConvertMultisig(m, pubs.Copy()); err != nil {
			panic(err)
		}
	}
	return neotest.NewMultiSigner(accs...)
}

type cnrEnv struct {
	*Env
	nc        int
	keys      []*wallet.Account // committee, sorted by public key (= neo.GetCommittee order)
	payer     neotest.Signer
	alpha     neotest.Signer // 2n/3+1 multisignature: common.AlphabetAddress
	committee neotest.Signer // n/2+1 multisignature: common.CommitteeAddress
	owners    []neotest.Signer
	ownerIDs  [][]byte // 25-byte owner ids
	ownerSH   [][]byte // script hashes (balance accounts)
	alphaOwners []int  // indices of the owners that are Alphabet nodes' standard accounts
	firstSized  int    // index of the first size-boundary blob in blobs
	scope       int    // witness scope of the operation being executed (see cnrOp.Scope)
	maxBlob     int    // largest blob length a put transaction can carry

	nns, netmap, balance, neofsid, container util.Uint160
	alphaAccts                                [][]byte // CreateStandardAccount of committee keys
	t0                                        uint64   // time base
	pendingDT                                 uint64

	// pools
	blobs   [][]byte
	cids    [][]byte // sha256 of blobs ++ bogus ids
	pubs    [][]byte
	domains [][]byte
	probeOwners [][]byte
	accts   [][]byte
	nnsDump map[string]string // NNS storage right after deployment
}

const cnrNOwners = 3

func newCnrEnv(t testing.TB, nc int) *cnrEnv {
	ks := make([]*wallet.Account, nc)
	for i := range ks {
		ks[i] = cnrKey("committee", i)
	}
	sort.Slice(ks, func(i, j int) bool { return ks[i].PublicKey().Cmp(ks[j].PublicKey()) < 0 })
	standby := make([]string, nc)
	for i := range ks {
		standby[i] = ks[i].PublicKey().StringCompressed()
	}
	bc, _ := chain.NewSingleWithOptions(t, &chain.Options{BlockchainConfigHook: func(c *config.Blockchain) {
		c.StandbyCommittee = standby
		c.ValidatorsCount = 1
	}})
	validator := cnrMultisig(1, ks[:1])
	committee := cnrMultisig(nc/2+1, ks)
	e := neotest.NewExecutor(t, bc, validator, committee)
	c := &cnrEnv{Env: &Env{T: t, E: e, BC: bc}, nc: nc, keys: ks, committee: committee}
	c.alpha = cnrMultisig(nc*2/3+1, ks)
	c.payer = neotest.NewSingleSigner(cnrKey("payer", 0))
	for _, k := range ks {
		c.alphaAccts = append(c.alphaAccts, k.PublicKey().GetScriptHash().BytesBE())
	}
	for i := 0; i < cnrNOwners; i++ {
		o := neotest.NewSingleSigner(cnrKey("owner", i))
		c.owners = append(c.owners, o)
		id := cnrB58Decode(address.Uint160ToString(o.ScriptHash()))
		require.Len(t, id, 25)
		c.ownerIDs = append(c.ownerIDs, id)
		c.ownerSH = append(c.ownerSH, o.ScriptHash().BytesBE())
	}
	// owners that coincide with fee recipients: the standard accounts of the first
	// and (for a multi-key committee) the last Alphabet key
	ai := []int{0}
	if nc > 1 {
		ai = append(ai, nc-1)
	}
	for _, i := range ai {
		o := neotest.NewSingleSigner(wallet.NewAccountFromPrivateKey(ks[i].PrivateKey()))
		require.Equal(t, c.alphaAccts[i], o.ScriptHash().BytesBE())
		c.owners = append(c.owners, o)
		id := cnrB58Decode(address.Uint160ToString(o.ScriptHash()))
		require.Len(t, id, 25)
		c.ownerIDs = append(c.ownerIDs, id)
		c.ownerSH = append(c.ownerSH, o.ScriptHash().BytesBE())
		c.alphaOwners = append(c.alphaOwners, len(c.owners)-1)
	}

	gasH := e.NativeHash(t, nativenames.Gas)
	tx := e.NewUnsignedTx(t, gasH, "transfer", e.Validator.ScriptHash(), c.payer.ScriptHash(), int64(5000000_0000_0000), nil)
	e.SignTx(t, tx, 1_0000_0000, e.Validator)
	e.AddNewBlock(t, tx)
	e.CheckHalt(t, tx.Hash())

	c.nns = c.deploy("nns", []any{[]any{[]any{"neofs", "ops@nspcc.io"}}})
	reg := func(name string, h util.Uint160) {
		r := c.Invoke(c.all(), c.nns, "register", name+".neofs", c.committee.ScriptHash(), "ops@nspcc.ru", int64(3600), int64(600), int64(10*365*24*3600), int64(3600))
		require.True(t, r.Halt, r.Fault)
		r = c.Invoke(c.all(), c.nns, "addRecord", name+".neofs", 16, h.StringLE())
		require.True(t, r.Halt, r.Fault)
	}
	c.netmap = c.deploy("netmap", []any{false, util.Uint160{}, util.Uint160{}, []any{}, []any{}})
	reg("netmap", c.netmap)
	c.balance = c.deploy("balance", []any{false, util.Uint160{}, util.Uint160{}})
	reg("balance", c.balance)
	c.neofsid = c.deploy("neofsid", []any{false})
	reg("neofsid", c.neofsid)
	c.container = c.deploy("container", []any{int64(0), c.netmap, c.balance, c.neofsid, c.nns, ""})
	reg("container", c.container)
	// a second alias zone
	r := c.Invoke(c.all(), c.nns, "registerTLD", "cdn", "ops@nspcc.ru", int64(3600), int64(600), int64(10*365*24*3600), int64(3600))
	require.True(t, r.Halt, r.Fault)

	c.t0 = e.TopBlock(t).Timestamp
	c.buildPools()
	c.nnsDump = c.StorageDump(c.nns)
	return c
}

// all returns payer + committee + alphabet (deduplicated).
func (c *cnrEnv) all() []neotest.Signer {
	s := []neotest.Signer{c.payer, c.committee}
	if c.alpha.ScriptHash() != c.committee.ScriptHash() {
		s = append(s, c.alpha)
	}
	return s
}

func (c *cnrEnv) deploy(name string, data any) util.Uint160 {
	p := filepath.Join(RepoDir, "contracts", name)
	ct := neotest.CompileFile(c.T, c.payer.ScriptHash(), p, filepath.Join(p, "config.yml"))
	h := state.CreateContractHash(c.payer.ScriptHash(), ct.NEF.Checksum, ct.Manifest.Name)
	rawManifest, err := json.Marshal(ct.Manifest)
	require.NoError(c.T, err)
	neb, err := ct.NEF.Bytes()
	require.NoError(c.T, err)
	tx := c.E.NewUnsignedTx(c.T, c.BC.ManagementContractHash(), "deploy", neb, rawManifest, data)
	c.E.SignTx(c.T, tx, 200_0000_0000, c.all()...)
	c.E.AddNewBlock(c.T, tx)
	c.E.CheckHalt(c.T, tx.Hash())
	require.NotNil(c.T, c.BC.GetContractState(h), name)
	return h
}

// invokeAt sends one transaction in a block whose timestamp is dt ms later
// than the default (+1 ms).
func (c *cnrEnv) invokeAt(dt uint64, signers []neotest.Signer, h util.Uint160, method string, args ...any) (Result, uint64) {
	// storing a 64 KiB descriptor costs about 65 GAS: a generous system fee, so
	// that gas (not modelled) never decides an outcome
	tx := c.E.NewUnsignedTx(c.T, h, method, args...)
	for i, sg := range signers {
		sc := transaction.Global
		if i > 0 { // the payer (sender) is never a party; its scope does not matter
			sc = []transaction.WitnessScope{transaction.Global, transaction.CalledByEntry, transaction.None}[c.scope]
		}
		tx.Signers = append(tx.Signers, transaction.Signer{Account: sg.ScriptHash(), Scopes: sc})
	}
	neotest.AddNetworkFee(c.T, c.BC, tx, signers...)
	c.E.AddSystemFee(tx, 400_0000_0000)
	for _, sg := range signers {
		require.NoError(c.T, sg.SignTx(c.BC.GetConfig().Magic, tx))
	}
	b := c.E.NewUnsignedBlock(c.T, tx)
	b.Timestamp += dt
	c.E.SignBlock(b)
	require.NoError(c.T, c.BC.AddBlock(b))
	return c.ResultOf(tx, b), b.Timestamp
}

// ---------------------------------------------------------------------------
// Pools

func cnrBlob(v int, owner []byte, salt byte) []byte {
	b := make([]byte, 2+v+4+25+6)
	for i := range b {
		b[i] = byte(0x40 + (i*7+int(salt))%50)
	}
	b[0] = 0x0a
	b[1] = byte(v)
	copy(b[2+v+4:], owner)
	b[len(b)-1] = salt
	return b
}

// cnrBlobN is a container blob of exactly L bytes: header and owner as in
// cnrBlob, then a constant filler (run-length friendly for the Coq literals)
// and the salt.
func cnrBlobN(v int, owner []byte, salt byte, L int) []byte {
	b := make([]byte, L)
	for i := range b {
		b[i] = 0x42
	}
	for i := 0; i < 2+v+4 && i < L; i++ {
		b[i] = byte(0x40 + (i*7+int(salt))%50)
	}
	b[0] = 0x0a
	b[1] = byte(v)
	copy(b[2+v+4:], owner)
	b[L-1] = salt
	return b
}

// cnrSizes: lengths that cross the encoding boundaries on the path of a
// container blob: 252/253 (var-uint length prefix of std.Serialize: 1 -> 3
// bytes), 255/256 (PUSHDATA1 -> PUSHDATA2 in the invocation script), 1 KiB,
// 4 KiB, and the largest blob a transaction can carry (script limit 65535;
// the storage value limit of 65535 for the serialized descriptor lies 32 bytes
// above it).
var cnrSizes = []int{252, 253, 254, 255, 256, 300, 1024, 4096}

// cnrPad extends b to L bytes with a constant filler.
func cnrPad(b []byte, L int) []byte {
	out := append([]byte{}, b...)
	for len(out) < L {
		out = append(out, 0x43)
	}
	return out
}

// sizedBlob is the (deterministic) container blob of length L.
func (c *cnrEnv) sizedBlob(L int) []byte {
	k := L % 7
	return cnrBlobN([]int{0, 2, 5}[k%3], c.ownerIDs[k%cnrNOwners], byte(0x20+k), L)
}

func (c *cnrEnv) buildPools() {
	// six blobs: version-field lengths 0, 2, 5 (the owner offset moves), two owners each
	vs := []int{0, 2, 5, 0, 2, 5}
	os := []int{0, 1, 2, 1, 0, 0}
	for i := range vs {
		c.blobs = append(c.blobs, cnrBlob(vs[i], c.ownerIDs[os[i]], byte(i+1)))
	}
	// containers owned by Alphabet nodes (payer = one of the payees)
	for k, oi := range c.alphaOwners {
		c.blobs = append(c.blobs, cnrBlob([]int{0, 2}[k%2], c.ownerIDs[oi], byte(7+k)))
	}
	// blobs whose length crosses the encoding boundaries.  Every getter reads
	// every pool blob after every operation, so the quick tier keeps four of them
	// in the pool (below/above the 252/253 boundary, 300, one multi-KiB); the
	// others, up to the largest blob a transaction carries, are put, listed and
	// deleted in the corpus.  The thorough tier has them all in the pool.
	c.firstSized = len(c.blobs)
	{
		tx := c.E.NewUnsignedTx(c.T, c.container, "put", make([]byte, 60000), cnrSigA, make([]byte, 33), cnrTok)
		c.maxBlob = 65535 - (len(tx.Script) - 60000)
	}
	poolSizes := []int{252, 253, 300, 4096}
	if Tier() == "thorough" {
		poolSizes = append(append([]int{}, cnrSizes...), c.maxBlob-100) // room for the name arguments of putNamed
	}
	for _, L := range poolSizes {
		c.blobs = append(c.blobs, c.sizedBlob(L))
	}
	for _, b := range c.blobs {
		h := sha256.Sum256(b)
		c.cids = append(c.cids, h[:])
	}
	// ids probed by the getters: the six + wrong-length and unknown ids
	c.pubs = [][]byte{cnrKey("pub", 0).PublicKey().Bytes(), cnrKey("pub", 1).PublicKey().Bytes()}
	for _, n := range []string{"aaa", "bbb", "c-1"} {
		for _, z := range []string{"container", "cdn"} {
			c.domains = append(c.domains, []byte(n+"."+z))
		}
	}
	c.probeOwners = append(c.probeOwners, c.ownerIDs...)
	c.probeOwners = append(c.probeOwners, []byte{}, c.ownerIDs[0][:1], c.ownerIDs[1][:12])
	c.accts = append(c.accts, c.ownerSH...)
	c.accts = append(c.accts, c.alphaAccts...)
}

func (c *cnrEnv) probeCids() [][]byte {
	out := append([][]byte{}, c.cids...)
	bogus := bytes.Repeat([]byte{0xEE}, 32)
	out = append(out, bogus, c.cids[0][:31], append(append([]byte{}, c.cids[1]...), 0), []byte{})
	return out
}

func cnrEACL(v int, cid []byte, salt byte) []byte {
	e := make([]byte, 2+v+4+len(cid)+3)
	for i := range e {
		e[i] = byte(0x20 + (i*3+int(salt))%40)
	}
	e[1] = byte(v)
	copy(e[2+v+4:], cid)
	return e
}

// readNNS reads the NNS storage after deployment into a Coq [nstate] term
// (expirations relative to the time base).
func (c *cnrEnv) readNNS(q *cnrCoq) string {
	BytesLit := func(b []byte) string { return q.pool.Ref(b) }
	dump := c.nnsDump
	var ks []string
	for k := range dump {
		ks = append(ks, k)
	}
	sort.Strings(ks)
	var roots, names, txts []string
	byHash := map[string]string{}
	type nm struct {
		name, owner string
		exp         int64
	}
	var nms []nm
	for _, k := range ks {
		if k[0] == 0x21 {
			it, err := stackitem.Deserialize([]byte(dump[k]))
			require.NoError(c.T, err)
			f := it.Value().([]stackitem.Item)
			name := string(ItemBytes(f[1]))
			byHash[string(hash.RipeMD160([]byte(name)).BytesBE())] = name
			nms = append(nms, nm{name: name, owner: string(ItemBytes(f[0])), exp: ItemInt(f[2]).Int64() - int64(c.t0)})
		}
	}
	for _, k := range ks {
		switch k[0] {
		case 0x20:
			roots = append(roots, BytesLit([]byte(k[1:])))
		case 0x22:
			it, err := stackitem.Deserialize([]byte(dump[k]))
			require.NoError(c.T, err)
			f := it.Value().([]stackitem.Item)
			if ItemInt(f[1]).Int64() != 16 {
				continue
			}
			tok, ok := byHash[k[1:21]]
			require.True(c.T, ok)
			txts = append(txts, fmt.Sprintf("((%s, %s), [%s])", BytesLit([]byte(tok)), BytesLit(ItemBytes(f[0])), BytesLit(ItemBytes(f[2]))))
		}
	}
	for _, n := range nms {
		names = append(names, fmt.Sprintf("(%s, mkName %s %s)", BytesLit([]byte(n.name)), BytesLit([]byte(n.owner)), ZI(n.exp)))
	}
	return fmt.Sprintf("mkN (list_to_set %s) (list_to_map %s) (list_to_map %s)", ListLit(roots), ListLit(names), ListLit(txts))
}

// ---------------------------------------------------------------------------
// Operations

type cnrOp struct {
	Kind    string   `json:"kind"` // put putNamed putMeta delete setEACL mint transfer setConfig nnsRegister nnsAddTxt nnsDelTxt
	Blob    []byte   `json:"blob,omitempty"`
	Sig     []byte   `json:"sig,omitempty"`
	Pub     []byte   `json:"pub,omitempty"`
	Tok     []byte   `json:"tok,omitempty"`
	Name    string   `json:"name,omitempty"`
	Zone    string   `json:"zone,omitempty"`
	Meta    bool     `json:"meta,omitempty"`
	Cid     []byte   `json:"cid,omitempty"`
	From    []byte   `json:"from,omitempty"`
	To      []byte   `json:"to,omitempty"`
	Amount  *big.Int `json:"amount,omitempty"`
	Key     string   `json:"key,omitempty"`
	Expire  int64    `json:"expire,omitempty"`
	Data    []byte   `json:"data,omitempty"`
	Role    int      `json:"role,omitempty"`   // designate: native role (4 StateValidator, 8 Oracle, 16 NeoFSAlphabet, 32 P2PNotary)
	Keys    [][]byte `json:"keys,omitempty"`   // designate: public keys
	Scope   int      `json:"scope,omitempty"`  // witness scope of every signer but the payer: 0 Global, 1 CalledByEntry, 2 None
	Signers []int    `json:"signers"` // -1 alphabet, -2 committee, i>=0 owner i (the payer always signs first)
	DT      uint64   `json:"dt,omitempty"` // extra milliseconds before this block
}

type cnrObs struct {
	halt    bool
	fault   string
	ret     string
	now     int64
	events  []cnrEvent
	getters [][4]string // per probed cid: get, owner, alias, eACL (Coq terms)
	got     []cnrGot
	lists   [][2][][]byte
	count   int64
	records []cnrRecs
	bals    []*big.Int
	scan    [6]int
	other   int
	rawKeys [][]byte
	idkeys  [][][]byte
	fees    [2]*big.Int // netmap.config(ContainerFee), config(ContainerAliasFee); nil = Null
}

type cnrGot struct {
	ok                    bool
	val, sig, pub, tok    []byte
	owner                 []byte
	ownerOK               bool
	alias                 []byte
	aliasOK, aliasNull    bool
	eacl                  [4][]byte
	eaclOK                bool
}

type cnrRecs struct {
	ok   bool
	recs [][]byte
}

type cnrEvent struct {
	kind     int // 10 PutSuccess 11 DeleteSuccess 12 SetEACLSuccess 0 Transfer 1 TransferX
	a, b     []byte
	from, to []byte
	amount   *big.Int
	details  []byte
}

func (c *cnrEnv) signers(idx []int) []neotest.Signer {
	out := []neotest.Signer{c.payer}
	seen := map[util.Uint160]bool{c.payer.ScriptHash(): true}
	add := func(s neotest.Signer) {
		if !seen[s.ScriptHash()] {
			seen[s.ScriptHash()] = true
			out = append(out, s)
		}
	}
	for _, i := range idx {
		switch {
		case i == -1:
			add(c.alpha)
		case i == -2:
			add(c.committee)
		default:
			add(c.owners[i])
		}
	}
	return out
}

// witnessed maps the signers and their witness scope to the model's context.
// The model has one flag for the Alphabet witness and one witness list, used
// by the contracts that Container calls (NNS; Balance and NeoFSID use the
// flag).  With scope None a signer witnesses nothing.  With CalledByEntry its
// witness holds in the contract the transaction invokes, not in the contracts
// that one calls:
//   - direct invocations (balance, netmap, nns): as Global;
//   - delete / setEACL: Container's own Alphabet check passes (flag true), NNS
//     does not see the signer (not in the list);
//   - put / putNamed / putMeta: Container's check passes but balance.transferX,
//     called once per Alphabet node, refuses: the invocation always faults, which
//     is what the model does with the flag false.
func (c *cnrEnv) witnessed(op cnrOp) (hs [][]byte, alpha bool) {
	direct := false
	switch op.Kind {
	case "mint", "transfer", "setConfig", "nnsRegister", "nnsAddTxt", "nnsDelTxt":
		direct = true
	}
	isPut := op.Kind == "put" || op.Kind == "putNamed" || op.Kind == "putMeta"
	for i, s := range c.signers(op.Signers) {
		sc := op.Scope
		if i == 0 {
			sc = 0
		}
		if sc == 0 || (sc == 1 && direct) {
			hs = append(hs, s.ScriptHash().BytesBE())
		}
		if s.ScriptHash() == c.alpha.ScriptHash() && (sc == 0 || (sc == 1 && !isPut)) {
			alpha = true
		}
	}
	return
}

func (c *cnrEnv) exec(op cnrOp) cnrObs {
	sg := c.signers(op.Signers)
	c.scope = op.Scope
	var r Result
	var ts uint64
	switch op.Kind {
	case "put":
		r, ts = c.invokeAt(op.DT, sg, c.container, "put", op.Blob, op.Sig, op.Pub, op.Tok)
	case "putNamed":
		r, ts = c.invokeAt(op.DT, sg, c.container, "putNamed", op.Blob, op.Sig, op.Pub, op.Tok, op.Name, op.Zone)
	case "putMeta":
		r, ts = c.invokeAt(op.DT, sg, c.container, "put", op.Blob, op.Sig, op.Pub, op.Tok, op.Meta)
	case "delete":
		r, ts = c.invokeAt(op.DT, sg, c.container, "delete", op.Cid, op.Sig, op.Tok)
	case "setEACL":
		r, ts = c.invokeAt(op.DT, sg, c.container, "setEACL", op.Blob, op.Sig, op.Pub, op.Tok)
	case "mint":
		r, ts = c.invokeAt(op.DT, sg, c.balance, "mint", op.To, op.Amount, op.Data)
	case "transfer":
		r, ts = c.invokeAt(op.DT, sg, c.balance, "transfer", op.From, op.To, op.Amount, nil)
	case "setConfig":
		r, ts = c.invokeAt(op.DT, sg, c.netmap, "setConfig", []byte{1}, []byte(op.Key), op.Amount)
	case "nnsRegister":
		r, ts = c.invokeAt(op.DT, sg, c.nns, "register", op.Name, op.To, "ops@nspcc.ru", int64(3600), int64(600), op.Expire, int64(3600))
	case "nnsAddTxt":
		r, ts = c.invokeAt(op.DT, sg, c.nns, "addRecord", op.Name, 16, op.Data)
	case "nnsDelTxt":
		r, ts = c.invokeAt(op.DT, sg, c.nns, "deleteRecords", op.Name, 16)
	case "designate":
		ks := make([]any, len(op.Keys))
		for i, k := range op.Keys {
			ks[i] = k
		}
		r, ts = c.invokeAt(op.DT, sg, c.E.NativeHash(c.T, nativenames.Designation), "designateAsRole", int64(op.Role), ks)
	default:
		panic(op.Kind)
	}
	o := cnrObs{halt: r.Halt, fault: r.Fault, now: int64(ts) - int64(c.t0)}
	switch {
	case !r.Halt:
		o.ret = VFault
	case op.Kind == "transfer" || op.Kind == "nnsRegister":
		require.Len(c.T, r.Stack, 1)
		bv, err := r.Stack[0].TryBool()
		require.NoError(c.T, err)
		o.ret = VBool(bv)
	default:
		o.ret = VNull
	}
	for _, ev := range r.Events {
		items, _ := ev.Item.Value().([]stackitem.Item)
		switch {
		case ev.ScriptHash == c.container && ev.Name == "PutSuccess":
			o.events = append(o.events, cnrEvent{kind: 10, a: ItemBytes(items[0]), b: ItemBytes(items[1])})
		case ev.ScriptHash == c.container && ev.Name == "DeleteSuccess":
			o.events = append(o.events, cnrEvent{kind: 11, a: ItemBytes(items[0])})
		case ev.ScriptHash == c.container && ev.Name == "SetEACLSuccess":
			o.events = append(o.events, cnrEvent{kind: 12, a: ItemBytes(items[0]), b: ItemBytes(items[1])})
		case ev.ScriptHash == c.container:
			o.events = append(o.events, cnrEvent{kind: 99, a: []byte(ev.Name)})
		case ev.ScriptHash == c.balance && ev.Name == "Transfer":
			o.events = append(o.events, cnrEvent{kind: 0, from: ItemBytes(items[0]), to: ItemBytes(items[1]), amount: ItemInt(items[2])})
		case ev.ScriptHash == c.balance && ev.Name == "TransferX":
			o.events = append(o.events, cnrEvent{kind: 1, from: ItemBytes(items[0]), to: ItemBytes(items[1]), amount: ItemInt(items[2]), details: ItemBytes(items[3])})
		}
	}
	c.observe(&o)
	return o
}

func cnrStructFields(it stackitem.Item) [][]byte {
	arr, ok := it.Value().([]stackitem.Item)
	if !ok {
		return nil
	}
	out := make([][]byte, len(arr))
	for i := range arr {
		out[i] = ItemBytes(arr[i])
	}
	return out
}

func cnrBytesArray(it stackitem.Item) [][]byte {
	if _, ok := it.(stackitem.Null); ok {
		return nil
	}
	arr, ok := it.Value().([]stackitem.Item)
	if !ok {
		return [][]byte{[]byte("?")}
	}
	out := make([][]byte, len(arr))
	for i := range arr {
		out[i] = ItemBytes(arr[i])
	}
	return out
}

func (c *cnrEnv) observe(o *cnrObs) {
	for _, cid := range c.probeCids() {
		var g cnrGot
		if it, err := c.Read(c.container, "get", cid); err == nil {
			f := cnrStructFields(it)
			require.Len(c.T, f, 4)
			g.ok, g.val, g.sig, g.pub, g.tok = true, f[0], f[1], f[2], f[3]
		}
		if it, err := c.Read(c.container, "owner", cid); err == nil {
			g.ownerOK, g.owner = true, ItemBytes(it)
		}
		if it, err := c.Read(c.container, "alias", cid); err == nil {
			g.aliasOK = true
			if _, isNull := it.(stackitem.Null); isNull {
				g.aliasNull = true
			} else {
				g.alias = ItemBytes(it)
			}
		}
		if it, err := c.Read(c.container, "eACL", cid); err == nil {
			f := cnrStructFields(it)
			require.Len(c.T, f, 4)
			g.eaclOK = true
			copy(g.eacl[:], f)
		}
		o.got = append(o.got, g)
	}
	for _, ow := range c.probeOwners {
		var l [2][][]byte
		it, err := c.Read(c.container, "list", ow)
		require.NoError(c.T, err)
		l[0] = cnrBytesArray(it)
		it, err = c.Read(c.container, "containersOf", ow)
		require.NoError(c.T, err)
		l[1] = cnrBytesArray(it)
		o.lists = append(o.lists, l)
	}
	o.count = c.ReadInt(c.container, "count").Int64()
	for _, d := range c.domains {
		var rr cnrRecs
		if it, err := c.Read(c.nns, "getRecords", string(d), 16); err == nil {
			rr.ok, rr.recs = true, cnrBytesArray(it)
		}
		o.records = append(o.records, rr)
	}
	for _, a := range c.accts {
		o.bals = append(o.bals, c.ReadInt(c.balance, "balanceOf", a))
	}
	// raw scan of the container storage grouped by prefix
	o.rawKeys = c.StorageKeys(c.container, nil)
	for _, k := range o.rawKeys {
		switch {
		case k[0] == 'x':
			o.scan[0]++
		case k[0] == 'o':
			o.scan[1]++
		case k[0] == 'd':
			o.scan[2]++
		case bytes.HasPrefix(k, []byte("eACL")):
			o.scan[3]++
		case bytes.HasPrefix(k, []byte("nnsHasAlias")):
			o.scan[4]++
		case k[0] == 'm':
			o.scan[5]++
		default:
			o.other++
		}
	}
	for i, k := range []string{"ContainerFee", "ContainerAliasFee"} {
		if it, err := c.Read(c.netmap, "config", []byte(k)); err == nil {
			if _, isNull := it.(stackitem.Null); !isNull {
				o.fees[i] = ItemInt(it)
			}
		}
	}
	for _, ow := range c.ownerIDs {
		it, err := c.Read(c.neofsid, "key", ow)
		require.NoError(c.T, err)
		o.idkeys = append(o.idkeys, cnrBytesArray(it))
	}
}

// ---------------------------------------------------------------------------
// Coq output

type cnrCoq struct {
	pool  *Pool
	vals  map[string]string
	vdefs []string
	cidTab, b58Tab map[string]bool
	cidRows, b58Rows []string
}

func newCnrCoq() *cnrCoq {
	return &cnrCoq{pool: NewPool("b"), vals: map[string]string{}, cidTab: map[string]bool{}, b58Tab: map[string]bool{}}
}

// iv interns a val term.
func (q *cnrCoq) iv(term string) string {
	if n, ok := q.vals[term]; ok {
		return n
	}
	n := fmt.Sprintf("v%d", len(q.vdefs))
	q.vals[term] = n
	q.vdefs = append(q.vdefs, fmt.Sprintf("Definition %s : val := %s.", n, term))
	return n
}

// it interns a term of the given type.
func (q *cnrCoq) it(typ, term string) string {
	if n, ok := q.vals[typ+"|"+term]; ok {
		return n
	}
	n := fmt.Sprintf("t%d", len(q.vdefs))
	q.vals[typ+"|"+term] = n
	q.vdefs = append(q.vdefs, fmt.Sprintf("Definition %s : %s := %s.", n, typ, term))
	return n
}

func (q *cnrCoq) vb(b []byte) string { return VBytesRef(q.pool.Ref(b)) }

func (q *cnrCoq) vbl(bs [][]byte) string {
	xs := make([]string, len(bs))
	for i, b := range bs {
		xs[i] = q.vb(b)
	}
	return VList(xs)
}

func (q *cnrCoq) refs(bs [][]byte) string {
	xs := make([]string, len(bs))
	for i, b := range bs {
		xs[i] = q.pool.Ref(b)
	}
	return ListLit(xs)
}

// noteBlob records sha256 and base58 of a blob in the hash tables.
func (q *cnrCoq) noteBlob(blob []byte) {
	if q.cidTab[string(blob)] {
		return
	}
	q.cidTab[string(blob)] = true
	h := sha256.Sum256(blob)
	q.cidRows = append(q.cidRows, fmt.Sprintf("(%s, %s)", q.pool.Ref(blob), q.pool.Ref(h[:])))
	if !q.b58Tab[string(h[:])] {
		q.b58Tab[string(h[:])] = true
		q.b58Rows = append(q.b58Rows, fmt.Sprintf("(%s, %s)", q.pool.Ref(h[:]), q.pool.Ref([]byte(cnrB58Encode(h[:])))))
	}
}

func (c *cnrEnv) coqOp(q *cnrCoq, op cnrOp) string {
	p := q.pool
	switch op.Kind {
	case "put":
		q.noteBlob(op.Blob)
		return fmt.Sprintf("Put %s %s %s %s", p.Ref(op.Blob), p.Ref(op.Sig), p.Ref(op.Pub), p.Ref(op.Tok))
	case "putNamed":
		q.noteBlob(op.Blob)
		return fmt.Sprintf("PutNamed %s %s %s %s %s %s", p.Ref(op.Blob), p.Ref(op.Sig), p.Ref(op.Pub), p.Ref(op.Tok), p.Ref([]byte(op.Name)), p.Ref([]byte(op.Zone)))
	case "putMeta":
		q.noteBlob(op.Blob)
		return fmt.Sprintf("PutMeta %s %s %s %s %s", p.Ref(op.Blob), p.Ref(op.Sig), p.Ref(op.Pub), p.Ref(op.Tok), BoolLit(op.Meta))
	case "delete":
		return fmt.Sprintf("Delete %s %s %s", p.Ref(op.Cid), p.Ref(op.Sig), p.Ref(op.Tok))
	case "setEACL":
		return fmt.Sprintf("SetEACL %s %s %s %s", p.Ref(op.Blob), p.Ref(op.Sig), p.Ref(op.Pub), p.Ref(op.Tok))
	case "mint":
		return fmt.Sprintf("Bal (Mint %s %s %s)", p.Ref(op.To), ZLit(op.Amount), p.Ref(op.Data))
	case "transfer":
		return fmt.Sprintf("Bal (Transfer %s %s %s)", p.Ref(op.From), p.Ref(op.To), ZLit(op.Amount))
	case "setConfig":
		return fmt.Sprintf("SetConfig %s %s", p.Ref([]byte(op.Key)), ZLit(op.Amount))
	case "nnsRegister":
		return fmt.Sprintf("NnsRegister %s %s %s", p.Ref([]byte(op.Name)), p.Ref(op.To), ZI(op.Expire))
	case "nnsAddTxt":
		return fmt.Sprintf("NnsAddTxt %s %s", p.Ref([]byte(op.Name)), p.Ref(op.Data))
	case "nnsDelTxt":
		return fmt.Sprintf("NnsDelTxt %s", p.Ref([]byte(op.Name)))
	}
	panic(op.Kind)
}

func (c *cnrEnv) coqStep(q *cnrCoq, op cnrOp, o cnrObs) string {
	hs, alpha := c.witnessed(op)
	var evs []string
	for _, ev := range o.events {
		switch ev.kind {
		case 10, 12:
			evs = append(evs, VList([]string{VIntI(int64(ev.kind)), q.vb(ev.a), q.vb(ev.b)}))
		case 11:
			evs = append(evs, VList([]string{VIntI(11), q.vb(ev.a)}))
		case 0:
			evs = append(evs, VList([]string{VIntI(0), q.vb(ev.from), q.vb(ev.to), VInt(ev.amount)}))
		case 1:
			evs = append(evs, VList([]string{VIntI(1), q.vb(ev.from), q.vb(ev.to), VInt(ev.amount), q.vb(ev.details)}))
		default:
			evs = append(evs, VList([]string{VIntI(99)}))
		}
	}
	var gs []string
	for _, g := range o.got {
		var f [4]string
		f[0], f[1], f[2], f[3] = VFault, VFault, VFault, VFault
		if g.ok {
			f[0] = VList([]string{q.vb(g.val), q.vb(g.sig), q.vb(g.pub), q.vb(g.tok)})
		}
		if g.ownerOK {
			f[1] = q.vb(g.owner)
		}
		if g.aliasOK {
			if g.aliasNull {
				f[2] = VNull
			} else {
				f[2] = q.vb(g.alias)
			}
		}
		if g.eaclOK {
			f[3] = VList([]string{q.vb(g.eacl[0]), q.vb(g.eacl[1]), q.vb(g.eacl[2]), q.vb(g.eacl[3])})
		}
		gs = append(gs, q.iv(VList(f[:])))
	}
	var ls []string
	for _, l := range o.lists {
		ls = append(ls, q.iv(VList([]string{q.vbl(l[0]), q.vbl(l[1])})))
	}
	var rs []string
	for _, r := range o.records {
		if r.ok {
			rs = append(rs, q.vbl(r.recs))
		} else {
			rs = append(rs, VFault)
		}
	}
	var bs []string
	for _, b := range o.bals {
		bs = append(bs, VInt(b))
	}
	var sc []string
	for _, n := range o.scan {
		sc = append(sc, VIntI(int64(n)))
	}
	var ids []string
	for _, l := range o.idkeys {
		ids = append(ids, q.vbl(l))
	}
	obs := VList([]string{o.ret, q.iv(VList(evs)), q.iv(VList(gs)), q.iv(VList(ls)), VIntI(o.count),
		q.iv(VList(rs)), q.iv(VList(bs)), q.iv(VList(sc)), q.iv(VList(ids))})
	return fmt.Sprintf("((%s, %s, %s, %s), %s)", BoolLit(alpha), ZI(o.now), q.it("list bytes", q.refs(hs)), c.coqOp(q, op), obs)
}

func (c *cnrEnv) coqCase(q *cnrCoq, steps []string, wf bool) string {
	probe := fmt.Sprintf("mkProbe %s %s %s %s %s", q.refs(c.probeCids()), q.refs(c.probeOwners), q.refs(c.domains), q.refs(c.accts), q.refs(c.ownerIDs))
	return fmt.Sprintf("mkCase %s %s %s %s %s %s %s", q.it("probe", probe), q.refs(c.alphaAccts),
		q.pool.Ref(c.committee.ScriptHash().BytesBE()), q.pool.Ref(c.container.BytesBE()), q.it("nstate", c.readNNS(q)), BoolLit(wf), ListLit(steps))
}

// cnrBytesLit prints a byte string as a Coq term, long runs of one byte as
// [repeat x n] (a 64 KiB blob stays a short literal).
func cnrBytesLit(b []byte) string {
	if len(b) < 64 {
		return BytesLit(b)
	}
	var parts []string
	lit := 0
	flush := func(to int) {
		if to > lit {
			parts = append(parts, BytesLit(b[lit:to]))
		}
	}
	for i := 0; i < len(b); {
		j := i
		for j < len(b) && b[j] == b[i] {
			j++
		}
		if j-i >= 32 {
			flush(i)
			parts = append(parts, fmt.Sprintf("repeat %d%%N (N.to_nat %d)", b[i], j-i))
			lit = j
		}
		i = j
	}
	flush(len(b))
	return strings.Join(parts, " ++ ")
}

func cnrPoolDefs(p *Pool) string {
	var sb strings.Builder
	for i, s := range p.order {
		fmt.Fprintf(&sb, "Definition %s%d : bytes := %s.\n", p.pfx, i, cnrBytesLit([]byte(s)))
	}
	return sb.String()
}

func writeCnrCases(path string, q *cnrCoq, cases []string) error {
	var sb strings.Builder
	sb.WriteString("From Verif Require Import Base.Prelude Model.Balance Model.Container Proofs.ContainerNNS.\nLocal Open Scope Z_scope.\n")
	sb.WriteString(cnrPoolDefs(q.pool))
	sb.WriteString(strings.Join(q.vdefs, "\n"))
	sb.WriteString("\nDefinition cid_tab : list (bytes * bytes) := " + ListLit(q.cidRows) + ".\n")
	sb.WriteString("Definition b58_tab : list (bytes * bytes) := " + ListLit(q.b58Rows) + ".\n")
	sb.WriteString(`Record ccase := mkCase {
  k_probe : probe; k_alphabet : list bytes; k_caddr : bytes; k_self : bytes; k_nns : nstate;
  k_wf : bool; (* the harness claims the premise wf_alias of C04_delete_total_partial *)
  k_steps : list ((bool * Z * list bytes * wop) * val) }.
Definition foreign_tab (d : bytes) : bool := negb (existsb (fun kv => bytes_eqb (snd kv) d) b58_tab).
Definition case_ops (k : ccase) : list (cctx * wop) :=
  map (fun (sv : (bool * Z * list bytes * wop) * val) =>
         let '(a, now, wit, o) := fst sv in (mkCC a (k_alphabet k) now wit (k_caddr k) (k_self k), o))
      (k_steps k).
Definition check_case (k : ccase) :=
  match run_case (fun w (x : bool * Z * list bytes * wop) =>
              let '(a, now, wit, o) := x in
              wstep_obs (table_fun cid_tab) (table_fun b58_tab) (k_probe k) w
                (mkCC a (k_alphabet k) now wit (k_caddr k) (k_self k), o))
           (winit default_root (k_nns k)) 0 (k_steps k) with
  | Some x => Some x
  | None =>
      if k_wf k && negb (wf_alias (table_fun cid_tab) (table_fun b58_tab) foreign_tab
                           (winit default_root (k_nns k)) (case_ops k))
      then Some (4999%nat, VBool false) else None
  end.
`)
	sb.WriteString("Definition cases : list ccase := [\n")
	sb.WriteString(strings.Join(cases, ";\n"))
	sb.WriteString("\n].\nDefinition M := Eval vm_compute in failures_from 0 (map check_case cases).\nPrint M.\n(* histories for which the premise wf_alias is claimed and confirmed / all histories *)\nDefinition W := Eval vm_compute in (length (List.filter k_wf cases), length cases).\nPrint W.\n")
	return os.WriteFile(path, []byte(sb.String()), 0o644)
}


// ---------------------------------------------------------------------------
// Reference registry and monitors (search engines for a concrete failing
// input; the verdict on the property is the theorem plus the correspondence).

type cnrInfo struct {
	blob, sig, pub, tok, owner []byte
	eacl                       *[4][]byte
	alias                      string
	hasAlias                   bool
	meta                       bool
	aliasHist                  []string // earlier aliases overwritten while live (signature of C04/realias)
}

type cnrMon struct {
	c       *cnrEnv
	st      *Stats
	prop    string
	live    map[string]*cnrInfo
	dead    map[string]bool
	oldAl   map[string][]string // cid -> aliases overwritten during its life (kept after deletion)
	cfg     map[string]*big.Int
	prev    *cnrObs
	hist    []cnrOp
	foreign map[string]bool            // TXT data written into NNS directly (not by Container)
	expLeft map[string]map[string]bool // cid -> alias domains that were expired / unregistered when the container was deleted
	wfAlias bool // the premise wf_alias of C04_delete_total_partial holds so far (conservative)
	nPutOK, nPutFail, nDelOK, nEaclOK, nNamedOK int
}

func newCnrMon(c *cnrEnv, st *Stats, prop string) *cnrMon {
	return &cnrMon{c: c, st: st, prop: prop, live: map[string]*cnrInfo{}, dead: map[string]bool{},
		oldAl: map[string][]string{}, cfg: map[string]*big.Int{}, foreign: map[string]bool{}, expLeft: map[string]map[string]bool{}, wfAlias: true}
}

func (m *cnrMon) violate(what string) { m.st.AddViolation(what, m.hist) }

// violate4 / violate5: each run reports the violations of its own property.
func (m *cnrMon) violate4(what string) {
	if m.prop == "C04" {
		m.violate(what)
	}
}

func (m *cnrMon) violate5(what string) {
	if m.prop == "C05" {
		m.violate(what)
	}
}

func cnrOwnerOf(blob []byte) ([]byte, bool) {
	if len(blob) < 2 {
		return nil, false
	}
	off := 2 + int(blob[1]) + 4
	if len(blob) < off+25 {
		return nil, false
	}
	return blob[off : off+25], true
}

func cnrEACLCid(e []byte) ([]byte, bool) {
	if len(e) < 2 {
		return nil, false
	}
	off := 2 + int(e[1]) + 4
	if len(e) < off+32 {
		return nil, false
	}
	return e[off : off+32], true
}

func (m *cnrMon) domainOf(op cnrOp) string {
	z := op.Zone
	if z == "" {
		z = "container"
	}
	return op.Name + "." + z
}

func cnrSameBytesList(a, b [][]byte) bool {
	if len(a) != len(b) {
		return false
	}
	for i := range a {
		if !bytes.Equal(a[i], b[i]) {
			return false
		}
	}
	return true
}

func (m *cnrMon) step(op cnrOp, o *cnrObs) {
	m.hist = append(m.hist, op)
	c := m.c
	isPut := op.Kind == "put" || op.Kind == "putNamed" || op.Kind == "putMeta"
	var cevs, tx []cnrEvent
	for _, ev := range o.events {
		if ev.kind >= 10 {
			cevs = append(cevs, ev)
		} else if ev.kind == 1 {
			tx = append(tx, ev)
		}
	}
	// --- what the call did, by its own account
	putOK := isPut && o.halt
	delOK := op.Kind == "delete" && o.halt && len(cevs) == 1 && cevs[0].kind == 11
	eaclOK := op.Kind == "setEACL" && o.halt
	var cid []byte
	if isPut {
		h := sha256.Sum256(op.Blob)
		cid = h[:]
	}
	// --- C04: notifications
	switch {
	case putOK:
		if len(cevs) != 1 || cevs[0].kind != 10 || !bytes.Equal(cevs[0].a, cid) || !bytes.Equal(cevs[0].b, op.Pub) {
			m.violate4("successful put did not emit exactly one PutSuccess(cid, pub)")
		}
	case delOK:
		if !bytes.Equal(cevs[0].a, op.Cid) {
			m.violate4("DeleteSuccess names another container")
		}
	case eaclOK:
		ec, _ := cnrEACLCid(op.Blob)
		if len(cevs) != 1 || cevs[0].kind != 12 || !bytes.Equal(cevs[0].a, ec) || !bytes.Equal(cevs[0].b, op.Pub) {
			m.violate4("successful setEACL did not emit exactly one SetEACLSuccess(cid, pub)")
		}
	default:
		if len(cevs) != 0 {
			m.violate4(fmt.Sprintf("%s (halt=%v) emitted a container notification", op.Kind, o.halt))
		}
		if op.Kind == "delete" && o.halt && m.live[string(op.Cid)] != nil {
			m.violate4(fmt.Sprintf("delete of the live container %x halted without deleting it (no DeleteSuccess)", op.Cid))
		}
	}
	// --- reference registry
	switch {
	case putOK:
		m.nPutOK++
		if m.dead[string(cid)] {
			m.violate4("a deleted container id was registered again")
		}
		inf := m.live[string(cid)]
		if inf == nil {
			inf = &cnrInfo{}
			m.live[string(cid)] = inf
		}
		ow, ok := cnrOwnerOf(op.Blob)
		if !ok {
			m.violate4("put accepted a blob without an owner field")
		}
		inf.blob, inf.sig, inf.pub, inf.tok, inf.owner = op.Blob, op.Sig, op.Pub, op.Tok, ow
		if op.Kind == "putNamed" && op.Name != "" {
			m.nNamedOK++
			d := m.domainOf(op)
			if inf.hasAlias {
				m.wfAlias = false // a second alias for a live container
			}
			if inf.hasAlias && inf.alias != d {
				inf.aliasHist = append(inf.aliasHist, inf.alias)
				m.oldAl[string(cid)] = append(m.oldAl[string(cid)], inf.alias)
			}
			inf.alias, inf.hasAlias = d, true
		}
		if op.Kind == "putMeta" && op.Meta {
			inf.meta = true
		}
	case isPut:
		m.nPutFail++
	case delOK:
		m.nDelOK++
		if inf := m.live[string(op.Cid)]; inf == nil {
			m.violate4("DeleteSuccess for a container that was not live")
		} else if inf.hasAlias {
			// premise: the alias domain is registered and unexpired (then NNS either
			// removes the records or the whole delete faults)
			ok := false
			for i, dm := range c.domains {
				if string(dm) == inf.alias && o.records[i].ok {
					ok = true
				}
			}
			if !ok {
				m.wfAlias = false
			}
			for i, dm := range c.domains {
				if string(dm) == inf.alias && !o.records[i].ok {
					// NNS reports the alias domain expired / not found: the contract lets
					// the delete pass and the record stays in NNS storage (out of the
					// property's scope: no expiry in its quantifier)
					if m.expLeft[string(op.Cid)] == nil {
						m.expLeft[string(op.Cid)] = map[string]bool{}
					}
					m.expLeft[string(op.Cid)][inf.alias] = true
				}
			}
		}
		delete(m.live, string(op.Cid))
		m.dead[string(op.Cid)] = true
	case eaclOK:
		m.nEaclOK++
		ec, _ := cnrEACLCid(op.Blob)
		inf := m.live[string(ec)]
		if inf == nil {
			m.violate4("setEACL succeeded for a container that is not live")
		} else {
			inf.eacl = &[4][]byte{op.Blob, op.Sig, op.Pub, op.Tok}
		}
	case op.Kind == "setConfig" && o.halt:
		m.cfg[op.Key] = op.Amount
	case op.Kind == "nnsAddTxt" && o.halt:
		m.foreign[string(op.Data)] = true
		for _, b := range o.recCids(m) {
			if cnrB58Encode(b) == string(op.Data) {
				m.wfAlias = false
			}
		}
		for _, b := range c.cids {
			if cnrB58Encode(b) == string(op.Data) {
				m.wfAlias = false
			}
		}
	}
	// --- C04: read API = live set
	for i, pc := range c.probeCids() {
		g := o.got[i]
		inf := m.live[string(pc)]
		if inf == nil {
			if g.ok || g.ownerOK || g.aliasOK || g.eaclOK {
				m.violate4(fmt.Sprintf("getter answered for id %x which is not live", pc))
			}
			continue
		}
		hh := sha256.Sum256(g.val)
		if !g.ok || !bytes.Equal(hh[:], pc) || !bytes.Equal(g.val, inf.blob) || !bytes.Equal(g.sig, inf.sig) || !bytes.Equal(g.pub, inf.pub) || !bytes.Equal(g.tok, inf.tok) {
			m.violate4(fmt.Sprintf("get(%x) is not the stored container / not a pre-image of the id", pc))
		}
		if !g.ownerOK || !bytes.Equal(g.owner, inf.owner) {
			m.violate4(fmt.Sprintf("owner(%x) is not the owner encoded in the blob", pc))
		}
		if !g.aliasOK || g.aliasNull == inf.hasAlias || (inf.hasAlias && string(g.alias) != inf.alias) {
			m.violate4(fmt.Sprintf("alias(%x) is not the last name set", pc))
		}
		want := [4][]byte{}
		if inf.eacl != nil {
			want = *inf.eacl
		}
		if !g.eaclOK || !bytes.Equal(g.eacl[0], want[0]) || !bytes.Equal(g.eacl[1], want[1]) || !bytes.Equal(g.eacl[2], want[2]) || !bytes.Equal(g.eacl[3], want[3]) {
			m.violate4(fmt.Sprintf("eACL(%x) is not the last table set", pc))
		}
	}
	for i, po := range c.probeOwners {
		var byCid, byKey [][]byte
		var keys []string
		for k, inf := range m.live {
			if bytes.HasPrefix(inf.owner, po) {
				keys = append(keys, k)
			}
		}
		sort.Strings(keys)
		for _, k := range keys {
			byCid = append(byCid, []byte(k))
		}
		sort.Slice(keys, func(a, b int) bool {
			return string(m.live[keys[a]].owner)+keys[a] < string(m.live[keys[b]].owner)+keys[b]
		})
		for _, k := range keys {
			byKey = append(byKey, []byte(k))
		}
		wantList := byKey
		if len(po) == 0 {
			wantList = byCid
		}
		if !cnrSameBytesList(o.lists[i][0], wantList) {
			m.violate4(fmt.Sprintf("list(%x) is not the sorted set of live ids of that owner", po))
		}
		if !cnrSameBytesList(o.lists[i][1], byKey) {
			m.violate4(fmt.Sprintf("containersOf(%x) is not the sorted set of live ids of that owner", po))
		}
	}
	if o.count != int64(len(m.live)) {
		m.violate4(fmt.Sprintf("count = %d, live containers = %d", o.count, len(m.live)))
	}
	// --- C04: raw storage: every trace of a deleted id is gone, tombstones stay
	ne, na, nm := 0, 0, 0
	for _, inf := range m.live {
		if inf.eacl != nil {
			ne++
		}
		if inf.hasAlias {
			na++
		}
		if inf.meta {
			nm++
		}
	}
	if o.scan != [6]int{len(m.live), len(m.live), len(m.dead), ne, na, nm} || o.other != 5 {
		m.violate4(fmt.Sprintf("raw scan by prefix x,o,d,eACL,alias,m = %v (+%d other keys), expected %v (+5)", o.scan, o.other, [6]int{len(m.live), len(m.live), len(m.dead), ne, na, nm}))
	}
	for d := range m.dead {
		found := false
		for _, k := range o.rawKeys {
			if bytes.Equal(k, append([]byte{'d'}, d...)) {
				found = true
			} else if bytes.Contains(k, []byte(d)) {
				m.violate4(fmt.Sprintf("storage key %x still mentions the deleted container %x", k, d))
			}
		}
		if !found {
			m.violate4(fmt.Sprintf("tombstone of %x disappeared", d))
		}
	}
	// --- C04: NNS records of alias domains
	// every TXT record NNS shows under an alias domain belongs to a live container
	// that has this alias; in particular, after DeleteSuccess the record is gone
	// (a delete either removes everything or faults and changes nothing)
	{
		for i, dm := range c.domains {
			if !o.records[i].ok {
				continue
			}
			for _, rec := range o.records[i].recs {
				if m.foreign[string(rec)] {
					continue
				}
				var owner []byte
				for _, b := range o.recCids(m) {
					if cnrB58Encode(b) == string(rec) {
						owner = b
					}
				}
				if owner == nil {
					m.violate4(fmt.Sprintf("alias domain %s holds a TXT record %q of no known container", dm, rec))
					continue
				}
				if inf := m.live[string(owner)]; inf != nil && inf.hasAlias && inf.alias == string(dm) {
					continue
				}
				known := false
				for _, a := range m.oldAl[string(owner)] {
					if a == string(dm) {
						known = true
					}
				}
				if known {
					// signature of the known finding: the record sits under an alias that a
					// later putNamed of the same live container overwrote
					if m.prop == "C04" {
						m.st.AddKnown("C04/realias")
					}
				} else if m.expLeft[string(owner)][string(dm)] {
					// left behind by a delete that found the domain expired, visible again
					// after somebody re-registered the name
				} else {
					m.violate4(fmt.Sprintf("alias domain %s still holds the TXT record of container %x which is not live under that name", dm, owner))
				}
			}
		}
	}
	// --- C05: the fee values in force are those of the accepted setConfig calls
	for i, k := range []string{"ContainerFee", "ContainerAliasFee"} {
		want := m.cfg[k]
		switch {
		case want == nil && o.fees[i] != nil:
			m.violate5(fmt.Sprintf("netmap.config(%s) = %s, never configured", k, o.fees[i]))
		case want != nil && (o.fees[i] == nil || o.fees[i].Cmp(want) != 0):
			m.violate5(fmt.Sprintf("netmap.config(%s) = %v after setConfig(%s, %s) was accepted", k, o.fees[i], k, want))
		}
	}
	// --- C05: exact fee, atomicity
	n := int64(len(c.alphaAccts))
	if putOK {
		fee := m.cfg["ContainerFee"]
		if fee == nil {
			m.violate5("put succeeded without a configured ContainerFee")
			fee = new(big.Int)
		}
		fee = new(big.Int).Set(fee)
		if op.Kind == "putNamed" && op.Name != "" {
			if af := m.cfg["ContainerAliasFee"]; af != nil {
				fee.Add(fee, af)
			} else {
				m.violate5("named put succeeded without a configured ContainerAliasFee")
			}
		}
		ow, _ := cnrOwnerOf(op.Blob)
		from := ow[1:21]
		total := new(big.Int).Mul(fee, big.NewInt(n))
		if fee.Sign() < 0 {
			m.violate5("put succeeded with a negative fee")
		}
		for i, a := range c.accts {
			want := new(big.Int).Set(m.prev.bals[i])
			if bytes.Equal(a, from) {
				if want.Cmp(total) < 0 {
					m.violate5(fmt.Sprintf("put succeeded although the owner held %s < fee*N = %s", want, total))
				}
				want.Sub(want, total)
			}
			for _, al := range c.alphaAccts {
				if bytes.Equal(a, al) {
					want.Add(want, fee)
				}
			}
			if o.bals[i].Cmp(want) != 0 {
				m.violate5(fmt.Sprintf("after put (fee %s, N %d) account #%d holds %s, expected %s", fee, n, i, o.bals[i], want))
			}
		}
		if int64(len(tx)) != n {
			m.violate5(fmt.Sprintf("put emitted %d TransferX notifications, Alphabet size is %d", len(tx), n))
		} else {
			for i, ev := range tx {
				if !bytes.Equal(ev.from, from) || !bytes.Equal(ev.to, c.alphaAccts[i]) || ev.amount.Cmp(fee) != 0 || !bytes.Equal(ev.details, append([]byte{0x10}, cid...)) {
					m.violate5(fmt.Sprintf("TransferX #%d of put is not (owner -> alphabet[%d], fee, 0x10++cid)", i, i))
				}
			}
		}
		if m.live[string(cid)] == nil {
			m.violate5("put paid but the container is not stored")
		}
	}
	if isPut && !o.halt && m.prev != nil {
		// the quantifier's threshold: an owner who cannot pay makes the call fail (checked via atomicity below)
	}
	if !o.halt && m.prev != nil {
		// a failed invocation changes nothing anywhere
		for i := range o.bals {
			if o.bals[i].Cmp(m.prev.bals[i]) != 0 {
				m.violate5(fmt.Sprintf("failed %s changed the balance of account #%d", op.Kind, i))
			}
		}
		if len(o.events) != 0 {
			m.violate5("failed invocation emitted notifications")
		}
		if !cnrSameBytesList(o.rawKeys, m.prev.rawKeys) || o.count != m.prev.count {
			m.violate5(fmt.Sprintf("failed %s changed the container storage", op.Kind))
		}
		for i := range o.idkeys {
			if !cnrSameBytesList(o.idkeys[i], m.prev.idkeys[i]) {
				m.violate5(fmt.Sprintf("failed %s changed NeoFSID keys", op.Kind))
			}
		}
		if op.DT == 0 {
			for i := range o.records {
				if o.records[i].ok != m.prev.records[i].ok || !cnrSameBytesList(o.records[i].recs, m.prev.records[i].recs) {
					m.violate5(fmt.Sprintf("failed %s changed NNS records", op.Kind))
				}
			}
		}
	}
	if isPut && o.halt && m.prev != nil {
		// covered above
	}
	if !isPut && !(op.Kind == "mint" || op.Kind == "transfer") && m.prev != nil {
		for i := range o.bals {
			if o.bals[i].Cmp(m.prev.bals[i]) != 0 {
				m.violate5(fmt.Sprintf("%s moved NEOFS balance of account #%d", op.Kind, i))
			}
		}
	}
	m.prev = o
}

// recCids: every container id the monitor has seen (live or deleted).
func (o *cnrObs) recCids(m *cnrMon) [][]byte {
	var out [][]byte
	for k := range m.live {
		out = append(out, []byte(k))
	}
	for k := range m.dead {
		out = append(out, []byte(k))
	}
	return out
}

// ---------------------------------------------------------------------------
// Generators

type cnrGen struct {
	r       *rand.Rand
	c       *cnrEnv
	m       *cnrMon
	prop    string
	pending *cnrOp
	extra   [][]byte // blobs outside the pool that were put (minimal-length variants)
}

var (
	cnrSigA = bytes.Repeat([]byte{0x51}, 64)
	cnrSigB = bytes.Repeat([]byte{0x52}, 64)
	cnrTok  = []byte{1, 2, 3, 4, 5}
)

func (g *cnrGen) alphaSigners() []int {
	r := g.r
	switch x := r.Intn(100); {
	case x < 6:
		return []int{r.Intn(len(g.c.owners))} // owner only: Alphabet witness missing
	case x < 9:
		return []int{}
	case x < 12:
		return []int{-2} // committee majority only (differs from the Alphabet account when n = 7)
	case x < 40:
		return []int{-1, -2}
	case x < 50:
		return []int{-1, r.Intn(len(g.c.owners))}
	default:
		return []int{-1}
	}
}

func (g *cnrGen) fee(named bool) *big.Int {
	f := g.m.cfg["ContainerFee"]
	if f == nil {
		return nil
	}
	f = new(big.Int).Set(f)
	if named {
		a := g.m.cfg["ContainerAliasFee"]
		if a == nil {
			return nil
		}
		f.Add(f, a)
	}
	return f
}

func (g *cnrGen) bal(ownerIdx int) *big.Int {
	if g.m.prev == nil {
		return new(big.Int)
	}
	return g.m.prev.bals[ownerIdx]
}

func (g *cnrGen) ownerIdxOf(blob []byte) int {
	ow, ok := cnrOwnerOf(blob)
	if !ok {
		return -1
	}
	for i, id := range g.c.ownerIDs {
		if bytes.Equal(id, ow) {
			return i
		}
	}
	return -1
}

func (g *cnrGen) pickBlob() []byte {
	r, c := g.r, g.c
	var fresh, live, dead [][]byte
	for i, b := range c.blobs {
		switch {
		case g.m.live[string(c.cids[i])] != nil:
			live = append(live, b)
		case g.m.dead[string(c.cids[i])]:
			dead = append(dead, b)
		default:
			fresh = append(fresh, b)
		}
	}
	pick := func(l [][]byte) []byte {
		if len(l) == 0 {
			return c.blobs[r.Intn(len(c.blobs))]
		}
		return l[r.Intn(len(l))]
	}
	if r.Intn(100) < 22 {
		// a blob whose length crosses an encoding boundary (whatever its status)
		return c.blobs[c.firstSized+r.Intn(len(c.blobs)-c.firstSized)]
	}
	switch x := r.Intn(100); {
	case x < 42:
		return pick(fresh)
	case x < 68:
		return pick(live)
	case x < 86:
		return pick(dead)
	case x < 90:
		// minimal valid blob: exactly up to the end of the owner field
		b := c.blobs[r.Intn(len(c.blobs))]
		return b[:2+int(b[1])+4+25]
	default:
		b := c.blobs[r.Intn(len(c.blobs))]
		switch r.Intn(5) {
		case 0:
			return []byte{}
		case 1:
			return []byte{0x0a}
		case 2:
			return b[:2+int(b[1])+4+24] // one byte short of the owner field
		case 3:
			bb := append([]byte{}, b...)
			bb[1] = 200 // owner offset beyond the end
			return bb
		default:
			return b[:2]
		}
	}
}

func (g *cnrGen) pickName() (string, string) {
	r := g.r
	name := []string{"aaa", "bbb", "c-1"}[r.Intn(3)]
	if r.Intn(10) == 0 {
		// malformed names; labels of 63 (the longest valid) and 64 bytes
		name = []string{"a.b", "UP", "x", "-ab", strings.Repeat("q", 64), "aaa.bbb", strings.Repeat("w", 63), "l" + strings.Repeat("0", 61) + "9"}[r.Intn(8)]
	}
	var zone string
	switch x := r.Intn(100); {
	case x < 50:
		zone = ""
	case x < 85:
		zone = "cdn"
	case x < 95:
		zone = "container"
	default:
		zone = []string{"nope", "neofs", "Cdn"}[r.Intn(3)]
	}
	return name, zone
}

func (g *cnrGen) pub() []byte {
	if g.r.Intn(25) == 0 {
		return g.c.pubs[0][:32]
	}
	return g.c.pubs[g.r.Intn(2)]
}

func (g *cnrGen) tok() []byte {
	switch x := g.r.Intn(12); {
	case x < 4:
		return nil
	case x == 4:
		return cnrPad(cnrTok, []int{252, 253, 256, 1000}[g.r.Intn(4)]) // long session tokens
	}
	return cnrTok
}

func (g *cnrGen) sig() []byte {
	switch x := g.r.Intn(12); {
	case x < 5:
		return cnrSigA
	case x == 5:
		return cnrPad(cnrSigB, []int{252, 253, 300}[g.r.Intn(3)]) // over-long signatures are stored as they come
	case x == 6:
		return []byte{}
	}
	return cnrSigB
}

// fit keeps the invocation script of an operation on the pool's biggest blob
// within the transaction script limit.
func (g *cnrGen) fit(op cnrOp) cnrOp {
	if len(op.Blob) >= g.c.maxBlob-100 && op.Kind != "setEACL" {
		if len(op.Sig) > 64 {
			op.Sig = cnrSigA
		}
		if len(op.Tok) > 5 {
			op.Tok = cnrTok
		}
		if len(op.Name) > 8 {
			op.Name = "aaa"
		}
	}
	return op
}

func (g *cnrGen) genPut() cnrOp {
	r := g.r
	blob := g.pickBlob()
	op := cnrOp{Kind: "put", Blob: blob, Sig: g.sig(), Pub: g.pub(), Tok: g.tok(), Signers: g.alphaSigners()}
	resub := false
	if re := g.resubmitPut(); re != nil && r.Intn(100) < 15 {
		op, blob, resub = *re, re.Blob, true
	}
	wNamed, wMeta := 35, 18
	if g.prop == "C05" {
		wNamed, wMeta = 45, 8
	}
	switch x := r.Intn(100); {
	case resub:
	case x < wNamed:
		op.Kind = "putNamed"
		op.Name, op.Zone = g.pickName()
		if r.Intn(15) == 0 {
			op.Name = ""
		}
	case x < wNamed+wMeta:
		op.Kind = "putMeta"
		op.Meta = r.Intn(4) != 0
	}
	// funding around the threshold fee*N
	oi := g.ownerIdxOf(blob)
	fee := g.fee(op.Kind == "putNamed" && op.Name != "")
	if oi >= 0 && fee != nil && fee.Sign() > 0 && r.Intn(100) < 70 {
		need := new(big.Int).Mul(fee, big.NewInt(int64(len(g.c.alphaAccts))))
		diff := new(big.Int).Sub(need, g.bal(oi))
		d := []int64{-1, 0, 0, 0, 1, 5}[r.Intn(6)]
		diff.Add(diff, big.NewInt(d))
		if diff.Sign() > 0 && diff.BitLen() < 200 {
			op = g.fit(op)
			g.pending = &op
			return cnrOp{Kind: "mint", To: g.c.ownerSH[oi], Amount: diff, Data: []byte{byte(r.Intn(200))}, Signers: []int{-1}}
		}
		if diff.Sign() < 0 && diff.BitLen() < 200 && r.Intn(3) == 0 {
			// move the surplus away so that the balance sits at the threshold
			op = g.fit(op)
			g.pending = &op
			return cnrOp{Kind: "transfer", From: g.c.ownerSH[oi], To: g.c.ownerSH[(oi+1)%cnrNOwners], Amount: diff.Neg(diff), Signers: []int{oi}}
		}
	}
	return g.fit(op)
}

// envelope returns a signature / public key / token triple that differs from
// the given one in at least one component.
func (g *cnrGen) envelope(sig, pub, tok []byte) ([]byte, []byte, []byte) {
	for {
		s, p, t := g.sig(), g.c.pubs[g.r.Intn(2)], g.tok()
		if len(t) > 5 || len(s) > 64 {
			continue
		}
		if !bytes.Equal(s, sig) || !bytes.Equal(p, pub) || !bytes.Equal(t, tok) {
			return s, p, t
		}
	}
}

// resubmitEACL: the byte-identical table a live container already has, under a
// different signature / key / token (or, one time in four, the very same call).
func (g *cnrGen) resubmitEACL() *cnrOp {
	var ks []string
	for k, inf := range g.m.live {
		if inf.eacl != nil {
			ks = append(ks, k)
		}
	}
	if len(ks) == 0 {
		return nil
	}
	sort.Strings(ks)
	e := g.m.live[ks[g.r.Intn(len(ks))]].eacl
	op := cnrOp{Kind: "setEACL", Blob: e[0], Sig: e[1], Pub: e[2], Tok: e[3], Signers: []int{-1}}
	if g.r.Intn(4) != 0 {
		op.Sig, op.Pub, op.Tok = g.envelope(e[1], e[2], e[3])
	}
	return &op
}

// resubmitPut: the blob of a live container again, with a different signature /
// key / token and any of put, putMeta, putNamed.
func (g *cnrGen) resubmitPut() *cnrOp {
	var ks []string
	for k := range g.m.live {
		ks = append(ks, k)
	}
	if len(ks) == 0 {
		return nil
	}
	sort.Strings(ks)
	inf := g.m.live[ks[g.r.Intn(len(ks))]]
	op := cnrOp{Kind: "put", Blob: inf.blob, Signers: []int{-1}}
	op.Sig, op.Pub, op.Tok = g.envelope(inf.sig, inf.pub, inf.tok)
	switch g.r.Intn(4) {
	case 0:
		op.Kind, op.Meta = "putMeta", g.r.Intn(2) == 0
	case 1:
		op.Kind = "putNamed"
		op.Name, op.Zone = g.pickName()
	}
	return &op
}

// cnrRoleKeys: keys that are not committee members.
func cnrRoleKeys() [][]byte {
	var out [][]byte
	for i := 0; i < 3; i++ {
		out = append(out, cnrKey("role", i).PublicKey().Bytes())
	}
	return out
}

// committeeKeys: public keys of the committee (= the Alphabet), in committee order.
func (c *cnrEnv) committeeKeys() [][]byte {
	var out [][]byte
	for _, k := range c.keys {
		out = append(out, k.PublicKey().Bytes())
	}
	return out
}

// designation builds a RoleManagement.designateAsRole call whose list differs
// from the committee: a superset, a disjoint set, a proper subset / single
// member, or the committee itself in reverse order.  The Alphabet of the
// contracts is the committee whatever is designated.
func (c *cnrEnv) designation(role noderoles.Role, variant int) cnrOp {
	ck, rk := c.committeeKeys(), cnrRoleKeys()
	var ks [][]byte
	switch variant % 5 {
	case 0: // committee + two strangers
		ks = append(append(ks, ck...), rk[0], rk[1])
	case 1: // disjoint
		ks = append(ks, rk[0], rk[1], rk[2])
	case 2: // one committee member + one stranger
		ks = append(ks, ck[len(ck)-1], rk[2])
	case 3: // the committee, reversed
		for i := len(ck) - 1; i >= 0; i-- {
			ks = append(ks, ck[i])
		}
	default: // a single stranger
		ks = append(ks, rk[1])
	}
	return cnrOp{Kind: "designate", Role: int(role), Keys: ks, Signers: []int{-2}}
}

var cnrRoles = []noderoles.Role{noderoles.NeoFSAlphabet, noderoles.NeoFSAlphabet, noderoles.NeoFSAlphabet,
	noderoles.P2PNotary, noderoles.Oracle, noderoles.StateValidator}

func (g *cnrGen) pickCid() []byte {
	r, c := g.r, g.c
	var live, dead, fresh [][]byte
	for k := range g.m.live {
		live = append(live, []byte(k))
	}
	sort.Slice(live, func(i, j int) bool { return bytes.Compare(live[i], live[j]) < 0 })
	for i := range c.blobs {
		switch {
		case g.m.dead[string(c.cids[i])]:
			dead = append(dead, c.cids[i])
		case g.m.live[string(c.cids[i])] == nil:
			fresh = append(fresh, c.cids[i])
		}
	}
	pick := func(l [][]byte) []byte {
		if len(l) == 0 {
			return c.cids[r.Intn(len(c.cids))]
		}
		return l[r.Intn(len(l))]
	}
	switch x := r.Intn(100); {
	case x < 62:
		return pick(live)
	case x < 74:
		return pick(dead)
	case x < 84:
		return pick(fresh)
	default:
		pc := c.probeCids()
		return pc[len(c.cids)+r.Intn(len(pc)-len(c.cids))]
	}
}

func (g *cnrGen) next(step int) cnrOp {
	r, c := g.r, g.c
	if g.pending != nil {
		op := *g.pending
		g.pending = nil
		return g.scoped(op)
	}
	if step == 0 && r.Intn(10) != 0 {
		return cnrOp{Kind: "setConfig", Key: "ContainerFee", Amount: cnrFees[r.Intn(4)], Signers: []int{-1}}
	}
	if step == 1 && r.Intn(6) != 0 {
		return cnrOp{Kind: "setConfig", Key: "ContainerAliasFee", Amount: cnrFees[r.Intn(4)], Signers: []int{-1}}
	}
	if step == 3 && r.Intn(100) < 30 {
		// an alias domain registered in advance by the committee (no TXT record)
		return cnrOp{Kind: "nnsRegister", Name: string(c.domains[r.Intn(len(c.domains))]), To: c.committee.ScriptHash().BytesBE(), Expire: 3600 * 24 * 365, Signers: []int{-2}}
	}
	if step == 2 && r.Intn(100) < 35 {
		return c.designation(noderoles.NeoFSAlphabet, r.Intn(5)) // roles designated before the first put
	}
	if step > 2 && r.Intn(100) < 4 {
		op := c.designation(cnrRoles[r.Intn(len(cnrRoles))], r.Intn(5))
		if r.Intn(6) == 0 {
			op.Signers = []int{r.Intn(cnrNOwners)} // not the committee: refused
		}
		return op
	}
	w := []int{40, 17, 14, 8, 4, 9, 8} // put delete setEACL mint transfer setConfig nns
	if g.prop == "C05" {
		w = []int{52, 8, 4, 12, 6, 14, 4}
	}
	x := r.Intn(100)
	k := 0
	for ; k < len(w)-1 && x >= w[k]; k++ {
		x -= w[k]
	}
	var op cnrOp
	switch k {
	case 0:
		op = g.genPut()
	case 1:
		op = cnrOp{Kind: "delete", Cid: g.pickCid(), Sig: g.sig(), Tok: g.tok(), Signers: g.alphaSigners()}
	case 2:
		if re := g.resubmitEACL(); re != nil && r.Intn(100) < 40 {
			op = *re
			break
		}
		cid := g.pickCid()
		e := cnrEACL([]int{0, 3}[r.Intn(2)], cid, byte(r.Intn(3)))
		if len(cid) != 32 || r.Intn(10) == 0 {
			switch r.Intn(3) {
			case 0:
				e = e[:1]
			case 1:
				e = cnrCut(e, 2+int(e[1])+4+31)
			default:
				e = cnrCut(e, 2+int(e[1])+4+32) // minimal valid
			}
		}
		if len(cid) == 32 && r.Intn(4) == 0 {
			szs := []int{252, 253, 256, 300, 4096}
			if Tier() == "thorough" {
				szs = append(szs, 65000)
			}
			e = cnrPad(e, szs[r.Intn(len(szs))]) // eACL tables across the length-prefix boundaries
		}
		op = cnrOp{Kind: "setEACL", Blob: e, Sig: g.sig(), Pub: g.pub(), Tok: g.tok(), Signers: g.alphaSigners()}
		if len(e) > 60000 {
			op.Sig, op.Tok = cnrSigA, cnrTok
		}
	case 3:
		am := []*big.Int{big.NewInt(1), big.NewInt(6), big.NewInt(50), big.NewInt(1_000_000_000), big.NewInt(7_000_000_007)}[r.Intn(5)]
		op = cnrOp{Kind: "mint", To: c.ownerSH[r.Intn(len(c.owners))], Amount: am, Data: []byte{byte(step)}, Signers: g.alphaSigners()}
	case 4:
		oi := r.Intn(len(c.owners))
		am := new(big.Int).Set(g.bal(oi))
		switch r.Intn(4) {
		case 0:
			am = big.NewInt(1)
		case 1:
			am.Add(am, big.NewInt(1))
		case 2:
			if am.Sign() > 0 {
				am.Rand(r, am)
			}
		}
		to := c.ownerSH[(oi+1+r.Intn(2))%cnrNOwners]
		if r.Intn(4) == 0 {
			to = c.alphaAccts[r.Intn(len(c.alphaAccts))]
		}
		sg := []int{oi}
		if r.Intn(8) == 0 {
			sg = []int{(oi + 1) % cnrNOwners}
		}
		op = cnrOp{Kind: "transfer", From: c.ownerSH[oi], To: to, Amount: am, Signers: sg}
	case 5:
		key := []string{"ContainerFee", "ContainerAliasFee"}[r.Intn(2)]
		v := cnrFees[r.Intn(4)]
		switch r.Intn(14) {
		case 0:
			v = big.NewInt(-1)
		case 1:
			v = new(big.Int).Lsh(big.NewInt(1), 254) // fee*N or fee+aliasFee overflows the VM integer
		case 2:
			key = "SomethingElse"
		}
		op = cnrOp{Kind: "setConfig", Key: key, Amount: v, Signers: g.alphaSigners()}
	default:
		d := string(c.domains[r.Intn(len(c.domains))])
		switch r.Intn(3) {
		case 0:
			exp := []int64{0, 1, 3600 * 24 * 365}[r.Intn(3)]
			op = cnrOp{Kind: "nnsRegister", Name: d, To: c.committee.ScriptHash().BytesBE(), Expire: exp, Signers: []int{-2}}
		case 1:
			op = cnrOp{Kind: "nnsAddTxt", Name: d, Data: []byte("foreign-" + fmt.Sprint(r.Intn(2))), Signers: []int{-2}}
		default:
			op = cnrOp{Kind: "nnsDelTxt", Name: d, Signers: []int{-2}}
		}
	}
	if r.Intn(40) == 0 {
		op.DT = []uint64{1500, 3000, 11 * 365 * 24 * 3600 * 1000}[r.Intn(3)]
	}
	return g.scoped(op)
}

// scoped: now and then the signers' witnesses do not reach the contracts that
// Container calls (CalledByEntry) or witness nothing at all (None).
func (g *cnrGen) scoped(op cnrOp) cnrOp {
	switch op.Kind {
	case "delete":
		switch x := g.r.Intn(100); {
		case x < 18:
			op.Scope = 1
		case x < 22:
			op.Scope = 2
		}
	case "put", "putNamed", "putMeta", "setEACL":
		switch x := g.r.Intn(100); {
		case x < 6:
			op.Scope = 1
		case x < 9:
			op.Scope = 2
		}
	}
	return op
}

func cnrCut(b []byte, n int) []byte {
	if n > len(b) {
		return b
	}
	return b[:n]
}

var cnrFees = []*big.Int{big.NewInt(0), big.NewInt(1), big.NewInt(7), big.NewInt(1_000_000_000)}

// ---------------------------------------------------------------------------
// Corpus: hand-written boundary histories, always run first.

func cnrCorpus(c *cnrEnv) [][]cnrOp {
	n := func(i int64) *big.Int { return big.NewInt(i) }
	al := []int{-1}
	both := []int{-1, -2}
	N := int64(len(c.alphaAccts))
	B, P := c.blobs, c.pubs
	put := func(i int, tok []byte) cnrOp {
		return cnrOp{Kind: "put", Blob: B[i], Sig: cnrSigA, Pub: P[0], Tok: tok, Signers: al}
	}
	named := func(i int, name, zone string, sg []int) cnrOp {
		return cnrOp{Kind: "putNamed", Blob: B[i], Sig: cnrSigA, Pub: P[0], Tok: cnrTok, Name: name, Zone: zone, Signers: sg}
	}
	del := func(i int) cnrOp { return cnrOp{Kind: "delete", Cid: c.cids[i], Sig: cnrSigB, Tok: cnrTok, Signers: al} }
	fee := func(k string, v int64) cnrOp { return cnrOp{Kind: "setConfig", Key: k, Amount: n(v), Signers: al} }
	mint := func(o int, v int64) cnrOp {
		return cnrOp{Kind: "mint", To: c.ownerSH[o], Amount: n(v), Data: []byte{9}, Signers: al}
	}
	comm := c.committee.ScriptHash().BytesBE()
	// the owner is an Alphabet node's standard account: one of the N per-node
	// transfers is owner -> owner (exact charge: -fee*N + fee)
	A := c.alphaOwners[0]
	bA := 6 // first container blob of an Alphabet-node owner
	setBal := func(cur, target int64) []cnrOp {
		switch {
		case target > cur:
			return []cnrOp{mint(A, target-cur)}
		case target < cur:
			return []cnrOp{{Kind: "transfer", From: c.ownerSH[A], To: c.ownerSH[0], Amount: n(cur - target), Signers: []int{A}}}
		}
		return nil
	}
	selfPay := []cnrOp{fee("ContainerFee", 7), fee("ContainerAliasFee", 1),
		mint(A, 7*N), // balance = fee*N exactly
		put(bA, cnrTok)} // accepted; the owner's own share comes back: ends with 7
	selfPay = append(selfPay, setBal(7, 7*N+1)...) // balance = fee*N + 1
	selfPay = append(selfPay, put(bA, cnrTok))      // ends with 1 + 7
	selfPay = append(selfPay, setBal(8, 7*N-1)...) // balance = fee*N - 1
	selfPay = append(selfPay, put(bA, cnrTok))      // refused
	// a domain pre-registered by the committee (no TXT record) still costs
	// ContainerFee + ContainerAliasFee
	selfPay = append(selfPay, cnrOp{Kind: "nnsRegister", Name: "aaa.cdn", To: comm, Expire: 3600 * 24 * 365, Signers: []int{-2}})
	selfPay = append(selfPay, setBal(7*N-1, 8*N)...)
	selfPay = append(selfPay, named(bA, "aaa", "cdn", both)) // ends with 8
	selfPay = append(selfPay, mint(1, 8*N), cnrOp{Kind: "nnsRegister", Name: "bbb.cdn", To: comm, Expire: 3600 * 24 * 365, Signers: []int{-2}},
		named(1, "bbb", "cdn", both), // ordinary owner, pre-registered domain: (7+1)*N
		fee("ContainerFee", 1_000_000_000))
	selfPay = append(selfPay, setBal(8, 1_000_000_000*N)...)
	selfPay = append(selfPay, cnrOp{Kind: "putMeta", Blob: B[bA], Sig: cnrSigB, Pub: P[1], Tok: nil, Meta: true, Signers: al})
	if len(c.alphaOwners) > 1 { // the last Alphabet node as owner
		L := c.alphaOwners[1]
		selfPay = append(selfPay, mint(L, 1_000_000_000*N), put(bA+1, cnrTok), put(bA+1, cnrTok))
	}
	// blob / eACL / token / signature lengths across every encoding boundary on
	// the path, each put, read back, given an eACL and deleted again
	var sizes []cnrOp
	sizes = append(sizes, fee("ContainerFee", 0), fee("ContainerAliasFee", 0))
	var sized [][]byte
	for _, L := range append(append([]int{}, cnrSizes...), c.maxBlob-100, c.maxBlob) {
		sized = append(sized, c.sizedBlob(L))
	}
	cidOf := func(b []byte) []byte { h := sha256.Sum256(b); return h[:] }
	putB := func(b []byte) cnrOp {
		return cnrOp{Kind: "put", Blob: b, Sig: cnrSigA, Pub: P[0], Tok: cnrTok, Signers: al}
	}
	for _, b := range sized {
		sizes = append(sizes, putB(b))
	}
	sizes = append(sizes,
		cnrOp{Kind: "setEACL", Blob: cnrPad(cnrEACL(0, cidOf(sized[1]), 1), 252), Sig: cnrSigA, Pub: P[1], Tok: cnrTok, Signers: al},
		cnrOp{Kind: "setEACL", Blob: cnrPad(cnrEACL(3, cidOf(sized[1]), 1), 253), Sig: cnrPad(cnrSigB, 253), Pub: P[1], Tok: cnrPad(cnrTok, 253), Signers: al},
		cnrOp{Kind: "setEACL", Blob: cnrPad(cnrEACL(0, cidOf(sized[5]), 2), 65000), Sig: cnrSigA, Pub: P[1], Tok: cnrTok, Signers: al},
		cnrOp{Kind: "put", Blob: sized[2], Sig: cnrPad(cnrSigA, 300), Pub: P[0], Tok: cnrPad(cnrTok, 1000), Signers: al}, // re-put with long sig/token
		cnrOp{Kind: "putNamed", Blob: sized[1], Sig: cnrSigA, Pub: P[0], Tok: cnrTok, Name: strings.Repeat("w", 63), Signers: al}, // a 253-byte blob under a 63-byte label
		cnrOp{Kind: "putNamed", Blob: sized[6], Sig: cnrSigA, Pub: P[0], Tok: cnrTok, Name: strings.Repeat("q", 64), Signers: al}) // 64-byte label: refused by NNS
	for _, b := range sized {
		sizes = append(sizes, cnrOp{Kind: "delete", Cid: cidOf(b), Sig: cnrSigB, Tok: cnrTok, Signers: al})
	}
	sizes = append(sizes, putB(sized[1])) // replay of a deleted 253-byte container
	// the same payload again under a different envelope: every field the getters
	// return follows the last successful call, every successful call is announced
	T := cnrEACL(3, c.cids[0], 1)
	eaclOp := func(sig, pub, tok []byte) cnrOp {
		return cnrOp{Kind: "setEACL", Blob: T, Sig: sig, Pub: pub, Tok: tok, Signers: al}
	}
	putE := func(kind string, sig, pub, tok []byte, name string, meta bool) cnrOp {
		return cnrOp{Kind: kind, Blob: B[0], Sig: sig, Pub: pub, Tok: tok, Name: name, Meta: meta, Signers: al}
	}
	envelope := []cnrOp{fee("ContainerFee", 0), fee("ContainerAliasFee", 0),
		putE("put", cnrSigA, P[0], cnrTok, "", false),
		eaclOp(cnrSigA, P[1], cnrTok),
		eaclOp(cnrSigB, P[0], nil),     // identical table, new signature, key and token
		eaclOp(cnrSigB, P[0], nil),     // the very same call once more: announced again
		eaclOp(cnrSigB, P[1], nil),     // only the key differs
		eaclOp(cnrSigB, P[1], cnrTok),  // only the token differs
		eaclOp(cnrSigA, P[1], cnrTok),  // only the signature differs
		putE("put", cnrSigB, P[1], nil, "", false), // identical blob, new envelope
		putE("put", cnrSigB, P[1], nil, "", false), // the very same call
		putE("putMeta", cnrSigA, P[1], nil, "", true),
		putE("putMeta", cnrSigA, P[0], cnrTok, "", false), // the meta flag is sticky
		putE("putNamed", cnrSigB, P[0], cnrTok, "aaa", false),
		putE("put", cnrSigA, P[1], nil, "", false), // the alias stays
		eaclOp(cnrSigA, P[0], cnrTok),              // the eACL survived the re-puts; replaced now
		del(0), del(0), // the second delete is a no-op without notification
		eaclOp(cnrSigA, P[0], cnrTok), // deleted: not found
		putE("put", cnrSigB, P[1], nil, "", false)} // replay under another envelope: refused
	// native roles designated with lists that differ from the committee: the
	// Alphabet that is paid (and whose size the balance check uses) stays the committee
	roles := []cnrOp{fee("ContainerFee", 7), fee("ContainerAliasFee", 1),
		mint(0, 7*N), mint(1, 1000), mint(2, 7*N+8*N),
		c.designation(noderoles.NeoFSAlphabet, 0), // committee + two strangers
		put(0, cnrTok),                            // balance = fee*N exactly: accepted, N transfers
		c.designation(noderoles.NeoFSAlphabet, 1), // disjoint from the committee
		put(1, cnrTok),
		c.designation(noderoles.P2PNotary, 0), c.designation(noderoles.Oracle, 1), c.designation(noderoles.StateValidator, 4),
		put(2, cnrTok),                            // owner 2: 15*N -> 8*N
		c.designation(noderoles.NeoFSAlphabet, 2), // one member + one stranger
		named(2, "aaa", "", al),                   // (7+1)*N exactly
		c.designation(noderoles.NeoFSAlphabet, 3), // the committee reversed
		put(3, cnrTok),
		{Kind: "designate", Role: int(noderoles.NeoFSAlphabet), Keys: cnrRoleKeys(), Signers: []int{0}}, // not the committee: refused
		c.designation(noderoles.NeoFSAlphabet, 4), // a single stranger
		put(2, cnrTok),                            // owner 2 holds 0: refused
		del(0)}
	// witness scopes: the Alphabet's / committee's witness reaches Container but
	// not the contracts it calls (CalledByEntry), or witnesses nothing (None);
	// contract-registered aliases and committee-pre-registered domains.  A delete
	// removes everything incl. the NNS record and announces it, or faults and
	// changes nothing.
	sc := func(op cnrOp, scope int) cnrOp { op.Scope = scope; return op }
	only := func(op cnrOp, sg []int) cnrOp { op.Signers = sg; return op }
	scopes := []cnrOp{fee("ContainerFee", 0), fee("ContainerAliasFee", 0),
		{Kind: "nnsRegister", Name: "aaa.cdn", To: comm, Expire: 3600 * 24 * 365, Signers: []int{-2}},
		named(0, "aaa", "cdn", both),          // committee-owned domain, no registration by the contract
		named(1, "bbb", "", both),             // the contract registers bbb.container itself
		sc(only(del(0), both), 1),             // NNS does not see the committee: refused by NNS, nothing changes
		sc(only(del(0), both), 2),             // no witness at all
		only(del(0), al),                      // Alphabet only: refused where it is not the committee majority
		sc(cnrOp{Kind: "setEACL", Blob: cnrEACL(0, c.cids[0], 1), Sig: cnrSigA, Pub: P[1], Tok: cnrTok, Signers: al}, 1), // Container's own check suffices
		sc(put(2, cnrTok), 1),                 // balance.transferX does not see the Alphabet
		sc(put(2, nil), 2),
		sc(named(2, "c-1", "", both), 1),
		sc(only(del(1), al), 1),               // the alias domain belongs to the contract: accepted, record removed
		named(2, "bbb", "", al),               // the name is reusable
		only(del(0), both),                    // accepted with the committee's witness; record removed
		named(3, "aaa", "cdn", both),          // the pre-registered name is reusable
		sc(only(del(3), both), 1), sc(only(del(2), both), 2),
		only(del(3), both), del(2)}
	return [][]cnrOp{
		selfPay,
		sizes,
		envelope,
		roles,
		scopes,
		{ // F13: a second alias for a live container; delete removes only the last one
			fee("ContainerFee", 7), fee("ContainerAliasFee", 1), mint(0, 1000), mint(1, 1000),
			put(0, cnrTok),
			{Kind: "setEACL", Blob: cnrEACL(3, c.cids[0], 1), Sig: cnrSigA, Pub: P[1], Tok: cnrTok, Signers: al},
			named(0, "aaa", "", al),
			named(0, "aaa", "", al), // same name again: "name is already taken"
			named(0, "bbb", "", al), // second name: accepted, marker overwritten
			del(0),
			named(1, "aaa", "", al), // the first name stays taken for ever
			named(1, "bbb", "", al), // the last one is reusable
			put(0, cnrTok),          // replay of a deleted container
			del(0),                  // delete of a missing container: no-op
			del(1),
			named(3, "bbb", "container", al),
		},
		{ // fee thresholds fee*N-1, fee*N, fee*N+1; fee changes between puts; zero, negative, missing fee
			put(0, cnrTok), // no fee configured
			fee("ContainerFee", 1_000_000_000),
			mint(0, 1_000_000_000*N-1),
			put(0, cnrTok),
			mint(0, 1),
			put(0, cnrTok),
			mint(0, 1_000_000_000*N+1),
			put(4, nil),
			named(5, "aaa", "cdn", al), // alias fee not configured
			fee("ContainerAliasFee", 7),
			named(5, "aaa", "cdn", al), // 1 left < (10^9+7)*N
			fee("ContainerFee", 0),
			fee("ContainerAliasFee", 0),
			named(5, "aaa", "cdn", al), // free
			fee("ContainerFee", -1),
			put(0, cnrTok), // negative fee: transferX refuses
			fee("ContainerFee", 1),
			{Kind: "put", Blob: B[0], Sig: cnrSigA, Pub: P[0], Tok: cnrTok, Signers: []int{0}}, // owner only
			{Kind: "putMeta", Blob: B[0], Sig: cnrSigA, Pub: P[0], Tok: cnrTok, Meta: true, Signers: al},
			{Kind: "putMeta", Blob: B[4], Sig: cnrSigA, Pub: P[0], Tok: cnrTok, Meta: false, Signers: al},
		},
		{ // malformed inputs
			fee("ContainerFee", 0), fee("ContainerAliasFee", 0),
			{Kind: "put", Blob: []byte{}, Sig: cnrSigA, Pub: P[0], Tok: cnrTok, Signers: al},
			{Kind: "put", Blob: []byte{0x0a}, Sig: cnrSigA, Pub: P[0], Tok: cnrTok, Signers: al},
			{Kind: "put", Blob: B[2][:2+5+4+24], Sig: cnrSigA, Pub: P[0], Tok: cnrTok, Signers: al},
			{Kind: "put", Blob: B[2][:2+5+4+25], Sig: cnrSigA, Pub: P[0], Tok: cnrTok, Signers: al},
			{Kind: "put", Blob: B[1], Sig: cnrSigA, Pub: P[0][:32], Tok: cnrTok, Signers: al}, // PutSuccess type check
			{Kind: "put", Blob: B[1], Sig: cnrSigA, Pub: P[0][:32], Tok: nil, Signers: al},    // neofsid.addKey refuses
			{Kind: "put", Blob: B[1], Sig: []byte{}, Pub: P[0], Tok: nil, Signers: al},
			{Kind: "delete", Cid: c.cids[1][:31], Sig: cnrSigA, Tok: cnrTok, Signers: al},
			{Kind: "delete", Cid: append(append([]byte{}, c.cids[1]...), 0), Sig: cnrSigA, Tok: cnrTok, Signers: al},
			{Kind: "delete", Cid: []byte{}, Sig: cnrSigA, Tok: cnrTok, Signers: al},
			{Kind: "delete", Cid: c.cids[1], Sig: cnrSigA, Tok: cnrTok, Signers: []int{1}}, // Alphabet witness missing
			{Kind: "setEACL", Blob: []byte{1}, Sig: cnrSigA, Pub: P[0], Tok: cnrTok, Signers: al},
			{Kind: "setEACL", Blob: cnrEACL(0, c.cids[1], 0)[:2+4+31], Sig: cnrSigA, Pub: P[0], Tok: cnrTok, Signers: al},
			{Kind: "setEACL", Blob: cnrEACL(0, c.cids[1], 0)[:2+4+32], Sig: cnrSigA, Pub: P[0], Tok: cnrTok, Signers: al},
			{Kind: "setEACL", Blob: cnrEACL(0, c.cids[1], 0), Sig: cnrSigA, Pub: P[0][:32], Tok: cnrTok, Signers: al},
			{Kind: "setEACL", Blob: cnrEACL(0, c.cids[0], 0), Sig: cnrSigA, Pub: P[0], Tok: cnrTok, Signers: al}, // not live
			{Kind: "setEACL", Blob: cnrEACL(0, c.cids[1], 0), Sig: cnrSigA, Pub: P[0], Tok: cnrTok, Signers: []int{1}},
			named(0, "a.b", "", al), named(0, "UP", "", al), named(0, "aaa", "nope", al), named(0, "aaa", "neofs", al),
			named(0, "netmap", "neofs", both), named(0, "x", "", al), named(0, "", "cdn", al),
			del(1), del(1),
		},
		{ // NNS interplay: pre-registered, expired and foreign-record domains; expiry of an alias domain
			fee("ContainerFee", 1), fee("ContainerAliasFee", 1), mint(0, 100), mint(1, 100), mint(2, 100),
			{Kind: "nnsRegister", Name: "aaa.cdn", To: comm, Expire: 3600 * 24 * 365, Signers: []int{-2}},
			named(0, "aaa", "cdn", both), // committee-owned domain: accepted with the committee's witness
			{Kind: "nnsRegister", Name: "bbb.cdn", To: comm, Expire: 0, Signers: []int{-2}},
			named(1, "bbb", "cdn", al), // expired registration: the contract registers the name itself
			{Kind: "nnsRegister", Name: "c-1.cdn", To: c.ownerSH[0], Expire: 3600, Signers: []int{0}},
			named(2, "c-1", "cdn", al), // owned by a stranger
			{Kind: "nnsRegister", Name: "c-1.container", To: comm, Expire: 3600, Signers: []int{-2}},
			{Kind: "nnsAddTxt", Name: "c-1.container", Data: []byte("foreign"), Signers: []int{-2}},
			named(2, "c-1", "", both), // has a TXT record already
			{Kind: "nnsDelTxt", Name: "c-1.container", Signers: []int{-2}},
			named(2, "c-1", "", both),
			{Kind: "nnsRegister", Name: "bbb.container", To: comm, Expire: 2, Signers: []int{-2}},
			named(3, "bbb", "", both),
			{Kind: "delete", Cid: c.cids[3], Sig: cnrSigA, Tok: cnrTok, Signers: al, DT: 5000}, // alias domain expired: tolerated
			{Kind: "nnsRegister", Name: "bbb.container", To: comm, Expire: 3600, Signers: []int{-2}},
			del(0), del(1), del(2),
			{Kind: "put", Blob: B[4], Sig: cnrSigA, Pub: P[0], Tok: cnrTok, Signers: al, DT: 11 * 365 * 24 * 3600 * 1000},
		},
	}
}

// ---------------------------------------------------------------------------

func cnrOpString(op cnrOp) string {
	short := func(b []byte) string {
		if len(b) > 6 {
			return fmt.Sprintf("%x..(%d)", b[:4], len(b))
		}
		return Hex(b)
	}
	switch op.Kind {
	case "put", "putMeta", "putNamed":
		h := sha256.Sum256(op.Blob)
		return fmt.Sprintf("%s(blob=%s cid=%s pub=%d tok=%d name=%q zone=%q meta=%v signers=%v scope=%d dt=%d)", op.Kind, short(op.Blob), short(h[:]), len(op.Pub), len(op.Tok), op.Name, op.Zone, op.Meta, op.Signers, op.Scope, op.DT)
	case "delete":
		return fmt.Sprintf("delete(cid=%s signers=%v scope=%d dt=%d)", short(op.Cid), op.Signers, op.Scope, op.DT)
	case "setEACL":
		return fmt.Sprintf("setEACL(eacl=%s pub=%d signers=%v scope=%d)", short(op.Blob), len(op.Pub), op.Signers, op.Scope)
	case "mint":
		return fmt.Sprintf("mint(to=%s amount=%v signers=%v)", short(op.To), op.Amount, op.Signers)
	case "transfer":
		return fmt.Sprintf("transfer(from=%s to=%s amount=%v signers=%v)", short(op.From), short(op.To), op.Amount, op.Signers)
	case "setConfig":
		return fmt.Sprintf("setConfig(%s=%v signers=%v)", op.Key, op.Amount, op.Signers)
	case "designate":
		var ks []string
		for _, k := range op.Keys {
			ks = append(ks, Hex(k[:5]))
		}
		return fmt.Sprintf("designate(role=%d keys=%v signers=%v)", op.Role, ks, op.Signers)
	default:
		return fmt.Sprintf("%s(name=%s expire=%d data=%q signers=%v dt=%d)", op.Kind, op.Name, op.Expire, op.Data, op.Signers, op.DT)
	}
}

func runContainerFamily(t *testing.T, prop string) {
	st := NewStats(prop)
	if prop == "C04" {
		st.Rule = "histories = 9 corpus witnesses (+3 on a four-key and 1 on a seven-key committee in the quick tier) + seeded structured generation over 3 owners + the Alphabet nodes' own accounts as owners, 6+ short container blobs (version-field lengths 0,2,5) and blobs of 252, 253, 254, 255, 256, 300, 1024, 4096 bytes and the largest size a transaction carries, eACL tables / tokens / signatures / name labels at their length boundaries, 3 names x 2 zones, malformed blobs/ids/names, missing witnesses, witness scopes Global / CalledByEntry / None on contract-registered and committee-pre-registered aliases, native roles (NeoFSAlphabet, P2PNotary, Oracle, StateValidator) designated with lists that differ from the committee; " +
			"non-trivial = the history contains a successful put, a successful delete and a refused/faulting call; distinct = by the sequence of (operation kind, outcome) pairs"
	} else {
		st.Rule = "histories = 9 corpus witnesses (+3 on a four-key and 1 on a seven-key committee in the quick tier) + seeded structured generation (fees from {0,1,7,10^9,-1,2^254}, balances steered to fee*N-1, fee*N, fee*N+1, owners that are themselves fee recipients, named and unnamed puts, fee changes between puts, native roles designated with supersets / disjoint sets / subsets / permutations of the committee); " +
			"non-trivial = the history contains a successful paying put (fee*N > 0) and a put refused or faulting; distinct = by the sequence of (operation kind, outcome, fee*N) triples"
	}
	q := newCnrCoq()
	nh, maxOps := 50, 20
	sizes := []int{1}
	if Tier() == "thorough" {
		nh, maxOps = 420, 40
		sizes = []int{1, 4, 7}
	}
	distinct := map[string]bool{}
	var cases []string
	sizeHist := map[string]int{}
	nWf, nWfRich := 0, 0
	// the cases go to files of at most `per` histories, each with its own tables
	per, nfile := 110, 0
	ncorpus := len(cnrCorpus(newCnrEnv(t, 1)))
	extra := 0
	if Tier() != "thorough" {
		extra = 4 // three corpus histories on a four-key committee, one on a seven-key committee
	}
	total := ncorpus*len(sizes) + extra + nh
	flush := func(last bool) {
		if len(cases) == 0 || (!last && len(cases) < per) {
			return
		}
		nfile++
		name := fmt.Sprintf("cases_%s_%d.v", prop, nfile)
		if total <= per {
			name = "cases_" + prop + ".v"
		}
		require.NoError(t, writeCnrCases(filepath.Join(OutDir(), name), q, cases))
		cases = nil
		q = newCnrCoq()
	}
	run := func(hidx int, nc int, ops func(c *cnrEnv, step int, g *cnrGen) (cnrOp, bool)) {
		c := newCnrEnv(t, nc)
		mon := newCnrMon(c, st, prop)
		g := &cnrGen{r: Rng(int64(hidx)*7 + 3), c: c, m: mon, prop: prop}
		o0 := cnrObs{}
		c.observe(&o0)
		mon.prev = &o0
		var steps []string
		var sig strings.Builder
		paid := false
		for i := 0; ; i++ {
			op, ok := ops(c, i, g)
			if !ok {
				break
			}
			o := c.exec(op)
			mon.step(op, &o)
			if os.Getenv("VERIF_DEBUG") != "" && hidx < 0 {
				f := o.fault
				if k := strings.Index(f, "exception: "); k >= 0 {
					f = f[k+11:]
				}
				fmt.Printf("corpus %d/%d nc=%d %s -> halt=%v %s\n", -hidx-1, i, nc, cnrOpString(op), o.halt, f)
				if os.Getenv("VERIF_DEBUG") == "2" {
					for di, d := range c.domains {
						fmt.Printf("      records %s ok=%v %q\n", d, o.records[di].ok, o.records[di].recs)
					}
				}
			}
			if op.Kind != "designate" {
				// role designations are not invocations of the modelled contracts: they act
				// on the environment only (like the committee size) and must leave every
				// observable unchanged, which the monitor checks
				steps = append(steps, c.coqStep(q, op, o))
			}
			st.Evaluations++
			st.OpHistogram[op.Kind]++
			oc := "halt"
			if !o.halt {
				oc = "fault"
			} else if op.Kind == "delete" && len(o.events) == 0 {
				oc = "noop"
			} else if o.ret == VBool(false) {
				oc = "false"
			}
			st.OutcomeHistogram[op.Kind+"/"+oc]++
			tot := ""
			if prop == "C05" && o.halt && strings.HasPrefix(op.Kind, "put") {
				s := new(big.Int)
				for _, ev := range o.events {
					if ev.kind == 1 {
						s.Add(s, ev.amount)
					}
				}
				tot = s.String()
				if s.Sign() > 0 {
					paid = true
				}
			}
			fmt.Fprintf(&sig, "%s:%s:%s;", op.Kind, oc, tot)
		}
		st.Histories++
		sizeHist[fmt.Sprint(nc)]++
		nontrivial := mon.nPutOK > 0 && mon.nDelOK > 0 && strings.Contains(sig.String(), "fault")
		if prop == "C05" {
			nontrivial = paid && mon.nPutFail > 0
		}
		if nontrivial {
			distinct[sig.String()] = true
		}
		cases = append(cases, c.coqCase(q, steps, mon.wfAlias))
		if mon.wfAlias {
			nWf++
			if mon.nDelOK > 0 && mon.nNamedOK > 0 {
				nWfRich++
			}
		}
		flush(false)
		if len(st.Samples) < 3 && (hidx == -1 || hidx == 0 || hidx == 1) {
			var ss []string
			for i, op := range mon.hist {
				if i >= 12 {
					ss = append(ss, "...")
					break
				}
				ss = append(ss, cnrOpString(op))
			}
			st.Samples = append(st.Samples, ss)
		}
	}
	{
		corpusRun := func(ci, sz int) {
			run(-1-ci, sz, func(c *cnrEnv, step int, g *cnrGen) (cnrOp, bool) {
				h := cnrCorpus(c)[ci]
				if step >= len(h) {
					return cnrOp{}, false
				}
				return h[step], true
			})
		}
		for _, sz := range sizes {
			for ci := 0; ci < ncorpus; ci++ {
				corpusRun(ci, sz)
			}
		}
		if extra > 0 { // quick tier: owner = Alphabet node, designated roles and the F13 witness on a multi-key committee
			corpusRun(0, 4)
			corpusRun(3, 4)
			corpusRun(5, 4)
			corpusRun(4, 7) // seven keys: the Alphabet (5 of 7) and the committee majority (4 of 7) are different accounts
		}
	}
	for h := 0; h < nh; h++ {
		n := 8 + Rng(int64(h)).Intn(maxOps-7)
		run(h, sizes[h%len(sizes)], func(c *cnrEnv, step int, g *cnrGen) (cnrOp, bool) {
			if step >= n && g.pending == nil {
				return cnrOp{}, false
			}
			return g.next(step), true
		})
	}
	st.DistinctNontrivial = len(distinct)
	st.Extra["committee_sizes"] = sizeHist
	st.Extra["wf_alias"] = map[string]any{
		"histories_satisfying_premise": nWf,
		"of_which_with_successful_named_put_and_delete": nWfRich,
		"histories": st.Histories,
		"note": "premise of C04_delete_total_partial (at most one alias per id, alias domain live at delete, direct NNS TXT writes foreign), decided conservatively by the monitor and re-evaluated by wf_alias inside the cases file: a claimed history for which wf_alias computes false is a correspondence failure (M <> [])",
	}
	flush(true)
	st.Write()
}

func TestC04(t *testing.T) { runContainerFamily(t, "C04") }
func TestC05(t *testing.T) { runContainerFamily(t, "C05") }
