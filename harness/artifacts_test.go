package harness

// C15 — shipped executables, manifests and RPC bindings correspond to the
// sources.  The proof obligations are Props/C15.v over the regenerated
// coq/Gen tables; this test is the search engine for a concrete failing
// input: (a) it recomputes every comparison of Props/C15.v in Go
// (c15lib.Differences) and reports contract / file / byte offset / method of
// each difference, (b) it deploys the COMMITTED executables and manifests
// (the files embedded in package contracts when the tree under test is the
// one the binary was built from) and the FRESHLY COMPILED ones on two
// identical neotest chains, calls version() and every safe method without
// parameters on both and compares the results, and (c) writes the executed
// version() results into cases_C15.v where Coq compares them with the
// constants of Gen/Params.v.

import (
	"bytes"
	"crypto/sha256"
	"encoding/hex"
	"encoding/json"
	"fmt"
	"go/ast"
	"go/parser"
	"go/token"
	"os"
	"os/exec"
	"path/filepath"
	"sort"
	"strings"
	"testing"

	"github.com/nspcc-dev/neo-go/pkg/core/state"
	"github.com/nspcc-dev/neo-go/pkg/neotest"
	"github.com/nspcc-dev/neo-go/pkg/smartcontract/manifest"
	"github.com/nspcc-dev/neo-go/pkg/smartcontract/nef"
	"github.com/nspcc-dev/neo-go/pkg/util"
	"github.com/nspcc-dev/neo-go/pkg/vm"
	"github.com/nspcc-dev/neo-go/pkg/vm/stackitem"
	"github.com/nspcc-dev/neofs-contract/contracts"
	"github.com/stretchr/testify/require"

	"verif/harness/c15lib"
)

// c15Exe is one executable with its manifest, ready for deployment.
type c15Exe struct {
	nef *nef.File
	man *manifest.Manifest
	err string
}

func c15Decode(nefBytes, manBytes []byte) c15Exe {
	f, err := nef.FileFromBytes(nefBytes)
	if err != nil {
		return c15Exe{err: "NEF does not decode: " + err.Error()}
	}
	m := new(manifest.Manifest)
	if err := json.Unmarshal(manBytes, m); err != nil {
		return c15Exe{err: "manifest does not parse: " + err.Error()}
	}
	return c15Exe{nef: &f, man: m}
}

// c15Obs is the observable result of one invocation.
type c15Obs struct {
	Halt  bool   `json:"halt"`
	Stack string `json:"stack"`
}

func c15Item(it stackitem.Item) string {
	switch v := it.(type) {
	case stackitem.Null:
		return "null"
	case *stackitem.Array, *stackitem.Struct:
		var xs []string
		for _, x := range v.Value().([]stackitem.Item) {
			xs = append(xs, c15Item(x))
		}
		return "[" + strings.Join(xs, ",") + "]"
	case *stackitem.Map:
		var xs []string
		for _, e := range v.Value().([]stackitem.MapElement) {
			xs = append(xs, c15Item(e.Key)+":"+c15Item(e.Value))
		}
		return "{" + strings.Join(xs, ",") + "}"
	case *stackitem.Interop:
		return "interop"
	}
	switch it.Type() {
	case stackitem.IntegerT, stackitem.BooleanT:
		bi, err := it.TryInteger()
		if err == nil {
			return it.Type().String() + ":" + bi.String()
		}
	}
	b, err := it.TryBytes()
	if err != nil {
		return it.Type().String() + ":?"
	}
	return it.Type().String() + ":" + hex.EncodeToString(b)
}

// c15Side is one chain with one family of executables deployed.
type c15Side struct {
	which    string
	env      *Env
	hashes   map[string]util.Uint160
	deployed map[string]string // "" = HALT, otherwise why not
	results  map[string]c15Obs // "<contract>.<method>" -> observation
	nInvoke  int
}

// deploy sends the deployment transaction and reports a FAULT instead of
// failing the test.
func (s *c15Side) deploy(name string, x c15Exe, data any) {
	if x.err != "" {
		s.deployed[name] = x.err
		return
	}
	e := s.env.E
	c := &neotest.Contract{Hash: s.hashes[name], NEF: x.nef, Manifest: x.man}
	tx := e.NewDeployTx(s.env.T, c, data)
	b := e.AddNewBlock(s.env.T, tx)
	r := s.env.ResultOf(tx, b)
	if !r.Halt {
		s.deployed[name] = "deployment FAULT: " + r.Fault
		return
	}
	s.deployed[name] = ""
}

func (s *c15Side) regNNS(name string) {
	if s.deployed["nns"] != "" || s.deployed[name] != "" {
		return
	}
	e := s.env.E
	r := s.env.Invoke([]neotest.Signer{e.Committee}, s.hashes["nns"], "register", name+".neofs", e.CommitteeHash, "ops@nspcc.ru",
		int64(3600), int64(600), int64(10*365*24*3600*1000), int64(3600))
	if !r.Halt {
		s.deployed[name] += "(NNS register FAULT: " + r.Fault + ")"
		return
	}
	r = s.env.Invoke([]neotest.Signer{e.Committee}, s.hashes["nns"], "addRecord", name+".neofs", 16, s.hashes[name].StringLE())
	if !r.Halt {
		s.deployed[name] += "(NNS addRecord FAULT: " + r.Fault + ")"
	}
}

// c15Deploy builds a chain and deploys the eleven contracts with the
// arguments /repo/tests uses, in an order compatible with fsContracts.
func c15Deploy(t *testing.T, which string, exes map[string]c15Exe) *c15Side {
	s := &c15Side{which: which, env: NewEnv(t), hashes: map[string]util.Uint160{}, deployed: map[string]string{}, results: map[string]c15Obs{}}
	e := s.env.E
	for n, x := range exes {
		if x.err == "" {
			s.hashes[n] = state.CreateContractHash(e.Validator.ScriptHash(), x.nef.Checksum, x.man.Name)
		}
	}
	_, pubs, ok := vm.ParseMultiSigContract(e.Committee.Script())
	require.True(t, ok)
	s.deploy("nns", exes["nns"], []any{[]any{[]any{"neofs", "ops@nspcc.io"}}})
	s.deploy("proxy", exes["proxy"], nil)
	s.regNNS("proxy")
	s.deploy("audit", exes["audit"], []any{false})
	s.deploy("netmap", exes["netmap"], []any{false, util.Uint160{}, util.Uint160{}, []any{pubs[0]}, []any{}})
	s.regNNS("netmap")
	s.deploy("balance", exes["balance"], []any{false, util.Uint160{}, util.Uint160{}})
	s.regNNS("balance")
	s.deploy("reputation", exes["reputation"], []any{false})
	s.deploy("neofsid", exes["neofsid"], []any{false, nil, nil, nil, nil})
	s.regNNS("neofsid")
	s.deploy("container", exes["container"], []any{int64(0), nil, nil, nil, nil, nil})
	s.regNNS("container")
	s.deploy("alphabet", exes["alphabet"], []any{false, nil, nil, "Az", int64(0), int64(1)})
	s.deploy("processing", exes["processing"], []any{s.hashes["neofs"]})
	s.deploy("neofs", exes["neofs"], []any{false, s.hashes["processing"], []any{pubs[0]}, []any{}})
	return s
}

// callSafe invokes version() and every safe method without parameters.
func (s *c15Side) callSafe(name string, x c15Exe) {
	if s.deployed[name] != "" {
		return
	}
	for _, m := range x.man.ABI.Methods {
		// reputation does not list version under safemethods; it is called all the same
		if len(m.Parameters) != 0 || !(m.Safe || m.Name == "version") {
			continue
		}
		s.nInvoke++
		items, err := s.env.ReadAll(nil, s.hashes[name], m.Name)
		o := c15Obs{Halt: err == nil}
		if err == nil {
			var xs []string
			for _, it := range items {
				xs = append(xs, c15Item(it))
			}
			o.Stack = strings.Join(xs, " ")
		}
		s.results[name+"."+m.Name] = o
	}
}

func TestC15(t *testing.T) {
	st := NewStats("C15")
	st.Rule = "distinct (contract, artifact file) pairs compared byte for byte with both sides non-empty, plus distinct (contract, safe parameterless method) pairs executed to HALT on both the committed and the freshly compiled deployment"
	hist := func(m map[string]int, k string, n int) { m[k] += n }

	w, err := c15lib.Build(RepoDir)
	require.NoError(t, err, "translator")

	// (a) the comparisons of Props/C15.v, in Go
	diffs := w.Differences()
	for _, d := range diffs {
		st.AddViolation(d.String(), d)
	}
	nontrivial := map[string]bool{}
	for _, c := range w.Contracts {
		for _, k := range c15lib.Kinds {
			a, b := c.Committed.Get(k), c.Fresh.Get(k)
			st.Evaluations++
			hist(st.OpHistogram, "file_compare:"+k, 1)
			if bytes.Equal(a, b) {
				hist(st.OutcomeHistogram, "file_equal", 1)
			} else {
				hist(st.OutcomeHistogram, "file_differs", 1)
			}
			if len(a) > 0 && len(b) > 0 {
				nontrivial[c.Name+"/"+k] = true
			}
		}
		st.Evaluations += len(c.Calls) + 2*len(c.AbiF.Methods) + len(c.AbiF.Events) + 2
		hist(st.OpHistogram, "binding_call_checked", len(c.Calls))
		hist(st.OpHistogram, "abi_method_checked(safe flag, coverage)", len(c.AbiF.Methods))
		hist(st.OpHistogram, "abi_event_compared", len(c.AbiF.Events))
		hist(st.OpHistogram, "version_executed_in_translator", 2)
		for _, k := range c.Calls {
			hist(st.OutcomeHistogram, "call_via_"+k.Via, 1)
		}
	}
	st.Evaluations += len(w.Params.Edges) + 1
	hist(st.OpHistogram, "deploy_edge_checked", len(w.Params.Edges))
	hist(st.OutcomeHistogram, "differences_found", len(diffs))

	// The embedded files and the order GetFS/GetMain return them in.  Only
	// meaningful when the tree under test is the one this binary embeds.
	exC, exF := map[string]c15Exe{}, map[string]c15Exe{}
	for _, c := range w.Contracts {
		exC[c.Name] = c15Decode(c.Committed.Nef, c.Committed.Manifest)
		exF[c.Name] = c15Decode(c.Fresh.Nef, c.Fresh.Manifest)
	}
	embedded := false
	if abs, _ := filepath.Abs(RepoDir); abs == "/repo" {
		embedded = true
		fs, err := contracts.GetFS()
		require.NoError(t, err, "contracts.GetFS")
		mn, err := contracts.GetMain()
		require.NoError(t, err, "contracts.GetMain")
		check := func(list []contracts.Contract, dirs []string, what string) {
			if len(list) != len(dirs) {
				st.AddViolation(fmt.Sprintf("%s returns %d contracts, contracts.go lists %d directories", what, len(list), len(dirs)), dirs)
				return
			}
			for i := range list {
				st.Evaluations++
				hist(st.OpHistogram, "embedded_file_compare", 1)
				var cc *c15lib.Contract
				for j := range w.Contracts {
					if w.Contracts[j].Name == dirs[i] {
						cc = &w.Contracts[j]
					}
				}
				if cc == nil {
					st.AddViolation(fmt.Sprintf("%s: position %d is directory %s, which is not a contract directory", what, i, dirs[i]), dirs)
					continue
				}
				nb, err := list[i].NEF.Bytes()
				require.NoError(t, err)
				if off := c15lib.FirstDiff(nb, cc.Committed.Nef); off >= 0 {
					st.AddViolation(fmt.Sprintf("%s[%d] (%s): embedded NEF differs from %s at byte %d (stale binary or order mismatch)",
						what, i, list[i].Manifest.Name, c15lib.RelPath(dirs[i], "nef"), off), map[string]any{"position": i, "dir": dirs[i], "offset": off})
					continue
				}
				if cc.AbiC.OK && list[i].Manifest.Name != cc.AbiC.Name {
					st.AddViolation(fmt.Sprintf("%s[%d]: embedded manifest is %q, directory %s holds %q", what, i, list[i].Manifest.Name, dirs[i], cc.AbiC.Name), dirs)
					continue
				}
				// deploy exactly what the package hands out
				l := list[i]
				exC[dirs[i]] = c15Exe{nef: &l.NEF, man: &l.Manifest}
			}
		}
		check(fs, w.Params.FsContracts, "contracts.GetFS()")
		check(mn, w.Params.MainContracts, "contracts.GetMain()")
	}
	st.Extra["committed_side_uses_embedded_files"] = embedded

	// (a') every call of every accessor of the tree's own package contracts
	// returns the committed artifacts, whatever earlier callers did to theirs
	c15Probe(t, st, w)

	// (b) differential execution
	sc := c15Deploy(t, "committed", exC)
	sf := c15Deploy(t, "fresh", exF)
	var names []string
	for _, c := range w.Contracts {
		names = append(names, c.Name)
	}
	sort.Strings(names)
	for _, n := range names {
		for _, s := range []*c15Side{sc, sf} {
			st.Histories++
			hist(st.OpHistogram, "deploy", 1)
			if s.deployed[n] == "" {
				hist(st.OutcomeHistogram, "deploy_HALT", 1)
			} else {
				hist(st.OutcomeHistogram, "deploy_failed", 1)
			}
		}
		if sf.deployed[n] != "" {
			// the harness's own deployment arguments are wrong for the source as it is now
			t.Errorf("freshly compiled %s could not be deployed: %s", n, sf.deployed[n])
		}
		if sc.deployed[n] != sf.deployed[n] {
			st.AddViolation(fmt.Sprintf("%s: deploying the committed executable: %q; deploying the compiled one: %q", n, sc.deployed[n], sf.deployed[n]),
				map[string]any{"contract": n, "committed": sc.deployed[n], "fresh": sf.deployed[n]})
		}
		sc.callSafe(n, exC[n])
		sf.callSafe(n, exF[n])
	}
	want := w.WantVersion()
	var keys []string
	for k := range sf.results {
		keys = append(keys, k)
	}
	for k := range sc.results {
		if _, ok := sf.results[k]; !ok {
			keys = append(keys, k)
		}
	}
	sort.Strings(keys)
	var cases, faulting []string
	for _, k := range keys {
		oc, okc := sc.results[k]
		of, okf := sf.results[k]
		st.Evaluations++
		st.Histories += 2
		hist(st.OpHistogram, "safe_invocation_pair", 1)
		switch {
		case !okc || !okf:
			hist(st.OutcomeHistogram, "method_on_one_side_only", 1)
			if sc.deployed[strings.SplitN(k, ".", 2)[0]] == "" && sf.deployed[strings.SplitN(k, ".", 2)[0]] == "" {
				st.AddViolation(fmt.Sprintf("%s(): safe parameterless method exists only in the %s manifest", k, map[bool]string{true: "committed", false: "compiled"}[okc]), k)
			}
			continue
		case oc != of:
			hist(st.OutcomeHistogram, "results_differ", 1)
			st.AddViolation(fmt.Sprintf("%s(): committed executable gives %+v, compiled gives %+v", k, oc, of), map[string]any{"call": k, "committed": oc, "fresh": of})
		default:
			hist(st.OutcomeHistogram, "results_equal", 1)
		}
		if oc.Halt && of.Halt {
			hist(st.OutcomeHistogram, "HALT_both", 1)
			nontrivial["call:"+k] = true
		} else {
			hist(st.OutcomeHistogram, "FAULT_somewhere", 1)
			faulting = append(faulting, k)
		}
		if strings.HasSuffix(k, ".version") {
			n := strings.TrimSuffix(k, ".version")
			for _, p := range []struct {
				which string
				o     c15Obs
			}{{"committed", oc}, {"fresh", of}} {
				val := "(-1)%Z"
				if p.o.Halt && strings.HasPrefix(p.o.Stack, "Integer:") {
					val = strings.TrimPrefix(p.o.Stack, "Integer:") + "%Z"
				}
				cases = append(cases, fmt.Sprintf("(%q, %q, %s)", n, p.which, val))
				if want == nil || p.o.Stack != "Integer:"+want.String() {
					st.AddViolation(fmt.Sprintf("%s: deployed %s executable reports version %s, common/version.go says %v", n, p.which, p.o.Stack, want),
						map[string]any{"contract": n, "which": p.which, "observed": p.o, "want": fmt.Sprint(want)})
				}
			}
		}
	}
	st.DistinctNontrivial = len(nontrivial)

	// (c) Coq compares the executed version() results with Gen/Params.v
	var sb strings.Builder
	sb.WriteString("(* version() of every deployed contract (committed and freshly compiled executable), as observed on the neotest chains *)\n")
	sb.WriteString("From Coq Require Import ZArith List String.\nImport ListNotations.\nFrom Verif Require Import Gen.Params.\nLocal Open Scope string_scope.\n")
	sb.WriteString("Definition cases : list (string * string * Z) := [\n  " + strings.Join(cases, ";\n  ") + "\n].\n")
	sb.WriteString("Definition want : Z := (p_common_major * 1000000 + p_common_minor * 1000 + p_common_patch)%Z.\n")
	sb.WriteString("Definition M := Eval vm_compute in\n  ((if Nat.eqb (List.length cases) " + fmt.Sprint(2*len(w.Contracts)) + " then [] else [(\"number of cases\", \"\", Z.of_nat (List.length cases))]) ++\n")
	sb.WriteString("  filter (fun c => negb (Z.eqb (snd c) want && Z.eqb want p_common_Version)) cases)%list.\nPrint M.\n")
	require.NoError(t, os.WriteFile(filepath.Join(OutDir(), "cases_C15.v"), []byte(sb.String()), 0o644))

	// samples: literal inputs
	sum := func(b []byte) string { h := sha256.Sum256(b); return hex.EncodeToString(h[:8]) }
	if len(w.Contracts) > 0 {
		c := w.Contracts[len(w.Contracts)/2]
		st.Samples = append(st.Samples, map[string]any{"contract": c.Name, "file": c15lib.RelPath(c.Name, "nef"),
			"committed_len": len(c.Committed.Nef), "fresh_len": len(c.Fresh.Nef), "committed_sha256_8": sum(c.Committed.Nef), "fresh_sha256_8": sum(c.Fresh.Nef),
			"first_diff_offset": c15lib.FirstDiff(c.Committed.Nef, c.Fresh.Nef)})
		if len(c.Calls) > 0 {
			st.Samples = append(st.Samples, map[string]any{"contract": c.Name, "binding_call": c.Calls[0]})
		}
	}
	for _, k := range keys {
		if strings.HasSuffix(k, ".version") {
			st.Samples = append(st.Samples, map[string]any{"call": k + "()", "committed": sc.results[k], "fresh": sf.results[k]})
			break
		}
	}
	st.Extra["safe_invocations_per_side"] = sf.nInvoke
	st.Extra["safe_calls_faulting_on_both_sides"] = faulting
	st.Extra["deploy_edges"] = w.Params.Edges
	st.Extra["fsContracts"] = w.Params.FsContracts
	st.Write()
}

// c15ProbeReport is what testdata/c15probe prints.
type c15ProbeReport struct {
	Accessors   []string `json:"accessors"`
	Calls       int      `json:"calls"`
	Comparisons int      `json:"comparisons"`
	Problems    []struct {
		Accessor string `json:"accessor"`
		Call     string `json:"call"`
		After    string `json:"after"`
		What     string `json:"what"`
	} `json:"problems"`
}

// c15Accessors lists, by go/ast, the exported functions of package contracts
// of the tree under test: those with the signature func() ([]Contract, error)
// (they hand out the embedded artifacts and are probed) and the others.
func c15Accessors(dir string) (probed, other []string, err error) {
	files, err := filepath.Glob(filepath.Join(dir, "*.go"))
	if err != nil {
		return nil, nil, err
	}
	sort.Strings(files)
	fset := token.NewFileSet()
	for _, fn := range files {
		if strings.HasSuffix(fn, "_test.go") {
			continue
		}
		f, err := parser.ParseFile(fset, fn, nil, 0)
		if err != nil {
			return nil, nil, err
		}
		for _, d := range f.Decls {
			fd, ok := d.(*ast.FuncDecl)
			if !ok || fd.Recv != nil || !fd.Name.IsExported() {
				continue
			}
			ft := fd.Type
			isAcc := (ft.Params == nil || len(ft.Params.List) == 0) && ft.Results != nil && len(ft.Results.List) == 2
			if isAcc {
				at, ok := ft.Results.List[0].Type.(*ast.ArrayType)
				id, ok2 := ft.Results.List[1].Type.(*ast.Ident)
				isAcc = ok && at.Len == nil && ok2 && id.Name == "error"
				if isAcc {
					el, ok := at.Elt.(*ast.Ident)
					isAcc = ok && el.Name == "Contract"
				}
			}
			if isAcc {
				probed = append(probed, fd.Name.Name)
			} else {
				other = append(other, fd.Name.Name)
			}
		}
	}
	return probed, other, nil
}

// c15Probe compiles testdata/c15probe in a scratch module whose replace
// directive points at the tree under test and runs it: repeated and
// concurrent calls of GetFS / GetMain (and of any other accessor of that
// shape), with every reachable part of each result mutated between calls.
func c15Probe(t *testing.T, st *Stats, w *c15lib.World) {
	abs, err := filepath.Abs(RepoDir)
	require.NoError(t, err)
	probed, other, err := c15Accessors(filepath.Join(abs, "contracts"))
	require.NoError(t, err, "reading package contracts")
	st.Extra["probed_accessors"] = probed
	st.Extra["exported_functions_not_probed"] = other
	if len(probed) == 0 {
		st.AddViolation("package contracts exports no func() ([]Contract, error): GetFS/GetMain are gone", other)
		return
	}
	tmp := t.TempDir()
	src, err := os.ReadFile(filepath.Join(envOr("VERIF_HARNESS", "/verif/harness"), "testdata", "c15probe", "main.go"))
	require.NoError(t, err)
	require.NoError(t, os.WriteFile(filepath.Join(tmp, "main.go"), src, 0o644))
	var tbl []string
	for _, a := range probed {
		tbl = append(tbl, fmt.Sprintf("%q: contracts.%s", a, a))
	}
	gen := "package main\n\nimport \"github.com/nspcc-dev/neofs-contract/contracts\"\n\nvar accessors = map[string]func() ([]contracts.Contract, error){" + strings.Join(tbl, ", ") + "}\n"
	require.NoError(t, os.WriteFile(filepath.Join(tmp, "accessors_gen.go"), []byte(gen), 0o644))
	mod := "module c15probe\n\ngo 1.22\n\nrequire github.com/nspcc-dev/neofs-contract v0.0.0\n\nreplace github.com/nspcc-dev/neofs-contract => " + abs + "\n"
	require.NoError(t, os.WriteFile(filepath.Join(tmp, "go.mod"), []byte(mod), 0o644))
	sum, err := os.ReadFile(filepath.Join(abs, "go.sum"))
	require.NoError(t, err)
	require.NoError(t, os.WriteFile(filepath.Join(tmp, "go.sum"), sum, 0o644))

	orders := "GetFS=" + strings.Join(w.Params.FsContracts, ",") + ";GetMain=" + strings.Join(w.Params.MainContracts, ",")
	cmd := exec.Command("go", "run", ".", "-repo", abs, "-orders", orders)
	cmd.Dir = tmp
	cmd.Env = append(os.Environ(), "GOFLAGS=-mod=mod", "GOPROXY=off", "GOSUMDB=off", "GOTOOLCHAIN=local", "CGO_ENABLED=0")
	var stdout, stderr bytes.Buffer
	cmd.Stdout, cmd.Stderr = &stdout, &stderr
	if err := cmd.Run(); err != nil {
		t.Errorf("c15probe against %s: %v\n%s", abs, err, stderr.String())
		return
	}
	var rep c15ProbeReport
	out := stdout.Bytes()
	if i := bytes.IndexByte(out, '{'); i >= 0 {
		out = out[i:]
	}
	require.NoError(t, json.Unmarshal(out, &rep), "c15probe output: %s", stdout.String())
	st.Histories += rep.Calls
	st.Evaluations += rep.Comparisons
	st.OpHistogram["accessor_call(repeated, after mutation, concurrent)"] += rep.Calls
	st.OpHistogram["accessor_result_vs_disk_and_first_call"] += rep.Comparisons
	st.OutcomeHistogram["accessor_problems"] += len(rep.Problems)
	// one violation per (accessor, call), carrying all its findings
	type key struct{ a, c string }
	seen := map[key]bool{}
	n := 0
	for _, p := range rep.Problems {
		k := key{p.Accessor, p.Call}
		if seen[k] || n >= 6 {
			continue
		}
		seen[k] = true
		n++
		var all []string
		for _, q := range rep.Problems {
			if q.Accessor == p.Accessor && q.Call == p.Call {
				all = append(all, q.What)
			}
		}
		st.AddViolation(fmt.Sprintf("contracts.%s(), %s of one process, after %s: %s (%d findings for this call)", p.Accessor, p.Call, p.After, p.What, len(all)),
			map[string]any{"accessor": p.Accessor, "call": p.Call, "after": p.After, "findings": all,
				"sequence": "call; compare with contracts/*/{contract.nef,manifest.json}; mutate the returned value in place; call again"})
	}
	if len(rep.Problems) == 0 {
		st.Samples = append(st.Samples, map[string]any{"probe": "contracts." + strings.Join(rep.Accessors, "/") + " called repeatedly with results mutated in between and from 8 goroutines",
			"calls": rep.Calls, "comparisons_with_disk_and_first_call": rep.Comparisons, "problems": 0})
	}
}
