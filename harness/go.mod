module verif/harness

go 1.22

require (
	github.com/mr-tron/base58 v1.2.0
	github.com/nspcc-dev/neo-go v0.107.0
	github.com/nspcc-dev/neo-go/pkg/interop v0.0.0-20240729160116-d8e3e57f88f2
	github.com/nspcc-dev/neofs-contract v0.0.0
	github.com/stretchr/testify v1.9.0
	go.uber.org/zap v1.27.0
	golang.org/x/tools v0.24.0
	gopkg.in/yaml.v3 v3.0.1
)

require (
	github.com/antlr/antlr4/runtime/Go/antlr/v4 v4.0.0-20221202181307-76fa05c21b12 // indirect
	github.com/beorn7/perks v1.0.1 // indirect
	github.com/bits-and-blooms/bitset v1.14.2 // indirect
	github.com/cespare/xxhash/v2 v2.3.0 // indirect
	github.com/consensys/bavard v0.1.13 // indirect
	github.com/consensys/gnark-crypto v0.14.0 // indirect
	github.com/cpuguy83/go-md2man/v2 v2.0.4 // indirect
	github.com/davecgh/go-spew v1.1.1 // indirect
	github.com/decred/dcrd/dcrec/secp256k1/v4 v4.3.0 // indirect
	github.com/golang/protobuf v1.5.3 // indirect
	github.com/golang/snappy v0.0.1 // indirect
	github.com/google/uuid v1.6.0 // indirect
	github.com/gorilla/websocket v1.5.3 // indirect
	github.com/hashicorp/golang-lru/v2 v2.0.7 // indirect
	github.com/holiman/uint256 v1.3.1 // indirect
	github.com/mmcloughlin/addchain v0.4.0 // indirect
	github.com/munnerz/goautoneg v0.0.0-20191010083416-a7dc8b61c822 // indirect
	github.com/nspcc-dev/go-ordered-json v0.0.0-20240830112754-291b000d1f3b // indirect
	github.com/nspcc-dev/hrw/v2 v2.0.1 // indirect
	github.com/nspcc-dev/neofs-api-go/v2 v2.14.1-0.20240305074711-35bc78d84dc4 // indirect
	github.com/nspcc-dev/neofs-sdk-go v1.0.0-rc.12 // indirect
	github.com/nspcc-dev/rfc6979 v0.2.3 // indirect
	github.com/nspcc-dev/tzhash v1.7.2 // indirect
	github.com/pierrec/lz4 v2.6.1+incompatible // indirect
	github.com/pmezard/go-difflib v1.0.0 // indirect
	github.com/prometheus/client_golang v1.20.2 // indirect
	github.com/prometheus/client_model v0.6.1 // indirect
	github.com/prometheus/common v0.55.0 // indirect
	github.com/prometheus/procfs v0.15.1 // indirect
	github.com/russross/blackfriday/v2 v2.1.0 // indirect
	github.com/syndtr/goleveldb v1.0.1-0.20210305035536-64b5b1c73954 // indirect
	github.com/twmb/murmur3 v1.1.8 // indirect
	github.com/urfave/cli/v2 v2.27.4 // indirect
	github.com/xrash/smetrics v0.0.0-20240521201337-686a1a2994c1 // indirect
	go.etcd.io/bbolt v1.3.11 // indirect
	go.uber.org/multierr v1.11.0 // indirect
	golang.org/x/crypto v0.26.0 // indirect
	golang.org/x/exp v0.0.0-20240823005443-9b4947da3948 // indirect
	golang.org/x/mod v0.20.0 // indirect
	golang.org/x/net v0.28.0 // indirect
	golang.org/x/sync v0.8.0 // indirect
	golang.org/x/sys v0.24.0 // indirect
	golang.org/x/term v0.23.0 // indirect
	golang.org/x/text v0.17.0 // indirect
	google.golang.org/genproto/googleapis/rpc v0.0.0-20240221002015-b0ce06bbee7c // indirect
	google.golang.org/grpc v1.62.0 // indirect
	google.golang.org/protobuf v1.34.2 // indirect
	rsc.io/tmplfunc v0.0.3 // indirect
)

replace github.com/nspcc-dev/neofs-contract => /repo
