package harness

// C20 — "Epoch-keyed, per-owner and configuration stores return exactly what
// was put".  Correspondence harness for the six store sub-families
// (reputation, audit, neofsid, netmap-config, neofs-config, container size
// estimations): every history runs on a fresh chain against the contracts
// compiled from the working tree, all listings/getters are read after every
// operation, written down as Coq terms for Model/{Reputation,Audit,NeoFSID,
// Config,Estimations}.v and checked by an independent Go monitor.
//
// This file: shared infrastructure, TestC20, reputation, neofsid, config.
// stores_gen_test.go: audit, estimations.

import (
	"encoding/json"
	"bytes"
	"crypto/sha256"
	"fmt"
	"math/big"
	"math/rand"
	"path/filepath"
	"sort"
	"strings"
	"testing"
	"time"

	"github.com/nspcc-dev/neo-go/pkg/core/native/nativenames"
	"github.com/nspcc-dev/neo-go/pkg/core/transaction"
	"github.com/nspcc-dev/neo-go/pkg/crypto/keys"
	"github.com/nspcc-dev/neo-go/pkg/encoding/bigint"
	"github.com/nspcc-dev/neo-go/pkg/neotest"
	"github.com/nspcc-dev/neo-go/pkg/util"
	"github.com/nspcc-dev/neo-go/pkg/vm/stackitem"
	"github.com/nspcc-dev/neo-go/pkg/wallet"
	"github.com/stretchr/testify/require"
)

// ---------------------------------------------------------------------------
// Epochs

var c20Two31 = new(big.Int).Lsh(big.NewInt(1), 31)

// c20EpochPool is the pool named by the property.
func c20EpochPool() []*big.Int {
	return []*big.Int{big.NewInt(0), big.NewInt(1), big.NewInt(127), big.NewInt(128), big.NewInt(255),
		big.NewInt(256), big.NewInt(257), big.NewInt(65535), big.NewInt(65536), new(big.Int).Set(c20Two31), big.NewInt(-1)}
}

// c20CollidingPairs: the encoding of the first is a proper prefix of the
// encoding of the second (0 -> empty, 1 -> [1], 257 -> [1,1], -1 -> [255],
// 255 -> [255,0], 65535 -> [255,255,0], 127 -> [127], 32639 -> [127,127],
// 256 -> [0,1], 65792 -> [0,1,1]).  The last two second components extend the
// named pool by two more values of the same kind.
var c20CollidingPairs = [][2]int64{{1, 257}, {0, 1}, {0, 256}, {-1, 255}, {-1, 65535}, {127, 32639}, {256, 65792}, {0, 65536}, {1, 257}, {0, 257}}

// c20Enc is the NeoVM integer -> bytes conversion (minimal little-endian two's
// complement, 0 -> empty).
func c20Enc(e *big.Int) []byte { return bigint.ToBytes(e) }

func c20HasEpoch(es []*big.Int, e *big.Int) bool {
	for _, x := range es {
		if x.Cmp(e) == 0 {
			return true
		}
	}
	return false
}

// c20SubPool picks n epochs containing at least one colliding pair.
func c20SubPool(r *rand.Rand, n int) []*big.Int {
	pr := c20CollidingPairs[r.Intn(len(c20CollidingPairs))]
	out := []*big.Int{big.NewInt(pr[0]), big.NewInt(pr[1])}
	pool := c20EpochPool()
	for len(out) < n {
		e := pool[r.Intn(len(pool))]
		if !c20HasEpoch(out, e) {
			out = append(out, e)
		}
	}
	r.Shuffle(len(out), func(i, j int) { out[i], out[j] = out[j], out[i] })
	return out
}

func c20Big(i int64) *big.Int { return big.NewInt(i) }

// ---------------------------------------------------------------------------
// Accounts (deterministic keys: the byte strings interned in the cases files
// are the same in every history and every run)

func c20Account(tag string, i int) *wallet.Account {
	h := sha256.Sum256([]byte(fmt.Sprintf("verif-c20-%s-%d", tag, i)))
	pk, err := keys.NewPrivateKeyFromBytes(h[:])
	if err != nil {
		panic(err)
	}
	return wallet.NewAccountFromPrivateKey(pk)
}

func c20Signer(tag string, i int) neotest.SingleSigner {
	return neotest.NewSingleSigner(c20Account(tag, i)).(neotest.SingleSigner)
}

func c20Pub(s neotest.SingleSigner) []byte {
	return s.Account().PrivateKey().PublicKey().Bytes()
}

// c20Fund gives GAS to the accounts in one block.
// c20Auth are the accounts of authority of one chain.  On the one-key chain
// the Alphabet account (2n/3+1 of n) and the committee-majority account
// (n/2+1 of n) coincide; on a chain of c20BigCommittee keys they differ
// (5-of-7 vs 4-of-7) and single members can sign alone.
type c20Auth struct {
	alpha, major neotest.Signer
	member       neotest.Signer // one committee member's own key (nil on the one-key chain)
	differ       bool
}

const c20BigCommittee = 7

// c20Chain creates a chain with a committee of ncmt keys (<= 1: the one-key chain).
func c20Chain(t testing.TB, ncmt int) (*Env, c20Auth) {
	if ncmt <= 1 {
		v := NewEnv(t)
		return v, c20Auth{alpha: v.E.Committee, major: v.E.Committee}
	}
	vn := NewEnvN(t, ncmt)
	a := c20Auth{alpha: vn.Alphabet, major: vn.Majority, differ: vn.Alphabet.ScriptHash() != vn.Majority.ScriptHash(),
		member: neotest.NewSingleSigner(wallet.NewAccountFromPrivateKey(vn.Keys[0]))}
	c20Fund(vn.Env, a.major, a.member)
	return vn.Env, a
}

// c20Deploy deploys c by the validator account; on a chain where the
// committee-majority account differs from it, that account co-signs (a
// contract's _deploy may need the committee witness, e.g. to register a TLD).
func c20Deploy(v *Env, a c20Auth, c *neotest.Contract, data any) {
	if !a.differ {
		v.E.DeployContract(v.T, c, data)
		return
	}
	rawManifest, err := json.Marshal(c.Manifest)
	require.NoError(v.T, err)
	neb, err := c.NEF.Bytes()
	require.NoError(v.T, err)
	tx := v.E.NewUnsignedTx(v.T, v.E.NativeHash(v.T, nativenames.Management), "deploy", neb, rawManifest, data)
	tx = v.E.SignTx(v.T, tx, 500_0000_0000, v.E.Validator, a.major)
	v.E.AddNewBlock(v.T, tx)
	v.E.CheckHalt(v.T, tx.Hash())
	require.NotNil(v.T, v.BC.GetContractState(c.Hash), "deployed contract has another hash")
}

func c20Fund(v *Env, accs ...neotest.Signer) {
	gas := v.E.NativeHash(v.T, nativenames.Gas)
	var txs []*transaction.Transaction
	for _, a := range accs {
		tx := v.E.NewUnsignedTx(v.T, gas, "transfer", v.E.Validator.ScriptHash(), a.ScriptHash(), int64(20000_0000_0000), nil)
		txs = append(txs, v.E.SignTx(v.T, tx, 1_0000_0000, v.E.Validator))
	}
	v.E.AddNewBlock(v.T, txs...)
	for _, tx := range txs {
		v.E.CheckHalt(v.T, tx.Hash())
	}
}

// c20Bytes is a deterministic pseudo-random byte string.
func c20Bytes(tag string, n int) []byte {
	var out []byte
	for i := 0; len(out) < n; i++ {
		h := sha256.Sum256([]byte(fmt.Sprintf("verif-c20-bytes-%s-%d", tag, i)))
		out = append(out, h[:]...)
	}
	return out[:n]
}

func c20Cat(parts ...[]byte) []byte {
	var out []byte
	for _, p := range parts {
		out = append(out, p...)
	}
	return out
}

// ---------------------------------------------------------------------------
// Stack item projections

// c20BytesList: Array of byte strings -> [][]byte; Null -> empty list.
func c20BytesList(t testing.TB, it stackitem.Item) [][]byte {
	if _, ok := it.(stackitem.Null); ok || it == nil {
		return nil
	}
	arr, ok := it.Value().([]stackitem.Item)
	require.True(t, ok, "expected an array, got %s", it.Type())
	out := make([][]byte, len(arr))
	for i, x := range arr {
		b, err := x.TryBytes()
		require.NoError(t, err)
		out[i] = b
	}
	return out
}

// c20ReadList reads a list-returning safe method; fault = the invocation faulted.
func c20ReadList(v *Env, h util.Uint160, method string, args ...any) (list [][]byte, fault bool, null bool) {
	it, err := v.Read(h, method, args...)
	if err != nil {
		return nil, true, false
	}
	return c20BytesList(v.T, it), false, c20IsNull(it)
}

func c20IsNull(it stackitem.Item) bool {
	_, ok := it.(stackitem.Null)
	return ok || it == nil
}

func c20HexList(bs [][]byte) []string {
	out := make([]string, len(bs))
	for i, b := range bs {
		out[i] = Hex(b)
	}
	return out
}

func c20SortedCopy(bs [][]byte) [][]byte {
	out := make([][]byte, len(bs))
	copy(out, bs)
	sort.Slice(out, func(i, j int) bool { return bytes.Compare(out[i], out[j]) < 0 })
	return out
}

// c20MultisetDiff returns a\b and b\a as multisets.
func c20MultisetDiff(a, b []string) (onlyA, onlyB []string) {
	m := map[string]int{}
	for _, x := range b {
		m[x]++
	}
	for _, x := range a {
		if m[x] > 0 {
			m[x]--
		} else {
			onlyA = append(onlyA, x)
		}
	}
	for x, n := range m {
		for i := 0; i < n; i++ {
			onlyB = append(onlyB, x)
		}
	}
	sort.Strings(onlyB)
	return
}

// ---------------------------------------------------------------------------
// Coq literals: a pool that keeps the cases files small.  Long byte strings
// returned by the contracts are concatenations of a few atoms (epoch bytes,
// container id, key hash ...): they are defined as such, and repeated
// observable sub-terms are defined once.

type c20Pool struct {
	lit    *Pool
	pfx    string
	atoms  [][]byte
	isAtom map[string]bool
	comp   map[string]string
	cdefs  []string
	terms  map[string]string
	tdefs  []string
}

func c20NewPool(pfx string) *c20Pool {
	return &c20Pool{lit: NewPool(pfx), pfx: pfx, isAtom: map[string]bool{}, comp: map[string]string{}, terms: map[string]string{}}
}

// Atom interns b literally and makes it available as a building block.
func (p *c20Pool) Atom(b []byte) string {
	if len(b) == 0 {
		return "[]"
	}
	if n, ok := p.comp[string(b)]; ok {
		return n
	}
	n := p.lit.Ref(b)
	if len(b) >= 6 && !p.isAtom[string(b)] {
		p.isAtom[string(b)] = true
		p.atoms = append(p.atoms, append([]byte{}, b...))
		sort.SliceStable(p.atoms, func(i, j int) bool { return len(p.atoms[i]) > len(p.atoms[j]) })
	}
	return n
}

// Ref returns a Coq name (or [] ) denoting b.
func (p *c20Pool) Ref(b []byte) string {
	if len(b) == 0 {
		return "[]"
	}
	if n, ok := p.lit.names[string(b)]; ok {
		return n
	}
	if n, ok := p.comp[string(b)]; ok {
		return n
	}
	var parts []string
	var lit []byte
	used := false
	flush := func() {
		if len(lit) > 0 {
			parts = append(parts, BytesLit(lit))
			lit = nil
		}
	}
	for i := 0; i < len(b); {
		matched := false
		for _, a := range p.atoms {
			if bytes.HasPrefix(b[i:], a) {
				flush()
				parts = append(parts, p.lit.names[string(a)])
				i += len(a)
				matched, used = true, true
				break
			}
		}
		if !matched {
			lit = append(lit, b[i])
			i++
		}
	}
	flush()
	if !used {
		return p.Atom(b)
	}
	n := fmt.Sprintf("%sx%d", p.pfx, len(p.cdefs))
	p.comp[string(b)] = n
	p.cdefs = append(p.cdefs, fmt.Sprintf("Definition %s : bytes := %s.\n", n, strings.Join(parts, " ++ ")))
	return n
}

func (p *c20Pool) Refs(bs [][]byte) string {
	xs := make([]string, len(bs))
	for i, b := range bs {
		xs[i] = p.Ref(b)
	}
	return ListLit(xs)
}

// T defines a val term once and returns its name.
func (p *c20Pool) T(term string) string {
	if len(term) <= 12 {
		return term
	}
	if n, ok := p.terms[term]; ok {
		return n
	}
	n := fmt.Sprintf("%st%d", p.pfx, len(p.tdefs))
	p.terms[term] = n
	p.tdefs = append(p.tdefs, fmt.Sprintf("Definition %s : val := %s.\n", n, term))
	return n
}

func (p *c20Pool) VB(b []byte) string { return VBytesRef(p.Ref(b)) }

// BL is [VBytesList [..]] (Model.StoreLib).
func (p *c20Pool) BL(bs [][]byte) string {
	return p.T("VBytesList " + p.Refs(bs))
}

// VL is an interned VList.
func (p *c20Pool) VL(xs []string) string { return p.T(VList(xs)) }

func (p *c20Pool) Defs() string {
	return p.lit.Defs() + strings.Join(p.cdefs, "") + strings.Join(p.tdefs, "")
}

func c20ZList(es []*big.Int) string {
	xs := make([]string, len(es))
	for i, e := range es {
		xs[i] = ZLit(e)
	}
	return ListLit(xs)
}

// c20WriteCases writes one cases file.
func c20WriteCases(t testing.TB, file, model, check string, p *c20Pool, cases []string) int {
	cf := &CasesFile{
		Header: "From Verif Require Import Base.Prelude Base.IntCodec Model.StoreLib Model." + model + ".\n" +
			"Local Open Scope Z_scope.\n" + p.Defs(),
		Pool:   NewPool("unused"),
		Cases:  cases,
		Footer: "Definition M := Eval vm_compute in failures_from 0 (map " + check + " cases).\nPrint M.\n",
	}
	path := filepath.Join(OutDir(), file)
	require.NoError(t, cf.Write(path))
	n := len(cf.Header) + len(cf.Footer)
	for _, c := range cases {
		n += len(c) + 2
	}
	return n
}

// ---------------------------------------------------------------------------
// Run-wide bookkeeping

var c20KnownIDs = []string{
	"C20/reputation.listByEpoch", "C20/reputation.get",
	"C20/audit.listByEpoch", "C20/audit.listByCID",
	"C20/container.listContainerSizes", "C20/container.iterateAllContainerSizes",
}

type c20Run struct {
	t          *testing.T
	st         *Stats
	nontrivial map[string]bool
	confirmed  map[string]bool
	samples    map[string]int
	notes      map[string]int
	sizes      map[string]int
	times      map[string]float64
	nviol      int
}

// c20Hist is the monitor's view of one history.
type c20Hist struct {
	run      *c20Run
	fam      string
	name     string
	corpus   bool
	crafted  bool // crafted container-id lengths (audit corpus only)
	ops      []string
	accepted bool // at least one put-like op halted
	refused  bool // at least one op faulted
	overlap  bool // see st.Rule
}

func (r *c20Run) newHist(fam, name string, corpus bool) *c20Hist {
	return &c20Hist{run: r, fam: fam, name: name, corpus: corpus}
}

// op records one executed operation (literal form) and its outcome.
func (h *c20Hist) op(kind, lit string, halt bool, putLike bool) {
	oc := "fault"
	if halt {
		oc = "halt"
	}
	h.ops = append(h.ops, lit+" -> "+oc)
	h.run.st.OpHistogram[h.fam+"."+kind]++
	h.run.st.OutcomeHistogram[h.fam+"."+kind+"/"+oc]++
	h.run.st.Evaluations++
	if halt && putLike {
		h.accepted = true
	}
	if !halt {
		h.refused = true
	}
}

func (h *c20Hist) replay() map[string]any {
	return map[string]any{"family": h.fam, "history": h.name, "ops": append([]string{}, h.ops...)}
}

func (h *c20Hist) violate(what string) {
	h.run.nviol++
	if h.run.nviol > 25 {
		return
	}
	h.run.st.AddViolation(h.fam+": "+what+fmt.Sprintf(" (history %s, after op %d)", h.name, len(h.ops)-1), h.replay())
}

// known records an observation with the agreed signature of finding id.
func (h *c20Hist) known(id string, detail map[string]any) {
	h.run.st.AddKnown(id)
	h.overlap = true
	if !h.corpus {
		return
	}
	// the first corpus history that exhibits the finding provides the witnesses:
	// one per distinct query, with the concrete returned list
	key := "witness_" + id
	w, _ := h.run.st.Extra[key].(map[string]any)
	if w == nil {
		w = map[string]any{"history": h.fam + "/" + h.name, "observations": []any{}}
		h.run.st.Extra[key] = w
		h.run.confirmed[id] = true
	}
	if w["history"] != h.fam+"/"+h.name {
		return
	}
	obs := w["observations"].([]any)
	detail["after_ops"] = append([]string{}, h.ops...)
	for i, o := range obs {
		if o.(map[string]any)["query"] == detail["query"] {
			obs[i] = detail // keep the latest (richest) observation of a query
			return
		}
	}
	if len(obs) >= 8 {
		return
	}
	w["observations"] = append(obs, detail)
}

func (h *c20Hist) note(what string) { h.run.notes[what]++ }

func (h *c20Hist) finish() {
	h.run.st.Histories++
	if h.corpus && envOr("VERIF_C20_DEBUG", "") != "" {
		h.run.t.Logf("corpus %s/%s:\n  %s", h.fam, h.name, strings.Join(h.ops, "\n  "))
	}
	if h.accepted && (h.refused || h.overlap) {
		h.run.nontrivial[h.fam+"|"+strings.Join(h.ops, ";")] = true
	}
	if (h.fam == "rep" || h.fam == "audit" || h.fam == "est") && h.run.samples[h.fam] < 1 && h.corpus && h.accepted && h.overlap && len(h.ops) <= 12 {
		h.run.samples[h.fam]++
		h.run.st.Samples = append(h.run.st.Samples, h.replay())
	}
}

const c20Rule = "a history counts if (a) at least one put-like operation (reputation.put, audit.put, neofsid.addKey/removeKey, " +
	"setConfig, container.putContainerSize) halted on the real contract AND (b) it contains a refusal (an operation that faulted) OR " +
	"an overlap event observed on the real contract: for reputation/audit/estimations a listing or getter whose queried storage prefix is a " +
	"prefix of the storage key of an entry that was put under different numbers (epoch / (epoch, peer)) and which therefore returned that " +
	"foreign entry (the known-finding signature); for neofsid two owners sharing a prefix of >= 20 bytes both holding keys at the same time; " +
	"for config two stored keys one of which is a proper prefix of the other. Histories are counted as distinct by the string " +
	"family|op1 -> outcome;op2 -> outcome;... of their literal operations and outcomes"

// c20Batches: the quick tier runs one batch per family, the thorough tier ten
// (each batch has its own cases file).
func c20Batches() int {
	if Tier() == "thorough" {
		return 10
	}
	return 1
}

func c20FileName(fam string, batch int) string {
	if c20Batches() == 1 {
		return "cases_C20_" + fam + ".v"
	}
	return fmt.Sprintf("cases_C20_%s_%d.v", fam, batch+1)
}

func TestC20(t *testing.T) {
	st := NewStats("C20")
	st.Rule = c20Rule
	run := &c20Run{t: t, st: st, nontrivial: map[string]bool{}, confirmed: map[string]bool{}, samples: map[string]int{},
		notes: map[string]int{}, sizes: map[string]int{}, times: map[string]float64{}}
	fams := []struct {
		name string
		f    func(run *c20Run, batch int)
	}{
		{"rep", c20RepFamily}, {"id", c20IDFamily}, {"cfg", c20CfgFamily}, {"audit", c20AuditFamily}, {"est", c20EstFamily},
	}
	for _, fm := range fams {
		t0 := time.Now()
		for b := 0; b < c20Batches(); b++ {
			fm.f(run, b)
		}
		run.times[fm.name] = time.Since(t0).Seconds()
	}
	c20CapacityProbe(run)
	st.DistinctNontrivial = len(run.nontrivial)
	var conf []string
	for _, id := range c20KnownIDs {
		if run.confirmed[id] {
			conf = append(conf, id)
		}
	}
	st.Extra["confirmed_known"] = conf
	st.Extra["notes"] = run.notes
	st.Extra["cases_file_bytes"] = run.sizes
	st.Extra["go_seconds"] = run.times
	st.Write()
	t.Logf("C20: histories=%d evaluations=%d distinct_nontrivial=%d known=%v confirmed=%v violations=%d sizes=%v times=%v notes=%v",
		st.Histories, st.Evaluations, st.DistinctNontrivial, st.KnownFindings, conf, run.nviol, run.sizes, run.times, run.notes)
	// Violations and (no longer) exhibited known findings are reported through
	// stats_C20.json; the driver decides.  The Go test itself only fails on
	// infrastructure errors.
	if len(conf) != len(c20KnownIDs) {
		t.Logf("C20: only %d of %d known findings were exhibited by the corpus", len(conf), len(c20KnownIDs))
	}
	if run.nviol > 0 {
		t.Logf("C20: %d monitor violations (first: %v)", run.nviol, st.Violations[0])
	}
}

// ===========================================================================
// 1. reputation

type c20RepOp struct {
	Alpha bool // the Alphabet account is among the signers
	E     *big.Int
	P, V  []byte
	// Who refines the signer set: "" = the Alphabet account alone (Alpha) or the
	// stranger alone (!Alpha); "alpha+stranger"; "major" (committee-majority
	// account alone); "member" (one committee member's own key alone);
	// "major+member"; "peer" (the key named as peerID alone).
	Who string
}

type c20RepHistory struct {
	Name   string
	NCmt   int // committee size of the chain (0/1: one key)
	Epochs []*big.Int
	Peers  [][]byte
	Ops    []c20RepOp
}

// fixed peers
var (
	c20PeerA   = append([]byte{0x02}, c20Bytes("peerA", 32)...) // 33 bytes
	c20PeerB   = append([]byte{0x03}, c20Bytes("peerB", 32)...) // 33 bytes
	c20PeerX   = c20Bytes("peerX", 8)                           // 8 bytes
	c20Peer1X  = append([]byte{1}, c20PeerX...)                 // epoch 1 ++ [1]++x == epoch 257 ++ x
	c20PeerXe  = append(append([]byte{}, c20PeerX...), 0xAA)    // x is a proper prefix
	c20PeerXee = append(append([]byte{}, c20PeerXe...), 0xBB)
	c20PeerKey  = c20Pub(c20Signer("peerkey", 0)) // a genuine public key: its owner may sign alone
	c20PeerLong = c20Bytes("peerLong", 62) // 'r' + epoch(>=1) + 62 + cnt > 64
	c20Peer62   = c20Bytes("peer62", 61)   // 'r' + [1] + 61 + [cnt] = 64: fits for a one-byte epoch only
)

type c20RepRef struct {
	e    *big.Int
	p, v []byte
	id   []byte
	key  []byte // 'r' ++ id ++ cnt
}

type c20RepMon struct {
	h    *c20Hist
	refs []c20RepRef
	cnt  map[string]int
}

func (o c20RepOp) String() string {
	return fmt.Sprintf("reputation.put(alpha=%v, signers=%q, epoch=%s, peer=%s, value=%s)", o.Alpha, o.Who, o.E, Hex(o.P), Hex(o.V))
}

func c20RunRep(run *c20Run, p *c20Pool, hs c20RepHistory, corpus bool) string {
	t := run.t
	v, auth := c20Chain(t, hs.NCmt)
	c := v.Compile("reputation")
	v.E.DeployContract(t, c, []any{false})
	require.Empty(t, v.StorageDump(c.Hash), "reputation: storage not empty after deploy")
	stranger := c20Signer("stranger", 0)
	peerKey := c20Signer("peerkey", 0) // a genuine key usable as peer id
	c20Fund(v, stranger, peerKey)

	h := run.newHist("rep", hs.Name, corpus)
	m := &c20RepMon{h: h, cnt: map[string]int{}}
	for _, pe := range hs.Peers {
		p.Atom(pe)
	}
	var steps []string
	for _, op := range hs.Ops {
		// only the Alphabet account (2n/3+1 of the committee) may put, whoever
		// else signs and whatever key the peer id names
		var sg []neotest.Signer
		switch op.Who {
		case "alpha+stranger":
			sg = []neotest.Signer{stranger, auth.alpha}
		case "major":
			sg = []neotest.Signer{auth.major}
		case "member":
			sg = []neotest.Signer{auth.member}
		case "major+member":
			sg = []neotest.Signer{auth.major, auth.member}
		case "peer":
			sg = []neotest.Signer{peerKey}
		default:
			sg = []neotest.Signer{auth.alpha}
			if !op.Alpha {
				sg = []neotest.Signer{stranger}
			}
		}
		if (op.Who == "member" || op.Who == "major+member") && auth.member == nil {
			sg = []neotest.Signer{stranger}
		}
		op.Alpha = false // from here on: the Alphabet account witnesses the transaction
		for _, x := range sg {
			if x.ScriptHash() == auth.alpha.ScriptHash() {
				op.Alpha = true
			}
		}
		r := v.Invoke(sg, c.Hash, "put", op.E, op.P, op.V)
		h.op("put", op.String(), r.Halt, true)
		m.put(op, r.Halt)

		res := VNull
		if !r.Halt {
			res = VFault
		}
		var lists, gets, byid []string
		for _, e := range hs.Epochs {
			ids, fault, null := c20ReadList(v, c.Hash, "listByEpoch", e)
			require.False(t, fault)
			if null {
				h.note("reputation.listByEpoch returned Null (projected to [])")
			}
			m.checkList(e, ids)
			lists = append(lists, p.BL(ids))
			var row []string
			for _, pe := range hs.Peers {
				q := c20Cat([]byte{'r'}, c20Enc(e), pe)
				vals, fault, _ := c20ReadList(v, c.Hash, "get", e, pe)
				if fault {
					if len(q) <= 64 {
						h.violate(fmt.Sprintf("reputation.get(%s, %s) faulted", e, Hex(pe)))
					}
					h.note("reputation.get faults when 'r'++epoch++peer is longer than 64 bytes (storage.Find key buffer)")
					row = append(row, VFault)
					continue
				}
				m.checkGet(fmt.Sprintf("get(%s, %s)", e, Hex(pe)), q,
					func(rf c20RepRef) bool { return rf.e.Cmp(e) == 0 && bytes.Equal(rf.p, pe) }, vals)
				row = append(row, p.BL(vals))
			}
			gets = append(gets, p.VL(row))
		}
		list0, fault, _ := c20ReadList(v, c.Hash, "listByEpoch", big.NewInt(0))
		require.False(t, fault)
		for _, id := range list0 {
			vals, fault, _ := c20ReadList(v, c.Hash, "getByID", id)
			if fault {
				if len(id) < 64 {
					h.violate(fmt.Sprintf("reputation.getByID(%s) faulted", Hex(id)))
				}
				byid = append(byid, VFault)
				continue
			}
			id := id
			m.checkGet(fmt.Sprintf("getByID(%s)", Hex(id)), c20Cat([]byte{'r'}, id),
				func(rf c20RepRef) bool { return bytes.Equal(rf.id, id) }, vals)
			byid = append(byid, p.BL(vals))
		}
		obs := VList([]string{res, p.VL(lists), p.VL(gets), p.VL(byid)})
		steps = append(steps, fmt.Sprintf("(RPut %s %s %s %s, %s)", BoolLit(op.Alpha), ZLit(op.E), p.Ref(op.P), p.Ref(op.V), p.T(obs)))
	}
	h.finish()
	return fmt.Sprintf("((%s, %s), %s)", c20ZList(hs.Epochs), p.Refs(hs.Peers), ListLit(steps))
}

func (m *c20RepMon) put(op c20RepOp, halt bool) {
	id := c20Cat(c20Enc(op.E), op.P)
	n := m.cnt[string(id)] + 1
	key := c20Cat([]byte{'r'}, id, c20Enc(big.NewInt(int64(n))))
	fits := len(key) <= 64
	switch {
	case halt && !op.Alpha:
		m.h.violate("reputation.put accepted without the committee witness")
	case halt && !fits:
		m.h.violate("reputation.put accepted a storage key longer than 64 bytes")
	case !halt && op.Alpha && fits:
		m.h.violate("reputation.put by the committee refused")
	}
	if halt {
		m.cnt[string(id)] = n
		m.refs = append(m.refs, c20RepRef{e: op.E, p: op.P, v: op.V, id: id, key: key})
	}
}

// checkList: listByEpoch(e) must be the ids put under exactly e.
func (m *c20RepMon) checkList(e *big.Int, got [][]byte) {
	q := c20Cat([]byte{'c'}, c20Enc(e))
	exp := map[string]bool{}
	for _, rf := range m.refs {
		if rf.e.Cmp(e) == 0 {
			exp[string(rf.id)] = true
		}
	}
	seen := map[string]bool{}
	var foreign []string
	for _, id := range got {
		if seen[string(id)] {
			m.h.violate(fmt.Sprintf("reputation.listByEpoch(%s) lists %s twice", e, Hex(id)))
		}
		seen[string(id)] = true
		if exp[string(id)] {
			continue
		}
		ok := false
		for _, rf := range m.refs {
			ck := c20Cat([]byte{'c'}, rf.id)
			if bytes.Equal(rf.id, id) && rf.e.Cmp(e) != 0 && len(ck) > len(q) && bytes.HasPrefix(ck, q) {
				ok = true
				foreign = append(foreign, fmt.Sprintf("%s put under epoch %s", Hex(id), rf.e))
				break
			}
		}
		if !ok {
			m.h.violate(fmt.Sprintf("reputation.listByEpoch(%s) returned %s which was never put", e, Hex(id)))
		}
	}
	for id := range exp {
		if !seen[id] {
			m.h.violate(fmt.Sprintf("reputation.listByEpoch(%s) misses %s", e, Hex([]byte(id))))
		}
	}
	if len(foreign) > 0 {
		m.h.known("C20/reputation.listByEpoch", map[string]any{"query": fmt.Sprintf("listByEpoch(%s)", e),
			"returned": c20HexList(got), "foreign": foreign})
	}
}

// checkGet: a getter with storage prefix q must return the values of the
// entries selected by own (in any order); entries of other (epoch, peer)
// whose storage key extends q are the known signature.
func (m *c20RepMon) checkGet(what string, q []byte, own func(c20RepRef) bool, got [][]byte) {
	var exp, foreign []string
	var fdesc []string
	equalKey := false
	for _, rf := range m.refs {
		if own(rf) {
			exp = append(exp, string(rf.v))
		} else if bytes.HasPrefix(rf.key, q) {
			foreign = append(foreign, string(rf.v))
			fdesc = append(fdesc, fmt.Sprintf("value %s put under (epoch %s, peer %s), storage key %s", Hex(rf.v), rf.e, Hex(rf.p), Hex(rf.key)))
			if len(rf.key) == len(q) {
				equalKey = true
			}
		}
	}
	var g []string
	for _, x := range got {
		g = append(g, string(x))
	}
	extra, missing := c20MultisetDiff(g, exp)
	for _, x := range missing {
		m.h.violate(fmt.Sprintf("reputation.%s misses value %s", what, Hex([]byte(x))))
	}
	un, notShown := c20MultisetDiff(extra, foreign)
	for _, x := range un {
		m.h.violate(fmt.Sprintf("reputation.%s returned value %s which was never put under it", what, Hex([]byte(x))))
	}
	for _, x := range notShown {
		m.h.violate(fmt.Sprintf("reputation.%s does not return value %s although its storage key extends the queried prefix", what, Hex([]byte(x))))
	}
	if len(extra) > 0 && len(un) == 0 {
		m.h.known("C20/reputation.get", map[string]any{"query": what, "returned": c20HexList(got), "foreign": fdesc})
		if equalKey {
			m.h.note("reputation.get: foreign entry whose storage key EQUALS the queried prefix (counter bytes complete the peer id)")
		}
	}
}

func c20RepCorpus() []c20RepHistory {
	E := c20Big
	put := func(e int64, p []byte, v ...byte) c20RepOp { return c20RepOp{Alpha: true, E: E(e), P: p, V: v} }
	bad := func(e int64, p []byte, v ...byte) c20RepOp { return c20RepOp{Alpha: false, E: E(e), P: p, V: v} }
	who := func(w string, e int64, p []byte, v ...byte) c20RepOp { return c20RepOp{Who: w, E: E(e), P: p, V: v} }
	return []c20RepHistory{
		{Name: "F2-listByEpoch-1-257-0", Epochs: []*big.Int{E(1), E(257), E(0), E(256)}, Peers: [][]byte{c20PeerA, c20PeerB},
			Ops: []c20RepOp{put(1, c20PeerA, 0x11), put(257, c20PeerB, 0x22), put(0, c20PeerB, 0x33)}},
		{Name: "F2-get-crafted-peer", Epochs: []*big.Int{E(1), E(257), E(0)}, Peers: [][]byte{c20Peer1X, c20PeerX},
			Ops: []c20RepOp{put(257, c20PeerX, 0x44), put(1, c20Peer1X, 0x55), put(257, c20PeerX, 0x66)}},
		{Name: "peer-prefixes", Epochs: []*big.Int{E(127), E(128), E(0), E(32639)}, Peers: [][]byte{c20PeerX, c20PeerXe, c20PeerXee},
			Ops: []c20RepOp{put(127, c20PeerXe, 1), put(127, c20PeerX, 2), put(127, c20PeerXee, 3), put(127, c20PeerX, 4),
				put(32639, c20PeerX, 5), bad(127, c20PeerX, 6), put(128, c20PeerXe, 7)}},
		{Name: "empty-peer-and-values", Epochs: []*big.Int{E(1), E(257), E(0), E(-1), E(255)}, Peers: [][]byte{{}, c20PeerX},
			Ops: []c20RepOp{put(1, nil, 1), put(257, nil, 2), put(0, nil), put(-1, c20PeerX), put(255, c20PeerX, 9), put(0, c20PeerX, 1, 2, 3)}},
		{Name: "key-limit", Epochs: []*big.Int{E(1), E(256), E(0)}, Peers: [][]byte{c20PeerLong, c20Peer62},
			Ops: []c20RepOp{put(1, c20PeerLong, 1), put(1, c20Peer62, 2), put(256, c20Peer62, 3), put(0, c20Peer62, 4), put(0, c20PeerLong, 5), put(0, c20PeerLong, 6)}},
		{Name: "stranger-only", Epochs: []*big.Int{E(0), E(1)}, Peers: [][]byte{c20PeerA},
			Ops: []c20RepOp{bad(1, c20PeerA, 1), bad(0, c20PeerA, 1)}},
		// who may put: only the Alphabet account, whoever else signs and whichever key the peer id names
		{Name: "signer-sets", Epochs: []*big.Int{E(1), E(0)}, Peers: [][]byte{c20PeerKey, c20PeerA},
			Ops: []c20RepOp{who("peer", 1, c20PeerKey, 1), put(1, c20PeerKey, 2), who("peer", 1, c20PeerKey, 3), who("alpha+stranger", 1, c20PeerA, 4),
				who("major", 1, c20PeerA, 5), bad(1, c20PeerKey, 6)}},
		{Name: "signer-sets-7", NCmt: c20BigCommittee, Epochs: []*big.Int{E(1), E(0)}, Peers: [][]byte{c20PeerKey, c20PeerA},
			Ops: []c20RepOp{who("major", 1, c20PeerA, 1), who("member", 1, c20PeerA, 2), who("major+member", 1, c20PeerA, 3), put(1, c20PeerA, 4),
				who("peer", 1, c20PeerKey, 5), who("major", 1, c20PeerA, 6), who("alpha+stranger", 1, c20PeerKey, 7), bad(1, c20PeerA, 8)}},
		{Name: "all-epochs", Epochs: []*big.Int{E(65535), E(65536), c20Two31, E(-1), E(255)}, Peers: [][]byte{c20PeerA, c20PeerX},
			Ops: []c20RepOp{put(65535, c20PeerA, 1), put(65536, c20PeerA, 2), {Alpha: true, E: c20Two31, P: c20PeerX, V: []byte{3}}, put(-1, c20PeerA, 4),
				put(255, c20PeerA, 5), put(255, c20PeerA, 6), put(-1, c20PeerX, 7)}},
		{Name: "256-65792", Epochs: []*big.Int{E(256), E(65792), E(0), E(65536)}, Peers: [][]byte{c20PeerA, c20PeerB},
			Ops: []c20RepOp{put(65792, c20PeerA, 1), put(256, c20PeerB, 2), put(65536, c20PeerA, 3), put(256, c20PeerA, 4)}},
	}
}

func c20RepRandom(r *rand.Rand, i int) c20RepHistory {
	hs := c20RepHistory{Name: fmt.Sprintf("random-%d", i)}
	hs.Epochs = c20SubPool(r, 4+r.Intn(2))
	all := [][]byte{c20PeerA, c20PeerB, c20PeerX, c20Peer1X, c20PeerXe, {}, c20Peer62, c20PeerKey}
	if i%12 == 5 {
		hs.NCmt = c20BigCommittee
	}
	r.Shuffle(len(all), func(a, b int) { all[a], all[b] = all[b], all[a] })
	hs.Peers = all[:2+r.Intn(2)]
	n := 6 + r.Intn(7)
	for k := 0; k < n; k++ {
		op := c20RepOp{Alpha: r.Intn(8) != 0, E: hs.Epochs[r.Intn(len(hs.Epochs))], P: hs.Peers[r.Intn(len(hs.Peers))]}
		switch r.Intn(6) {
		case 0:
			op.V = nil
		case 1:
			op.V = []byte{byte(k + 1), byte(r.Intn(3))}
		default:
			op.V = []byte{byte(k + 1)}
		}
		if r.Intn(25) == 0 {
			op.P = c20PeerLong
		}
		if r.Intn(6) == 0 { // other signer sets
			ws := []string{"alpha+stranger", "major", "peer"}
			if hs.NCmt > 1 {
				ws = append(ws, "member", "major+member", "major")
			}
			op.Who = ws[r.Intn(len(ws))]
		}
		hs.Ops = append(hs.Ops, op)
	}
	return hs
}

func c20RepFamily(run *c20Run, batch int) {
	p := c20NewPool("Rp")
	var cases []string
	if batch == 0 {
		for _, hs := range c20RepCorpus() {
			cases = append(cases, c20RunRep(run, p, hs, true))
		}
	}
	r := Rng(2001 + int64(batch))
	for i := 0; i < 70; i++ {
		cases = append(cases, c20RunRep(run, p, c20RepRandom(r, batch*1000+i), false))
	}
	f := c20FileName("rep", batch)
	run.sizes[f] = c20WriteCases(run.t, f, "Reputation", "rcheck_case", p, cases)
}

// ===========================================================================
// 3. neofsid

type c20IDOp struct {
	Add   bool
	Alpha bool
	Owner []byte
	Keys  [][]byte
}

type c20IDHistory struct {
	Name   string
	Owners [][]byte
	Ops    []c20IDOp
}

var (
	c20OwnerA  = c20Cat([]byte{0x35}, c20Bytes("ownerA", 24))
	c20OwnerA2 = c20Cat(c20OwnerA[:24], []byte{c20OwnerA[24] ^ 0xFF}) // shares 24 bytes with A
	c20OwnerB  = c20Cat([]byte{0x35}, c20Bytes("ownerB", 24))
	c20Owner24 = c20OwnerA[:24]
	c20Owner26 = c20Cat(c20OwnerA, []byte{7})
	c20KeyA    = c20Cat([]byte{0x02}, c20Bytes("idkeyA", 32))
	c20KeyA2   = c20Cat(c20KeyA[:32], []byte{c20KeyA[32] ^ 0x55}) // shares 32 bytes with A
	c20KeyB    = c20Cat([]byte{0x03}, c20Bytes("idkeyB", 32))
	c20Key32   = c20KeyA[:32]
	c20Key34   = c20Cat(c20KeyA, []byte{1})
)

func (o c20IDOp) String() string {
	n := "neofsid.removeKey"
	if o.Add {
		n = "neofsid.addKey"
	}
	return fmt.Sprintf("%s(alpha=%v, owner=%s, keys=%v)", n, o.Alpha, Hex(o.Owner), c20HexList(o.Keys))
}

func c20RunID(run *c20Run, p *c20Pool, hs c20IDHistory, corpus bool) string {
	t := run.t
	v := NewEnv(t)
	c := v.Compile("neofsid")
	v.E.DeployContract(t, c, []any{false})
	require.Empty(t, v.StorageDump(c.Hash), "neofsid: the deployed contract has storage entries of its own")
	stranger := c20Signer("stranger", 0)
	c20Fund(v, stranger)
	for _, b := range [][]byte{c20OwnerA, c20OwnerA2, c20OwnerB, c20KeyA, c20KeyA2, c20KeyB} {
		p.Atom(b)
	}

	h := run.newHist("id", hs.Name, corpus)
	ref := map[string]map[string]bool{}
	var steps []string
	for _, op := range hs.Ops {
		sg := []neotest.Signer{v.E.Committee}
		if !op.Alpha {
			sg = []neotest.Signer{stranger}
		}
		ks := make([]any, len(op.Keys))
		for i, k := range op.Keys {
			ks[i] = k
		}
		method, kind, cons := "removeKey", "remove", "NRemove"
		if op.Add {
			method, kind, cons = "addKey", "add", "NAdd"
		}
		r := v.Invoke(sg, c.Hash, method, op.Owner, ks)
		h.op(kind, op.String(), r.Halt, true)

		// monitor: authorisation and the reference map
		wellFormed := len(op.Owner) == 25
		for _, k := range op.Keys {
			wellFormed = wellFormed && len(k) == 33
		}
		switch {
		case r.Halt && !op.Alpha:
			h.violate("neofsid." + method + " accepted without the committee witness")
		case r.Halt && !wellFormed:
			h.violate("neofsid." + method + " accepted a malformed owner or key")
		case !r.Halt && op.Alpha && wellFormed:
			h.violate("neofsid." + method + " by the committee refused")
		}
		if r.Halt {
			if ref[string(op.Owner)] == nil {
				ref[string(op.Owner)] = map[string]bool{}
			}
			for _, k := range op.Keys {
				if op.Add {
					ref[string(op.Owner)][string(k)] = true
				} else {
					delete(ref[string(op.Owner)], string(k))
				}
			}
		}
		total := 0
		var holders [][]byte
		for o, ks := range ref {
			total += len(ks)
			if len(ks) > 0 {
				holders = append(holders, []byte(o))
			}
		}
		for i := range holders {
			for j := range holders {
				if i < j && bytes.Equal(holders[i][:20], holders[j][:20]) {
					h.overlap = true
				}
			}
		}

		res := VNull
		if !r.Halt {
			res = VFault
		}
		var per []string
		for _, w := range hs.Owners {
			got, fault, null := c20ReadList(v, c.Hash, "key", w)
			if fault {
				if len(w) == 25 {
					h.violate(fmt.Sprintf("neofsid.key(%s) faulted", Hex(w)))
				}
				per = append(per, VFault)
				continue
			}
			if len(w) != 25 {
				h.violate(fmt.Sprintf("neofsid.key(%s) answered for a malformed owner", Hex(w)))
			}
			if null {
				h.note("neofsid.key returned Null")
			}
			var exp [][]byte
			for k := range ref[string(w)] {
				exp = append(exp, []byte(k))
			}
			exp = c20SortedCopy(exp)
			if fmt.Sprint(c20HexList(exp)) != fmt.Sprint(c20HexList(c20SortedCopy(got))) {
				h.violate(fmt.Sprintf("neofsid.key(%s) returned %v, bound keys are %v", Hex(w), c20HexList(got), c20HexList(exp)))
			}
			per = append(per, p.BL(got))
		}
		dump := v.StorageDump(c.Hash)
		for k := range dump {
			if k[0] != 'o' {
				h.violate("neofsid: storage key outside the 'o' prefix: " + Hex([]byte(k)))
			}
		}
		if len(dump) != total {
			h.violate(fmt.Sprintf("neofsid: %d storage entries for %d bindings", len(dump), total))
		}
		obs := VList([]string{res, p.VL(per), VIntI(int64(len(dump)))})
		steps = append(steps, fmt.Sprintf("(%s %s %s %s, %s)", cons, BoolLit(op.Alpha), p.Ref(op.Owner), p.Refs(op.Keys), p.T(obs)))
	}
	h.finish()
	return fmt.Sprintf("(%s, %s)", p.Refs(hs.Owners), ListLit(steps))
}

func c20IDCorpus() []c20IDHistory {
	add := func(w []byte, ks ...[]byte) c20IDOp { return c20IDOp{Add: true, Alpha: true, Owner: w, Keys: ks} }
	rem := func(w []byte, ks ...[]byte) c20IDOp { return c20IDOp{Add: false, Alpha: true, Owner: w, Keys: ks} }
	stranger := func(o c20IDOp) c20IDOp { o.Alpha = false; return o }
	return []c20IDHistory{
		{Name: "add-remove-readd", Owners: [][]byte{c20OwnerA, c20OwnerB, c20Owner24},
			Ops: []c20IDOp{add(c20OwnerA, c20KeyA, c20KeyB), add(c20OwnerA, c20KeyA), rem(c20OwnerA, c20KeyA), add(c20OwnerA, c20KeyA),
				rem(c20OwnerB, c20KeyA), rem(c20OwnerA, c20KeyA, c20KeyB), rem(c20OwnerA, c20KeyA)}},
		{Name: "shared-prefixes", Owners: [][]byte{c20OwnerA, c20OwnerA2, c20Owner26},
			Ops: []c20IDOp{add(c20OwnerA, c20KeyA), add(c20OwnerA2, c20KeyA2), add(c20OwnerA, c20KeyA2, c20KeyA2), rem(c20OwnerA2, c20KeyA),
				rem(c20OwnerA, c20KeyA), add(c20OwnerA2, c20KeyA, c20KeyB, c20KeyA)}},
		{Name: "wrong-lengths", Owners: [][]byte{c20OwnerA, {}, c20OwnerB},
			Ops: []c20IDOp{add(c20Owner24, c20KeyA), add(c20Owner26, c20KeyA), add(nil, c20KeyA), add(c20OwnerA, c20Key32), add(c20OwnerA, c20KeyA, c20Key34),
				add(c20OwnerA, c20KeyB), rem(c20OwnerA, c20KeyB, c20Key32), rem(c20Owner24, c20KeyB), add(c20OwnerA), rem(c20OwnerA)}},
		{Name: "stranger", Owners: [][]byte{c20OwnerA, c20OwnerB, c20Owner24},
			Ops: []c20IDOp{stranger(add(c20OwnerA, c20KeyA)), add(c20OwnerA, c20KeyA), stranger(rem(c20OwnerA, c20KeyA)), stranger(add(c20OwnerB, c20KeyB)), stranger(add(c20Owner24, c20Key32))}},
	}
}

func c20IDRandom(r *rand.Rand, i int) c20IDHistory {
	hs := c20IDHistory{Name: fmt.Sprintf("random-%d", i)}
	good := [][]byte{c20OwnerA, c20OwnerA2, c20OwnerB}
	badO := [][]byte{c20Owner24, c20Owner26, {}}
	r.Shuffle(len(good), func(a, b int) { good[a], good[b] = good[b], good[a] })
	hs.Owners = append(append([][]byte{}, good[:2+r.Intn(2)]...), badO[r.Intn(3)])
	keys := [][]byte{c20KeyA, c20KeyA2, c20KeyB}
	badK := [][]byte{c20Key32, c20Key34, {}}
	n := 7 + r.Intn(8)
	for k := 0; k < n; k++ {
		op := c20IDOp{Add: r.Intn(5) < 3, Alpha: r.Intn(8) != 0, Owner: hs.Owners[r.Intn(len(hs.Owners)-1)]}
		if r.Intn(12) == 0 {
			op.Owner = badO[r.Intn(3)]
		}
		for j := r.Intn(4); j > 0; j-- {
			op.Keys = append(op.Keys, keys[r.Intn(3)])
		}
		if r.Intn(12) == 0 {
			op.Keys = append(op.Keys, badK[r.Intn(3)])
		}
		hs.Ops = append(hs.Ops, op)
	}
	return hs
}

func c20IDFamily(run *c20Run, batch int) {
	p := c20NewPool("Id")
	var cases []string
	if batch == 0 {
		for _, hs := range c20IDCorpus() {
			cases = append(cases, c20RunID(run, p, hs, true))
		}
	}
	r := Rng(2003 + int64(batch))
	for i := 0; i < 200; i++ {
		cases = append(cases, c20RunID(run, p, c20IDRandom(r, batch*1000+i), false))
	}
	f := c20FileName("id", batch)
	run.sizes[f] = c20WriteCases(run.t, f, "NeoFSID", "ncheck_case", p, cases)
}

// ===========================================================================
// 4. configuration maps of Netmap and NeoFS

// A configuration value as passed to the contract: a byte string (Ty ""), or
// an Integer / Boolean / Null stack item (Ty "int" / "bool" / "null").
type c20CfgVal struct {
	Ty string
	B  []byte
	I  *big.Int
	Bo bool
}

func c20VB(b ...byte) c20CfgVal { return c20CfgVal{B: b} }

// arg is what is handed to neotest; canon is the canonical byte form that a
// reader must get back (byte strings verbatim; Integer = minimal little-endian
// two's complement; Boolean = 01 / 00).
func (x c20CfgVal) arg() any {
	switch x.Ty {
	case "int":
		return x.I
	case "bool":
		return x.Bo
	case "null":
		return nil
	}
	if x.B == nil {
		return []byte{}
	}
	return x.B
}

func (x c20CfgVal) canon() []byte {
	switch x.Ty {
	case "int":
		return c20Enc(x.I)
	case "bool":
		if x.Bo {
			return []byte{1}
		}
		return []byte{0}
	case "null":
		return nil
	}
	return x.B
}

func (x c20CfgVal) coq(p *c20Pool) string {
	switch x.Ty {
	case "int":
		return "(VInt " + ZLit(x.I) + ")"
	case "bool":
		return "(VBool " + BoolLit(x.Bo) + ")"
	case "null":
		return "VNull"
	}
	return "(" + p.VB(x.B) + ")"
}

func (x c20CfgVal) String() string {
	switch x.Ty {
	case "int":
		return "Integer " + x.I.String()
	case "bool":
		return fmt.Sprintf("Boolean %v", x.Bo)
	case "null":
		return "Null"
	}
	return Hex(x.B)
}

type c20CfgOp struct {
	Alpha   bool
	ID, Key []byte
	Val     c20CfgVal
	// notary-disabled NeoFS (history.Votes > 0): the transaction is signed by
	// these keys (indices into the Alphabet list given at deploy; -1 = the
	// stranger); Skip empty blocks are generated before it.
	Voters []int
	Skip   int
}

// c20Tally is the harness's reference of common.Vote / RemoveVotes (the
// mechanics are C17's): ballots in storage order, dropped when older than 20
// blocks at the next vote, closed when the threshold is reached.
type c20Ballot struct {
	id     string
	voters []int
	height int
}
type c20Tally struct {
	ballots   []c20Ballot
	threshold int
}

// vote returns whether this vote completes the tally of id (and closes it).
func (tl *c20Tally) vote(id []byte, k, h int) bool {
	var nb []c20Ballot
	found := -1
	for _, b := range tl.ballots {
		if h-b.height > 20 {
			continue
		}
		if b.id == string(id) {
			for _, x := range b.voters {
				if x == k {
					return len(b.voters) >= tl.threshold // repeated vote: nothing is written
				}
			}
			b = c20Ballot{id: b.id, voters: append(append([]int{}, b.voters...), k), height: h}
			found = len(b.voters)
		}
		nb = append(nb, b)
	}
	if found < 0 {
		nb = append(nb, c20Ballot{id: string(id), voters: []int{k}, height: h})
		found = 1
	}
	tl.ballots = nb
	if found < tl.threshold {
		return false
	}
	for i, b := range tl.ballots { // RemoveVotes: the first ballot with this id
		if b.id == string(id) {
			tl.ballots = append(append([]c20Ballot{}, tl.ballots[:i]...), tl.ballots[i+1:]...)
			break
		}
	}
	return true
}

func (tl *c20Tally) clone() *c20Tally {
	c := &c20Tally{threshold: tl.threshold}
	for _, b := range tl.ballots {
		c.ballots = append(c.ballots, c20Ballot{id: b.id, voters: append([]int{}, b.voters...), height: b.height})
	}
	return c
}

type c20CfgInit struct {
	Key []byte
	Val c20CfgVal
}

type c20CfgHistory struct {
	Name  string
	Votes int // > 0: NeoFS deployed with notaryDisabled and an Alphabet list of that many keys
	NeoFS bool
	Init  []c20CfgInit
	Keys  [][]byte
	Ops   []c20CfgOp
}

var (
	c20CfgKey58 = bytes.Repeat([]byte("k"), 58)
	c20CfgKey59 = bytes.Repeat([]byte("k"), 59)
)

func (o c20CfgOp) String() string {
	if o.Voters != nil {
		return fmt.Sprintf("[+%d blocks] setConfig(voters=%v, id=%s, key=%q, value=%s)", o.Skip, o.Voters, Hex(o.ID), o.Key, o.Val)
	}
	return fmt.Sprintf("setConfig(alpha=%v, id=%s, key=%q, value=%s)", o.Alpha, Hex(o.ID), o.Key, o.Val)
}

// c20Pairs projects listConfig (array of [key, value] structures; Null when empty).
func c20Pairs(t testing.TB, it stackitem.Item) [][2][]byte {
	if c20IsNull(it) {
		return nil
	}
	arr, ok := it.Value().([]stackitem.Item)
	require.True(t, ok)
	var out [][2][]byte
	for _, x := range arr {
		f, ok := x.Value().([]stackitem.Item)
		require.True(t, ok)
		require.Len(t, f, 2)
		k, err := f[0].TryBytes()
		require.NoError(t, err)
		val, err := f[1].TryBytes()
		require.NoError(t, err)
		out = append(out, [2][]byte{k, val})
	}
	return out
}

func c20RunCfg(run *c20Run, p *c20Pool, hs c20CfgHistory, corpus bool) string {
	t := run.t
	v := NewEnv(t)
	var init []any
	for _, kv := range hs.Init {
		init = append(init, kv.Key, kv.Val.arg())
	}
	if init == nil {
		init = []any{}
	}
	var hash util.Uint160
	fam, kd := "cfg.netmap", "CNetmap"
	if hs.NeoFS {
		fam, kd = "cfg.neofs", "CNeoFS"
		c := v.Compile("neofs")
		alphaPubs := []any{c20Pub(c20Signer("alphabet", 0))}
		for i := 1; i < hs.Votes; i++ {
			alphaPubs = append(alphaPubs, c20Pub(c20Signer("alphabet", i)))
		}
		if hs.Votes > 0 {
			fam = "cfg.neofs-votes"
		}
		v.E.DeployContract(t, c, []any{hs.Votes > 0, bytes.Repeat([]byte{0x77}, 20), alphaPubs, init})
		hash = c.Hash
	} else {
		c := v.Compile("netmap")
		v.E.DeployContract(t, c, []any{false, util.Uint160{}, util.Uint160{}, []any{}, init})
		hash = c.Hash
	}
	stranger := c20Signer("stranger", 0)
	c20Fund(v, stranger)
	p.Atom(c20CfgKey58)
	var voters []neotest.Signer
	for i := 0; i < hs.Votes; i++ {
		voters = append(voters, c20Signer("alphabet", i))
	}
	if len(voters) > 0 {
		c20Fund(v, voters...)
	}
	tally := &c20Tally{threshold: hs.Votes*2/3 + 1}

	h := run.newHist(fam, hs.Name, corpus)
	ref := map[string][]byte{}
	for _, kv := range hs.Init {
		ref[string(kv.Key)] = kv.Val.canon()
	}
	// the model state is the storage under "config": nothing else may start with it
	nOther := 0
	for k := range v.StorageDump(hash) {
		if !strings.HasPrefix(k, "config") {
			nOther++
		}
	}
	var steps []string
	for _, op := range hs.Ops {
		fits := len(op.Key)+6 <= 64
		var r Result
		applied := false // this transaction's setConfig takes effect
		coqOp := ""
		if hs.Votes > 0 {
			// notary-disabled NeoFS: one vote of the first Alphabet key (in list
			// order) that witnesses the transaction
			if op.Skip > 0 {
				v.E.GenerateNewBlocks(t, op.Skip)
			}
			var sg []neotest.Signer
			member := -1
			dup := map[int]bool{}
			for _, k := range op.Voters {
				if k < 0 || k >= len(voters) {
					k = -1
				}
				if dup[k] { // an account signs a transaction once
					continue
				}
				dup[k] = true
				if k < 0 {
					sg = append(sg, stranger)
					continue
				}
				sg = append(sg, voters[k])
				if member < 0 || k < member {
					member = k
				}
			}
			if len(sg) == 0 {
				sg = []neotest.Signer{stranger}
			}
			// the value must be a byte string only when the setConfig is executed
			putOK := fits && op.Val.Ty == ""
			next := tally.clone()
			completes := member >= 0 && next.vote(op.ID, member, int(v.BC.BlockHeight())+1)
			r = v.Invoke(sg, hash, "setConfig", op.ID, op.Key, op.Val.arg())
			h.op("setConfig", op.String(), r.Halt, true)
			wantHalt := member >= 0 && (!completes || putOK)
			switch {
			case r.Halt && member < 0:
				h.violate("setConfig (vote) accepted from a key outside the Alphabet list")
			case r.Halt != wantHalt:
				h.violate(fmt.Sprintf("setConfig vote: halted=%v, expected %v (%s)", r.Halt, wantHalt, r.Fault))
			}
			if wantHalt { // a faulting transaction leaves the ballots as they were
				tally = next
				applied = completes
			}
			if applied {
				h.overlap = h.overlap || len(tally.ballots) > 0 // a decision fired while another one is open
			}
			coqOp = fmt.Sprintf("CVote %s %s %s %s %s", BoolLit(member >= 0), BoolLit(completes), p.Ref(op.ID), p.Ref(op.Key), op.Val.coq(p))
		} else {
			sg := []neotest.Signer{v.E.Committee}
			if !op.Alpha {
				sg = []neotest.Signer{stranger}
			}
			r = v.Invoke(sg, hash, "setConfig", op.ID, op.Key, op.Val.arg())
			h.op("setConfig", op.String(), r.Halt, true)
			// NeoFS notifies SetConfig(id, key, val) with val declared ByteArray: an
			// Integer / Boolean value makes runtime.Notify fault there; Netmap stores
			// it in canonical form.  Null makes storage.Put fault in both.
			typeOK := op.Val.Ty == "" || (!hs.NeoFS && op.Val.Ty != "null")
			switch {
			case r.Halt && !op.Alpha:
				h.violate("setConfig accepted without the committee witness")
			case r.Halt && !fits:
				h.violate("setConfig accepted a storage key longer than 64 bytes")
			case r.Halt && !typeOK:
				h.violate("setConfig accepted a " + op.Val.Ty + " value")
			case !r.Halt && op.Alpha && fits && typeOK:
				h.violate("setConfig by the committee refused: " + r.Fault)
			}
			if !r.Halt && op.Alpha && fits && !typeOK {
				h.note("setConfig with an Integer/Boolean value faults in NeoFS (Notify type check), with Null in both (storage.Put)")
			}
			applied = r.Halt
			coqOp = fmt.Sprintf("CSet %s %s %s %s", BoolLit(op.Alpha), p.Ref(op.ID), p.Ref(op.Key), op.Val.coq(p))
		}
		if applied {
			ref[string(op.Key)] = op.Val.canon()
		}
		var ns []string
		nEv := 0
		for _, ev := range r.Events {
			if ev.ScriptHash != hash {
				continue
			}
			nEv++
			items := ev.Item.Value().([]stackitem.Item)
			var f []string
			for _, x := range items {
				f = append(f, p.VB(ItemBytes(x)))
			}
			ns = append(ns, VList(f))
			if ev.Name != "SetConfig" || len(items) != 3 || !bytes.Equal(ItemBytes(items[0]), op.ID) ||
				!bytes.Equal(ItemBytes(items[1]), op.Key) || !bytes.Equal(ItemBytes(items[2]), op.Val.canon()) {
				h.violate("unexpected notification " + ev.Name)
			}
		}
		wantEv := 0
		if hs.NeoFS && r.Halt && applied {
			wantEv = 1
		}
		if nEv != wantEv {
			h.violate(fmt.Sprintf("%d notifications, expected %d", nEv, wantEv))
		}

		res := VNull
		if !r.Halt {
			res = VFault
		}
		var gets []string
		for _, k := range hs.Keys {
			it, err := v.Read(hash, "config", k)
			if err != nil {
				if len(k)+6 <= 64 {
					h.violate(fmt.Sprintf("config(%q) faulted", k))
				}
				h.note("config(key) faults when \"config\"++key is longer than 64 bytes (storage.Get key buffer)")
				gets = append(gets, VFault)
				continue
			}
			want, present := ref[string(k)]
			if c20IsNull(it) {
				if present {
					h.violate(fmt.Sprintf("config(%q) is Null, value %s was set", k, Hex(want)))
				}
				gets = append(gets, VNull)
				continue
			}
			b, err := it.TryBytes()
			require.NoError(t, err)
			if !present || !bytes.Equal(b, want) {
				h.violate(fmt.Sprintf("config(%q) = %s, last value set under exactly this key: %s (present=%v)", k, Hex(b), Hex(want), present))
			}
			if len(b) == 0 {
				h.note("config(key) of a present-but-empty value returns an empty byte string, not Null")
			}
			gets = append(gets, p.VB(b))
		}
		it, err := v.Read(hash, "listConfig")
		require.NoError(t, err)
		if c20IsNull(it) {
			h.note("listConfig returned Null (projected to [])")
		}
		pairs := c20Pairs(t, it)
		var ps []string
		seen := map[string]bool{}
		for i, kv := range pairs {
			ps = append(ps, p.T(VList([]string{p.VB(kv[0]), p.VB(kv[1])})))
			want, present := ref[string(kv[0])]
			if !present || !bytes.Equal(want, kv[1]) || seen[string(kv[0])] {
				h.violate(fmt.Sprintf("listConfig returned (%q, %s) which is not the pair set", kv[0], Hex(kv[1])))
			}
			seen[string(kv[0])] = true
			if i > 0 && bytes.Compare(pairs[i-1][0], kv[0]) >= 0 {
				h.violate("listConfig not in ascending key order")
			}
		}
		if len(pairs) != len(ref) {
			h.violate(fmt.Sprintf("listConfig returned %d pairs, %d keys were set", len(pairs), len(ref)))
		}
		for a := range ref {
			for b := range ref {
				if len(a) < len(b) && strings.HasPrefix(b, a) {
					h.overlap = true
				}
			}
		}
		n := 0
		for k := range v.StorageDump(hash) {
			if !strings.HasPrefix(k, "config") {
				n++
			}
		}
		if n != nOther {
			h.violate("setConfig changed storage outside the config prefix")
		}
		obs := VList([]string{res, p.VL(ns), p.VL(gets), p.VL(ps)})
		steps = append(steps, fmt.Sprintf("(%s, %s)", coqOp, p.T(obs)))
	}
	h.finish()
	var ini []string
	for _, kv := range hs.Init {
		ini = append(ini, fmt.Sprintf("(%s, %s)", p.Ref(kv.Key), p.Ref(kv.Val.canon())))
	}
	return fmt.Sprintf("(%s, %s, %s, %s)", kd, ListLit(ini), p.Refs(hs.Keys), ListLit(steps))
}

// c20CfgLens are the value lengths every configuration store is exercised
// with; c20CfgShape builds a value of length n that is NOT a minimal integer
// encoding whenever n allows it (redundant trailing 00 / ff sign-extension
// bytes, all zero, all ff, led by 80) — a store must return it byte for byte.
var c20CfgLens = []int{0, 1, 2, 3, 4, 5, 6, 7, 8, 9, 16, 32, 33}

const c20CfgShapes = 7

func c20CfgShape(n, shape int, salt string) []byte {
	b := make([]byte, n)
	switch shape {
	case 0: // all zero
	case 1: // all ff
		for i := range b {
			b[i] = 0xff
		}
	case 2: // led by 80, then zeros
		if n > 0 {
			b[0] = 0x80
		}
	case 3: // small number, little-endian, padded with 00 (uint64-style)
		if n > 0 {
			b[0] = 0x10
		}
		if n > 2 {
			b[1] = 0x27
		}
	case 4: // negative number padded with ff
		for i := range b {
			b[i] = 0xff
		}
		if n > 0 {
			b[0] = 0x85
		}
	case 5: // 00 00 10 00 ... (the third byte set, like 1 MiB as uint64 LE)
		if n > 2 {
			b[2] = 0x10
		} else if n > 0 {
			b[n-1] = 0x00
		}
	default: // arbitrary bytes ending in 00 (or in 80 00)
		copy(b, c20Bytes("cfgval-"+salt, n))
		if n > 0 {
			b[n-1] = 0
		}
		if n > 1 {
			b[n-2] = 0x80
		}
	}
	return b
}

func c20CfgCorpus() []c20CfgHistory {
	B := func(s string) []byte { return []byte(s) }
	set := func(k string, v ...byte) c20CfgOp { return c20CfgOp{Alpha: true, ID: []byte{9}, Key: B(k), Val: c20VB(v...)} }
	bad := func(k string, v ...byte) c20CfgOp { return c20CfgOp{Alpha: false, ID: []byte{8}, Key: B(k), Val: c20VB(v...)} }
	ini := func(k string, v ...byte) c20CfgInit { return c20CfgInit{Key: B(k), Val: c20VB(v...)} }
	setI := func(k string, i int64) c20CfgOp {
		return c20CfgOp{Alpha: true, ID: []byte{7}, Key: B(k), Val: c20CfgVal{Ty: "int", I: big.NewInt(i)}}
	}
	setB := func(k string, b bool) c20CfgOp {
		return c20CfgOp{Alpha: true, ID: []byte{6}, Key: B(k), Val: c20CfgVal{Ty: "bool", Bo: b}}
	}
	fee := c20Enc(big.NewInt(100000000))
	var out []c20CfgHistory
	for _, neofs := range []bool{false, true} {
		out = append(out,
			c20CfgHistory{Name: "prefix-keys", NeoFS: neofs, Init: []c20CfgInit{ini("ContainerFee", fee...), ini("ab", 1)},
				Keys: [][]byte{{}, B("a"), B("ab"), B("abc"), B("b"), B("ContainerFee")},
				Ops: []c20CfgOp{set("a", 2), set("abc", 3), set("", 4), set("ab"), set("b", 5, 6), bad("a", 7), set("a", 8), set("ContainerFee", 1), set("abc")}},
			c20CfgHistory{Name: "key-limit", NeoFS: neofs, Init: nil,
				Keys: [][]byte{c20CfgKey58, c20CfgKey59, B("k"), {}},
				Ops: []c20CfgOp{set(string(c20CfgKey59), 1), set(string(c20CfgKey58), 2), set("k", 3), bad(string(c20CfgKey58), 4), set(string(c20CfgKey58)), set(string(c20CfgKey59))}},
			c20CfgHistory{Name: "init-duplicates", NeoFS: neofs, Init: []c20CfgInit{ini("a", 1), ini("a", 2), ini("", 3), ini("z")},
				Keys: [][]byte{B("a"), {}, B("z"), B("y")},
				Ops: []c20CfgOp{bad("y", 1), {Alpha: true, Key: B("z"), Val: c20VB(1)}, set("y"), {Alpha: true, ID: c20Bytes("cfgid", 32), Key: B("a"), Val: c20VB()}}},
			// fixed-width little-endian numbers: 8 bytes with redundant high bytes
			c20CfgHistory{Name: "uint64-values", NeoFS: neofs,
				Init: []c20CfgInit{ini("MaxObjectSize", 0, 0, 16, 0, 0, 0, 0, 0), ini("Zero8", 0, 0, 0, 0, 0, 0, 0, 0)},
				Keys: [][]byte{B("MaxObjectSize"), B("Zero8"), B("Neg8"), B("EpochDuration"), B("Text8")},
				Ops: []c20CfgOp{set("EpochDuration", 240, 0, 0, 0, 0, 0, 0, 0), set("Neg8", 255, 255, 255, 255, 255, 255, 255, 255),
					set("MaxObjectSize", 0, 0, 32, 0, 0, 0, 0, 0), set("Zero8", 0, 0, 0, 0, 0, 0, 0, 0), set("Text8", B("TheValue")...),
					set("Neg8", 0x85, 255, 255, 255, 255, 255, 255, 255), set("EpochDuration", 0, 0, 0, 0, 0, 0, 0, 0x80),
					set("Zero8", 0x80, 0, 0, 0, 0, 0, 0, 0), set("Zero8", 1, 0, 0, 0, 0, 0, 0, 0)}},
			// Integer / Boolean / Null stack items as values (deploy accepts the first two)
			c20CfgHistory{Name: "typed-values", NeoFS: neofs,
				Init: []c20CfgInit{{B("ContainerFee"), c20CfgVal{Ty: "int", I: big.NewInt(123)}}, {B("Flag"), c20CfgVal{Ty: "bool", Bo: true}},
					{B("Off"), c20CfgVal{Ty: "bool"}}, {B("Minus"), c20CfgVal{Ty: "int", I: big.NewInt(-129)}}, {B("Nought"), c20CfgVal{Ty: "int", I: big.NewInt(0)}}},
				Keys: [][]byte{B("ContainerFee"), B("Flag"), B("Off"), B("Minus"), B("Nought"), B("k")},
				Ops: []c20CfgOp{setI("k", 5), set("k", 5, 0), setB("k", true), setB("Flag", false), setI("Minus", -1), setI("Nought", 0),
					{Alpha: true, ID: []byte{5}, Key: B("k"), Val: c20CfgVal{Ty: "null"}}, setI("ContainerFee", 1<<40), set("ContainerFee", 0, 0, 0, 0, 0, 1, 0, 0),
					{Alpha: false, ID: []byte{4}, Key: B("k"), Val: c20CfgVal{Ty: "int", I: big.NewInt(7)}}}},
		)
		// every length, every shape, set and read back
		for shape := 0; shape < c20CfgShapes; shape++ {
			hs := c20CfgHistory{Name: fmt.Sprintf("value-shapes-%d", shape), NeoFS: neofs, Keys: [][]byte{B("v0"), B("v8"), B("v9"), B("v33")}}
			for i, n := range c20CfgLens {
				k := fmt.Sprintf("v%d", n)
				val := c20VB(c20CfgShape(n, shape, k)...)
				if i%2 == 0 {
					hs.Init = append(hs.Init, c20CfgInit{Key: B(k), Val: val})
				}
				hs.Ops = append(hs.Ops, c20CfgOp{Alpha: true, ID: []byte{byte(shape)}, Key: B(k), Val: c20VB(c20CfgShape(n, (shape+1+i)%c20CfgShapes, k)...)})
			}
			hs.Ops = append(hs.Ops, c20CfgOp{Alpha: true, ID: []byte{0xee}, Key: B("v8"), Val: c20VB(c20CfgShape(8, shape, "again")...)})
			out = append(out, hs)
		}
	}
	out = append(out, c20CfgVoteCorpus()...)
	return out
}

// Notary-disabled NeoFS: setConfig(id, key, val) is one vote of an Alphabet
// key; the configuration read back must be the value of the last decision
// whose tally reached 2n/3+1, no more.
func c20CfgVoteCorpus() []c20CfgHistory {
	B := func(s string) []byte { return []byte(s) }
	vt := func(id byte, k string, val string, voters ...int) c20CfgOp {
		return c20CfgOp{ID: []byte{id}, Key: B(k), Val: c20VB(B(val)...), Voters: voters}
	}
	after := func(n int, o c20CfgOp) c20CfgOp { o.Skip = n; return o }
	keys := [][]byte{B("K"), B("L"), B("KL"), {}}
	return []c20CfgHistory{
		// three votes apply (1, K=one), three apply (2, K=two); the fourth node's late vote for 1 opens a
		// fresh ballot and changes nothing; nor do two more repeated votes; a third distinct late vote re-applies
		{Name: "votes-late-after-decision", NeoFS: true, Votes: 4, Keys: keys, Init: []c20CfgInit{{B("K"), c20VB(B("init")...)}},
			Ops: []c20CfgOp{vt(1, "K", "one", 0), vt(1, "K", "one", 1), vt(1, "K", "one", 2), vt(2, "K", "two", 0), vt(2, "K", "two", 1), vt(2, "K", "two", 2),
				vt(1, "K", "one", 3), vt(1, "K", "one", 3), vt(2, "K", "two", 3), vt(1, "K", "one", 0), vt(1, "K", "one", 3), vt(1, "K", "one", 1)}},
		// two decisions open at once on one key and on different keys, interleaved; repeated votes do not count
		{Name: "votes-two-open", NeoFS: true, Votes: 4, Keys: keys,
			Ops: []c20CfgOp{vt(1, "K", "a", 0), vt(2, "K", "b", 1), vt(3, "L", "c", 2), vt(1, "K", "a", 0), vt(2, "K", "b", 0), vt(1, "K", "a", 1), vt(3, "L", "c", 3),
				vt(2, "K", "b", 2), vt(1, "K", "a", 2), vt(3, "L", "c", 3), vt(3, "L", "c", 0), vt(1, "K", "a", 3), vt(2, "K", "b", 3), vt(4, "KL", "d", -1), vt(4, "KL", "d", 3, -1)}},
		// one id, different payloads: the completing invocation's arguments are stored
		{Name: "votes-one-id-many-payloads", NeoFS: true, Votes: 5, Keys: keys,
			Ops: []c20CfgOp{vt(7, "K", "x", 0), vt(7, "L", "y", 1), vt(7, "K", "z", 2), vt(7, "KL", "w", 3), vt(7, "K", "x", 4), vt(7, "K", "x", 0), vt(7, "", "e", 1), vt(7, "L", "y", 2),
				vt(7, "L", "y2", 3)}},
		// ballots expire after 20 blocks without a vote
		{Name: "votes-expiry", NeoFS: true, Votes: 4, Keys: keys,
			Ops: []c20CfgOp{vt(1, "K", "one", 0), vt(1, "K", "one", 1), after(21, vt(1, "K", "one", 2)), vt(1, "K", "one", 0), vt(1, "K", "one", 1),
				vt(2, "L", "two", 0), after(18, vt(2, "L", "two", 1)), after(19, vt(2, "L", "two", 2)), after(25, vt(3, "K", "three", 3)), vt(2, "L", "late", 3)}},
		// several keys witness one transaction (the first of the list votes), strangers, thresholds 1 and 5-of-7
		{Name: "votes-multi-signers", NeoFS: true, Votes: 4, Keys: keys,
			Ops: []c20CfgOp{vt(1, "K", "one", 2, 1), vt(1, "K", "one", 1, 3), vt(1, "K", "one", 3, -1), vt(1, "K", "one", 2), vt(2, "L", "two", -1), vt(2, "L", "two", 0, 1, 2, 3),
				vt(2, "L", "two", 1, 2), vt(2, "L", "two", 3, 2)}},
		{Name: "votes-single-key", NeoFS: true, Votes: 1, Keys: keys,
			Ops: []c20CfgOp{vt(1, "K", "one", 0), vt(1, "K", "two", 0), vt(2, "L", "x", -1), vt(1, "K", "three", 0), vt(3, "", "e", 0)}},
		{Name: "votes-seven-keys", NeoFS: true, Votes: 7, Keys: keys,
			Ops: []c20CfgOp{vt(1, "K", "one", 0), vt(1, "K", "one", 1), vt(1, "K", "one", 2), vt(1, "K", "one", 3), vt(2, "K", "two", 6), vt(1, "K", "one", 4), vt(1, "K", "one", 5),
				vt(1, "K", "one", 6), vt(2, "K", "two", 5), vt(2, "K", "two", 4), vt(2, "K", "two", 3), vt(2, "K", "two", 2), vt(1, "K", "one", 0), vt(2, "K", "two", 1)}},
		// a completing vote whose setConfig cannot be executed faults as a whole: the ballot stays open
		{Name: "votes-failing-completion", NeoFS: true, Votes: 4, Keys: [][]byte{B("K"), c20CfgKey58, c20CfgKey59},
			Ops: []c20CfgOp{{ID: []byte{1}, Key: c20CfgKey59, Val: c20VB(1), Voters: []int{0}}, {ID: []byte{1}, Key: c20CfgKey59, Val: c20VB(1), Voters: []int{1}},
				{ID: []byte{1}, Key: c20CfgKey59, Val: c20VB(1), Voters: []int{2}}, {ID: []byte{1}, Key: c20CfgKey58, Val: c20VB(2), Voters: []int{2}},
				{ID: []byte{2}, Key: B("K"), Val: c20CfgVal{Ty: "int", I: big.NewInt(5)}, Voters: []int{0}}, {ID: []byte{2}, Key: B("K"), Val: c20CfgVal{Ty: "null"}, Voters: []int{1}},
				{ID: []byte{2}, Key: B("K"), Val: c20CfgVal{Ty: "int", I: big.NewInt(5)}, Voters: []int{2}}, {ID: []byte{2}, Key: B("K"), Val: c20VB(5), Voters: []int{2}},
				{ID: []byte{1}, Key: c20CfgKey58, Val: c20VB(3), Voters: []int{3}}}},
	}
}

func c20CfgRandomVotes(r *rand.Rand, i int) c20CfgHistory {
	hs := c20CfgHistory{Name: fmt.Sprintf("random-votes-%d", i), NeoFS: true, Votes: []int{4, 4, 4, 5, 7, 3, 2}[r.Intn(7)]}
	hs.Keys = [][]byte{[]byte("K"), []byte("L"), []byte("KL")}
	if r.Intn(3) == 0 {
		hs.Init = []c20CfgInit{{Key: hs.Keys[r.Intn(3)], Val: c20VB('i')}}
	}
	// a few decisions, each with its own payload; most votes repeat the payload of their id
	type dec struct {
		id, key []byte
		val     c20CfgVal
	}
	var decs []dec
	for d := 0; d < 3+r.Intn(3); d++ {
		decs = append(decs, dec{id: []byte{byte(d + 1)}, key: hs.Keys[r.Intn(3)], val: c20VB(byte('a' + d))})
	}
	n := 10 + r.Intn(12)
	for k := 0; k < n; k++ {
		d := decs[r.Intn(len(decs))]
		if r.Intn(3) != 0 { // concentrate on two decisions so that tallies complete
			d = decs[r.Intn(2)]
		}
		op := c20CfgOp{ID: d.id, Key: d.key, Val: d.val, Voters: []int{r.Intn(hs.Votes)}}
		switch r.Intn(14) {
		case 0:
			op.Voters = []int{-1}
		case 1:
			op.Voters = append(op.Voters, r.Intn(hs.Votes))
		case 2:
			op.Val = c20VB(byte('A' + k)) // same id, another value
		case 3:
			op.Key = hs.Keys[r.Intn(3)] // same id, another key
		case 4:
			op.Skip = []int{1, 5, 19, 20, 21, 30}[r.Intn(6)]
		case 5:
			op.Val = c20CfgRandomVal(r, fmt.Sprintf("v%d-%d", i, k), true)
		}
		hs.Ops = append(hs.Ops, op)
	}
	return hs
}

func c20CfgRandomVal(r *rand.Rand, salt string, typed bool) c20CfgVal {
	if typed && r.Intn(6) == 0 {
		switch r.Intn(4) {
		case 0:
			return c20CfgVal{Ty: "bool", Bo: r.Intn(2) == 0}
		case 1:
			return c20CfgVal{Ty: "null"}
		default:
			is := []int64{0, 1, -1, 127, 128, -128, -129, 255, 256, 100000000, 1 << 40, -(1 << 40)}
			return c20CfgVal{Ty: "int", I: big.NewInt(is[r.Intn(len(is))])}
		}
	}
	if r.Intn(5) == 0 {
		old := [][]byte{{}, {0}, {1}, {1, 2}, []byte("val"), c20Enc(big.NewInt(100000000))}
		return c20VB(old[r.Intn(len(old))]...)
	}
	n := c20CfgLens[r.Intn(len(c20CfgLens))]
	if r.Intn(3) == 0 {
		n = 8
	}
	return c20VB(c20CfgShape(n, r.Intn(c20CfgShapes), salt)...)
}

func c20CfgRandom(r *rand.Rand, i int) c20CfgHistory {
	hs := c20CfgHistory{Name: fmt.Sprintf("random-%d", i), NeoFS: r.Intn(2) == 0}
	names := [][]byte{{}, []byte("a"), []byte("ab"), []byte("abc"), []byte("b"), []byte("ContainerFee"), []byte("ContainerAliasFee"), []byte("Container"),
		c20CfgKey58, c20CfgKey59}
	r.Shuffle(len(names), func(a, b int) { names[a], names[b] = names[b], names[a] })
	hs.Keys = names[:4+r.Intn(3)]
	for k := r.Intn(3); k > 0; k-- {
		key := hs.Keys[r.Intn(len(hs.Keys))]
		val := c20CfgRandomVal(r, fmt.Sprintf("i%d-%d", i, k), true)
		if len(key) <= 58 && val.Ty != "null" {
			hs.Init = append(hs.Init, c20CfgInit{Key: key, Val: val})
		}
	}
	n := 6 + r.Intn(7)
	for k := 0; k < n; k++ {
		hs.Ops = append(hs.Ops, c20CfgOp{Alpha: r.Intn(8) != 0, ID: []byte{byte(k)}, Key: hs.Keys[r.Intn(len(hs.Keys))],
			Val: c20CfgRandomVal(r, fmt.Sprintf("o%d-%d", i, k), true)})
	}
	return hs
}

func c20CfgFamily(run *c20Run, batch int) {
	p := c20NewPool("Cf")
	var cases []string
	if batch == 0 {
		for _, hs := range c20CfgCorpus() {
			cases = append(cases, c20RunCfg(run, p, hs, true))
		}
	}
	r := Rng(2004 + int64(batch))
	for i := 0; i < 130; i++ {
		cases = append(cases, c20RunCfg(run, p, c20CfgRandom(r, batch*1000+i), false))
	}
	for i := 0; i < 40; i++ {
		cases = append(cases, c20RunCfg(run, p, c20CfgRandomVotes(r, batch*1000+i), false))
	}
	f := c20FileName("cfg", batch)
	run.sizes[f] = c20WriteCases(run.t, f, "Config", "ccheck_case", p, cases)
}
