package harness

import (
	"context"
	"encoding/base64"
	"errors"
	"fmt"
	"math/big"
	"math/rand"
	"sort"
	"strings"
	"testing"
	"time"

	"github.com/nspcc-dev/neo-go/pkg/core/transaction"
	"github.com/nspcc-dev/neo-go/pkg/crypto/hash"
	"github.com/nspcc-dev/neo-go/pkg/neorpc"
	"github.com/nspcc-dev/neo-go/pkg/rpcclient/actor"
	"github.com/nspcc-dev/neo-go/pkg/smartcontract"
	"github.com/nspcc-dev/neo-go/pkg/util"
	"github.com/nspcc-dev/neo-go/pkg/vm"
	"github.com/nspcc-dev/neo-go/pkg/vm/opcode"
	"github.com/nspcc-dev/neo-go/pkg/vm/stackitem"
	"github.com/nspcc-dev/neo-go/pkg/wallet"
	"github.com/nspcc-dev/neofs-contract/deploy"
	"github.com/stretchr/testify/require"
)

// ---------------------------------------------------------------------------
// Run 2: the real tick closures driven step by step (a schedule the harness
// chooses), every step written down as a label of Model/DeployProto.v with
// what was observed, so that Coq replays the same schedule in the model.

type c13Step struct {
	Op    string `json:"op"` // tick | restart | block | blocks | garbage
	K     int    `json:"k,omitempty"`
	Hold  []int  `json:"hold,omitempty"`  // block: pooled transaction ids (model numbering) kept out of the block
	Count int    `json:"count,omitempty"` // blocks: how many (each includes everything pooled)
}

type c13Data struct{ Vub, Nonce uint32 }

// c13Attempt is one designation transaction handed to the node.
type c13Attempt struct {
	By      []int  `json:"witness_key_order"` // committee key index of every pushed signature (n: verifies under none)
	AllOwn  bool   `json:"all_signatures_valid_for_this_tx"`
	Verdict string `json:"node"`
}

func (d c13Data) coq() string { return fmt.Sprintf("(%d, %d)", d.Vub, d.Nonce) }

type c13Seq struct {
	t       testing.TB
	x       *c13Net
	n       int
	members map[int]*deploy.VerifNotaryMember
	cancels map[int]context.CancelFunc
	nextID  int
	idOf    map[util.Uint256]int
	pooled  map[int]*transaction.Transaction
	known   []c13Data
	txHash  map[c13Data]util.Uint256
	aux     *c13Chain // harness' own client
	steps   []string
	maxinc  uint32
	h0      uint32
	// statistics
	assembled      int
	accepted       int
	rejected       map[string]int
	stranger       *wallet.Account
	garbageDomains map[int]bool
	attempts       []c13Attempt
	issues         []string // monitor findings on the NNS records (deduplicated)
	sentLog        []string // every transaction handed to the node, with the node's answer
	holdDesignate  bool     // keep designation transactions out of every block
	ticks          int
	strangerTx     map[util.Uint256]bool
}

func newC13Seq(t testing.TB, n int, salt int64, slow int) *c13Seq {
	x := newC13Net(t, n, salt)
	x.slow = slow
	x.fund(500_0000_0000)
	q := &c13Seq{t: t, x: x, n: n, members: map[int]*deploy.VerifNotaryMember{}, cancels: map[int]context.CancelFunc{},
		idOf: map[util.Uint256]int{}, pooled: map[int]*transaction.Transaction{}, txHash: map[c13Data]util.Uint256{},
		rejected: map[string]int{}, strangerTx: map[util.Uint256]bool{}}
	q.stranger = wallet.NewAccountFromPrivateKey(c13Key(salt, 1000))
	gas := x.exec.ValidatorInvoker(x.exec.NativeHash(t, "GasToken"))
	gas.Invoke(t, true, "transfer", x.exec.Validator.ScriptHash(), q.stranger.ScriptHash(), 100_0000_0000, nil)
	x.deployNNS()
	x.mu.Lock()
	x.sent = nil
	x.mu.Unlock()
	q.aux = x.client(-1)
	ver, err := q.aux.GetVersion()
	require.NoError(t, err)
	q.maxinc = ver.Protocol.MaxValidUntilBlockIncrement
	q.h0 = x.bc.BlockHeight()
	return q
}

func (q *c13Seq) learn(d c13Data) {
	for _, k := range q.known {
		if k == d {
			return
		}
	}
	q.known = append(q.known, d)
	tx, err := deploy.VerifMakeUnsignedDesignateCommitteeNotaryTx(q.aux, q.x.accs[0], q.x.committee.Copy(), q.shared(d))
	require.NoError(q.t, err)
	q.txHash[d] = hash.NetSha256(uint32(q.x.bc.GetConfig().Magic), tx)
}

func (q *c13Seq) shared(d c13Data) deploy.VerifSharedTxData {
	return deploy.VerifSharedTxData{Sender: q.x.accs[0].ScriptHash(), ValidUntilBlock: d.Vub, Nonce: d.Nonce}
}

// sigval abstracts a 64-byte signature: (index of the committee key it verifies under, data of the transaction).
func (q *c13Seq) sigval(sig []byte) string {
	for _, d := range q.known {
		h := q.txHash[d]
		for i, k := range q.x.committee {
			if k.Verify(sig, h.BytesBE()) {
				return fmt.Sprintf("(mkSig %d %s)", i, d.coq())
			}
		}
	}
	return fmt.Sprintf("(mkSig %d (0, 0))", q.n) // verifies under no committee key for any known transaction
}

// sigrec abstracts a record of a signature domain.
func (q *c13Seq) sigrec(rec string) string {
	b, err := base64.StdEncoding.DecodeString(rec)
	if err != nil {
		return "(mkRec (0, 0) (mkSig 99 (0, 0)))"
	}
	for _, d := range q.known {
		if ok, sig := q.shared(d).ShiftChecksum(b); ok {
			return fmt.Sprintf("(mkRec %s %s)", d.coq(), q.sigval(sig))
		}
	}
	if len(b) >= 4 {
		b = b[4:]
	}
	return fmt.Sprintf("(mkRec (0, 1) %s)", q.sigval(b))
}

func (q *c13Seq) script(tx *transaction.Transaction) (string, []int) {
	var out []string
	var order []int
	if len(tx.Scripts) < 2 {
		return "[]", nil
	}
	inv := tx.Scripts[1].InvocationScript
	for len(inv) >= 2 && inv[0] == byte(opcode.PUSHDATA1) && len(inv) >= 2+int(inv[1]) {
		sig := inv[2 : 2+int(inv[1])]
		inv = inv[2+int(inv[1]):]
		sv := q.sigval(sig)
		out = append(out, sv)
		var by int
		fmt.Sscanf(sv, "(mkSig %d", &by)
		order = append(order, by)
	}
	return ListLit(out), order
}

// pushes lists the byte-string operands of a call script.
func pushes(script []byte) [][]byte {
	var out [][]byte
	ctx := vm.NewContext(script)
	for ctx.NextIP() < len(script) {
		op, prm, err := ctx.Next()
		if err != nil {
			break
		}
		if op == opcode.PUSHDATA1 || op == opcode.PUSHDATA2 || op == opcode.PUSHDATA4 {
			out = append(out, prm)
		}
	}
	return out
}

// write abstracts a transaction a member sent into a [write] of the model.
func (q *c13Seq) write(tx *transaction.Transaction) (term string, nonce uint32, order []int, kind string) {
	k := c13Classify(tx)
	idx := -1
	isTx := strings.HasPrefix(k.Domain, deploy.VerifDomainDesignateNotaryTx)
	if !isTx {
		fmt.Sscanf(strings.TrimPrefix(k.Domain, "designate-committee-notary-"), "%d", &idx)
	}
	ps := pushes(tx.Script)
	switch k.Kind {
	case "register":
		if isTx {
			return "WRegTx", 0, nil, "register-tx"
		}
		return fmt.Sprintf("(WRegSig %d)", idx), 0, nil, "register-sig"
	case "addRecord", "setRecord":
		require.NotEmpty(q.t, ps)
		rec := string(ps[0])
		c := "Add"
		if k.Kind == "setRecord" {
			c = "Set"
		}
		if isTx {
			sd, err := deploy.VerifDecodeSharedTxData(rec)
			require.NoError(q.t, err)
			d := c13Data{sd.ValidUntilBlock, sd.Nonce}
			q.learn(d)
			return fmt.Sprintf("(W%sTx %s)", c, d.coq()), d.Nonce, nil, strings.ToLower(c) + "-tx"
		}
		return fmt.Sprintf("(W%sSig %d %s)", c, idx, q.sigrec(rec)), 0, nil, strings.ToLower(c) + "-sig"
	case "designate":
		d := c13Data{tx.ValidUntilBlock, tx.Nonce}
		if q.n > 1 {
			q.learn(d)
			s, ord := q.script(tx)
			if len(ord) > 0 {
				ord = ord[1:]
			}
			return fmt.Sprintf("(WDesignate %s %s)", d.coq(), s), 0, ord, "designate"
		}
		return "", 0, nil, "designate-solo"
	}
	q.t.Fatalf("unclassified transaction: %+v", k)
	return
}

// settle waits, after a block, until the members have digested it: nobody
// waits any more for the outcome of a transaction that has been executed (the
// transactionGroupMonitors reset their pending flags when their waiter
// returns; the waiters' subscriptions are tracked by the chain adapter), and
// every monitor has seen the new height. Event-driven; the remaining sleep
// covers the few instructions between a waiter's return and the flag reset
// and grows with the machine's current wake-up latency.
func (q *c13Seq) settle() {
	scale := time.Duration(q.x.slow)
	deadline := time.Now().Add(30 * time.Second * scale)
	for time.Now().Before(deadline) {
		ok := !q.x.awaitedExecuted()
		for _, m := range q.members {
			if m.Height() != q.x.bc.BlockHeight() {
				ok = false
			}
		}
		if ok {
			time.Sleep((3*time.Millisecond + 4*time.Duration(q.x.latency.Load())) * scale)
			return
		}
		time.Sleep(time.Millisecond)
	}
	q.x.waitMu.Lock()
	stuck := fmt.Sprint(len(q.x.waits), " waits:")
	for k, w := range q.x.waits {
		_, h, err := q.x.bc.GetTransaction(w)
		stuck += fmt.Sprintf(" [%s tx=%s in block %d err=%v model id=%d]", k, w.StringLE()[:8], h, err, q.idOf[w])
	}
	q.x.waitMu.Unlock()
	q.t.Fatalf("members did not digest block %d within %v: %s", q.x.bc.BlockHeight(), 30*time.Second*scale, stuck)
}

func (q *c13Seq) designated() bool { return q.x.notaryDesignated() }

// tick runs one real tick of member k.
func (q *c13Seq) tick(k int) {
	if q.designated() {
		return // enableNotary returns before ticking (checkRole)
	}
	m := q.members[k]
	if m == nil {
		ctx, cancel := context.WithCancel(context.Background())
		var err error
		m, err = deploy.VerifNewNotaryMember(ctx, q.x.prm(k))
		require.NoError(q.t, err)
		q.members[k] = m
		q.cancels[k] = cancel
		// a fresh blockchainMonitor holds GetBlockCount() (= height+1) until the
		// first block arrives (util.go:50,68,82); Deploy creates it long before
		// this stage, so let one block pass before the member's first tick
		q.block(nil)
		if q.designated() {
			return
		}
	}
	q.x.mu.Lock()
	start := len(q.x.sent)
	q.x.mu.Unlock()
	m.Tick()
	q.ticks++
	q.x.mu.Lock()
	sent := append([]c13Sent{}, q.x.sent[start:]...)
	q.x.mu.Unlock()
	var evs []string
	var nonce uint32
	var order []int
	for _, s := range sent {
		require.Equal(q.t, k, s.Member)
		if q.n == 1 {
			// single member: the model's data of the designation is (height, nonce label)
			require.NoError(q.t, s.Err)
			id := q.nextID
			q.nextID++
			q.idOf[s.Tx.Hash()] = id
			q.pooled[id] = s.Tx
			evs = append(evs, fmt.Sprintf("ESent %d (WDesignate (%d, 0) [mkSig 0 (%d, 0)])", id, q.x.bc.BlockHeight(), q.x.bc.BlockHeight()))
			continue
		}
		w, nn, ord, kind := q.write(s.Tx)
		if nn != 0 {
			nonce = nn
		}
		if s.Err == nil {
			q.sentLog = append(q.sentLog, fmt.Sprintf("h=%d m%d %s: pooled", s.Height, k, w))
		} else {
			q.sentLog = append(q.sentLog, fmt.Sprintf("h=%d m%d %s: refused: %v", s.Height, k, w, s.Err))
		}
		if kind == "designate" {
			order = ord
			att := c13Attempt{By: append([]int{0}, ord...), AllOwn: true, Verdict: "accepted"}
			own := fmt.Sprintf(" (%d, %d))", s.Tx.ValidUntilBlock, s.Tx.Nonce)
			sl, _ := q.script(s.Tx)
			if strings.Count(sl, own) != len(att.By) {
				att.AllOwn = false
			}
			if s.Err != nil {
				att.Verdict = s.Err.Error()
				if len(att.Verdict) > 90 {
					att.Verdict = att.Verdict[:90]
				}
			}
			q.attempts = append(q.attempts, att)
		}
		if s.Err == nil {
			id := q.nextID
			q.nextID++
			q.idOf[s.Tx.Hash()] = id
			q.pooled[id] = s.Tx
			evs = append(evs, fmt.Sprintf("ESent %d %s", id, w))
			if kind == "designate" {
				q.accepted++
			}
			continue
		}
		if kind != "designate" {
			q.issue(fmt.Sprintf("the node refused a %s transaction of member %d: %v", kind, k, s.Err))
			continue
		}
		v := ""
		switch {
		case errors.Is(s.Err, neorpc.ErrInvalidSignature):
			v = "VInvalidSignature"
		case errors.Is(s.Err, neorpc.ErrVerificationFailed):
			v = "VVerificationFailed"
		case errors.Is(s.Err, neorpc.ErrAlreadyInPool), errors.Is(s.Err, neorpc.ErrAlreadyExists):
			v = "VAlreadyKnown"
		default:
			v = "VVerificationFailed"
			q.issue(fmt.Sprintf("the node refused the designation with an unexpected error: %v", s.Err))
		}
		q.rejected[v]++
		evs = append(evs, fmt.Sprintf("ERejected %s %s", w, v))
	}
	var os []string
	for _, o := range order {
		os = append(os, fmt.Sprint(o))
	}
	ol := "[]"
	if len(os) > 0 {
		ol = "[" + strings.Join(os, ";") + "]%nat"
	}
	q.steps = append(q.steps, fmt.Sprintf("(LTick %d %d %s, %s, None)", k, nonce, ol, ListLit(evs)))
}

func (q *c13Seq) restart(k int) {
	if c := q.cancels[k]; c != nil {
		c()
		q.members[k].Stop()
	}
	delete(q.members, k)
	delete(q.cancels, k)
	q.steps = append(q.steps, fmt.Sprintf("(LRestart %d, [], None)", k))
}

// records reads all TXT records of a domain (nil, false: not registered).
func (q *c13Seq) records(domain string) ([]string, bool) {
	res, err := q.aux.InvokeFunction(q.x.nns, "getRecords", []smartcontract.Parameter{
		{Type: smartcontract.StringType, Value: domain}, {Type: smartcontract.IntegerType, Value: big.NewInt(16)}}, nil)
	require.NoError(q.t, err)
	if res.State != "HALT" {
		return nil, false
	}
	var out []string
	if len(res.Stack) == 1 {
		if arr, ok := res.Stack[0].Value().([]stackitem.Item); ok {
			for _, it := range arr {
				b, err := it.TryBytes()
				require.NoError(q.t, err)
				out = append(out, string(b))
			}
		}
	}
	return out, true
}

func (q *c13Seq) snapshot() string {
	tx := "None"
	if recs, ok := q.records(deploy.VerifDomainDesignateNotaryTx); ok {
		var ds []string
		for _, r := range recs {
			sd, err := deploy.VerifDecodeSharedTxData(r)
			require.NoError(q.t, err)
			d := c13Data{sd.ValidUntilBlock, sd.Nonce}
			q.learn(d)
			ds = append(ds, d.coq())
		}
		tx = "(Some " + ListLit(ds) + ")"
	}
	var sigs []string
	for i := 0; i < q.n; i++ {
		if recs, ok := q.records(deploy.VerifDesignateNotarySignatureDomainForMember(i)); ok {
			if len(recs) > 1 && !q.garbageDomains[i] {
				q.issue(fmt.Sprintf("notary bootstrap: signature domain %d holds %d records — a re-made signature was appended instead of replacing record 0, readers only see the first", i, len(recs)))
			}
			var rs []string
			for _, r := range recs {
				rs = append(rs, q.sigrec(r))
			}
			sigs = append(sigs, fmt.Sprintf("(%d%%nat, %s)", i, ListLit(rs)))
		}
	}
	return fmt.Sprintf("(mkSnap %d %s %s %s)", q.x.bc.BlockHeight(), tx, ListLit(sigs), BoolLit(q.designated()))
}

func (q *c13Seq) issue(what string) {
	for _, i := range q.issues {
		if i == what {
			return
		}
	}
	q.issues = append(q.issues, what)
}

// finalIssues looks at the NNS records of a fair run that did not designate:
// a live signer whose first record is not for the current shared data.
func (q *c13Seq) finalIssues(live []int) {
	txs, ok := q.records(deploy.VerifDomainDesignateNotaryTx)
	if !ok || len(txs) == 0 {
		return
	}
	if len(txs) > 1 {
		q.issue(fmt.Sprintf("notary bootstrap: the shared-data domain holds %d records", len(txs)))
	}
	cur, err := deploy.VerifDecodeSharedTxData(txs[0])
	if err != nil {
		return
	}
	for _, k := range live {
		if k == 0 {
			continue
		}
		recs, ok := q.records(deploy.VerifDesignateNotarySignatureDomainForMember(k))
		if !ok || len(recs) == 0 {
			continue
		}
		b, err := base64.StdEncoding.DecodeString(recs[0])
		if err != nil {
			continue
		}
		if okc, _ := cur.ShiftChecksum(b); !okc {
			q.issue(fmt.Sprintf("notary bootstrap: the first record of signature domain %d is not for the current shared data (vub=%d nonce=%d) although member %d kept ticking", k, cur.ValidUntilBlock, cur.Nonce, k))
		}
	}
}

// block makes one block out of the pooled transactions except the held ones.
func (q *c13Seq) block(hold []int) {
	held := map[int]bool{}
	for _, h := range hold {
		held[h] = true
	}
	var ids []int
	var garbage []*transaction.Transaction
	q.x.mu.Lock()
	for _, tx := range q.x.bc.GetMemPool().GetVerifiedTransactions() {
		if id, ok := q.idOf[tx.Hash()]; ok {
			if !held[id] && !(q.holdDesignate && c13Classify(tx).Kind == "designate") {
				ids = append(ids, id)
			}
		} else if q.strangerTx[tx.Hash()] {
			garbage = append(garbage, tx)
		}
	}
	sort.Ints(ids)
	var txs []*transaction.Transaction
	for _, id := range ids {
		txs = append(txs, q.pooled[id])
	}
	txs = append(txs, garbage...)
	q.x.exec.AddNewBlock(q.t, txs...)
	q.x.mu.Unlock()
	for _, id := range ids {
		q.steps = append(q.steps, fmt.Sprintf("(LLand %d, [], None)", id))
		delete(q.pooled, id)
	}
	q.settle()
	if len(garbage) > 0 {
		// a foreign account changed a signature domain: tell the model the resulting records
		for i := 0; i < q.n; i++ {
			if !q.garbageDomains[i] {
				continue
			}
			recs, ok := q.records(deploy.VerifDesignateNotarySignatureDomainForMember(i))
			if !ok {
				continue
			}
			var rs []string
			for _, r := range recs {
				rs = append(rs, q.sigrec(r))
			}
			q.steps = append(q.steps, fmt.Sprintf("(LGarbage %d %s, [], None)", i, ListLit(rs)))
		}
	}
	q.steps = append(q.steps, fmt.Sprintf("(LBlock, [], Some %s)", q.snapshot()))
}

// quietBlock adds a block with everything pooled and records the labels without a snapshot.
func (q *c13Seq) quietBlock() {
	var ids []int
	q.x.mu.Lock()
	for _, tx := range q.x.bc.GetMemPool().GetVerifiedTransactions() {
		if id, ok := q.idOf[tx.Hash()]; ok {
			ids = append(ids, id)
		}
	}
	sort.Ints(ids)
	var txs []*transaction.Transaction
	for _, id := range ids {
		txs = append(txs, q.pooled[id])
	}
	q.x.exec.AddNewBlock(q.t, txs...)
	q.x.mu.Unlock()
	for _, id := range ids {
		q.steps = append(q.steps, fmt.Sprintf("(LLand %d, [], None)", id))
		delete(q.pooled, id)
	}
	q.steps = append(q.steps, "(LBlock, [], None)")
}

// garbage makes a foreign account register signature domain i (first call)
// or put a record with the current checksum and a foreign signature into it.
func (q *c13Seq) garbage(i int, r *rand.Rand) {
	act, err := actor.NewSimple(q.aux.Internal, q.stranger)
	require.NoError(q.t, err)
	dom := deploy.VerifDesignateNotarySignatureDomainForMember(i)
	var h util.Uint256
	if _, ok := q.records(dom); !ok {
		h, _, err = act.SendCall(q.x.nns, "register", dom, q.stranger.ScriptHash(), "x@y.z", int64(3600), int64(600), int64(315360000), int64(3600))
	} else {
		var d deploy.VerifSharedTxData
		if len(q.known) > 0 {
			d = q.shared(q.known[len(q.known)-1])
		}
		sig := make([]byte, 64)
		r.Read(sig)
		h, _, err = act.SendCall(q.x.nns, "addRecord", dom, int64(16), base64.StdEncoding.EncodeToString(d.UnshiftChecksum(sig)))
	}
	require.NoError(q.t, err)
	q.strangerTx[h] = true
	if q.garbageDomains == nil {
		q.garbageDomains = map[int]bool{}
	}
	q.garbageDomains[i] = true
}

func (q *c13Seq) run(steps []c13Step, r *rand.Rand) {
	for _, s := range steps {
		if q.designated() {
			break
		}
		switch s.Op {
		case "tick":
			q.tick(s.K)
		case "restart":
			q.restart(s.K)
		case "block":
			q.block(s.Hold)
		case "blocks":
			// s.Count-1 blocks without observation (everything pooled goes into the first), then an observed one
			for i := 0; i < s.Count-1 && !q.designated(); i++ {
				q.quietBlock()
			}
			q.block(nil)
		case "garbage":
			q.garbage(s.K, r)
		case "hold-designate":
			q.holdDesignate = true
		}
	}
	for _, c := range q.cancels {
		c()
	}
}

func (q *c13Seq) coq() string {
	return fmt.Sprintf("mkPCase %d %d %d [\n  %s]", q.n, q.maxinc, q.h0, strings.Join(q.steps, ";\n  "))
}
