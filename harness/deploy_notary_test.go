package harness

import (
	"bytes"
	"context"
	"encoding/hex"
	"fmt"
	"go/ast"
	"go/parser"
	"go/printer"
	"go/token"
	"math"
	"os"
	"path/filepath"
	"sort"
	"strings"
	"sync"
	"sync/atomic"
	"testing"
	"time"

	"github.com/nspcc-dev/neo-go/pkg/config"
	"github.com/nspcc-dev/neo-go/pkg/config/netmode"
	"github.com/nspcc-dev/neo-go/pkg/core"
	"github.com/nspcc-dev/neo-go/pkg/core/block"
	"github.com/nspcc-dev/neo-go/pkg/core/native/nativenames"
	"github.com/nspcc-dev/neo-go/pkg/core/native/noderoles"
	"github.com/nspcc-dev/neo-go/pkg/core/state"
	"github.com/nspcc-dev/neo-go/pkg/core/storage"
	"github.com/nspcc-dev/neo-go/pkg/core/transaction"
	"github.com/nspcc-dev/neo-go/pkg/crypto/hash"
	"github.com/nspcc-dev/neo-go/pkg/crypto/keys"
	"github.com/nspcc-dev/neo-go/pkg/encoding/fixedn"
	"github.com/nspcc-dev/neo-go/pkg/neorpc"
	"github.com/nspcc-dev/neo-go/pkg/neorpc/result"
	"github.com/nspcc-dev/neo-go/pkg/neotest"
	"github.com/nspcc-dev/neo-go/pkg/network"
	"github.com/nspcc-dev/neo-go/pkg/network/payload"
	"github.com/nspcc-dev/neo-go/pkg/rpcclient"
	"github.com/nspcc-dev/neo-go/pkg/services/rpcsrv"
	"github.com/nspcc-dev/neo-go/pkg/smartcontract"
	"github.com/nspcc-dev/neo-go/pkg/smartcontract/trigger"
	"github.com/nspcc-dev/neo-go/pkg/util"
	"github.com/nspcc-dev/neo-go/pkg/vm/opcode"
	"github.com/nspcc-dev/neo-go/pkg/wallet"
	"github.com/nspcc-dev/neofs-contract/contracts"
	"github.com/nspcc-dev/neofs-contract/deploy"
	"github.com/stretchr/testify/require"
	"go.uber.org/zap"
	"go.uber.org/zap/zapcore"
)

// ---------------------------------------------------------------------------
// In-process FS chain: neo-go core.Blockchain with a committee of n harness
// keys (all of them validators), the real RPC server (pkg/services/rpcsrv)
// and one in-process RPC client (rpcclient.Internal) per member. Blocks are
// produced by the harness: every verified mempool transaction goes into the
// next block.

const c13BlockMs = 20

type c13Net struct {
	t          testing.TB
	n          int
	bc         *core.Blockchain
	exec       *neotest.Executor
	accs       []*wallet.Account // simple accounts in committee (sorted key) order
	committee  keys.PublicKeys   // sorted, as deploy.Deploy sorts it
	netSrv     *network.Server
	rpc        *rpcsrv.Server
	mu         sync.Mutex
	nns        util.Uint160
	sent       []c13Sent     // every transaction a member handed to SendRawTransaction
	minDeposit map[int]int64 // per member: lowest Notary deposit seen while its Deploy ran (after its first deposit)
	lowStreak  map[int]int   // per member: longest run of blocks with the deposit below the cost of a request
	blockMs    int           // block interval of this chain (config and harness' block producer)
	notaryReqs int           // notary requests members submitted
	clients    []*rpcclient.Internal

	// progress-driven block production (see pace): RPC calls in flight, time of the last one,
	// recent scheduling latency of this process, transactions somebody is still waiting for
	inflight atomic.Int64
	lastAct  atomic.Int64
	latency  atomic.Int64
	slow     int // timing relaxation factor (1: normal; 4: the confirming re-run of a scenario)
	waitMu   sync.Mutex
	waits    map[string]util.Uint256 // "<client>/<subscription id>" -> transaction awaited
	stop     chan struct{}
}

// canary measures how late this process' goroutines are woken up (machine load).
func (x *c13Net) canary() {
	var recent [16]int64
	for i := 0; ; i++ {
		select {
		case <-x.stop:
			return
		default:
		}
		t0 := time.Now()
		time.Sleep(time.Millisecond)
		recent[i%len(recent)] = int64(time.Since(t0) - time.Millisecond)
		var mx int64
		for _, v := range recent {
			mx = max(mx, v)
		}
		x.latency.Store(mx)
	}
}

// pace waits until the next block is due: at least one block interval, and
// then until every member has gone quiet (no RPC call in flight and none for a
// whole polling period plus the current wake-up latency) — the members then
// all wait for a block. Under machine load the chain slows down with the
// members instead of running away from them; budgets are counted in blocks.
func (x *c13Net) pace() {
	base := time.Duration(x.blockMs) * time.Millisecond
	time.Sleep(base)
	deadline := time.Now().Add(150*base + time.Second)
	for time.Now().Before(deadline) {
		quiet := base + 3*time.Duration(x.latency.Load())
		if x.inflight.Load() == 0 && time.Since(time.Unix(0, x.lastAct.Load())) >= quiet {
			return
		}
		time.Sleep(base / 4)
	}
}

// track marks an RPC call of a member.
func (c *c13Chain) track() func() {
	c.net.inflight.Add(1)
	c.net.lastAct.Store(time.Now().UnixNano())
	return func() {
		c.net.lastAct.Store(time.Now().UnixNano())
		c.net.inflight.Add(-1)
	}
}

func (c *c13Chain) InvokeContractVerify(contract util.Uint160, params []smartcontract.Parameter, signers []transaction.Signer, witnesses ...transaction.Witness) (*result.Invoke, error) {
	defer c.track()()
	return c.Internal.InvokeContractVerify(contract, params, signers, witnesses...)
}
func (c *c13Chain) InvokeFunction(contract util.Uint160, operation string, params []smartcontract.Parameter, signers []transaction.Signer) (*result.Invoke, error) {
	defer c.track()()
	return c.Internal.InvokeFunction(contract, operation, params, signers)
}
func (c *c13Chain) InvokeScript(script []byte, signers []transaction.Signer) (*result.Invoke, error) {
	defer c.track()()
	return c.Internal.InvokeScript(script, signers)
}
func (c *c13Chain) CalculateNetworkFee(tx *transaction.Transaction) (int64, error) {
	defer c.track()()
	return c.Internal.CalculateNetworkFee(tx)
}
func (c *c13Chain) GetBlockCount() (uint32, error) {
	defer c.track()()
	return c.Internal.GetBlockCount()
}
func (c *c13Chain) GetVersion() (*result.Version, error) {
	defer c.track()()
	return c.Internal.GetVersion()
}
func (c *c13Chain) GetCommittee() (keys.PublicKeys, error) {
	defer c.track()()
	return c.Internal.GetCommittee()
}
func (c *c13Chain) GetContractStateByID(id int32) (*state.Contract, error) {
	defer c.track()()
	return c.Internal.GetContractStateByID(id)
}
func (c *c13Chain) GetContractStateByHash(h util.Uint160) (*state.Contract, error) {
	defer c.track()()
	return c.Internal.GetContractStateByHash(h)
}
func (c *c13Chain) GetApplicationLog(h util.Uint256, trig *trigger.Type) (*result.ApplicationLog, error) {
	defer c.track()()
	return c.Internal.GetApplicationLog(h, trig)
}

// ReceiveExecutions / Unsubscribe: the transaction waiters (transactionGroupMonitor) are tracked,
// so that the step-by-step driver knows when nobody waits for an executed transaction any more.
func (c *c13Chain) ReceiveExecutions(flt *neorpc.ExecutionFilter, rcvr chan<- *state.AppExecResult) (string, error) {
	defer c.track()()
	id, err := c.Internal.ReceiveExecutions(flt, rcvr)
	if err == nil && flt != nil && flt.Container != nil {
		c.net.waitMu.Lock()
		c.net.waits[fmt.Sprintf("%p/%s", c.Internal, id)] = *flt.Container
		c.net.waitMu.Unlock()
	}
	return id, err
}
func (c *c13Chain) ReceiveHeadersOfAddedBlocks(flt *neorpc.BlockFilter, rcvr chan<- *block.Header) (string, error) {
	defer c.track()()
	return c.Internal.ReceiveHeadersOfAddedBlocks(flt, rcvr)
}
func (c *c13Chain) Unsubscribe(id string) error {
	defer c.track()()
	err := c.Internal.Unsubscribe(id)
	c.net.waitMu.Lock()
	delete(c.net.waits, fmt.Sprintf("%p/%s", c.Internal, id))
	c.net.waitMu.Unlock()
	return err
}

// awaitedExecuted reports whether some member still waits for the outcome of a
// transaction that is already in a block.
func (x *c13Net) awaitedExecuted() bool {
	x.waitMu.Lock()
	defer x.waitMu.Unlock()
	for _, w := range x.waits {
		if _, h, err := x.bc.GetTransaction(w); err == nil && h != math.MaxUint32 { // MaxUint32: still pooled
			return true
		}
	}
	return false
}

type c13Sent struct {
	Member int
	Height uint32 // chain height when sent
	Tx     *transaction.Transaction
	Err    error
}

func c13Key(salt int64, i int) *keys.PrivateKey {
	r := Rng(salt*131 + int64(i))
	for {
		b := make([]byte, 32)
		r.Read(b)
		if k, err := keys.NewPrivateKeyFromBytes(b); err == nil {
			return k
		}
	}
}

func newC13Net(t testing.TB, n int, salt int64) *c13Net { return newC13NetMs(t, n, salt, c13BlockMs) }

// newC13NetMs: the same chain with another block interval.
func newC13NetMs(t testing.TB, n int, salt int64, blockMs int) *c13Net {
	x := &c13Net{t: t, n: n, blockMs: blockMs, slow: 1, waits: map[string]util.Uint256{}, stop: make(chan struct{})}
	x.lastAct.Store(time.Now().UnixNano())
	go x.canary()
	t.Cleanup(func() {
		select {
		case <-x.stop:
		default:
			close(x.stop)
		}
	})
	for i := 0; i < n; i++ {
		x.accs = append(x.accs, wallet.NewAccountFromPrivateKey(c13Key(salt, i)))
	}
	sort.Slice(x.accs, func(i, j int) bool { return x.accs[i].PublicKey().Cmp(x.accs[j].PublicKey()) < 0 })
	var standby []string
	for _, a := range x.accs {
		x.committee = append(x.committee, a.PublicKey())
	}
	// the configured order is deliberately not the sorted one (Deploy sorts)
	for i := range x.accs {
		standby = append(standby, hex.EncodeToString(x.accs[(i+1)%n].PublicKey().Bytes()))
	}
	cfg := config.Blockchain{ProtocolConfiguration: config.ProtocolConfiguration{
		Magic:              netmode.UnitTestNet,
		MaxTraceableBlocks: 200000,
		TimePerBlock:       time.Duration(blockMs) * time.Millisecond,
		StandbyCommittee:   standby,
		ValidatorsCount:    uint32(n),
		VerifyTransactions: true,
		P2PSigExtensions:   true,
	}}
	var err error
	x.bc, err = core.NewBlockchain(storage.NewMemoryStore(), cfg, zap.NewNop())
	require.NoError(t, err)
	go x.bc.Run()
	t.Cleanup(x.bc.Close)

	// validators' and committee multi-signature signers for the harness' own transactions
	mk := func(m int) neotest.Signer {
		var as []*wallet.Account
		for _, a := range x.accs {
			ma := wallet.NewAccountFromPrivateKey(a.PrivateKey())
			require.NoError(t, ma.ConvertMultisig(m, x.committee.Copy()))
			as = append(as, ma)
		}
		return neotest.NewMultiSigner(as...)
	}
	x.exec = neotest.NewExecutor(t, x.bc, mk(smartcontract.GetDefaultHonestNodeCount(n)), mk(smartcontract.GetMajorityHonestNodeCount(n)))

	srvCfg, err := network.NewServerConfig(config.Config{ProtocolConfiguration: cfg.ProtocolConfiguration})
	require.NoError(t, err)
	srvCfg.Addresses = []config.AnnounceableAddress{{Address: "127.0.0.1:0"}}
	srvCfg.ProtoTickInterval = time.Minute // zero would spin
	srvCfg.PingInterval = time.Minute
	srvCfg.PingTimeout = time.Minute
	srvCfg.DialTimeout = time.Second
	srvCfg.MinPeers = 0
	x.netSrv, err = network.NewServer(srvCfg, x.bc, x.bc.GetStateSyncModule(), zap.NewNop())
	require.NoError(t, err)
	x.netSrv.Start()
	t.Cleanup(x.netSrv.Shutdown)
	errCh := make(chan error, 8)
	x.rpc = rpcsrv.New(x.bc, config.RPC{
		BasicService:           config.BasicService{Enabled: true},
		MaxGasInvoke:           fixedn.Fixed8FromInt64(100),
		MaxIteratorResultItems: 100, MaxFindResultItems: 100, MaxFindStorageResultItems: 100, MaxNEP11Tokens: 100,
		MaxWebSocketClients: 64,
	}, x.netSrv, nil, zap.NewNop(), errCh)
	x.rpc.Start()
	t.Cleanup(x.rpc.Shutdown)

	return x
}

// close stops the servers and the chain of a finished run.
func (x *c13Net) close() {
	x.mu.Lock()
	cl := x.clients
	x.clients = nil
	x.mu.Unlock()
	_ = cl
	select {
	case <-x.stop:
	default:
		close(x.stop)
	}
	// the servers are shut down by the test's cleanup: members cancelled a moment ago may still be inside an RPC call
}

// logger returns a logger recording the deploy package's messages, tagged with the member index.
func (x *c13Net) logger(member int) *zap.Logger {
	if os.Getenv("VERIF_C13_LOG") != "" {
		enc := zapcore.NewConsoleEncoder(zapcore.EncoderConfig{MessageKey: "m", LevelKey: "l", EncodeLevel: zapcore.LowercaseLevelEncoder})
		c := zapcore.NewCore(enc, zapcore.AddSync(os.Stderr), zapcore.InfoLevel)
		return zap.New(c).With(zap.Int("member", member), zap.Uint32("h", x.bc.BlockHeight()))
	}
	return zap.NewNop()
}

// c13Chain implements deploy.Blockchain over one in-process RPC client.
type c13Chain struct {
	*rpcclient.Internal
	net    *c13Net
	member int
}

func (x *c13Net) client(member int) *c13Chain {
	c, err := rpcclient.NewInternal(context.Background(), x.rpc.RegisterLocal)
	require.NoError(x.t, err)
	require.NoError(x.t, c.Init())
	x.mu.Lock()
	x.clients = append(x.clients, c)
	x.mu.Unlock()
	return &c13Chain{Internal: c, net: x, member: member}
}

func (c *c13Chain) SubscribeToNewBlocks() (<-chan *block.Block, error) {
	ch := make(chan *block.Block, 1024)
	_, err := c.ReceiveBlocks(nil, ch)
	return ch, err
}

func (c *c13Chain) SubscribeToNotaryRequests() (<-chan *result.NotaryRequestEvent, error) {
	ch := make(chan *result.NotaryRequestEvent, 1024)
	_, err := c.ReceiveNotaryRequests(nil, ch)
	return ch, err
}

func (c *c13Chain) SendRawTransaction(tx *transaction.Transaction) (util.Uint256, error) {
	defer c.track()()
	h, err := c.Internal.SendRawTransaction(tx)
	c.net.mu.Lock()
	c.net.sent = append(c.net.sent, c13Sent{Member: c.member, Height: c.net.bc.BlockHeight(), Tx: tx, Err: err})
	c.net.mu.Unlock()
	return h, err
}

func (c *c13Chain) SubmitP2PNotaryRequest(req *payload.P2PNotaryRequest) (util.Uint256, error) {
	defer c.track()()
	c.net.mu.Lock()
	c.net.notaryReqs++
	c.net.mu.Unlock()
	return c.Internal.SubmitP2PNotaryRequest(req)
}

var _ deploy.Blockchain = (*c13Chain)(nil)

// addBlock puts every verified mempool transaction into a new block.
func (x *c13Net) addBlock() *block.Block {
	x.mu.Lock()
	defer x.mu.Unlock()
	var txs []*transaction.Transaction
	for _, it := range x.bc.GetMemPool().GetVerifiedTransactions() {
		txs = append(txs, it)
	}
	return x.exec.AddNewBlock(x.t, txs...)
}

// fund gives every member's simple account GAS from the validators' genesis funds.
func (x *c13Net) fund(amount int64) {
	gas := x.exec.ValidatorInvoker(x.exec.NativeHash(x.t, nativenames.Gas))
	for _, a := range x.accs {
		gas.Invoke(x.t, true, "transfer", x.exec.Validator.ScriptHash(), a.ScriptHash(), amount, nil)
	}
}

// deployNNS runs the real initNNSContract of the leader (member 0) with
// harness-driven block production.
func (x *c13Net) deployNNS() {
	fs, err := contracts.GetFS()
	require.NoError(x.t, err)
	ctx, cancel := context.WithTimeout(context.Background(), 20*time.Second)
	defer cancel()
	done := make(chan error, 1)
	cl := x.client(0)
	go func() {
		h, err := deploy.VerifInitNNSContract(ctx, x.logger(0), cl, x.accs[0], fs[0].NEF, fs[0].Manifest, "nonexistent@nspcc.io", true)
		x.nns = h
		done <- err
	}()
	for {
		select {
		case err := <-done:
			require.NoError(x.t, err)
			return
		default:
			x.pace()
			x.addBlock()
		}
	}
}

func (x *c13Net) prm(member int) deploy.VerifNotaryPrm {
	return deploy.VerifNotaryPrm{
		Logger: x.logger(member), Blockchain: x.client(member), NNSOnChainAddress: x.nns,
		SystemEmail: "nonexistent@nspcc.io", Committee: x.committee.Copy(), LocalAcc: x.accs[member],
		LocalAccCommitteeIndex: member,
	}
}

// notaryDesignated reports whether P2PNotary is designated to exactly the committee.
func (x *c13Net) notaryDesignated() bool {
	ks, _, err := x.bc.GetDesignatedByRole(noderoles.P2PNotary)
	if err != nil || len(ks) != x.n {
		return false
	}
	for _, k := range x.committee {
		if !ks.Contains(k) {
			return false
		}
	}
	return true
}

// ---------------------------------------------------------------------------
// Classification of what members sent.

type c13TxKind struct {
	Kind   string // register | addRecord | setRecord | designate | other
	Domain string
}

func c13Classify(tx *transaction.Transaction) c13TxKind {
	s := tx.Script
	dom := ""
	if i := bytes.Index(s, []byte("designate-committee-notary-")); i >= 0 {
		j := i
		for j < len(s) && (s[j] == '-' || s[j] == '.' || (s[j] >= '0' && s[j] <= '9') || (s[j] >= 'a' && s[j] <= 'z')) {
			j++
		}
		dom = string(s[i:j])
	}
	for _, k := range []string{"register", "addRecord", "setRecord", "designateAsRole", "deploy"} {
		if bytes.Contains(s, []byte(k)) {
			if k == "designateAsRole" {
				k = "designate"
			}
			return c13TxKind{Kind: k, Domain: dom}
		}
	}
	return c13TxKind{Kind: "other", Domain: dom}
}

// c13WitnessSigners parses a multi-signature invocation script (a sequence of
// PUSHDATA1 <64 bytes>) and returns, for each pushed signature, the index of
// the committee key that verifies it over the transaction (-1: none).
func (x *c13Net) witnessSigners(tx *transaction.Transaction, inv []byte) []int {
	var out []int
	h := hash.NetSha256(uint32(x.bc.GetConfig().Magic), tx)
	for len(inv) >= 2 && inv[0] == byte(opcode.PUSHDATA1) {
		l := int(inv[1])
		if len(inv) < 2+l {
			break
		}
		sig := inv[2 : 2+l]
		inv = inv[2+l:]
		who := -1
		for i, k := range x.committee {
			if k.Verify(sig, h.BytesBE()) {
				who = i
			}
		}
		out = append(out, who)
	}
	return out
}

// ---------------------------------------------------------------------------
// Run 1: the real enableNotary loops, one goroutine per live member, and a
// block producer; bounded by a block budget.

type c13Run struct {
	N        int            `json:"n"`
	Live     []int          `json:"live"`
	Mode     string         `json:"mode"`
	Budget   int            `json:"block_budget"`
	Blocks   int            `json:"blocks_used"`
	Done     bool           `json:"designated"`
	Returned []int          `json:"members_returned"`
	Sent     map[string]int `json:"sent"`
	// designate transactions handed to the node: signer key indices in witness order, accepted or not
	Designate []c13Designate `json:"designate_attempts"`
	Trace     []string       `json:"trace,omitempty"`
}

type c13Designate struct {
	Order    []int  `json:"witness_key_order"`
	Accepted bool   `json:"accepted"`
	Err      string `json:"err,omitempty"`
	Height   uint32 `json:"height"`
}

func (x *c13Net) summarize(run *c13Run) {
	run.Sent = map[string]int{}
	for _, s := range x.sent {
		k := c13Classify(s.Tx)
		if k.Kind == "deploy" {
			continue
		}
		key := fmt.Sprintf("m%d:%s:%s", s.Member, k.Kind, strings.TrimSuffix(strings.TrimPrefix(k.Domain, "designate-committee-notary-"), ".bootstrap"))
		if s.Err != nil {
			key += ":rejected"
		}
		run.Sent[key]++
		if k.Kind == "designate" {
			d := c13Designate{Accepted: s.Err == nil, Height: s.Height}
			if s.Err != nil {
				d.Err = s.Err.Error()
				if len(d.Err) > 160 {
					d.Err = d.Err[:160]
				}
			}
			if len(s.Tx.Scripts) > 1 {
				d.Order = x.witnessSigners(s.Tx, s.Tx.Scripts[1].InvocationScript)
			}
			run.Designate = append(run.Designate, d)
		}
	}
}

func c13RunConcurrent(t testing.TB, n int, live []int, budget int, salt int64, slow int) *c13Run {
	x := newC13NetMs(t, n, salt, c13BlockMs*slow)
	x.slow = slow
	x.fund(200_0000_0000)
	x.deployNNS()
	x.sent = nil
	run := &c13Run{N: n, Live: live, Mode: "concurrent real enableNotary loops", Budget: budget}
	ctx, cancel := context.WithCancel(context.Background())
	defer cancel()
	var mu sync.Mutex
	var wg sync.WaitGroup
	for _, m := range live {
		wg.Add(1)
		prm := x.prm(m)
		go func(m int) {
			defer wg.Done()
			err := deploy.VerifEnableNotary(ctx, prm)
			if err == nil {
				mu.Lock()
				run.Returned = append(run.Returned, m)
				mu.Unlock()
			}
		}(m)
	}
	allBack := make(chan struct{})
	go func() { wg.Wait(); close(allBack) }()
	start := x.bc.BlockHeight()
loop:
	for int(x.bc.BlockHeight()-start) < budget {
		select {
		case <-allBack:
			break loop
		default:
			x.pace()
			x.addBlock()
		}
	}
	run.Blocks = int(x.bc.BlockHeight() - start)
	run.Done = x.notaryDesignated()
	cancel()
	select {
	case <-allBack:
	case <-time.After(2 * time.Second):
	}
	sort.Ints(run.Returned)
	x.mu.Lock()
	x.summarize(run)
	x.mu.Unlock()
	x.close()
	return run
}

// c13Variant is the reading of deploy/notary.go the model is run with
// (Model/DeployProto.v, [variant]): as_repaired describes the working tree
// since fix commits 70faaf5/d247004; as_pinned the code before them.
func c13Variant() string { return envOr("VERIF_C13_VARIANT", "as_repaired") }

// c13SourceFacts walks deploy/notary.go with go/ast and returns, as a Coq
// term, the index expressions the model depends on: the leader's collection
// loop (first index, number of indices, key used for verification and for the
// map) and the signature assembly loop (map range or sorted indices), plus
// the signer's domain index. A source edit to those loops changes these
// facts and breaks the correspondence before any schedule exhibits it.
func c13SourceFacts(t testing.TB) (coq string, human map[string]any) {
	fset := token.NewFileSet()
	file := filepath.Join(RepoDir, "deploy", "notary.go")
	f, err := parser.ParseFile(fset, file, nil, 0)
	require.NoError(t, err)
	src := func(n ast.Node) string {
		if n == nil {
			return "_"
		}
		var sb strings.Builder
		require.NoError(t, printer.Fprint(&sb, fset, n))
		return sb.String()
	}
	flat := func(n ast.Node) string { return strings.Join(strings.Fields(src(n)), " ") }
	calls := func(n ast.Node, fn string, arg string) bool { // contains a call fn(arg)
		found := false
		ast.Inspect(n, func(x ast.Node) bool {
			if c, ok := x.(*ast.CallExpr); ok && src(c.Fun) == fn && len(c.Args) >= 1 && src(c.Args[0]) == arg {
				found = true
			}
			return !found
		})
		return found
	}
	contains := func(n ast.Node, text string) bool { return strings.Contains(flat(n), text) }
	line := func(n ast.Node) string { return fmt.Sprintf(" (notary.go:%d)", fset.Position(n.Pos()).Line) }
	first, countOff, sorted := -1, -1, -1
	verifyOwn, keyOwn, signerOwn := false, false, false
	human = map[string]any{"file": file}
	for _, d := range f.Decls {
		fd, ok := d.(*ast.FuncDecl)
		if !ok {
			continue
		}
		switch fd.Name.Name {
		case "initDesignateNotaryRoleAsLeaderTick":
			ast.Inspect(fd, func(x ast.Node) bool {
				switch st := x.(type) {
				case *ast.RangeStmt:
					if k, ok := st.Key.(*ast.Ident); ok && calls(st.Body, "designateNotarySignatureDomainForMember", k.Name) {
						// for i := range prm.committee[a:]  -> i = 0 .. n-a-1
						human["leader_loop"] = "for " + src(st.Key) + " := range " + src(st.X) + line(st)
						if se, ok := st.X.(*ast.SliceExpr); ok && src(se.X) == "prm.committee" && se.High == nil && se.Low != nil {
							if _, err := fmt.Sscan(src(se.Low), &countOff); err == nil {
								first = 0
							}
						} else if src(st.X) == "prm.committee" {
							first, countOff = 0, 0
						}
						verifyOwn = contains(st.Body, "prm.committee["+k.Name+"].VerifyHashable(")
						keyOwn = contains(st.Body, "mCommitteeIndexToSignature["+k.Name+"] = ")
					}
					if contains(st.Body, "buf[0] = byte(opcode.PUSHDATA1)") {
						human["assembly_loop"] = "for " + src(st.Key) + ", " + src(st.Value) + " := range " + src(st.X) + line(st)
						switch {
						case src(st.X) == "mCommitteeIndexToSignature":
							sorted = 0 // Go map range: unspecified order
						case st.Value != nil && contains(fd, "slices.Sort("+src(st.X)+")") &&
							contains(st.Body, ":= mCommitteeIndexToSignature["+src(st.Value)+"]") &&
							contains(fd, "range mCommitteeIndexToSignature { "+src(st.X)+" = append("+src(st.X)+", "):
							sorted = 1 // the keys of the map, sorted, then looked up
						}
					}
				case *ast.ForStmt:
					as, ok := st.Init.(*ast.AssignStmt)
					if !ok || len(as.Lhs) != 1 || len(as.Rhs) != 1 {
						return true
					}
					k := src(as.Lhs[0])
					if calls(st.Body, "designateNotarySignatureDomainForMember", k) {
						// for i := a; i < len(prm.committee); i++  -> i = a .. n-1
						human["leader_loop"] = "for " + src(st.Init) + "; " + src(st.Cond) + "; " + src(st.Post) + line(st)
						if src(st.Cond) == k+" < len(prm.committee)" && src(st.Post) == k+"++" {
							if _, err := fmt.Sscan(src(as.Rhs[0]), &first); err == nil {
								countOff = first
							}
						}
						verifyOwn = contains(st.Body, "prm.committee["+k+"].VerifyHashable(")
						keyOwn = contains(st.Body, "mCommitteeIndexToSignature["+k+"] = ")
					}
				}
				return true
			})
		case "initDesignateNotaryRoleAsSignerTick":
			signerOwn = contains(fd, "domain := designateNotarySignatureDomainForMember(prm.localAccCommitteeIndex)")
		}
	}
	if first < 0 || countOff < 0 || sorted < 0 {
		// not one of the loop shapes the model has a variant for: the source facts disagree with every variant
		human["recognised"] = false
		if first < 0 {
			first = 99
		}
		if countOff < 0 {
			countOff = 99
		}
	}
	human["first_index"], human["indices_visited"], human["assembly_sorted"] = first, fmt.Sprintf("n-%d", countOff), sorted == 1
	human["verifies_domain_i_with_committee_i"], human["map_key_is_i"], human["signer_writes_own_index"] = verifyOwn, keyOwn, signerOwn
	coq = fmt.Sprintf("check_src %s (mkVariant %d %s) %d %s %s %s", c13Variant(), first, BoolLit(sorted == 1), countOff,
		BoolLit(verifyOwn), BoolLit(keyOwn), BoolLit(signerOwn))
	return coq, human
}

func c13HasLeader(live []int) bool {
	for _, m := range live {
		if m == 0 {
			return true
		}
	}
	return false
}

// c13Judge is the Go monitor of the bootstrap property on one observed run:
// every designation the leader handed to the node must be accepted (right
// number of signatures, each valid for this transaction, in key order), and a
// fair run with a live majority that includes the leader must designate the
// Notary role within its budget. Every violation carries the schedule.
func c13Judge(c *c13, name string, n int, live []int, fair bool, designated bool, attempts []c13Attempt, issues []string, replay any) string {
	m := smartcontract.GetMajorityHonestNodeCount(n)
	reported := map[string]bool{}
	report := func(what string) {
		if !reported[what] {
			reported[what] = true
			c.violation(what+" — "+name, replay)
		}
	}
	for _, is := range issues {
		report(is)
	}
	for _, a := range attempts {
		seen := map[int]bool{}
		bad := ""
		if n > 1 && len(a.By) != m {
			bad = fmt.Sprintf("%d signatures for a %d-of-%d committee", len(a.By), m, n)
		}
		for _, b := range a.By {
			if b >= n || b < 0 {
				bad = "a signature that verifies under no committee key"
			}
			if seen[b] {
				bad = "two signatures of one member"
			}
			seen[b] = true
		}
		if n > 1 && !a.AllOwn && bad == "" {
			bad = "a signature made for another transaction"
		}
		if bad == "" && !sort.IntsAreSorted(a.By) {
			bad = "valid signatures out of key order"
		}
		benign := strings.Contains(a.Verdict, "already") || strings.Contains(a.Verdict, "-503") || strings.Contains(a.Verdict, "-501")
		switch {
		case bad != "":
			c.st.OutcomeHistogram["bootstrap-attempt:malformed-witness"]++
			report("notary bootstrap: the leader assembled a witness with " + bad + " (node: " + a.Verdict + ")")
		case a.Verdict == "accepted":
			c.st.OutcomeHistogram["bootstrap-attempt:accepted"]++
		case benign:
			c.st.OutcomeHistogram["bootstrap-attempt:resent"]++
		default:
			c.st.OutcomeHistogram["bootstrap-attempt:refused"]++
			report("notary bootstrap: the node refused the witness assembled by the leader: " + a.Verdict)
		}
	}
	switch {
	case designated:
		return "designated"
	case !fair || !c13HasLeader(live) || len(live) < m:
		return "not-designated(no live majority with leader, or unfair schedule)"
	}
	report(fmt.Sprintf("notary bootstrap: a fair run with a live majority that includes the leader (n=%d, live=%v) did not designate the Notary role within its budget", n, live))
	return "stuck"
}

func c13Bootstrap(c *c13) (string, string) {
	r := Rng(1302)
	thorough := Tier() == "thorough"
	all := func(n int) []int {
		var l []int
		for i := 0; i < n; i++ {
			l = append(l, i)
		}
		return l
	}
	rounds := func(live []int, k int) []c13Step {
		var st []c13Step
		for i := 0; i < k; i++ {
			for _, m := range live {
				st = append(st, c13Step{Op: "tick", K: m})
			}
			st = append(st, c13Step{Op: "block"})
		}
		return st
	}
	cat := func(xs ...[]c13Step) []c13Step {
		var out []c13Step
		for _, x := range xs {
			out = append(out, x...)
		}
		return out
	}
	tick := func(k int) c13Step { return c13Step{Op: "tick", K: k} }
	blk := func(hold ...int) c13Step { return c13Step{Op: "block", Hold: hold} }
	type scen struct {
		name  string
		n     int
		live  []int
		fair  bool
		steps []c13Step
	}
	fairRun := func(n int, live []int, k int) scen {
		return scen{fmt.Sprintf("n=%d live=%v round-robin x%d", n, live, k), n, live, true, rounds(live, k)}
	}
	scens := []scen{
		fairRun(1, all(1), 3),
		fairRun(2, all(2), 8), // before 70faaf5 nothing was ever read
		fairRun(3, all(3), 8),
		fairRun(3, []int{0, 2}, 8), // before 70faaf5 the last member was never read
		fairRun(3, []int{0, 1}, 8),
		fairRun(4, all(4), 10),
		fairRun(4, []int{0, 2, 3}, 9), // majority, but only member 2 is readable
		fairRun(4, []int{0, 1, 2}, 10),
		fairRun(5, all(5), 10),
		fairRun(5, []int{0, 3, 4}, 9),
		fairRun(7, all(7), 10),
		// the signers sign S1, the leader is away until S1 expire, re-publishes S2, the signers must replace their record
		{"n=2 shared data expire before the leader collects: re-published, signer re-signs", 2, all(2), true,
			cat([]c13Step{tick(0), blk(), tick(0), blk(), tick(1), blk(), tick(1), blk(), {Op: "blocks", Count: 121}}, rounds(all(2), 7))},
		{"n=3 shared data expire before the leader collects: re-published, signers re-sign", 3, all(3), true,
			cat([]c13Step{tick(0), blk(), tick(0), blk(), tick(1), tick(2), blk(), tick(1), tick(2), blk(), {Op: "blocks", Count: 121}}, rounds(all(3), 7))},
		// the leader holds member 1's signature of S1 when S1 expire; member 2 signs S2 before member 1 re-signs:
		// nothing collected for S1 may survive into the witness for S2
		{"n=4 partial collection, shared data expire, a late member signs the new data before the early signer re-signs", 4, []int{0, 1, 2}, false,
			[]c13Step{tick(0), blk(), tick(0), blk(), tick(1), blk(), tick(1), blk(), tick(0), blk(), {Op: "blocks", Count: 121},
				tick(0), blk(), tick(2), blk(), tick(2), blk(), tick(0), blk(), tick(1), blk(), tick(0), blk(), tick(0), blk()}},
		{"n=3 leader restarts after publishing, signer 1 restarts after registering", 3, all(3), false,
			cat(rounds(all(3), 2), []c13Step{{Op: "restart", K: 0}}, rounds(all(3), 1), []c13Step{{Op: "restart", K: 1}}, rounds(all(3), 5))},
		{"n=3 leader's addRecord and signer's register are kept out of two blocks", 3, []int{0, 1}, false,
			[]c13Step{tick(0), blk(), tick(0), tick(0), blk(1), tick(0), tick(1), blk(1), tick(0), blk(), tick(1), tick(1), blk(2), tick(1), blk(2), tick(1), blk(),
				tick(1), blk(), tick(0), tick(1), blk(), tick(0), blk()}},
		{"n=3 designation kept out of a block, leader restarts and sends it again", 3, []int{0, 1}, false,
			cat(rounds([]int{0, 1}, 4), []c13Step{tick(0), blk(4), {Op: "restart", K: 0}, tick(0), tick(0), blk()})},
		{"n=2 a foreign account owns signature domain 0", 2, all(2), false,
			cat(rounds(all(2), 3), []c13Step{{Op: "garbage", K: 0}, blk(), {Op: "garbage", K: 0}, blk()}, rounds(all(2), 3))},
	}
	{
		// n=7: signatures of members 1..3 suffice (need 3). The designation is kept out of
		// the blocks, so each cycle (leader re-publishes because it "tried", signers re-sign,
		// leader restarts and assembles anew) shows one more iteration order of the Go map.
		st := cat(rounds([]int{0, 1, 2, 3}, 4), []c13Step{{Op: "hold-designate"}})
		cycles := 12
		for i := 0; i < cycles; i++ {
			st = cat(st, []c13Step{tick(0), blk(), tick(0), blk(), tick(1), tick(2), tick(3), blk(), {Op: "restart", K: 0}, tick(0)})
		}
		scens = append(scens, scen{"n=7 live {0,1,2,3}: 12 assemblies, designation never included", 7, []int{0, 1, 2, 3}, false, st})
	}
	nrand := 6
	if thorough {
		nrand = 60
	}
	for i := 0; i < nrand; i++ {
		n := 2 + r.Intn(4)
		var st []c13Step
		for j := 0; j < 45; j++ {
			switch x := r.Intn(20); {
			case x < 13:
				st = append(st, tick(r.Intn(n)))
			case x < 17:
				st = append(st, blk())
			case x < 19:
				st = append(st, blk(r.Intn(8), r.Intn(12)))
			default:
				st = append(st, c13Step{Op: "restart", K: r.Intn(n)})
			}
		}
		scens = append(scens, scen{fmt.Sprintf("random schedule #%d, n=%d", i, n), n, all(n), false, st})
	}
	var pcases []string
	for i, sc := range scens {
		var q *c13Seq
		replay := func() any {
			rp := map[string]any{"mode": "real tick closures driven step by step", "scenario": sc.name, "n": sc.n, "steps": sc.steps}
			if q != nil {
				rp["designation_attempts"], rp["labels_with_observations"], rp["sent"] = q.attempts, q.steps, q.sentLog
			}
			return rp
		}
		c13Confirm(c, sc.name, func(slow int) {
			c13Guard(c, sc.name, replay, func() {
				q = newC13Seq(c.t, sc.n, int64(sc.n)*7+int64(i), slow)
				defer q.x.close()
				q.run(sc.steps, r)
				if sc.fair && !q.designated() {
					q.finalIssues(sc.live)
				}
				out := c13Judge(c, sc.name, sc.n, sc.live, sc.fair, q.designated(), q.attempts, q.issues, replay())
				c.st.OutcomeHistogram["bootstrap:"+out]++
				if q.nextID > 0 {
					c.nontr++
				}
				if os.Getenv("VERIF_C13_LOG") != "" {
					fmt.Printf("SEQ %-70s %s attempts=%+v issues=%v\n", sc.name, out, q.attempts, q.issues)
				}
				if i == 1 { // n=2, both live, as labels of the model
					c.st.Samples = append(c.st.Samples, map[string]any{"run": sc.name, "outcome": out, "designation_attempts": q.attempts, "labels": q.steps})
				}
				pcases = append(pcases, "(* "+sc.name+": "+out+" *) "+q.coq())
			})
		})
		if q != nil {
			c.st.OpHistogram["bootstrap-tick"] += q.ticks
			c.st.Evaluations += q.ticks
		}
		c.st.Histories++
	}
	// The real enableNotary loops, one goroutine per live member, harness-produced blocks.
	conc := []struct {
		n    int
		live []int
	}{{2, all(2)}, {3, []int{0, 2}}, {3, all(3)}, {4, all(4)}}
	if thorough {
		for n := 5; n <= 7; n++ {
			conc = append(conc, struct {
				n    int
				live []int
			}{n, all(n)})
		}
	}
	for i, sc := range conc {
		c13Confirm(c, fmt.Sprintf("enableNotary n=%d live=%v", sc.n, sc.live), func(slow int) {
			c13Guard(c, fmt.Sprintf("enableNotary n=%d live=%v", sc.n, sc.live), func() any { return map[string]any{"n": sc.n, "live": sc.live} }, func() {
				run := c13RunConcurrent(c.t, sc.n, sc.live, 40*min(slow, 2), int64(900+i), slow)
				var atts []c13Attempt
				for _, d := range run.Designate {
					a := c13Attempt{By: d.Order, AllOwn: true, Verdict: "accepted"}
					if !d.Accepted {
						a.Verdict = d.Err
					}
					for _, b := range d.Order {
						if b < 0 {
							a.AllOwn = false
						}
					}
					atts = append(atts, a)
				}
				out := c13Judge(c, run.Mode, sc.n, sc.live, true, run.Done, atts, nil, run)
				c.st.OutcomeHistogram["enableNotary:"+out]++
				c.nontr++
				c.st.Extra[fmt.Sprintf("enableNotary n=%d live=%v", sc.n, sc.live)] = map[string]any{
					"blocks": run.Blocks, "budget": run.Budget, "designated": run.Done, "returned": run.Returned, "sent": run.Sent}
			})
		})
		c.st.Histories++
	}
	defs := "Definition pcases : list pcase := [\n" + strings.Join(pcases, ";\n") + "\n].\n"
	srcCheck, srcFacts := "check_src "+c13Variant()+" (mkVariant 99 false) 99 false false false", map[string]any{}
	c13Guard(c, "go/ast walk over deploy/notary.go", func() any { return nil }, func() { srcCheck, srcFacts = c13SourceFacts(c.t) })
	c.st.Extra["deploy/notary.go index expressions (go/ast)"] = srcFacts
	c.st.Evaluations++
	// Advisory source-shape tie (definitions named T*): the loop shapes of deploy/notary.go as go/ast sees
	// them, against the model's variant. A refactoring may change the shape and keep the behaviour, so a
	// non-empty T_src makes the check search deeper instead of failing (like the parameter ties).
	defs += "(* index expressions of deploy/notary.go found by go/ast, against the model's variant *)\n" +
		"Definition T_src := Eval vm_compute in failures_from 0 [" + srcCheck + "].\nPrint T_src.\n"
	return defs, " ++ map (check_pcase " + c13Variant() + ") pcases"
}
